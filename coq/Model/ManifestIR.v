(* Model/ManifestIR.v — the IR into which translator/C15.sh parses the bodies of
   the generated methods of every manifest structure, its interpreters, and the
   decidable relation [ops_realise] between a schema (from the struct
   declaration and tags) and the IR (from the generated code).

   One IR step = one per-field block of the generator template
   (cmd/manifestcodegen/template_methods.tpl.go); the translator refuses any
   statement sequence that is not one of these shapes.  Each step records what
   the Go statement does on the wire:
     - the number the code ADDS TO totalN (a literal in the generated text, or
       binary.Size / len / the callee's result), and
     - the number of bytes binary.Read / binary.Write really moves, which is
       fixed by the Go type of the field (width [w], array length [len],
       countType width [cw]).
   The interpreters are positional: step k works on field k of the value; that
   the step names field k of the declaration is checked by [ops_realise].
   No proofs here. *)
From Fiano Require Import Base.Bytes Model.Manifest.
Open Scope Z_scope.

(* ---- ReadFrom / ReadDataFrom ---- *)
Inductive rprog :=
| RNil
| RCons (st : rstep) (rest : rprog)
with rstep :=
| RFixed (n : Z) (w : nat) (f : fname)        (* n, err := N, binary.Read(r, LE, &s.F) *)
| RArray (n : Z) (len : nat) (f : fname)      (* n, err := N, binary.Read(r, LE, s.F[:]) *)
| RStructRaw (f : fname) (layout : schema)    (* binary.Read(r, LE, &s.F); totalN += binary.Size(s.F) *)
| RSub (f : fname) (p : rprog)                (* n, err := s.F.ReadFrom(r) *)
| RList (cw : nat) (f : fname) (p : rprog)    (* count; make; for idx { s.F[idx].ReadFrom(r) } *)
| RListInt (cw w : nat) (f : fname)           (* same, items of a named basic type *)
| RListIntByValue (cw w : nat) (f : fname)    (* same, but the item's ReadFrom has a VALUE receiver:
                                                  binary.Read gets a non-pointer and fails, so only
                                                  the empty list can be read *)
| RBytesPrefixed (cw : nat) (f : fname)       (* size; make; binary.Read(r, LE, s.F) *)
| RBytesCounted (cw : nat) (e : cexpr) (f : fname).  (* size := CT(s.<expr>); make; binary.Read *)

Scheme rprog_mind := Induction for rprog Sort Prop
  with rstep_mind := Induction for rstep Sort Prop.
Combined Scheme rprog_rstep_ind from rprog_mind, rstep_mind.

(* ---- WriteTo (the statements after s.Rehash()) ---- *)
Inductive wprog :=
| WNil
| WCons (st : wstep) (rest : wprog)
with wstep :=
| WFixed (n : Z) (w : nat) (f : fname)
| WArray (n : Z) (len : nat) (f : fname)
| WSub (f : fname) (p : wprog)                (* n, err := s.F.WriteTo(w) *)
| WList (cw : nat) (f : fname) (p : wprog)
| WListInt (cw w : nat) (f : fname)
| WBytesPrefixed (cw : nat) (f : fname)
| WBytesRaw (f : fname).                      (* n, err := len(s.F), binary.Write(w, LE, s.F) *)

Scheme wprog_mind := Induction for wprog Sort Prop
  with wstep_mind := Induction for wstep Sort Prop.
Combined Scheme wprog_wstep_ind from wprog_mind, wstep_mind.

(* ---- <F>TotalSize, in declaration order ---- *)
Inductive zprog :=
| ZNil
| ZCons (f : fname) (st : zstep) (rest : zprog)
with zstep :=
| ZConst (n : Z)                               (* return N *)
| ZSub (p : zprog)                             (* return s.F.TotalSize() *)
| ZList (cw : option nat) (p : zprog)          (* [size += binary.Size(CT(0))]; for idx { size += s.F[idx].TotalSize() } *)
| ZListInt (cw : option nat) (w : nat)         (* items: uint64(binary.Size(v)) *)
| ZBytes (cw : option nat).                    (* [size := binary.Size(CT(0))]; size += len(s.F) *)

Scheme zprog_mind := Induction for zprog Sort Prop
  with zstep_mind := Induction for zstep Sort Prop.
Combined Scheme zprog_zstep_ind from zprog_mind, zstep_mind.

(* the IR of one generated structure *)
Record sir := mkSir {
  ir_read : rprog;                              (* ReadFrom (for an element: header, then ReadDataFrom) *)
  ir_write : wprog;
  ir_sizes : zprog;
  ir_total : list fname;                       (* TotalSize: size += s.<F>TotalSize() for these, in order *)
  ir_offsets : list (fname * option fname);   (* <F>Offset: None = return 0; Some g = s.gOffset() + s.gTotalSize() *)
  ir_rehash : rhspec                            (* Rehash(): the assignments *)
}.

(* ---------------- interpreters ---------------- *)

Definition addn (c : Z) (o : option (value * Z * bytes)) : option (value * Z * bytes) :=
  match o with Some (l, n, r') => Some (l, c + n, r') | None => None end.

(* result of a read: fields in step order, what was added to totalN, rest *)
Fixpoint run_r (p : rprog) (en : env) (b : bytes) {struct p} : option (value * Z * bytes) :=
  match p with
  | RNil => Some (VNil, 0, b)
  | RCons st rest =>
    match run_rstep st en b with
    | Some (x, n1, b1) =>
      match run_r rest (en ++ [x]) b1 with
      | Some (xs, n2, b2) => Some (VCons x xs, n1 + n2, b2)
      | None => None
      end
    | None => None
    end
  end
with run_rstep (st : rstep) (en : env) (b : bytes) {struct st} : option (value * Z * bytes) :=
  match st with
  | RFixed n w _ =>
    match take (Z.of_nat w) b with
    | Some (h, r) => Some (VInt (le_dec h), n, r)
    | None => None
    end
  | RArray n len _ =>
    match take (Z.of_nat len) b with
    | Some (h, r) => Some (VBytes h, n, r)
    | None => None
    end
  | RStructRaw _ layout =>
    match dec_s layout [] b with
    | Some (x, r) => Some (x, size_s layout x, r)
    | None => None
    end
  | RSub _ p => run_r p [] b
  | RList cw _ p =>
    match take (Z.of_nat cw) b with
    | Some (h, r) => addn (Z.of_nat cw)
      ((fix go (k : nat) (b : bytes) : option (value * Z * bytes) :=
         match k with
         | O => Some (VNil, 0, b)
         | S k' =>
           match run_r p [] b with
           | Some (x, n1, b1) =>
             match go k' b1 with
             | Some (xs, n2, b2) => Some (VCons x xs, n1 + n2, b2)
             | None => None
             end
           | None => None
           end
         end) (Z.to_nat (le_dec h)) r)
    | None => None
    end
  | RListInt cw w _ =>
    match take (Z.of_nat cw) b with
    | Some (h, r) => addn (Z.of_nat cw)
      ((fix go (k : nat) (b : bytes) : option (value * Z * bytes) :=
         match k with
         | O => Some (VNil, 0, b)
         | S k' =>
           match take (Z.of_nat w) b with
           | Some (h1, b1) =>
             match go k' b1 with
             | Some (xs, n2, b2) => Some (VCons (VInt (le_dec h1)) xs, Z.of_nat w + n2, b2)
             | None => None
             end
           | None => None
           end
         end) (Z.to_nat (le_dec h)) r)
    | None => None
    end
  | RListIntByValue cw w _ =>
    match take (Z.of_nat cw) b with
    | Some (h, r) => if le_dec h =? 0 then Some (VNil, Z.of_nat cw, r) else None
    | None => None
    end
  | RBytesPrefixed cw _ =>
    match take (Z.of_nat cw) b with
    | Some (h, r) =>
      match take (le_dec h) r with
      | Some (d, r') => Some (VBytes d, Z.of_nat cw + zlen d, r')
      | None => None
      end
    | None => None
    end
  | RBytesCounted cw e _ =>
    match take ((ceval e en) mod wmax cw) b with
    | Some (d, r') => Some (VBytes d, zlen d, r')
    | None => None
    end
  end.

(* result of a write: bytes produced, what was added to totalN *)
Fixpoint run_w (p : wprog) (v : value) {struct p} : bytes * Z :=
  match p, v with
  | WCons st rest, VCons x xs =>
    let '(b1, n1) := run_wstep st x in
    let '(b2, n2) := run_w rest xs in (b1 ++ b2, n1 + n2)
  | _, _ => ([], 0)
  end
with run_wstep (st : wstep) (v : value) {struct st} : bytes * Z :=
  match st with
  | WFixed n w _ => (match v with VInt z => le_enc w z | _ => [] end, n)
  | WArray n len _ => (match v with VBytes b => b | _ => [] end, n)
  | WSub _ p => run_w p v
  | WList cw _ p =>
    let '(b, n) :=
      (fix go (l : value) : bytes * Z :=
         match l with
         | VCons x xs =>
           let '(b1, n1) := run_w p x in
           let '(b2, n2) := go xs in (b1 ++ b2, n1 + n2)
         | _ => ([], 0)
         end) v in
    (le_enc cw (vlen v) ++ b, Z.of_nat cw + n)
  | WListInt cw w _ =>
    let '(b, n) :=
      (fix go (l : value) : bytes * Z :=
         match l with
         | VCons (VInt z) xs => let '(b2, n2) := go xs in (le_enc w z ++ b2, Z.of_nat w + n2)
         | _ => ([], 0)
         end) v in
    (le_enc cw (vlen v) ++ b, Z.of_nat cw + n)
  | WBytesPrefixed cw _ =>
    match v with
    | VBytes b => (le_enc cw (zlen b) ++ b, Z.of_nat cw + zlen b)
    | _ => ([], 0)
    end
  | WBytesRaw _ =>
    match v with VBytes b => (b, zlen b) | _ => ([], 0) end
  end.

Definition ocw (cw : option nat) : Z := match cw with Some c => Z.of_nat c | None => 0 end.

(* sum of all <F>TotalSize of a structure (its TotalSize, given ir_total lists
   every field once, which ops_realise checks) *)
Fixpoint run_z (p : zprog) (v : value) {struct p} : Z :=
  match p, v with
  | ZCons _ st rest, VCons x xs => run_zstep st x + run_z rest xs
  | _, _ => 0
  end
with run_zstep (st : zstep) (v : value) {struct st} : Z :=
  match st with
  | ZConst n => n
  | ZSub p => run_z p v
  | ZList cw p =>
    ocw cw + (fix go (l : value) : Z :=
                match l with VCons x xs => run_z p x + go xs | _ => 0 end) v
  | ZListInt cw w => ocw cw + Z.of_nat w * vlen v
  | ZBytes cw => ocw cw + match v with VBytes b => zlen b | _ => 0 end
  end.

(* <F>TotalSize of field i *)
Fixpoint run_zfield (p : zprog) (v : value) (i : nat) : Z :=
  match p, v, i with
  | ZCons _ st _, VCons x _, O => run_zstep st x
  | ZCons _ _ rest, VCons _ xs, S k => run_zfield rest xs k
  | _, _, _ => 0
  end.

(* <F>Offset for the field at position i, following the chain of
   "s.gOffset() + s.gTotalSize()" through the names; fuel = number of fields *)
Fixpoint zindex (p : zprog) (nm : fname) : option nat :=
  match p with
  | ZNil => None
  | ZCons f _ rest =>
    if name_eqb f nm then Some O
    else match zindex rest nm with Some k => Some (S k) | None => None end
  end.

Fixpoint lookup_off (offs : list (fname * option fname)) (nm : fname) : option (option fname) :=
  match offs with
  | [] => None
  | (f, o) :: rest => if name_eqb f nm then Some o else lookup_off rest nm
  end.

Fixpoint run_off (fuel : nat) (ir : sir) (v : value) (nm : fname) : option Z :=
  match fuel with
  | O => None
  | S fuel' =>
    match lookup_off (ir_offsets ir) nm with
    | None => None
    | Some None => Some 0
    | Some (Some g) =>
      match run_off fuel' ir v g, zindex (ir_sizes ir) g with
      | Some o, Some k => Some (o + run_zfield (ir_sizes ir) v k)
      | _, _ => None
      end
    end
  end.

(* ---------------- the decidable relation ---------------- *)
Fixpoint cexpr_eqb (a b : cexpr) : bool :=
  match a, b with
  | CConst x, CConst y => x =? y
  | CField i, CField j => Nat.eqb i j
  | CAdd a1 a2, CAdd b1 b2 => cexpr_eqb a1 b1 && cexpr_eqb a2 b2
  | CMul a1 a2, CMul b1 b2 => cexpr_eqb a1 b1 && cexpr_eqb a2 b2
  | CShr a1 k, CShr b1 l => cexpr_eqb a1 b1 && (k =? l)
  | CWrap k a1, CWrap l b1 => (k =? l) && cexpr_eqb a1 b1
  | CIfEq a1 k a2 a3, CIfEq b1 l b2 b3 =>
    cexpr_eqb a1 b1 && (k =? l) && cexpr_eqb a2 b2 && cexpr_eqb a3 b3
  | _, _ => false
  end.

Definition rexpr_eqb (a b : rexpr) : bool :=
  match a, b with
  | XConst x, XConst y => x =? y
  | XTotalSize, XTotalSize => true
  | XOffsetOf i, XOffsetOf j => Nat.eqb i j
  | _, _ => false
  end.

Fixpoint natlist_eqb (a b : list nat) : bool :=
  match a, b with
  | [], [] => true
  | x :: a', y :: b' => Nat.eqb x y && natlist_eqb a' b'
  | _, _ => false
  end.

Definition rhassign_eqb (a b : rhassign) : bool :=
  natlist_eqb (rh_path a) (rh_path b) && Nat.eqb (rh_width a) (rh_width b) &&
  rexpr_eqb (rh_expr a) (rh_expr b).

Fixpoint rhspec_eqb (a b : rhspec) : bool :=
  match a, b with
  | [], [] => true
  | x :: a', y :: b' => rhassign_eqb x y && rhspec_eqb a' b'
  | _, _ => false
  end.

(* a layout binary.Read can fill directly (fixed-width integers and byte arrays
   only), and the same in the declaration and in the code *)
Fixpoint plain_eqb (a b : schema) : bool :=
  match a, b with
  | SNil, SNil => true
  | SCons n (FInt w) r, SCons n' (FInt w') r' => name_eqb n n' && Nat.eqb w w' && plain_eqb r r'
  | SCons n (FArr k) r, SCons n' (FArr k') r' => name_eqb n n' && Nat.eqb k k' && plain_eqb r r'
  | _, _ => false
  end.

Fixpoint realise_r (s : schema) (p : rprog) {struct s} : bool :=
  match s, p with
  | SNil, RNil => true
  | SCons nm t rest, RCons st p' => realise_rf nm t st && realise_r rest p'
  | _, _ => false
  end
with realise_rf (nm : fname) (t : fty) (st : rstep) {struct t} : bool :=
  match t, st with
  | FInt w, RFixed n w' f => name_eqb f nm && Nat.eqb w w' && (n =? Z.of_nat w)
  | FArr len, RArray n len' f => name_eqb f nm && Nat.eqb len len' && (n =? Z.of_nat len)
  | FSub s _, RStructRaw f layout => name_eqb f nm && plain_eqb s layout
  | FSub s _, RSub f p => name_eqb f nm && realise_r s p
  | FList cw s _, RList cw' f p => name_eqb f nm && Nat.eqb cw cw' && realise_r s p
  | FListInt cw w, RListInt cw' w' f => name_eqb f nm && Nat.eqb cw cw' && Nat.eqb w w'
  | FBytesP cw, RBytesPrefixed cw' f => name_eqb f nm && Nat.eqb cw cw'
  | FBytesC cw e, RBytesCounted cw' e' f => name_eqb f nm && Nat.eqb cw cw' && cexpr_eqb e e'
  | _, _ => false
  end.

Fixpoint realise_w (s : schema) (p : wprog) {struct s} : bool :=
  match s, p with
  | SNil, WNil => true
  | SCons nm t rest, WCons st p' => realise_wf nm t st && realise_w rest p'
  | _, _ => false
  end
with realise_wf (nm : fname) (t : fty) (st : wstep) {struct t} : bool :=
  match t, st with
  | FInt w, WFixed n w' f => name_eqb f nm && Nat.eqb w w' && (n =? Z.of_nat w)
  | FArr len, WArray n len' f => name_eqb f nm && Nat.eqb len len' && (n =? Z.of_nat len)
  | FSub s _, WSub f p => name_eqb f nm && realise_w s p
  | FList cw s _, WList cw' f p => name_eqb f nm && Nat.eqb cw cw' && realise_w s p
  | FListInt cw w, WListInt cw' w' f => name_eqb f nm && Nat.eqb cw cw' && Nat.eqb w w'
  | FBytesP cw, WBytesPrefixed cw' f => name_eqb f nm && Nat.eqb cw cw'
  | FBytesC _ _, WBytesRaw f => name_eqb f nm
  | _, _ => false
  end.

Definition ocw_is (cw : option nat) (c : nat) : bool :=
  match cw with Some c' => Nat.eqb c c' | None => false end.

Fixpoint realise_z (s : schema) (p : zprog) {struct s} : bool :=
  match s, p with
  | SNil, ZNil => true
  | SCons nm t rest, ZCons f st p' => name_eqb f nm && realise_zf t st && realise_z rest p'
  | _, _ => false
  end
with realise_zf (t : fty) (st : zstep) {struct t} : bool :=
  match t, st with
  | FInt w, ZConst n => n =? Z.of_nat w
  | FArr len, ZConst n => n =? Z.of_nat len
  | FSub s _, ZSub p => realise_z s p
  | FList cw s _, ZList cw' p => ocw_is cw' cw && realise_z s p
  | FListInt cw w, ZListInt cw' w' => ocw_is cw' cw && Nat.eqb w w'
  | FBytesP cw, ZBytes cw' => ocw_is cw' cw
  | FBytesC _ _, ZBytes None => true
  | _, _ => false
  end.

Fixpoint names_s (s : schema) : list fname :=
  match s with SNil => [] | SCons n _ rest => n :: names_s rest end.

Fixpoint strlist_eqb (a b : list fname) : bool :=
  match a, b with
  | [], [] => true
  | x :: a', y :: b' => name_eqb x y && strlist_eqb a' b'
  | _, _ => false
  end.

(* offsets: first field returns 0, every other field chains to its predecessor *)
Fixpoint offsets_ok (prev : option fname) (names : list fname)
         (offs : list (fname * option fname)) : bool :=
  match names, offs with
  | [], [] => true
  | n :: names', (f, o) :: offs' =>
    name_eqb f n &&
    (match prev, o with
     | None, None => true
     | Some g, Some g' => name_eqb g g'
     | _, _ => false
     end) && offsets_ok (Some n) names' offs'
  | _, _ => false
  end.

Fixpoint nodup_names (l : list fname) : bool :=
  match l with
  | [] => true
  | x :: r => negb (existsb (name_eqb x) r) && nodup_names r
  end.

Definition ops_realise (d : sdesc) (ir : sir) : bool :=
  realise_r (sd_schema d) (ir_read ir) &&
  realise_w (sd_schema d) (ir_write ir) &&
  realise_z (sd_schema d) (ir_sizes ir) &&
  strlist_eqb (names_s (sd_schema d)) (ir_total ir) &&
  offsets_ok None (names_s (sd_schema d)) (ir_offsets ir) &&
  nodup_names (names_s (sd_schema d)) &&
  rhspec_eqb (sd_rh d) (ir_rehash ir).

(* ---------------- containers ---------------- *)
Inductive ekind := EOne | EPtr | ESlice.

Record cir := mkCir {
  ci_index : list (bytes * nat);              (* fieldIndexByStructID: ID constant -> index *)
  ci_missing : list nat;                      (* indices initialised to true in missingFieldsByIndices *)
  ci_nfields : nat;                           (* length of that array *)
  ci_cases : list (bytes * fname * ekind);   (* the dispatch switch of ReadFrom, in order *)
  ci_write : list (fname * ekind);           (* WriteTo blocks *)
  ci_sizes : zprog;
  ci_total : list fname;
  ci_offsets : list (fname * option fname);
  ci_rehash : option crehash                  (* Rehash(): s.<hdr> = T(s.<hand-written fn>()) *)
}.

Definition ekind_of (m : mult) : ekind :=
  match m with MOne => EOne | MOpt => EPtr | MMany => ESlice end.

Definition ekind_eqb (a b : ekind) : bool :=
  match a, b with EOne, EOne | EPtr, EPtr | ESlice, ESlice => true | _, _ => false end.

Fixpoint index_ok (k : nat) (es : list celem) (ix : list (bytes * nat)) : bool :=
  match es, ix with
  | [], [] => true
  | e :: es', (id, i) :: ix' => bytes_eqb (ce_id e) id && Nat.eqb i k && index_ok (S k) es' ix'
  | _, _ => false
  end.

Fixpoint cases_ok (es : list celem) (cs : list (bytes * fname * ekind)) : bool :=
  match es, cs with
  | [], [] => true
  | e :: es', (id, f, k) :: cs' =>
    bytes_eqb (ce_id e) id && name_eqb (ce_name e) f && ekind_eqb (ekind_of (ce_mult e)) k &&
    cases_ok es' cs'
  | _, _ => false
  end.

Fixpoint cwrite_ok (es : list celem) (ws : list (fname * ekind)) : bool :=
  match es, ws with
  | [], [] => true
  | e :: es', (f, k) :: ws' =>
    name_eqb (ce_name e) f && ekind_eqb (ekind_of (ce_mult e)) k && cwrite_ok es' ws'
  | _, _ => false
  end.

Fixpoint required_indices (k : nat) (es : list celem) : list nat :=
  match es with
  | [] => []
  | e :: es' =>
    match ce_mult e with
    | MOne => k :: required_indices (S k) es'
    | _ => required_indices (S k) es'
    end
  end.

Fixpoint ids_distinct (es : list celem) : bool :=
  match es with
  | [] => true
  | e :: r => negb (existsb (fun e' => bytes_eqb (ce_id e) (ce_id e')) r) && ids_distinct r
  end.

Fixpoint csizes_ok (es : list celem) (p : zprog) : bool :=
  match es, p with
  | [], ZNil => true
  | e :: es', ZCons f st p' =>
    name_eqb (ce_name e) f &&
    (match ce_mult e, st with
     | MMany, ZList None q => realise_z (sd_schema (ce_desc e)) q
     | MOne, ZSub q => realise_z (sd_schema (ce_desc e)) q
     | MOpt, ZSub q => realise_z (sd_schema (ce_desc e)) q
     | _, _ => false
     end) && csizes_ok es' p'
  | _, _ => false
  end.

Definition crehash_eqb (a b : option crehash) : bool :=
  match a, b with
  | None, None => true
  | Some x, Some y =>
    Nat.eqb (cr_field x) (cr_field y) && Nat.eqb (cr_width x) (cr_width y) &&
    Nat.eqb (cr_elem x) (cr_elem y) && Nat.eqb (cr_sub x) (cr_sub y)
  | _, _ => false
  end.

Definition cops_realise (c : cdesc) (ir : cir) : bool :=
  index_ok O (cd_elems c) (ci_index ir) &&
  natlist_eqb (required_indices O (cd_elems c)) (ci_missing ir) &&
  Nat.eqb (ci_nfields ir) (length (cd_elems c)) &&
  cases_ok (cd_elems c) (ci_cases ir) &&
  cwrite_ok (cd_elems c) (ci_write ir) &&
  csizes_ok (cd_elems c) (ci_sizes ir) &&
  crehash_eqb (cd_rh c) (ci_rehash ir) &&
  strlist_eqb (map ce_name (cd_elems c)) (ci_total ir) &&
  offsets_ok None (map ce_name (cd_elems c)) (ci_offsets ir) &&
  ids_distinct (cd_elems c).

(* side conditions on a container description used by the round-trip theorem: the
   StructInfo layout starts with a non-empty ID array, every element starts with that
   same plain StructInfo, the structure IDs are pairwise different *)
Definition elem_shape_ok (hdr : schema) (e : celem) : bool :=
  match sd_schema (ce_desc e) with
  | SCons _ (FSub hs _) _ => plain_eqb hdr hs
  | _ => false
  end.

Definition hdr_ok (hdr : schema) : bool :=
  match hdr with SCons _ (FArr (S _)) _ => true | _ => false end.

Definition cdesc_ok (c : cdesc) : bool :=
  hdr_ok (cd_hdr c) && forallb (elem_shape_ok (cd_hdr c)) (cd_elems c) && ids_distinct (cd_elems c).

(* side conditions for the Rehash of a container: every element's own rehash is well
   placed (sdesc_ok), never touches the structure ID (path [0;0]), the StructInfo has no
   rehash of its own; the container's own assignment (rehashedBPMH) targets an integer
   field (not the StructInfo) of the first, required element, which no rehash of that
   element overwrites *)
Definition celem_ok (e : celem) : bool :=
  sdesc_ok (ce_desc e) &&
  forallb (fun a => pdisj [O; O] (rh_path a)) (sd_rh (ce_desc e)) &&
  match sd_schema (ce_desc e) with
  | SCons _ (FSub hs []) _ => plain hs
  | _ => false
  end.

Definition crh_ok (c : cdesc) : bool :=
  match cd_rh c with
  | None => true
  | Some r =>
    match cd_elems c with
    | e0 :: _ =>
      (match ce_mult e0 with MOne => true | _ => false end) &&
      no_counted (sd_schema (ce_desc e0)) &&
      (match field_s (sd_schema (ce_desc e0)) (cr_field r) with
       | Some (FInt w) => Nat.eqb w (cr_width r)
       | _ => false
       end) &&
      negb (Nat.eqb (cr_field r) O) &&
      forallb (fun a => pdisj [cr_field r] (rh_path a)) (sd_rh (ce_desc e0)) &&
      (match nth_error (cd_elems c) (cr_elem r) with
       | Some ek => match ce_mult ek with MOne => true | _ => false end
       | None => false
       end)
    | [] => false
    end
  end.

Definition cdesc_full_ok (c : cdesc) : bool :=
  cdesc_ok c && forallb celem_ok (cd_elems c) && crh_ok c.
