(* Model/Integrity.v — executable model of the integrity verdicts of
   pkg/intel/metadata/cbnt, pkg/intel/metadata/bg and pkg/amd/psb (property C16).

   Transcribes (Go function -> definition):
     cbnt/key.go        reverseBytes, BitSize.InBytes/SetInBytes/SetInBits, Key.keyDataSize,
                        Key.PubKey -> pub_key, Key.SetPubKey -> set_pub_key
     cbnt/signature.go  Signature.SignatureData -> signature_data,
                        Signature.SetSignatureData -> set_signature_data,
                        Signature.SetSignatureByData -> set_signature_by_data
     cbnt/signature_types.go  SignatureRSAPSS/RSAASA/ECDSA/SM2.Verify -> sig_verify,
                        NewSignatureData (algorithm detection, hash selection) -> new_signature_data
     cbnt/signature.go  Signature.SetSignature -> sig_set_signature (a function of the structure as it
                        was before the call)
     cbnt/key_signature.go    KeySignature.Verify -> ks_verify, SetSignature / SetSignatureAuto -> ks_set_signature
     cbnt/cbntkey/manifest.go        Manifest.SetSignature -> km_set_signature
     cbnt/cbntkey/manifest.go        ValidateBPMKey -> validate_bpm_key
     cbnt/cbntbootpolicy/manifest.go calculateOffsetFromPhysAddr, IBBDataRanges, ValidateIBB
     bg/key.go, bg/signature.go, bg/signature_types.go, bg/key_signature.go -> bg_pub_key,
                        bg_signature_data, bg_ks_verify; bgkey ValidateBPMKey -> bg_validate_bpm_key;
                        bgbootpolicy ValidateIBB -> bg_validate_ibb
     psb/util.go        reverse, checkBoundaries
     psb/keys.go        newTokenOrRootKey, NewRootKey, NewTokenKey -> token_key, Key.Get -> psb_key_get,
                        Key.SignatureSize, Key.checkValid
     psb/signature.go   NewSignedBlob -> new_signed_blob
     psb/biosentries.go ValidateRTM from the extracted entries on -> validate_rtm (signed data =
                        volume ++ [level 1 directory at level 2] ++ directory; reversed signature)
     psb/psbbinary.go   newPspHeader (the five fields used), getSignedBlob -> get_signed_blob
     psb/pspentries.go  ValidatePSPEntry (from the entry bytes on) -> psp_validate

   The model describes the code AFTER the repairs in /verif/fixes/C16-*.diff
   (fixed-width r,s / x,y; the signer hashes with the algorithm it records; RSA
   size detection in bits).

   Oracles (Section variables, never axioms):
     verify : pubkey -> scheme -> hash alg -> message -> signature -> bool
              (hash-then-verify of crypto/rsa as one function; ECDSA/SM2 verification is
               "not implemented" in the Go code and is an error in the model too)
     hash   : alg -> bytes -> bytes     (crypto hash.Hash: Write*, Sum)
     sign_rsa, sign_ec : privkey -> scheme -> hash alg -> message -> signature bytes / (r, s)
              (the crypto.Signer; the hash is the one recorded in the structure)
   Not modelled: the manifest (de)serialisers (C15), pretty printing, PrintBPMPubKey /
   PrintKMPubKey, FillSignature/NewSignatureByData, the PSP/BIOS directory walk of
   psb.GetKeys / ValidateRTM / ValidatePSPEntries (directory structures are C17),
   NewKeyFromDatabase, NewMultiKeySignedBlob, the allocation sizes of psb key parsing. *)
From Fiano Require Import Base.Bytes Gen.Consts.
Open Scope Z_scope.

Definition u16 (x : Z) : Z := x mod 2 ^ 16.
Definition u32 (x : Z) : Z := x mod 2 ^ 32.
Definition u64 (x : Z) : Z := x mod 2 ^ 64.

(* ------------------------------------------------------------------ *)
(* encodings: byte reversal and math/big conversions                   *)
(* ------------------------------------------------------------------ *)

Definition reverse_bytes (b : bytes) : bytes := rev b.

(* big.Int.BitLen and len(big.Int.Bytes()) of a non-negative number *)
Definition bitlen (n : Z) : Z := if n <=? 0 then 0 else Z.log2 n + 1.
Definition bytelen (n : Z) : Z := if n <=? 0 then 0 else Z.log2 n / 8 + 1.
(* big.Int.Bytes(): minimal big-endian magnitude *)
Definition z_bytes_be (n : Z) : bytes := be_enc (Z.to_nat (bytelen n)) n.
(* new(big.Int).SetBytes(b) *)
Definition z_of_be (b : bytes) : Z := be_dec b.
(* n.FillBytes(make([]byte, w)) for n < 256^w *)
Definition fill_be (w : Z) (n : Z) : bytes := be_enc (Z.to_nat w) n.

(* ------------------------------------------------------------------ *)
(* public keys and the Key structure                                   *)
(* ------------------------------------------------------------------ *)

Inductive pubkey : Type :=
| PubRSA (n e : Z)      (* *rsa.PublicKey *)
| PubECC (x y : Z)      (* ecdsa.PublicKey on P-256 *)
| PubSM2 (x y : Z).     (* sm2.PublicKey *)

Record key := mkKey { k_alg : Z; k_ver : Z; k_size : Z (* BitSize, uint16 *); k_data : bytes }.

Definition in_bytes (bits : Z) : Z := bits / 8.                 (* uint16(ks >> 3) *)
Definition of_bytes_bits (n : Z) : Z := u16 (u16 n * 8).        (* BitSize(uint16(n) << 3) *)

(* error classes *)
Definition E_SIG : Z := 1.       (* "invalid signature" *)
Definition E_PUBKEY : Z := 2.    (* "invalid public key" / unexpected algorithm / size *)
Definition E_VERIFY : Z := 3.    (* "verification failed" *)
Definition E_COORD : Z := 4.     (* SetPubKey / SetSignatureData: component does not fit *)
Definition E_SIGNALG : Z := 5.   (* signing algorithm not implemented / wrong key type *)

Definition key_data_size (alg_rsa : Z) (with_ecc : bool) (k : key) : Z :=
  if k_alg k =? alg_rsa then in_bytes (k_size k) + 4
  else if with_ecc && ((k_alg k =? c16_alg_ecc) || (k_alg k =? c16_alg_sm2))
       then in_bytes (k_size k) * 2
       else -1.

(* cbnt Key.PubKey *)
Definition pub_key (k : key) : outcome pubkey :=
  let es := key_data_size c16_alg_rsa true k in
  let d := k_data k in
  if es <? 0 then Err E_PUBKEY else
  if negb (zlen d =? es) then Err E_PUBKEY else
  if k_alg k =? c16_alg_rsa then
    do m <- of_opt 1 (slice 4 (zlen d) d);
    Ok (PubRSA (z_of_be (reverse_bytes m)) (rd 0 4 d))
  else
    let ks := in_bytes (k_size k) in
    do xb <- of_opt 2 (slice 0 ks d);
    do yb <- of_opt 3 (slice ks (zlen d) d);
    if k_alg k =? c16_alg_ecc
    then Ok (PubECC (z_of_be (reverse_bytes xb)) (z_of_be (reverse_bytes yb)))
    else Ok (PubSM2 (z_of_be (reverse_bytes xb)) (z_of_be (reverse_bytes yb))).

(* bg Key.PubKey: RSA only *)
Definition bg_pub_key (k : key) : outcome pubkey :=
  let es := key_data_size c16_bg_alg_rsa false k in
  let d := k_data k in
  if es <? 0 then Err E_PUBKEY else
  if negb (zlen d =? es) then Err E_PUBKEY else
  do m <- of_opt 1 (slice 4 (zlen d) d);
  Ok (PubRSA (z_of_be (reverse_bytes m)) (rd 0 4 d)).

(* x,y (or r,s) of at most 256 bits, left-padded to 32 bytes and stored little-endian *)
Definition coord_ok (x : Z) : bool := (0 <=? x) && (bitlen x <=? 256).

Definition set_pub_key_rsa (alg_rsa n e : Z) : key :=
  let nb := z_bytes_be n in
  mkKey alg_rsa 16 (of_bytes_bits (zlen nb)) (le_enc 4 (u32 e) ++ reverse_bytes nb).

(* cbnt Key.SetPubKey (Version = 0x10) *)
Definition set_pub_key (p : pubkey) : outcome key :=
  match p with
  | PubRSA n e => Ok (set_pub_key_rsa c16_alg_rsa n e)
  | PubECC x y =>
    if coord_ok x && coord_ok y
    then Ok (mkKey c16_alg_ecc 16 256 (reverse_bytes (fill_be 32 x) ++ reverse_bytes (fill_be 32 y)))
    else Err E_COORD
  | PubSM2 x y =>
    if coord_ok x && coord_ok y
    then Ok (mkKey c16_alg_sm2 16 256 (reverse_bytes (fill_be 32 x) ++ reverse_bytes (fill_be 32 y)))
    else Err E_COORD
  end.

Definition bg_set_pub_key (p : pubkey) : outcome key :=
  match p with
  | PubRSA n e => Ok (set_pub_key_rsa c16_bg_alg_rsa n e)
  | _ => Err E_PUBKEY
  end.

(* ------------------------------------------------------------------ *)
(* the Signature structure                                             *)
(* ------------------------------------------------------------------ *)

Record sigrec := mkSig { s_scheme : Z; s_ver : Z; s_keysize : Z; s_hashalg : Z; s_data : bytes }.

Inductive sigdata : Type :=
| SigPSS (b : bytes)
| SigSSA (b : bytes)
| SigECDSA (r s : Z)
| SigSM2 (r s : Z).

Definition decode_rs (d : bytes) : outcome (Z * Z) :=
  let n := zlen d in
  if negb ((n =? 64) || (n =? 96)) then Err E_SIG else
  do a <- of_opt 4 (slice 0 (n / 2) d);
  do b <- of_opt 5 (slice (n / 2) n d);
  Ok (z_of_be (reverse_bytes a), z_of_be (reverse_bytes b)).

(* cbnt Signature.SignatureData *)
Definition signature_data (m : sigrec) : outcome sigdata :=
  if s_scheme m =? c16_alg_rsapss then Ok (SigPSS (s_data m))
  else if s_scheme m =? c16_alg_rsassa then Ok (SigSSA (s_data m))
  else if s_scheme m =? c16_alg_ecdsa then do rs <- decode_rs (s_data m); Ok (SigECDSA (fst rs) (snd rs))
  else if s_scheme m =? c16_alg_sm2 then do rs <- decode_rs (s_data m); Ok (SigSM2 (fst rs) (snd rs))
  else Err E_SIG.

Definition bg_signature_data (m : sigrec) : outcome sigdata :=
  if s_scheme m =? c16_bg_alg_rsassa then Ok (SigSSA (s_data m)) else Err E_SIG.

(* width in bytes of the (r, s) pair: the smaller of the two supported curve widths that holds both *)
Definition rs_width (r s : Z) : option Z :=
  if (r <? 0) || (s <? 0) then None
  else if (bitlen r <=? 256) && (bitlen s <=? 256) then Some 32
  else if (bitlen r <=? 384) && (bitlen s <=? 384) then Some 48
  else None.

Definition encode_rs (w r s : Z) : bytes :=
  reverse_bytes (fill_be w r) ++ reverse_bytes (fill_be w s).

(* cbnt Signature.SetSignatureData: the new value of Data *)
Definition set_signature_data (sd : sigdata) : outcome bytes :=
  match sd with
  | SigPSS b => Ok b
  | SigSSA b => Ok b
  | SigECDSA r s | SigSM2 r s =>
    match rs_width r s with
    | Some w => Ok (encode_rs w r s)
    | None => Err E_COORD
    end
  end.

Definition is_null (a : Z) : bool := (a =? c16_alg_null) || (a =? 0).
Definition default_hash (dflt a : Z) : Z := if is_null a then dflt else a.

(* cbnt Signature.SetSignatureByData (Version is left as it was) *)
Definition set_signature_by_data (m : sigrec) (sd : sigdata) (ha : Z) : outcome sigrec :=
  do d <- set_signature_data sd;
  match sd with
  | SigPSS _ => Ok (mkSig c16_alg_rsapss (s_ver m) (of_bytes_bits (zlen d)) (default_hash c16_alg_sha384 ha) d)
  | SigSSA _ => Ok (mkSig c16_alg_rsassa (s_ver m) (of_bytes_bits (zlen d)) (default_hash c16_alg_sha256 ha) d)
  | SigECDSA _ _ => Ok (mkSig c16_alg_ecdsa (s_ver m) (u16 (zlen d / 2 * 8)) (default_hash c16_alg_sha512 ha) d)
  | SigSM2 _ _ => Ok (mkSig c16_alg_sm2 (s_ver m) (u16 (zlen d / 2 * 8)) (default_hash c16_alg_sm3 ha) d)
  end.

(* hash algorithms known to Algorithm.Hash() and their digest sizes *)
Fixpoint assoc_z (ids vals : list Z) (a : Z) : option Z :=
  match ids, vals with
  | i :: ids', v :: vals' => if i =? a then Some v else assoc_z ids' vals' a
  | _, _ => None
  end.
Definition cbnt_hash_size (a : Z) : option Z := assoc_z c16_cbnt_hash_ids c16_cbnt_hash_sizes a.
Definition bg_hash_size (a : Z) : option Z := assoc_z c16_bg_hash_ids c16_bg_hash_sizes a.

Record keysig := mkKS { ks_ver : Z; ks_key : key; ks_sig : sigrec }.

(* AMD PSB keys *)
Record psbkey := mkPsbKey {
  pk_version : Z; pk_id : bytes; pk_certid : bytes; pk_usage : Z; pk_reserved : bytes;
  pk_expsize : Z; pk_modsize : Z; pk_exponent : bytes; pk_modulus : bytes }.

Definition keyset := list psbkey.

Fixpoint get_key (ks : keyset) (id : bytes) : option psbkey :=
  match ks with
  | [] => None
  | k :: r => if bytes_eqb (pk_id k) id then Some k else get_key r id
  end.

(* psb reverse: same bytes as reverseBytes *)
Definition psb_reverse (b : bytes) : bytes := rev b.

(* int(E.SetBytes(reverse(exponent)).Int64()): the low 64 bits, two's complement *)
Definition int64_of (v : Z) : Z := let w := u64 v in if w <? 2 ^ 63 then w else w - 2 ^ 64.

Definition P_KEYINVALID : Z := 20.  (* SignatureCheckError: could not get structured key data *)
Definition P_KEYSIZE : Z := 21.     (* key size other than 2048/4096 bit *)
Definition P_SIGCHECK : Z := 22.    (* SignatureCheckError from rsa.VerifyPSS *)

(* Key.checkValid *)
Definition psb_key_valid (k : psbkey) : bool :=
  negb (zlen (pk_exponent k) =? 0) && negb (zlen (pk_modulus k) =? 0).

(* Key.Get *)
Definition psb_key_get (k : psbkey) : pubkey :=
  PubRSA (z_of_be (psb_reverse (pk_modulus k))) (int64_of (z_of_be (psb_reverse (pk_exponent k)))).

(* checkBoundaries(start, end, blob) = nil *)
Definition check_boundaries (st en : Z) (blob : bytes) : bool :=
  negb (zlen blob <? st) && negb (zlen blob <? en) && negb (en <? st).

(* error classes of getSignedBlob / ValidatePSPEntry *)
Definition P_HDR : Z := 1.        (* newPSPBinary: header does not fit *)
Definition P_SIGNED0 : Z := 2.
Definition P_IMAGE0 : Z := 3.
Definition P_UNKNOWNKEY : Z := 4.
Definition P_EXPMOD : Z := 5.
Definition P_SIGNED_GT : Z := 6.
Definition P_IMAGE_LE_SIG : Z := 7.
Definition P_SIGRANGE : Z := 8.
Definition P_DATARANGE : Z := 9.
Definition P_SMALL : Z := 10.

Definition psp_header_size : Z := 256.   (* pspHeaderSize, unexported *)

(* error classes of NewTokenKey *)
Definition T_PARSE : Z := 11.      (* "could not create new token key" *)
Definition T_NOKEY : Z := 12.      (* certifying key not in the key set *)
Definition T_SIGPARSE : Z := 13.   (* signature does not fit *)
Definition T_SHORT : Z := 14.      (* token shorter than the signed length *)
Definition T_ROOTID : Z := 15.     (* NewRootKey: key id differs from certifying key id *)

Definition token_header_len : Z := 64.

(* newTokenOrRootKey over the bytes of a bytes.Buffer: the key and the number of bytes consumed *)
Definition parse_token_or_root (raw : bytes) : outcome (psbkey * Z) :=
  if zlen raw <? token_header_len then Err T_PARSE else
  let es := rd 56 4 raw in
  let ms := rd 60 4 raw in
  if negb (es mod 8 =? 0) then Err T_PARSE else
  let e := es / 8 in
  if zlen raw <? token_header_len + e then Err T_PARSE else
  if negb (ms mod 8 =? 0) then Err T_PARSE else
  let m := ms / 8 in
  if zlen raw <? token_header_len + e + m then Err T_PARSE else
  Ok (mkPsbKey (rd 0 4 raw) (sub 4 16 raw) (sub 20 16 raw) (rd 36 4 raw) (sub 40 16 raw) es ms
               (sub token_header_len e raw) (sub (token_header_len + e) m raw),
      token_header_len + e + m).

(* NewRootKey *)
Definition root_key (raw : bytes) : outcome psbkey :=
  do kn <- parse_token_or_root raw;
  if bytes_eqb (pk_id (fst kn)) (pk_certid (fst kn)) then Ok (fst kn) else Err T_ROOTID.

(* ------------------------------------------------------------------ *)
(* IBB segments                                                        *)
(* ------------------------------------------------------------------ *)

Record segment := mkSeg { g_flags : Z; g_base : Z; g_size : Z }.
(* the part of an IBB segments element the validation reads *)
Record se := mkSE { se_digests : list (Z * bytes); se_segments : list segment }.

(* calculateOffsetFromPhysAddr, uint64 arithmetic *)
Definition offset_of_phys (phys imgsize : Z) : Z := u64 (phys - u64 (2 ^ 32 - imgsize)).

(* IBBDataRanges over SE[0].IBBSegments: (Offset, Length) *)
Fixpoint ibb_ranges (segs : list segment) (fwsize : Z) : list (Z * Z) :=
  match segs with
  | [] => []
  | g :: r =>
    if Z.land (g_flags g) 1 =? 1 then ibb_ranges r fwsize
    else (offset_of_phys (g_base g) fwsize, g_size g) :: ibb_ranges r fwsize
  end.

(* Range.End *)
Definition range_end (r : Z * Z) : Z := u64 (fst r + snd r).

(* the bytes written to the hash: firmware.Buf()[Offset:End()] for each range, in order *)
Fixpoint ibb_stream (rs : list (Z * Z)) (fw : bytes) : outcome bytes :=
  match rs with
  | [] => Ok []
  | r :: rest =>
    do x <- of_opt 11 (slice (fst r) (range_end r) fw);
    do y <- ibb_stream rest fw;
    Ok (x ++ y)
  end.

Definition I_NOHASH : Z := 1.
Definition I_BADALG : Z := 2.
Definition I_MISMATCH : Z := 3.

Definition B_NOHASH : Z := 1.     (* no hash of BPM's key was found in KM *)
Definition B_BADALG : Z := 2.
Definition B_BADLEN : Z := 3.
Definition B_KEYALG : Z := 4.
Definition B_MISMATCH : Z := 5.

Record kmhash := mkKmHash { h_usage : Z; h_alg : Z; h_buf : bytes }.

(* private keys as the signer sees them *)
Inductive privkey : Type :=
| PrivRSA (n e d : Z)
| PrivECC (x y d : Z)
| PrivSM2 (x y d : Z).

Definition public_of (sk : privkey) : pubkey :=
  match sk with
  | PrivRSA n e _ => PubRSA n e
  | PrivECC x y _ => PubECC x y
  | PrivSM2 x y _ => PubSM2 x y
  end.

Section Oracles.

Variable verify : pubkey -> Z -> Z -> bytes -> bytes -> bool.
Variable hash : Z -> bytes -> bytes.
Variable sign_rsa : privkey -> Z -> Z -> bytes -> bytes.       (* crypto.Signer.Sign, RSA schemes *)
Variable sign_ec : privkey -> Z -> Z -> bytes -> Z * Z.        (* ECDSA / SM2: (r, s) *)

(* the Verify methods of the four signature types (cbnt) *)
Definition sig_verify (sd : sigdata) (pk : pubkey) (ha : Z) (data : bytes) : outcome unit :=
  let rsa (scheme : Z) (s : bytes) : outcome unit :=
    match pk with
    | PubRSA _ _ =>
      match cbnt_hash_size ha with
      | None => Err E_VERIFY
      | Some _ =>
        if (ha =? c16_alg_sha256) || (ha =? c16_alg_sha384)
        then (if verify pk scheme ha data s then Ok tt else Err E_VERIFY)
        else Err E_VERIFY
      end
    | _ => Err E_VERIFY
    end in
  match sd with
  | SigPSS s => rsa c16_alg_rsapss s
  | SigSSA s => rsa c16_alg_rsassa s
  | SigECDSA _ _ => Err E_VERIFY     (* "not implemented, yet" *)
  | SigSM2 _ _ => Err E_VERIFY
  end.

(* cbnt KeySignature.Verify *)
Definition ks_verify (ks : keysig) (data : bytes) : outcome unit :=
  match signature_data (ks_sig ks) with
  | Ok sd =>
    match pub_key (ks_key ks) with
    | Ok pk => sig_verify sd pk (s_hashalg (ks_sig ks)) data
    | Err _ => Err E_PUBKEY
    | Panic s => Panic s
    | Fuel => Fuel
    end
  | Err _ => Err E_SIG
  | Panic s => Panic s
  | Fuel => Fuel
  end.

(* bg KeySignature.Verify: RSASSA with SHA-256, whatever HashAlg says *)
Definition bg_ks_verify (ks : keysig) (data : bytes) : outcome unit :=
  match bg_signature_data (ks_sig ks) with
  | Ok (SigSSA s) =>
    match bg_pub_key (ks_key ks) with
    | Ok pk => if verify pk c16_bg_alg_rsassa c16_alg_sha256 data s then Ok tt else Err E_VERIFY
    | Err _ => Err E_PUBKEY
    | Panic s => Panic s
    | Fuel => Fuel
    end
  | Ok _ => Err E_SIG
  | Err _ => Err E_SIG
  | Panic s => Panic s
  | Fuel => Fuel
  end.

(* NewSignatureData: scheme detection by key type (RSA: by modulus size in bits), then the
   hash the signer uses is the one SetSignatureByData records *)
Definition detect_scheme (sa : Z) (sk : privkey) : Z :=
  if negb (sa =? 0) then sa else
  match sk with
  | PrivRSA n _ _ =>
    if bytelen n * 8 =? 2048 then c16_alg_rsassa
    else if bytelen n * 8 =? 3072 then c16_alg_rsapss else 0
  | PrivECC _ _ _ => c16_alg_ecdsa
  | PrivSM2 _ _ _ => c16_alg_sm2
  end.

Definition rsa_hash_ok (h : Z) : bool := (h =? c16_alg_sha256) || (h =? c16_alg_sha384).

Definition new_signature_data (sa ha : Z) (sk : privkey) (data : bytes) : outcome sigdata :=
  let sc := detect_scheme sa sk in
  if sc =? c16_alg_rsapss then
    (* no check of the key type: whatever crypto.Signer is given signs the digest *)
    let h := default_hash c16_alg_sha384 ha in
    if rsa_hash_ok h then Ok (SigPSS (sign_rsa sk sc h data)) else Err E_SIGNALG
  else if sc =? c16_alg_rsassa then
    let h := default_hash c16_alg_sha256 ha in
    if rsa_hash_ok h then Ok (SigSSA (sign_rsa sk sc h data)) else Err E_SIGNALG
  else if sc =? c16_alg_ecdsa then
    match sk with
    | PrivECC _ _ _ =>
      let h := default_hash c16_alg_sha512 ha in
      match cbnt_hash_size h with
      | Some _ => let rs := sign_ec sk sc h data in Ok (SigECDSA (fst rs) (snd rs))
      | None => Err E_SIGNALG
      end
    | _ => Err E_SIGNALG
    end
  else if sc =? c16_alg_sm2 then
    match sk with
    | PrivSM2 _ _ _ => let rs := sign_ec sk sc (default_hash c16_alg_sm3 ha) data in Ok (SigSM2 (fst rs) (snd rs))
    | _ => Err E_SIGNALG
    end
  else Err E_SIGNALG.

(* cbnt Signature.SetSignature on the structure [m] as it is before the call (it may hold an
   earlier signature): Version and HashAlg are overwritten first, then the signer is given the
   REQUESTED hash algorithm and SetSignatureByData records it (or the scheme's default) *)
Definition sig_set_signature (m : sigrec) (sa ha : Z) (sk : privkey) (data : bytes) : outcome sigrec :=
  do sd <- new_signature_data sa ha sk data;
  set_signature_by_data (mkSig (s_scheme m) 16 (s_keysize m) ha (s_data m)) sd ha.

(* cbnt KeySignature.SetSignature (SetSignatureAuto is sa = ha = 0); cbntbootpolicy's PMSE
   element embeds a KeySignature and signs through this method *)
Definition ks_set_signature (ks : keysig) (sa ha : Z) (sk : privkey) (data : bytes) : outcome keysig :=
  do k <- set_pub_key (public_of sk);
  do sg <- sig_set_signature (ks_sig ks) sa ha sk data;
  Ok (mkKS 16 k sg).

(* cbntkey Manifest.SetSignature: the KeySignature and the new PubKeyHashAlg *)
Definition km_set_signature (ks : keysig) (sa ha : Z) (sk : privkey) (data : bytes) : outcome (keysig * Z) :=
  do ks' <- ks_set_signature ks sa ha sk data;
  Ok (ks', s_hashalg (ks_sig ks')).

(* cbntkey Manifest.ValidateBPMKey *)
Fixpoint validate_bpm_key_loop (l : list kmhash) (k : key) (count : Z) : outcome unit :=
  match l with
  | [] => if count =? 0 then Err B_NOHASH else Ok tt
  | e :: r =>
    if Z.land (h_usage e) c16_usage_bpm_signing =? 0 then validate_bpm_key_loop r k count else
    match cbnt_hash_size (h_alg e) with
    | None => Err B_BADALG
    | Some sz =>
      if negb (zlen (h_buf e) =? sz) then Err B_BADLEN else
      if k_alg k =? c16_alg_rsa then
        do m <- of_opt 21 (slice 4 (zlen (k_data k)) (k_data k));
        if bytes_eqb (h_buf e) (hash (h_alg e) m) then validate_bpm_key_loop r k (count + 1)
        else Err B_MISMATCH
      else Err B_KEYALG
    end
  end.

Definition validate_bpm_key (l : list kmhash) (k : key) : outcome unit := validate_bpm_key_loop l k 0.

(* bgkey Manifest.ValidateBPMKey: a single digest *)
Definition bg_validate_bpm_key (alg : Z) (buf : bytes) (k : key) : outcome unit :=
  match bg_hash_size alg with
  | None => Err B_BADALG
  | Some sz =>
    if negb (zlen buf =? sz) then Err B_BADLEN else
    if k_alg k =? c16_bg_alg_rsa then
      do m <- of_opt 22 (slice 4 (zlen (k_data k)) (k_data k));
      if bytes_eqb buf (hash alg m) then Ok tt else Err B_MISMATCH
    else Err B_KEYALG
  end.

(* cbntbootpolicy Manifest.ValidateIBB *)
Definition validate_ibb (ses : list se) (fw : bytes) : outcome unit :=
  match ses with
  | [] => Panic 10                      (* bpm.SE[0] *)
  | se0 :: _ =>
    match se_digests se0 with
    | [] => Err I_NOHASH
    | (alg, buf) :: _ =>
      match cbnt_hash_size alg with
      | None => Err I_BADALG
      | Some _ =>
        do st <- ibb_stream (ibb_ranges (se_segments se0) (zlen fw)) fw;
        if bytes_eqb (hash alg st) buf then Ok tt else Err I_MISMATCH
      end
    end
  end.

(* bgbootpolicy Manifest.ValidateIBB: one digest per SE; TotalSize() of a digest is never 0 *)
Definition bg_validate_ibb (ses : list ((Z * bytes) * list segment)) (fw : bytes) : outcome unit :=
  match ses with
  | [] => Panic 10
  | ((alg, buf), segs) :: _ =>
    match bg_hash_size alg with
    | None => Err I_BADALG
    | Some _ =>
      do st <- ibb_stream (ibb_ranges segs (zlen fw)) fw;
      if bytes_eqb (hash alg st) buf then Ok tt else Err I_MISMATCH
    end
  end.

(* psb NewSignedBlob *)
Definition new_signed_blob (signature signed : bytes) (k : psbkey) : outcome unit :=
  if negb (psb_key_valid k) then Err P_KEYINVALID else
  match psb_key_get k with
  | PubRSA n e =>
    let size := bytelen n in
    if size * 8 =? 4096 then
      (if verify (PubRSA n e) c16_alg_rsapss c16_alg_sha384 signed signature then Ok tt else Err P_SIGCHECK)
    else if size * 8 =? 2048 then
      (if verify (PubRSA n e) c16_alg_rsapss c16_alg_sha256 signed signature then Ok tt else Err P_SIGCHECK)
    else Err P_KEYSIZE
  | _ => Err P_KEYSIZE
  end.

(* the signed range [0, fst) and the signature range [fst snd, snd snd) of a PSP binary *)
Definition psp_ranges (size_signed size_image compression compressed_size sig_size : Z)
  : outcome (Z * (Z * Z)) :=
  let '(signed_end, image) :=
    if compression =? 0
    then (u32 (size_signed + psp_header_size), size_image)
    else let se := u32 (Z.land (u32 (compressed_size + 15)) (2 ^ 32 - 16) + psp_header_size) in
         (se, u32 (se + sig_size)) in
  if image <=? sig_size then Err P_IMAGE_LE_SIG else
  let sig_start := image - sig_size in
  Ok (signed_end, (sig_start, u32 (sig_start + sig_size))).

(* PSPBinary.getSignedBlob over the raw entry (header fields read at their wire offsets) *)
Definition get_signed_blob (ks : keyset) (raw : bytes) : outcome psbkey :=
  let size_signed := rd c16_psp_off_SizeSigned 4 raw in
  let size_image := rd c16_psp_off_SizeImage 4 raw in
  let compression := rd c16_psp_off_CompressionOptions 4 raw in
  let compressed := rd c16_psp_off_CompressedImageSize 4 raw in
  if size_signed =? 0 then Err P_SIGNED0 else
  if size_image =? 0 then Err P_IMAGE0 else
  match get_key ks (sub c16_psp_off_SignatureParameters 16 raw) with
  | None => Err P_UNKNOWNKEY
  | Some k =>
    if negb (pk_modsize k =? pk_expsize k) then Err P_EXPMOD else
    let sig_size := pk_modsize k / 8 in
    if (compression =? 0) && (size_image <? size_signed) then Err P_SIGNED_GT else
    do rg <- psp_ranges size_signed size_image compression compressed sig_size;
    let signed_end := fst rg in
    let sig_start := fst (snd rg) in
    let sig_end := snd (snd rg) in
    if negb (check_boundaries sig_start sig_end raw) then Err P_SIGRANGE else
    if negb (check_boundaries 0 signed_end raw) then Err P_DATARANGE else
    do signature <- of_opt 31 (slice sig_start sig_end raw);
    do signed <- of_opt 32 (slice 0 signed_end raw);
    if zlen signed <=? psp_header_size then Err P_SMALL else
    do _ <- new_signed_blob signature signed k;
    Ok k
  end.

(* ValidatePSPEntry from the entry bytes on: newPSPBinary, then getSignedBlob *)
Definition psp_validate (ks : keyset) (raw : bytes) : outcome psbkey :=
  if zlen raw <? c16_psp_hdr_wire then Err P_HDR else get_signed_blob ks raw.

(* NewTokenKey *)
Definition token_key (ks : keyset) (raw : bytes) : outcome psbkey :=
  do kn <- parse_token_or_root raw;
  let k := fst kn in
  let pos := snd kn in
  match get_key ks (pk_certid k) with
  | None => Err T_NOKEY
  | Some sk =>
    if negb (psb_key_valid sk) then Err P_KEYINVALID else
    let sig_size := zlen (pk_modulus sk) in
    if zlen raw <? pos + sig_size then Err T_SIGPARSE else
    let signature := sub pos sig_size raw in
    let len_signed := u32 (token_header_len + u32 (2 * pk_modsize k) / 8) in
    if zlen raw <? len_signed then Err T_SHORT else
    do signed <- of_opt 41 (slice 0 len_signed raw);
    do _ <- new_signed_blob (psb_reverse signature) signed sk;
    Ok k
  end.

(* ValidateRTM (biosentries.go) from the extracted entries on; the directory walk that finds them
   is property C17.  The signed data is the RTM volume followed, at level 2, by the bytes of the
   level 1 BIOS directory, and then by the bytes of the BIOS directory of the level under test; the
   signature entry is stored byte-reversed; the key is the OEM key GetKeys accepted (a token key) *)
Definition rtm_signed_data (level : Z) (rtm l1 ln : bytes) : bytes :=
  rtm ++ (if level =? 2 then l1 else []) ++ ln.

Definition validate_rtm (level : Z) (rtm l1 ln sg : bytes) (oem : psbkey) : outcome unit :=
  new_signed_blob (psb_reverse sg) (rtm_signed_data level rtm l1 ln) oem.

End Oracles.

(* ---- specification-side definitions used by the theorems ---- *)

(* the (offset, end) pairs ValidateIBB slices the firmware with *)
Definition ibb_bounds (segs : list segment) (fwsize : Z) : list (Z * Z) :=
  map (fun r => (fst r, range_end r)) (ibb_ranges segs fwsize).

Definition in_bounds (fw : bytes) (b : Z * Z) : bool :=
  (0 <=? fst b) && (fst b <=? snd b) && (snd b <=? zlen fw).

Definition covered (bs : list (Z * Z)) (i : Z) : Prop :=
  exists b, In b bs /\ fst b <= i < snd b.

(* fw and fw' have the same length and agree at every covered index *)
Definition agree_on (bs : list (Z * Z)) (fw fw' : bytes) : Prop :=
  zlen fw = zlen fw' /\
  forall i, covered bs (Z.of_nat i) -> nth_error fw i = nth_error fw' i.

Definition verdict (b : bool) (e : Z) : outcome unit := if b then Ok tt else Err e.

(* a key-manifest hash entry that ValidateBPMKey looks at, and what it demands of it *)
Definition bpm_applies (e : kmhash) : bool := negb (Z.land (h_usage e) c16_usage_bpm_signing =? 0).

Definition bpm_entry_good (hash : Z -> bytes -> bytes) (k : key) (e : kmhash) : Prop :=
  cbnt_hash_size (h_alg e) = Some (zlen (h_buf e)) /\
  k_alg k = c16_alg_rsa /\ 4 <= zlen (k_data k) /\
  h_buf e = hash (h_alg e) (zskipn 4 (k_data k)).

(* the byte ranges of a PSP entry that getSignedBlob reads: the header fields, the signed
   range and the signature *)
Definition psp_cover (ks : keyset) (raw : bytes) : list (Z * Z) :=
  (0, c16_psp_hdr_wire) ::
  match get_key ks (sub c16_psp_off_SignatureParameters 16 raw) with
  | None => []
  | Some k =>
    match psp_ranges (rd c16_psp_off_SizeSigned 4 raw) (rd c16_psp_off_SizeImage 4 raw)
                     (rd c16_psp_off_CompressionOptions 4 raw) (rd c16_psp_off_CompressedImageSize 4 raw)
                     (pk_modsize k / 8) with
    | Ok rg => [(0, fst rg); (fst (snd rg), snd (snd rg))]
    | _ => []
    end
  end.

(* the hash NewSignedBlob selects from the size of the modulus *)
Definition psb_hash_of (n : Z) : Z := if bytelen n * 8 =? 4096 then c16_alg_sha384 else c16_alg_sha256.

(* the byte ranges of a key token that NewTokenKey reads: header, exponent and modulus; the
   signature; the signed prefix.  (A token that does not parse is read entirely.) *)
Definition token_cover (ks : keyset) (raw : bytes) : list (Z * Z) :=
  match parse_token_or_root raw with
  | Ok (k, pos) =>
    (0, pos) ::
    match get_key ks (pk_certid k) with
    | Some sk => [(0, pos + zlen (pk_modulus sk));
                  (0, u32 (token_header_len + u32 (2 * pk_modsize k) / 8))]
    | None => []
    end
  | _ => [(0, zlen raw)]
  end.

(* the hash a scheme uses when the caller passes a null hash algorithm *)
Definition scheme_default_hash (sc : Z) : Z :=
  if sc =? c16_alg_rsapss then c16_alg_sha384
  else if sc =? c16_alg_rsassa then c16_alg_sha256
  else if sc =? c16_alg_ecdsa then c16_alg_sha512
  else c16_alg_sm3.
