(* Model/ExtractNvar.v — the directory of an NVAR store (property C07): what Extract writes for the
   entries of a store, what ParseDir reads back, and the Assemble pass that follows, on the store model
   of Model/Nvar.v (property C10).

   Transcribes (Go, /repo):
     pkg/visitors/extract.go   Extract.Visit, case *uefi.NVar: directory = the variable's GUID; a valid
                               entry (computed type link / data / full) without nested store writes its
                               CONTENT Buf()[DataOffset:] as "<Name>.bin" ("<Name>-<offset %#x>.bin" for
                               a link entry); a valid entry with a nested store writes nothing and its
                               store's entries go below its GUID directory; any other entry writes its
                               WHOLE buffer as "<offset %#x>.nvar".  *uefi.NVarStore has no case: nothing
                               written, directory unchanged.
     pkg/visitors/parsedir.go  ParseDir.Visit, case *uefi.NVar: for a valid entry DataOffset zero bytes
                               are put in front of what was read (the header is rebuilt by Assemble from
                               the JSON fields), otherwise the file is the buffer; the store gets no buffer
     JSON: NVarHeader.Next is tagged json:"-" (recomputed from NextOffset-Offset), every other field the
     model carries survives (flags from Gen/JsonFields.v).

   The erase polarity is the parameter [pol] as in Model/Nvar.v; nesting runs on depth fuel.
   Not modelled: the JSON text (names that are not valid UTF-8 do not survive it), file names containing
   a path separator. *)
From Coq Require Import String.
From Fiano Require Import Base.Bytes Gen.Consts Gen.JsonFields Model.Nvar Model.Extract.
Local Open Scope string_scope.
Open Scope list_scope.
Open Scope Z_scope.

(* the file of an entry inside its GUID directory *)
Inductive nvname : Type :=
| NV_name (n : bytes)             (* "<Name>.bin" *)
| NV_link (n : bytes) (off : Z)   (* "<Name>-<%#x offset>.bin" *)
| NV_inv (off : Z).               (* "<%#x offset>.nvar" *)

(* a directory component: the GUID of a variable, or - for the entries of a nested store - the offset of
   the variable that holds the store ("%#x"), so that sibling variables with one GUID do not share it *)
Inductive nvdir : Type :=
| ND_guid (g : bytes)
| ND_off (o : Z).

(* a path below the directory of the raw file that holds the store: directories, then the file *)
Definition nvpath := (list nvdir * nvname)%type.
Definition nvfs := list (nvpath * bytes).

Definition nvname_eqb (a b : nvname) : bool :=
  match a, b with
  | NV_name x, NV_name y => bytes_eqb x y
  | NV_link x i, NV_link y j => bytes_eqb x y && (i =? j)
  | NV_inv i, NV_inv j => i =? j
  | _, _ => false
  end.
Definition nvdir_eqb (a b : nvdir) : bool :=
  match a, b with
  | ND_guid x, ND_guid y => bytes_eqb x y
  | ND_off x, ND_off y => x =? y
  | _, _ => false
  end.
Fixpoint dirs_eqb (a b : list nvdir) : bool :=
  match a, b with
  | [], [] => true
  | x :: a', y :: b' => nvdir_eqb x y && dirs_eqb a' b'
  | _, _ => false
  end.
Definition nvpath_eqb (a b : nvpath) : bool := dirs_eqb (fst a) (fst b) && nvname_eqb (snd a) (snd b).

(* last write wins *)
Fixpoint nvfs_read (f : nvfs) (p : nvpath) : option bytes :=
  match f with
  | [] => None
  | (q, b) :: r =>
    match nvfs_read r p with
    | Some x => Some x
    | None => if nvpath_eqb q p then Some b else None
    end
  end.

Definition t_dotbin : bytes := Eval vm_compute in (str ".bin").
Definition t_dotnvar : bytes := Eval vm_compute in (str ".nvar").
Definition render_nvname (n : nvname) : bytes :=
  match n with
  | NV_name s => s ++ t_dotbin
  | NV_link s off => s ++ [45] ++ tx_0x ++ render_num 16 off ++ t_dotbin
  | NV_inv off => tx_0x ++ render_num 16 off ++ t_dotnvar
  end.
Definition render_nvdir (c : nvdir) : bytes :=
  match c with ND_guid g => guid_string g | ND_off o => tx_0x ++ render_num 16 o end.
Fixpoint render_nvdirs (d : list nvdir) : bytes :=
  match d with [] => [] | c :: r => render_nvdir c ++ [47] ++ render_nvdirs r end.
Definition render_nvpath (p : nvpath) : bytes := render_nvdirs (fst p) ++ render_nvname (snd p).

(* what survives encoding/json *)
Definition sv_nv_hdr : bool := Eval vm_compute in (fl jf_NVar "Header").
Definition sv_nv_size : bool := Eval vm_compute in (sv_nv_hdr && fl jf_NVarHeader "Size").
Definition sv_nv_next : bool := Eval vm_compute in (sv_nv_hdr && fl jf_NVarHeader "Next").
Definition sv_nv_attrs : bool := Eval vm_compute in (sv_nv_hdr && fl jf_NVarHeader "Attributes").
Definition sv_nv_guid : bool := Eval vm_compute in (fl jf_NVar "GUID").
Definition sv_nv_gidx : bool := Eval vm_compute in (fl jf_NVar "GUIDIndex").
Definition sv_nv_name : bool := Eval vm_compute in (fl jf_NVar "Name").
Definition sv_nv_type : bool := Eval vm_compute in (fl jf_NVar "Type").
Definition sv_nv_off : bool := Eval vm_compute in (fl jf_NVar "Offset").
Definition sv_nv_nextoff : bool := Eval vm_compute in (fl jf_NVar "NextOffset").
Definition sv_nv_dataoff : bool := Eval vm_compute in (fl jf_NVar "DataOffset").
Definition sv_nv_sub : bool := Eval vm_compute in (fl jf_NVar "NVarStore").
Definition sv_nv_path : bool := Eval vm_compute in (fl jf_NVar "ExtractPath").
Definition sv_nv_ext : bool :=
  Eval vm_compute in (fl jf_NVar "ExtAttributes" && fl jf_NVar "Checksum" && fl jf_NVar "ExpectedChecksum"
                      && fl jf_NVar "TimeStamp" && fl jf_NVar "Hash" && fl jf_NVar "UnknownExtendedHeaderFormat"
                      && fl jf_NVar "ExtOffset").
Definition sv_st_entries : bool := Eval vm_compute in (fl jf_NVarStore "Entries").
Definition sv_st_guids : bool := Eval vm_compute in (fl jf_NVarStore "GUIDStore").
Definition sv_st_free : bool := Eval vm_compute in (fl jf_NVarStore "FreeSpaceOffset").
Definition sv_st_goff : bool := Eval vm_compute in (fl jf_NVarStore "GUIDStoreOffset").
Definition sv_st_len : bool := Eval vm_compute in (fl jf_NVarStore "Length").

(* an entry after Marshal/Unmarshal with the buffer ParseDir built and the reloaded nested store *)
Definition proj_nvar (v : nvar) (buf : bytes) (sub : option nstore) : nvar :=
  mkNVar (if sv_nv_size then v_size v else 0)
         (if sv_nv_next then v_next v else 0)
         (if sv_nv_attrs then v_attrs v else 0)
         (if sv_nv_guid then v_guid v else zrepeat 0 16)
         (if sv_nv_gidx then v_gidx v else None)
         (if sv_nv_name then v_name v else [])
         (if sv_nv_type then v_type v else 0)
         (if sv_nv_off then v_off v else 0)
         (if sv_nv_nextoff then v_nextoff v else 0)
         buf
         (if sv_nv_dataoff then v_dataoff v else 0)
         (if sv_nv_ext then v_ext v else no_ext)
         (if sv_nv_sub then sub else None).

Definition E_NVNOFILE : Z := 30.

(* ---------- Extract ---------- *)

Definition nv_own_name (v : nvar) : nvname :=
  if is_valid v then
    (if v_type v =? nvar_type_link then NV_link (v_name v) (v_off v) else NV_name (v_name v))
  else NV_inv (v_off v).

Fixpoint nv_extract (d : nat) (dirs : list nvdir) (s : nstore) {struct d} : outcome nvfs :=
  match d with
  | O => Fuel
  | S d' =>
    let one (v : nvar) : outcome nvfs :=
      let dv := dirs ++ [ND_guid (v_guid v)] in
      let dk := dv ++ [ND_off (v_off v)] in
      if is_valid v then
        match v_sub v with
        | None =>
          do c <- of_opt 601 (slice (v_dataoff v) (zlen (v_buf v)) (v_buf v));
          Ok [((dv, nv_own_name v), c)]
        | Some ns => nv_extract d' dk ns
        end
      else
        (* the whole entry; a nested store (a data-only entry nobody links to may hold one) is still
           visited *)
        do kids <- (match v_sub v with None => Ok [] | Some ns => nv_extract d' dk ns end);
        Ok (((dv, nv_own_name v), v_buf v) :: kids) in
    do fs <- map_out one (s_entries s);
    Ok (concat fs)
  end.

(* ---------- ParseDir ---------- *)

Fixpoint nv_reload (d : nat) (f : nvfs) (dirs : list nvdir) (s : nstore) {struct d} : outcome nstore :=
  match d with
  | O => Fuel
  | S d' =>
    let one (v : nvar) : outcome nvar :=
      let dv := dirs ++ [ND_guid (v_guid v)] in
      let dk := dv ++ [ND_off (v_off v)] in
      (* ExtractPath is empty for a valid entry with a nested store *)
      let has_file := negb (is_valid v) || (match v_sub v with None => true | Some _ => false end) in
      do file <- (if has_file && sv_nv_path then
                    match nvfs_read f (dv, nv_own_name v) with
                    | Some b => Ok b
                    | None => Err E_NVNOFILE
                    end
                  else Ok []);
      do sub' <- (match v_sub v with
                  | None => Ok None
                  | Some ns => do ns' <- nv_reload d' f dk ns; Ok (Some ns')
                  end);
      (* the test of ParseDir is on the reloaded Type field *)
      let valid' := is_valid_type (if sv_nv_type then v_type v else 0) in
      let buf := if valid' then zrepeat 0 (if sv_nv_dataoff then v_dataoff v else 0) ++ file else file in
      Ok (proj_nvar v buf sub') in
    do es <- map_out one (if sv_st_entries then s_entries s else []);
    Ok (mkStore es (if sv_st_guids then s_guids s else []) []
                (if sv_st_free then s_free s else 0)
                (if sv_st_goff then s_goff s else 0)
                (if sv_st_len then s_len s else 0))
  end.

(* ---------- hypotheses ---------- *)

(* the entries of one store write pairwise distinct files, recursively.  Two entries collide when they
   have the same GUID and the same kind of name: valid non-link entries the same Name, link entries the
   same Name and Offset, other entries the same Offset; a variable holding a nested store lends its GUID
   directory to the entries of that store *)
Fixpoint nv_all_paths (d : nat) (dirs : list nvdir) (s : nstore) {struct d} : list nvpath :=
  match d with
  | O => []
  | S d' =>
    concat (map (fun v =>
      let dv := dirs ++ [ND_guid (v_guid v)] in
      let dk := dv ++ [ND_off (v_off v)] in
      if is_valid v then
        match v_sub v with
        | None => [(dv, nv_own_name v)]
        | Some ns => nv_all_paths d' dk ns
        end
      else (dv, nv_own_name v) :: (match v_sub v with None => [] | Some ns => nv_all_paths d' dk ns end))
      (s_entries s))
  end.

Fixpoint nvnodupb (l : list nvpath) : bool :=
  match l with
  | [] => true
  | x :: r => negb (existsb (nvpath_eqb x) r) && nvnodupb r
  end.
Definition nv_paths_ok (d : nat) (s : nstore) : Prop := nvnodupb (nv_all_paths d [] s) = true.

(* ---------- the directory route of a store ---------- *)
Section NvDir.
Variable dec16 : bytes -> bytes.
Variable enc16 : bytes -> bytes.

(* NewNVarStore, extract, ParseDir, Assemble: the bytes of the store afterwards *)
Definition nv_dir_save (pol : Z) (d : nat) (b : bytes) : outcome bytes :=
  do s <- parse_store dec16 pol b;
  do f <- nv_extract d [] s;
  do s' <- nv_reload d f [] s;
  do a <- asm_store enc16 pol d s';
  Ok (s_buf a).

(* NewNVarStore, Assemble *)
Definition nv_direct_save (pol : Z) (d : nat) (b : bytes) : outcome bytes :=
  do s <- parse_store dec16 pol b;
  do a <- asm_store enc16 pol d s;
  Ok (s_buf a).

Definition nv_extract_paths (pol : Z) (d : nat) (b : bytes) : outcome (list nvpath) :=
  do s <- parse_store dec16 pol b;
  do f <- nv_extract d [] s;
  Ok (map fst f).

End NvDir.
