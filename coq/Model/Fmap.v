(* Model/Fmap.v — executable model of pkg/fmap/fmap.go
   Transcribes: headerValid, Read, Write, ReadArea, WriteArea, Checksum
   (the byte stream fed to the hash), and the JSON path of cmds/fmap jget / jput
   (end of this file).  FlagNames, IndexOfArea and the CLI's file handling are not modelled.
   io.ReaderAt is a bytes.Reader over the image; io.WriterAt/WriteSeeker is a
   growable in-memory file (writes past the end extend it with zeros, as
   os.File does). *)
From Fiano Require Import Base.Bytes Gen.Consts.
Open Scope Z_scope.

Record header := mkHeader {
  h_sig : bytes;      (* [8]uint8 *)
  h_vmaj : Z;         (* uint8  @8  *)
  h_vmin : Z;         (* uint8  @9  *)
  h_base : Z;         (* uint64 @10 *)
  h_size : Z;         (* uint32 @18 *)
  h_name : bytes;     (* [32]uint8 @22 *)
  h_nareas : Z        (* uint16 @54 *)
}.

Record area := mkArea {
  a_off : Z;          (* uint32 @0 *)
  a_size : Z;         (* uint32 @4 *)
  a_name : bytes;     (* [32]uint8 @8 *)
  a_flags : Z         (* uint16 @40 *)
}.

Record fmap := mkFmap { f_hdr : header; f_areas : list area }.

Definition hdr_len : Z := fmap_header_size.
Definition area_len : Z := fmap_area_size.

Definition enc_header (h : header) : bytes :=
  h_sig h ++ le_enc 1 (h_vmaj h) ++ le_enc 1 (h_vmin h) ++ le_enc 8 (h_base h) ++
  le_enc 4 (h_size h) ++ h_name h ++ le_enc 2 (h_nareas h).

Definition dec_header (b : bytes) : option header :=
  if zlen b <? hdr_len then None else
  Some (mkHeader (sub 0 8 b) (rd 8 1 b) (rd 9 1 b) (rd 10 8 b) (rd 18 4 b)
                 (sub 22 32 b) (rd 54 2 b)).

Definition enc_area (a : area) : bytes :=
  le_enc 4 (a_off a) ++ le_enc 4 (a_size a) ++ a_name a ++ le_enc 2 (a_flags a).

Definition dec_area (b : bytes) : area :=
  mkArea (rd 0 4 b) (rd 4 4 b) (sub 8 32 b) (rd 40 2 b).

Definition enc_areas (l : list area) : bytes := concat (map enc_area l).

(* binary.Read into a []Area of length n: all n*42 bytes or errEOF *)
Fixpoint dec_areas (n : nat) (b : bytes) : option (list area) :=
  match n with
  | O => Some []
  | S k =>
    if zlen b <? area_len then None else
    match dec_areas k (zskipn area_len b) with
    | Some r => Some (dec_area (zfirstn area_len b) :: r)
    | None => None
    end
  end.

Definition enc_fmap (m : fmap) : bytes := enc_header (f_hdr m) ++ enc_areas (f_areas m).

Definition header_valid (h : header) : bool :=
  (h_vmaj h =? 1) && negb (h_size h =? 0) && existsb (fun x => x =? 0) (h_name h).

(* a candidate at the head of suffix [b]: signature, a complete header, valid *)
Definition valid_here (b : bytes) : option header :=
  if prefixb fmap_signature b then
    match dec_header b with
    | Some h => if header_valid h then Some h else None
    | None => None
    end
  else None.

(* error classes of Read *)
Definition E_EOF : Z := 1.
Definition E_NOTFOUND : Z := 2.
Definition E_MULTIPLE : Z := 3.
Definition E_RANGE : Z := 4.
Definition E_TOOLARGE : Z := 5.

(* The scan of Read: every offset at which the signature occurs is examined in
   increasing order.  Returns None as soon as a valid header's area table is
   truncated (errEOF), otherwise the list of complete maps with their offsets. *)
Fixpoint scan (b : bytes) (pos : Z) : option (list (fmap * Z)) :=
  match b with
  | [] => Some []
  | _ :: r =>
    match valid_here b with
    | Some h =>
      match dec_areas (Z.to_nat (h_nareas h)) (zskipn hdr_len b) with
      | None => None
      | Some ars =>
        match scan r (pos + 1) with
        | None => None
        | Some l => Some ((mkFmap h ars, pos) :: l)
        end
      end
    | None => scan r (pos + 1)
    end
  end.

Definition read (data : bytes) : outcome (fmap * Z) :=
  match scan data 0 with
  | None => Err E_EOF
  | Some [] => Err E_NOTFOUND
  | Some [m] => Ok m
  | Some _ => Err E_MULTIPLE
  end.

(* WriteAt on a growable file *)
Definition write_at (off : Z) (d img : bytes) : bytes :=
  if off + zlen d <=? zlen img then splice off d img
  else if off <=? zlen img then zfirstn off img ++ d
  else img ++ zrepeat 0 (off - zlen img) ++ d.

Definition write (img : bytes) (m : fmap) (start : Z) : bytes :=
  write_at start (enc_fmap m) img.

(* bytes.Reader.ReadAt into a buffer of [size] bytes: io.EOF when the offset is
   at or past the end (even for an empty buffer) or the buffer is not filled *)
Definition read_at (img : bytes) (off size : Z) : outcome bytes :=
  if (off <? zlen img) && (off + size <=? zlen img) then Ok (sub off size img) else Err E_EOF.

Definition nth_area (m : fmap) (i : Z) : option area :=
  if 0 <=? i then nth_error (f_areas m) (Z.to_nat i) else None.

Definition read_area (m : fmap) (img : bytes) (i : Z) : outcome bytes :=
  if (i <? 0) || (h_nareas (f_hdr m) <=? i) then Err E_RANGE else
  match nth_area m i with
  | None => Panic 1     (* NAreas says yes, len(Areas) says no: index out of range *)
  | Some a => read_at img (a_off a) (a_size a)
  end.

Definition write_area (m : fmap) (img : bytes) (i : Z) (d : bytes) : outcome bytes :=
  if (i <? 0) || (h_nareas (f_hdr m) <=? i) then Err E_RANGE else
  match nth_area m i with
  | None => Panic 2
  | Some a =>
    if a_size a <? (zlen d) mod 2 ^ 32 then Err E_TOOLARGE
    else Ok (write_at (a_off a) d img)
  end.

(* the byte stream Checksum feeds to the hash, static areas in table order *)
Fixpoint checksum_stream (m : fmap) (img : bytes) (l : list area) (i : Z) : outcome bytes :=
  match l with
  | [] => Ok []
  | a :: r =>
    if Z.land (a_flags a) fmap_area_static =? 0 then checksum_stream m img r (i + 1)
    else
      do x <- read_area m img i;
      do y <- checksum_stream m img r (i + 1);
      Ok (x ++ y)
  end.

Definition checksum_input (m : fmap) (img : bytes) : outcome bytes :=
  checksum_stream m img (f_areas m) 0.

(* ---- specification-side definitions used by the theorems ---- *)

Definition wf_header (h : header) : bool :=
  bytes_eqb (h_sig h) fmap_signature &&
  (0 <=? h_vmaj h) && (h_vmaj h <? 256) && (0 <=? h_vmin h) && (h_vmin h <? 256) &&
  (0 <=? h_base h) && (h_base h <? 2 ^ 64) && (0 <=? h_size h) && (h_size h <? 2 ^ 32) &&
  bytes_ok (h_name h) && (zlen (h_name h) =? 32) &&
  (0 <=? h_nareas h) && (h_nareas h <? 2 ^ 16).

Definition wf_area (a : area) : bool :=
  (0 <=? a_off a) && (a_off a <? 2 ^ 32) && (0 <=? a_size a) && (a_size a <? 2 ^ 32) &&
  bytes_ok (a_name a) && (zlen (a_name a) =? 32) &&
  (0 <=? a_flags a) && (a_flags a <? 2 ^ 16).

Definition wf_map (m : fmap) : bool :=
  wf_header (f_hdr m) && header_valid (f_hdr m) &&
  forallb wf_area (f_areas m) && (h_nareas (f_hdr m) =? zlen (f_areas m)).

(* is there a valid header at absolute offset p of data *)
Definition valid_at (data : bytes) (p : Z) : bool :=
  match valid_here (zskipn p data) with Some _ => true | None => false end.

(* ---- the JSON form of the map (cmds/fmap jget / jput) ----
   jget marshals {FMap, Metadata}: numbers as JSON numbers, the signature as an array of
   numbers, every name as the JSON string of its bytes up to the trailing NULs
   (String.MarshalJSON = json.Marshal(strings.TrimRight(name, "\x00"))); jput unmarshals
   (String.UnmarshalJSON copies the unquoted string into a zeroed [32]byte, longer strings
   are an error) and writes the map at Metadata.Start.  For names of 7-bit bytes the JSON
   string holds exactly those bytes (control characters, quotes, '<' etc. are escaped and
   unescaped); names with bytes >= 0x80 pass through Go's UTF-8 decoding, which this model
   does not transcribe: [json_name] answers None for them. *)
Fixpoint trim0 (v : bytes) : bytes :=
  match v with
  | [] => []
  | x :: r =>
    match trim0 r with
    | [] => if x =? 0 then [] else [x]
    | r' => x :: r'
    end
  end.

Definition ascii (s : bytes) : bool := forallb (fun b => (0 <=? b) && (b <? 128)) s.

Definition E_NAMELONG : Z := 6.

Definition json_name (v : bytes) : option (outcome bytes) :=
  let s := trim0 v in
  if negb (ascii s) then None
  else if 32 <? zlen s then Some (Err E_NAMELONG)
  else Some (Ok (s ++ zrepeat 0 (32 - zlen s))).

Fixpoint json_areas (l : list area) : option (outcome (list area)) :=
  match l with
  | [] => Some (Ok [])
  | a :: r =>
    match json_name (a_name a), json_areas r with
    | Some (Ok n), Some (Ok r') => Some (Ok (mkArea (a_off a) (a_size a) n (a_flags a) :: r'))
    | None, _ | _, None => None
    | Some (Ok _), Some o => Some o
    | Some (Err e), _ => Some (Err e)
    | Some o, _ => Some (Err E_NAMELONG)
    end
  end.

(* the map after jget + json.Unmarshal *)
Definition json_map (m : fmap) : option (outcome fmap) :=
  let h := f_hdr m in
  match json_name (h_name h), json_areas (f_areas m) with
  | Some (Ok n), Some (Ok ars) =>
    Some (Ok (mkFmap (mkHeader (h_sig h) (h_vmaj h) (h_vmin h) (h_base h) (h_size h) n (h_nareas h)) ars))
  | None, _ | _, None => None
  | Some (Err e), _ => Some (Err e)
  | _, Some (Err e) => Some (Err e)
  | _, _ => Some (Err E_NAMELONG)
  end.

(* fmap jget J IMG; fmap jput J IMG *)
Definition json_roundtrip (img : bytes) : option (outcome bytes) :=
  match read img with
  | Ok (m, start) =>
    match json_map m with
    | Some (Ok m') => Some (Ok (write img m' start))
    | Some (Err e) => Some (Err e)
    | Some o => Some (Err E_NAMELONG)
    | None => None
    end
  | Err e => Some (Err e)
  | Panic s => Some (Panic s)
  | Fuel => Some Fuel
  end.

Definition names32 (m : fmap) : bool :=
  (zlen (h_name (f_hdr m)) =? 32) && forallb (fun a => zlen (a_name a) =? 32) (f_areas m).
Definition names_ascii (m : fmap) : bool :=
  ascii (h_name (f_hdr m)) && forallb (fun a => ascii (a_name a)) (f_areas m).
