(* Model/FfsGrammar.v — the reference image grammar of property C01 as ONE datatype with its
   serialiser: sections, files, volumes (nested to any depth through FV-image sections) and
   bare BIOS regions.  [emit_*] only composes the byte-level productions of Model/FfsSpec.v. *)
From Fiano Require Import Base.Bytes Model.Ffs Model.FfsSpec.
Open Scope Z_scope.

Inductive sspec : Type :=
| SLeaf (t : Z) (body : bytes)                          (* PE32, TE, RAW, freeform, unknown types ... *)
| SLeafL (t : Z) (body : bytes)                         (* the same with the extended common header
                                                           (32-bit size): sections of 16 MiB and more *)
| SGuid (g : bytes) (attrs : Z) (extra payload : bytes) (* GUID-defined, not decoded *)
| SUi (p : bytes)                                       (* user interface: UCS-2 payload *)
| SVer (build : Z) (p : bytes)                          (* version: build number + UCS-2 payload *)
| SDepex (t : Z) (ops : list (Z * option bytes))        (* DXE/PEI/MM dependency expression *)
| SFv (v : vspec)                                       (* firmware volume image *)
with fspec : Type :=
| FOpaque (g : bytes) (ckh ckf t attr state : Z) (body : bytes)   (* incl. pad files *)
| FOpaqueL (g : bytes) (ckh ckf t attr state : Z) (body : bytes)  (* the same in the FFSv3 large form
                                                                     (64-bit size): files of 16 MiB and more *)
| FSecs (g : bytes) (t attr state : Z) (secs : list sspec)
| FSecsL (g : bytes) (t attr state : Z) (secs : list sspec)      (* sections adding up to 16 MiB or more:
                                                                     large form; FFSv3 volumes only *)
with vspec : Type :=
| VSpec (zero g : bytes) (attrs reserved rev count bsize : Z)
        (more : list (Z * Z))                   (* block-map entries after the first one *)
        (xh : option (bytes * bytes * bytes * bytes))   (* extended header: bytes between the header and
                                                   it, name, extra data, bytes up to the next 8-byte boundary *)
        (files : list fspec) (free : Z).

Definition xh_eo (hl : Z) (x : option (bytes * bytes * bytes * bytes)) : Z :=
  match x with None => 0 | Some (pre, _, _, _) => hl + zlen pre end.
Definition blockb (cs : Z * Z) : bool :=
  (0 <=? fst cs) && (fst cs <? 2 ^ 32) && (0 <=? snd cs) && (snd cs <? 2 ^ 32) &&
  negb ((fst cs =? 0) && (snd cs =? 0)).
Definition xh_bytes (x : option (bytes * bytes * bytes * bytes)) : bytes :=
  match x with None => [] | Some (pre, n, e, gp) => pre ++ ext_bytes n e gp end.

Fixpoint emit_s (s : sspec) : bytes :=
  match s with
  | SLeaf t body => sec_bytes t body
  | SLeafL t body => sec_bytes_large t body
  | SGuid g attrs extra payload => sec_bytes 2 (gd_body g attrs extra payload)
  | SUi p => sec_bytes 21 p
  | SVer build p => sec_bytes 20 (le_enc 2 build ++ p)
  | SDepex t ops => sec_bytes t (depex_bytes ops)
  | SFv v => sec_bytes 23 (emit_v v)
  end
with emit_f (f : fspec) : bytes :=
  match f with
  | FOpaque g ckh ckf t attr state body => raw_file_bytes g ckh ckf t attr state body
  | FOpaqueL g ckh ckf t attr state body => raw_file_bytes_large g ckh ckf t attr state body
  | FSecs g t attr state secs => file_bytes g t attr state (sections_bytes (map emit_s secs))
  | FSecsL g t attr state secs => file_bytes_large g t attr state (sections_bytes (map emit_s secs))
  end
with emit_v (v : vspec) : bytes :=
  match v with
  | VSpec zero g attrs reserved rev count bsize more xh files free =>
    vol_bytes_x zero g attrs reserved rev count bsize more (xh_eo (fv_hlen more) xh) (xh_bytes xh)
                (map emit_f files) free
  end.

(* files whose re-assembly raises the volume's "use FFSv3" flag *)
Definition is_big (f : fspec) : bool := match f with FSecsL _ _ _ _ _ => true | _ => false end.

(* a region: (padding, volume) pairs and trailing padding *)
Definition emit_region (l : list (bytes * vspec)) (trail : bytes) : bytes :=
  region_bytes (map (fun pv => (fst pv, emit_v (snd pv))) l) trail.

Section WF.
Variable u2s s2u : bytes -> bytes.

Definition in_range (lo x hi : Z) : Prop := lo <= x < hi.

Definition wf_xh (hl : Z) (x : option (bytes * bytes * bytes * bytes)) : Prop :=
  match x with
  | None => True
  | Some (pre, n, e, gp) =>
      bytes_ok pre = true /\ zlen n = 16 /\ bytes_ok n = true /\ bytes_ok e = true /\ bytes_ok gp = true /\
      20 + zlen e < 2 ^ 32 /\ zlen gp < 8 /\ hl + zlen pre < 65536 /\ 0 < zlen e + zlen gp /\
      (hl + zlen (pre ++ ext_bytes n e gp)) mod 8 = 0
  end.

(* well-formedness: exactly the side conditions of the production rules *)
Fixpoint wf_s (s : sspec) : Prop :=
  match s with
  | SLeaf t body => leaf_type t = true /\ in_range 0 t 256 /\ bytes_ok body = true /\
                    4 + zlen body < 16777215
  | SLeafL t body => leaf_type t = true /\ known_section t = true /\ in_range 0 t 256 /\
                     bytes_ok body = true /\ 8 + zlen body < 4294967295
  | SGuid g attrs extra payload =>
      zlen g = 16 /\ bytes_ok g = true /\ in_range 0 attrs 65536 /\
      (Z.land attrs 1 = 0 \/ codec_kind g = 0) /\ bytes_ok extra = true /\ bytes_ok payload = true /\
      24 + zlen extra < 65536 /\ 4 + zlen (gd_body g attrs extra payload) < 16777215
  | SUi p => s2u (u2s p) = p /\ 0 < zlen p /\ bytes_ok p = true /\ 4 + zlen p < 16777215
  | SVer build p => in_range 0 build 65536 /\ s2u (u2s p) = p /\ 0 < zlen p /\ bytes_ok p = true /\
                    6 + zlen p < 16777215
  | SDepex t ops => (t = 19 \/ t = 27 \/ t = 28) /\ forallb depex_op_ok ops = true /\
                    4 + zlen (depex_bytes ops) < 16777215
  | SFv v => wf_v v /\ 4 + zlen (emit_v v) < 16777215
  end
with wf_f (f : fspec) : Prop :=
  match f with
  | FOpaque g ckh ckf t attr state body =>
      zlen g = 16 /\ bytes_ok g = true /\ in_range 0 ckh 256 /\ in_range 0 ckf 256 /\
      in_range 0 t 256 /\ in_range 0 attr 256 /\ in_range 0 state 256 /\ bytes_ok body = true /\
      24 + zlen body < 16777215 /\ (t =? 1) && bytes_eqb g NVAR_GUID = false /\
      (supported_file t = false \/ body = [])
  | FOpaqueL g ckh ckf t attr state body =>
      zlen g = 16 /\ bytes_ok g = true /\ in_range 0 ckh 256 /\ in_range 0 ckf 256 /\
      in_range 0 t 256 /\ in_range 0 attr 256 /\ in_range 0 state 256 /\ bytes_ok body = true /\
      32 + zlen body < 2 ^ 64 - 1 /\ (t =? 1) && bytes_eqb g NVAR_GUID = false /\
      (supported_file t = false \/ body = [])
  | FSecs g t attr state secs =>
      zlen g = 16 /\ bytes_ok g = true /\ in_range 0 t 256 /\ in_range 0 attr 256 /\
      in_range 0 state 256 /\ Z.land attr 1 = 0 /\ supported_file t = true /\ secs <> [] /\
      fold_right and True (map wf_s secs) /\
      24 + zlen (sections_bytes (map emit_s secs)) < 16777215
  | FSecsL g t attr state secs =>
      zlen g = 16 /\ bytes_ok g = true /\ in_range 0 t 256 /\ in_range 0 attr 256 /\
      in_range 0 state 256 /\ Z.land attr 1 = 1 /\ supported_file t = true /\ secs <> [] /\
      fold_right and True (map wf_s secs) /\
      16777215 <= 24 + zlen (sections_bytes (map emit_s secs)) /\
      32 + zlen (sections_bytes (map emit_s secs)) < 2 ^ 64 - 1
  end
with wf_v (v : vspec) : Prop :=
  match v with
  | VSpec zero g attrs reserved rev count bsize more xh files free =>
      zlen zero = 16 /\ bytes_ok zero = true /\ (g = FFS2 \/ g = FFS3) /\
      in_range 0 attrs (2 ^ 32) /\ Z.land attrs 2048 <> 0 /\
      in_range 0 reserved 256 /\ in_range 0 rev 256 /\
      in_range 0 count (2 ^ 32) /\ in_range 0 bsize (2 ^ 32) /\ (count =? 0) && (bsize =? 0) = false /\
      fold_right and True (map wf_f files) /\
      files_aligned (fv_hlen more + zlen (xh_bytes xh)) (map emit_f files) = true /\ 0 <= free /\
      fv_hlen more + zlen (xh_bytes xh) + zlen (flay (map emit_f files)) + free < 2 ^ 64 /\
      wf_xh (fv_hlen more) xh /\ forallb blockb more = true /\ fv_hlen more < 65536 /\
      (existsb is_big files = true -> g = FFS3)
  end.

(* a region: every padding 8-aligned and free of scan hits up to the volume's signature, at least
   one volume, trailing padding free of scan hits *)
Definition wf_region (l : list (bytes * vspec)) (trail : bytes) : Prop :=
  l <> [] /\
  fold_right and True
    (map (fun pv : bytes * vspec =>
            (zlen (fst pv)) mod 8 = 0 /\ bytes_ok (fst pv) = true /\ wf_v (snd pv) /\
            scan_clear (Z.to_nat (zlen (fst pv) / 8) + 1) (fst pv ++ emit_v (snd pv)) 32 = true) l) /\
  scan_clear (Z.to_nat (zlen trail / 8) + 1) trail 32 = true.

End WF.

(* ---------- a decidable version of well-formedness, run by the correspondence check on every
   generated image to establish that it lies in the domain of the C01 theorem ---------- *)
Section WFB.
Variable u2s s2u : bytes -> bytes.

Definition rng (lo x hi : Z) : bool := (lo <=? x) && (x <? hi).

Definition wfb_xh (hl : Z) (x : option (bytes * bytes * bytes * bytes)) : bool :=
  match x with
  | None => true
  | Some (pre, n, e, gp) =>
      bytes_ok pre && (zlen n =? 16) && bytes_ok n && bytes_ok e && bytes_ok gp &&
      (20 + zlen e <? 2 ^ 32) && (zlen gp <? 8) && (hl + zlen pre <? 65536) && (0 <? zlen e + zlen gp) &&
      ((hl + zlen (pre ++ ext_bytes n e gp)) mod 8 =? 0)
  end.

Fixpoint wfb_s (s : sspec) : bool :=
  match s with
  | SLeaf t body => leaf_type t && rng 0 t 256 && bytes_ok body && (4 + zlen body <? 16777215)
  | SLeafL t body => leaf_type t && known_section t && rng 0 t 256 && bytes_ok body &&
                     (8 + zlen body <? 4294967295)
  | SGuid g attrs extra payload =>
      (zlen g =? 16) && bytes_ok g && rng 0 attrs 65536 &&
      ((Z.land attrs 1 =? 0) || (codec_kind g =? 0)) && bytes_ok extra && bytes_ok payload &&
      (24 + zlen extra <? 65536) && (4 + zlen (gd_body g attrs extra payload) <? 16777215)
  | SUi p => bytes_eqb (s2u (u2s p)) p && (0 <? zlen p) && bytes_ok p && (4 + zlen p <? 16777215)
  | SVer build p => rng 0 build 65536 && bytes_eqb (s2u (u2s p)) p && (0 <? zlen p) && bytes_ok p &&
                    (6 + zlen p <? 16777215)
  | SDepex t ops => ((t =? 19) || (t =? 27) || (t =? 28)) && forallb depex_op_ok ops &&
                    (4 + zlen (depex_bytes ops) <? 16777215)
  | SFv v => wfb_v v && (4 + zlen (emit_v v) <? 16777215)
  end
with wfb_f (f : fspec) : bool :=
  match f with
  | FOpaque g ckh ckf t attr state body =>
      (zlen g =? 16) && bytes_ok g && rng 0 ckh 256 && rng 0 ckf 256 && rng 0 t 256 && rng 0 attr 256 &&
      rng 0 state 256 && bytes_ok body && (24 + zlen body <? 16777215) &&
      negb ((t =? 1) && bytes_eqb g NVAR_GUID) &&
      (negb (supported_file t) || (match body with [] => true | _ => false end))
  | FOpaqueL g ckh ckf t attr state body =>
      (zlen g =? 16) && bytes_ok g && rng 0 ckh 256 && rng 0 ckf 256 && rng 0 t 256 && rng 0 attr 256 &&
      rng 0 state 256 && bytes_ok body && (32 + zlen body <? 2 ^ 64 - 1) &&
      negb ((t =? 1) && bytes_eqb g NVAR_GUID) &&
      (negb (supported_file t) || (match body with [] => true | _ => false end))
  | FSecs g t attr state secs =>
      (zlen g =? 16) && bytes_ok g && rng 0 t 256 && rng 0 attr 256 && rng 0 state 256 &&
      (Z.land attr 1 =? 0) && supported_file t && (match secs with [] => false | _ => true end) &&
      forallb wfb_s secs && (24 + zlen (sections_bytes (map emit_s secs)) <? 16777215)
  | FSecsL g t attr state secs =>
      (zlen g =? 16) && bytes_ok g && rng 0 t 256 && rng 0 attr 256 && rng 0 state 256 &&
      (Z.land attr 1 =? 1) && supported_file t && (match secs with [] => false | _ => true end) &&
      forallb wfb_s secs && (16777215 <=? 24 + zlen (sections_bytes (map emit_s secs))) &&
      (32 + zlen (sections_bytes (map emit_s secs)) <? 2 ^ 64 - 1)
  end
with wfb_v (v : vspec) : bool :=
  match v with
  | VSpec zero g attrs reserved rev count bsize more xh files free =>
      (zlen zero =? 16) && bytes_ok zero && (bytes_eqb g FFS2 || bytes_eqb g FFS3) &&
      rng 0 attrs (2 ^ 32) && negb (Z.land attrs 2048 =? 0) && rng 0 reserved 256 && rng 0 rev 256 &&
      rng 0 count (2 ^ 32) && rng 0 bsize (2 ^ 32) && negb ((count =? 0) && (bsize =? 0)) &&
      forallb wfb_f files && files_aligned (fv_hlen more + zlen (xh_bytes xh)) (map emit_f files) &&
      (0 <=? free) &&
      (fv_hlen more + zlen (xh_bytes xh) + zlen (flay (map emit_f files)) + free <? 2 ^ 64) &&
      wfb_xh (fv_hlen more) xh && forallb blockb more && (fv_hlen more <? 65536) &&
      (negb (existsb is_big files) || bytes_eqb g FFS3)
  end.

Definition wfb_region (l : list (bytes * vspec)) (trail : bytes) : bool :=
  (match l with [] => false | _ => true end) &&
  forallb (fun pv : bytes * vspec =>
             ((zlen (fst pv)) mod 8 =? 0) && bytes_ok (fst pv) && wfb_v (snd pv) &&
             scan_clear (Z.to_nat (zlen (fst pv) / 8) + 1) (fst pv ++ emit_v (snd pv)) 32) l &&
  scan_clear (Z.to_nat (zlen trail / 8) + 1) trail 32.

End WFB.
