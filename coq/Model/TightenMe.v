(* Model/TightenMe.v — executable model of the code path of `utk IMAGE tighten_me save OUT`
   (property C12).

   Transcribed Go functions
     pkg/uefi/uefi.go                Parse, SetErasePolarity, IsErased, Erase
     pkg/uefi/flash.go               FindSignature, ParseFlashDescriptor, NewFlashImage,
                                     fillRegionGaps
     pkg/uefi/flashdescriptormap.go  NewFlashDescriptorMap   (16 x uint8: kept as 16 bytes)
     pkg/uefi/flashregionsection.go  NewFlashRegionSection   (blank uint16, uint16, 15 x (Base,Limit))
     pkg/uefi/flashmastersection.go  NewFlashMasterSection   (kept as 12 bytes)
     pkg/uefi/region.go              FlashRegion.Valid/BaseOffset/EndOffset, regionConstructors
     pkg/uefi/rawregion.go           NewRawRegion
     pkg/uefi/meregion.go            FindMEDescriptor, NewMEFPT, parsePartitions, NewMERegion
                                     (FreeSpaceOffset), OffsetIsValid
     pkg/uefi/biosregion.go          NewBIOSRegion, NewBIOSPadding, FirstFV
     pkg/uefi/firmwarevolume.go      FindFirmwareVolumeOffset, NewFirmwareVolume up to the point
                                     where file parsing starts, GetErasePolarity
     pkg/visitors/tightenme.go       Run, Visit, process
     pkg/visitors/assemble.go        the cases *uefi.FlashDescriptor, *uefi.BIOSRegion,
                                     *uefi.FlashImage, and *uefi.FirmwareVolume for a volume
                                     without parsed files (SetErasePolarity, buffer kept)
     pkg/visitors/save.go            Save.Visit (the bytes handed to os.WriteFile)

   Not modelled
     * Firmware volumes whose file system GUID is FFS2 or FFS3: NewFirmwareVolume then parses
       files; [parse_fv] answers [Err E_UNMODELLED].  For every other GUID the Go code keeps
       the volume as an opaque buffer (Files = nil) and Assemble returns it unchanged; that is
       the class of volumes of this model.  (What Assemble does to parsed files is the
       subject of C01/C06, not of tighten_me, which only prepends a padding.)
     * The extended FV header (it only moves DataOffset, which matters for file parsing only).
     * sort.Slice: Go uses insertion sort (stable) for up to 12 elements - [sort_by] below is
       that loop - and pdqsort above 12, which may order regions of EQUAL Base differently.
       During parsing equal bases always end in the "overlapping regions" error whatever the
       order.  During Assemble two regions have equal Base only when tighten_me emptied the ME
       region completely (no partition table, region entirely erased); the list is then
       already sorted, and the differential run (13-15 regions) agrees with the stable sort.
     * JSON/extract metadata (ExtractPath), log output, the 16 MiB warning.
     * Pointer identity: a declared region's FRegion points into IFD.Region.FlashRegions[i];
       here that is the constructor ([RBios] -> slot 0, [RME] -> slot 1, [RRaw i] -> slot i),
       a gap region owns its FlashRegion ([RGap]).  The re-pointing loop of Assemble
       (SetFlashRegion(&FlashRegions[Type])) is the identity on such trees.
   The global uefi.Attributes.ErasePolarity is threaded as a Z ([erase_polarity_poison] = not
   yet set), as the executor resets it before each Parse. *)
From Fiano Require Import Base.Bytes Gen.Consts.
Open Scope Z_scope.

(* ---- error classes (the executor maps Go error messages to the same numbers) ---- *)
Definition E_TOOSHORT : Z := 1.     (* ErrTooShort *)
Definition E_NOSIG : Z := 2.        (* flash signature not found *)
Definition E_REGION_OOB : Z := 3.   (* flash descriptor region out of bounds *)
Definition E_NOBIOS : Z := 4.       (* no BIOS region: invalid region parameters *)
Definition E_OVERLAP : Z := 5.      (* overlapping regions! *)
Definition E_FVSMALL : Z := 6.      (* Firmware Volume size too small *)
Definition E_FVEOF : Z := 7.        (* EOF while reading the block map *)
Definition E_POLARITY : Z := 8.     (* conflicting erase polarities *)
Definition E_FVLEN : Z := 9.        (* invalid FV length (greater than the data / smaller than the minimum) *)
Definition E_FVLEN0 : Z := 10.      (* FV len 0; cannot progress *)
Definition E_NOIFD : Z := 11.       (* no IFD found *)
Definition E_NOME : Z := 12.        (* no ME region found *)
Definition E_NOBIOSREGION : Z := 13. (* no BIOS region found *)
Definition E_NONADJ : Z := 14.      (* ME and BIOS regions are not contiguous *)
Definition E_NOTERASED : Z := 15.   (* ME unused space in not erased as expected *)
Definition E_NOFV : Z := 16.        (* no firmware volumes in BIOS Region *)
Definition E_GAP : Z := 17.         (* gap between regions *)
Definition E_GAPEND : Z := 18.      (* gap between at end of flash *)
Definition E_SIZENOTBLOCKS : Z := 19. (* flash size ... is not a multiple of the block size *)
Definition E_UNMODELLED : Z := 99.  (* FFS2/FFS3 volume: outside this model *)

Definition U16 : Z := 2 ^ 16.
Definition U64 : Z := 2 ^ 64.

(* ---- data ---- *)

Record fregion := mkFR { fr_base : Z; fr_limit : Z }.   (* uint16, uint16 *)

Inductive belem :=
| BPad (buf : bytes) (off : Z)                 (* *uefi.BIOSPadding: buf, Offset *)
| BVol (buf : bytes) (off : Z) (pol : Z).      (* *uefi.FirmwareVolume without files: buf, FVOffset, GetErasePolarity() *)

Inductive region :=
| RBios (els : list belem) (len : Z)                        (* Elements, Length;  FRegion = &slots[0] *)
| RME (buf : bytes) (fpt : option (list (Z * Z))) (fso : Z) (* buf, FPT entries (Offset,Length), FreeSpaceOffset; FRegion = &slots[1] *)
| RRaw (idx : Z) (buf : bytes)                              (* RegionType idx >= 2; FRegion = &slots[idx] *)
| RGap (fr : fregion) (buf : bytes).                        (* RegionTypeUnknown, own FlashRegion *)

Record tree := mkTree {
  t_ifd : bytes;        (* IFD.buf, 4096 bytes *)
  t_dms : Z;            (* DescriptorMapStart *)
  t_rs : Z;             (* RegionStart *)
  t_ms : Z;             (* MasterStart *)
  t_dmap : bytes;       (* DescriptorMap: 16 uint8 fields *)
  t_erase : Z;          (* Region.FlashBlockEraseSize *)
  t_slots : list fregion; (* Region.FlashRegions [15] *)
  t_master : bytes;     (* Master: 3 x (uint16, uint8, uint8) *)
  t_regions : list region;
  t_size : Z            (* FlashSize *)
}.

Inductive root :=
| RootFlash (t : tree)
| RootBios (els : list belem) (len : Z).   (* image without flash signature: one big BIOSRegion *)

(* ---- FlashRegion ---- *)
Definition dflt_fr : fregion := mkFR 0 0.
Definition slot (sl : list fregion) (i : Z) : fregion := nth (Z.to_nat i) sl dflt_fr.

Definition fr_valid (r : fregion) : bool :=
  (0 <? fr_limit r) && (fr_base r <=? fr_limit r) &&
  negb (fr_limit r =? 65535) && negb (fr_base r =? 65535).
Definition base_off (r : fregion) : Z := fr_base r * ifd_block.       (* uint32; < 2^28 *)
Definition end_off (r : fregion) : Z := (fr_limit r + 1) * ifd_block. (* uint32; <= 2^28 *)

Definition region_fr (sl : list fregion) (r : region) : fregion :=
  match r with
  | RBios _ _ => slot sl ifd_type_bios
  | RME _ _ _ => slot sl ifd_type_me
  | RRaw i _ => slot sl i
  | RGap fr _ => fr
  end.

(* ---- erase polarity (uefi.SetErasePolarity with ep in {0x00, 0xFF}) ---- *)
Definition set_polarity (cur ep : Z) : outcome Z :=
  if negb (cur =? erase_polarity_poison) then
    (if negb (cur =? ep) then Err E_POLARITY else Ok cur)
  else Ok ep.

Definition is_erased (b : bytes) (pol : Z) : bool := forallb (fun c => c =? pol) b.

(* ---- FindSignature ---- *)
Definition find_signature (b : bytes) : outcome Z :=
  if zlen b <? 20 then Err E_TOOSHORT else
  if bytes_eqb (sub 16 4 b) ifd_signature then Ok 20 else
  if bytes_eqb (sub 0 4 b) ifd_signature then Ok 4 else
  Err E_NOSIG.

(* ---- firmware volumes, as far as NewBIOSRegion needs them ---- *)

Definition fv_sig : bytes := [95; 70; 86; 72].   (* "_FVH" *)

(* the loop of FindFirmwareVolumeOffset; [l] is data[offset:] *)
Fixpoint fv_scan (l : bytes) (offset : Z) {struct l} : Z :=
  match l with
  | a :: b :: c :: d :: _ :: _ =>       (* offset+4 < len(data) *)
    if bytes_eqb [a; b; c; d] fv_sig then offset - 40 else
    match l with
    | _ :: _ :: _ :: _ :: _ :: _ :: _ :: _ :: r => fv_scan r (offset + 8)
    | _ => -1
    end
  | _ => -1
  end.

Definition find_fv_offset (data : bytes) : Z :=
  if zlen data <? 32 then -1 else fv_scan (zskipn 32 data) 32.

(* block map: (Count, Size) pairs up to the (0,0) terminator; binary.Read fails at the end *)
Fixpoint read_blocks (l : bytes) : outcome unit :=
  match l with
  | a :: b :: c :: d :: e :: f :: g :: h :: r =>
    if forallb (fun x => x =? 0) [a; b; c; d; e; f; g; h] then Ok tt else read_blocks r
  | _ => Err E_FVEOF
  end.

(* NewFirmwareVolume: returns (fv.buf, GetErasePolarity(), new global polarity) *)
Definition parse_fv (data : bytes) (pol : Z) : outcome (bytes * Z * Z) :=
  if zlen data <? fvh_min_size then Err E_FVSMALL else
  let guid := sub fvh_off_guid 16 data in
  let length := rd fvh_off_length 8 data in
  let attrs := rd fvh_off_attributes 4 data in
  do _ <- read_blocks (zskipn fvh_fixed_size data);
  let vpol := if Z.testbit attrs 11 then 255 else 0 in      (* Attributes & 0x800 *)
  do pol1 <- set_polarity pol vpol;
  if zlen data <? length then Err E_FVLEN else
  if length <? fvh_min_size then Err E_FVLEN else   (* "invalid FV length (is smaller than the minimum FV size)" *)
  if bytes_eqb guid fvh_ffs2 || bytes_eqb guid fvh_ffs3 then Err E_UNMODELLED else
  Ok (sub 0 length data, vpol, pol1).

(* NewBIOSRegion's loop; [abs] is absOffset *)
Fixpoint bios_parse (fuel : nat) (buf : bytes) (abs : Z) (pol : Z) : outcome (list belem * Z) :=
  match fuel with
  | O => Fuel
  | S k =>
    let offset := find_fv_offset buf in
    if offset <? 0 then
      Ok (if zlen buf =? 0 then [] else [BPad buf abs], pol)
    else
      let pads := if 0 <? offset then [BPad (sub 0 offset buf) abs] else [] in
      let abs1 := abs + offset in
      do r <- parse_fv (zskipn offset buf) pol;
      let '(vbuf, vpol, pol1) := r in
      if zlen vbuf =? 0 then Err E_FVLEN0 else
      do rest <- bios_parse k (zskipn (offset + zlen vbuf) buf) (abs1 + zlen vbuf) pol1;
      let '(els, pol2) := rest in
      Ok (pads ++ BVol vbuf abs1 vpol :: els, pol2)
  end.

Definition bios_region (buf : bytes) (pol : Z) : outcome (list belem * Z) :=
  bios_parse (S (length buf)) buf 0 pol.

(* ---- ME region ---- *)

Fixpoint dec_entries (n : nat) (b : bytes) : list (Z * Z) :=
  match n with
  | O => []
  | S k => (rd mefpt_off_offset 4 b, rd mefpt_off_length 4 b) :: dec_entries k (zskipn mefpt_entry_len b)
  end.

(* NewMEFPT: None = an error is logged and the region is kept without FPT *)
Definition parse_fpt (buf : bytes) : option (list (Z * Z)) :=
  match find_sub mefpt_signature buf with
  | None => None
  | Some i =>
    let o := i + zlen mefpt_signature in
    if zlen buf <? o + mefpt_min_len then None else
    let count := rd o 4 buf in
    let pms := o + mefpt_min_len in
    let l := pms + mefpt_entry_len * count in
    if zlen buf <? l then None else
    Some (dec_entries (Z.to_nat count) (sub pms (mefpt_entry_len * count) buf))
  end.

Definition offset_is_valid (o : Z) : bool := negb (o =? 0) && negb (o =? 4294967295).

Definition fso_step (acc : Z) (e : Z * Z) : Z :=
  if offset_is_valid (fst e) then
    (if acc <? fst e + snd e then fst e + snd e else acc)
  else acc.
Definition fso_of (es : list (Z * Z)) : Z := fold_left fso_step es 0.

Definition me_region (buf : bytes) : region :=
  match parse_fpt buf with
  | None => RME buf None 0
  | Some es => RME buf (Some es) (fso_of es)
  end.

(* ---- flash descriptor ---- *)

Fixpoint dec_slots (n : nat) (b : bytes) : list fregion :=
  match n with
  | O => []
  | S k => mkFR (rd 0 2 b) (rd 2 2 b) :: dec_slots k (zskipn ifd_slot_size b)
  end.

Definition enc_fr (r : fregion) : bytes := le_enc 2 (fr_base r) ++ le_enc 2 (fr_limit r).
Definition enc_slots (l : list fregion) : bytes := concat (map enc_fr l).
(* binary.Write of FlashRegionSection: the blank field is written as zero *)
Definition enc_region_section (erase : Z) (sl : list fregion) : bytes :=
  [0; 0] ++ le_enc 2 erase ++ enc_slots sl.

(* ---- NewFlashImage ---- *)

(* the loop over FlashRegions; [i] is the slot index of the head of [frs] *)
Fixpoint parse_regions (img : bytes) (size nr : Z) (frs : list fregion) (i : Z) (pol : Z)
  : outcome (list region * Z) :=
  match frs with
  | [] => Ok ([], pol)
  | fr :: rest =>
    if negb (nr =? 0) && (nr <=? i) then Ok ([], pol) else
    if negb (fr_valid fr) then parse_regions img size nr rest (i + 1) pol else
    if size <=? base_off fr then parse_regions img size nr rest (i + 1) pol else
    if size <? end_off fr then parse_regions img size nr rest (i + 1) pol else
    let buf := sub (base_off fr) (end_off fr - base_off fr) img in
    do r <- (if i =? ifd_type_bios then
               do x <- bios_region buf pol; Ok (RBios (fst x) (zlen buf), snd x)
             else if i =? ifd_type_me then Ok (me_region buf, pol)
             else Ok (RRaw i buf, pol));
    do more <- parse_regions img size nr rest (i + 1) (snd r);
    Ok (fst r :: fst more, snd more)
  end.

(* insertionSortLessFunc of package sort, on the reversed prefix: the new element
   moves left while it is less than its left neighbour *)
Fixpoint ins {A} (key : A -> Z) (x : A) (acc_rev : list A) : list A :=
  match acc_rev with
  | [] => [x]
  | y :: r => if key x <? key y then y :: ins key x r else x :: y :: r
  end.
Definition sort_by {A} (key : A -> Z) (l : list A) : list A :=
  rev (fold_left (fun acc x => ins key x acc) l []).

Definition gap_region (img : bytes) (offset next : Z) : outcome region :=
  do buf <- of_opt 3 (slice offset next img);
  Ok (RGap (mkFR ((offset / ifd_block) mod U16) (((next / ifd_block) mod U16 - 1) mod U16)) buf).

Fixpoint fill_gaps (img : bytes) (size : Z) (sl : list fregion) (rs : list region) (offset : Z)
  : outcome (list region) :=
  match rs with
  | [] =>
    if negb (offset =? size) then
      (* a region is a range of whole blocks: a partial block at the end is refused *)
      if negb (size mod ifd_block =? 0) then Err E_SIZENOTBLOCKS else
      do g <- gap_region img offset size; Ok [g]
    else Ok []
  | r :: rest =>
    let next := base_off (region_fr sl r) in
    if next <? offset then Err E_OVERLAP else
    do pre <- (if offset <? next then do g <- gap_region img offset next; Ok [g] else Ok []);
    do more <- fill_gaps img size sl rest (end_off (region_fr sl r));
    Ok (pre ++ r :: more)
  end.

Definition parse_flash (img : bytes) (pol : Z) : outcome (tree * Z) :=
  if zlen img <? ifd_desc_len then Err E_TOOSHORT else
  let size := zlen img in
  let ifd := sub 0 ifd_desc_len img in
  (* ParseFlashDescriptor *)
  do dms <- find_signature ifd;
  let dmap := sub dms ifd_dmap_size ifd in
  let rs := rd (dms + ifd_dmap_off_region_base) 1 ifd * 16 in
  if (ifd_desc_len <=? rs) || (ifd_desc_len <=? rs + ifd_region_section_size) then Err E_REGION_OOB else
  let sec := sub rs ifd_region_section_size ifd in
  let erase := rd ifd_rsec_off_erase 2 sec in
  let sl := dec_slots (Z.to_nat ifd_nslots) (zskipn ifd_rsec_off_slots sec) in
  let ms := rd (dms + ifd_dmap_off_master_base) 1 ifd * 16 in
  let master := sub ms ifd_master_size ifd in
  (* NewFlashImage *)
  if negb (fr_valid (slot sl ifd_type_bios)) then Err E_NOBIOS else
  let nr := rd (dms + ifd_dmap_off_nregions) 1 ifd in
  do p <- parse_regions img size nr sl 0 pol;
  let sorted := sort_by (fun r => fr_base (region_fr sl r)) (fst p) in
  do filled <- fill_gaps img size sl sorted ifd_desc_len;
  Ok (mkTree ifd dms rs ms dmap erase sl master filled size, snd p).

(* uefi.Parse *)
Definition parse (img : bytes) : outcome (root * Z) :=
  match find_signature img with
  | Ok _ => do p <- parse_flash img erase_polarity_poison; Ok (RootFlash (fst p), snd p)
  | _ => do p <- bios_region img erase_polarity_poison; Ok (RootBios (fst p) (zlen img), snd p)
  end.

(* ---- TightenME ---- *)

(* Visit keeps the last ME / BIOS region met; positions are list indices *)
Fixpoint last_me (rs : list region) (i : nat) (acc : option (nat * bytes * Z)) : option (nat * bytes * Z) :=
  match rs with
  | [] => acc
  | RME b _ f :: r => last_me r (S i) (Some (i, b, f))
  | _ :: r => last_me r (S i) acc
  end.
Fixpoint last_bios (rs : list region) (i : nat) (acc : option (nat * list belem * Z)) : option (nat * list belem * Z) :=
  match rs with
  | [] => acc
  | RBios e l :: r => last_bios r (S i) (Some (i, e, l))
  | _ :: r => last_bios r (S i) acc
  end.

Fixpoint upd_nth {A} (n : nat) (x : A) (l : list A) : list A :=
  match l, n with
  | [], _ => []
  | _ :: r, O => x :: r
  | y :: r, S k => y :: upd_nth k x r
  end.

Definition set_limit (sl : list fregion) (i : Z) (v : Z) : list fregion :=
  upd_nth (Z.to_nat i) (mkFR (fr_base (slot sl i)) v) sl.
Definition set_base (sl : list fregion) (i : Z) (v : Z) : list fregion :=
  upd_nth (Z.to_nat i) (mkFR v (fr_limit (slot sl i))) sl.

Definition shift_elem (s : Z) (e : belem) : belem :=
  match e with
  | BPad b o => BPad b ((o + s) mod U64)
  | BVol b o p => BVol b ((o + s) mod U64) p
  end.

Definition set_me_buf (r : region) (b : bytes) : region :=
  match r with RME _ f s => RME b f s | x => x end.

(* the quantities process computes from the ME slot and FreeSpaceOffset *)
Definition tm_update_base (mfr : fregion) (fso : Z) : Z :=
  (base_off mfr + fso + ifd_block - 1) / ifd_block.
Definition tm_buf_offset (mfr : fregion) (fso : Z) : Z :=
  tm_update_base mfr fso * ifd_block - base_off mfr.

Definition tm (pol : Z) (t : tree) : outcome tree :=
  match last_me (t_regions t) O None with
  | None => Err E_NOME
  | Some (im, buf, fso) =>
  match last_bios (t_regions t) O None with
  | None => Err E_NOBIOSREGION
  | Some (ib, els, blen) =>
    let sl := t_slots t in
    let mfr := slot sl ifd_type_me in
    let bfr := slot sl ifd_type_bios in
    if negb (end_off mfr =? base_off bfr) then Err E_NONADJ else
    let update_base := tm_update_base mfr fso in
    let update_offset := update_base * ifd_block in
    let buf_offset := update_offset - base_off mfr in
    match slice buf_offset (zlen buf) buf with        (* buf[bufOffset:] *)
    | None => Panic 1
    | Some tail =>
      if negb (is_erased tail pol) then Err E_NOTERASED else
      let sl1 := set_limit sl ifd_type_me ((update_base - 1) mod U16) in
      let buf' := zfirstn buf_offset buf in                             (* buf[:bufOffset] *)
      let shift := (base_off (slot sl1 ifd_type_bios) - update_offset) mod U64 in
      let sl2 := set_base sl1 ifd_type_bios (update_base mod U16) in
      let blen' := (blen + shift) mod U64 in
      let els' := BPad tail 0 :: map (shift_elem shift) els in
      let rs1 := upd_nth im (set_me_buf (nth im (t_regions t) (RGap dflt_fr [])) buf') (t_regions t) in
      let rs2 := upd_nth ib (RBios els' blen') rs1 in
      Ok (mkTree (t_ifd t) (t_dms t) (t_rs t) (t_ms t) (t_dmap t) (t_erase t) sl2 (t_master t) rs2 (t_size t))
    end
  end end.

(* TightenME.Run on whatever Parse returned *)
Definition tm_root (pol : Z) (r : root) : outcome root :=
  match r with
  | RootFlash t => do t' <- tm pol t; Ok (RootFlash t')
  | RootBios _ _ => Err E_NOIFD
  end.

(* the tree the caller holds after the call: every error return (and the panic) of process
   precedes its first assignment *)
Definition tm_after (pol : Z) (t : tree) : tree :=
  match tm pol t with Ok t' => t' | _ => t end.

(* ---- Assemble / Save ---- *)

Definition assemble_ifd (t : tree) : bytes :=
  let b1 := splice (t_dms t) (t_dmap t) (t_ifd t) in
  let b2 := splice (t_rs t) (enc_region_section (t_erase t) (t_slots t)) b1 in
  splice (t_ms t) (t_master t) b2.

Definition elem_buf (e : belem) : bytes := match e with BPad b _ => b | BVol b _ _ => b end.

(* children of the BIOS region: each volume sets the erase polarity *)
Fixpoint asm_elems (els : list belem) (pol : Z) : outcome Z :=
  match els with
  | [] => Ok pol
  | BPad _ _ :: r => asm_elems r pol
  | BVol _ _ p :: r => do pol1 <- set_polarity pol p; asm_elems r pol1
  end.

Fixpoint first_fv_pol (els : list belem) : option Z :=
  match els with
  | [] => None
  | BVol _ _ p :: _ => Some p
  | _ :: r => first_fv_pol r
  end.

(* copy(fBuf[offset:offset+len(ebuf)], ebuf) for each element *)
Fixpoint bios_copy (els : list belem) (offset : Z) (fbuf : bytes) : outcome bytes :=
  match els with
  | [] => Ok fbuf
  | e :: r =>
    let eb := elem_buf e in
    if offset + zlen eb <=? zlen fbuf then bios_copy r (offset + zlen eb) (splice offset eb fbuf)
    else Panic 2
  end.

Definition assemble_bios (els : list belem) (len : Z) (pol : Z) : outcome (bytes * Z) :=
  do pol1 <- asm_elems els pol;
  match first_fv_pol els with
  | None => Err E_NOFV
  | Some p =>
    do pol2 <- set_polarity pol1 p;
    do out <- bios_copy els 0 (zrepeat pol2 len);
    Ok (out, pol2)
  end.

(* ApplyChildren of the flash image: each region with the buffer it has afterwards *)
Fixpoint asm_regions (rs : list region) (pol : Z) : outcome (list (region * bytes) * Z) :=
  match rs with
  | [] => Ok ([], pol)
  | r :: rest =>
    do x <- (match r with
             | RBios els len => assemble_bios els len pol
             | RME b _ _ => Ok (b, pol)
             | RRaw _ b => Ok (b, pol)
             | RGap _ b => Ok (b, pol)
             end);
    do more <- asm_regions rest (snd x);
    Ok ((r, fst x) :: fst more, snd more)
  end.

(* the final loop of the *uefi.FlashImage case *)
Fixpoint flash_chain (sl : list fregion) (prs : list (region * bytes)) (offset : Z) : outcome (bytes * Z) :=
  match prs with
  | [] => Ok ([], offset)
  | (r, b) :: rest =>
    let next := base_off (region_fr sl r) in
    if next <? offset then Err E_OVERLAP else
    if offset <? next then Err E_GAP else
    do more <- flash_chain sl rest (end_off (region_fr sl r));
    Ok (b ++ fst more, snd more)
  end.

Definition save (pol : Z) (t : tree) : outcome bytes :=
  let ifd := assemble_ifd t in
  do prs <- asm_regions (t_regions t) pol;
  if negb (fr_valid (slot (t_slots t) ifd_type_bios)) then Err E_NOBIOS else
  let sorted := sort_by (fun p => fr_base (region_fr (t_slots t) (fst p))) (fst prs) in
  do body <- flash_chain (t_slots t) sorted ifd_desc_len;
  if negb (snd body =? t_size t) then Err E_GAPEND else
  Ok (ifd ++ fst body).

(* ---- the command lines ---- *)

(* utk IMAGE tighten_me^n save OUT *)
Fixpoint tm_n (n : nat) (pol : Z) (t : tree) : outcome tree :=
  match n with
  | O => Ok t
  | S k => do t' <- tm pol t; tm_n k pol t'
  end.

Definition run (n : nat) (img : bytes) : outcome bytes :=
  do p <- parse img;
  match fst p with
  | RootBios _ _ => (match n with O => Err E_UNMODELLED | _ => Err E_NOIFD end)
  | RootFlash t => do t' <- tm_n n (snd p) t; save (snd p) t'
  end.

(* ---- specification-side definitions used by the theorems ---- *)

Definition region_buf (r : region) : bytes :=
  match r with
  | RBios els _ => concat (map elem_buf els)
  | RME b _ _ => b
  | RRaw _ b => b
  | RGap _ b => b
  end.

Definition is_me (r : region) : bool := match r with RME _ _ _ => true | _ => false end.
Definition is_bios (r : region) : bool := match r with RBios _ _ => true | _ => false end.

Definition fr_ok (r : fregion) : bool :=
  (0 <=? fr_base r) && (fr_base r <? U16) && (0 <=? fr_limit r) && (fr_limit r <? U16).

(* a region whose buffer has the size its flash region says; only the ME region may be
   empty (Limit = Base - 1: what tighten_me leaves of an entirely erased ME region) *)
Definition region_ok (sl : list fregion) (r : region) : bool :=
  let fr := region_fr sl r in
  fr_ok fr &&
  ((fr_base fr <=? fr_limit fr) || (is_me r && (fr_base fr =? fr_limit fr + 1))) &&
  (zlen (region_buf r) =? end_off fr - base_off fr) &&
  match r with
  | RBios els len => len =? zlen (concat (map elem_buf els))
  | RME _ (Some es) fso => fso =? fso_of es
  | RME _ None fso => fso =? 0
  | RRaw i _ => (2 <=? i) && (i <? ifd_nslots)
  | RGap _ _ => true
  end.

(* regions follow each other without gap or overlap from [offset]; returns the end *)
Fixpoint chain (sl : list fregion) (rs : list region) (offset : Z) : option Z :=
  match rs with
  | [] => Some offset
  | r :: rest =>
    if base_off (region_fr sl r) =? offset then chain sl rest (end_off (region_fr sl r)) else None
  end.

Definition count {A} (p : A -> bool) (l : list A) : Z := zlen (filter p l).

(* what NewFlashImage guarantees about the tree it returns (proved: parse_flash_wf) *)
Definition wf_tree (t : tree) : Prop :=
  zlen (t_ifd t) = ifd_desc_len /\
  length (t_slots t) = Z.to_nat ifd_nslots /\
  forallb fr_ok (t_slots t) = true /\
  forallb (region_ok (t_slots t)) (t_regions t) = true /\
  chain (t_slots t) (t_regions t) ifd_desc_len = Some (t_size t) /\
  count is_me (t_regions t) <= 1 /\ count is_bios (t_regions t) <= 1.

(* the descriptor sections are where the Go structs were read from, and the region section
   does not overlap the master section (Assemble writes the master section last, from the
   values read at parse time: an overlapping master section would undo the change) *)
Definition wf_desc (t : tree) : Prop :=
  0 <= t_dms t /\ t_dms t + ifd_dmap_size <= ifd_desc_len /\
  0 <= t_rs t /\ t_rs t + ifd_region_section_size <= ifd_desc_len /\
  0 <= t_ms t /\ t_ms t + ifd_master_size <= ifd_desc_len /\
  t_dmap t = sub (t_dms t) ifd_dmap_size (t_ifd t) /\
  t_master t = sub (t_ms t) ifd_master_size (t_ifd t) /\
  (t_ms t + ifd_master_size <= t_rs t \/ t_rs t + ifd_region_section_size <= t_ms t).

(* the slots and FlashBlockEraseSize are what the region section of the buffer says *)
Definition desc_slots (t : tree) : Prop :=
  sub (t_rs t) ifd_region_section_size (t_ifd t) =
    sub (t_rs t) 2 (t_ifd t) ++ le_enc 2 (t_erase t) ++ enc_slots (t_slots t).

(* the blank first field of the region section is zero in the image *)
Definition blank_zero (t : tree) : Prop := sub (t_rs t) 2 (t_ifd t) = [0; 0].
