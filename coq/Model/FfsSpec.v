(* Model/FfsSpec.v — the reference image grammar of property C01, as a serialiser
   written independently of the model of fiano's assembler (Model/Ffs.v): what the bytes
   of a well-formed section, file and volume ARE.  No proofs here. *)
From Fiano Require Import Base.Bytes Model.Ffs.
Open Scope Z_scope.

(* common section header (4-byte form) followed by the body *)
Definition sec_bytes (t : Z) (body : bytes) : bytes := le_enc 3 (4 + zlen body) ++ [t] ++ body.

(* the same with the extended common header (size field 0xFFFFFF, 32-bit size): the form of
   sections of 16 MiB and more *)
Definition sec_bytes_large (t : Z) (body : bytes) : bytes :=
  le_enc 3 16777215 ++ [t] ++ le_enc 4 (8 + zlen body) ++ body.

(* section types that fiano neither interprets nor regenerates *)
Definition leaf_type (t : Z) : bool :=
  negb ((t =? 2) || (t =? 19) || (t =? 20) || (t =? 21) || (t =? 23) || (t =? 27) || (t =? 28)).

(* GUID-defined section body: GUID, data offset, attributes, extra header bytes, payload *)
Definition gd_body (g : bytes) (attrs : Z) (extra payload : bytes) : bytes :=
  g ++ le_enc 2 (24 + zlen extra) ++ le_enc 2 attrs ++ extra ++ payload.

(* dependency expressions *)
Definition depex_op_ok (o : Z * option bytes) : bool :=
  let '(op, g) := o in
  (0 <=? op) && (op <=? 9) && negb (op =? 8) &&
  (if op <=? 2 then match g with Some gb => (zlen gb =? 16) && bytes_ok gb | None => false end
   else match g with None => true | Some _ => false end).
Fixpoint depex_bytes (l : list (Z * option bytes)) : bytes :=
  match l with
  | [] => [8]                               (* END *)
  | (op, g) :: r => op :: (match g with Some gb => gb | None => [] end) ++ depex_bytes r
  end.

(* sections of a file: each preceded by zero padding to a 4-byte boundary *)
Definition sections_bytes (secs : list bytes) : bytes := join4 [] secs.

(* a file: 24-byte header whose two checksums are what the PI specification prescribes *)
Definition file_bytes (g : bytes) (t attr state : Z) (body : bytes) : bytes :=
  let size := 24 + zlen body in
  let ckh := (0 - (sum_list g + t + attr + sum_list (le_enc 3 size))) mod 256 in
  let ckf := if attr_checksum attr then (0 - sum_list body) mod 256 else 170 in
  g ++ [ckh; ckf; t; attr] ++ le_enc 3 size ++ [state] ++ body.

(* a file with arbitrary checksum bytes (types whose content fiano treats as opaque) *)
Definition raw_file_bytes (g : bytes) (ckh ckf t attr state : Z) (body : bytes) : bytes :=
  g ++ [ckh; ckf; t; attr] ++ le_enc 3 (24 + zlen body) ++ [state] ++ body.

(* the same in the FFSv3 large-file form: size field 0xFFFFFF, 64-bit size after the 24-byte header
   (32-byte header in all); this is the form of files of 16 MiB and more *)
Definition raw_file_bytes_large (g : bytes) (ckh ckf t attr state : Z) (body : bytes) : bytes :=
  g ++ [ckh; ckf; t; attr] ++ le_enc 3 16777215 ++ [state] ++ le_enc 8 (32 + zlen body) ++ body.

(* a file rebuilt from its sections whose size reaches 16 MiB: the large form with both checksums
   as the PI specification prescribes (the header checksum covers the 32-byte header) *)
Definition file_bytes_large (g : bytes) (t attr state : Z) (body : bytes) : bytes :=
  let size := 32 + zlen body in
  let ckh := (0 - (sum_list g + t + attr + sum_list (le_enc 3 16777215) + sum_list (le_enc 8 size))) mod 256 in
  let ckf := if attr_checksum attr then (0 - sum_list body) mod 256 else 170 in
  raw_file_bytes_large g ckh ckf t attr state body.

(* ---------- volumes ---------- *)

(* files in a volume: each followed by erased bytes (0xFF) up to the next 8-byte boundary *)
Fixpoint flay (files : list bytes) : bytes :=
  match files with
  | [] => []
  | f :: r => f ++ zrepeat 255 (align8 (zlen f) - zlen f) ++ flay r
  end.

(* further block-map entries after the first one *)
Fixpoint blocks_bytes (l : list (Z * Z)) : bytes :=
  match l with
  | [] => []
  | (c, s) :: r => le_enc 4 c ++ le_enc 4 s ++ blocks_bytes r
  end.

(* header length: 56 fixed bytes, the block map (first entry, [more] entries), the (0,0) terminator *)
Definition fv_hlen (more : list (Z * Z)) : Z := 72 + 8 * Z.of_nat (length more).

(* the header of a volume; [eo] is the extended-header offset field (0 = none) *)
Definition fv_header (zero g : bytes) (len attrs cksum eo reserved rev count bsize : Z)
           (more : list (Z * Z)) : bytes :=
  zero ++ g ++ le_enc 8 len ++ [95; 70; 86; 72] ++ le_enc 4 attrs ++ le_enc 2 (fv_hlen more) ++
  le_enc 2 cksum ++ le_enc 2 eo ++ [reserved; rev] ++ le_enc 4 count ++ le_enc 4 bsize ++
  blocks_bytes more ++ zrepeat 0 8.

(* the 16-bit checksum that makes the header words sum to zero *)
Definition fv_cksum (zero g : bytes) (len attrs eo reserved rev count bsize : Z) (more : list (Z * Z)) : Z :=
  (0 - sum16 (fv_header zero g len attrs 0 eo reserved rev count bsize more)) mod 65536.

(* an extended header placed right after the header: volume name GUID, its own size, any
   further header data, and the [gap] bytes up to the next 8-byte boundary where the files start *)
Definition ext_bytes (name edata gap : bytes) : bytes :=
  name ++ le_enc 4 (20 + zlen edata) ++ edata ++ gap.

(* [ext] is either empty with eo = 0, or an extended header directly after the header *)
Definition vol_bytes_x (zero g : bytes) (attrs reserved rev count bsize : Z) (more : list (Z * Z))
           (eo : Z) (ext : bytes) (files : list bytes) (free : Z) : bytes :=
  let len := fv_hlen more + zlen ext + zlen (flay files) + free in
  fv_header zero g len attrs (fv_cksum zero g len attrs eo reserved rev count bsize more) eo reserved rev
            count bsize more
  ++ ext ++ flay files ++ zrepeat 255 free.

Definition vol_bytes (zero g : bytes) (attrs reserved rev count bsize : Z) (files : list bytes) (free : Z)
  : bytes := vol_bytes_x zero g attrs reserved rev count bsize [] 0 [] files free.

(* a file at volume offset [off] meets the data alignment its attribute bits ask for *)
Definition file_aligned (off : Z) (fb : bytes) : bool :=
  let attr := rd 19 1 fb in
  (attr_align attr =? 1) || ((off + file_hlen attr) mod (attr_align attr) =? 0).

Fixpoint files_aligned (off : Z) (files : list bytes) : bool :=
  match files with
  | [] => true
  | f :: r => file_aligned off f && files_aligned (off + align8 (zlen f)) r
  end.

(* ---------- BIOS regions ---------- *)

(* a region: (padding, volume) pairs followed by trailing padding; any padding may be empty *)
Fixpoint region_bytes (l : list (bytes * bytes)) (trail : bytes) : bytes :=
  match l with
  | [] => trail
  | (p, v) :: r => p ++ v ++ region_bytes r trail
  end.

(* the signature scan of a BIOS region looks at 4-byte windows at offsets 32, 40, 48, ...;
   [scan_clear k b o]: none of the k windows of b starting at o holds "_FVH" *)
Definition FVH : bytes := [95; 70; 86; 72].
Fixpoint scan_clear (k : nat) (b : bytes) (o : Z) : bool :=
  match k with
  | O => true
  | S k' => negb (bytes_eqb (sub o 4 b) FVH) && scan_clear k' b (o + 8)
  end.
