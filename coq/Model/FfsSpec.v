(* Model/FfsSpec.v — the reference image grammar of property C01, as a serialiser
   written independently of the model of fiano's assembler (Model/Ffs.v): what the bytes
   of a well-formed section, file and volume ARE.  No proofs here. *)
From Fiano Require Import Base.Bytes Model.Ffs.
Open Scope Z_scope.

(* common section header (4-byte form) followed by the body *)
Definition sec_bytes (t : Z) (body : bytes) : bytes := le_enc 3 (4 + zlen body) ++ [t] ++ body.

(* section types that fiano neither interprets nor regenerates *)
Definition leaf_type (t : Z) : bool :=
  negb ((t =? 2) || (t =? 19) || (t =? 20) || (t =? 21) || (t =? 23) || (t =? 27) || (t =? 28)).

(* GUID-defined section body: GUID, data offset, attributes, extra header bytes, payload *)
Definition gd_body (g : bytes) (attrs : Z) (extra payload : bytes) : bytes :=
  g ++ le_enc 2 (24 + zlen extra) ++ le_enc 2 attrs ++ extra ++ payload.

(* dependency expressions *)
Definition depex_op_ok (o : Z * option bytes) : bool :=
  let '(op, g) := o in
  (0 <=? op) && (op <=? 9) && negb (op =? 8) &&
  (if op <=? 2 then match g with Some gb => (zlen gb =? 16) && bytes_ok gb | None => false end
   else match g with None => true | Some _ => false end).
Fixpoint depex_bytes (l : list (Z * option bytes)) : bytes :=
  match l with
  | [] => [8]                               (* END *)
  | (op, g) :: r => op :: (match g with Some gb => gb | None => [] end) ++ depex_bytes r
  end.

(* sections of a file: each preceded by zero padding to a 4-byte boundary *)
Definition sections_bytes (secs : list bytes) : bytes := join4 [] secs.

(* a file: 24-byte header whose two checksums are what the PI specification prescribes *)
Definition file_bytes (g : bytes) (t attr state : Z) (body : bytes) : bytes :=
  let size := 24 + zlen body in
  let ckh := (0 - (sum_list g + t + attr + sum_list (le_enc 3 size))) mod 256 in
  let ckf := if attr_checksum attr then (0 - sum_list body) mod 256 else 170 in
  g ++ [ckh; ckf; t; attr] ++ le_enc 3 size ++ [state] ++ body.

(* a file with arbitrary checksum bytes (types whose content fiano treats as opaque) *)
Definition raw_file_bytes (g : bytes) (ckh ckf t attr state : Z) (body : bytes) : bytes :=
  g ++ [ckh; ckf; t; attr] ++ le_enc 3 (24 + zlen body) ++ [state] ++ body.
