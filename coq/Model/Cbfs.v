(* Model/Cbfs.v — executable model of pkg/cbfs (property C19).
   Transcribes (with fixes/C19-*.diff applied):
     image.go   NewImage (flash-map lookup of the first area whose name, with trailing
                NULs trimmed, is "COREBOOT"; io.SectionReader over it; the record walk:
                magic probe every 16 bytes, next record at the 16-aligned end of data;
                io.EOF from NewFile ends the walk, any other error aborts), WriteFile
     file.go    NewFile, ReadName, ReadAttributes, ReadData (each through readN: exactly
                n bytes or an error), FindAttribute, Compression, Decompress
     fns.go     Read (binary.Read big endian: io.EOF on 0 bytes, ErrUnexpectedEOF on 1..23)
     empty.go   NewEmptyRecord (type forced to 0xffffffff, Attr := 16 zero bytes,
                FData := Size bytes 0xff)
     stage.go   LegacyStageRecord.Read as far as it decides success (the 28-byte stage
                header must be there); StageRecord
     payload.go PayloadRecord.Read (28-byte big-endian segment headers up to the ENTRY
                segment; FData is replaced by what follows them when that is non-empty)
     master.go, raw.go, bootblock.go, bootsplash.go, cmos.go, cmoslayout.go, fsp.go,
     microcode.go, optionrom.go, spd.go, unknown.go: constructors that keep the File
                as read (Read is a no-op for listing/data purposes)
   The section reader is modelled by the bytes it can deliver:
     sec = the first Area.Size bytes of the image from Area.Offset on (shorter when the
     area runs past the end of the image); lim = Area.Size bounds the walk.
   uint32 wrap is written where Go wraps: name size, attribute size, data seek offset.
   uint32(off) for RecordStart never wraps because off < Area.Size < 2^32.
   Not modelled: Image.Update / Image.Remove (the modification path; the cbfs command
   never calls them), String/MarshalJSON formatting, the MasterHeader / StageHeader /
   PayloadHeader field values, the LZMA and LZ4 decoders (Section variables),
   cleanString (debug output only), the os file layer of Open/WriteFile. *)
From Fiano Require Import Base.Bytes Gen.Consts Model.Fmap.
Open Scope Z_scope.

Definition be_rd (off : Z) (w : nat) (b : bytes) : Z := be_dec (sub off (Z.of_nat w) b).

(* cbfs.File: FileHeader (Magic is constant), RecordStart, Name, Attr, FData *)
Record file := mkFile {
  fh_size : Z;       (* uint32 @8  *)
  fh_type : Z;       (* uint32 @12 *)
  fh_attroff : Z;    (* uint32 @16 *)
  fh_suboff : Z;     (* uint32 @20 *)
  f_start : Z;       (* RecordStart, relative to the area *)
  f_name : bytes;
  f_attr : bytes;
  f_data : bytes
}.

(* a ReadWriter: the File it embeds; for payloads the segment table bytes that
   PayloadRecord.Read moved out of FData into Segs *)
Record seg := mkSeg { s_file : file; s_table : bytes }.

Record image := mkImage {
  im_segs : list seg;
  im_map : fmap;
  im_start : Z;
  im_area : area;
  im_data : bytes
}.

(* error classes (1..3 are Fmap.read's) *)
Definition E_NOCBFS : Z := 10.
Definition E_UEOF : Z := 11.    (* header: 1..23 bytes left *)
Definition E_NAME : Z := 12.
Definition E_ATTR : Z := 13.
Definition E_SUB : Z := 14.     (* the per-type Read failed *)
Definition E_DATA : Z := 15.
Definition E_CODEC : Z := 20.
Definition E_UNKCOMP : Z := 21.

(* string(bytes.Split(b, {0})[0]) *)
Fixpoint until_nul (b : bytes) : bytes :=
  match b with
  | [] => []
  | x :: r => if x =? 0 then [] else x :: until_nul r
  end.

(* readN: io.ReadAll(io.LimitReader(r, n)) at position pos, then len = n required.
   n = 0 never touches the reader. *)
Definition read_n (sec : bytes) (pos n : Z) : option bytes :=
  if n =? 0 then Some []
  else if pos + n <=? zlen sec then Some (sub pos n sec) else None.

Inductive nf_result :=
| NF_ok (f : file) (endpos : Z)
| NF_eof
| NF_nomagic
| NF_err (e : Z).

(* NewFile with the reader positioned at pos; endpos = reader position afterwards *)
Definition new_file (sec : bytes) (pos : Z) : nf_result :=
  let H := cbfs_file_header_size in
  if zlen sec - pos <=? 0 then NF_eof
  else if zlen sec - pos <? H then NF_err E_UEOF
  else if negb (bytes_eqb (sub pos 8 sec) cbfs_file_magic) then NF_nomagic
  else
    let size := be_rd (pos + 8) 4 sec in
    let typ := be_rd (pos + 12) 4 sec in
    let ao := be_rd (pos + 16) 4 sec in
    let so := be_rd (pos + 20) 4 sec in
    let nsz := ((if ao =? 0 then so else ao) - H) mod 2 ^ 32 in
    match read_n sec (pos + H) nsz with
    | None => NF_err E_NAME
    | Some nb =>
      let p2 := pos + H + nsz in
      let asz := (so - ao) mod 2 ^ 32 in
      match (if ao =? 0 then Some [] else read_n sec p2 asz) with
      | None => NF_err E_ATTR
      | Some ab =>
        let dpos := (pos + so) mod 2 ^ 32 in
        match read_n sec dpos size with
        | None => NF_err E_DATA
        | Some d => NF_ok (mkFile size typ ao so pos (until_nul nb) ab d) (dpos + size)
        end
      end
    end.

(* PayloadRecord.Read: offset just after the ENTRY segment header *)
Fixpoint payload_scan (fuel : nat) (d : bytes) (off : Z) : outcome Z :=
  match fuel with
  | O => Fuel
  | S k =>
    if zlen d - off <? cbfs_payload_header_size then Err E_SUB
    else if be_rd off 4 d =? cbfs_seg_entry then Ok (off + cbfs_payload_header_size)
    else payload_scan k d (off + cbfs_payload_header_size)
  end.

Definition is_empty_type (t : Z) : bool := (t =? cbfs_type_deleted) || (t =? cbfs_type_deleted2).

Definition set_data (f : file) (d : bytes) : file :=
  mkFile (fh_size f) (fh_type f) (fh_attroff f) (fh_suboff f) (f_start f) (f_name f) (f_attr f) d.

(* SegReaders[f.Type].New(f) followed by s.Read(bytes.NewReader(f.FData)).
   Types in cbfs_registered_types other than the four singled out here, and every
   unregistered type (NewUnknownRecord), keep the File unchanged. *)
Definition make_seg (f : file) : outcome seg :=
  let t := fh_type f in
  if is_empty_type t then
    Ok (mkSeg (mkFile (fh_size f) cbfs_type_deleted2 (fh_attroff f) (fh_suboff f) (f_start f)
                      (f_name f) (zrepeat 0 16) (zrepeat 255 (fh_size f))) [])
  else if t =? cbfs_type_legacy_stage then
    if zlen (f_data f) <? cbfs_stage_header_size then Err E_SUB else Ok (mkSeg f [])
  else if t =? cbfs_type_self then
    do off <- payload_scan (S (length (f_data f))) (f_data f) 0;
    if 0 <? fh_size f - off
    then Ok (mkSeg (set_data f (zskipn off (f_data f))) (zfirstn off (f_data f)))
    else Ok (mkSeg f (zfirstn off (f_data f)))
  else Ok (mkSeg f []).

Definition align16 (x : Z) : Z := (x + 15) / 16 * 16.

(* the loop of NewImage over the section *)
Fixpoint walk (fuel : nat) (sec : bytes) (lim off : Z) : outcome (list seg) :=
  if lim <=? off then Ok [] else
  match fuel with
  | O => Fuel
  | S k =>
    match new_file sec off with
    | NF_nomagic => walk k sec lim (off + 16)
    | NF_eof => Ok []
    | NF_err e => Err e
    | NF_ok f e =>
      do s <- make_seg f;
      do rest <- walk k sec lim (align16 e);
      Ok (s :: rest)
    end
  end.

Fixpoint drop_nul (l : bytes) : bytes :=
  match l with
  | [] => []
  | x :: r => if x =? 0 then drop_nul r else l
  end.

(* strings.TrimRight(string(Value[:]), "\x00") *)
Definition trim_nul (l : bytes) : bytes := rev (drop_nul (rev l)).

(* the literal "COREBOOT" of image.go *)
Definition coreboot_name : bytes := [67; 79; 82; 69; 66; 79; 79; 84].

Fixpoint find_area (l : list area) : option area :=
  match l with
  | [] => None
  | a :: r => if bytes_eqb (trim_nul (a_name a)) coreboot_name then Some a else find_area r
  end.

Definition area_section (img : bytes) (a : area) : bytes :=
  zfirstn (a_size a) (zskipn (a_off a) img).

Definition new_image (img : bytes) : outcome image :=
  do ms <- read img;
  let (m, start) := ms in
  match find_area (f_areas m) with
  | None => Err E_NOCBFS
  | Some a =>
    let sec := area_section img a in
    do segs <- walk (S (length sec)) sec (a_size a) 0;
    Ok (mkImage segs m start a img)
  end.

(* Image.WriteFile(name): os.WriteFile(name, i.Data) creates or TRUNCATES the
   destination and writes i.Data.  [old] is what the path held before (None = the
   path did not exist); the result is the content of the file afterwards.  The old
   content plays no role: no byte of it survives, whatever its length. *)
Definition write_file (old : option bytes) (im : image) : bytes := im_data im.

(* FindAttribute: the whole attribute (tag, size, payload) with the given tag *)
Fixpoint find_attr (fuel : nat) (attr : bytes) (pos tag : Z) : option bytes :=
  match fuel with
  | O => None
  | S k =>
    if zlen attr - pos <? cbfs_attr_header_size then None else
    let t := be_rd pos 4 attr in
    let s := be_rd (pos + 4) 4 attr in
    if (t =? cbfs_tag_unused) || (t =? cbfs_tag_unused2) then None
    else if (s <? cbfs_attr_header_size) || (s =? 4294967295) then None
    else if zlen attr - (pos + cbfs_attr_header_size) <? s - cbfs_attr_header_size then None
    else if t =? tag then Some (sub pos s attr)
    else find_attr k attr (pos + s) tag
  end.

(* File.Compression: 0 (None) on any failure *)
Definition compression (f : file) : Z :=
  match find_attr (S (length (f_attr f))) (f_attr f) 0 cbfs_tag_compressed with
  | None => cbfs_comp_none
  | Some c => if zlen c <? cbfs_attr_compression_size then cbfs_comp_none else be_rd 8 4 c
  end.

(* one line of the listing *)
Record entry := mkEntry { e_name : bytes; e_type : Z; e_off : Z; e_size : Z; e_comp : Z }.

Definition entry_of (s : seg) : entry :=
  let f := s_file s in mkEntry (f_name f) (fh_type f) (f_start f) (fh_size f) (compression f).

Definition listing (im : image) : list entry := map entry_of (im_segs im).

Definition file_data (im : image) (i : Z) : option (bytes * bytes) :=
  if i <? 0 then None else
  match nth_error (im_segs im) (Z.to_nat i) with
  | Some s => Some (f_attr (s_file s), f_data (s_file s))
  | None => None
  end.

Section Codec.
  (* the decoders of pkg/compression; never executed in the model *)
  Variables lzma_dec lz4_dec : bytes -> option bytes.

  Definition decompress (f : file) : outcome bytes :=
    let c := compression f in
    if c =? cbfs_comp_none then Ok (f_data f)
    else if c =? cbfs_comp_lzma then
      match lzma_dec (f_data f) with Some d => Ok d | None => Err E_CODEC end
    else if c =? cbfs_comp_lz4 then
      match lz4_dec (f_data f) with Some d => Ok d | None => Err E_CODEC end
    else Err E_UNKCOMP.
End Codec.

(* ---- specification side: an abstract archive and its reference serialiser ---- *)

Record arec := mkRec {
  r_gap : list bytes;            (* 16-byte filler slots in front of the record *)
  r_name : bytes;
  r_npad : Z;                    (* NUL bytes after the name *)
  r_type : Z;
  r_attrs : list (Z * bytes);    (* (tag, payload) *)
  r_data : bytes;
  r_pad : bytes                  (* alignment filler after the data *)
}.

Definition enc_attr (a : Z * bytes) : bytes :=
  be_enc 4 (fst a) ++ be_enc 4 (cbfs_attr_header_size + zlen (snd a)) ++ snd a.
Definition enc_attrs (l : list (Z * bytes)) : bytes := concat (map enc_attr l).

Definition name_field (r : arec) : bytes := r_name r ++ zrepeat 0 (r_npad r).
Definition rec_ao (r : arec) : Z :=
  match r_attrs r with [] => 0 | _ => cbfs_file_header_size + zlen (name_field r) end.
Definition rec_so (r : arec) : Z :=
  cbfs_file_header_size + zlen (name_field r) + zlen (enc_attrs (r_attrs r)).

Definition enc_rec (r : arec) : bytes :=
  cbfs_file_magic ++ be_enc 4 (zlen (r_data r)) ++ be_enc 4 (r_type r) ++
  be_enc 4 (rec_ao r) ++ be_enc 4 (rec_so r) ++
  name_field r ++ enc_attrs (r_attrs r) ++ r_data r ++ r_pad r.

Definition enc_item (r : arec) : bytes := concat (r_gap r) ++ enc_rec r.
Definition embed (a : list arec) : bytes := concat (map enc_item a).

(* what the listing must show.  Type 0 ("deleted") and 0xffffffff ("null") both mean
   empty space; NewEmptyRecord reports either as 0xffffffff with no compression. *)
Definition listed_type (t : Z) : Z := if is_empty_type t then cbfs_type_deleted2 else t.

Definition spec_comp (r : arec) : Z :=
  if is_empty_type (r_type r) then cbfs_comp_none else
  match find (fun a => fst a =? cbfs_tag_compressed) (r_attrs r) with
  | Some a => if zlen (snd a) <? 8 then cbfs_comp_none else be_dec (zfirstn 4 (snd a))
  | None => cbfs_comp_none
  end.

Fixpoint records_from (off : Z) (a : list arec) : list entry :=
  match a with
  | [] => []
  | r :: t =>
    let o := off + zlen (concat (r_gap r)) in
    mkEntry (r_name r) (listed_type (r_type r)) o (zlen (r_data r)) (spec_comp r)
      :: records_from (o + zlen (enc_rec r)) t
  end.
Definition records (a : list arec) : list entry := records_from 0 a.

(* Well-formedness.  Each clause is there because NewImage legitimately behaves
   differently without it:
   - slot_ok: a filler slot is 16 bytes and does not start with LARCHIVE (else the
     walk takes it for a record header);
   - name without NUL (the name is cut at the first NUL), npad >= 0;
   - type, sizes and offsets fit their uint32 header fields;
   - attr_ok: tags 0 and 0xffffffff end the attribute list, the size field is 32 bits
     and 0xffffffff is rejected as malformed;
   - type_ok: a legacy stage needs its 28-byte stage header, a SELF
     payload needs a segment table ending with an ENTRY segment (else the per-type
     Read fails and NewImage returns an error for the whole image);
   - padding: every record but the last is padded to the next multiple of 16, where
     the walk resumes; after the last one at most that padding may follow, because a
     further 16-byte slot holds fewer than 24 bytes and the header read fails with
     ErrUnexpectedEOF (DESIGN 5.0: records tile the area to its end);
   - the whole archive is shorter than 2^32 (Area.Size is a uint32). *)
Definition slot_ok (s : bytes) : bool :=
  bytes_ok s && (zlen s =? 16) && negb (prefixb cbfs_file_magic s).

Definition attr_ok (a : Z * bytes) : bool :=
  (0 <? fst a) && (fst a <? 4294967295) && bytes_ok (snd a) &&
  (cbfs_attr_header_size + zlen (snd a) <? 4294967295).

Definition type_ok (r : arec) : bool :=
  if r_type r =? cbfs_type_legacy_stage then cbfs_stage_header_size <=? zlen (r_data r)
  else if r_type r =? cbfs_type_self then
    is_ok (payload_scan (S (length (r_data r))) (r_data r) 0)
  else true.

Definition body_len (r : arec) : Z := rec_so r + zlen (r_data r).

Definition wf_rec (last : bool) (r : arec) : bool :=
  forallb slot_ok (r_gap r) &&
  bytes_ok (r_name r) && forallb (fun x => negb (x =? 0)) (r_name r) && (0 <=? r_npad r) &&
  (0 <=? r_type r) && (r_type r <? 2 ^ 32) &&
  forallb attr_ok (r_attrs r) &&
  bytes_ok (r_data r) && bytes_ok (r_pad r) &&
  (rec_so r <? 2 ^ 32) && (zlen (r_data r) <? 2 ^ 32) &&
  (zlen (r_pad r) <? 16) &&
  (if last then body_len r + zlen (r_pad r) <=? align16 (body_len r)
   else (body_len r + zlen (r_pad r)) mod 16 =? 0) &&
  type_ok r.

Fixpoint wf_list (a : list arec) : bool :=
  match a with
  | [] => true
  | r :: t => match t with [] => wf_rec true r | _ => wf_rec false r && wf_list t end
  end.

Definition wf_archive (a : list arec) : bool := wf_list a && (zlen (embed a) <? 2 ^ 32).

(* the File NewFile builds for record r found at offset o, and the segment made of it *)
Definition file_of (o : Z) (r : arec) : file :=
  mkFile (zlen (r_data r)) (r_type r) (rec_ao r) (rec_so r) o (r_name r)
         (enc_attrs (r_attrs r)) (r_data r).
