(* Model/Fit.v — executable model of pkg/intel/metadata/fit (property C14).
   Transcribes:
     calc_offset.go   CalculatePhysAddrFromOffset, CalculateOffsetFromPhysAddr,
                      CalculateTailOffsetFromPhysAddr (uint64 wrap written out)
     entry_headers.go EntryHeaders binary layout (binary.Write/binary.Read of the struct),
                      Uint24.Uint32/SetUint32, TypeAndIsChecksumValid.Type/IsChecksumValid/
                      SetType/SetIsChecksumValid, CalculateChecksum,
                      getDataSegmentOffset, mostCommonGetDataSegmentSize
     check/bounds.go  BytesRange (on Go ints, i.e. after the int(uint64) conversions)
     table.go         ParseEntryHeadersFrom, ParseTable, GetPointerCoordinates,
                      GetHeadersTableRangeFrom, GetTableFrom, Table.GetEntriesFrom, Table.WriteTo,
                      Table.WriteToFirmwareImage
     get_entries.go   GetEntriesFrom
     entry.go         NewEntry, entryInitDataSegmentBytes, EntryDataSegmentCoordinates,
                      EntryDataSegmentSize and every CustomGetDataSegmentSize, sliceOrCopyBytesFrom,
                      Entries.InjectTo, Entries.Table, Entries.RecalculateHeaders,
                      EntryRecalculateHeaders, mostCommonRecalculateHeadersOfEntry and every
                      CustomRecalculateHeaders
     entry_base.go    injectDataSectionTo
     ent_startup_ac_module_entry.go  only EntrySACMParseSizeFrom (the 4-byte size field at +24)
   The io.ReadWriteSeeker is github.com/xaionaro-go/bytesextra.ReadWriteSeeker over
   the image (Seek refuses positions outside [0,len]; Write at len is io.EOF, a write
   that does not fit is performed partially and reported as io.ErrShortWrite).

   Modelled as FIXED by fixes/C14-recalc-unknown-entry.diff and
   fixes/C14-recalc-sacm-type.diff (see [most_common] and [recalc_entry]).

   Not modelled: encoding/json of the headers, String/GoString, Table.First,
   the parsing of ACM / key manifest / boot policy manifest
   *contents* (ParseData and below), the non-ReadWriteSeeker branch of
   sliceOrCopyBytesFrom (copyBytesFrom), the cmds/fittool CLI. *)
From Fiano Require Import Base.Bytes Gen.Consts.
Open Scope Z_scope.

(* ---- machine integers ---- *)
Definition w64 (x : Z) : Z := x mod 2 ^ 64.                 (* uint64 arithmetic *)
Definition w32 (x : Z) : Z := x mod 2 ^ 32.                 (* uint32 arithmetic *)
(* int64(x) / int(x) of a uint64 x, two's complement *)
Definition s64 (x : Z) : Z := if x <? 2 ^ 63 then x else x - 2 ^ 64.
(* int64 addition (wraps) *)
Definition add_s64 (a b : Z) : Z := s64 (w64 (a + b)).

(* ---- calc_offset.go ---- *)
Definition phys_of_offset (off size : Z) : Z :=
  let startAddr := w64 (fit_base_phys_addr - size) in w64 (startAddr + off).
Definition offset_of_phys (addr size : Z) : Z :=
  let startAddr := w64 (fit_base_phys_addr - size) in w64 (addr - startAddr).
Definition tail_offset_of_phys (addr : Z) : Z := w64 (fit_base_phys_addr - addr).

(* ---- EntryHeaders ---- *)
Record hdr := mkHdr {
  h_addr : Z;        (* Address64  @0  *)
  h_size : bytes;    (* Uint24{Value [3]byte} @8 *)
  h_rsvd : Z;        (* uint8      @11 *)
  h_ver : Z;         (* EntryVersion uint16 @12 *)
  h_tc : Z;          (* TypeAndIsChecksumValid uint8 @14 *)
  h_cksum : Z        (* uint8      @15 *)
}.

Definition hdr_len : Z := fit_entry_headers_size.

Definition enc_hdr (h : hdr) : bytes :=
  le_enc 8 (h_addr h) ++ h_size h ++ le_enc 1 (h_rsvd h) ++ le_enc 2 (h_ver h) ++
  le_enc 1 (h_tc h) ++ le_enc 1 (h_cksum h).

(* binary.Read into an EntryHeaders: all 16 bytes or an error *)
Definition dec_hdr (b : bytes) : option hdr :=
  if zlen b <? hdr_len then None else
  Some (mkHdr (rd 0 8 b) (sub 8 3 b) (rd 11 1 b) (rd 12 2 b) (rd 14 1 b) (rd 15 1 b)).

(* Uint24 *)
Definition u24_get (v : bytes) : Z := le_dec (zfirstn 3 v ++ [0]).
Definition u24_set (v : Z) : outcome bytes :=
  if 2 ^ 24 <=? v then Panic 1 else Ok (zfirstn 3 (le_enc 4 v)).

Definition hsz (h : hdr) : Z := u24_get (h_size h).

(* TypeAndIsChecksumValid *)
Definition tc_type (tc : Z) : Z := Z.land tc 127.
Definition tc_cv (tc : Z) : bool := negb (Z.land tc 128 =? 0).
Definition tc_set_type (tc t : Z) : outcome Z :=
  if Z.land t 127 =? t then Ok (Z.lor t (Z.land tc 128)) else Panic 2.
Definition tc_set_cv (tc : Z) (v : bool) : Z :=
  Z.lor (if v then 128 else 0) (Z.land tc 127).

Definition htype (h : hdr) : Z := tc_type (h_tc h).

Definition set_size (h : hdr) (s : bytes) : hdr :=
  mkHdr (h_addr h) s (h_rsvd h) (h_ver h) (h_tc h) (h_cksum h).
Definition set_tc (h : hdr) (tc : Z) : hdr :=
  mkHdr (h_addr h) (h_size h) (h_rsvd h) (h_ver h) tc (h_cksum h).
Definition set_addr (h : hdr) (a : Z) : hdr :=
  mkHdr a (h_size h) (h_rsvd h) (h_ver h) (h_tc h) (h_cksum h).
Definition set_cksum (h : hdr) (c : Z) : hdr :=
  mkHdr (h_addr h) (h_size h) (h_rsvd h) (h_ver h) (h_tc h) c.
Definition set_ver (h : hdr) (v : Z) : hdr :=
  mkHdr (h_addr h) (h_size h) (h_rsvd h) v (h_tc h) (h_cksum h).

(* CalculateChecksum: byte sum of the encoded headers with Checksum = 0 *)
Definition calc_checksum (h : hdr) : Z := sum_list (enc_hdr (set_cksum h 0)) mod 256.

(* ---- entries ---- *)
(* e_kind is the Go type of the entry: the registered type id, or K_UNKNOWN for
   *EntryUnknown.  e_err is the class of HeadersErrors (0 = none). *)
Record entry := mkEntry { e_kind : Z; e_hdr : hdr; e_data : bytes; e_err : Z }.

Definition K_UNKNOWN : Z := 128.
Definition registered (t : Z) : bool := existsb (Z.eqb t) fit_all_entry_types.
(* EntryType.newEntry, falling back to EntryUnknown *)
Definition kind_of_type (t : Z) : Z := if registered t then t else K_UNKNOWN.

(* error classes *)
Definition E_SIZE : Z := 1.        (* entry: data segment size unavailable *)
Definition E_RANGE : Z := 2.       (* entry: data segment outside the image *)
Definition E_PTR_RANGE : Z := 1.   (* table: image too small for the FIT pointer *)
Definition E_FIRST_RANGE : Z := 2. (* table: first entry outside the image *)
Definition E_FIRST_READ : Z := 3.
Definition E_MAGIC : Z := 4.
Definition E_TABLE_RANGE : Z := 5.
Definition E_PARSE : Z := 6.
Definition E_PTR_SEEK : Z := 1.    (* inject *)
Definition E_PTR_WRITE : Z := 2.
Definition E_HDR_SEEK : Z := 3.
Definition E_HDR_WRITE : Z := 4.
Definition E_DATA_SEEK : Z := 5.
Definition E_DATA_WRITE : Z := 6.
Definition E_UNSUPPORTED : Z := 1. (* recalc *)
Definition E_NOT_FIT_HEADER : Z := 2.

(* check.BytesRange(length, startIdx, endIdx) on Go ints: true = no error *)
Definition bytes_range (len s e : Z) : bool :=
  negb ((s <? 0) || (e <? s) || ((0 <=? e) && (len <? e))).

(* sliceOrCopyBytesFrom for *bytesextra.ReadWriteSeeker; s, e are uint64 *)
Definition slice_or_copy (img : bytes) (s e : Z) : outcome bytes :=
  if bytes_range (zlen img) (s64 s) (s64 e) then of_opt 3 (slice s e img) else Err E_RANGE.

(* ReadWriteSeeker.Seek to an absolute position *)
Definition rws_seek (st : bytes) (newpos : Z) : option Z :=
  if (newpos <? 0) || (zlen st <? newpos) then None else Some newpos.

(* ReadWriteSeeker.Write: new storage, new position, no-error flag *)
Definition rws_write (st : bytes) (pos : Z) (d : bytes) : bytes * Z * bool :=
  if zlen st <=? pos then (st, pos, false)
  else let n := Z.min (zlen st - pos) (zlen d) in
       (splice pos (zfirstn n d) st, pos + n, zlen d <=? n).

(* EntrySACMParseSizeFrom(firmware, offset) *)
Definition sacm_size (img : bytes) (off : Z) : outcome Z :=
  let p := add_s64 (s64 off) fit_sacm_size_offset in
  match rws_seek img p with
  | None => Err E_SIZE
  | Some p => if zlen img <? p + 4 then Err E_SIZE      (* io.EOF / io.ErrUnexpectedEOF *)
              else Ok (w32 (rd p 4 img * 4))             (* result << 2 on uint32 *)
  end.

(* EntryDataSegmentSize, by Go type *)
Definition data_size (k : Z) (h : hdr) (img : bytes) : outcome Z :=
  if (k =? fit_type_fit_header) || (k =? fit_type_txt_policy) then Ok 0
  else if (k =? fit_type_diagnostic_acm) || (k =? fit_type_tpm_policy) then Err E_SIZE
  else if (k =? fit_type_bios_policy) || (k =? fit_type_key_manifest) || (k =? fit_type_boot_policy)
       then Ok (hsz h)
  else if k =? fit_type_sacm then sacm_size img (offset_of_phys (h_addr h) (zlen img))
  else Ok (hsz h * 16).                                  (* uint64(Size.Uint32()) << 4 *)

(* NewEntry *)
Definition new_entry (h : hdr) (img : bytes) : outcome entry :=
  let k := kind_of_type (htype h) in
  let off := offset_of_phys (h_addr h) (zlen img) in
  match data_size k h img with
  | Ok sz =>
    if sz =? 0 then Ok (mkEntry k h [] 0) else
    match slice_or_copy img off (w64 (off + sz)) with
    | Ok d => Ok (mkEntry k h d 0)
    | Err c => Ok (mkEntry k h [] c)
    | Panic s => Panic s
    | Fuel => Fuel
    end
  | Err c => Ok (mkEntry k h [] c)
  | Panic s => Panic s
  | Fuel => Fuel
  end.

(* ---- table.go ---- *)

(* ParseTable: loop while bytes remain *)
Fixpoint parse_table_f (fuel : nat) (b : bytes) : outcome (list hdr) :=
  match fuel with
  | O => Fuel
  | S k =>
    if zlen b =? 0 then Ok [] else                       (* r.Len() > 0 *)
    match dec_hdr b with
    | None => Err E_PARSE
    | Some h => do r <- parse_table_f k (zskipn hdr_len b); Ok (h :: r)
    end
  end.
Definition parse_table (b : bytes) : outcome (list hdr) := parse_table_f (S (length b)) b.

(* GetHeadersTableRangeFrom *)
Definition table_range (img : bytes) : outcome (Z * Z) :=
  let size := zlen img in
  let pstart := size - fit_pointer_offset in
  let pend := pstart + fit_pointer_size in
  if negb (bytes_range size pstart pend) then Err E_PTR_RANGE else
  do pb <- slice_or_copy img (w64 pstart) (w64 pend);
  let ptr := le_dec (zfirstn 8 pb) in
  let tail := tail_offset_of_phys ptr in
  let startIdx := w64 (size - tail) in
  let firstEnd := w64 (startIdx + hdr_len) in
  if negb (bytes_range size (s64 startIdx) (s64 firstEnd)) then Err E_FIRST_RANGE else
  match rws_seek img (s64 startIdx) with
  | None => Err E_FIRST_READ
  | Some p =>
    match dec_hdr (zskipn p img) with
    | None => Err E_FIRST_READ
    | Some meta =>
      if negb (bytes_eqb (le_enc 8 (h_addr meta)) fit_headers_magic) then Err E_MAGIC else
      let endIdx := w64 (startIdx + w32 (hsz meta * 16)) in
      if negb (bytes_range size (s64 startIdx) (s64 endIdx)) then Err E_TABLE_RANGE else
      Ok (startIdx, endIdx)
    end
  end.

Definition get_table (img : bytes) : outcome (list hdr) :=
  do r <- table_range img;
  do tb <- slice_or_copy img (fst r) (snd r);
  parse_table tb.

Fixpoint entries_from (hs : list hdr) (img : bytes) : outcome (list entry) :=
  match hs with
  | [] => Ok []
  | h :: r => do e <- new_entry h img; do es <- entries_from r img; Ok (e :: es)
  end.

Definition get_entries (img : bytes) : outcome (list entry) :=
  do t <- get_table img; entries_from t img.

(* ---- InjectTo: the final storage and the error class (0 = nil) ---- *)

(* Table.WriteTo: one Write of 16 bytes per entry *)
Fixpoint write_headers (st : bytes) (pos : Z) (hs : list hdr) : bytes * Z * bool :=
  match hs with
  | [] => (st, pos, true)
  | h :: r =>
    let '(st1, pos1, ok) := rws_write st pos (enc_hdr h) in
    if ok then write_headers st1 pos1 r else (st1, pos1, false)
  end.

(* injectDataSectionTo *)
Definition inject_data (st : bytes) (e : entry) : bytes * Z :=
  if zlen (e_data e) =? 0 then (st, 0) else
  let o := offset_of_phys (h_addr (e_hdr e)) (zlen st) in
  match rws_seek st (s64 o) with
  | None => (st, E_DATA_SEEK)
  | Some p => let '(st1, _, ok) := rws_write st p (e_data e) in
              (st1, if ok then 0 else E_DATA_WRITE)
  end.

Fixpoint inject_datas (st : bytes) (es : list entry) : bytes * Z :=
  match es with
  | [] => (st, 0)
  | e :: r => let '(st1, c) := inject_data st e in
              if c =? 0 then inject_datas st1 r else (st1, c)
  end.

Definition inject (img : bytes) (es : list entry) (off : Z) : bytes * Z :=
  match rws_seek img (zlen img - fit_pointer_offset) with
  | None => (img, E_PTR_SEEK)
  | Some p =>
    let '(st1, _, ok1) := rws_write img p (le_enc 8 (phys_of_offset off (zlen img))) in
    if negb ok1 then (st1, E_PTR_WRITE) else
    match rws_seek st1 (s64 off) with
    | None => (st1, E_HDR_SEEK)
    | Some p2 =>
      let '(st2, _, ok2) := write_headers st1 p2 (map e_hdr es) in
      if negb ok2 then (st2, E_HDR_WRITE) else inject_datas st2 es
    end
  end.

(* ---- Table.WriteToFirmwareImage: find the table through the FIT pointer, write the headers there ----
   (what fittool add_raw_headers / set_raw_headers / remove_headers do after changing the table).
   Result: the final storage and the error class (0 = nil); a table that cannot be located is the
   error of GetHeadersTableRangeFrom. *)
Definition E_WT_SEEK : Z := 2.
Definition E_WT_WRITE : Z := 3.
Definition write_table (img : bytes) (hs : list hdr) : outcome (bytes * Z) :=
  do r <- table_range img;
  match rws_seek img (s64 (fst r)) with
  | None => Ok (img, E_WT_SEEK)
  | Some p => let '(st, _, ok) := write_headers img p hs in
              Ok (st, if ok then 0 else E_WT_WRITE)
  end.

(* ---- RecalculateHeaders ---- *)

(* mostCommonRecalculateHeadersOfEntry.  FIXED behaviour: an entry whose Go type
   is not registered (EntryUnknown) keeps the type stored in its headers; the
   unpatched code panics ("type *fit.EntryUnknown is not known"). *)
Definition most_common (e : entry) : outcome entry :=
  let h := e_hdr e in
  let t := if e_kind e =? K_UNKNOWN then htype h else e_kind e in
  do tc1 <- tc_set_type (h_tc h) t;
  let h1 := set_tc h (tc_set_cv tc1 true) in
  let h2 := set_cksum h1 (calc_checksum h1) in      (* before Version and Size are set *)
  let h3 := set_ver h2 256 in
  do sz <- u24_set (w32 (zlen (e_data e) / 16));    (* uint32(len(data) >> 4) *)
  Ok (mkEntry (e_kind e) (set_size h3 sz) (e_data e) (e_err e)).

Definition bytes_kind (k : Z) : bool :=
  (k =? fit_type_bios_policy) || (k =? fit_type_key_manifest) || (k =? fit_type_boot_policy).

(* EntryRecalculateHeaders, by Go type.  FIXED behaviour for EntrySACM: the type
   is set (the unpatched code only zeroes Size, so a fresh EntrySACM keeps type 0). *)
Definition recalc_entry (e : entry) : outcome entry :=
  let k := e_kind e in
  if k =? fit_type_fit_header then
    do e1 <- most_common e;
    Ok (mkEntry k (set_addr (e_hdr e1) (le_dec fit_headers_magic)) (e_data e1) (e_err e1))
  else if k =? fit_type_sacm then
    do tc <- tc_set_type (h_tc (e_hdr e)) fit_type_sacm;
    do sz <- u24_set 0;
    Ok (mkEntry k (set_size (set_tc (e_hdr e) tc) sz) (e_data e) (e_err e))
  else if (k =? fit_type_diagnostic_acm) || (k =? fit_type_tpm_policy) then Err E_UNSUPPORTED
  else if bytes_kind k then
    do e1 <- most_common e;
    do sz <- u24_set (w32 (zlen (e_data e)));
    Ok (mkEntry k (set_size (e_hdr e1) sz) (e_data e1) (e_err e1))
  else if k =? fit_type_txt_policy then
    do tc <- tc_set_type (h_tc (e_hdr e)) fit_type_txt_policy;
    do sz <- u24_set 0;
    Ok (mkEntry k (set_size (set_tc (e_hdr e) (tc_set_cv tc false)) sz) [] (e_err e))
  else most_common e.

Fixpoint recalc_all (es : list entry) : outcome (list entry) :=
  match es with
  | [] => Ok []
  | e :: r => do e' <- recalc_entry e; do r' <- recalc_all r; Ok (e' :: r')
  end.

Definition recalc (es : list entry) : outcome (list entry) :=
  match es with
  | [] => Ok []
  | _ :: _ =>
    do es1 <- recalc_all es;
    match es1 with
    | [] => Ok []
    | e0 :: r =>
      if e_kind e0 =? fit_type_fit_header then
        do sz <- u24_set (w32 (zlen es));
        Ok (mkEntry (e_kind e0) (set_size (e_hdr e0) sz) (e_data e0) (e_err e0) :: r)
      else Err E_NOT_FIT_HEADER
    end
  end.

(* ---- specification-side definitions used by the theorems ---- *)

Definition wf_hdr (h : hdr) : bool :=
  (0 <=? h_addr h) && (h_addr h <? 2 ^ 64) &&
  bytes_ok (h_size h) && (zlen (h_size h) =? 3) &&
  (0 <=? h_rsvd h) && (h_rsvd h <? 256) && (0 <=? h_ver h) && (h_ver h <? 2 ^ 16) &&
  (0 <=? h_tc h) && (h_tc h <? 256) && (0 <=? h_cksum h) && (h_cksum h <? 256).

Definition magic_addr : Z := le_dec fit_headers_magic.

Definition no_data_kind (k : Z) : bool :=
  (k =? fit_type_fit_header) || (k =? fit_type_txt_policy) ||
  (k =? fit_type_diagnostic_acm) || (k =? fit_type_tpm_policy).

(* the data an entry can carry through an image, by kind: what GetEntries will
   slice out for these headers *)
Definition data_rule (e : entry) : bool :=
  let k := e_kind e in
  let n := zlen (e_data e) in
  if no_data_kind k then n =? 0
  else if bytes_kind k then n =? hsz (e_hdr e)
  else if k =? fit_type_sacm then
    (fit_sacm_size_offset + 4 <=? n) && (n =? w32 (rd fit_sacm_size_offset 4 (e_data e) * 4))
  else n =? hsz (e_hdr e) * 16.

Definition entry_ok (e : entry) : bool :=
  wf_hdr (e_hdr e) && bytes_ok (e_data e) &&
  (e_kind e =? kind_of_type (htype (e_hdr e))) && data_rule e && (e_err e =? 0).

(* the first entry describes the table *)
Definition first_ok (es : list entry) : bool :=
  match es with
  | [] => false
  | e0 :: _ => (e_kind e0 =? fit_type_fit_header) && (h_addr (e_hdr e0) =? magic_addr) &&
               (hsz (e_hdr e0) =? zlen es)
  end.

(* byte ranges (offset, length) an injection writes *)
Definition has_data (e : entry) : bool := negb (zlen (e_data e) =? 0).
Definition data_off (imgsz : Z) (e : entry) : Z := offset_of_phys (h_addr (e_hdr e)) imgsz.
Definition data_ranges (imgsz : Z) (es : list entry) : list (Z * Z) :=
  map (fun e => (data_off imgsz e, zlen (e_data e))) (filter has_data es).
Definition ranges (imgsz off : Z) (es : list entry) : list (Z * Z) :=
  (imgsz - fit_pointer_offset, 8) :: (off, hdr_len * zlen es) :: data_ranges imgsz es.

Definition in_image (n : Z) (r : Z * Z) : bool := (0 <=? fst r) && (fst r + snd r <=? n).
Definition disjoint (a b : Z * Z) : bool :=
  (fst a + snd a <=? fst b) || (fst b + snd b <=? fst a).
Fixpoint pairwise_disjoint (l : list (Z * Z)) : bool :=
  match l with
  | [] => true
  | a :: r => forallb (disjoint a) r && pairwise_disjoint r
  end.

(* every written range lies inside the image and no two of them overlap *)
Definition layout_ok (img : bytes) (off : Z) (es : list entry) : bool :=
  (fit_pointer_offset <=? zlen img) && (zlen img <? 2 ^ 63) &&
  forallb (in_image (zlen img)) (ranges (zlen img) off es) &&
  pairwise_disjoint (ranges (zlen img) off es).

Definition in_range (k : Z) (r : Z * Z) : bool := (fst r <=? k) && (k <? fst r + snd r).
(* byte index k lies in none of the ranges *)
Definition untouched (k : Z) (rs : list (Z * Z)) : bool := forallb (fun r => negb (in_range k r)) rs.

(* the entry as GetEntries reports it: unsupported kinds carry a HeadersErrors *)
Definition as_read (e : entry) : entry :=
  if (e_kind e =? fit_type_diagnostic_acm) || (e_kind e =? fit_type_tpm_policy)
  then mkEntry (e_kind e) (e_hdr e) (e_data e) E_SIZE else e.

(* what RecalculateHeaders needs from the caller's entries *)
Definition shape_ok (e : entry) : bool :=
  let k := e_kind e in
  let n := zlen (e_data e) in
  wf_hdr (e_hdr e) && bytes_ok (e_data e) && (e_err e =? 0) &&
  ((k =? K_UNKNOWN) || registered k) &&
  negb ((k =? fit_type_diagnostic_acm) || (k =? fit_type_tpm_policy)) &&  (* "not supported, yet" *)
  (if k =? K_UNKNOWN then negb (registered (htype (e_hdr e))) else true) &&
  (if k =? fit_type_fit_header then n =? 0
   else if k =? fit_type_txt_policy then true
   else if bytes_kind k then n <? 2 ^ 24
   else if k =? fit_type_sacm then
     (fit_sacm_size_offset + 4 <=? n) && (n =? w32 (rd fit_sacm_size_offset 4 (e_data e) * 4))
   else (n mod 16 =? 0) && (n <? 2 ^ 28)).
