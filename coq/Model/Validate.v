(* Model/Validate.v — executable model of the validate visitor on the UEFI tree of Model/Ffs.v.

   Transcribes (Go, /repo):
     pkg/visitors/validate.go   Validate.Visit for *uefi.FirmwareVolume, *uefi.File, *uefi.Section,
                                *uefi.BIOSRegion (BIOSPadding and NVarStore have no case: no checks),
                                and the traversal (node's own errors first, then its children's)
     pkg/uefi/file.go           File.ChecksumHeader
     pkg/uefi/uefi.go           Checksum8, Checksum16 ([sum8]/[sum16] of Model/Ffs.v; Checksum16's
                                odd-length error is the class V_FV_CKERR)

   The result is the list of reported error classes in the order validate appends them (the Go
   executor maps each error message to the same class number).  Every Go slice expression is a
   checked [slice] yielding [Panic site]:  f.Buf()[:f.HeaderLen] (501),  f.buf[:headerSize] in
   ChecksumHeader (502),  f.Buf()[headerSize:] (503),  f.Buf()[fvlen-f.FreeSpace:] (504).

   The file body check is the REPAIRED one (fixes/C09-validate-body-checksum.diff): body bytes plus the
   IntegrityCheck.File byte sum to zero, which is what ChecksumAndAssemble writes.  [validate_file_old]
   is the check of the pinned code (body bytes alone sum to zero), kept for the refutation lemmas.
   The volume case ends with the check added by fixes/C09-validate-free-space-erased.diff: the last
   FreeSpace bytes of the volume are all equal to the volume's erase polarity (uefi.IsErased);
   FreeSpace is a uint64, so "!= 0" is rendered as "0 <".  [validate_gen false] is the pinned code
   (neither repair), [validate_gen true] = [validate] the repaired one.

   Not modelled: FlashImage / FlashDescriptor / MERegion / RawRegion cases (flash-descriptor level,
   property C12), the W != nil path (printing and os.Exit), the texts of the messages. A BIOS region
   obtained from uefi.Parse on a bare region has FRegion == nil, so the "BIOSRegion is not valid"
   check never fires there; it is not modelled. *)
From Fiano Require Import Base.Bytes Gen.Consts Model.Ffs.
Open Scope Z_scope.

(* error classes *)
Definition V_FV_SHORT : Z := 1.       (* length too small *)
Definition V_FV_HDRSMALL : Z := 2.    (* header length too small *)
Definition V_FV_BUFSMALL : Z := 3.    (* buffer smaller than header *)
Definition V_FV_HDRBLOCKS : Z := 4.   (* header length does not match the block map *)
Definition V_FV_UNKNOWN : Z := 5.     (* unknown FV type *)
Definition V_FV_REVISION : Z := 6.
Definition V_FV_SIGNATURE : Z := 7.
Definition V_FV_LENGTH : Z := 8.      (* length mismatch *)
Definition V_FV_CKERR : Z := 9.       (* unable to checksum (odd header length) *)
Definition V_FV_CKSUM : Z := 10.      (* header did not sum to 0 *)
Definition V_FV_FREESPACE : Z := 11.  (* free space is not erased *)
Definition V_F_SHORT : Z := 32.       (* file length too small *)
Definition V_F_EXTSHORT : Z := 33.    (* too small for extended header *)
Definition V_F_NOTLARGE : Z := 34.    (* extended header but large attribute not set *)
Definition V_F_LARGE : Z := 35.       (* large attribute but no extended header *)
Definition V_F_NOTCOPIED : Z := 36.   (* size not copied into extendedsize *)
Definition V_F_SIZE : Z := 37.        (* size mismatch *)
Definition V_F_HDRSUM : Z := 38.      (* header checksum failure *)
Definition V_F_EMPTYSUM : Z := 39.    (* attribute not set but body checksum byte is not 0xAA *)
Definition V_F_BODYSUM : Z := 40.     (* body checksum failure *)
Definition V_S_EXTSHORT : Z := 64.
Definition V_S_NOTCOPIED : Z := 65.
Definition V_S_SIZE : Z := 66.
Definition V_R_NOFV : Z := 80.        (* no firmware volumes in BIOS region *)
Definition V_R_POLARITY : Z := 82.    (* erase polarity mismatch *)

Definition known_fv_guid (g : bytes) : bool := existsb (bytes_eqb g) c09_fv_guids.

(* the block-map entries before the first zero entry (a volume built by create-fv keeps the
   terminator in its block list; the parser never does) *)
Fixpoint nblocks (l : list (Z * Z)) : Z :=
  match l with
  | [] => 0
  | (c, s) :: r => if (c =? 0) && (s =? 0) then 0 else 1 + nblocks r
  end.

(* case *uefi.FirmwareVolume; [fixed] selects the repaired code (with the free-space check) *)
Definition validate_vol_gen (fixed : bool) (h : volhdr) (buf : bytes) : outcome (list Z) :=
  let fvlen := zlen buf in
  if fvlen <? c09_fv_min_size then Ok [V_FV_SHORT] else
  if v_hdrlen h <? c09_fv_min_size then Ok [V_FV_HDRSMALL] else
  if fvlen <? v_hdrlen h then Ok [V_FV_BUFSMALL] else
  let e1 := if v_hdrlen h =? c09_fv_fixed_header_size + 8 * (nblocks (v_blocks h) + 1)
            then [] else [V_FV_HDRBLOCKS] in
  let e2 := if known_fv_guid (v_guid h) then [] else [V_FV_UNKNOWN] in
  let e3 := if v_rev h =? 2 then [] else [V_FV_REVISION] in
  let e4 := if v_sig h =? c09_fv_signature then [] else [V_FV_SIGNATURE] in
  let e5 := if v_length h =? fvlen then [] else [V_FV_LENGTH] in
  do hb <- of_opt 501 (slice 0 (v_hdrlen h) buf);
  let e6 := if negb (Z.even (zlen hb)) then [V_FV_CKERR]
            else if sum16 hb =? 0 then [] else [V_FV_CKSUM] in
  (* REPAIRED (fixes/C09-validate-free-space-erased.diff): the free space must be erased *)
  do e7 <-
    (if fixed && (0 <? v_freespace h) && (v_freespace h <=? fvlen) then
       do fs <- of_opt 504 (slice (fvlen - v_freespace h) fvlen buf);
       Ok (if forallb (fun x => x =? fv_polarity (v_attrs h)) fs then [] else [V_FV_FREESPACE])
     else Ok []);
  Ok (e1 ++ e2 ++ e3 ++ e4 ++ e5 ++ e6 ++ e7).

Definition validate_vol := validate_vol_gen true.
Definition validate_vol_old := validate_vol_gen false.

(* File.ChecksumHeader *)
Definition checksum_header (h : filehdr) (buf : bytes) : outcome Z :=
  let hs := if attr_large (f_attr h) then c09_file_header_ext_min else c09_file_header_min in
  do hb <- of_opt 502 (slice 0 hs buf);
  Ok ((sum8 hb - f_ckf h - f_state h) mod 256).

(* case *uefi.File; [fixed] selects the repaired body check *)
Definition validate_file_gen (fixed : bool) (h : filehdr) (buf : bytes) : outcome (list Z) :=
  let buflen := zlen buf in
  if buflen <? c09_file_header_min then Ok [V_F_SHORT] else
  let large := attr_large (f_attr h) in
  let size_err :=
    if f_size3 h =? 16777215 then
      if buflen <? c09_file_header_ext_min then Some V_F_EXTSHORT
      else if negb large then Some V_F_NOTLARGE else None
    else if large then Some V_F_LARGE
    else if negb (f_size3 h =? f_ext h) then Some V_F_NOTCOPIED else None in
  match size_err with
  | Some e => Ok [e]
  | None =>
    if negb (buflen =? f_ext h) then Ok [V_F_SIZE] else
    do sum <- checksum_header h buf;
    let e1 := if sum =? 0 then [] else [V_F_HDRSUM] in
    let has := attr_checksum (f_attr h) in
    if negb has && negb (f_ckf h =? c09_empty_body_checksum) then Ok (e1 ++ [V_F_EMPTYSUM])
    else if has then
      let hs := if large then c09_file_header_ext_min else c09_file_header_min in
      do body <- of_opt 503 (slice hs (zlen buf) buf);
      let s := if fixed then (sum8 body + f_ckf h) mod 256 else sum8 body in
      Ok (e1 ++ (if s =? 0 then [] else [V_F_BODYSUM]))
    else Ok e1
  end.

Definition validate_file := validate_file_gen true.
Definition validate_file_old := validate_file_gen false.

(* case *uefi.Section; lengths are uint32 *)
Definition validate_sec (h : sechdr) (buf : bytes) : list Z :=
  let buflen := zlen buf mod U32 in
  let early :=
    if s_size3 h =? 16777215 then
      if buflen <? c09_section_ext_min then Some V_S_EXTSHORT else None
    else if negb (s_size3 h =? s_ext h) then Some V_S_NOTCOPIED else None in
  match early with
  | Some e => [e]
  | None => if negb (buflen =? s_ext h) then [V_S_SIZE] else []
  end.

(* the traversal: a node's own errors, then those of its children in order *)
Fixpoint validate_gen (fixed : bool) (n : node) {struct n} : outcome (list Z) :=
  let vlist :=
    fix vlist (l : list node) : outcome (list Z) :=
      match l with
      | [] => Ok []
      | x :: r => do a <- validate_gen fixed x; do b <- vlist r; Ok (a ++ b)
      end in
  match n with
  | NPad _ _ => Ok []
  | NSec h buf kids => do b <- vlist kids; Ok (validate_sec h buf ++ b)
  | NFile h buf kids => do a <- validate_file_gen fixed h buf; do b <- vlist kids; Ok (a ++ b)
  | NVol h buf kids => do a <- validate_vol_gen fixed h buf; do b <- vlist kids; Ok (a ++ b)
  end.

Definition validate := validate_gen true.

Fixpoint validate_list_gen (fixed : bool) (l : list node) : outcome (list Z) :=
  match l with
  | [] => Ok []
  | x :: r => do a <- validate_gen fixed x; do b <- validate_list_gen fixed r; Ok (a ++ b)
  end.
Definition validate_list := validate_list_gen true.

(* case *uefi.BIOSRegion: FirstFV, then every element followed by the polarity comparison with the
   global uefi.Attributes.ErasePolarity ([pol], as left by the parser) *)
Fixpoint validate_elems (fixed : bool) (pol : Z) (l : list node) : outcome (list Z) :=
  match l with
  | [] => Ok []
  | e :: r =>
    do a <- validate_gen fixed e;
    let p := match e with
             | NVol h _ _ => if fv_polarity (v_attrs h) =? pol then [] else [V_R_POLARITY]
             | _ => [] end in
    do b <- validate_elems fixed pol r;
    Ok (a ++ p ++ b)
  end.

Definition validate_region_gen (fixed : bool) (elems : list node) (pol : Z) : outcome (list Z) :=
  let e0 := match first_fv elems with None => [V_R_NOFV] | Some _ => [] end in
  do r <- validate_elems fixed pol elems;
  Ok (e0 ++ r).

Definition validate_region := validate_region_gen true.

Section Pipeline.
Variable dec : Z -> bytes -> option bytes.
Variable u2s : bytes -> bytes.
Variable nvar : bytes -> option bytes.

(* uefi.Parse of a bare BIOS region followed by Validate.Run: None = parse error *)
Definition parse_validate (fixed : bool) (d : nat) (img : bytes) : outcome (option (list Z)) :=
  match parse_region dec u2s nvar d img with
  | Ok (elems, pol) => do r <- validate_region_gen fixed elems pol; Ok (Some r)
  | Err _ => Ok None
  | Panic s => Panic s
  | Fuel => Fuel
  end.
End Pipeline.
