(* Model/Misc.v — executable models of the small parsers of property C20 that no
   other property models.

   Transcribes
     pkg/intel/microcode/microcode.go  getTotalSize, getDataSize, ParseIntelMicrocode
         -> [mc_parse]     (as REPAIRED by /verif/fixes/C20-microcode-bounds.diff: the size check
                            is made without uint32 wrap-around and the data is read through a
                            growing buffer instead of make([]byte, DataSize));
         [mc_alloc_orig] / [mc_alloc] are the allocation ledgers of the unrepaired / repaired
         code: the number of bytes requested for Data before / while reading it.
     pkg/intel/me/me.go   parseLegacyFlashPartitionTableHeader, parseFlashPartitionTableHeader,
                          parseEntry, ParseIntelME            -> [me_parse]
     pkg/fsp/header.go    NewInfoHeader, DecodeImageRevision  -> [fsp_parse]
         (the json.Marshal / json.Unmarshal pair that copies the revision-specific header into
          CommonInfoHeader is the field-by-field copy it amounts to: equal field names, all of
          them integers or byte arrays)
     pkg/intel/metadata/fit/ent_startup_ac_module_entry.go  EntrySACMParseSize -> [sacm_parse_size],
                          ParseSACMData -> [sacm_parse] (section 5)
     pkg/amd/psb/keys.go  readExponent, readModulus as called by newTokenOrRootKey: only the
         allocation ledgers [key_alloc_orig] / [key_alloc] (the values are modelled by
         Model/Amd.v [new_root_key] and Model/Integrity.v [parse_token_or_root]); repaired by
         /verif/fixes/C20-psb-key-bounds.diff.
     pkg/fmap/fmap.go     ReadArea: only the allocation ledgers [read_area_alloc_orig] /
         [read_area_alloc] (the value is Model/Fmap.v [read_area]); repaired by
         /verif/fixes/C20-fmap-readarea-bounds.diff.

   Conventions: an io.Reader is the list of its unread bytes; binary.Read of n > 0 bytes is
   [rd_n] (io.EOF when nothing is left, io.ErrUnexpectedEOF when fewer than n bytes are);
   loops over a decoded count run on explicit fuel ([Fuel] = did not finish); uint32 sums are
   written with [mod 2^32] where the Go expression is a uint32 sum.

   Not modelled: String()/Summary() methods, log output (the "reserved bytes" and "spec
   violation" warnings of NewInfoHeader), error message texts (errors are classes). *)
From Fiano Require Import Base.Bytes Gen.Consts.
Open Scope Z_scope.

Definition E_EOF : Z := 1.      (* io.EOF *)
Definition E_UEOF : Z := 2.     (* io.ErrUnexpectedEOF *)

(* io.ReadFull of n > 0 bytes *)
Definition rd_n (n : Z) (r : bytes) : outcome (bytes * bytes) :=
  if zlen r =? 0 then Err E_EOF
  else if zlen r <? n then Err E_UEOF
  else Ok (zfirstn n r, zskipn n r).

Definition rd_u (n : Z) (r : bytes) : outcome (Z * bytes) :=
  do x <- rd_n n r; Ok (le_dec (fst x), snd x).

Definition u32 (x : Z) : Z := x mod 2 ^ 32.

(* little-endian uint32 words of a buffer; a tail of fewer than 4 bytes is not a word
   (binary.Read fails on it and the checksum loop stops) *)
Fixpoint words32 (b : bytes) : list Z :=
  match b with
  | a :: b1 :: c :: d :: r => (a + 256 * b1 + 65536 * c + 16777216 * d) :: words32 r
  | _ => []
  end.

(* var checksum uint32; checksum += data *)
Definition sum32 (b : bytes) : Z := fold_left (fun acc w => u32 (acc + w)) (words32 b) 0.

(* ---------------------------------------------------------------- *)
(* 1. Intel microcode                                                 *)
(* ---------------------------------------------------------------- *)

Definition MC_HEADER : Z := 1.     (* failed to read header *)
Definition MC_SIZE : Z := 2.       (* bad data file size *)
Definition MC_VERSION : Z := 3.    (* invalid version or revision *)
Definition MC_DALIGN : Z := 4.     (* data size not 32bit aligned *)
Definition MC_TALIGN : Z := 5.     (* total size not 32bit aligned *)
Definition MC_DATA : Z := 6.       (* failed to read data *)
Definition MC_CKSUM : Z := 7.      (* checksum is not null *)
Definition MC_EXT : Z := 8.        (* failed to read extended sig table *)
Definition MC_EXTSIG : Z := 9.     (* failed to read extended signature *)
Definition MC_EXTCKSUM : Z := 10.  (* extended header checksum is not null *)

Record mc := mkMc {
  mc_hdr : bytes;          (* the 48 header bytes (12 uint32 fields) *)
  mc_data : bytes;
  mc_ext : bytes;          (* the 20 bytes of ExtSigTable, [] when there is none *)
  mc_sigs : list bytes     (* 12-byte ExtendedSignature records *)
}.

(* header fields by wire offset *)
Definition mc_version (h : bytes) : Z := rd 0 4 h.
Definition mc_loader_rev (h : bytes) : Z := rd 20 4 h.
Definition mc_datasize_f (h : bytes) : Z := rd 28 4 h.
Definition mc_totalsize_f (h : bytes) : Z := rd 32 4 h.

Definition mc_total_size (h : bytes) : Z :=
  if 0 <? mc_datasize_f h then mc_totalsize_f h else mc_default_totalsize.
Definition mc_data_size (h : bytes) : Z :=
  if 0 <? mc_datasize_f h then mc_datasize_f h else mc_default_datasize.

(* for i := uint32(0); i < Count; i++ { binary.Read(r, &signature) ... append } *)
Fixpoint mc_sigs_loop (fuel : nat) (i count : Z) (r : bytes) : outcome (list bytes * bytes) :=
  if count <=? i then Ok ([], r) else
  match fuel with
  | O => Fuel
  | S f =>
    match rd_n mc_ext_sig_size r with
    | Ok (s, r1) => do x <- mc_sigs_loop f (i + 1) count r1; Ok (s :: fst x, snd x)
    | Err _ => Err MC_EXTSIG
    | Panic w => Panic w
    | Fuel => Fuel
    end
  end.

(* the checks of ParseIntelMicrocode between reading the header and reading the data;
   [wrap] = true is the unrepaired uint32 comparison *)
Definition mc_checks (wrap : bool) (h : bytes) : outcome unit :=
  let need := mc_data_size h + mc_header_size in
  if mc_total_size h <? (if wrap then u32 need else need) then Err MC_SIZE else
  if negb (mc_loader_rev h =? 1) || negb (mc_version h =? 1) then Err MC_VERSION else
  if 0 <? mc_data_size h mod 4 then Err MC_DALIGN else
  if 0 <? mc_total_size h mod 4 then Err MC_TALIGN else Ok tt.

Definition mc_parse (b : bytes) : outcome mc :=
  match rd_n mc_header_size b with
  | Ok (h, r0) =>
    do _ <- mc_checks false h;
    if zlen r0 <? mc_data_size h then Err MC_DATA else
    let d := zfirstn (mc_data_size h) r0 in
    let r1 := zskipn (mc_data_size h) r0 in
    if negb (sum32 (h ++ d) =? 0) then Err MC_CKSUM else
    if mc_total_size h <=? mc_data_size h + mc_header_size then Ok (mkMc h d [] []) else
    match rd_n mc_ext_table_size r1 with
    | Ok (t, r2) =>
      do x <- mc_sigs_loop (S (length r2)) 0 (rd 0 4 t) r2;
      if negb (sum32 (t ++ concat (fst x)) =? 0) then Err MC_EXTCKSUM
      else Ok (mkMc h d t (fst x))
    | Err _ => Err MC_EXT
    | Panic w => Panic w
    | Fuel => Fuel
    end
  | Err _ => Err MC_HEADER
  | Panic w => Panic w
  | Fuel => Fuel
  end.

(* allocation ledger: bytes requested for m.Data.
   unrepaired: make([]byte, getDataSize(m.Header)) as soon as the (wrapping) checks pass;
   repaired: the buffer grows with the bytes that are really read *)
Definition mc_alloc_orig (b : bytes) : Z :=
  match rd_n mc_header_size b with
  | Ok (h, _) => match mc_checks true h with Ok _ => mc_data_size h | _ => 0 end
  | _ => 0
  end.

Definition mc_alloc (b : bytes) : Z :=
  match rd_n mc_header_size b with
  | Ok (h, r0) => match mc_checks false h with Ok _ => Z.min (mc_data_size h) (zlen r0) | _ => 0 end
  | _ => 0
  end.

(* ---------------------------------------------------------------- *)
(* 2. Intel ME flash partition table                                  *)
(* ---------------------------------------------------------------- *)

Record me_hdr := mkMeHdr {
  me_legacy : bool;
  me_marker : bytes;       (* [4]byte: read from the stream (legacy) or set to the signature *)
  me_num : Z;              (* NumFptEntries uint32 *)
  me_hver : Z; me_ever : Z; me_hlen : Z; me_hck : Z;     (* 4 x uint8 *)
  me_ticks : Z; me_tokens : Z;                           (* 2 x uint16 *)
  me_uma : Z; me_flags : Z;                              (* 2 x uint32 *)
  me_fitc : list Z         (* FitcMajor/Minor/Hotfix/Build, new header only *)
}.

(* the fields both headers share, each read by its own binary.Read *)
Definition me_common (r : bytes) : outcome (Z * Z * Z * Z * Z * Z * Z * Z * Z * bytes) :=
  do n <- rd_u 4 r;
  do a <- rd_u 1 (snd n);
  do b <- rd_u 1 (snd a);
  do c <- rd_u 1 (snd b);
  do d <- rd_u 1 (snd c);
  do ti <- rd_u 2 (snd d);
  do to <- rd_u 2 (snd ti);
  do u <- rd_u 4 (snd to);
  do f <- rd_u 4 (snd u);
  Ok (fst n, fst a, fst b, fst c, fst d, fst ti, fst to, fst u, fst f, snd f).

Definition me_new_header (r : bytes) : outcome (me_hdr * bytes) :=
  do x <- me_common r;
  let '(n, a, b, c, d, ti, to, u, f, r1) := x in
  do f1 <- rd_u 2 r1;
  do f2 <- rd_u 2 (snd f1);
  do f3 <- rd_u 2 (snd f2);
  do f4 <- rd_u 2 (snd f3);
  Ok (mkMeHdr false me_signature n a b c d ti to u f [fst f1; fst f2; fst f3; fst f4], snd f4).

Definition me_legacy_header (r : bytes) : outcome (me_hdr * bytes) :=
  do scrap <- rd_n 12 r;
  do mk <- rd_n 4 (snd scrap);
  do x <- me_common (snd mk);
  let '(n, a, b, c, d, ti, to, u, f, r1) := x in
  Ok (mkMeHdr true (fst mk) n a b c d ti to u f [], r1).

(* for i := uint32(0); i < numEntries; i++ { parseEntry(r) ... append } *)
Fixpoint me_entries (fuel : nat) (i count : Z) (r : bytes) : outcome (list bytes) :=
  if count <=? i then Ok [] else
  match fuel with
  | O => Fuel
  | S f =>
    do e <- rd_n me_entry_size r;
    do rest <- me_entries f (i + 1) count (snd e);
    Ok (fst e :: rest)
  end.

Definition me_parse (b : bytes) : outcome (me_hdr * list bytes) :=
  do mk <- rd_n 4 b;
  do h <- (if bytes_eqb (fst mk) me_signature then me_new_header (snd mk)
           else me_legacy_header (snd mk));
  do es <- me_entries (S (length (snd h))) 0 (me_num (fst h)) (snd h);
  Ok (fst h, es).

(* ---------------------------------------------------------------- *)
(* 3. FSP info header                                                 *)
(* ---------------------------------------------------------------- *)

Definition FSP_SHORT : Z := 1.     (* short FSP Info Header length *)
Definition FSP_SIG : Z := 2.       (* invalid signature *)
Definition FSP_SPEC : Z := 3.      (* cannot handle spec version *)
Definition FSP_REV : Z := 4.       (* cannot handle header revision *)
Definition FSP_HLEN : Z := 5.      (* invalid header length *)
Definition FSP_READ : Z := 6.      (* binary.Read of the full header failed *)

Record fsp_hdr := mkFsp {
  fsp_sig : bytes; fsp_hlen : Z; fsp_spec : Z; fsp_rev : Z; fsp_imgrev : Z;
  fsp_imgid : bytes; fsp_imgsize : Z; fsp_imgbase : Z; fsp_imgattr : Z; fsp_compattr : Z;
  fsp_cfgoff : Z; fsp_cfgsize : Z; fsp_tempraminit : Z; fsp_notify : Z; fsp_meminit : Z;
  fsp_tempramexit : Z; fsp_siliconinit : Z; fsp_multiphase : Z; fsp_extrev : Z
}.

(* DecodeImageRevision *)
Definition fsp_image_revision (rev lo ext : Z) : Z :=
  let ext := if rev <? 6 then 0 else ext in
  Z.lor (Z.lor (Z.lor (Z.lor (Z.lor
    (Z.land lo 255)
    (Z.shiftl (Z.land lo 65280) 8))
    (Z.shiftl (Z.land lo 16711680) 16))
    (Z.shiftl (Z.land lo 4278190080) 24))
    (Z.shiftl (Z.land ext 255) 8))
    (Z.shiftl (Z.land ext 65280) 16).

Definition fsp_parse (b : bytes) : outcome fsp_hdr :=
  if zlen b <? fsp_fixed_len then Err FSP_SHORT else
  let sg := sub 0 4 b in
  let hlen := rd 4 4 b in
  let spec := rd 10 1 b in
  let rev := rd 11 1 b in
  if negb (bytes_eqb sg fsp_signature) then Err FSP_SIG else
  if (spec <? fsp_spec_current) || (fsp_spec_unsupported <=? spec) then Err FSP_SPEC else
  if rev <? fsp_min_rev then Err FSP_REV else
  let l := if rev =? 3 then fsp_v3_len else if rev =? 4 then fsp_v4_len
           else if rev =? 5 then fsp_v5_len else fsp_v6_len in
  if hlen <? l then Err FSP_HLEN else
  let wire := if 6 <=? rev then fsp_rev6_wire else if 5 <=? rev then fsp_rev5_wire
              else fsp_rev3_wire in
  if zlen b <? wire then Err FSP_READ else
  let multiphase := if 5 <=? rev then rd 72 4 b else 0 in
  let ext := if 6 <=? rev then rd 76 2 b else 0 in
  Ok (mkFsp sg hlen spec rev (fsp_image_revision rev (rd 12 4 b) ext)
        (sub 16 8 b) (rd 24 4 b) (rd 28 4 b) (rd 32 2 b) (rd 34 2 b) (rd 36 4 b) (rd 40 4 b)
        (rd 48 4 b) (rd 56 4 b) (rd 60 4 b) (rd 64 4 b) (rd 68 4 b) multiphase ext).

(* ---------------------------------------------------------------- *)
(* 4. allocation ledgers of psb key parsing and fmap.ReadArea          *)
(* ---------------------------------------------------------------- *)

(* newTokenOrRootKey: the 64-byte fixed part, then readExponent and readModulus.
   unrepaired: make([]byte, ExponentSize/8) and make([]byte, ModulusSize/8) before looking at
   the buffer; the ledger is the sum of what was requested up to the first failure.
   repaired: a size beyond the bytes left in the buffer is refused before allocating. *)
Definition key_alloc_gen (fixed : bool) (blob : bytes) : Z :=
  if zlen blob <? 64 then 0 else
  let es := rd 56 4 blob in
  let ms := rd 60 4 blob in
  let rest := zlen blob - 64 in
  if negb (es mod 8 =? 0) then 0 else
  if fixed && (rest <? es / 8) then 0 else
  if rest <? es / 8 then es / 8 else                 (* allocated, then the read fails *)
  if negb (ms mod 8 =? 0) then es / 8 else
  if fixed && (rest - es / 8 <? ms / 8) then es / 8 else
  es / 8 + ms / 8.

Definition key_alloc_orig : bytes -> Z := key_alloc_gen false.
Definition key_alloc : bytes -> Z := key_alloc_gen true.

(* FMap.ReadArea(r, i) for an area of the given offset and size over an image of imglen bytes.
   unrepaired: make([]byte, Size); repaired: the buffer holds what ReadAt delivered plus at
   most one more chunk, a chunk being no larger than what has been read so far (at least 4096) *)
Definition read_area_alloc_orig (imglen off size : Z) : Z := size.
Definition read_area_alloc (imglen off size : Z) : Z :=
  let avail := Z.max 0 (imglen - off) in
  Z.min size (2 * avail + 4096).

(* ---------------------------------------------------------------- *)
(* 5. FIT startup ACM data: EntrySACMParseSize, ParseSACMData        *)
(* ---------------------------------------------------------------- *)

(* pkg/intel/metadata/fit/ent_startup_ac_module_entry.go
     EntrySACMParseSize(b)  -> [sacm_parse_size]: written as the code is, the slice b[24:] and the
       four bytes binary.LittleEndian.Uint32 indexes are checked operations (Panic 1 / Panic 2);
       the guard in front of them makes both unreachable (MiscProofs.sacm_parse_size_total).
     ParseSACMData(r)       -> [sacm_parse]: the 128-byte common header (binary.Read), the header
       version dispatch, the key size check, the version-specific rest (binary.Read into the
       reflect-built struct: a fixed number of bytes), the user area read through
       readBytesFromReader (io.CopyN into a growing buffer, as repaired by
       /verif/fixes/C20-fit-readbytes-bounds.diff).
   The struct sizes and header version numbers below are literals: they are checked against the Go
   code by the correspondence op `sacm` of the C20 executor (value and class on every input). *)
Definition SACM_SHORT : Z := 1.     (* EntrySACMParseSize: range error *)

Definition sacm_parse_size (b : bytes) : outcome Z :=
  if fit_sacm_size_offset >=? zlen b - 4 then Err SACM_SHORT else
  if zlen b <? fit_sacm_size_offset then Panic 1 else            (* b[24:] *)
  if zlen b - fit_sacm_size_offset <? 4 then Panic 2 else        (* Uint32: b[3] of the slice *)
  Ok (u32 (rd fit_sacm_size_offset 4 b * 4)).                    (* uint32 << 2 *)

Definition SACM_COMMON : Z := 1.    (* unable to parse startup AC module entry *)
Definition SACM_VERSION : Z := 2.   (* unknown ACM header version *)
Definition SACM_KEYSIZE : Z := 3.   (* invalid key size *)
Definition SACM_SPECIFIC : Z := 4.  (* cannot parse version-specific headers *)
Definition SACM_USER : Z := 5.      (* unable to read user area *)

Definition sacm_common_size : Z := 128.
(* header version -> (size of the version-specific part, required key size) *)
Definition sacm_version (ver : Z) : option (Z * Z) :=
  if ver =? 0 then Some (1088, 256)
  else if ver =? 196608 then Some (1600, 384)       (* 0x00030000 *)
  else if ver =? 262144 then Some (7168, 384)       (* 0x00040000 *)
  else None.

Record sacm := mkSacm {
  sacm_ver : Z;
  sacm_hdr_size : Z;       (* binary.Size of the version's structure *)
  sacm_user : bytes
}.

Definition sacm_parse (b : bytes) : outcome sacm :=
  if zlen b <? sacm_common_size then Err SACM_COMMON else
  let r1 := zskipn sacm_common_size b in
  let ver := rd 8 4 b in
  match sacm_version ver with
  | None => Err SACM_VERSION
  | Some (rest, key) =>
    if negb (rd 120 4 b * 4 =? key) then Err SACM_KEYSIZE else     (* KeySize.Size(): uint64 << 2 *)
    if zlen r1 <? rest then Err SACM_SPECIFIC else
    let r2 := zskipn rest r1 in
    let start := sacm_common_size + rest in
    let fin := rd 24 4 b * 4 in                                     (* GetSize().Size() *)
    if start <? fin then
      if zlen r2 <? fin - start then Err SACM_USER
      else Ok (mkSacm ver start (zfirstn (fin - start) r2))
    else Ok (mkSacm ver start [])
  end.
