(* Model/DxeCleaner.v — executable model of the DXE cleaner and of the Remove
   and Find visitors it is built from.

   Transcribes (pkg/visitors):
     find.go        Find.Run/Visit restricted to files (the file predicates
                    FindFileGUIDPredicate / FindFileTypePredicate and any other
                    predicate that only looks at a file's header)
     remove.go      Remove.Run (not the RemoveDxes mode), Remove.Visit with its
                    two nested loops, the index expression f.Files[i] that is
                    re-evaluated for every match after the list has shrunk, the
                    in-place deletion append(f.Files[:i], f.Files[i+1:]...),
                    the pad replacement (Pad flag or PEIM type) through
                    uefi.CreatePadFile (size and erase-polarity checks), and the
                    Undo closure chain: one closure per removed file, holding
                    the volume it belongs to (here: its address in the tree)
                    and the copy of that volume's file list taken just before
                    the removal, and re-pointing Undo to the previous closure
                    when called; the descent f.ApplyChildren(v) into the
                    nested volumes of the remaining files
     dxecleaner.go  DXECleaner.Run: candidate list, rounds, per-candidate
                    remove / Test / report-or-undo, the four-way branch on the
                    (bool, error) result of Test

   Three repairs (fixes/C11-*.diff) are switches of [variant]; [asis] is the
   code of the pinned tree, [fixed] the code with the three patches applied.

   State.  An image is a list of volumes, a volume the list of its files; a
   file is (identity, GUID, type, size, UI name, nested volumes): [f_kids] are
   the volumes held by the file's FIRMWARE_VOLUME_IMAGE sections, to any depth.
   Find.Visit lists a matching file and still descends into it (pre-order over
   all depths); Remove.Visit edits a volume's list and then descends into the
   files that are left — a deleted file takes its nested volumes with it, they
   are not visited, and come back untouched when the deletion is undone.
   The root handed to Run may be a flash image, a BIOS region, a section, a
   file or a firmware volume itself: Find.Visit and Remove.Visit treat every
   node that is not a volume (resp. a file) by descending, and Run starts with
   f.Apply(v), i.e. on the root itself, so the model's image is the list of
   volumes met first below (or at) the root; the executor runs all these root
   kinds, including the volume node of a tree produced by uefi.Parse.
   [f_id] stands for the *uefi.File pointer: Remove.Visit compares pointers, and a pad file made by
   CreatePadFile is a new object (fresh id from the counter [nx]).  GUIDs are
   numbers (the 16 bytes read big-endian).

   A Go slice is modelled by the list of its elements.  The stale tail that
   the in-place append leaves in the backing array is not observable here:
   the copy kept for Undo is made by append([]*File{}, f.Files...) before the
   surgery, nothing else aliases f.Files, and Undo installs that copy as the
   new slice.  What the behaviour does depend on — len(f.Files) changing
   under the running index — is modelled: every f.Files[i] and every slice
   expression is a checked operation ([idx], [slc]) that yields Panic.

   The boot test is an oracle [nat -> image -> bool * Z]: call number and the
   image shown to it |-> the (bool, error) pair of DXECleaner.Test, error
   being 0 = nil, 1 = context.Canceled, anything else = another error.  An
   outcome stream is an oracle that ignores the image; a deterministic tester
   one that ignores the call number.  [c_log] is a ghost record of the calls
   (candidate, image shown, answer) used to state the theorems; the executor
   observes the same through the Test callback and the log writer.

   Sections: a file carries at most the fact that one of its user-interface
   sections names a GUID ([f_ui]); the section half of Find.Visit is modelled
   for that case ([file_pred]).  The predicates the cleaner itself uses
   (FindFileGUIDPredicate per candidate; type / blacklist predicates for the
   candidate list) answer false on every section, so [f_ui] never influences
   the cleaner — which is what the correspondence check tests on trees whose
   UI names spell candidates' GUIDs.
   The tree is a value: a closure's saved list holds the files as they were
   when it was saved.  Go holds pointers, but nested volumes are only edited
   after their parent's list has been saved and closures are called last-in
   first-out, so when a saved list is put back its files' nested volumes have
   already been put back and both views agree (the executor checks object
   identity at every depth).
   Not modelled: section kinds other than UI and FV image (e.g. an FV image
   inside a compressed section is the same to the visitors: one more level of
   ApplyChildren), several UI sections in one file, a UI section placed after
   an FV-image section (Find would then list nested matches before the file), Remove's RemoveDxes mode,
   the printf output, parseBlackList and the CLI registration, the bytes of
   the pad file (only its header fields GUID/type/size), Save/Assemble of the
   tree shown to the test. *)
From Fiano Require Import Base.Bytes Gen.Consts.
Open Scope Z_scope.

Inductive file := mkFile {
  f_id : Z; f_guid : Z; f_type : Z; f_size : Z;
  f_ui : option Z;  (* Some g: the file has a user-interface section whose name spells,
                       case-insensitively, the string of GUID g; None: no UI section
                       or an ordinary name *)
  f_kids : list (list file)   (* nested volumes (FV-image sections), in section order *)
}.
Definition volume := list file.
Definition image := list volume.

Definition with_kids (f : file) (k : list volume) : file :=
  mkFile (f_id f) (f_guid f) (f_type f) (f_size f) (f_ui f) k.

(* pre-order: a file, then the files of its nested volumes *)
Fixpoint flat_file (f : file) : list file :=
  f :: concat (map (fun v => concat (map flat_file v)) (f_kids f)).
Definition flat_vol (v : volume) : list file := concat (map flat_file v).
Definition flat (img : image) : list file := concat (map flat_vol img).

(* nesting depth of a list of volumes: 0 without files, 1 for flat volumes *)
Fixpoint fdepth (f : file) : nat :=
  S (fold_right (fun v m => Nat.max (fold_right (fun x m' => Nat.max (fdepth x) m') O v) m) O (f_kids f)).
Definition vdepth (vs : list volume) : nat :=
  fold_right (fun v m => Nat.max (fold_right (fun x m' => Nat.max (fdepth x) m') O v) m) O vs.

(* which repairs are applied *)
Record variant := mkVar {
  v_index : bool;    (* remove.go: i-- and break after a deletion *)
  v_unwind : bool;   (* dxecleaner.go: on reject, call Undo until it is nil *)
  v_cancel : bool    (* dxecleaner.go: on cancel, call Undo until it is nil *)
}.
Definition asis : variant := mkVar false false false.
Definition fixed : variant := mkVar true true true.

(* error classes *)
Definition E_PADSIZE : Z := 1.   (* CreatePadFile: size too small *)
Definition E_PADPOL : Z := 2.    (* CreatePadFile: erase polarity not 0x00/0xFF *)
Definition E_NODXES : Z := 3.    (* found no DXEs in firmware image *)
Definition E_TEST : Z := 4.      (* Test returned (true, err) *)
(* panic sites *)
Definition P_INDEX : Z := 1.     (* f.Files[i] in Remove.Visit *)
Definition P_SLICE : Z := 2.     (* f.Files[:i] / f.Files[i+1:] *)
Definition P_NILUNDO : Z := 3.   (* remove.Undo() with Undo == nil *)
Definition P_DXES : Z := 4.      (* dxes[i] *)

(* Go's s[i] and s[lo:hi] *)
Definition idx {A} (i : Z) (l : list A) : option A :=
  if (0 <=? i) && (i <? zlen l) then nth_error l (Z.to_nat i) else None.

Definition slc {A} (lo hi : Z) (l : list A) : option (list A) :=
  if (0 <=? lo) && (lo <=? hi) && (hi <=? zlen l)
  then Some (zfirstn (hi - lo) (zskipn lo l)) else None.

(* A Go slice as (backing array, len), and what append(s[:i], s[i+1:]...) does
   to it: elements i+1..len-1 are copied one slot down inside the same array,
   the last slot keeps its old value, len drops by one.  Used only to justify
   (Proofs: sl_delete_view) that the list-level deletion [a ++ b] in [inner]
   is what the code computes; the stale slot is beyond len. *)
Definition sl_view {A} (s : list A * Z) : list A := zfirstn (snd s) (fst s).
Definition sl_delete {A} (s : list A * Z) (i : Z) : list A * Z :=
  (zfirstn i (fst s) ++ zfirstn (snd s - i - 1) (zskipn (i + 1) (fst s)) ++ zskipn (snd s - 1) (fst s),
   snd s - 1).

Fixpoint set_nth {A} (n : nat) (x : A) (l : list A) : list A :=
  match l with
  | [] => []
  | y :: r => match n with O => x :: r | S k => y :: set_nth k x r end
  end.

Fixpoint map_nth {A} (n : nat) (g : A -> A) (l : list A) : list A :=
  match l with
  | [] => []
  | y :: r => match n with O => g y :: r | S k => y :: map_nth k g r end
  end.

Fixpoint remove_nth {A} (n : nat) (l : list A) : list A :=
  match l with
  | [] => []
  | y :: r => match n with O => r | S k => y :: remove_nth k r end
  end.

Definition memz (x : Z) (l : list Z) : bool := existsb (Z.eqb x) l.

(* ---- find.go ---- *)

(* Find.Run over the tree: the matching files at every depth, in pre-order *)
Definition find (p : file -> bool) (img : image) : list file := filter p (flat img).

Definition guid_pred (g : Z) (f : file) : bool := f_guid f =? g.   (* FindFileGUIDPredicate *)
Definition type_pred (t : Z) (f : file) : bool := f_type f =? t.   (* FindFileTypePredicate *)
(* FindFilePredicate(<string of GUID g>), the predicate of the `remove` command:
   Find.Visit matches the file itself when its GUID string matches, otherwise
   the file once if one of its UI sections' names matches.  The cleaner does
   not use it (it removes by FindFileGUIDPredicate); the Remove operation of
   the correspondence check does. *)
Definition file_pred (g : Z) (f : file) : bool :=
  (f_guid f =? g) || match f_ui f with Some u => u =? g | None => false end.

(* ---- uefi.CreatePadFile: header fields only ---- *)
Definition create_pad (pol size nx : Z) : outcome file :=
  if size <? file_header_min_length then Err E_PADSIZE
  else if pol =? 255 then Ok (mkFile nx ff_guid fv_filetype_pad size None [])
  else if pol =? 0 then Ok (mkFile nx zero_guid fv_filetype_pad size None [])
  else Err E_PADPOL.

(* ---- remove.go ---- *)

(* The Undo closure chain: head = the closure Undo points to; each closure
   holds (volume, originalList) and its [prev] is the tail; [] = nil.
   The volume (a *FirmwareVolume) is given by its address: [vi] is the vi-th
   volume of the list at hand; vi :: fi :: a is address a among the nested
   volumes of file fi of volume vi. *)
Definition addr := list nat.
Definition undo := list (addr * list file).

(* f.Files = originalList for the volume at the address *)
Fixpoint set_at (a : addr) (o : list file) (vs : list volume) {struct a} : list volume :=
  match a with
  | [] => vs
  | vi :: a1 =>
    map_nth vi (fun fs =>
      match a1 with
      | [] => o
      | fi :: a2 => map_nth fi (fun f => with_kids f (set_at a2 o (f_kids f))) fs
      end) vs
  end.

(* remove.Undo() *)
Definition call_undo (img : image) (u : undo) : outcome (image * undo) :=
  match u with
  | [] => Panic P_NILUNDO
  | (a, orig) :: prev => Ok (set_at a orig img, prev)
  end.

(* for remove.Undo != nil { remove.Undo() } *)
Fixpoint unwind (img : image) (u : undo) : image :=
  match u with
  | [] => img
  | (a, orig) :: prev => unwind (set_at a orig img) prev
  end.

(* for _, m := range v.Matches { if f.Files[i] == m { ... } }
   at a fixed i of the enclosing loop; returns the (possibly decremented) i.
   [u] collects the saved lists of this volume, latest first. *)
Fixpoint inner (var : variant) (pol : Z) (pad : bool) (ms : list Z)
               (i : Z) (fs : list file) (u : list (list file)) (nx : Z)
  : outcome (Z * list file * list (list file) * Z) :=
  match ms with
  | [] => Ok (i, fs, u, nx)
  | m :: ms' =>
    do x <- of_opt P_INDEX (idx i fs);
    if f_id x =? m then
      let orig := fs in                        (* append([]*uefi.File{}, f.Files...) *)
      do r <- (if pad || (f_type x =? fv_filetype_peim) then
                 do pf <- create_pad pol (f_size x) nx;
                 Ok (i, set_nth (Z.to_nat i) pf fs, nx + 1)
               else
                 do a <- of_opt P_SLICE (slc 0 i fs);
                 do b <- of_opt P_SLICE (slc (i + 1) (zlen fs) fs);
                 Ok ((if v_index var then i - 1 else i), a ++ b, nx));
      let u' := orig :: u in
      if v_index var then Ok (fst (fst r), snd (fst r), u', snd r)      (* break *)
      else inner var pol pad ms' (fst (fst r)) (snd (fst r)) u' (snd r)
    else inner var pol pad ms' i fs u nx
  end.

(* for i := 0; i < len(f.Files); i++ *)
Fixpoint outer (fuel : nat) (var : variant) (pol : Z) (pad : bool) (ms : list Z)
               (i : Z) (fs : list file) (u : list (list file)) (nx : Z)
  : outcome (list file * list (list file) * Z) :=
  match fuel with
  | O => Fuel
  | S k =>
    if i <? zlen fs then
      do r <- inner var pol pad ms i fs u nx;
      outer k var pol pad ms (fst (fst (fst r)) + 1) (snd (fst (fst r))) (snd (fst r)) (snd r)
    else Ok (fs, u, nx)
  end.

(* the two loops of Remove.Visit on one volume's list *)
Definition visit_loop var pol pad ms (fs : list file) (nx : Z) :=
  outer (S (length fs)) var pol pad ms 0 fs [] nx.

Definition pfx (n : nat) (c : addr * list file) : addr * list file := (n :: fst c, snd c).

(* f.ApplyChildren(v) of a volume: each file, its sections, their volumes.
   [rec] visits a list of nested volumes; what it pushed is addressed below
   file fi.  Later pushes are nearer the head. *)
Fixpoint visit_files (rec : list volume -> Z -> outcome (list volume * undo * Z))
                     (fi : nat) (fl : list file) (nx : Z) : outcome (list file * undo * Z) :=
  match fl with
  | [] => Ok ([], [], nx)
  | f :: r =>
    do a <- rec (f_kids f) nx;
    do b <- visit_files rec (S fi) r (snd a);
    Ok (with_kids f (fst (fst a)) :: fst (fst b),
        snd (fst b) ++ map (pfx fi) (snd (fst a)), snd b)
  end.

(* Remove.Visit on one volume: the loops, then the descent into what is left.
   Addresses are relative to the volume: [] is the volume itself *)
Definition visit_one (rec : list volume -> Z -> outcome (list volume * undo * Z))
                     var pol pad ms (fs : list file) (nx : Z) : outcome (list file * undo * Z) :=
  do a <- visit_loop var pol pad ms fs nx;
  do k <- visit_files rec 0 (fst (fst a)) (snd a);
  Ok (fst (fst k), snd (fst k) ++ map (fun o => ([], o)) (snd (fst a)), snd k).

(* ApplyChildren over a list of volumes, in order; an error aborts the walk *)
Fixpoint visit_seq (rec : list volume -> Z -> outcome (list volume * undo * Z))
                   var pol pad (ms : list Z) (vi : nat) (vs : list volume) (nx : Z)
  : outcome (list volume * undo * Z) :=
  match vs with
  | [] => Ok ([], [], nx)
  | fs :: r =>
    do a <- visit_one rec var pol pad ms fs nx;
    do b <- visit_seq rec var pol pad ms (S vi) r (snd a);
    Ok (fst (fst a) :: fst (fst b), snd (fst b) ++ map (pfx vi) (snd (fst a)), snd b)
  end.

(* the whole descent; [d] bounds the nesting depth still to be entered *)
Fixpoint visit_vols (d : nat) var pol pad (ms : list Z) (vs : list volume) (nx : Z) {struct d}
  : outcome (list volume * undo * Z) :=
  match vs with
  | [] => Ok ([], [], nx)
  | _ =>
    match d with
    | O => Fuel
    | S d' => visit_seq (visit_vols d' var pol pad ms) var pol pad ms 0 vs nx
    end
  end.

(* Remove{Predicate: p, Pad: pad}.Run(f) with a fresh visitor (Undo == nil) *)
Definition remove_run var pol pad (p : file -> bool) (img : image) (nx : Z)
  : outcome (image * undo * Z) :=
  visit_vols (S (vdepth img)) var pol pad (map f_id (find p img)) img nx.

(* ---- dxecleaner.go ---- *)

Definition testres := (bool * Z)%type.
Definition oracle := nat -> image -> testres.
Definition entry := (Z * image * testres)%type.     (* candidate, image shown, answer *)

Definition accepted (r : testres) : bool := fst r && (snd r =? 0).
Definition canceled (r : testres) : bool := snd r =? 1.

Record cstate := mkC {
  c_img : image;
  c_nx : Z;
  c_dxes : list Z;       (* dxes *)
  c_rem : list Z;        (* v.Removals *)
  c_i : nat;             (* inner loop index *)
  c_more : bool;         (* moreRoundsNeeded *)
  c_log : list entry     (* ghost: calls of Test so far, oldest first *)
}.

(* the candidate list; Run fails when it is empty.  The control point "before
   the first round" (moreRoundsNeeded = true, no inner loop running) is the
   same as "inner loop finished with moreRoundsNeeded = true": i = len(dxes) *)
Definition cand_guids (pred : file -> bool) (img : image) : list Z := map f_guid (find pred img).

Definition init (pred : file -> bool) (img : image) (nx : Z) : outcome cstate :=
  let dxes := cand_guids pred img in
  match dxes with
  | [] => Err E_NODXES
  | _ => Ok (mkC img nx dxes [] (length dxes) true [])
  end.

(* one evaluation of a loop condition plus, if the inner loop goes on, one
   iteration of its body.  Result: (true, final state) when Run returns nil *)
Definition step (var : variant) (orc : oracle) (pol : Z) (c : cstate) : outcome (bool * cstate) :=
  if (c_i c <? length (c_dxes c))%nat then
    do g <- of_opt P_DXES (nth_error (c_dxes c) (c_i c));
    do r <- remove_run var pol false (guid_pred g) (c_img c) (c_nx c);
    let img' := fst (fst r) in
    let u := snd (fst r) in
    let nx' := snd r in
    let t := orc (length (c_log c)) img' in
    let log' := c_log c ++ [(g, img', t)] in
    if snd t =? 1 then                                  (* err == context.Canceled *)
      Ok (true, mkC (if v_cancel var then unwind img' u else img') nx'
                    (c_dxes c) (c_rem c) (c_i c) (c_more c) log')
    else if fst t && negb (snd t =? 0) then Err E_TEST  (* removedSuccessfully && err != nil *)
    else if fst t then                                  (* removedSuccessfully *)
      Ok (false, mkC img' nx' (remove_nth (c_i c) (c_dxes c)) (c_rem c ++ [g]) (c_i c) true log')
    else if v_unwind var then
      Ok (false, mkC (unwind img' u) nx' (c_dxes c) (c_rem c) (S (c_i c)) (c_more c) log')
    else
      do w <- call_undo img' u;                         (* remove.Undo() *)
      Ok (false, mkC (fst w) nx' (c_dxes c) (c_rem c) (S (c_i c)) (c_more c) log')
  else if c_more c then
    Ok (false, mkC (c_img c) (c_nx c) (c_dxes c) (c_rem c) O false (c_log c))
  else Ok (true, c).

Fixpoint run (fuel : nat) (var : variant) (orc : oracle) (pol : Z) (c : cstate) : outcome cstate :=
  match fuel with
  | O => Fuel
  | S k =>
    do r <- step var orc pol c;
    if fst r then Ok (snd r) else run k var orc pol (snd r)
  end.

(* steps that suffice for n candidates *)
Definition clean_fuel (n : nat) : nat := S (S n * S n).

Definition dxe_clean (var : variant) (orc : oracle) (pol : Z) (pred : file -> bool)
                     (img : image) (nx : Z) : outcome cstate :=
  do c0 <- init pred img nx;
  run (clean_fuel (length (c_dxes c0))) var orc pol c0.

(* ---- specification-side definitions used by the theorems ---- *)

(* the tree without the files that [keepf] rejects, at every depth (a rejected
   file goes with everything nested in it); order preserved.  [keepf] looks at
   header fields only. *)
Fixpoint prune_file (keepf : file -> bool) (f : file) : file :=
  with_kids f (map (fun v => filter keepf (map (prune_file keepf) v)) (f_kids f)).
Definition prune (keepf : file -> bool) (img : image) : image :=
  map (fun v => filter keepf (map (prune_file keepf) v)) img.

(* the image without every file whose GUID is g / is in gs *)
Definition remove_guid (g : Z) (img : image) : image :=
  prune (fun f => negb (f_guid f =? g)) img.
Definition minus_guids (gs : list Z) (img : image) : image :=
  prune (fun f => negb (memz (f_guid f) gs)) img.

Definition guid_of (e : entry) : Z := fst (fst e).
Definition shown_of (e : entry) : image := snd (fst e).
Definition answer_of (e : entry) : testres := snd e.
Definition accepted_guids (tr : list entry) : list Z :=
  map guid_of (filter (fun e => accepted (answer_of e)) tr).

Fixpoint nodupz (l : list Z) : bool :=
  match l with
  | [] => true
  | x :: r => negb (memz x r) && nodupz r
  end.

(* file objects are distinct, and no file that would be padded instead of
   deleted (PEIM) carries the GUID of a candidate — at every depth *)
Definition wf_image (pred : file -> bool) (img : image) : bool :=
  nodupz (map f_id (flat img)) &&
  forallb (fun f => negb ((f_type f =? fv_filetype_peim) && memz (f_guid f) (cand_guids pred img)))
          (flat img).

(* a tester that boots iff every GUID of [req] is present *)
Definition present (g : Z) (img : image) : bool := existsb (fun f => f_guid f =? g) (flat img).

(* the files that stay whatever is done to files with a GUID in [bad]: those
   that are not below (or equal to) such a file *)
Fixpoint safe_file (bad : Z -> bool) (f : file) : list file :=
  if bad (f_guid f) then []
  else f :: concat (map (fun v => concat (map (safe_file bad) v)) (f_kids f)).
Definition safe_flat (bad : Z -> bool) (img : image) : list file :=
  concat (map (fun v => concat (map (safe_file bad) v)) img).
Definition safe_present (bad : Z -> bool) (g : Z) (img : image) : bool :=
  existsb (fun f => f_guid f =? g) (safe_flat bad img).
(* every required GUID has an occurrence that is not nested in a candidate
   outside the required set (removing such candidates cannot take it away) *)
Definition req_safe (pred : file -> bool) (req : list Z) (img : image) : bool :=
  forallb (fun r => safe_present (fun g => memz g (cand_guids pred img) && negb (memz g req)) r img) req.
Definition boots_iff (req : list Z) : oracle :=
  fun _ img => (forallb (fun g => present g img) req, 0).

(* an oracle given by a finite script; afterwards it rejects *)
Definition script_oracle (s : list testres) : oracle :=
  fun k _ => nth k s (false, 0).
