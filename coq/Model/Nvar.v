(* Model/Nvar.v — executable model of AMI NVAR stores (property C10).

   Transcribes, from /repo:
     pkg/uefi/nvram.go        NewNVarStore, newNVar, parseHeader, parseNext,
                              parseExtendedHeader, parseDataOnly, parseGUID,
                              getGUIDFromStore, parseName, parseContent,
                              NVar.Assemble, GetGUIDStoreBuf, IsValid
     pkg/uefi/uefi.go         IsErased, Erase, Read3Size, Write3Size
     pkg/unicode/ucs2.go      UCS2ToUTF8, UTF8ToUCS2 (the wrappers; the
                              golang.org/x/text transformer underneath is the
                              pair of Section variables [dec16]/[enc16])
     pkg/visitors/assemble.go the *uefi.NVarStore and *uefi.NVar cases
     pkg/visitors/nvramcompact.go   compactNVarStore, NVRamCompact.Visit
     pkg/visitors/nvarinvalidate.go NVarInvalidate with a name-equality predicate
                              (Find does not descend into a variable's nested store)

   The flag [fx] selects the repaired code (true; fixes/C10-*.diff) or the code
   as it is in the pinned tree (false): (1) parseHeader rejects Size < 10,
   (2) UCS2ToUTF8 tolerates an empty result, (3) parseName looks for the CHAR16
   terminator at even offsets only.

   Not modelled: JSON, ExtractPath, log output, the File/FirmwareVolume wrapping
   of a store (the store is handed to NewNVarStore directly), the regular
   expression layer of FindNVarPredicate (names are compared for equality).
   uefi.Attributes.ErasePolarity is the explicit parameter [pol].
   Nested stores (a variable whose content parses as a store) are modelled with
   the recursion depth bounded by the fuel.
   [run_ops] is a sequence of visitors applied to one parsed tree without
   re-parsing in between (utk rom nvram-compact invalidate_nvar X nvram-compact save). *)
From Fiano Require Import Base.Bytes Gen.Consts.
From Coq Require Import Sorting.Sorted.
Open Scope Z_scope.

(* ---------- golang.org/x/text UTF-16LE transformer, concretely ----------
   Used to instantiate [dec16]/[enc16] for execution (Extract/C10.v); the
   theorems quantify over any pair satisfying the stated round-trip hypothesis. *)

Definition utf8_enc (r : Z) : bytes :=
  if r <? 128 then [r]
  else if r <? 2048 then [192 + r / 64; 128 + r mod 64]
  else if r <? 65536 then [224 + r / 4096; 128 + (r / 64) mod 64; 128 + r mod 64]
  else [240 + r / 262144; 128 + (r / 4096) mod 64; 128 + (r / 64) mod 64; 128 + r mod 64].

Definition rune_error : Z := 65533.
Definition is_surr (x : Z) : bool := (55296 <=? x) && (x <=? 57343).
Definition is_trail (x : Z) : bool := (56320 <=? x) && (x <=? 57343).

(* utf16Decoder.Transform with atEOF = true, little endian, IgnoreBOM *)
Fixpoint dec16_impl (src : bytes) : bytes :=
  match src with
  | [] => []
  | [_] => utf8_enc rune_error
  | lo :: hi :: rest =>
    let x := lo + 256 * hi in
    if is_surr x then
      match rest with
      | lo2 :: hi2 :: rest2 =>
        let y := lo2 + 256 * hi2 in
        if is_trail y then
          utf8_enc (if x <? 56320 then (x - 55296) * 1024 + (y - 56320) + 65536 else rune_error)
            ++ dec16_impl rest2
        else utf8_enc rune_error ++ dec16_impl rest
      | _ => utf8_enc rune_error ++ dec16_impl rest
      end
    else utf8_enc x ++ dec16_impl rest
  end.

Definition cont_ok (b : Z) : bool := (128 <=? b) && (b <=? 191).

(* utf8.DecodeRune: (rune, size) *)
Definition utf8_dec (p : bytes) : Z * Z :=
  match p with
  | [] => (rune_error, 0)
  | p0 :: t =>
    if p0 <? 128 then (p0, 1) else
    let bad := (rune_error, 1) in
    let '(sz, lo, hi) :=
      if p0 <? 194 then (0, 0, 0)
      else if p0 <? 224 then (2, 128, 191)
      else if p0 =? 224 then (3, 160, 191)
      else if p0 =? 237 then (3, 128, 159)
      else if p0 <? 240 then (3, 128, 191)
      else if p0 =? 240 then (4, 144, 191)
      else if p0 <? 244 then (4, 128, 191)
      else if p0 =? 244 then (4, 128, 143)
      else (0, 0, 0) in
    if sz =? 0 then bad else
    if zlen p <? sz then bad else
    match t with
    | b1 :: t1 =>
      if (b1 <? lo) || (hi <? b1) then bad else
      if sz =? 2 then ((p0 mod 32) * 64 + b1 mod 64, 2) else
      match t1 with
      | b2 :: t2 =>
        if negb (cont_ok b2) then bad else
        if sz =? 3 then ((p0 mod 16) * 4096 + (b1 mod 64) * 64 + b2 mod 64, 3) else
        match t2 with
        | b3 :: _ =>
          if negb (cont_ok b3) then bad else
          ((p0 mod 8) * 262144 + (b1 mod 64) * 4096 + (b2 mod 64) * 64 + b3 mod 64, 4)
        | [] => bad
        end
      | [] => bad
      end
    | [] => bad
    end
  end.

Definition le16 (x : Z) : bytes := [x mod 256; x / 256].

(* utf16Encoder.Transform with atEOF = true, little endian, no BOM *)
Fixpoint enc16_fuel (fuel : nat) (src : bytes) : bytes :=
  match fuel with
  | O => []
  | S f =>
    match src with
    | [] => []
    | _ =>
      let '(r, sz) := utf8_dec src in
      (if r <=? 65535 then le16 r
       else le16 (55296 + (r - 65536) / 1024) ++ le16 (56320 + (r - 65536) mod 1024))
        ++ enc16_fuel f (zskipn sz src)
    end
  end.
Definition enc16_impl (src : bytes) : bytes := enc16_fuel (length src) src.

(* ---------- data ---------- *)

Record extinfo := mkExt {
  x_off : Z; x_attrs : option Z; x_cksum : option Z; x_expect : option Z;
  x_ts : option Z; x_hash : option bytes; x_unknown : bool }.
Definition no_ext : extinfo := mkExt 0 None None None None None false.

Inductive nvar : Type :=
| mkNVar (size next attrs : Z) (guid : bytes) (gidx : option Z) (name : bytes)
         (type off nextoff : Z) (buf : bytes) (dataoff : Z) (ext : extinfo)
         (sub : option nstore)
with nstore : Type :=
| mkStore (entries : list nvar) (guids : list bytes) (sbuf : bytes) (free goff len : Z).

Definition v_size (v : nvar) := let 'mkNVar a _ _ _ _ _ _ _ _ _ _ _ _ := v in a.
Definition v_next (v : nvar) := let 'mkNVar _ a _ _ _ _ _ _ _ _ _ _ _ := v in a.
Definition v_attrs (v : nvar) := let 'mkNVar _ _ a _ _ _ _ _ _ _ _ _ _ := v in a.
Definition v_guid (v : nvar) := let 'mkNVar _ _ _ a _ _ _ _ _ _ _ _ _ := v in a.
Definition v_gidx (v : nvar) := let 'mkNVar _ _ _ _ a _ _ _ _ _ _ _ _ := v in a.
Definition v_name (v : nvar) := let 'mkNVar _ _ _ _ _ a _ _ _ _ _ _ _ := v in a.
Definition v_type (v : nvar) := let 'mkNVar _ _ _ _ _ _ a _ _ _ _ _ _ := v in a.
Definition v_off (v : nvar) := let 'mkNVar _ _ _ _ _ _ _ a _ _ _ _ _ := v in a.
Definition v_nextoff (v : nvar) := let 'mkNVar _ _ _ _ _ _ _ _ a _ _ _ _ := v in a.
Definition v_buf (v : nvar) := let 'mkNVar _ _ _ _ _ _ _ _ _ a _ _ _ := v in a.
Definition v_dataoff (v : nvar) := let 'mkNVar _ _ _ _ _ _ _ _ _ _ a _ _ := v in a.
Definition v_ext (v : nvar) := let 'mkNVar _ _ _ _ _ _ _ _ _ _ _ a _ := v in a.
Definition v_sub (v : nvar) := let 'mkNVar _ _ _ _ _ _ _ _ _ _ _ _ a := v in a.

Definition s_entries (s : nstore) := let 'mkStore a _ _ _ _ _ := s in a.
Definition s_guids (s : nstore) := let 'mkStore _ a _ _ _ _ := s in a.
Definition s_buf (s : nstore) := let 'mkStore _ _ a _ _ _ := s in a.
Definition s_free (s : nstore) := let 'mkStore _ _ _ a _ _ := s in a.
Definition s_goff (s : nstore) := let 'mkStore _ _ _ _ a _ := s in a.
Definition s_len (s : nstore) := let 'mkStore _ _ _ _ _ a := s in a.

Definition set_type (t : Z) (v : nvar) : nvar :=
  let 'mkNVar a b c d e f _ h i j k l m := v in mkNVar a b c d e f t h i j k l m.
Definition set_sub (s : option nstore) (v : nvar) : nvar :=
  let 'mkNVar a b c d e f g h i j k l _ := v in mkNVar a b c d e f g h i j k l s.

Definition ATTR (a m : Z) : bool := negb (Z.land a m =? 0).

Definition is_valid_type (t : Z) : bool :=
  (t =? nvar_type_link) || (t =? nvar_type_data) || (t =? nvar_type_full).
Definition is_valid (v : nvar) : bool := is_valid_type (v_type v).

Definition zero_guid : bytes := zrepeat 0 nvar_guid_size.

Definition name_invalid : bytes := [73; 110; 118; 97; 108; 105; 100].
Definition name_invalid_link : bytes := name_invalid ++ [32; 108; 105; 110; 107].
Definition name_invalid_ext : bytes := name_invalid ++ [32; 69; 120; 116; 72; 101; 97; 100; 101; 114].

(* error classes; an error of NewNVarStore is reported as class + 8 * offset *)
Definition E_EOF : Z := 1.        (* io.EOF / io.ErrUnexpectedEOF from header, GUID or name *)
Definition E_SIG : Z := 2.        (* NVAR Signature not found *)
Definition E_BIG : Z := 3.        (* NVAR Size bigger than remaining size *)
Definition E_SMALL : Z := 4.      (* NVAR Size smaller than header size (repaired code only) *)
Definition E_POL : Z := 5.        (* erase polarity not 0x00 or 0xFF *)
Definition E_DATAOFF : Z := 6.    (* Assemble: NVAR header size mismatch *)
Definition E_SIZE : Z := 7.       (* Assemble: NVAR size mismatch *)
Definition E_FIT : Z := 10.       (* Assemble: NVAR store too small (variables + GUID store exceed Length) *)

Definition at_off {A} (off : Z) (o : outcome A) : outcome A :=
  match o with Err e => Err (e + 8 * off) | x => x end.

Definition is_erased (pol : Z) (b : bytes) : bool := forallb (fun c => c =? pol) b.

(* first NUL byte; first NUL CHAR16 at an even offset *)
Fixpoint find_nul (b : bytes) : option Z :=
  match b with
  | [] => None
  | x :: r => if x =? 0 then Some 0 else
              match find_nul r with Some i => Some (i + 1) | None => None end
  end.

Fixpoint find_nul16 (b : bytes) : option Z :=
  match b with
  | x :: y :: r => if (x =? 0) && (y =? 0) then Some 0 else
                   match find_nul16 r with Some i => Some (i + 2) | None => None end
  | _ => None
  end.

Definition last_byte (b : bytes) : option Z :=
  match rev b with [] => None | l :: _ => Some l end.

(* getGUIDFromStore: GUID k of the table is the 16 bytes ending 16*k before the
   end of the store buffer; the table is discovered on demand *)
Definition get_guid (sbuf : bytes) (guids : list bytes) (i : Z) : bytes * list bytes :=
  let i1 := (i + 1) mod 256 in                      (* uint8 arithmetic: i+1 wraps *)
  let n := zlen guids in
  let guids' :=
    if n <? i1 then
      if zlen sbuf - nvar_guid_size * i1 <? 0 then guids   (* Seek fails: zero GUID *)
      else guids ++ map (fun k => sub (zlen sbuf - nvar_guid_size * (Z.of_nat k + 1)) nvar_guid_size sbuf)
                        (seq (Z.to_nat n) (Z.to_nat (i1 - n)))
    else guids in
  (if zlen guids' <=? i then zero_guid else nth (Z.to_nat i) guids' zero_guid, guids').

(* the checksum loop of parseExtendedHeader: bytes 4,5 and 9..Size-1 *)
Definition cksum_calc (size : Z) (buf : bytes) : Z :=
  (sum_list (sub 4 2 buf) + sum_list (sub 9 (size - 9) buf)) mod 256.

(* parseExtendedHeader; Err = the entry becomes "Invalid ExtHeader" *)
Definition parse_ext (attrs size : Z) (buf : bytes) (dataoff : Z) : outcome extinfo :=
  if negb (ATTR attrs nvar_attr_ext) then Ok no_ext else
  if zlen buf <? 2 then Err 1 else
  let extsize := rd (zlen buf - 2) 2 buf in
  if size - dataoff <? extsize then Err 2 else
  let extoff := size - extsize in
  if zlen buf <=? extoff then Err 3 else
  do xa <- of_opt 22 (index extoff buf);
  do ck <- (if ATTR xa nvar_ext_checksum then
              do st <- of_opt 21 (index (size - 3) buf);
              let c := cksum_calc size buf in
              Ok (Some st, if c =? 0 then None else Some (256 - c))
            else Ok (None, None));
  if negb (ATTR attrs nvar_attr_auth) then
    if zlen buf <? extoff + 9 then Err 4 else
    (* the timestamp is read but never stored in the NVar *)
    if ATTR attrs nvar_attr_dataonly then
      let hs := extoff + 9 in
      if size <? hs + 32 then Err 5 else
      do h <- of_opt 23 (slice hs (hs + 32) buf);
      Ok (mkExt extoff (Some xa) (fst ck) (snd ck) None (Some h) false)
    else Ok (mkExt extoff (Some xa) (fst ck) (snd ck) None None false)
  else Ok (mkExt extoff (Some xa) (fst ck) (snd ck) None None (negb (ATTR xa nvar_ext_checksum))).

(* parseNext: (type, NextOffset) *)
Definition parse_next (pol off next : Z) : outcome (Z * Z) :=
  if pol =? 255 then
    Ok (if next =? 16777215 then (nvar_type_full, 0) else (nvar_type_link, off + next))
  else if pol =? 0 then
    Ok (if next =? 0 then (nvar_type_full, 0) else (nvar_type_link, off + next))
  else Err E_POL.

(* parseDataOnly's search: the first valid earlier entry whose link targets [off] *)
Definition find_link (off : Z) (entries : list nvar) : option nvar :=
  find (fun l => is_valid l && (v_nextoff l =? off)) entries.

Section Codec.
Variable dec16 : bytes -> bytes.   (* transform.Bytes(UTF16(LE,IgnoreBOM).NewDecoder(), .) *)
Variable enc16 : bytes -> bytes.   (* transform.Bytes(UTF16(LE,IgnoreBOM).NewEncoder(), .) *)

Definition ucs2_to_utf8 (fx : bool) (input : bytes) : outcome bytes :=
  let out := dec16 input in
  match last_byte out with
  | None => if fx then Ok out else Panic 20       (* output[len(output)-1] on empty output *)
  | Some l => if l =? 0 then Ok (removelast out) else Ok out
  end.

Definition utf8_to_ucs2 (name : bytes) : bytes := enc16 (name ++ [0]).

(* parseName: (name, bytes consumed) *)
Definition parse_name (fx : bool) (attrs : Z) (namebuf : bytes) : outcome (bytes * Z) :=
  if ATTR attrs nvar_attr_ascii then
    match find_nul namebuf with
    | None => Err E_EOF
    | Some e => Ok (zfirstn e namebuf, e + 1)
    end
  else
    match (if fx then find_nul16 namebuf else find_sub [0; 0] namebuf) with
    | None => Err E_EOF
    | Some e => do n <- ucs2_to_utf8 fx (zfirstn e namebuf); Ok (n, e + 2)
    end.

(* newNVar.  [nested] is NewNVarStore for the content (recursion through fuel).
   None = the remaining space is erased. *)
Definition new_nvar (fx : bool) (pol : Z) (nested : bytes -> outcome nstore)
           (buf : bytes) (off : Z) (sbuf : bytes) (entries : list nvar) (guids : list bytes)
  : outcome (option (nvar * list bytes)) :=
  if is_erased pol buf then Ok None else
  (* parseHeader *)
  if zlen buf <? nvar_header_size then Err E_EOF else
  if negb (bytes_eqb (sub 0 4 buf) nvar_signature) then Err E_SIG else
  let size := rd 4 2 buf in
  let next := rd 6 3 buf in
  let attrs := rd 9 1 buf in
  if fx && (size <? nvar_header_size) then Err E_SMALL else
  if zlen buf <? size then Err E_BIG else
  do vbuf <- of_opt 2 (slice 0 size buf);
  let hsz := nvar_header_size in
  if negb (ATTR attrs nvar_attr_valid) then
    Ok (Some (mkNVar size next attrs zero_guid None name_invalid nvar_type_invalid off 0 vbuf hsz no_ext None, guids))
  else
  do tn <- parse_next pol off next;
  let '(t0, nextoff) := tn in
  match parse_ext attrs size vbuf hsz with
  | Panic p => Panic p
  | Fuel => Fuel
  | Err _ =>
    Ok (Some (mkNVar size next attrs zero_guid None name_invalid_ext nvar_type_invalid off nextoff vbuf hsz no_ext None, guids))
  | Ok ext =>
    do r <- (if ATTR attrs nvar_attr_dataonly then
               match find_link off entries with
               | Some l => Ok (v_guid l, None, v_name l, (if nextoff =? 0 then nvar_type_data else t0), hsz, guids)
               | None => Ok (zero_guid, None, name_invalid_link, nvar_type_invalid_link, hsz, guids)
               end
             else
               (* parseGUID *)
               do gb <- of_opt 3 (slice hsz (zlen vbuf) vbuf);
               do g <- (if ATTR attrs nvar_attr_guid then
                          if zlen gb <? nvar_guid_size then Err E_EOF
                          else Ok (zfirstn nvar_guid_size gb, None, hsz + nvar_guid_size, guids)
                        else
                          match gb with
                          | [] => Err E_EOF
                          | i :: _ => let '(g, guids') := get_guid sbuf guids i in
                                      Ok (g, Some i, hsz + 1, guids')
                          end);
               let '(g, gi, d1, guids') := g in
               (* parseName *)
               do nb <- of_opt 4 (slice d1 (zlen vbuf) vbuf);
               do nm <- parse_name fx attrs nb;
               Ok (g, gi, fst nm, t0, d1 + snd nm, guids'));
    let '(g, gi, nm, t, d, guids') := r in
    (* parseContent *)
    do content <- of_opt 5 (slice d (zlen vbuf) vbuf);
    do sub <- (if zlen content <? 4 then Ok None else
               if negb (prefixb nvar_signature content) then Ok None else
               match nested content with
               | Ok s => Ok (Some s)
               | Err _ => Ok None
               | Panic p => Panic p
               | Fuel => Fuel
               end);
    Ok (Some (mkNVar size next attrs g gi nm t off nextoff vbuf d ext sub, guids'))
  end.

(* NewNVarStore's loop *)
Fixpoint walk (fx : bool) (pol : Z) (fuel : nat) (sbuf : bytes) (free goff : Z)
         (entries : list nvar) (guids : list bytes) {struct fuel} : outcome nstore :=
  match fuel with
  | O => Fuel
  | S f =>
    if free <? goff then
      do buf <- of_opt 1 (slice free goff sbuf);
      do r <- at_off free (new_nvar fx pol (fun c => walk fx pol f c 0 (zlen c) [] []) buf free sbuf entries guids);
      match r with
      | None => Ok (mkStore entries guids sbuf free goff (zlen sbuf))
      | Some (v, guids') =>
        walk fx pol f sbuf (free + v_size v) (zlen sbuf - nvar_guid_size * zlen guids')
             (entries ++ [v]) guids'
      end
    else Ok (mkStore entries guids sbuf free goff (zlen sbuf))
  end.

Definition parse_store_gen (fx : bool) (pol : Z) (buf : bytes) : outcome nstore :=
  walk fx pol (S (length buf)) buf 0 (zlen buf) [] [].

Definition parse_store := parse_store_gen true.

(* ---------- Assemble ---------- *)

Definition write3 (pol nextoff off : Z) : bytes :=
  if nextoff =? 0 then [pol; pol; pol] else
  let d := (nextoff - off) mod 2 ^ 64 in
  if 16777215 <=? d then [255; 255; 255] else le_enc 3 d.

(* NVar.Assemble(content, checkOnly) *)
Definition nvar_assemble (pol : Z) (v : nvar) (content : bytes) (check_only : bool) : outcome nvar :=
  if negb (is_valid v) then Err 8 else
  if negb (v_nextoff v =? 0) && negb check_only then Err 9 else
  let nx := write3 pol (v_nextoff v) (v_off v) in
  let hdr := nvar_signature ++ le_enc 2 (v_size v) ++ nx ++ [v_attrs v] in
  do gpart <- (if ATTR (v_attrs v) nvar_attr_dataonly then Ok [] else
               do g <- (if ATTR (v_attrs v) nvar_attr_guid then Ok (v_guid v)
                        else match v_gidx v with Some i => Ok [i] | None => Panic 10 end);
               Ok (g ++ (if ATTR (v_attrs v) nvar_attr_ascii then v_name v ++ [0]
                         else utf8_to_ucs2 (v_name v))));
  let pre := hdr ++ gpart in
  if check_only && negb (v_dataoff v =? zlen pre) then Err E_DATAOFF else
  let all := pre ++ content in
  let sz16 := zlen all mod 2 ^ 16 in
  if check_only && negb (v_size v =? sz16) then Err E_SIZE else
  Ok (mkNVar sz16 (le_dec nx) (v_attrs v) (v_guid v) (v_gidx v) (v_name v) (v_type v) (v_off v)
             (v_nextoff v) all (zlen pre) (v_ext v) (v_sub v)).

Fixpoint map_out {A B} (f : A -> outcome B) (l : list A) : outcome (list B) :=
  match l with
  | [] => Ok []
  | a :: r => do b <- f a; do rs <- map_out f r; Ok (b :: rs)
  end.

(* visitors.Assemble on an NVarStore (children first) *)
Fixpoint asm_store (pol : Z) (d : nat) (s : nstore) {struct d} : outcome nstore :=
  match d with
  | O => Fuel
  | S d' =>
    let asm_nvar (v : nvar) : outcome nvar :=
      do sub' <- (match v_sub v with
                  | None => Ok None
                  | Some ns => do ns' <- asm_store pol d' ns; Ok (Some ns')
                  end);
      let v := set_sub sub' v in
      if is_valid v then
        do content <- (match sub' with
                       | None => of_opt 11 (slice (v_dataoff v) (zlen (v_buf v)) (v_buf v))
                       | Some ns => Ok (s_buf ns)
                       end);
        nvar_assemble pol v content true
      else Ok v in
    do es <- map_out asm_nvar (s_entries s);
    let nvdata := concat (map v_buf es) in
    let free := zlen nvdata in
    let gsl := nvar_guid_size * zlen (s_guids s) in
    (* guidStoreLen > f.Length || nvLen > f.Length-guidStoreLen: "NVAR store too small" *)
    if (s_len s <? gsl) || (s_len s - gsl <? free) then Err E_FIT else
    let goff := s_len s - gsl in
    let gap := goff - free in
    Ok (mkStore es (s_guids s) (nvdata ++ zrepeat pol gap ++ concat (rev (s_guids s)))
                free goff (s_len s))
  end.

(* ---------- nvram-compact ---------- *)

Fixpoint lookup (k : Z) (m : list (Z * nvar)) : option nvar :=
  match m with
  | [] => None
  | (k', v) :: r => if k =? k' then Some v else lookup k r
  end.

(* first loop of compactNVarStore: the map linkedNVar and keepEntries *)
Fixpoint pass1 (es : list nvar) (m : list (Z * nvar)) : list (Z * nvar) * list nvar :=
  match es with
  | [] => (m, [])
  | v :: r =>
    if negb (is_valid v) then pass1 r m else
    let h := match lookup (v_off v) m with Some h => h | None => v end in
    if negb (v_nextoff v =? 0) then pass1 r ((v_nextoff v, h) :: m)
    else let '(m', keep) := pass1 r ((v_off v, h) :: m) in (m', v :: keep)
  end.

Fixpoint glookup (g : bytes) (m : list (bytes * Z)) : option Z :=
  match m with
  | [] => None
  | (g', i) :: r => if bytes_eqb g g' then Some i else glookup g r
  end.

(* second loop: rebuilt entries and the new GUID store *)
Fixpoint rebuild (pol : Z) (keep : list nvar) (m : list (Z * nvar)) (offset : Z)
         (gstore : list bytes) (gmap : list (bytes * Z)) : outcome (list nvar * list bytes) :=
  match keep with
  | [] => Ok ([], gstore)
  | k :: r =>
    do h <- of_opt 30 (lookup (v_off k) m);
    let '(gi, gstore', gmap') :=
      if ATTR (v_attrs h) nvar_attr_guid then (None, gstore, gmap) else
      match glookup (v_guid h) gmap with
      | Some i => (Some i, gstore, gmap)
      | None => let i := zlen gstore mod 256 in
                (Some i, gstore ++ [v_guid h], (v_guid h, i) :: gmap)
      end in
    let v0 := mkNVar (v_size h) (v_next h) (v_attrs h) (v_guid h) gi (v_name h)
                     nvar_type_full offset 0 [] 0 no_ext (v_sub k) in
    do content <- of_opt 31 (slice (v_dataoff k) (zlen (v_buf k)) (v_buf k));
    do v <- nvar_assemble pol v0 content false;
    do rr <- rebuild pol r m (offset + zlen (v_buf v)) gstore' gmap';
    Ok (v :: fst rr, snd rr)
  end.

Fixpoint compact_store (pol : Z) (d : nat) (s : nstore) {struct d} : outcome nstore :=
  match d with
  | O => Fuel
  | S d' =>
    do es <- map_out (fun v => match v_sub v with
                               | None => Ok v
                               | Some ns => do ns' <- compact_store pol d' ns; Ok (set_sub (Some ns') v)
                               end) (s_entries s);
    let '(m, keep) := pass1 es [] in
    do nr <- rebuild pol keep m 0 [] [];
    asm_store pol d (mkStore (fst nr) (snd nr) (s_buf s) (s_free s) (s_goff s) (s_len s))
  end.

(* ---------- invalidate_nvar with an exact-name predicate ---------- *)

Definition invalidate (n : bytes) (s : nstore) : nstore :=
  mkStore (map (fun v => if bytes_eqb (v_name v) n then set_type nvar_type_invalid v else v) (s_entries s))
          (s_guids s) (s_buf s) (s_free s) (s_goff s) (s_len s).

(* ---------- a command line: several visitors on the same in-memory tree ---------- *)

Inductive op : Type :=
| OpCompact                 (* nvram-compact *)
| OpInvalidate (n : bytes)  (* invalidate_nvar n *)
| OpAssemble.               (* what save does before writing: visitors.Assemble *)

Fixpoint run_ops (pol : Z) (d : nat) (ops : list op) (s : nstore) : outcome nstore :=
  match ops with
  | [] => Ok s
  | o :: r =>
    do s' <- (match o with
              | OpCompact => compact_store pol d s
              | OpInvalidate n => Ok (invalidate n s)
              | OpAssemble => asm_store pol d s
              end);
    run_ops pol d r s'
  end.

End Codec.

(* ---------- specification-side definitions used by the theorems ---------- *)

(* An abstract store: what a writer of the format means.  [emit] is the
   reference serialiser; "well formed" = in the image of [emit] on a store
   satisfying [wf_store]. *)
Inductive aname := NAscii (s : bytes) | NUcs2 (u : bytes).   (* u: UCS-2LE code units, no terminator *)
Inductive agref := GInline (g : bytes) | GIndex (i : Z).
Inductive aentry :=
| AFull (attrs next : Z) (g : agref) (n : aname) (data : bytes)  (* valid, carries GUID and name *)
| AData (attrs next : Z) (data : bytes)                          (* valid, data-only *)
| ADead (attrs next : Z) (body : bytes).                         (* valid bit clear *)
Record astore := mkAStore { a_entries : list aentry; a_free : Z; a_table : list bytes }.

Definition ae_attrs (e : aentry) : Z :=
  match e with AFull a _ _ _ _ => a | AData a _ _ => a | ADead a _ _ => a end.
Definition ae_next (e : aentry) : Z :=
  match e with AFull _ n _ _ _ => n | AData _ n _ => n | ADead _ n _ => n end.
Definition name_bytes (n : aname) : bytes :=
  match n with NAscii s => s ++ [0] | NUcs2 u => u ++ [0; 0] end.
Definition gref_bytes (g : agref) : bytes :=
  match g with GInline g => g | GIndex i => [i] end.
Definition ae_body (e : aentry) : bytes :=
  match e with
  | AFull _ _ g n d => gref_bytes g ++ name_bytes n ++ d
  | AData _ _ d => d
  | ADead _ _ b => b
  end.
Definition ae_size (e : aentry) : Z := nvar_header_size + zlen (ae_body e).
Definition emit_header (size next attrs : Z) : bytes :=
  nvar_signature ++ le_enc 2 size ++ le_enc 3 next ++ [attrs].
Definition emit_entry (e : aentry) : bytes :=
  emit_header (ae_size e) (ae_next e) (ae_attrs e) ++ ae_body e.
Definition emit_entries (l : list aentry) : bytes := concat (map emit_entry l).
Definition emit (pol : Z) (s : astore) : bytes :=
  emit_entries (a_entries s) ++ zrepeat pol (a_free s) ++ concat (rev (a_table s)).

(* UCS-2 names the round trip is claimed for: BMP, no NUL, no surrogates *)
Fixpoint bmp_ok (u : bytes) : bool :=
  match u with
  | [] => true
  | lo :: hi :: r =>
    byte_ok lo && byte_ok hi && negb (lo + 256 * hi =? 0) && negb (is_surr (lo + 256 * hi)) && bmp_ok r
  | _ => false
  end.

Definition nonzero_bytes (s : bytes) : bool := forallb (fun b => (0 <? b) && (b <? 256)) s.

Definition wf_name (n : aname) : bool :=
  match n with NAscii s => nonzero_bytes s | NUcs2 u => bmp_ok u end.
Definition is_ascii (n : aname) : bool := match n with NAscii _ => true | NUcs2 _ => false end.
Definition is_inline (g : agref) : bool := match g with GInline _ => true | GIndex _ => false end.
Definition wf_gref (ntable : Z) (g : agref) : bool :=
  match g with
  | GInline g => bytes_ok g && (zlen g =? nvar_guid_size)
  | GIndex i => (0 <=? i) && (i <? ntable)
  end.

(* the content must not look like a nested store (the theorems do not cover those) *)
Definition no_nested (d : bytes) : bool := negb (prefixb nvar_signature d).

Definition ext_ok (e : aentry) : bool :=
  is_ok (parse_ext (ae_attrs e) (ae_size e) (emit_entry e) nvar_header_size).

Definition wf_entry (ntable : Z) (e : aentry) : bool :=
  (0 <=? ae_attrs e) && (ae_attrs e <? 256) && (0 <=? ae_next e) && (ae_next e <? 2 ^ 24) &&
  (ae_size e <? 2 ^ 16) &&
  match e with
  | AFull a _ g n d =>
    ATTR a nvar_attr_valid && negb (ATTR a nvar_attr_dataonly) &&
    Bool.eqb (ATTR a nvar_attr_ascii) (is_ascii n) && Bool.eqb (ATTR a nvar_attr_guid) (is_inline g) &&
    (negb (ext_ok e) || wf_gref ntable g) && wf_name n && bytes_ok d && no_nested d &&
    match g with GInline g => bytes_ok g && (zlen g =? nvar_guid_size) | GIndex i => byte_ok i end
  | AData a _ d => ATTR a nvar_attr_valid && ATTR a nvar_attr_dataonly && bytes_ok d && no_nested d
  | ADead a _ b => negb (ATTR a nvar_attr_valid) && bytes_ok b
  end.

(* number of table GUIDs the parser has discovered after these entries *)
Fixpoint discovered (k : Z) (l : list aentry) : Z :=
  match l with
  | [] => k
  | e :: r =>
    discovered (match e with
                | AFull _ _ (GIndex i) _ _ => if ext_ok e then Z.max k (i + 1) else k
                | _ => k
                end) r
  end.

Definition first_next_ok (pol : Z) (l : list aentry) : bool :=
  match l with
  | e :: _ => negb (ATTR (ae_attrs e) nvar_attr_valid) || negb ((pol =? 255) && (ae_next e =? 0))
  | [] => true
  end.

(* length of [emit pol s]; Go cannot hold a slice anywhere near 2^47 bytes, the
   bound only keeps the model's uint64 arithmetic (Write3Size(NextOffset - Offset))
   away from its wrap *)
Definition store_len (s : astore) : Z :=
  sum_list (map ae_size (a_entries s)) + a_free s + nvar_guid_size * zlen (a_table s).

Definition wf_store (pol : Z) (s : astore) : bool :=
  ((pol =? 0) || (pol =? 255)) && (store_len s <? 2 ^ 47) &&
  forallb (wf_entry (zlen (a_table s))) (a_entries s) &&
  forallb (fun g => bytes_ok g && (zlen g =? nvar_guid_size)) (a_table s) &&
  (zlen (a_table s) <=? 255) &&
  (discovered 0 (a_entries s) =? zlen (a_table s)) &&
  first_next_ok pol (a_entries s) &&
  (0 <=? a_free s).

(* The meaning of an abstract store, computed without looking at bytes: what
   NewNVarStore is expected to return on [emit pol s] (theorem parse_emit). *)
Section Interp.
Variable dec16 : bytes -> bytes.

Definition name_utf8 (n : aname) : bytes :=
  match n with NAscii s => s | NUcs2 u => dec16 u end.

Definition next_of (pol off next : Z) : Z * Z :=
  if (if pol =? 255 then next =? 16777215 else next =? 0)
  then (nvar_type_full, 0) else (nvar_type_link, off + next).

Definition interp_entry (pol : Z) (table : list bytes) (e : aentry) (off : Z)
           (prev : list nvar) (k : Z) : nvar * Z :=
  let size := ae_size e in
  let buf := emit_entry e in
  let hsz := nvar_header_size in
  match e with
  | ADead a n _ =>
    (mkNVar size n a zero_guid None name_invalid nvar_type_invalid off 0 buf hsz no_ext None, k)
  | _ =>
    let '(t0, nextoff) := next_of pol off (ae_next e) in
    match parse_ext (ae_attrs e) size buf hsz with
    | Ok ext =>
      match e with
      | AFull a n g nm d =>
        let '(gv, gi, k') :=
          match g with
          | GInline gb => (gb, None, k)
          | GIndex i => (nth (Z.to_nat i) table zero_guid, Some i, Z.max k (i + 1))
          end in
        (mkNVar size n a gv gi (name_utf8 nm) t0 off nextoff buf
                (hsz + zlen (gref_bytes g) + zlen (name_bytes nm)) ext None, k')
      | _ =>
        match find_link off prev with
        | Some l =>
          (mkNVar size (ae_next e) (ae_attrs e) (v_guid l) None (v_name l)
                  (if nextoff =? 0 then nvar_type_data else t0) off nextoff buf hsz ext None, k)
        | None =>
          (mkNVar size (ae_next e) (ae_attrs e) zero_guid None name_invalid_link
                  nvar_type_invalid_link off nextoff buf hsz ext None, k)
        end
      end
    | _ =>
      (mkNVar size (ae_next e) (ae_attrs e) zero_guid None name_invalid_ext nvar_type_invalid
              off nextoff buf hsz no_ext None, k)
    end
  end.

Fixpoint interp_entries (pol : Z) (table : list bytes) (l : list aentry) (off : Z)
         (prev : list nvar) (k : Z) : list nvar * Z :=
  match l with
  | [] => (prev, k)
  | e :: r =>
    let '(v, k') := interp_entry pol table e off prev k in
    interp_entries pol table r (off + ae_size e) (prev ++ [v]) k'
  end.

Definition interp (pol : Z) (s : astore) : nstore :=
  let '(es, k) := interp_entries pol (a_table s) (a_entries s) 0 [] 0 in
  let b := emit pol s in
  mkStore es (zfirstn k (a_table s)) b (zlen (emit_entries (a_entries s)))
          (zlen b - nvar_guid_size * k) (zlen b).

End Interp.

(* ---------- specification of compaction ---------- *)

Definition content (v : nvar) : bytes := zskipn (v_dataoff v) (v_buf v).
Definition is_tail (v : nvar) : bool := is_valid v && (v_nextoff v =? 0).
Definition tails (es : list nvar) : list nvar := filter is_tail es.

(* the live variables of a parsed store: one per chain end, in the order of the
   chain ends; GUID and name are those every member of the chain carries *)
Definition live (s : nstore) : list (bytes * bytes * bytes) :=
  map (fun v => (v_guid v, v_name v, content v)) (tails (s_entries s)).

(* (head, tail) of every chain, the head being what compactNVarStore's map holds *)
Definition heads_tails (es : list nvar) : list (nvar * nvar) :=
  let '(m, keep) := pass1 es [] in
  map (fun k => (match lookup (v_off k) m with Some h => h | None => k end, k)) keep.

Fixpoint gpos (g : bytes) (store : list bytes) : option Z :=
  match store with
  | [] => None
  | x :: r => if bytes_eqb g x then Some 0 else
              match gpos g r with Some i => Some (i + 1) | None => None end
  end.

(* GUID indices in first-use order, and the rebuilt table *)
Fixpoint assign_gidx (hts : list (nvar * nvar)) (gstore : list bytes) : list (option Z) * list bytes :=
  match hts with
  | [] => ([], gstore)
  | (h, _) :: r =>
    if ATTR (v_attrs h) nvar_attr_guid then
      let '(l, g') := assign_gidx r gstore in (None :: l, g')
    else
      match gpos (v_guid h) gstore with
      | Some i => let '(l, g') := assign_gidx r gstore in (Some i :: l, g')
      | None => let '(l, g') := assign_gidx r (gstore ++ [v_guid h]) in (Some (zlen gstore) :: l, g')
      end
  end.

Definition erased_next (pol : Z) : Z := le_dec [pol; pol; pol].

Section CompactSpec.
Variable enc16 : bytes -> bytes.

(* GUID-or-index and name bytes of a rebuilt entry *)
Definition gpart_bytes (h : nvar) (gi : option Z) : bytes :=
  (if ATTR (v_attrs h) nvar_attr_guid then v_guid h
   else match gi with Some i => [i] | None => [] end) ++
  (if ATTR (v_attrs h) nvar_attr_ascii then v_name h ++ [0] else utf8_to_ucs2 enc16 (v_name h)).

Definition rebuilt_size (h k : nvar) (gi : option Z) : Z :=
  nvar_header_size + zlen (gpart_bytes h gi) + zlen (content k).

(* the entry compaction leaves for the chain (h .. k) at [offset] *)
Definition final_entry (pol : Z) (h k : nvar) (gi : option Z) (offset : Z) : nvar :=
  let gp := gpart_bytes h gi in
  let size := rebuilt_size h k gi in
  mkNVar size (erased_next pol) (v_attrs h) (v_guid h) gi (v_name h) nvar_type_full offset 0
         (emit_header size (erased_next pol) (v_attrs h) ++ gp ++ content k)
         (nvar_header_size + zlen gp) no_ext None.

Fixpoint final_entries (pol : Z) (hts : list (nvar * nvar)) (gis : list (option Z)) (offset : Z) : list nvar :=
  match hts, gis with
  | (h, k) :: r, gi :: gr =>
    final_entry pol h k gi offset :: final_entries pol r gr (offset + rebuilt_size h k gi)
  | _, _ => []
  end.

(* what nvram-compact turns a parsed store into *)
Definition compacted (pol : Z) (s : nstore) : nstore :=
  let hts := heads_tails (s_entries s) in
  let '(gis, table) := assign_gidx hts [] in
  let es := final_entries pol hts gis 0 in
  let data := concat (map v_buf es) in
  let goff := s_len s - nvar_guid_size * zlen table in
  mkStore es table (data ++ zrepeat pol (goff - zlen data) ++ concat (rev table))
          (zlen data) goff (s_len s).

(* ---- side conditions of the compaction theorems (each needed: see the
   refuted witnesses in Properties/C10.v) ---- *)

(* link structure of the parsed entries *)
Record chains_ok (es : list nvar) : Prop := mkChainsOk {
  co_sorted : StronglySorted (fun a b => v_off a < v_off b) es;
  co_forward : forall l, In l es -> is_valid l = true -> v_nextoff l <> 0 -> v_off l < v_nextoff l;
  co_link : forall l v, In l es -> In v es -> is_valid l = true -> is_valid v = true ->
            v_nextoff l <> 0 -> v_nextoff l = v_off v ->
            v_guid l = v_guid v /\ v_name l = v_name v;
  co_heads : forall v, In v es -> is_valid v = true ->
             (forall l, In l es -> is_valid l = true -> v_nextoff l <> 0 -> v_nextoff l <> v_off v) ->
             ATTR (v_attrs v) nvar_attr_dataonly = false;
  co_plain : forall v, In v es ->
             v_sub v = None /\ 0 <= v_dataoff v <= zlen (v_buf v) /\ zlen (v_guid v) = nvar_guid_size
}.

Definition compact_fits (pol : Z) (s : nstore) : Prop :=
  let hts := heads_tails (s_entries s) in
  let '(gis, table) := assign_gidx hts [] in
  (pol = 0 \/ pol = 255) /\
  Forall2 (fun ht gi => rebuilt_size (fst ht) (snd ht) gi < 2 ^ 16) hts gis /\
  zlen table <= 255 /\
  sum_list (map v_size (final_entries pol hts gis 0)) + nvar_guid_size * zlen table <= s_len s /\
  s_len s < 2 ^ 47.

End CompactSpec.

(* ---------- the compacted store as an abstract store (for the re-parse) ---------- *)
Section CompactAbs.
Variables dec16 enc16 : bytes -> bytes.

Definition ucs2_of_name (name : bytes) : bytes := removelast (removelast (enc16 (name ++ [0]))).
Definition aname_of (h : nvar) : aname :=
  if ATTR (v_attrs h) nvar_attr_ascii then NAscii (v_name h) else NUcs2 (ucs2_of_name (v_name h)).
Definition gref_of (h : nvar) (gi : option Z) : agref :=
  if ATTR (v_attrs h) nvar_attr_guid then GInline (v_guid h)
  else GIndex (match gi with Some i => i | None => 0 end).
Definition aentry_of (pol : Z) (h k : nvar) (gi : option Z) : aentry :=
  AFull (v_attrs h) (erased_next pol) (gref_of h gi) (aname_of h) (content k).

Fixpoint aentries_of (pol : Z) (hts : list (nvar * nvar)) (gis : list (option Z)) : list aentry :=
  match hts, gis with
  | (h, k) :: r, gi :: gr => aentry_of pol h k gi :: aentries_of pol r gr
  | _, _ => []
  end.

Definition acompacted (pol : Z) (s : nstore) : astore :=
  let hts := heads_tails (s_entries s) in
  let '(gis, table) := assign_gidx hts [] in
  let es := aentries_of pol hts gis in
  mkAStore es (s_len s - zlen (emit_entries es) - nvar_guid_size * zlen table) table.

(* a name the re-parse reads back unchanged *)
Definition name_ok (h : nvar) : Prop :=
  if ATTR (v_attrs h) nvar_attr_ascii then nonzero_bytes (v_name h) = true
  else exists u, bmp_ok u = true /\ v_name h = dec16 u.

(* what the re-parse of the compacted store needs of every (head, tail, index):
   attribute byte with the valid bit, a re-readable name, byte-valued content
   that is not itself a store, and a rebuilt entry whose extended header (head's
   attribute bits, tail's bytes) is valid *)
Definition reparse_ok (pol : Z) (s : nstore) : Prop :=
  let hts := heads_tails (s_entries s) in
  let '(gis, table) := assign_gidx hts [] in
  Forall2 (fun ht gi =>
             let h := fst ht in let k := snd ht in
             0 <= v_attrs h < 256 /\ ATTR (v_attrs h) nvar_attr_valid = true /\ name_ok h /\
             bytes_ok (content k) = true /\ no_nested (content k) = true /\
             bytes_ok (v_guid h) = true /\ ext_ok (aentry_of pol h k gi) = true) hts gis.

End CompactAbs.
