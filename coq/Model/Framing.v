(* Model/Framing.v — what pkg/compression wraps around the third-party codecs.
   Transcribes: ZLIB.Encode / ZLIB.Decode (zlib.go: the 256-byte section header
   with the compressed size, little endian, at offset 20; the two checks of
   Decode), SystemLZMA.Encode (systemlzma.go: the uncompressed size written
   over bytes 5..12 of what `xz --format=lzma` printed), SystemLZMA.Decode
   (= LZMA.Decode), LZMAX86.Encode / Decode (x86.go: the branch filter of
   Model/Bcj.v around an inner Compressor).
   The compression cores are NOT modelled: compress/zlib, ulikunitz/xz/lzma,
   the external xz program and pierrec/lz4 are the section variables below
   (functions from bytes to an outcome); the theorems state which behaviour
   of them they assume.  LZMA.Encode is modelled as repaired by
   fixes/C08-lzma-empty.diff: the library writer is asked for an end marker
   exactly when the input is empty, and the true size is written over bytes
   5..12 of its output.  LZMA.Decode and LZ4.Encode / LZ4.Decode are calls of
   the libraries and nothing else, so there is nothing of them to model.
   zlib_header_size / zlib_size_offset come from Gen.Consts (recovered from the
   output of ZLIB.Encode, the Go constants are unexported).  The offsets 5 and
   13 of the .lzma header are literals in systemlzma.go as they are here. *)
From Fiano Require Import Base.Bytes Gen.Consts Model.Bcj.
Open Scope Z_scope.

Definition E_ZLIB_NOHEADER : Z := 1.   (* "Zlib.Decode: missing section header" *)
Definition E_ZLIB_SIZE : Z := 2.       (* "ZLIB.Decode: size mismatch" *)
Definition E_CODEC : Z := 3.           (* whatever the library / xz reported *)

Definition lzma_size_off : Z := 5.
Definition lzma_header_len : Z := 13.

(* A history of calls of one Encode (or Decode) function, every result retained
   by the caller: the Go functions are modelled as functions of their argument
   only - no state kept between calls, no buffer shared between results - so
   the results of a history are the function applied to each argument.  The
   correspondence compares whole histories (results observed after the last
   call) against this. *)
Definition call_history {A B : Type} (f : A -> B) (xs : list A) : list B := map f xs.

Section Framing.
  (* compress/zlib: NewWriterLevel(9) + Write + Close into a bytes.Buffer (cannot fail);
     NewReader + ReadAll *)
  Variable zl_enc : bytes -> bytes.
  Variable zl_dec : bytes -> outcome bytes.
  (* the inner Compressor of LZMAX86 (LZMA or SystemLZMA), and the LZMA reader *)
  Variable c_enc : bytes -> outcome bytes.
  Variable c_dec : bytes -> outcome bytes.
  (* `xz --format=lzma -7 --stdout` *)
  Variable xz_run : bytes -> outcome bytes.
  (* ulikunitz/xz/lzma: WriterConfig{SizeInHeader: true, Size: len, EOSMarker: eos,
     LC 3 / LP 0 / PB 2, DictCap 1<<24}.NewWriter + io.Copy + Close *)
  Variable lz_run : bool -> bytes -> outcome bytes.

  (* zlib_header := make([]byte, 256); PutUint32(zlib_header[20:], uint32(len(compressed)));
     append(zlib_header, compressed...) *)
  Definition zlib_header (clen : Z) : bytes :=
    splice zlib_size_offset (le_enc 4 (u32 clen)) (zrepeat 0 zlib_header_size).

  Definition zlib_encode (x : bytes) : outcome bytes :=
    let c := zl_enc x in Ok (zlib_header (zlen c) ++ c).

  Definition zlib_decode (e : bytes) : outcome bytes :=
    if zlen e <? zlib_header_size then Err E_ZLIB_NOHEADER
    else
      do f <- of_opt 1 (slice zlib_size_offset (zlib_size_offset + 4) e);
      if negb (le_dec f =? u32 (zlen e - zlib_header_size)) then Err E_ZLIB_SIZE
      else
        do body <- of_opt 2 (slice zlib_header_size (zlen e) e);
        zl_dec body.

  (* encodedData[5:5+8] <- le64(len(decodedData)): slicing past the capacity
     panics; the buffers are modelled with cap = len *)
  Definition patch_size (x e : bytes) : outcome bytes :=
    if zlen e <? lzma_header_len then Panic 3
    else Ok (splice lzma_size_off (le_enc 8 (zlen x mod 2 ^ 64)) e).

  Definition syslzma_encode (x : bytes) : outcome bytes :=
    do e <- xz_run x; patch_size x e.

  Definition lzma_encode (x : bytes) : outcome bytes :=
    do e <- lz_run (zlen x =? 0) x; patch_size x e.

  Definition lzmax86_encode (x : bytes) : outcome bytes :=
    do r <- x86_convert true 0 0 x;
    let '(d, _, _) := r in c_enc d.

  Definition lzmax86_decode (e : bytes) : outcome bytes :=
    do d <- c_dec e;
    do r <- x86_convert false 0 0 d;
    let '(d', _, _) := r in Ok d'.
End Framing.
