(* Model/Amd.v — executable model of pkg/amd/manifest and pkg/amd/psb (property C17).

   Transcribes
     manifest/checksum.go    fletcherCRC32, CalculatePSPDirectoryCheckSum, CalculateBiosDirectoryCheckSum
     manifest/internal.go    readAndCountSize (binary.Read from a bytes.Buffer + byte counting)
     manifest/psp_directory_table.go   ParsePSPDirectoryTableEntry, ParsePSPDirectoryTable, FindPSPDirectoryTable
     manifest/bios_directory_table.go  ParseBIOSDirectoryTableEntry, ParseBIOSDirectoryTable, FindBIOSDirectoryTable
     manifest/embedded_firmware_structure.go  FindEmbeddedFirmwareStructure, ParseEmbeddedFirmwareStructure
     manifest/firmware.go    FirmwareImage.PhysAddrToOffset, parsePSPFirmware (= NewAMDFirmware)
     psb/util.go             checkBoundaries
     psb/entries.go          GetPSPEntries, GetPSPEntry, GetBIOSEntry, GetRangeBytes, ExtractPSPEntry,
                             ExtractBIOSEntry, PatchPSPEntry, PatchBIOSEntry, patchEntry
     psb/biosentries.go      getBIOSTable, IsPSBEnabled   (psb/pspentries.go getPSPTable)
     psb/keys.go             newTokenOrRootKey, NewRootKey, readExponent, readModulus,
                             GetPlatformBindingInfo/parsePlatformBinding,
                             GetSecurityFeatureVector/parseSecurityFeatureVector

   The model is of the code WITH the two repairs of /verif/fixes/C17-*.diff:
     - keys.go: bits 4:7 / bit 1 / bit 2 are taken with [>>] as the in-source comments say
       (the tree has [<<], which makes the two flags constantly false and the model id [b<<3]);
       the 3-bit mask [&7] on the key revision is modelled as written;
     - embedded_firmware_structure.go: the probe test is [offset > len || len-offset < 4]
       (the tree has [offset+4 > len], which wraps for image lengths 2^32-anchor-k, k=1..4, and
       then panics in image[offset:]).

   Conventions: a bytes.Buffer is the list of its unread bytes; every Go slice expression is a
   checked [slice] giving [Panic]; loops over a decoded count are structural on that count, the
   cookie scan and the outer Fletcher loop run on explicit fuel.

   Not modelled: String() methods, the allocation [make([]BIOSDirectoryTableEntry,0,TotalEntries)]
   (bounded by the preceding length check), GetBIOSEntries' sort by instance (GetBIOSEntry's
   answer does not depend on the order: it demands exactly one entry of the instance), key
   database / token keys / signatures (RSA).  The Firmware interface enters as its address map
   [p2o]; FirmwareImage's map is [phys_to_off], the harness' small-image map is [shifted_map].
   In fletcherCRC32 the index arithmetic [i]/[i<len(data)] is rendered as pairing the bytes into
   little-endian words ([words]); the word count equals the number of inner-loop iterations. *)
From Fiano Require Import Base.Bytes Gen.Consts.
Open Scope Z_scope.

Definition two16 : Z := 65536.
Definition two32 : Z := 4294967296.
Definition two64 : Z := 18446744073709551616.

(* ---------------------------------------------------------------- *)
(* 1. Fletcher-32, block-deferred reduction, all arithmetic uint32   *)
(* ---------------------------------------------------------------- *)

(* val := uint16(data[i]); if i+1 < len { val += uint16(data[i+1]) << 8 } *)
Fixpoint words (b : bytes) : list Z :=
  match b with
  | [] => []
  | [x] => [x]
  | x :: y :: r => (x + 256 * y) :: words r
  end.

(* c0 = c0 + uint32(val); c1 = c1 + c0   (uint32: wraps at 2^32) *)
Definition fl_step (st : Z * Z) (w : Z) : Z * Z :=
  let c0 := (fst st + w) mod two32 in (c0, (snd st + c0) mod two32).

Definition fl_block (ws : list Z) (st : Z * Z) : Z * Z := fold_left fl_step ws st.

(* for l > 0 { blockLen := min(l, 720); ...inner loop over blockLen/2 words...; c0 %= 65535; c1 %= 65535 } *)
Fixpoint fl_blocks (fuel : nat) (ws : list Z) (st : Z * Z) : outcome (Z * Z) :=
  match ws with
  | [] => Ok st
  | _ :: _ =>
    match fuel with
    | O => Fuel
    | S f =>
      let st' := fl_block (firstn 360 ws) st in
      fl_blocks f (skipn 360 ws) (fst st' mod 65535, snd st' mod 65535)
    end
  end.

(* return c1<<16 | c0 *)
Definition fletcher32 (data : bytes) : outcome Z :=
  let ws := words data in
  do st <- fl_blocks (length ws) ws (0, 0);
  Ok (Z.lor (Z.shiftl (snd st) 16 mod two32) (fst st)).

(* CalculatePSPDirectoryCheckSum / CalculateBiosDirectoryCheckSum: fletcherCRC32(raw[8:]) *)
Definition dir_checksum (raw : bytes) : outcome Z :=
  do d <- of_opt 1 (slice 8 (zlen raw) raw);
  fletcher32 d.

(* ---------------------------------------------------------------- *)
(* 2. binary.Read from a bytes.Buffer                                 *)
(* ---------------------------------------------------------------- *)

Definition E_EOF : Z := 1.          (* io.EOF: nothing left *)
Definition E_UEOF : Z := 2.         (* io.ErrUnexpectedEOF: fewer bytes than the value needs *)
Definition E_COOKIE : Z := 3.       (* incorrect cookie *)
Definition E_NOTENOUGH : Z := 4.    (* not enough data *)
Definition E_SIG : Z := 5.          (* EFS: incorrect signature *)
Definition E_EFS_NOTFOUND : Z := 6. (* EmbeddedFirmwareStructure is not found *)
Definition E_TABLE_NOTFOUND : Z := 7.
Definition E_NOTFOUND : Z := 8.     (* psb.ErrNotFound *)
Definition E_INVALID : Z := 9.      (* psb.ErrInvalidFormat *)
Definition E_LEVEL : Z := 10.       (* invalid directory level requested *)
Definition E_USAGE : Z := 11.       (* not a PSBSignBios key usage flag *)

(* io.ReadFull of n > 0 bytes from the buffer: it obtains min(n, available) bytes;
   EOF when that is nothing, ErrUnexpectedEOF when it is fewer than n *)
Definition read_n (n : Z) (r : bytes) : outcome (bytes * bytes) :=
  let got := zlen (zfirstn n r) in
  if got =? 0 then Err E_EOF
  else if got <? n then Err E_UEOF
  else Ok (zfirstn n r, zskipn n r).

Definition read_u (n : Z) (r : bytes) : outcome (Z * bytes) :=
  do x <- read_n n r; Ok (le_dec (fst x), snd x).

(* Ok -> Some, error -> None; panics and fuel exhaustion are not errors *)
Definition catch {A} (o : outcome A) : outcome (option A) :=
  match o with
  | Ok a => Ok (Some a)
  | Err _ => Ok None
  | Panic s => Panic s
  | Fuel => Fuel
  end.

(* ---------------------------------------------------------------- *)
(* 3. directory entries and tables                                    *)
(* ---------------------------------------------------------------- *)

Record psp_entry := mkPspEntry {
  pe_type : Z;        (* uint8  @0 *)
  pe_subprogram : Z;  (* uint8  @1 *)
  pe_romid : Z;       (* bits 14:15 of the uint16 @2 *)
  pe_size : Z;        (* uint32 @4 *)
  pe_loc : Z          (* uint64 @8 *)
}.

Record bios_entry := mkBiosEntry {
  be_type : Z;        (* uint8 @0 *)
  be_region : Z;      (* uint8 @1 *)
  be_reset : bool;    (* bit 0 of the byte @2 *)
  be_copy : bool;     (* bit 1 *)
  be_ro : bool;       (* bit 2 *)
  be_compressed : bool; (* bit 3 *)
  be_instance : Z;    (* bits 4:7 *)
  be_subprogram : Z;  (* bits 0:2 of the byte @3 *)
  be_romid : Z;       (* bits 3:4 *)
  be_size : Z;        (* uint32 @4 *)
  be_src : Z;         (* uint64 @8 *)
  be_dst : Z          (* uint64 @16 *)
}.

(* entry.ROMId = uint8(flags>>14) & 0x3 *)
Definition psp_romid (flags : Z) : Z := Z.land ((Z.shiftr flags 14) mod 256) 3.

(* the result triple: value, bytes counted, rest of the buffer *)
Definition parse_psp_entry (r : bytes) : outcome (psp_entry * Z * bytes) :=
  do a <- read_u 1 r;
  do b <- read_u 1 (snd a);
  do f <- read_u 2 (snd b);
  do s <- read_u 4 (snd f);
  do l <- read_u 8 (snd s);
  Ok (mkPspEntry (fst a) (fst b) (psp_romid (fst f)) (fst s) (fst l), 1 + 1 + 2 + 4 + 8, snd l).

(* flags&0x1 != 0, (flags>>1)&0x1 != 0, (flags>>2)&0x1 != 0, (flags>>3)&0x1 != 0, flags>>4 *)
Definition bios_reset (f : Z) : bool := negb (Z.land f 1 =? 0).
Definition bios_copy (f : Z) : bool := negb (Z.land (Z.shiftr f 1) 1 =? 0).
Definition bios_ro (f : Z) : bool := negb (Z.land (Z.shiftr f 2) 1 =? 0).
Definition bios_compressed (f : Z) : bool := negb (Z.land (Z.shiftr f 3) 1 =? 0).
Definition bios_instance (f : Z) : Z := Z.shiftr f 4.
(* flags & 7, (flags>>3) & 0x3 *)
Definition bios_subprogram (f : Z) : Z := Z.land f 7.
Definition bios_romid (f : Z) : Z := Z.land (Z.shiftr f 3) 3.

Definition parse_bios_entry (r : bytes) : outcome (bios_entry * Z * bytes) :=
  do a <- read_u 1 r;
  do b <- read_u 1 (snd a);
  do f <- read_u 1 (snd b);
  do g <- read_u 1 (snd f);
  do s <- read_u 4 (snd g);
  do x <- read_u 8 (snd s);
  do y <- read_u 8 (snd x);
  Ok (mkBiosEntry (fst a) (fst b) (bios_reset (fst f)) (bios_copy (fst f)) (bios_ro (fst f))
                  (bios_compressed (fst f)) (bios_instance (fst f))
                  (bios_subprogram (fst g)) (bios_romid (fst g)) (fst s) (fst x) (fst y),
      1 + 1 + 1 + 1 + 4 + 8 + 8, snd y).

(* both table headers: cookie, checksum, total entries, one more uint32 *)
Record dir_table (E : Type) := mkDir {
  dt_cookie : Z; dt_checksum : Z; dt_total : Z; dt_extra : Z; dt_entries : list E }.
Arguments mkDir {E}.
Arguments dt_cookie {E}. Arguments dt_checksum {E}. Arguments dt_total {E}.
Arguments dt_extra {E}. Arguments dt_entries {E}.

(* for idx := uint32(0); idx < table.TotalEntries; idx++ { entry, length, err := Parse...Entry(r) ... } *)
Fixpoint parse_entries {E} (pe : bytes -> outcome (E * Z * bytes)) (n : nat) (r : bytes)
  : outcome (list E * Z) :=
  match n with
  | O => Ok ([], 0)
  | S k =>
    do x <- pe r;
    do y <- parse_entries pe k (snd x);
    Ok (fst (fst x) :: fst y, snd (fst x) + snd y)
  end.

(* ParsePSPDirectoryTable / ParseBIOSDirectoryTable (same text up to the names):
   c1 c2 the two accepted cookies, esz the ...EntrySize constant used in the length check *)
Definition parse_dir_table {E} (c1 c2 esz : Z) (pe : bytes -> outcome (E * Z * bytes))
  (data : bytes) : outcome (dir_table E * Z) :=
  do ck <- read_u 4 data;
  if negb (fst ck =? c1) && negb (fst ck =? c2) then Err E_COOKIE else
  do cs <- read_u 4 (snd ck);
  do tot <- read_u 4 (snd cs);
  do ex <- read_u 4 (snd tot);
  if zlen (snd ex) <? fst tot * esz then Err E_NOTENOUGH else
  do es <- parse_entries pe (Z.to_nat (fst tot)) (snd ex);
  Ok (mkDir (fst ck) (fst cs) (fst tot) (fst ex) (fst es), 4 + 4 + 4 + 4 + snd es).

Definition psp_table := dir_table psp_entry.
Definition bios_table := dir_table bios_entry.

Definition parse_psp_table : bytes -> outcome (psp_table * Z) :=
  parse_dir_table amd_psp_cookie amd_psp_l2_cookie amd_psp_entry_size_const parse_psp_entry.
Definition parse_bios_table : bytes -> outcome (bios_table * Z) :=
  parse_dir_table amd_bios_cookie amd_bios_l2_cookie amd_bios_entry_size_const parse_bios_entry.

(* FindPSPDirectoryTable / FindBIOSDirectoryTable: scan for the level-1 cookie; a candidate
   that does not parse is skipped by cookie length; result (table, range offset, range length) *)
Fixpoint find_table {T} (parse : bytes -> outcome (T * Z)) (cookie : bytes)
  (fuel : nat) (image : bytes) (offset : Z) : outcome (T * Z * Z) :=
  match fuel with
  | O => Fuel
  | S f =>
    match find_sub cookie image with
    | None => Err E_TABLE_NOTFOUND
    | Some idx =>
      do tail <- of_opt 2 (slice idx (zlen image) image);
      do r <- catch (parse tail);
      match r with
      | Some (t, len) => Ok (t, offset + idx, len)
      | None =>
        do rest <- of_opt 3 (slice (idx + zlen cookie) (zlen image) image);
        find_table parse cookie f rest (offset + (idx + zlen cookie))
      end
    end
  end.

Definition find_psp_table (image : bytes) : outcome (psp_table * Z * Z) :=
  find_table parse_psp_table amd_psp_cookie_bytes (S (length image)) image 0.
Definition find_bios_table (image : bytes) : outcome (bios_table * Z * Z) :=
  find_table parse_bios_table amd_bios_cookie_bytes (S (length image)) image 0.

(* ---------------------------------------------------------------- *)
(* 4. embedded firmware structure                                     *)
(* ---------------------------------------------------------------- *)

Record efs := mkEfs {
  efs_sig : Z;          (* uint32 @0 *)
  efs_res1 : bytes;     (* [16]byte @4 *)
  efs_psp : Z;          (* uint32 @20 *)
  efs_bios0 : Z;        (* uint32 @24 *)
  efs_bios1 : Z;        (* uint32 @28 *)
  efs_bios2 : Z;        (* uint32 @32 *)
  efs_res2 : Z;         (* uint32 @36 *)
  efs_bios3 : Z;        (* uint32 @40 *)
  efs_res3 : bytes      (* [30]byte @44 *)
}.

Definition dec_efs (b : bytes) : efs :=
  mkEfs (rd 0 4 b) (sub 4 16 b) (rd 20 4 b) (rd 24 4 b) (rd 28 4 b) (rd 32 4 b) (rd 36 4 b)
        (rd 40 4 b) (sub 44 30 b).

(* ParseEmbeddedFirmwareStructure on a bytes.Buffer *)
Definition parse_efs (r : bytes) : outcome (efs * Z) :=
  do x <- read_n amd_efs_size r;
  let e := dec_efs (fst x) in
  if efs_sig e =? amd_efs_signature then Ok (e, amd_efs_size) else Err E_SIG.

(* FirmwareImage.PhysAddrToOffset: startAddr := uint64(basePhysAddr - len(img)); physAddr - startAddr *)
Definition phys_to_off (len addr : Z) : Z := (addr - ((two32 - len) mod two64)) mod two64.

(* 0xfffa0000 0xfff20000 0xffe20000 0xffc20000 0xff820000 0xff020000 *)
Definition efs_addresses : list Z :=
  [4294574080; 4294049792; 4293001216; 4290904064; 4286709760; 4278321152].

(* the loop of FindEmbeddedFirmwareStructure; p2o is firmware.PhysAddrToOffset (a method of the
   Firmware interface, result uint64) *)
Fixpoint find_efs_loop (p2o : Z -> Z) (addrs : list Z) (image : bytes) : outcome (efs * Z * Z) :=
  match addrs with
  | [] => Err E_EFS_NOTFOUND
  | a :: rest =>
    let off := p2o a in
    let len := zlen image in
    if (len <? off) || (len - off <? 4) then find_efs_loop p2o rest image else
    do tail <- of_opt 4 (slice off len image);
    do sg <- of_opt 5 (slice 0 4 tail);           (* binary.LittleEndian.Uint32(image[offset:]) *)
    if le_dec sg =? amd_efs_signature then
      do x <- parse_efs tail; Ok (fst x, off, snd x)
    else find_efs_loop p2o rest image
  end.

Definition find_efs_with (p2o : Z -> Z) (image : bytes) : outcome (efs * Z * Z) :=
  find_efs_loop p2o efs_addresses image.

(* with firmware = FirmwareImage(image) *)
Definition find_efs (image : bytes) : outcome (efs * Z * Z) :=
  find_efs_with (phys_to_off (zlen image)) image.

(* another implementation of the Firmware interface, used by the correspondence run to exercise
   discovery on small images: PhysAddrToOffset(p) = p - base (uint64) *)
Definition shifted_map (base addr : Z) : Z := (addr - base) mod two64.

(* ---------------------------------------------------------------- *)
(* 5. parsePSPFirmware                                                *)
(* ---------------------------------------------------------------- *)

(* a directory that was found: table, range offset, range length *)
Definition located (T : Type) : Type := (T * Z * Z)%type.

Record psp_fw := mkFw {
  fw_efs : efs; fw_efs_off : Z; fw_efs_len : Z;
  fw_psp1 : option (located psp_table);
  fw_psp2 : option (located psp_table);
  fw_bios1 : option (located bios_table);
  fw_bios2 : option (located bios_table)
}.

(* parse image[p:] and, when it parses, report it at offset p *)
Definition table_at {T} (parse : bytes -> outcome (T * Z)) (site : Z) (image : bytes) (p : Z)
  : outcome (option (located T)) :=
  do tail <- of_opt site (slice p (zlen image) image);
  do r <- catch (parse tail);
  Ok (match r with Some (t, len) => Some (t, p, len) | None => None end).

Definition psp_level1 (image : bytes) (ptr : Z) : outcome (option (located psp_table)) :=
  do d <- (if negb (ptr =? 0) && (ptr <? (zlen image) mod two32)
           then table_at parse_psp_table 6 image ptr else Ok None);
  match d with
  | Some x => Ok (Some x)
  | None => catch (find_psp_table image)
  end.

(* the first entry of the level-2 type decides; a pointer of 0 or beyond the image gives nothing *)
Definition psp_level2 (image : bytes) (t : psp_table) : outcome (option (located psp_table)) :=
  match find (fun e => pe_type e =? amd_psp_l2_entry_type) (dt_entries t) with
  | None => Ok None
  | Some e =>
    if negb (pe_loc e =? 0) && (pe_loc e <? zlen image)
    then table_at parse_psp_table 7 image (pe_loc e) else Ok None
  end.

(* for _, offset := range biosDirectoryOffsets { if offset == 0 || int(offset) > len(image) { continue } ... } *)
Fixpoint bios_level1_ptrs (ptrs : list Z) (image : bytes) : outcome (option (located bios_table)) :=
  match ptrs with
  | [] => Ok None
  | p :: rest =>
    if (p =? 0) || (zlen image <? p) then bios_level1_ptrs rest image else
    do r <- table_at parse_bios_table 8 image p;
    match r with
    | Some x => Ok (Some x)
    | None => bios_level1_ptrs rest image
    end
  end.

Definition bios_level1 (image : bytes) (e : efs) : outcome (option (located bios_table)) :=
  do d <- bios_level1_ptrs [efs_bios0 e; efs_bios1 e; efs_bios2 e; efs_bios3 e] image;
  match d with
  | Some x => Ok (Some x)
  | None => catch (find_bios_table image)
  end.

Definition bios_level2 (image : bytes) (t : bios_table) : outcome (option (located bios_table)) :=
  match find (fun e => be_type e =? amd_bios_l2_entry_type) (dt_entries t) with
  | None => Ok None
  | Some e =>
    if negb (be_src e =? 0) && (be_src e <? zlen image)
    then table_at parse_bios_table 9 image (be_src e) else Ok None
  end.

Definition parse_firmware_with (p2o : Z -> Z) (image : bytes) : outcome psp_fw :=
  do x <- find_efs_with p2o image;
  let e := fst (fst x) in
  do p1 <- psp_level1 image (efs_psp e);
  do p2 <- match p1 with Some (t, _, _) => psp_level2 image t | None => Ok None end;
  do b1 <- bios_level1 image e;
  do b2 <- match b1 with Some (t, _, _) => bios_level2 image t | None => Ok None end;
  Ok (mkFw e (snd (fst x)) (snd x) p1 p2 b1 b2).

(* NewAMDFirmware(FirmwareImage(image)) *)
Definition parse_firmware (image : bytes) : outcome psp_fw :=
  parse_firmware_with (phys_to_off (zlen image)) image.

(* ---------------------------------------------------------------- *)
(* 6. psb: entries, extraction, patching                              *)
(* ---------------------------------------------------------------- *)

Definition table_of {T} (o : option (located T)) : option T :=
  match o with Some (t, _, _) => Some t | None => None end.

Definition get_psp_table (fw : psp_fw) (level : Z) : outcome (option psp_table) :=
  if level =? 1 then Ok (table_of (fw_psp1 fw))
  else if level =? 2 then Ok (table_of (fw_psp2 fw))
  else Err E_LEVEL.

Definition get_bios_table (fw : psp_fw) (level : Z) : outcome (option bios_table) :=
  if level =? 1 then Ok (table_of (fw_bios1 fw))
  else if level =? 2 then Ok (table_of (fw_bios2 fw))
  else Err E_LEVEL.

Definition get_psp_entries (fw : psp_fw) (level id : Z) : outcome (list psp_entry) :=
  do t <- get_psp_table fw level;
  match t with
  | None => Err E_NOTFOUND
  | Some t => Ok (filter (fun e => pe_type e =? id) (dt_entries t))
  end.

Definition get_psp_entry (fw : psp_fw) (level id : Z) : outcome psp_entry :=
  do es <- get_psp_entries fw level id;
  match es with
  | [] => Err E_NOTFOUND
  | [e] => Ok e
  | _ => Err E_INVALID
  end.

(* GetBIOSEntries then the scan for the instance: exactly one entry of this type and instance *)
Definition get_bios_entry (fw : psp_fw) (level id instance : Z) : outcome bios_entry :=
  do t <- get_bios_table fw level;
  match t with
  | None => Err E_NOTFOUND
  | Some t =>
    match filter (fun e => be_instance e =? instance) (filter (fun e => be_type e =? id) (dt_entries t)) with
    | [] => Err E_NOTFOUND
    | [e] => Ok e
    | _ => Err E_INVALID
    end
  end.

(* checkBoundaries: nil error <-> true *)
Definition check_boundaries (start end_ len : Z) : bool :=
  negb (len <? start) && negb (len <? end_) && negb (end_ <? start).

(* GetRangeBytes: end := start + length (uint64) *)
Definition get_range_bytes (image : bytes) (start length : Z) : outcome bytes :=
  let e := (start + length) mod two64 in
  if check_boundaries start e (zlen image) then of_opt 10 (slice start e image)
  else Err E_INVALID.

Definition extract_psp_entry (fw : psp_fw) (image : bytes) (level id : Z) : outcome bytes :=
  do e <- get_psp_entry fw level id;
  get_range_bytes image (pe_loc e) (pe_size e).

Definition extract_bios_entry (fw : psp_fw) (image : bytes) (level id instance : Z) : outcome bytes :=
  do e <- get_bios_entry fw level id instance;
  get_range_bytes image (be_src e) (be_size e).

(* patchEntry: boundary check, size check, then first section ++ modified ++ second section *)
Definition patch_range (image : bytes) (start end_ : Z) (d : bytes) : outcome bytes :=
  if negb (check_boundaries start end_ (zlen image)) then Err E_INVALID else
  if negb ((end_ - start) mod two64 =? zlen d) then Err E_INVALID else
  do a <- of_opt 11 (slice 0 start image);
  do c <- of_opt 12 (slice end_ (zlen image) image);
  Ok (a ++ d ++ c).

Definition patch_psp_entry (fw : psp_fw) (image : bytes) (level id : Z) (d : bytes) : outcome bytes :=
  do e <- get_psp_entry fw level id;
  patch_range image (pe_loc e) ((pe_loc e + pe_size e) mod two64) d.

Definition patch_bios_entry (fw : psp_fw) (image : bytes) (level id instance : Z) (d : bytes)
  : outcome bytes :=
  do e <- get_bios_entry fw level id instance;
  patch_range image (be_src e) ((be_src e + be_size e) mod two64) d.

(* IsPSBEnabled. checkPSBEnabled ignores its argument and always asks level 2 (as written). *)
Definition is_psb_enabled (fw : psp_fw) : outcome bool :=
  let check :=
    match get_bios_entry fw 2 amd_oem_signing_key_entry 0 with
    | Ok _ => Ok true
    | Err e => if e =? E_NOTFOUND then Ok false else Err e
    | Panic s => Panic s
    | Fuel => Fuel
    end in
  match fw_bios2 fw with
  | Some _ => check
  | None => match fw_bios1 fw with Some _ => check | None => Ok false end
  end.

(* ---------------------------------------------------------------- *)
(* 7. psb: keys                                                       *)
(* ---------------------------------------------------------------- *)

Record key := mkKey {
  k_version : Z;       (* uint32 @0 *)
  k_id : bytes;        (* [16] @4 *)
  k_cert : bytes;      (* [16] @20 *)
  k_usage : Z;         (* uint32 @36 *)
  k_reserved : bytes;  (* [16] @40 *)
  k_expsize : Z;       (* uint32 @56, bits *)
  k_modsize : Z;       (* uint32 @60, bits *)
  k_exponent : bytes;
  k_modulus : bytes
}.

(* every failure inside newTokenOrRootKey is wrapped as ErrInvalidFormat *)
Definition inval {A} (o : outcome A) : outcome A :=
  match o with Err _ => Err E_INVALID | x => x end.

(* binary.Read into make([]byte, n): n = 0 reads nothing and succeeds *)
Definition read_buf (n : Z) (r : bytes) : outcome (bytes * bytes) :=
  if n =? 0 then Ok ([], r) else read_n n r.

Definition new_root_key (blob : bytes) : outcome key :=
  do v <- inval (read_u 4 blob);
  do id <- inval (read_n 16 (snd v));
  do ce <- inval (read_n 16 (snd id));
  do us <- inval (read_u 4 (snd ce));
  do re <- inval (read_n 16 (snd us));
  do es <- inval (read_u 4 (snd re));
  do ms <- inval (read_u 4 (snd es));
  if negb (fst es mod 8 =? 0) then Err E_INVALID else
  do ex <- inval (read_buf (fst es / 8) (snd ms));
  if negb (fst ms mod 8 =? 0) then Err E_INVALID else
  do mo <- inval (read_buf (fst ms / 8) (snd ex));
  if negb (bytes_eqb (fst id) (fst ce)) then Err E_INVALID else
  Ok (mkKey (fst v) (fst id) (fst ce) (fst us) (fst re) (fst es) (fst ms) (fst ex) (fst mo)).

Record binding := mkBinding { pb_vendor : Z; pb_revision : Z; pb_model : Z }.
Record features := mkFeatures { sf_anti_rollback : bool; sf_amd_key_use : bool; sf_debug_unlock : bool }.

(* reserved[i] on a [16]uint8: the index is a constant below 16 *)
Definition res_byte (reserved : bytes) (i : nat) : Z := nth i reserved 0.

(* reserved[0]; reserved[1] & 7; reserved[1] >> 4  (fixed: the tree has << 3) *)
Definition parse_platform_binding (reserved : bytes) : binding :=
  mkBinding (res_byte reserved 0) (Z.land (res_byte reserved 1) 7) (Z.shiftr (res_byte reserved 1) 4).

(* reserved[3]&1 == 1; (reserved[3]>>1)&1 == 1; (reserved[3]>>2)&1 == 1  (fixed: the tree has <<) *)
Definition parse_security_features (reserved : bytes) : features :=
  let b := res_byte reserved 3 in
  mkFeatures (Z.land b 1 =? 1) (Z.land (Z.shiftr b 1) 1 =? 1) (Z.land (Z.shiftr b 2) 1 =? 1).

Definition get_platform_binding (k : key) : outcome binding :=
  if negb (k_usage k =? amd_psb_sign_bios) then Err E_USAGE else Ok (parse_platform_binding (k_reserved k)).

Definition get_security_features (k : key) : outcome features :=
  if negb (k_usage k =? amd_psb_sign_bios) then Err E_USAGE else Ok (parse_security_features (k_reserved k)).

(* ---------------------------------------------------------------- *)
(* specification-side definitions used by the theorems                *)
(* ---------------------------------------------------------------- *)

(* the n bits of v starting at bit lo *)
Definition bits (lo n v : Z) : Z := (v / 2 ^ lo) mod 2 ^ n.

(* sum of the words, and the position-weighted sum  sum_{i<n} (n-i) * w_i *)
Fixpoint wsum0 (ws : list Z) : Z := match ws with [] => 0 | w :: r => w + wsum0 r end.
Fixpoint wsum1 (ws : list Z) : Z := match ws with [] => 0 | w :: r => zlen ws * w + wsum1 r end.

(* Fletcher-32 as defined mathematically over the 16-bit words, modulus 65535 *)
Definition fletcher_math (ws : list Z) : Z := (wsum1 ws mod 65535) * 65536 + wsum0 ws mod 65535.

(* the naive per-word recurrence with a reduction after every word *)
Fixpoint fletcher_naive (ws : list Z) (c0 c1 : Z) : Z * Z :=
  match ws with
  | [] => (c0, c1)
  | w :: r => let c0' := (c0 + w) mod 65535 in fletcher_naive r c0' ((c1 + c0') mod 65535)
  end.

(* fixed-width decoders of one entry record *)
Definition dec_psp_entry (b : bytes) : psp_entry :=
  mkPspEntry (rd 0 1 b) (rd 1 1 b) (bits 14 2 (rd 2 2 b)) (rd 4 4 b) (rd 8 8 b).

Definition dec_bios_entry (b : bytes) : bios_entry :=
  let f := rd 2 1 b in let g := rd 3 1 b in
  mkBiosEntry (rd 0 1 b) (rd 1 1 b)
    (bits 0 1 f =? 1) (bits 1 1 f =? 1) (bits 2 1 f =? 1) (bits 3 1 f =? 1) (bits 4 4 f)
    (bits 0 3 g) (bits 3 2 g) (rd 4 4 b) (rd 8 8 b) (rd 16 8 b).

(* n consecutive w-byte records *)
Fixpoint dec_records {E} (w : Z) (dec : bytes -> E) (n : nat) (r : bytes) : list E :=
  match n with
  | O => []
  | S k => dec (zfirstn w r) :: dec_records w dec k (zskipn w r)
  end.

Definition psp_entry_len : Z := 16.
Definition bios_entry_len : Z := 24.

(* what a successful table parse returns, read straight off the bytes *)
Definition dir_table_of {E} (w : Z) (dec : bytes -> E) (data : bytes) : dir_table E :=
  mkDir (rd 0 4 data) (rd 4 4 data) (rd 8 4 data) (rd 12 4 data)
        (dec_records w dec (Z.to_nat (rd 8 4 data)) (zskipn 16 data)).
