(* Model/Ffs.v — executable model of the UEFI firmware-volume core.

   Transcribes (Go, /repo):
     pkg/uefi/uefi.go            Checksum8, Checksum16, Read3Size, Write3Size, Align*, SetErasePolarity
     pkg/uefi/firmwarevolume.go  FindFirmwareVolumeOffset, NewFirmwareVolume, InsertFile, GetErasePolarity
     pkg/uefi/file.go            NewFile, SetSize, ChecksumHeader, ChecksumAndAssemble, CreatePadFile,
                                 fileAttr.{IsLarge,GetAlignment,HasChecksum}
     pkg/uefi/section.go         NewSection, parseDepEx, GenSecHeader
     pkg/uefi/biosregion.go      NewBIOSRegion, FirstFV
     pkg/visitors/assemble.go    Assemble.Visit for Section, File, FirmwareVolume, BIOSRegion, BIOSPadding

   Oracles (Section variables, see DESIGN section 3): [dec]/[enc] the compression codecs by
   kind (1 LZMA, 2 LZMAX86, 3 ZLIB, 4 BROTLI), [u2s]/[s2u] = unicode.UCS2ToUTF8/UTF8ToUCS2,
   [nvar] = NewNVarStore followed by reassembly of the store (modelled separately, property C10).

   Conventions: every Go slice/index expression that can fail is a checked operation that yields
   [Panic site]; loops run on local fuel derived from the buffer they scan and yield [Panic 900+]
   when it runs out (proved unreachable); the nesting recursion runs on the explicit depth fuel and
   yields [Fuel].  The global uefi.Attributes.ErasePolarity is threaded as [pol] (240 = poisoned).
   Not modelled: ReadOnly aliasing, JSON, ExtractPath, log output. *)
From Fiano Require Import Base.Bytes.
Open Scope Z_scope.

(* ---------- small arithmetic helpers ---------- *)

Definition align (v b : Z) : Z := ((v + b - 1) / b) * b.
(* Go's Align: (val + base - 1) & ^(base - 1) on uint64; equals [align] for powers of two *)
Definition align_go (v b : Z) : Z := Z.land ((v + b - 1) mod 2 ^ 64) ((2 ^ 64 - b) mod 2 ^ 64).
Definition align4 v := align v 4.
Definition align8 v := align v 8.
Definition U64 : Z := 2 ^ 64.
Definition U32 : Z := 2 ^ 32.

Definition sum8 (b : bytes) : Z := (sum_list b) mod 256.

Fixpoint words16 (b : bytes) : list Z :=
  match b with
  | lo :: hi :: r => (lo + 256 * hi) :: words16 r
  | _ => []
  end.
Definition sum16 (b : bytes) : Z := (sum_list (words16 b)) mod 65536.

Definition write3 (size : Z) : Z := if 16777215 <=? size then 16777215 else size.

(* error classes *)
Definition E_SHORT : Z := 1.      (* binary.Read hit EOF / buffer too small *)
Definition E_SIZE : Z := 2.       (* size field larger than the available data *)
Definition E_ZEROLEN : Z := 3.    (* zero-length file / section / volume *)
Definition E_FREEINFILE : Z := 4. (* all-FF section header inside a file *)
Definition E_POLARITY : Z := 5.
Definition E_FVLEN : Z := 6.
Definition E_BEYOND : Z := 7.
Definition E_OVERSIZEHDR : Z := 8.
Definition E_NOSPACE : Z := 9.
Definition E_PADSIZE : Z := 10.
Definition E_MIDDLE : Z := 11.
Definition E_BUFBIG : Z := 12.
Definition E_BLOCK0 : Z := 13.
Definition E_CODEC : Z := 14.
Definition E_NOFV : Z := 15.
Definition E_DEPEX : Z := 16.
Definition E_ODD : Z := 17.

(* ---------- tree ---------- *)

Record gdhdr := mkGd {
  gd_guid : bytes; gd_dataoff : Z; gd_attrs : Z;
  gd_kind : Z            (* 0 = not decoded ("UNKNOWN"/none), else codec kind *)
}.

Record sechdr := mkSec {
  s_size3 : Z; s_type : Z; s_ext : Z;
  s_hlen : Z;                      (* 4 or 8: size of the common header as parsed *)
  s_gd : option gdhdr;
  s_name : bytes;                  (* UI: UTF-8 of the name *)
  s_build : Z; s_version : bytes;  (* Version section *)
  s_depex : option (list (Z * option bytes));  (* None: not a depex section or unparsable *)
  s_order : Z
}.

Record filehdr := mkFile {
  f_guid : bytes; f_ckh : Z; f_ckf : Z; f_type : Z; f_attr : Z; f_size3 : Z; f_state : Z;
  f_ext : Z; f_dataoff : Z;
  f_nvar : option bytes            (* Some b: an NVAR store was parsed; b = its reassembled bytes *)
}.

Record volhdr := mkVol {
  v_zero : bytes; v_guid : bytes; v_length : Z; v_sig : Z; v_attrs : Z; v_hdrlen : Z;
  v_cksum : Z; v_exthdroff : Z; v_reserved : Z; v_rev : Z;
  v_blocks : list (Z * Z);
  v_extname : bytes; v_extsize : Z;
  v_dataoff : Z; v_fvoffset : Z; v_resizable : bool; v_freespace : Z
}.

Inductive node : Type :=
| NSec (h : sechdr) (buf : bytes) (kids : list node)
| NFile (h : filehdr) (buf : bytes) (kids : list node)
| NVol (h : volhdr) (buf : bytes) (kids : list node)
| NPad (off : Z) (buf : bytes).               (* BIOSPadding *)

Definition node_buf (n : node) : bytes :=
  match n with NSec _ b _ | NFile _ b _ | NVol _ b _ | NPad _ b => b end.

(* ---------- constants of the format ---------- *)

Definition FFS2 : bytes := [120; 229; 140; 140; 61; 138; 28; 79; 153; 53; 137; 97; 133; 195; 45; 211].
Definition FFS3 : bytes := [122; 192; 115; 84; 203; 61; 202; 77; 189; 111; 30; 150; 137; 231; 52; 154].
Definition NVAR_GUID : bytes := [163; 185; 245; 206; 109; 71; 127; 73; 159; 220; 233; 129; 67; 224; 66; 44].
Definition LZMA_GUID : bytes := [152; 88; 78; 238; 20; 57; 89; 66; 157; 110; 220; 123; 215; 148; 3; 207].
Definition LZMAX86_GUID : bytes := [189; 230; 42; 212; 82; 19; 251; 75; 144; 154; 202; 114; 166; 234; 232; 137].
Definition ZLIB_GUID : bytes := [245; 51; 50; 206; 214; 44; 135; 77; 145; 82; 74; 35; 139; 182; 209; 196].
Definition BROTLI_GUID : bytes := [80; 32; 83; 61; 218; 92; 208; 79; 135; 158; 15; 127; 99; 13; 90; 251].

Definition codec_kind (g : bytes) : Z :=
  if bytes_eqb g LZMA_GUID then 1 else if bytes_eqb g LZMAX86_GUID then 2
  else if bytes_eqb g ZLIB_GUID then 3 else if bytes_eqb g BROTLI_GUID then 4 else 0.

Definition supported_fv (g : bytes) : bool := bytes_eqb g FFS2 || bytes_eqb g FFS3.

(* SupportedFiles[t] *)
Definition supported_file (t : Z) : bool :=
  (t =? 2) || (t =? 3) || (t =? 4) || (t =? 5) || (t =? 7) || (t =? 8) || (t =? 9) ||
  (t =? 10) || (t =? 11) || (t =? 12) || (t =? 13) || (t =? 14) || (t =? 15).

Definition known_section (t : Z) : bool :=
  ((0 <=? t) && (t <=? 3)) || ((16 <=? t) && (t <=? 25)) || (t =? 27) || (t =? 28).

Definition file_alignments : list Z :=
  [1; 16; 128; 512; 1024; 4096; 32768; 65536; 131072; 262144; 524288; 1048576;
   2097152; 4194304; 8388608; 16777216].

Definition attr_large (a : Z) : bool := negb (Z.land a 1 =? 0).
Definition attr_checksum (a : Z) : bool := negb (Z.land a 64 =? 0).
Definition attr_align (a : Z) : Z :=
  let v := Z.lor (Z.shiftr (Z.land a 56) 3) (Z.shiftl (Z.land a 2) 2) in
  nth (Z.to_nat v) file_alignments 1.
Definition file_hlen (a : Z) : Z := if attr_large a then 32 else 24.

Definition fv_polarity (attrs : Z) : Z := if Z.land attrs 2048 =? 0 then 0 else 255.

(* SetErasePolarity: Some newpol, or None = conflicting polarities *)
Definition set_polarity (pol ep : Z) : option Z :=
  if pol =? 240 then Some ep else if pol =? ep then Some pol else None.

(* ---------- dependency expressions ---------- *)

Fixpoint parse_depex (fuel : nat) (b : bytes) : option (list (Z * option bytes)) :=
  match fuel with
  | O => None
  | S k =>
    match b with
    | [] => None                                    (* no END *)
    | op :: r =>
      if (op <=? 9) && (0 <=? op) then
        if op <=? 2 then
          if zlen r <? 16 then None
          else match parse_depex k (zskipn 16 r) with
               | Some l => Some ((op, Some (zfirstn 16 r)) :: l)
               | None => None
               end
        else if op =? 8 then Some [(op, None)]
        else match parse_depex k r with
             | Some l => Some ((op, None) :: l)
             | None => None
             end
      else None
    end
  end.

Fixpoint emit_depex (l : list (Z * option bytes)) : outcome bytes :=
  match l with
  | [] => Ok []
  | (op, g) :: r =>
    do rest <- emit_depex r;
    if op <=? 2 then
      match g with Some gb => Ok (op :: gb ++ rest) | None => Err E_DEPEX end
    else
      match g with Some _ => Err E_DEPEX | None => Ok (op :: rest) end
  end.

Section FfsModel.

Variable dec : Z -> bytes -> option bytes.
Variable enc : Z -> bytes -> option bytes.
Variable u2s : bytes -> bytes.
Variable s2u : bytes -> bytes.
Variable nvar : bytes -> option bytes.

(* ---------- parsing ---------- *)

(* the block map, starting at offset 56 *)
Fixpoint parse_blocks (fuel : nat) (b : bytes) : outcome (list (Z * Z)) :=
  match fuel with
  | O => Panic 901
  | S k =>
    if zlen b <? 8 then Err E_SHORT else
    let c := rd 0 4 b in let s := rd 4 4 b in
    if (c =? 0) && (s =? 0) then Ok []
    else do r <- parse_blocks k (zskipn 8 b); Ok ((c, s) :: r)
  end.

Definition sec_default (size3 stype ext hlen order : Z) : sechdr :=
  mkSec size3 stype ext hlen None [] 0 [] None order.

(* ---- one level of each parser, with the recursive calls abstracted ([rec_*] are the parsers at
   the next smaller depth).  The depth-fuelled mutual Fixpoint below just ties the knot, so that
   [parse_section (S d) = section_body (parse_section d) (parse_fv d)] holds by reflexivity. ---- *)
Section Bodies.
Variable rec_section : Z -> bytes -> Z -> outcome (node * Z).
Variable rec_file : Z -> bytes -> outcome (option node * Z).
Variable rec_fv : Z -> bytes -> Z -> bool -> outcome (node * Z).

Definition sec_ext (s : node) : Z := match s with NSec h _ _ => s_ext h | _ => 0 end.
Definition file_ext (f : node) : Z := match f with NFile h _ _ => f_ext h | _ => 0 end.

(* the loop over the sections of a buffer [b] (a file from its data offset on, or a decompressed
   payload): sections at 4-aligned offsets until the end of [b]; [n] is local fuel *)
Fixpoint sections_loop (n : nat) (b : bytes) (pol : Z) (offset i : Z) : outcome (list node * Z) :=
  match n with
  | O => Panic 902
  | S n' =>
    if offset <? zlen b then
      do sp <- rec_section pol (zskipn offset b) i;
      let '(s, pol') := sp in
      if sec_ext s =? 0 then Err E_ZEROLEN else
      do rp <- sections_loop n' b pol' (align4 (offset + sec_ext s)) (i + 1);
      let '(r, pol'') := rp in Ok (s :: r, pol'')
    else Ok ([], pol)
  end.

Definition section_body (pol : Z) (buf : bytes) (order : Z) : outcome (node * Z) :=
    if zlen buf <? 4 then Err E_SHORT else
    let size3 := rd 0 3 buf in
    let stype := rd 3 1 buf in
    do he <-
      (if known_section stype then
         if size3 =? 16777215 then
           if zlen buf <? 8 then Err E_SHORT else
           let e := rd 4 4 buf in
           if e =? 4294967295 then Err E_FREEINFILE else Ok (8, e)
         else Ok (4, size3)
       else Ok (4, Z.min size3 (zlen buf)));
    let '(hlen, ext) := he in
    if zlen buf <? ext then Err E_SIZE else
    if ext <? hlen then Err E_OVERSIZEHDR else
    let sbuf := sub 0 ext buf in
    let h0 := sec_default size3 stype ext hlen order in
    if stype =? 2 then
      (* GUID defined: type-specific header and payload lie inside the section *)
      if zlen sbuf <? hlen + 20 then Err E_OVERSIZEHDR else
      let g := sub hlen 16 sbuf in
      let doff := rd (hlen + 16) 2 sbuf in
      let attrs := rd (hlen + 18) 2 sbuf in
      if zlen sbuf <? doff then Err E_BEYOND else
      let kind := if negb (Z.land attrs 1 =? 0) then codec_kind g else 0 in
      do ek <-
        (if kind =? 0 then Ok ([], 0) else
           match slice doff (zlen sbuf) sbuf with
           | None => Panic 101
           | Some payload =>
             match dec kind payload with
             | Some e => Ok (e, kind)
             | None => Ok ([], 0)
             end
           end);
      let '(encap, kind') := ek in
      do kp <- sections_loop (Z.to_nat (zlen encap) + 1) encap pol 0 0;
      let '(kids, pol') := kp in
      Ok (NSec (mkSec size3 stype ext hlen (Some (mkGd g doff attrs kind')) [] 0 [] None order)
               sbuf kids, pol')
    else if stype =? 21 then
      if zlen sbuf <=? hlen then Err E_OVERSIZEHDR else
      Ok (NSec (mkSec size3 stype ext hlen None (u2s (zskipn hlen sbuf)) 0 [] None order) sbuf [], pol)
    else if stype =? 20 then
      if zlen sbuf <=? hlen + 2 then Err E_OVERSIZEHDR else
      Ok (NSec (mkSec size3 stype ext hlen None [] (rd hlen 2 sbuf) (u2s (zskipn (hlen + 2) sbuf)) None order)
               sbuf [], pol)
    else if stype =? 23 then
      if zlen sbuf <=? hlen then Err E_OVERSIZEHDR else
      do vp <- rec_fv pol (zskipn hlen sbuf) 0 true;
      let '(v, pol') := vp in
      Ok (NSec h0 sbuf [v], pol')
    else if (stype =? 19) || (stype =? 27) || (stype =? 28) then
      if zlen sbuf <=? hlen then Err E_OVERSIZEHDR else
      let body := zskipn hlen sbuf in
      Ok (NSec (mkSec size3 stype ext hlen None [] 0 []
                      (match parse_depex (length body + 1) body with Some l => Some l | None => Some [] end)
                      order) sbuf [], pol)
    else Ok (NSec h0 sbuf [], pol).

Definition file_body (pol : Z) (buf : bytes) : outcome (option node * Z) :=
    if zlen buf <? 24 then Err E_SHORT else
    let g := sub 0 16 buf in
    let ckh := rd 16 1 buf in let ckf := rd 17 1 buf in
    let ftype := rd 18 1 buf in let attr := rd 19 1 buf in
    let size3 := rd 20 3 buf in let state := rd 23 1 buf in
    do ed <-
      (if size3 =? 16777215 then
         if zlen buf <? 32 then
           (* erased but too short for an extended header: free space *)
           if forallb (fun x => x =? pol) buf then Ok (U64 - 1, 32) else Err E_SHORT
         else Ok (rd 24 8 buf, 32)
       else Ok (size3, 24));
    let '(ext, doff) := ed in
    if (size3 =? 16777215) && (ext =? U64 - 1) then Ok (None, pol) else
    if zlen buf <? ext then Err E_SIZE else
    if ext <? doff then Err E_SIZE else
    let fbuf := sub 0 ext buf in
    do nv <-
      (if (ftype =? 1) && bytes_eqb g NVAR_GUID then
         if zlen fbuf <=? doff then Err E_BEYOND else Ok (nvar (zskipn doff fbuf))
       else Ok None);
    let h := mkFile g ckh ckf ftype attr size3 state ext doff nv in
    if negb (supported_file ftype) then Ok (Some (NFile h fbuf []), pol) else
    do kp <- sections_loop (Z.to_nat ext + 1) fbuf pol doff 0;
    let '(kids, pol') := kp in
    Ok (Some (NFile h fbuf kids), pol').

(* the file loop of a volume: files at 8-aligned offsets while a header still fits *)
Fixpoint files_loop (n : nat) (data : bytes) (length : Z) (pol : Z) (offset : Z)
  : outcome (list node * Z * Z) :=
  match n with
  | O => Panic 904
  | S n' =>
    if offset + 24 <=? length then
      let offset := align8 offset in
      if length <? offset + 24 then Ok ([], pol, 0) else
      do fp <- rec_file pol (sub offset (length - offset) data);
      let '(fo, pol') := fp in
      match fo with
      | None => Ok ([], pol', (length - offset) mod U64)
      | Some f =>
        if file_ext f =? 0 then Err E_ZEROLEN else
        do rp <- files_loop n' data length pol' (offset + file_ext f);
        let '(r, pol'', fs) := rp in Ok (f :: r, pol'', fs)
      end
    else Ok ([], pol, 0)
  end.

Definition fv_body (pol : Z) (data : bytes) (fvoff : Z) (resizable : bool) : outcome (node * Z) :=
    if zlen data <? 64 then Err E_SHORT else
    let zero := sub 0 16 data in let g := sub 16 16 data in
    let length := rd 32 8 data in let sig := rd 40 4 data in let attrs := rd 44 4 data in
    let hdrlen := rd 48 2 data in let cksum := rd 50 2 data in let exthdroff := rd 52 2 data in
    let reserved := rd 54 1 data in let rev := rd 55 1 data in
    do blocks <- parse_blocks (Z.to_nat (zlen data) + 1) (zskipn 56 data);
    match set_polarity pol (fv_polarity attrs) with
    | None => Err E_POLARITY
    | Some pol1 =>
      if zlen data <? length then Err E_FVLEN else
      if length <? 64 then Err E_FVLEN else
      let has_ext := negb (exthdroff =? 0) && (20 <=? length) && (exthdroff <? length - 20) in
      let extname := if has_ext then sub exthdroff 16 data else [] in
      let extsize := if has_ext then rd (exthdroff + 16) 4 data else 0 in
      let doff := align8 (if has_ext then exthdroff + extsize else hdrlen) in
      let fvbuf := sub 0 length data in
      let mk files fs :=
        NVol (mkVol zero g length sig attrs hdrlen cksum exthdroff reserved rev blocks extname extsize
                    doff fvoff resizable fs) fvbuf files in
      if negb (supported_fv g) then Ok (mk [] 0, pol1) else
      do kp <- files_loop (Z.to_nat (zlen data) + 1) data length pol1 doff;
      let '(files, pol2, fs) := kp in
      Ok (mk files fs, pol2)
    end.

End Bodies.

(* depth-fuelled mutual recursion: sections <-> files <-> volumes *)
Fixpoint parse_section (d : nat) (pol : Z) (buf : bytes) (order : Z) {struct d} : outcome (node * Z) :=
  match d with
  | O => Fuel
  | S d' => section_body (parse_section d') (parse_fv d') pol buf order
  end
with parse_file (d : nat) (pol : Z) (buf : bytes) {struct d} : outcome (option node * Z) :=
  match d with
  | O => Fuel
  | S d' => file_body (parse_section d') pol buf
  end
with parse_fv (d : nat) (pol : Z) (data : bytes) (fvoff : Z) (resizable : bool) {struct d}
  : outcome (node * Z) :=
  match d with
  | O => Fuel
  | S d' => fv_body (parse_file d') pol data fvoff resizable
  end.

(* FindFirmwareVolumeOffset *)
Fixpoint find_fvh (n : nat) (data : bytes) (offset : Z) : Z :=
  match n with
  | O => -1
  | S n' =>
    if offset + 4 <? zlen data then
      if bytes_eqb (sub offset 4 data) [95; 70; 86; 72] then offset - 40
      else find_fvh n' data (offset + 8)
    else -1
  end.
Definition find_fv_offset (data : bytes) : Z :=
  if zlen data <? 32 then -1 else find_fvh (Z.to_nat (zlen data / 8) + 1) data 32.

(* NewBIOSRegion: list of elements (paddings and volumes) *)
Fixpoint parse_bios (d : nat) (n : nat) (pol : Z) (buf : bytes) (abs : Z) {struct n}
  : outcome (list node * Z) :=
  match n with
  | O => Panic 905
  | S n' =>
    let offset := find_fv_offset buf in
    if offset <? 0 then
      Ok (if zlen buf =? 0 then [] else [NPad abs buf], pol)
    else
      let pads := if 0 <? offset then [NPad abs (zfirstn offset buf)] else [] in
      let abs1 := abs + offset in
      do vp <- parse_fv d pol (zskipn offset buf) abs1 false;
      let '(v, pol') := vp in
      let len := match v with NVol h _ _ => v_length h | _ => 0 end in
      if len =? 0 then Err E_ZEROLEN else
      do rp <- parse_bios d n' pol' (zskipn (offset + len) buf) (abs1 + len);
      let '(r, pol'') := rp in
      Ok (pads ++ v :: r, pol'')
  end.

(* ---------- assembling ---------- *)

(* concatenate child buffers, each preceded by zero padding to a 4-byte boundary *)
Fixpoint join4 (acc : bytes) (l : list bytes) : bytes :=
  match l with
  | [] => acc
  | b :: r =>
    let dlen := zlen acc in
    join4 (acc ++ zrepeat 0 (align4 dlen - dlen) ++ b) r
  end.

(* GenSecHeader: returns the new header record and full buffer for payload [body] *)
Definition gen_sec_header (h : sechdr) (body : bytes) : sechdr * bytes :=
  let hl0 := 4 + (match s_gd h with Some _ => 20 | None => 0 end) in
  let e0 := (zlen body + hl0) mod U32 in
  let big := 16777215 <=? e0 in
  let hl := if big then hl0 + 4 else hl0 in
  let ext := if big then (e0 + 4) mod U32 else e0 in
  let big2 := 16777215 <=? ext in
  let gd' := match s_gd h with
             | Some g => Some (mkGd (gd_guid g) (hl mod 65536) (gd_attrs g) (gd_kind g))
             | None => None end in
  let tsh := match gd' with
             | Some g => gd_guid g ++ le_enc 2 (gd_dataoff g) ++ le_enc 2 (gd_attrs g)
             | None => [] end in
  let size3 := write3 ext in
  let common := le_enc 3 size3 ++ [s_type h] ++ (if big2 then le_enc 4 ext else []) in
  (mkSec size3 (s_type h) ext (if big2 then 8 else 4) gd' (s_name h) (s_build h) (s_version h)
         (s_depex h) (s_order h),
   common ++ tsh ++ body).

(* file header bytes as binary.Write of FileHeaderExtended / FileHeader *)
Definition file_header_bytes (g : bytes) (ckh ckf ftype attr size3 state ext : Z) (large : bool) : bytes :=
  g ++ [ckh; ckf; ftype; attr] ++ le_enc 3 size3 ++ [state] ++ (if large then le_enc 8 ext else []).

(* SetSize followed by ChecksumAndAssemble *)
Definition checksum_and_assemble (h : filehdr) (ext : Z) (attr : Z) (data : bytes) : filehdr * bytes :=
  let large := attr_large attr in
  let size3 := write3 ext in
  (* header as first written (32 bytes), checksum of its first 24/32 bytes *)
  let hb := file_header_bytes (f_guid h) (f_ckh h) (f_ckf h) (f_type h) attr size3 (f_state h) ext true in
  let hs := if large then 32 else 24 in
  let sum := (sum8 (zfirstn hs hb) - f_ckf h - f_state h) mod 256 in
  let ckh := (f_ckh h - sum) mod 256 in
  let ckf := if attr_checksum attr then (0 - sum8 data) mod 256 else 170 in
  let hb' := file_header_bytes (f_guid h) ckh ckf (f_type h) attr size3 (f_state h) ext large in
  (mkFile (f_guid h) ckh ckf (f_type h) attr size3 (f_state h) ext (f_dataoff h) (f_nvar h),
   hb' ++ data).

Definition set_large (attr : Z) (l : bool) : Z :=
  if l then Z.lor attr 1 else Z.land attr 254.

(* SetSize(size, resize) : new ext and attr *)
Definition set_size (attr size : Z) (resize : bool) : Z * Z :=
  if 16777215 <=? size then ((if resize then size + 8 else size), set_large attr true)
  else (size, set_large attr false).

Definition create_pad_file (pol size : Z) : outcome bytes :=
  if size <? 24 then Err E_PADSIZE else
  if negb ((pol =? 255) || (pol =? 0)) then Err E_POLARITY else
  let g := zrepeat pol 16 in
  let '(ext, attr) := set_size 0 size false in
  let dlen := if attr_large attr then size - 32 else size - 24 in
  let data := zrepeat pol dlen in
  let h := mkFile g 0 0 240 attr (write3 ext) (Z.lxor 7 pol) ext 24 None in
  Ok (snd (checksum_and_assemble h ext attr data)).

(* InsertFile *)
Definition insert_file (pol : Z) (fvbuf : bytes) (aligned : Z) (fb : bytes) : outcome bytes :=
  if aligned <? zlen fvbuf then Err E_MIDDLE else
  if zlen fb =? 0 then Err E_ZEROLEN else
  Ok (fvbuf ++ zrepeat pol (aligned - zlen fvbuf) ++ fb).

(* the file loop of the FirmwareVolume case *)
(* [limit]: Some Length for a non-resizable volume.  The Go code lays all files out and only then
   reports "out of space"; the buffer only grows, so the model reports it as soon as a file would end
   beyond the limit, which spares it from materialising multi-megabyte pad files. (The one observable
   difference: a later zero-length file buffer, which makes the Go code exit via log.Fatalf, is
   reported as the out-of-space error instead.) *)
Fixpoint place_files (pol : Z) (limit : option Z) (fvbuf : bytes) (off : Z) (files : list node)
  : outcome bytes :=
  match files with
  | [] => Ok fvbuf
  | f :: r =>
    let fb := node_buf f in
    let attr := match f with NFile h _ _ => f_attr h | _ => 0 end in
    if zlen fb =? 0 then Panic 201 (* log.Fatalf *) else
    let a0 := align8 off in
    let base := attr_align attr in
    let no :=
      if base =? 1 then a0 else
        let hl := file_hlen attr in
        let fdo := align (a0 + hl) base in
        let no := fdo - hl in
        let gap := no - a0 in
        if (8 <=? gap) && (gap <? 24) then align (fdo + 1) base - hl else no in
    if (match limit with Some l => l <? no + zlen fb | None => false end) then Err E_NOSPACE else
    do st <-
      (if no =? a0 then Ok (fvbuf, no) else
         do pf <- create_pad_file pol (no - a0);
         do b <- insert_file pol fvbuf a0 pf;
         Ok (b, no));
    let '(fvbuf1, a1) := st in
    do b2 <- insert_file pol fvbuf1 a1 fb;
    place_files pol limit b2 (a1 + zlen fb) r
  end.

Definition asm_vol (pol : Z) (ffs3 : bool) (h : volhdr) (buf : bytes) (files : list node)
  : outcome (volhdr * bytes) :=
  (* a volume of a file system fiano does not parse is emitted verbatim; an FFS volume is rebuilt
     from its header and its files even when it has no files (any more) *)
  if (match files with [] => true | _ => false end) && negb (supported_fv (v_guid h)) then Ok (h, buf) else
    if v_length h <? zlen buf then Err E_BUFBIG else
    match v_blocks h with [] => Err E_BLOCK0 | _ =>
    if v_dataoff h <? v_hdrlen h then Err E_BUFBIG else
    if zlen buf <? v_dataoff h then Err E_BUFBIG else
    do hdr <- of_opt 202 (slice 0 (v_dataoff h) buf);
    do b1 <- place_files pol (if v_resizable h then None else Some (v_length h)) hdr (v_dataoff h) files;
    let newlen := zlen b1 in
    if (v_length h <? newlen) && negb (v_resizable h) then Err E_NOSPACE else
    do lb <-
      (if v_length h <? newlen then
         match v_blocks h with
         | [] => Panic 203
         | (c, s) :: rest =>
           if s =? 0 then Err E_BLOCK0 else
           (* only the first entry is resized; the blocks of the further entries stay part of the
              volume (uint64 arithmetic) *)
           let rs := fold_left (fun a b => (a + fst b * snd b) mod U64) rest 0 in
           let need := if rs <? newlen then newlen - rs else 0 in
           let l := (rs + align_go need s) mod U64 in
           Ok (l, ((((l - rs) mod U64) / s) mod U32, s) :: rest)
         end
       else Ok (v_length h, v_blocks h));
    let '(len, blocks) := lb in
    let b2 := if newlen <? len then b1 ++ zrepeat pol (len - newlen) else b1 in
    (* header fix-ups: all are writes into fBuf; an out-of-range index panics *)
    if zlen b2 <? 40 then Panic 204 else
    let b3 := splice 32 (le_enc 8 len) b2 in
    let g := if ffs3 && bytes_eqb (v_guid h) FFS2 then FFS3 else v_guid h in
    let b4 := if ffs3 && bytes_eqb (v_guid h) FFS2 then splice 16 FFS3 b3 else b3 in
    match blocks with
    | [] => Panic 205
    | (c, s) :: _ =>
      if zlen b4 <? 60 then Panic 206 else
      let b5 := splice 56 (le_enc 4 c) b4 in
      let b6 := splice 50 [0; 0] b5 in
      match slice 0 (v_hdrlen h) b6 with
      | None => Panic 207
      | Some hb =>
        if negb (Z.even (v_hdrlen h)) then Err E_ODD else
        let sum := (0 - sum16 hb) mod 65536 in
        let b7 := splice 50 (le_enc 2 sum) b6 in
        Ok (mkVol (v_zero h) g len (v_sig h) (v_attrs h) (v_hdrlen h) (v_cksum h) (v_exthdroff h)
                  (v_reserved h) (v_rev h) blocks (v_extname h) (v_extsize h) (v_dataoff h)
                  (v_fvoffset h) (v_resizable h) ((len - align8 newlen) mod U64), b7)
      end
    end
    end.

(* assemble state: erase polarity and the useFFS3 flag *)
Definition ast := (Z * bool)%type.

(* what Assemble.Visit does to a node once its children have been assembled *)
Definition sec_asm (h : sechdr) (buf : bytes) (kids' : list node) (st1 : ast) : outcome (node * ast) :=
    let '(pol, ffs3) := st1 in
    match kids' with
    | [] =>
      let t := s_type h in
      do body <-
        (if t =? 21 then Ok (Some (s2u (s_name h)))
         else if t =? 20 then Ok (Some (le_enc 2 (s_build h) ++ s2u (s_version h)))
         else if (t =? 19) || (t =? 27) || (t =? 28) then
           do b <- emit_depex (match s_depex h with Some l => l | None => [] end); Ok (Some b)
         else Ok None);
      match body with
      | None => Ok (NSec h buf [], st1)
      | Some b =>
        let '(h', nb) := gen_sec_header h b in
        Ok (NSec h' nb [], (pol, ffs3 || (16777215 <? s_ext h')))
      end
    | _ =>
      let data := join4 [] (map node_buf kids') in
      do body <-
        (if s_type h =? 2 then
           match s_gd h with
           | None => Panic 301
           | Some g =>
             if negb (Z.land (gd_attrs g) 1 =? 0) then
               if codec_kind (gd_guid g) =? 0 then Err E_CODEC else
               match enc (codec_kind (gd_guid g)) data with
               | Some c => Ok c
               | None => Err E_CODEC
               end
             else Ok buf
           end
         else Ok data);
      let '(h', nb) := gen_sec_header h body in
      Ok (NSec h' nb kids', (pol, ffs3 || (16777215 <? s_ext h')))
    end.

Definition file_asm (h : filehdr) (buf : bytes) (kids' : list node) (st1 : ast) : outcome (node * ast) :=
    let '(pol, ffs3) := st1 in
    match kids', f_nvar h with
    | [], None => Ok (NFile h buf [], st1)
    | _, _ =>
      let data := match f_nvar h with
                  | Some nb => nb
                  | None => join4 [] (map node_buf kids') end in
      let '(ext, attr) := set_size (f_attr h) (24 + zlen data) true in
      let '(h', nb) := checksum_and_assemble h ext attr data in
      Ok (NFile h' nb kids', (pol, ffs3 || (16777215 <? ext)))
    end.

Definition vol_asm (h : volhdr) (buf : bytes) (kids' : list node) (st1 : ast) : outcome (node * ast) :=
    let '(pol, ffs3) := st1 in
    do hb <- asm_vol pol ffs3 h buf kids';
    let '(h', nb) := hb in
    Ok (NVol h' nb kids', (pol, match kids' with [] => ffs3 | _ => false end)).

Fixpoint asm (n : node) (st : ast) {struct n} : outcome (node * ast) :=
  let asm_list :=
    fix asm_list (l : list node) (st : ast) : outcome (list node * ast) :=
      match l with
      | [] => Ok ([], st)
      | x :: r =>
        do xs <- asm x st; let '(x', st1) := xs in
        do rs <- asm_list r st1; let '(r', st2) := rs in
        Ok (x' :: r', st2)
      end in
  match n with
  | NPad off b => Ok (NPad off b, st)
  | NSec h buf kids =>
    do ks <- asm_list kids st; let '(kids', st1) := ks in sec_asm h buf kids' st1
  | NFile h buf kids =>
    do ks <- asm_list kids st; let '(kids', st1) := ks in file_asm h buf kids' st1
  | NVol h buf kids =>
    match set_polarity (fst st) (fv_polarity (v_attrs h)) with
    | None => Err E_POLARITY
    | Some pol0 =>
      (* the FFS3 flag is per volume: children start with it cleared, the caller's flag is handed back *)
      do ks <- asm_list kids (pol0, false); let '(kids', st1) := ks in
      do r <- vol_asm h buf kids' st1; let '(n', st2) := r in Ok (n', (fst st2, snd st))
    end
  end.

(* BIOSRegion: first volume's polarity, then elements copied over an erased buffer *)
Fixpoint first_fv (l : list node) : option volhdr :=
  match l with
  | [] => None
  | NVol h _ _ :: _ => Some h
  | _ :: r => first_fv r
  end.

Fixpoint asm_elems (l : list node) (st : ast) : outcome (list node * ast) :=
  match l with
  | [] => Ok ([], st)
  | x :: r =>
    do xs <- asm x st; let '(x', st1) := xs in
    do rs <- asm_elems r st1; let '(r', st2) := rs in
    Ok (x' :: r', st2)
  end.

(* copy(fBuf[offset:offset+len(ebuf)], ebuf): the slice expression panics past the end *)
Fixpoint copy_elems (fbuf : bytes) (offset : Z) (l : list node) : outcome bytes :=
  match l with
  | [] => Ok fbuf
  | e :: r =>
    let eb := node_buf e in
    if zlen fbuf <? offset + zlen eb then Panic 401 else
    copy_elems (splice offset eb fbuf) (offset + zlen eb) r
  end.

Definition asm_bios (elems : list node) (length : Z) (st : ast) : outcome (list node * bytes * ast) :=
  do es <- asm_elems elems st; let '(elems', st1) := es in
  match first_fv elems' with
  | None => Err E_NOFV
  | Some vh =>
    match set_polarity (fst st1) (fv_polarity (v_attrs vh)) with
    | None => Err E_POLARITY
    | Some pol =>
      do b <- copy_elems (zrepeat pol length) 0 elems';
      Ok (elems', b, (pol, snd st1))
    end
  end.

(* Parse of a bare BIOS region followed by Save, the pipeline C01 speaks about *)
Definition parse_region (d : nat) (buf : bytes) : outcome (list node * Z) :=
  parse_bios d (Z.to_nat (zlen buf) + 1) 240 buf 0.

Definition save_region (d : nat) (buf : bytes) : outcome bytes :=
  do ep <- parse_region d buf; let '(elems, pol) := ep in
  do r <- asm_bios elems (zlen buf) (pol, false);
  let '(_, b, _) := r in Ok b.

End FfsModel.
