(* Model/Bcj.v — executable model of the x86 branch (BCJ) filter of
   pkg/compression/x86.go.
   Transcribes: test86MSByte, x86Convert (both directions; uint32 wrap on every
   word operation, the three-bit [mask] of recently seen unconverted opcodes,
   the [sh] re-encoding step, the early return for fewer than 5 bytes, the four
   trailing bytes that are never opcode positions, the final [*state] and the
   returned position), and the two callers' use of it (ip = 0, state = 0).
   Conventions: [data] is the Go slice, every [data[i]] read is a checked
   [index] (out of range = [Panic]); both Go loops are fuelled ([Fuel] = did not
   finish).  Positions ([uint], 64 bit) are unbounded [Z]: a slice never holds
   2^64 bytes, so [pos] cannot wrap.  The four byte stores [data[p+1..p+4] = ...]
   follow four successful reads of the same indices of the same slice, so they
   cannot panic; they are one [splice].
   Not modelled: nothing of x86Convert is left out; LZMA itself is an oracle
   (see Model/Framing.v). *)
From Fiano Require Import Base.Bytes.
Open Scope Z_scope.

Definition u32 (x : Z) : Z := x mod 2 ^ 32.
Definition u8 (x : Z) : Z := x mod 256.

(* func test86MSByte(b byte) bool { return (b+1)&0xFE == 0 } *)
Definition test86 (b : Z) : bool := Z.land (u8 (b + 1)) 254 =? 0.

(* data[p]&0xFE == 0xE8 *)
Definition is_branch (b : Z) : bool := Z.land b 254 =? 232.

(* the straight-line block that rewrites one operand.  [b1..b4] = data[p+1..p+4],
   [cur] = ip + uint32(pos) (already wrapped), [mask] as at the opcode. *)
Definition conv (enc : bool) (cur mask b1 b2 b3 b4 : Z) : Z * Z * Z * Z :=
  let v := u32 (u32 (u32 (u32 (Z.shiftl b4 24) + u32 (Z.shiftl b3 16)) + u32 (Z.shiftl b2 8)) + b1) in
  let step := fun w : Z => if enc then u32 (w + cur) else u32 (w - cur) in
  let v := step v in
  let v :=
    if mask =? 0 then v
    else
      let sh := Z.shiftl (Z.land mask 6) 2 in
      if test86 (u8 (Z.shiftr v sh))
      then step (Z.lxor v (u32 (u32 (Z.shiftl 256 sh) - 1)))
      else v in
  (u8 v, u8 (Z.shiftr v 8), u8 (Z.shiftr v 16), u8 (0 - Z.land (Z.shiftr v 24) 1)).

(* for ; p < size; p++ { if data[p]&0xFE == 0xE8 { break } } *)
Fixpoint scan (fuel : nat) (data : bytes) (p size : Z) : outcome Z :=
  match fuel with
  | O => Fuel
  | S f =>
    if p <? size then
      do b <- of_opt 1 (index p data);
      if is_branch b then Ok p else scan f data (p + 1) size
    else Ok p
  end.

(* the decision taken at an opcode once [mask] has been shifted: skip it
   (treat it as unconverted) because of the opcodes just before it? *)
Definition prev_test (data : bytes) (p mask : Z) : outcome bool :=
  if mask =? 0 then Ok false
  else if (4 <? mask) || (mask =? 3) then Ok true
  else do b <- of_opt 2 (index (p + Z.shiftr mask 1 + 1) data); Ok (test86 b).

(* the outer for{} of x86Convert; result = (data, *state, returned pos) *)
Fixpoint loop (fuel sfuel : nat) (enc : bool) (ip : Z) (data : bytes) (size pos mask : Z)
  : outcome (bytes * Z * Z) :=
  match fuel with
  | O => Fuel
  | S f =>
    do p <- scan sfuel data pos size;
    let d := p - pos in
    if size <=? p then Ok (data, (if 2 <? d then 0 else Z.shiftr mask d), p)
    else
      let mask := if 2 <? d then 0 else Z.shiftr mask d in
      do skip <- (if 2 <? d then Ok false else prev_test data p mask);
      if skip then loop f sfuel enc ip data size (p + 1) (Z.lor (Z.shiftr mask 1) 4)
      else
        do t4 <- of_opt 3 (index (p + 4) data);
        if test86 t4 then
          do b4 <- of_opt 4 (index (p + 4) data);
          do b3 <- of_opt 5 (index (p + 3) data);
          do b2 <- of_opt 6 (index (p + 2) data);
          do b1 <- of_opt 7 (index (p + 1) data);
          let cur := u32 (ip + u32 p) in
          let '(c1, c2, c3, c4) := conv enc cur mask b1 b2 b3 b4 in
          loop f sfuel enc ip (splice (p + 1) [c1; c2; c3; c4] data) size (p + 5) 0
        else loop f sfuel enc ip data size (p + 1) (Z.lor (Z.shiftr mask 1) 4)
  end.

(* func x86Convert(data []byte, size uint, ip uint32, state *uint32, encoding bool) uint
   called with size = len(data) *)
Definition x86_convert (enc : bool) (ip st : Z) (data : bytes) : outcome (bytes * Z * Z) :=
  let mask := Z.land st 7 in
  let size := zlen data in
  if size <? 5 then Ok (data, st, 0)
  else
    let fuel := S (length data) in
    loop fuel fuel enc (u32 (ip + 5)) data (size - 4) 0 mask.

(* what LZMAX86.Encode / Decode do with the buffer: ip = 0, state = 0, result
   and state ignored.  [x86] is the byte-level function; x86_convert never
   panics or runs out of fuel (Proofs/BcjProofs.v, x86_convert_total), so the
   fallback branch is dead. *)
Definition x86 (enc : bool) (data : bytes) : bytes :=
  match x86_convert enc 0 0 data with
  | Ok (d, _, _) => d
  | _ => data
  end.
