(* Model/ValidInv.v — the checkable hypothesis of the end-to-end theorem of property C02
   (C02_valid_after_edits_flat): an invariant of the parsed tree, as booleans the model runner
   evaluates on every generated case.

   Scope ("flat" trees): every section node is a leaf - regenerated from its fields (UI, version,
   depex) or copied verbatim and then a valid section that holds neither a volume (type 23) nor a
   compressed payload the reader opens; top-level volumes are not resizable; paddings between the
   volumes carry no signature hit.  Nested volumes and opened compressed sections are outside. *)
From Fiano Require Import Base.Bytes Gen.Consts Model.Ffs Model.Edit Model.Valid.
Open Scope Z_scope.

(* ---------- sections ---------- *)

(* a GUID-defined section the reader does not open: not (processing required and LZMA or ZLIB) *)
Definition guided_opaque (sb : bytes) (hl : Z) : bool :=
  (hl + 20 <=? zlen sb) &&
  negb (negb (Z.land (rd (hl + 18) 2 sb) 1 =? 0) &&
        ((codec_kind (sub hl 16 sb) =? 1) || (codec_kind (sub hl 16 sb) =? 3))).

(* the reader's checks of one section, given exactly its bytes *)
Definition v_sec0 (sb : bytes) : bool :=
  (4 <=? zlen sb) &&
  let size3 := rd 0 3 sb in
  let big := size3 =? 16777215 in
  (if big then 8 <=? zlen sb else true) &&
  ((if big then rd 4 4 sb else size3) =? zlen sb) &&
  negb (rd 3 1 sb =? 23) &&
  (if rd 3 1 sb =? 2 then guided_opaque sb (if big then 8 else 4) else true).

(* section types whose bytes Assemble regenerates from the header record *)
Definition regen_type (t : Z) : bool := (t =? 21) || (t =? 20) || (t =? 19) || (t =? 27) || (t =? 28).

Definition gd_wfb (h : sechdr) : bool :=
  match s_gd h with Some g => zlen (gd_guid g) =? 16 | None => true end.

(* a section node: a leaf that is regenerated from its fields or whose bytes are a valid section *)
Definition vtb_sec (n : node) : bool :=
  match n with
  | NSec h sb [] => gd_wfb h && (regen_type (s_type h) || v_sec0 sb)
  | _ => false
  end.

(* ---------- volume headers ---------- *)

(* the reader's data offset and header rules (Valid.valid_fv without the file walk) *)
Definition fv_doff (v : bytes) : Z :=
  let eho := rd 52 2 v in
  align8 (if eho =? 0 then rd 48 2 v else eho + rd (eho + 16) 4 v).

Definition fv_hdr_ok (exact : bool) (v : bytes) : bool :=
  (64 <=? zlen v) &&
  (let len := rd 32 8 v in
   let hdrlen := rd 48 2 v in
   let eho := rd 52 2 v in
   (rd 40 4 v =? 1213613663) &&
   (64 <=? len) && (len <=? zlen v) && (if exact then zlen v =? len else true) &&
   (64 <=? hdrlen) && (hdrlen <=? len) && Z.even hdrlen &&
   (sum16 (sub 0 hdrlen v) =? 0) &&
   (match v_blocks_sum (S (Z.to_nat (zlen v))) v 56 with
    | Some (t, e) => (t =? len) && (e <=? hdrlen)
    | None => false
    end) &&
   (if eho =? 0 then true else (hdrlen <=? eho) && (eho + 20 <=? len))).

(* the volume's buffer has a header the reader accepts and the header record agrees with it *)
Definition vhdr_inb (h : volhdr) (vb : bytes) : bool :=
  bytes_ok vb && (zlen vb =? v_length h) && fv_hdr_ok true vb &&
  (rd 32 8 vb =? v_length h) && (rd 48 2 vb =? v_hdrlen h) && (rd 44 4 vb =? v_attrs h) &&
  (fv_doff vb =? v_dataoff h) &&
  (match v_blocks h with (c, _) :: _ => rd 56 4 vb =? c | [] => false end) &&
  (if rd 52 2 vb =? 0 then true else rd 52 2 vb + 20 <=? v_dataoff h).

(* ---------- files, volumes, elements, operations ---------- *)

Section Inv.
Variable dec : Z -> bytes -> option bytes.
Variable d : nat.          (* the reader's depth below the top-level volumes *)
Variable pol : Z.

(* a file node: a leaf (copied verbatim) the reader accepts on its own and cannot mistake for
   free space, with the attribute byte of its header record; or a file Assemble rebuilds from
   leaf sections of the invariant (or from its NVAR store) *)
Definition vtb_file (n : node) : bool :=
  match n with
  | NFile h fb kids =>
    (f_ext h <? 18446744073709551616) &&
    match kids, f_nvar h with
    | [], None =>
      v_file (valid_fv dec d true) (valid_enc dec d) dec fb && negb (all_eq pol (sub 0 24 fb)) &&
      (rd 19 1 fb =? f_attr h)
    | _, _ =>
      (zlen (f_guid h) =? 16) && (0 <? f_type h) && (f_type h <? 255) && forallb vtb_sec kids &&
      (if supported_file (f_type h) then (match f_nvar h with None => true | Some _ => false end) else true)
    end
  | _ => false
  end.

(* a top-level volume: never resizable, a header the reader accepts and that the header record
   agrees with, files of the invariant; a volume of a file system fiano does not parse is valid
   as it is *)
Definition vtb_vol (h : volhdr) (vb : bytes) (kids : list node) : bool :=
  negb (v_resizable h) && (fv_polarity (v_attrs h) =? pol) && (v_length h <? 4294967000) &&
  (zlen vb =? v_length h) && (rd 32 8 vb =? v_length h) && (rd 40 4 vb =? 1213613663) &&
  vhdr_inb h vb && forallb vtb_file kids &&
  (supported_fv (v_guid h) || valid_fv dec (S d) true vb).

Definition vtb_elem (e : node) : bool :=
  match e with
  | NVol h vb kids => vtb_vol h vb kids
  | NPad _ _ => true
  | _ => false
  end.

(* what the command line may ask for: inserted files of the invariant, PE images below 4 GiB *)
Definition cop_flat (c : cop) : bool :=
  match c with
  | CInsert _ _ nf => vtb_file nf
  | CReplacePE32 _ pe => zlen pe + 32 <? 4294967296
  | _ => true
  end.

End Inv.

(* ---------- the region scan ---------- *)

Definition FVH : Z := 1213613663.

(* no signature hit at the first k 8-aligned positions *)
Definition clearb (c : bytes) (k : nat) : bool :=
  forallb (fun j => negb (rd (8 * Z.of_nat j + 40) 4 c =? FVH)) (seq 0 k).

(* the first 36 bytes of a volume with the FFSv3 GUID written over the file-system GUID *)
Definition hdr36_ffs3 (vb : bytes) : bytes := sub 0 16 vb ++ FFS3 ++ sub 32 4 vb.

(* a padding element (length a multiple of 8) is free of signature hits up to the volume that
   follows it - whichever of the two GUIDs that volume carries after saving - or, when it is the
   last element, up to the end *)
Definition pad_clear (p : bytes) (r : list node) : bool :=
  match r with
  | [] => clearb p (if zlen p <? 44 then 0 else Z.to_nat ((zlen p - 44) / 8) + 1)
  | NVol _ vb _ :: _ =>
    clearb (p ++ sub 0 36 vb) (Z.to_nat (zlen p / 8)) && clearb (p ++ hdr36_ffs3 vb) (Z.to_nat (zlen p / 8))
  | _ => false
  end.

Fixpoint scan_ok (elems : list node) : bool :=
  match elems with
  | [] => true
  | NPad _ p :: r => (zlen p mod 8 =? 0) && pad_clear p r && scan_ok r
  | NVol _ _ _ :: r => scan_ok r
  | _ => false
  end.

(* ---------- the whole hypothesis ---------- *)

Section Check.
Variable dec : Z -> bytes -> option bytes.
Variable u2s : bytes -> bytes.
Variable nvar : bytes -> option bytes.

(* the command line parses, the image parses, the parsed region has the invariant (depth [d] is
   the reader's depth below the top-level volumes), every operation is within scope *)
Definition flat_check (dd d : nat) (ops : list op) (img : bytes) : bool :=
  match parse_cli dec u2s nvar dd 240 ops with
  | Ok (cops, pol0) =>
    match parse_bios dec u2s nvar dd (Z.to_nat (zlen img) + 1) pol0 img 0 with
    | Ok (elems, pol) =>
      forallb (vtb_elem dec d pol) elems && scan_ok elems && forallb (cop_flat dec d pol) cops
    | _ => false
    end
  | _ => false
  end.

End Check.
