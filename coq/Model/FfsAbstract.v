(* Model/FfsAbstract.v — from bytes back to the grammar datatype.
   [abstract_region] reads a parsed BIOS region (the node tree of Model/Ffs.v) as a value of the
   reference grammar of Model/FfsGrammar.v.  Nothing is claimed about it: [in_grammar] accepts an
   image only if the value found re-serialises to exactly the image and passes the decidable
   well-formedness check, so a wrong abstraction can only make [in_grammar] say "no".  This turns
   the domain of theorem C01_save_identity into a decidable predicate on arbitrary bytes (real
   firmware volumes, historical fuzz inputs), not only on images generated from a grammar term. *)
From Fiano Require Import Base.Bytes Model.Ffs Model.FfsSpec Model.FfsGrammar.
Open Scope Z_scope.

Inductive anyspec : Type := AS (s : sspec) | AF (f : fspec) | AV (v : vspec).

Fixpoint all_secs (l : list anyspec) : option (list sspec) :=
  match l with
  | [] => Some []
  | AS s :: r => match all_secs r with Some x => Some (s :: x) | None => None end
  | _ => None
  end.

Fixpoint all_files (l : list anyspec) : option (list fspec) :=
  match l with
  | [] => Some []
  | AF f :: r => match all_files r with Some x => Some (f :: x) | None => None end
  | _ => None
  end.

Definition abs_sec_leaf (h : sechdr) (buf : bytes) : option anyspec :=
  let t := s_type h in
  if s_hlen h =? 8 then
    (* extended common header: only leaf sections keep that form *)
    if leaf_type t then Some (AS (SLeafL t (zskipn 8 buf))) else None
  else
  if negb (s_hlen h =? 4) then None else
  let body := zskipn 4 buf in
  if t =? 2 then
    let doff := rd 20 2 buf in
    if (doff <? 24) || (zlen buf <? doff) then None else
    Some (AS (SGuid (sub 4 16 buf) (rd 22 2 buf) (sub 24 (doff - 24) buf) (zskipn doff buf)))
  else if t =? 21 then Some (AS (SUi body))
  else if t =? 20 then
    if zlen buf <? 6 then None else Some (AS (SVer (rd 4 2 buf) (zskipn 6 buf)))
  else if (t =? 19) || (t =? 27) || (t =? 28) then
    match parse_depex (Z.to_nat (zlen body) + 1) body with
    | Some l => Some (AS (SDepex t (removelast l)))
    | None => None
    end
  else Some (AS (SLeaf t body)).

Definition abs_file_opaque (h : filehdr) (buf : bytes) : option anyspec :=
  if f_size3 h =? 16777215 then
    if zlen buf <? 32 then None else
    Some (AF (FOpaqueL (f_guid h) (f_ckh h) (f_ckf h) (f_type h) (f_attr h) (f_state h) (zskipn 32 buf)))
  else
    Some (AF (FOpaque (f_guid h) (f_ckh h) (f_ckf h) (f_type h) (f_attr h) (f_state h) (zskipn 24 buf))).

Definition abs_xh (h : volhdr) (buf : bytes) : option (bytes * bytes * bytes * bytes) :=
  let eo := v_exthdroff h in let es := v_extsize h in
  if eo =? 0 then None
  else Some (sub (v_hdrlen h) (eo - v_hdrlen h) buf, sub eo 16 buf, sub (eo + 20) (es - 20) buf,
             sub (eo + es) (v_dataoff h - eo - es) buf).

Fixpoint abs (n : node) {struct n} : option anyspec :=
  let abs_list :=
    fix abs_list (l : list node) : option (list anyspec) :=
      match l with
      | [] => Some []
      | x :: r =>
        match abs x, abs_list r with
        | Some a, Some b => Some (a :: b)
        | _, _ => None
        end
      end in
  match n with
  | NSec h buf kids =>
    if s_type h =? 23 then
      if negb (s_hlen h =? 4) then None else
      match abs_list kids with
      | Some [AV v] => Some (AS (SFv v))
      | _ => None
      end
    else
      match kids with
      | [] => abs_sec_leaf h buf
      | _ => None                               (* a decoded (compressed) section *)
      end
  | NFile h buf kids =>
    match kids with
    | [] => abs_file_opaque h buf
    | _ =>
      if f_size3 h =? 16777215 then None else
      match abs_list kids with
      | Some l =>
        match all_secs l with
        | Some secs => Some (AF (FSecs (f_guid h) (f_type h) (f_attr h) (f_state h) secs))
        | None => None
        end
      | None => None
      end
    end
  | NVol h buf kids =>
    match v_blocks h, abs_list kids with
    | (count, bsize) :: more, Some l =>
      match all_files l with
      | Some files =>
        let xh := abs_xh h buf in
        let used := fv_hlen more + zlen (xh_bytes xh) + zlen (flay (map emit_f files)) in
        Some (AV (VSpec (v_zero h) (v_guid h) (v_attrs h) (v_reserved h) (v_rev h) count bsize more xh
                        files (v_length h - used)))
      | None => None
      end
    | _, _ => None
    end
  | NPad _ _ => None
  end.

(* the elements of a region: paddings and volumes, in order *)
Fixpoint abs_region (elems : list node) (pend : bytes) : option (list (bytes * vspec) * bytes) :=
  match elems with
  | [] => Some ([], pend)
  | NPad _ b :: r => abs_region r (pend ++ b)
  | (NVol _ _ _ as n) :: r =>
    match abs n, abs_region r [] with
    | Some (AV v), Some (l, trail) => Some ((pend, v) :: l, trail)
    | _, _ => None
    end
  | _ :: _ => None
  end.

Section InGrammar.
Variable dec : Z -> bytes -> option bytes.
Variable enc : Z -> bytes -> option bytes.
Variable u2s s2u : bytes -> bytes.
Variable nvar : bytes -> option bytes.

Definition abstract_region (d : nat) (b : bytes) : option (list (bytes * vspec) * bytes) :=
  match parse_region dec u2s nvar d b with
  | Ok (elems, _) => abs_region elems []
  | _ => None
  end.

(* decidable on arbitrary bytes: the image is the serialisation of a well-formed grammar value *)
Definition in_grammar (d : nat) (b : bytes) : bool :=
  match abstract_region d b with
  | Some (l, trail) => wfb_region u2s s2u l trail && bytes_eqb (emit_region l trail) b
  | None => false
  end.

End InGrammar.
