(* Model/Edit.v — executable model of the edit operations of utk on a parsed image, on top of
   the shared UEFI model Model/Ffs.v (tree type [node], parsers, assembler pieces).

   Transcribes (Go, /repo):
     pkg/guid/guid.go            String (mixed-endian text form), Parse
     pkg/visitors/find.go        Find.Run/Visit with the currentFile single-match logic,
                                 FindFilePredicate, FindFileFVPredicate, FindFileTypePredicate
     pkg/visitors/insert.go      Insert.Run (0 / 1 / >= 2 matches; a matched volume accepts front/end
                                 only), Insert.Visit (index loop + the five slice surgeries),
                                 parseFile = uefi.NewFile at ParseCLI time, the CLI spellings
                                 insert_front/_end/_after/_before/_dxe, replace_ffs, insert file ...
     pkg/visitors/remove.go      Remove.Run (plain mode), Remove.Visit (index loop with i--/break,
                                 pad replacement for Pad or PEIM through uefi.CreatePadFile), remove
                                 and remove_pad
     pkg/visitors/replacepe32.go ReplacePE32.Run ("MZ" test, 0 / >= 2 matches), Visit
     pkg/visitors/save.go        Save.Visit = Assemble, then write
     pkg/visitors/cli.go, pkg/utk/utk.go   ParseCLI (all visitors are created, files to insert are
                                 parsed, BEFORE the image is parsed), uefi.Parse, ExecuteCLI
     pkg/visitors/assemble.go    the shared model's (Ffs.asm / asm_vol / asm_bios, which carry the
                                 empty-volume repair); the code before the repair survives as
                                 [asm_vol_pinned] / [asm_bios_pinned] for the ..._refuted theorems.

   Pointer identity.  Go compares *uefi.File pointers (f.Files[i] == m).  Every file node of a parsed
   tree is a distinct object and Find puts a file into Matches exactly when [fmatch] holds of it (a
   function of the file's value: its GUID, or a section it owns, matches); the literal [find_node]
   below returns the matches by value in Go's order, lemma find_count ties its length to the number
   of nodes satisfying the match predicate, and the surgery is driven by [fmatch].  A pad file made by
   CreatePadFile is a new object that is never in Matches: the loops never test it.

   The regular-expression layer is the [pred] oracle of DESIGN 5.0: a literal argument ([TLit]) is
   ASCII-case-insensitive equality [ci_eqb] (exact for arguments without regexp metacharacters and
   names without U+017F / U+212A); a pattern ([TSet]) is given by the set of texts it matches in
   full, which the executor computes independently of fiano's predicate builders.

   Not modelled: a nil NewFile (NewFile answers (nil, nil) for erased bytes: [parse_cli] reports
   E_CLI), `insert pad_file` (fails at ParseCLI: erase polarity still poisoned), remove_dxes_except,
   repack, create-fv, tighten_me, nvram-compact, flatten/extract/parsedir, Undo closures (C11),
   log/JSON output of the read-only visitors (they do not touch the tree: [CRead]). *)
From Fiano Require Import Base.Bytes Gen.Consts Model.Ffs.
Open Scope Z_scope.

(* error classes of this layer (continuing Ffs.v's numbering) *)
Definition E_NOMATCH : Z := 30.
Definition E_MULTI : Z := 31.
Definition E_INSKIND : Z := 32.   (* matched a volume but the operation needs a file *)
Definition E_NOTPE : Z := 33.     (* replacement is not an "MZ" image *)
Definition E_CLI : Z := 34.       (* ParseCLI: file to insert does not parse *)

(* ---------- pkg/guid ---------- *)

Definition hexdigit (v : Z) : Z := if v <? 10 then 48 + v else 55 + v.     (* %X *)
Definition hex2 (b : Z) : bytes := [hexdigit (b / 16); hexdigit (b mod 16)].  (* %02X *)
Definition hexs (l : bytes) : bytes := flat_map hex2 l.

(* reverse() of the fields 4,2,2,1,1,1,1,1,1,1,1 *)
Definition guid_swap (g : bytes) : bytes :=
  rev (sub 0 4 g) ++ rev (sub 4 2 g) ++ rev (sub 6 2 g) ++ zskipn 8 g.

(* GUID.String *)
Definition guid_string (g : bytes) : bytes :=
  let u := guid_swap g in
  hexs (sub 0 4 u) ++ [45] ++ hexs (sub 4 2 u) ++ [45] ++ hexs (sub 6 2 u) ++ [45] ++
  hexs (sub 8 2 u) ++ [45] ++ hexs (sub 10 6 u).

Definition hexval (c : Z) : option Z :=
  if (48 <=? c) && (c <=? 57) then Some (c - 48)
  else if (97 <=? c) && (c <=? 102) then Some (c - 87)
  else if (65 <=? c) && (c <=? 70) then Some (c - 55)
  else None.

(* hex.DecodeString *)
Fixpoint hex_decode (s : bytes) : option bytes :=
  match s with
  | [] => Some []
  | a :: b :: r =>
    match hexval a, hexval b, hex_decode r with
    | Some x, Some y, Some t => Some (16 * x + y :: t)
    | _, _, _ => None
    end
  | _ => None
  end.

(* guid.Parse *)
Definition guid_parse (s : bytes) : option bytes :=
  match hex_decode (filter (fun c => negb (c =? 45)) s) with
  | Some d => if zlen d =? 16 then Some (guid_swap d) else None
  | None => None
  end.

(* ---------- predicates ---------- *)

Definition lower (c : Z) : Z := if (65 <=? c) && (c <=? 90) then c + 32 else c.
Definition ci_eqb (a b : bytes) : bool := bytes_eqb (map lower a) (map lower b).

(* what the command line can select by: a text (file GUID / UI name, and with [fvp] also the
   volume name: FindFileFVPredicate) or a file type (insert_dxe) *)
Inductive sel :=
| SText (fvp : bool) (a : bytes)
| SType (t : Z)
| SAny (fvp : bool) (l : list bytes).   (* a pattern, given as the set of texts it matches in full *)

(* FirmwareVolume.FVName: the zero GUID when the volume has no extended header *)
Definition fv_name (h : volhdr) : bytes :=
  match v_extname h with [] => zrepeat 0 16 | g => g end.

Definition pred_file (s : sel) (h : filehdr) : bool :=
  match s with
  | SText _ a => ci_eqb (guid_string (f_guid h)) a
  | SType t => f_type h =? t
  | SAny _ l => existsb (ci_eqb (guid_string (f_guid h))) l
  end.
Definition pred_sec (s : sel) (h : sechdr) : bool :=
  match s with
  | SText _ a => ci_eqb (s_name h) a
  | SType _ => false
  | SAny _ l => existsb (ci_eqb (s_name h)) l
  end.
Definition pred_fv (s : sel) (h : volhdr) : bool :=
  match s with
  | SText true a => ci_eqb (guid_string (fv_name h)) a
  | SAny true l => existsb (ci_eqb (guid_string (fv_name h))) l
  | _ => false
  end.

(* ---------- find.go ---------- *)

(* Find.Visit.  [cur] is v.currentFile; the result is (v.Matches contributed, v.currentFile after).
   The File case works on a clone v2 and merges v2.Matches; the visitor it was called on keeps its
   currentFile. *)
Section Find.
Variable s : sel.

Fixpoint find_node (n : node) (cur : option node) {struct n} : list node * option node :=
  let find_list :=
    fix find_list (l : list node) (cur : option node) : list node * option node :=
      match l with
      | [] => ([], cur)
      | x :: r =>
        let '(m1, c1) := find_node x cur in
        let '(m2, c2) := find_list r c1 in
        (m1 ++ m2, c2)
      end in
  match n with
  | NFile h buf kids =>
    let hit := pred_file s h in
    let '(m2, _) := find_list kids (if hit then None else Some n) in
    ((if hit then [n] else []) ++ m2, cur)
  | NSec h buf kids =>
    let hit := match cur with Some _ => pred_sec s h | None => false end in
    let m := if hit then match cur with Some f => [f] | None => [] end else [] in
    let '(m2, c2) := find_list kids (if hit then None else cur) in
    (m ++ m2, c2)
  | NVol h buf kids =>
    let '(m2, c2) := find_list kids cur in
    ((if pred_fv s h then [n] else []) ++ m2, c2)
  | NPad _ _ => ([], cur)
  end.

Fixpoint find_list (l : list node) (cur : option node) : list node * option node :=
  match l with
  | [] => ([], cur)
  | x :: r =>
    let '(m1, c1) := find_node x cur in
    let '(m2, c2) := find_list r c1 in
    (m1 ++ m2, c2)
  end.

End Find.

(* Find.Run on the BIOS region *)
Definition find_elems (s : sel) (elems : list node) : list node := fst (find_list s elems None).

(* the value-level content of "this file is in Matches": its own header matches, or a section it
   owns (reached without entering another file) does.  (A volume below a section holds files only,
   so the NVol case is [false] on every parsed tree; it is written so that the statement about
   [find_node] holds for every value of type [node].) *)
Fixpoint sec_hits (s : sel) (n : node) {struct n} : bool :=
  match n with
  | NSec h _ kids => pred_sec s h || existsb (sec_hits s) kids
  | NVol _ _ kids => existsb (sec_hits s) kids
  | _ => false
  end.
Definition fmatch (s : sel) (n : node) : bool :=
  match n with
  | NFile h _ kids => pred_file s h || existsb (sec_hits s) kids
  | _ => false
  end.
Definition vmatch (s : sel) (n : node) : bool :=
  match n with NVol h _ _ => pred_fv s h | _ => false end.

Definition file_type (n : node) : Z := match n with NFile h _ _ => f_type h | _ => 0 end.

(* ---------- helpers ---------- *)

Section MapOut.
Context {A B : Type}.
Variable f : A -> outcome B.
Fixpoint map_out (l : list A) : outcome (list B) :=
  match l with
  | [] => Ok []
  | x :: r => do y <- f x; do ys <- map_out r; Ok (y :: ys)
  end.
End MapOut.

(* Go's s[i] and s[lo:hi] on a slice of nodes *)
Definition idx {A} (i : Z) (l : list A) : option A :=
  if (0 <=? i) && (i <? zlen l) then nth_error l (Z.to_nat i) else None.
Definition slc {A} (lo hi : Z) (l : list A) : option (list A) :=
  if (0 <=? lo) && (lo <=? hi) && (hi <=? zlen l)
  then Some (zfirstn (hi - lo) (zskipn lo l)) else None.
Fixpoint set_nth {A} (n : nat) (x : A) (l : list A) : list A :=
  match l with
  | [] => []
  | y :: r => match n with O => x :: r | S k => y :: set_nth k x r end
  end.

(* uefi.CreatePadFile as a tree node (the bytes are Ffs.create_pad_file's) *)
Definition pad_node (pol size : Z) : outcome node :=
  if size <? file_header_min_length then Err E_PADSIZE else
  if negb ((pol =? 255) || (pol =? 0)) then Err E_POLARITY else
  let '(ext, attr) := set_size 0 size false in
  let dlen := if attr_large attr then size - file_header_ext_min_length else size - file_header_min_length in
  let h := mkFile (zrepeat pol 16) 0 0 fv_filetype_pad attr (write3 ext) (Z.lxor file_state_valid pol) ext 0 None in
  let '(h', b) := checksum_and_assemble h ext attr (zrepeat pol dlen) in
  Ok (NFile h' b []).

(* ---------- insert.go ---------- *)

Inductive itype := IFront | IEnd | IAfter | IBefore | IDxe | IReplace.

(* for i := 0; i < len(f.Files); i++ { if f.Files[i] == v.FileMatch *)
Fixpoint first_match (s : sel) (files : list node) (i : Z) : option Z :=
  match files with
  | [] => None
  | f :: r => if fmatch s f then Some i else first_match s r (i + 1)
  end.

(* the switch on v.InsertType inside the loop *)
Definition ins_at (it : itype) (nf : node) (files : list node) (i : Z) : outcome (list node) :=
  match it with
  | IFront => Ok (nf :: files)
  | IDxe | IEnd => Ok (files ++ [nf])
  | IAfter =>
    do a <- of_opt 601 (slc 0 (i + 1) files);
    do b <- of_opt 602 (slc (i + 1) (zlen files) files);
    Ok (a ++ nf :: b)
  | IBefore =>
    do a <- of_opt 603 (slc 0 i files);
    do b <- of_opt 604 (slc i (zlen files) files);
    Ok (a ++ nf :: b)
  | IReplace =>
    do a <- of_opt 605 (slc 0 i files);
    do b <- of_opt 606 (slc (i + 1) (zlen files) files);
    Ok (a ++ nf :: b)
  end.

(* Insert.Visit: the first volume (preorder) that lists the matched file is edited and not entered *)
Fixpoint ins_visit (it : itype) (s : sel) (nf : node) (n : node) {struct n} : outcome node :=
  match n with
  | NVol h buf files =>
    match first_match s files 0 with
    | Some i => do fs <- ins_at it nf files i; Ok (NVol h buf fs)
    | None => do fs <- map_out (ins_visit it s nf) files; Ok (NVol h buf fs)
    end
  | NFile h buf kids => do ks <- map_out (ins_visit it s nf) kids; Ok (NFile h buf ks)
  | NSec h buf kids => do ks <- map_out (ins_visit it s nf) kids; Ok (NSec h buf ks)
  | NPad _ _ => Ok n
  end.

(* Insert.Run when the single match is a volume: fvMatch.Files is edited directly *)
Fixpoint ins_fv (front : bool) (s : sel) (nf : node) (n : node) {struct n} : node :=
  match n with
  | NVol h buf files =>
    if pred_fv s h then NVol h buf (if front then nf :: files else files ++ [nf])
    else NVol h buf (map (ins_fv front s nf) files)
  | NFile h buf kids => NFile h buf (map (ins_fv front s nf) kids)
  | NSec h buf kids => NSec h buf (map (ins_fv front s nf) kids)
  | NPad _ _ => n
  end.

Definition insert_run (it : itype) (s : sel) (nf : node) (elems : list node) : outcome (list node) :=
  match find_elems s elems with
  | [] => Err E_NOMATCH
  | [m] =>
    match m with
    | NVol _ _ _ =>
      match it with
      | IFront => Ok (map (ins_fv true s nf) elems)
      | IEnd => Ok (map (ins_fv false s nf) elems)
      | _ => Err E_INSKIND
      end
    | NFile _ _ _ => map_out (ins_visit it s nf) elems
    | _ => Err E_INSKIND
    end
  | _ => Err E_MULTI
  end.

(* ---------- remove.go ---------- *)

(* the two loops of Remove.Visit on one volume's file list; [fuel] covers len(files) - i *)
Fixpoint rm_loop (s : sel) (pol : Z) (pad : bool) (fuel : nat) (files : list node) (i : Z)
  : outcome (list node) :=
  match fuel with
  | O => Fuel
  | S k =>
    if i <? zlen files then
      match idx i files with
      | None => Panic 611
      | Some f =>
        if fmatch s f then
          if pad || (file_type f =? fv_filetype_peim) then
            do pf <- pad_node pol (file_ext f);
            rm_loop s pol pad k (set_nth (Z.to_nat i) pf files) (i + 1)
          else
            do a <- of_opt 612 (slc 0 i files);
            do b <- of_opt 613 (slc (i + 1) (zlen files) files);
            rm_loop s pol pad k (a ++ b) (i - 1 + 1)
        else rm_loop s pol pad k files (i + 1)
      end
    else Ok files
  end.

(* Remove.Visit: the volume's own list first, then ApplyChildren on the new list; [d] is depth fuel *)
Fixpoint rm_visit (d : nat) (s : sel) (pol : Z) (pad : bool) (n : node) {struct d} : outcome node :=
  match d with
  | O => Fuel
  | S d' =>
    match n with
    | NVol h buf files =>
      do fs <- rm_loop s pol pad (S (length files)) files 0;
      do fs' <- map_out (rm_visit d' s pol pad) fs;
      Ok (NVol h buf fs')
    | NFile h buf kids => do ks <- map_out (rm_visit d' s pol pad) kids; Ok (NFile h buf ks)
    | NSec h buf kids => do ks <- map_out (rm_visit d' s pol pad) kids; Ok (NSec h buf ks)
    | NPad _ _ => Ok n
    end
  end.

(* Remove.Run: no match is not an error *)
Definition remove_run (d : nat) (s : sel) (pol : Z) (pad : bool) (elems : list node)
  : outcome (list node) :=
  map_out (rm_visit d s pol pad) elems.

(* ---------- replacepe32.go ---------- *)

(* ReplacePE32.Visit below the matched file: every PE32 section reached through sections *)
Fixpoint pe_sec (pe : bytes) (n : node) {struct n} : node :=
  match n with
  | NSec h buf kids =>
    if s_type h =? section_type_pe32 then let '(h', nb) := gen_sec_header h pe in NSec h' nb []
    else NSec h buf (map (pe_sec pe) kids)
  | _ => n
  end.

Fixpoint pe_visit (s : sel) (pe : bytes) (n : node) {struct n} : node :=
  match n with
  | NFile h buf kids =>
    if fmatch s n then NFile h buf (map (pe_sec pe) kids)
    else NFile h buf (map (pe_visit s pe) kids)
  | NVol h buf files => NVol h buf (map (pe_visit s pe) files)
  | NSec h buf kids => NSec h buf (map (pe_visit s pe) kids)
  | NPad _ _ => n
  end.

Definition replace_pe32_run (s : sel) (pe : bytes) (elems : list node) : outcome (list node) :=
  if negb (prefixb [77; 90] pe) then Err E_NOTPE else
  match find_elems s elems with
  | [] => Err E_NOMATCH
  | [_] => Ok (map (pe_visit s pe) elems)
  | _ => Err E_MULTI
  end.

(* ---------- abstraction of a volume (property C03) ---------- *)

Definition is_pad (n : node) : bool := match n with NFile h _ _ => f_type h =? fv_filetype_pad | _ => false end.
Definition abs_file (n : node) : bytes * Z * Z * bytes :=
  match n with
  | NFile h buf _ => (f_guid h, f_type h, f_attr h, zskipn (file_hlen (f_attr h)) buf)
  | _ => ([], 0, 0, [])
  end.
Definition abs_files (files : list node) : list (bytes * Z * Z * bytes) :=
  map abs_file (filter (fun f => negb (is_pad f)) files).
Definition abs_fv (n : node) : list (bytes * Z * Z * bytes) :=
  match n with NVol _ _ files => abs_files files | _ => [] end.

(* ---------- assemble.go: the shared model's (Ffs.asm, Ffs.asm_vol, Ffs.asm_bios) ---------- *)

(* the early return of the volume case: the buffer already holds the volume (the condition of
   Ffs.asm_vol's first test) *)
Definition vol_verbatim (h : volhdr) (files : list node) : bool :=
  (match files with [] => true | _ => false end) && negb (supported_fv (v_guid h)).

Section EditModel.

Variable dec : Z -> bytes -> option bytes.
Variable enc : Z -> bytes -> option bytes.
Variable u2s : bytes -> bytes.
Variable s2u : bytes -> bytes.
Variable nvar : bytes -> option bytes.

(* The code before fixes/C03-assemble-empty-volume.diff (DESIGN section 6 #20), kept only for the
   ..._refuted theorems: Assemble returned early for EVERY volume with an empty file list, so the
   volume kept its stale buffer.  [asm_vol_pinned] is that volume case; [asm_bios_pinned] applies it
   to the region's own volumes (all other nodes go through Ffs.asm). *)
Definition asm_vol_pinned (pol : Z) (ffs3 : bool) (h : volhdr) (buf : bytes) (files : list node)
  : outcome (volhdr * bytes) :=
  match files with
  | [] => Ok (h, buf)
  | _ => asm_vol pol ffs3 h buf files
  end.

Definition asm_elem_pinned (x : node) (st : ast) : outcome (node * ast) :=
  match x with
  | NVol h buf [] =>
    match set_polarity (fst st) (fv_polarity (v_attrs h)) with
    | None => Err E_POLARITY
    | Some pol0 =>
      do hb <- asm_vol_pinned pol0 false h buf [];
      let '(h', nb) := hb in Ok (NVol h' nb [], (pol0, snd st))
    end
  | _ => asm enc s2u x st
  end.

Fixpoint asm_elems_pinned (l : list node) (st : ast) : outcome (list node * ast) :=
  match l with
  | [] => Ok ([], st)
  | x :: r =>
    do xs <- asm_elem_pinned x st; let '(x', st1) := xs in
    do rs <- asm_elems_pinned r st1; let '(r', st2) := rs in
    Ok (x' :: r', st2)
  end.

Definition asm_bios_pinned (elems : list node) (length : Z) (st : ast)
  : outcome (list node * bytes * ast) :=
  do es <- asm_elems_pinned elems st; let '(elems', st1) := es in
  match first_fv elems' with
  | None => Err E_NOFV
  | Some vh =>
    match set_polarity (fst st1) (fv_polarity (v_attrs vh)) with
    | None => Err E_POLARITY
    | Some pol =>
      do b <- copy_elems (zrepeat pol length) 0 elems';
      Ok (elems', b, (pol, snd st1))
    end
  end.

(* ---------- the command line: ParseCLI, uefi.Parse, ExecuteCLI, Save ---------- *)

(* what an operation names: a literal text, or a regular expression given by the set of texts
   (file GUID texts, UI names, volume names) that it matches in full - the [pred] oracle of DESIGN
   5.0, computed by the executor with an independent full-match evaluation *)
Inductive tsel :=
| TLit (a : bytes)
| TSet (l : list bytes).
Definition sel_of (fvp : bool) (t : tsel) : sel :=
  match t with TLit a => SText fvp a | TSet l => SAny fvp l end.

(* an operation as written on the command line *)
Inductive op :=
| OInsert (it : itype) (a : tsel) (fb : bytes)   (* target; bytes of the file to insert *)
| ORemove (pad : bool) (a : tsel)
| OReplacePE32 (a : tsel) (pe : bytes)
| ORead.                                         (* find json table count validate cat dump comment *)

(* the visitor ParseCLI builds *)
Inductive cop :=
| CInsert (it : itype) (s : sel) (nf : node)
| CRemove (pad : bool) (s : sel)
| CReplacePE32 (s : sel) (pe : bytes)
| CRead.

Definition parse_op (d : nat) (pol : Z) (o : op) : outcome (cop * Z) :=
  match o with
  | OInsert it a fb =>
    do fp <- parse_file dec u2s nvar d pol fb;
    let '(fo, pol') := fp in
    match fo with
    | None => Err E_CLI
    | Some nf => Ok (CInsert it (match it with IDxe => SType fv_filetype_dxecore | _ => sel_of true a end) nf, pol')
    end
  | ORemove pad a => Ok (CRemove pad (sel_of false a), pol)
  | OReplacePE32 a pe => Ok (CReplacePE32 (sel_of false a) pe, pol)
  | ORead => Ok (CRead, pol)
  end.

Fixpoint parse_cli (d : nat) (pol : Z) (ops : list op) : outcome (list cop * Z) :=
  match ops with
  | [] => Ok ([], pol)
  | o :: r =>
    do cp <- parse_op d pol o; let '(c, pol1) := cp in
    do rp <- parse_cli d pol1 r; let '(cs, pol2) := rp in
    Ok (c :: cs, pol2)
  end.

(* Visitor.Run; [pol] is uefi.Attributes.ErasePolarity after parsing *)
Definition run_op (d : nat) (pol : Z) (c : cop) (elems : list node) : outcome (list node) :=
  match c with
  | CInsert it s nf => insert_run it s nf elems
  | CRemove pad s => remove_run d s pol pad elems
  | CReplacePE32 s pe => replace_pe32_run s pe elems
  | CRead => Ok elems
  end.

(* ExecuteCLI *)
Fixpoint run_ops (d : nat) (pol : Z) (cs : list cop) (elems : list node) : outcome (list node) :=
  match cs with
  | [] => Ok elems
  | c :: r => do e1 <- run_op d pol c elems; run_ops d pol r e1
  end.

(* utk <image> <ops...> save <out>: the bytes written, or the error that prevents writing;
   [pinned] selects the code before the empty-volume repair (for the ..._refuted theorem only) *)
Definition edit_and_save_gen (pinned : bool) (d : nat) (ops : list op) (img : bytes) : outcome bytes :=
  do cp <- parse_cli d 240 ops; let '(cops, pol0) := cp in
  do ep <- parse_bios dec u2s nvar d (Z.to_nat (zlen img) + 1) pol0 img 0;
  let '(elems, pol) := ep in
  do elems' <- run_ops d pol cops elems;
  do r <- (if pinned then asm_bios_pinned elems' (zlen img) (pol, false)
           else asm_bios enc s2u elems' (zlen img) (pol, false));
  let '(_, b, _) := r in Ok b.

Definition edit_and_save (d : nat) (ops : list op) (img : bytes) : outcome bytes :=
  edit_and_save_gen false d ops img.

End EditModel.
