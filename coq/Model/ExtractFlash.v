(* Model/ExtractFlash.v — the flash level of "utk IMAGE extract DIR" / "utk DIR save OUT" (property C07).

   Built on the descriptor / region model of Model/TightenMe.v and Model/FlashImage.v ([flash_layout]:
   NewFlashImage with the BIOS region kept as its bytes, [RRaw ifd_type_bios B]); the BIOS region itself
   is the tree of Model/Ffs.v parsed from B, and its directory is Model/Extract.v.

   Transcribes (Go, /repo):
     pkg/visitors/extract.go   Extract.Visit for FlashImage (no case: nothing written, directory "."),
                               FlashDescriptor ("ifd/flashdescriptor.bin"), MERegion ("me/meregion.bin"),
                               RawRegion (directory Type().String(), file "%#x.bin" of
                               FlashRegion().BaseOffset()); the regions that fillRegionGaps makes of the
                               ranges no descriptor entry covers are RawRegions of type Unknown (-1): they
                               share the directory "Unknown Region (-1)" and differ in the file name only
     pkg/visitors/parsedir.go  ParseDir.Visit for the same nodes (FlashImage gets a nil buffer)
     pkg/utk/utk.go, pkg/visitors/save.go, assemble.go
                               two Assemble passes over the flash image: the BIOS region is assembled
                               ([asm_bios]), the descriptor and the image by TightenMe's [save]
     JSON: identity on the fields of FlashImage / FlashDescriptor / FlashDescriptorMap /
     FlashRegionSection / FlashRegion / FlashMasterSection / RawRegion / MERegion that survive
     encoding/json (flags regenerated into Gen/JsonFields.v); [proj_tree] zeroes the others.

   Not modelled: the ME partition table of the JSON (Assemble never reads it: the ME region is its
   buffer), the order in which errors of different regions are reported (class only), flash images
   whose BIOS slot lies outside the image (no BIOS region node: Assemble fails on both routes). *)
From Coq Require Import String.
From Fiano Require Import Base.Bytes Gen.Consts Gen.JsonFields Model.TightenMe Model.FlashImage Model.Ffs
  Model.Extract.
Local Open Scope string_scope.
Open Scope list_scope.
Open Scope Z_scope.

(* ---------- paths of the flash-level nodes ---------- *)

Definition ifd_path : path := [C_ifd; N_ifd].

Definition is_bios_region (r : region) : bool :=
  match r with RRaw i _ => i =? ifd_type_bios | _ => false end.

(* the file a region that is not the BIOS region writes *)
Definition region_path (sl : list fregion) (r : region) : path :=
  match r with
  | RME _ _ _ => [C_me; N_me]
  | RRaw i _ => [C_rawdir i; N_hexbin (base_off (slot sl i))]
  | RGap fr _ => [C_rawdir jf_region_type_unknown; N_hexbin (base_off fr)]
  | RBios _ _ => [C_bios; N_region]
  end.

(* ---------- what survives encoding/json at the flash level ---------- *)

Definition all_survive (l : list (string * bool)) : bool := forallb snd l.

Definition sv_fi_ifd : bool := Eval vm_compute in (fl jf_FlashImage "IFD").
Definition sv_fi_regions : bool := Eval vm_compute in (fl jf_FlashImage "Regions" && sv_typed).
Definition sv_fi_size : bool := Eval vm_compute in (fl jf_FlashImage "FlashSize").
Definition sv_fd_dms : bool := Eval vm_compute in (sv_fi_ifd && fl jf_FlashDescriptor "DescriptorMapStart").
Definition sv_fd_rs : bool := Eval vm_compute in (sv_fi_ifd && fl jf_FlashDescriptor "RegionStart").
Definition sv_fd_ms : bool := Eval vm_compute in (sv_fi_ifd && fl jf_FlashDescriptor "MasterStart").
Definition sv_fd_dmap : bool :=
  Eval vm_compute in (sv_fi_ifd && fl jf_FlashDescriptor "DescriptorMap" && all_survive jf_FlashDescriptorMap).
Definition sv_fd_erase : bool :=
  Eval vm_compute in (sv_fi_ifd && fl jf_FlashDescriptor "Region" && fl jf_FlashRegionSection "FlashBlockEraseSize").
Definition sv_fr : bool := Eval vm_compute in (fl jf_FlashRegion "Base" && fl jf_FlashRegion "Limit").
Definition sv_fd_slots : bool :=
  Eval vm_compute in (sv_fi_ifd && fl jf_FlashDescriptor "Region" && fl jf_FlashRegionSection "FlashRegions" && sv_fr).
Definition sv_fd_master : bool :=
  Eval vm_compute in (sv_fi_ifd && fl jf_FlashDescriptor "Master" && all_survive jf_FlashMasterSection
                      && all_survive jf_RegionPermissions).
Definition sv_fd_path : bool := Eval vm_compute in (sv_fi_ifd && fl jf_FlashDescriptor "ExtractPath").
Definition sv_raw_type : bool := Eval vm_compute in (fl jf_RawRegion "RegionType").
Definition sv_raw_fr : bool := Eval vm_compute in (fl jf_RawRegion "FRegion" && sv_fr).
Definition sv_raw_path : bool := Eval vm_compute in (fl jf_RawRegion "ExtractPath").
Definition sv_me_path : bool := Eval vm_compute in (fl jf_MERegion "ExtractPath").
Definition sv_me_fso : bool := Eval vm_compute in (fl jf_MERegion "FreeSpaceOffset").

Definition proj_fr (fr : fregion) : fregion := if sv_raw_fr then fr else mkFR 0 0.

(* a region after Marshal/Unmarshal, with the buffer [b] that ParseDir read for it.  A RawRegion whose
   RegionType were lost would come back as type 0. *)
Definition proj_region (r : region) (b : bytes) : region :=
  match r with
  | RME _ fpt fso => RME b fpt (if sv_me_fso then fso else 0)
  | RRaw i _ => RRaw (if sv_raw_type then i else 0) b
  | RGap fr _ => if sv_raw_type then RGap (proj_fr fr) b else RRaw 0 b
  | RBios els len => RBios els len
  end.

Definition proj_tree (t : tree) (ifd : bytes) (regs : list region) : tree :=
  mkTree ifd
         (if sv_fd_dms then t_dms t else 0)
         (if sv_fd_rs then t_rs t else 0)
         (if sv_fd_ms then t_ms t else 0)
         (if sv_fd_dmap then t_dmap t else zrepeat 0 16)
         (if sv_fd_erase then t_erase t else 0)
         (if sv_fd_slots then t_slots t else map (fun _ => mkFR 0 0) (t_slots t))
         (if sv_fd_master then t_master t else zrepeat 0 12)
         (if sv_fi_regions then regs else [])
         (if sv_fi_size then t_size t else 0).

Section FlashDir.
Variable dec : Z -> bytes -> option bytes.
Variable enc : Z -> bytes -> option bytes.
Variable u2s : bytes -> bytes.
Variable s2u : bytes -> bytes.
Variable nvar : bytes -> option bytes.
Variable mangle3 : Z -> Z.
Variable d : nat.

(* the BIOS region of a flash layout: its bytes, parsed (NewBIOSRegion runs first, polarity poisoned) *)
Fixpoint bios_bytes (rs : list region) : option bytes :=
  match rs with
  | [] => None
  | r :: rest => if is_bios_region r then Some (region_buf r) else bios_bytes rest
  end.

Definition bios_tree (t : tree) : outcome (option (bytes * list node)) :=
  match bios_bytes (t_regions t) with
  | None => Ok None
  | Some B => do ep <- parse_region dec u2s nvar d B; let '(elems, _) := ep in Ok (Some (B, elems))
  end.

(* ---------- Extract ---------- *)

(* the files of the regions, in visiting order; [bf] = the files of the BIOS region *)
Fixpoint region_files (sl : list fregion) (bf : fs) (rs : list region) : fs :=
  match rs with
  | [] => []
  | r :: rest =>
    (if is_bios_region r then bf else [(region_path sl r, region_buf r)]) ++ region_files sl bf rest
  end.

Definition flash_files (t : tree) (bf : fs) : fs :=
  (ifd_path, t_ifd t) :: region_files (t_slots t) bf (t_regions t).

(* ---------- ParseDir ---------- *)

Definition read_file (f : fs) (survives : bool) (p : path) : outcome bytes :=
  read_buf f survives (Some p).

Fixpoint reload_regions (f : fs) (sl : list fregion) (rs : list region) : outcome (list region) :=
  match rs with
  | [] => Ok []
  | r :: rest =>
    do r' <- (if is_bios_region r then Ok r   (* the buffer of the BIOS node is rebuilt by Assemble *)
              else do b <- read_file f (match r with RME _ _ _ => sv_me_path | _ => sv_raw_path end)
                                       (region_path sl r);
                   Ok (proj_region r b));
    do more <- reload_regions f sl rest;
    Ok (r' :: more)
  end.

(* ---------- Assemble ---------- *)

Definition set_bios_buf (b : bytes) (r : region) : region :=
  match r with RRaw i _ => if i =? ifd_type_bios then RRaw i b else r | x => x end.

Definition with_ifd (t : tree) (ifd : bytes) : tree :=
  mkTree ifd (t_dms t) (t_rs t) (t_ms t) (t_dmap t) (t_erase t) (t_slots t) (t_master t) (t_regions t) (t_size t).
Definition with_regions (t : tree) (rs : list region) : tree :=
  mkTree (t_ifd t) (t_dms t) (t_rs t) (t_ms t) (t_dmap t) (t_erase t) (t_slots t) (t_master t) rs (t_size t).

(* one Assemble pass over a flash image: BIOS region (Ffs), then descriptor and image (TightenMe.save);
   returns the tree as it is afterwards and the image buffer *)
Definition flash_pass (t : tree) (bios : option (list node * Z)) (st : ast)
  : outcome (tree * option (list node * Z) * bytes * ast) :=
  do x <- (match bios with
           | None => Ok (t, None, st)
           | Some (elems, len) =>
             do r <- asm_bios enc s2u elems len st; let '(e', b, st') := r in
             Ok (with_regions t (map (set_bios_buf b) (t_regions t)), Some (e', len), st')
           end);
  let '(t1, bios', st') := x in
  do out <- save erase_polarity_poison t1;
  Ok (with_ifd t1 (assemble_ifd t1), bios', out, st').

(* utk.Run(DIR, "save"): Assemble, then Save.Visit assembles again (fresh visitor, polarity kept) *)
Definition flash_save_twice (t : tree) (bios : option (list node * Z)) : outcome bytes :=
  do p1 <- flash_pass t bios (240, false); let '(t1, b1, _, st1) := p1 in
  do p2 <- flash_pass t1 b1 (fst st1, false); let '(_, _, out, _) := p2 in
  Ok out.

(* ---------- the two routes ---------- *)

(* parse, then the two passes on the tree itself *)
Definition flash_save_twice_image (img : bytes) : outcome bytes :=
  match find_signature img with
  | Ok _ =>
    do t <- flash_layout img;
    do bt <- bios_tree t;
    flash_save_twice t (match bt with Some (B, elems) => Some (elems, zlen B) | None => None end)
  | _ => save_twice_image dec enc u2s s2u nvar d img
  end.

(* the files "extract" writes for a flash image *)
Definition flash_extract (t : tree) (bt : option (bytes * list node)) : outcome (list jnode * fs) :=
  do x <- (match bt with
           | None => Ok ([], [])
           | Some (B, elems) => do r <- extract_region B elems; let '(js, _, f) := r in Ok (js, f)
           end);
  let '(js, bf) := x in Ok (js, flash_files t bf).

(* utk.Run(IMAGE, "extract", DIR); utk.Run(DIR, "save", OUT) *)
Definition flash_dir_save (img : bytes) : outcome bytes :=
  match find_signature img with
  | Ok _ =>
    do t <- flash_layout img;
    do bt <- bios_tree t;
    do x <- flash_extract t bt; let '(js, f) := x in
    (* ParseDir *)
    do ifd <- read_file f sv_fd_path ifd_path;
    do regs <- reload_regions f (t_slots t) (t_regions t);
    do bios' <- (match bt with
                 | None => Ok None
                 | Some (B, _) =>
                   do els <- reload_list mangle3 f (if sv_reg_elems then js else []);
                   Ok (Some (els, if sv_reg_length then zlen B else 0))
                 end);
    flash_save_twice (proj_tree t ifd regs) bios'
  | _ => dir_save dec enc u2s s2u nvar mangle3 d img
  end.

(* the paths written, in write order *)
Definition flash_extract_paths (img : bytes) : outcome (list path) :=
  match find_signature img with
  | Ok _ =>
    do t <- flash_layout img;
    do bt <- bios_tree t;
    do x <- flash_extract t bt; let '(_, f) := x in Ok (map fst f)
  | _ => extract_paths dec u2s nvar d img
  end.

End FlashDir.
