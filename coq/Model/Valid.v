(* Model/Valid.v — [valid_image]: the independent reader of property C02.

   Written from the property text (UEFI PI vol. 3 layout), not from fiano's parser or validator:
     volume   signature, Length <= bytes present (nested: = section body), even HeaderLength within
              the volume, 16-bit header checksum 0, block map terminated inside the header and
              sum(count*size) = Length, data offset (after the extended header, 8-aligned) within
              the volume;
     files    (FFS2/FFS3 volumes) consecutive at 8-aligned offsets; size field >= header size and
              within the volume; large attribute <=> 3-byte size is FFFFFF; header checksum 0 with
              State and IntegrityCheck.File taken as 0; body checksum (attribute bit 6) or 0xAA;
              data offset aligned as the attribute bits demand; no overlap by construction of the
              walk; after the last file only erased bytes up to the end of the volume;
     sections (file types that hold sections) consecutive at 4-aligned offsets, header <= size,
              size within the file; a firmware-volume-image section holds a valid volume of exactly
              its body size (recursively, depth fuel).
              a GUID-defined section with the processing-required bit whose GUID is the LZMA or the
              ZLIB codec is opened with the codec oracle [dec]: the payload must decode and the
              decoded bytes must again be a valid sequence of sections (recursively, depth fuel).
   LZMA+x86 and Brotli payloads are not opened.  The flash-descriptor level is not modelled
   (property C12).  No proofs here. *)
From Fiano Require Import Base.Bytes Model.Ffs.
Open Scope Z_scope.

Definition all_eq (v : Z) (b : bytes) : bool := forallb (fun x => x =? v) b.

Section Reader.
(* the readers for a nested volume and for the decoded payload of a compressed section (next
   smaller depth), and the codec oracle *)
Variable vfv : bytes -> bool.
Variable venc : bytes -> bool.
Variable dec : Z -> bytes -> option bytes.

(* the GUID-defined section at [off] (header [hl], size [size]) of [b] *)
Definition v_guided (b : bytes) (off hl size : Z) : bool :=
  if size <? hl + 20 then false else
  let g := sub (off + hl) 16 b in
  let doff := rd (off + hl + 16) 2 b in
  let attrs := rd (off + hl + 18) 2 b in
  let k := codec_kind g in
  if negb (Z.land attrs 1 =? 0) && ((k =? 1) || (k =? 3)) then
    if size <? doff then false else
    match dec k (sub (off + doff) (size - doff) b) with
    | Some e => venc e
    | None => false
    end
  else true.

(* sections of file [b] from offset [off] (relative to the file, 4-aligned) *)
Fixpoint v_sections (fuel : nat) (b : bytes) (off : Z) : bool :=
  match fuel with
  | O => false
  | S k =>
    if zlen b <=? off then true else
    if zlen b <? off + 4 then false else
    let size3 := rd off 3 b in
    let t := rd (off + 3) 1 b in
    let big := size3 =? 16777215 in
    if big && (zlen b <? off + 8) then false else
    let hl := if big then 8 else 4 in
    let size := if big then rd (off + 4) 4 b else size3 in
    (hl <=? size) && (off + size <=? zlen b) &&
    (if t =? 23 then vfv (sub (off + hl) (size - hl) b) else true) &&
    (if t =? 2 then v_guided b off hl size else true) &&
    v_sections k b (align4 (off + size))
  end.

(* one file, given exactly its bytes *)
Definition v_file (fb : bytes) : bool :=
  let attr := rd 19 1 fb in
  let size3 := rd 20 3 fb in
  let large := attr_large attr in
  let hl := if large then 32 else 24 in
  Bool.eqb large (size3 =? 16777215) &&
  (hl <=? zlen fb) &&
  ((if large then rd 24 8 fb else size3) =? zlen fb) &&
  ((sum8 (sub 0 hl fb) - rd 17 1 fb - rd 23 1 fb) mod 256 =? 0) &&
  (if attr_checksum attr then (sum8 (zskipn hl fb) + rd 17 1 fb) mod 256 =? 0 else rd 17 1 fb =? 170) &&
  (if supported_file (rd 18 1 fb) then v_sections (S (Z.to_nat (zlen fb))) fb hl else true).

(* size a file header at [off] of [v] announces *)
Definition announced (v : bytes) (off : Z) : Z :=
  if attr_large (rd (off + 19) 1 v) then rd (off + 24) 8 v else rd (off + 20) 3 v.

(* files of volume [v] (exactly Length bytes) from the 8-aligned offset [off] *)
Fixpoint v_files (fuel : nat) (pol : Z) (v : bytes) (off : Z) : bool :=
  match fuel with
  | O => false
  | S k =>
    if zlen v <? off + 24 then all_eq pol (zskipn off v) else
    if all_eq pol (sub off 24 v) then all_eq pol (zskipn off v) else
    let attr := rd (off + 19) 1 v in
    let hl := file_hlen attr in
    if zlen v <? off + hl then false else
    let size := announced v off in
    (hl <=? size) && (off + size <=? zlen v) &&
    v_file (sub off size v) &&
    ((off + hl) mod attr_align attr =? 0) &&
    v_files k pol v (align8 (off + size))
  end.

End Reader.

(* the block map from offset [off]: Some (sum of count*size, offset after the terminator) *)
Fixpoint v_blocks_sum (fuel : nat) (v : bytes) (off : Z) : option (Z * Z) :=
  match fuel with
  | O => None
  | S k =>
    if zlen v <? off + 8 then None else
    let c := rd off 4 v in let s := rd (off + 4) 4 v in
    if (c =? 0) && (s =? 0) then Some (0, off + 8)
    else match v_blocks_sum k v (off + 8) with
         | Some (t, e) => Some (c * s + t, e)
         | None => None
         end
  end.

Section Knot.
Variable dec : Z -> bytes -> option bytes.

(* a volume starting at the head of [v]; [exact]: [v] must be exactly the volume *)
Fixpoint valid_fv (d : nat) (exact : bool) (v : bytes) {struct d} : bool :=
  match d with
  | O => false
  | S d' =>
    if zlen v <? 64 then false else
    let len := rd 32 8 v in
    let hdrlen := rd 48 2 v in
    let eho := rd 52 2 v in
    (rd 40 4 v =? 1213613663) &&                       (* "_FVH" *)
    (64 <=? len) && (len <=? zlen v) && (if exact then zlen v =? len else true) &&
    (64 <=? hdrlen) && (hdrlen <=? len) && Z.even hdrlen &&
    (sum16 (sub 0 hdrlen v) =? 0) &&
    (match v_blocks_sum (S (Z.to_nat (zlen v))) v 56 with
     | Some (t, e) => (t =? len) && (e <=? hdrlen)
     | None => false
     end) &&
    (if eho =? 0 then true else (hdrlen <=? eho) && (eho + 20 <=? len)) &&
    let doff := align8 (if eho =? 0 then hdrlen else eho + rd (eho + 16) 4 v) in
    if supported_fv (sub 16 16 v) then
      (doff <=? len) &&
      v_files (valid_fv d' true) (valid_enc d') dec (S (Z.to_nat len)) (fv_polarity (rd 44 4 v))
              (sub 0 len v) doff
    else true
  end
(* the decoded payload of a compressed section: sections from offset 0 *)
with valid_enc (d : nat) (e : bytes) {struct d} : bool :=
  match d with
  | O => false
  | S d' => v_sections (valid_fv d' true) (valid_enc d') dec (S (Z.to_nat (zlen e))) e 0
  end.

(* a BIOS region: volumes at 8-aligned offsets, anything in between *)
Fixpoint v_region (d : nat) (fuel : nat) (b : bytes) (off : Z) : bool :=
  match fuel with
  | O => false
  | S k =>
    if zlen b <? off + 44 then true else
    if rd (off + 40) 4 b =? 1213613663 then
      valid_fv d false (zskipn off b) && v_region d k b (off + rd (off + 32) 8 b)
    else v_region d k b (off + 8)
  end.

Definition valid_image (d : nat) (b : bytes) : bool := v_region d (S (Z.to_nat (zlen b))) b 0.

End Knot.
