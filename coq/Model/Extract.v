(* Model/Extract.v — executable model of "utk IMAGE extract DIR" followed by "utk DIR save OUT".

   Transcribes (Go, /repo):
     pkg/visitors/extract.go   Extract.Visit / extractBinary / Run: which node writes which buffer under
                               which relative path (FirmwareVolume, File, Section, BIOSPadding, BIOSRegion)
     pkg/visitors/parsedir.go  ParseDir.Parse / Visit / readBuf: buffers re-read by ExtractPath
     pkg/utk/utk.go            Run, directory branch: ParseDir, Assemble, then the "save" visitor which
                               assembles a second time (pkg/visitors/save.go)
     pkg/uefi/uefi.go          MarshalFirmware / UnmarshalFirmware only as "identity on the fields that
                               survive encoding/json", the flags being regenerated from the struct
                               declarations into Gen/JsonFields.v

   Paths are lists of components ([pc]); [render_path] gives the text Go produces (fmt verbs %#x, %v of an
   int, GUID.String) so that the path lists can be compared with the files the tool really writes.

   [json_project] is what survives Marshal+Unmarshal of a node: every model field is kept only when the
   Go field(s) it stands for are exported and not tagged json:"-" (flags looked up by name in
   Gen.JsonFields); the others become Go zero values; buffers are the ones ParseDir re-reads.

   [guid_string]/[guid_parse] are guid.GUID.String and guid.Parse, the text form of every GUID in
   summary.json (proved inverse in ExtractProofs.guid_text_roundtrip).

   Not modelled: the JSON text itself and the hand-written (un)marshalers (TypedFirmware and
   TypeSpecificHeader envelopes, the {"GUID": ...} object around a GUID; ThreeUint8, whose UnmarshalJSON stores the first three characters of the
   decimal text, appears as the arbitrary function [mangle3] : the reloaded File.Header.Size is some
   function of the old value); the entries of an NVAR store (the store is the opaque [f_nvar] of Ffs.v:
   its own extract paths and JSON fields belong to the NVAR model); flash-descriptor images (IFD, ME and
   raw regions); file-system errors other than "file not there"; os.MkdirAll/WriteFile path limits. *)
From Coq Require Import String.
From Fiano Require Import Base.Bytes Model.Ffs Gen.JsonFields.
Local Open Scope string_scope.
Open Scope list_scope.
Open Scope Z_scope.

(* ---------- paths ---------- *)

Inductive pc : Type :=
| C_bios                (* "bios"            BIOSRegion directory *)
| C_hex (v : Z)         (* "%#x"             FirmwareVolume directory: FVOffset *)
| C_padhex (v : Z)      (* "biospad_%#x"     BIOSPadding directory: Offset *)
| C_guid (g : bytes)    (* GUID.String()     File directory, first level *)
| C_dec (v : Z)         (* "%v" of an integer: File directory second level (running index),
                           Section directory (FileOrder) *)
| N_fv                  (* "fv.bin" *)
| N_fvh                 (* "fvh.bin" *)
| N_ffs (g : bytes)     (* "<GUID>.ffs" *)
| N_sec (v : Z)         (* "<FileOrder>.sec" *)
| N_pad                 (* "pad.bin" *)
| N_region              (* "biosregion.bin" *)
(* flash level *)
| C_ifd                 (* "ifd"             FlashDescriptor directory *)
| N_ifd                 (* "flashdescriptor.bin" *)
| C_me                  (* "me"              MERegion directory *)
| N_me                  (* "meregion.bin" *)
| C_rawdir (t : Z)      (* FlashRegionType.String() of a RawRegion: "GbE", ..., "Unknown Region (-1)" *)
| N_hexbin (v : Z).     (* "%#x.bin"         RawRegion file: FlashRegion().BaseOffset() *)

Definition path := list pc.

Definition pc_eqb (a b : pc) : bool :=
  match a, b with
  | C_bios, C_bios | N_fv, N_fv | N_fvh, N_fvh | N_pad, N_pad | N_region, N_region
  | C_ifd, C_ifd | N_ifd, N_ifd | C_me, C_me | N_me, N_me => true
  | C_hex x, C_hex y | C_padhex x, C_padhex y | C_dec x, C_dec y | N_sec x, N_sec y
  | C_rawdir x, C_rawdir y | N_hexbin x, N_hexbin y => x =? y
  | C_guid x, C_guid y | N_ffs x, N_ffs y => bytes_eqb x y
  | _, _ => false
  end.

Fixpoint path_eqb (a b : path) : bool :=
  match a, b with
  | [], [] => true
  | x :: a', y :: b' => pc_eqb x y && path_eqb a' b'
  | _, _ => false
  end.

(* text *)
Fixpoint str (s : string) : bytes :=
  match s with
  | EmptyString => []
  | String c r => Z.of_N (Ascii.N_of_ascii c) :: str r
  end.

Definition digit_lc (d : Z) : Z := if d <? 10 then 48 + d else 87 + d.
Definition digit_uc (d : Z) : Z := if d <? 10 then 48 + d else 55 + d.

(* digits of a non-negative number, least significant first; [fuel] > log2 v always suffices *)
Fixpoint digits_rev (base : Z) (fuel : nat) (v : Z) : bytes :=
  match fuel with
  | O => []
  | S k => if v <? base then [digit_lc v] else digit_lc (v mod base) :: digits_rev base k (v / base)
  end.
Definition digits_of (base v : Z) : bytes := rev (digits_rev base (S (Z.to_nat (Z.log2 v))) v).
Definition render_num (base v : Z) : bytes :=
  if v <? 0 then 45 :: digits_of base (- v) else digits_of base v.

Definition hex2_uc (b : Z) : bytes := [digit_uc (b / 16); digit_uc (b mod 16)].

(* guid.GUID.String: mixed endian, upper case *)
Definition guid_string (g : bytes) : bytes :=
  let b i := hex2_uc (nth i g 0) in
  b 3%nat ++ b 2%nat ++ b 1%nat ++ b 0%nat ++ [45] ++ b 5%nat ++ b 4%nat ++ [45] ++ b 7%nat ++ b 6%nat ++ [45] ++
  b 8%nat ++ b 9%nat ++ [45] ++ b 10%nat ++ b 11%nat ++ b 12%nat ++ b 13%nat ++ b 14%nat ++ b 15%nat.

(* guid.Parse: drop the hyphens, hex-decode (either case), 16 bytes, undo the mixed-endian order *)
Definition unhex1 (c : Z) : option Z :=
  if (48 <=? c) && (c <=? 57) then Some (c - 48)
  else if (65 <=? c) && (c <=? 70) then Some (c - 55)
  else if (97 <=? c) && (c <=? 102) then Some (c - 87)
  else None.
Fixpoint unhex (s : bytes) : option bytes :=
  match s with
  | [] => Some []
  | a :: b :: r =>
    match unhex1 a, unhex1 b, unhex r with
    | Some x, Some y, Some l => Some (16 * x + y :: l)
    | _, _, _ => None
    end
  | _ => None
  end.
Definition guid_parse (s : bytes) : option bytes :=
  match unhex (filter (fun c => negb (c =? 45)) s) with
  | Some [d0; d1; d2; d3; d4; d5; d6; d7; d8; d9; d10; d11; d12; d13; d14; d15] =>
    Some [d3; d2; d1; d0; d5; d4; d7; d6; d8; d9; d10; d11; d12; d13; d14; d15]
  | _ => None
  end.


Definition tx_bios : bytes := Eval vm_compute in (str "bios").
Definition tx_0x : bytes := Eval vm_compute in (str "0x").
Definition tx_biospad0x : bytes := Eval vm_compute in (str "biospad_0x").
Definition tx_fv : bytes := Eval vm_compute in (str "fv.bin").
Definition tx_fvh : bytes := Eval vm_compute in (str "fvh.bin").
Definition tx_ffs : bytes := Eval vm_compute in (str ".ffs").
Definition tx_sec : bytes := Eval vm_compute in (str ".sec").
Definition tx_pad : bytes := Eval vm_compute in (str "pad.bin").
Definition tx_region : bytes := Eval vm_compute in (str "biosregion.bin").
Definition tx_ifd : bytes := Eval vm_compute in (str "ifd").
Definition tx_ifdbin : bytes := Eval vm_compute in (str "flashdescriptor.bin").
Definition tx_me : bytes := Eval vm_compute in (str "me").
Definition tx_mebin : bytes := Eval vm_compute in (str "meregion.bin").
Definition tx_bin : bytes := Eval vm_compute in (str ".bin").
Definition tx_unknown : bytes := Eval vm_compute in (str "Unknown Region (").
(* FlashRegionType.String(): names regenerated from pkg/uefi/region.go *)
Definition region_type_names : list (Z * bytes) :=
  Eval vm_compute in (map (fun p => (fst p, str (snd p))) jf_region_type_names).
Definition region_type_string (t : Z) : bytes :=
  match find (fun p => fst p =? t) region_type_names with
  | Some p => snd p
  | None => tx_unknown ++ render_num 10 t ++ [41]
  end.

Definition render_pc (c : pc) : bytes :=
  match c with
  | C_bios => tx_bios
  | C_hex v => tx_0x ++ render_num 16 v
  | C_padhex v => tx_biospad0x ++ render_num 16 v
  | C_guid g => guid_string g
  | C_dec v => render_num 10 v
  | N_fv => tx_fv
  | N_fvh => tx_fvh
  | N_ffs g => guid_string g ++ tx_ffs
  | N_sec v => render_num 10 v ++ tx_sec
  | N_pad => tx_pad
  | N_region => tx_region
  | C_ifd => tx_ifd
  | N_ifd => tx_ifdbin
  | C_me => tx_me
  | N_me => tx_mebin
  | C_rawdir t => region_type_string t
  | N_hexbin v => tx_0x ++ render_num 16 v ++ tx_bin
  end.

Fixpoint render_path (p : path) : bytes :=
  match p with
  | [] => []
  | [c] => render_pc c
  | c :: r => render_pc c ++ [47] ++ render_path r
  end.

(* ---------- the directory: files in the order they were written; the last write wins ---------- *)

Definition fs := list (path * bytes).

Fixpoint fs_read (f : fs) (p : path) : option bytes :=
  match f with
  | [] => None
  | (q, b) :: r =>
    match fs_read r p with
    | Some x => Some x
    | None => if path_eqb q p then Some b else None
    end
  end.

Definition E_NOFILE : Z := 30.

(* ---------- the JSON tree: the node headers and ExtractPath, no buffers ---------- *)

Inductive jnode : Type :=
| JSec (h : sechdr) (p : option path) (kids : list jnode)
| JFile (h : filehdr) (p : option path) (kids : list jnode)
| JVol (h : volhdr) (p : option path) (kids : list jnode)
| JPad (off : Z) (p : option path).

(* ---------- Extract.Visit ---------- *)

Definition xres := (jnode * fs * Z)%type.
Definition xlres := (list jnode * fs * Z)%type.

(* [dir] = v.DirPath, [idx] = *v.Index (shared by the whole walk; a uint64 in Go: the wrap after 2^64
   files is not modelled) *)
Fixpoint extract (dir : path) (idx : Z) (n : node) {struct n} : outcome xres :=
  let ext_list :=
    fix ext_list (dir : path) (idx : Z) (l : list node) : outcome xlres :=
      match l with
      | [] => Ok ([], [], idx)
      | x :: r =>
        do a <- extract dir idx x; let '(j, f1, i1) := a in
        do b <- ext_list dir i1 r; let '(js, f2, i2) := b in
        Ok (j :: js, f1 ++ f2, i2)
      end in
  match n with
  | NVol h buf kids =>
    let d := dir ++ [C_hex (v_fvoffset h)] in
    do own <-
      (match kids with
       | [] => Ok (d ++ [N_fv], buf)
       | _ => do b <- of_opt 501 (slice 0 (v_dataoff h) buf); Ok (d ++ [N_fvh], b)
       end);
    do ks <- ext_list d idx kids; let '(js, f, i') := ks in
    Ok (JVol h (Some (fst own)) js, own :: f, i')
  | NFile h buf kids =>
    let d := dir ++ [C_guid (f_guid h); C_dec idx] in
    let own :=
      match kids, f_nvar h with
      | [], None => Some (d ++ [N_ffs (f_guid h)], buf)
      | _, _ => None
      end in
    do ks <- ext_list d (idx + 1) kids; let '(js, f, i') := ks in
    Ok (JFile h (option_map fst own) js, (match own with Some o => [o] | None => [] end) ++ f, i')
  | NSec h buf kids =>
    let d := dir ++ [C_dec (s_order h)] in
    let own :=
      match kids with
      | [] => Some (d ++ [N_sec (s_order h)], buf)
      | _ => None
      end in
    do ks <- ext_list d idx kids; let '(js, f, i') := ks in
    Ok (JSec h (option_map fst own) js, (match own with Some o => [o] | None => [] end) ++ f, i')
  | NPad off buf =>
    let p := dir ++ [C_padhex off; N_pad] in
    Ok (JPad off (Some p), [(p, buf)], idx)
  end.

Fixpoint extract_list (dir : path) (idx : Z) (l : list node) : outcome xlres :=
  match l with
  | [] => Ok ([], [], idx)
  | x :: r =>
    do a <- extract dir idx x; let '(j, f1, i1) := a in
    do b <- extract_list dir i1 r; let '(js, f2, i2) := b in
    Ok (j :: js, f1 ++ f2, i2)
  end.

(* Extract.Run on a bare BIOS region ([rbuf] = its buffer): index reset to 0, directory "bios" *)
Definition extract_region (rbuf : bytes) (elems : list node) : outcome (list jnode * option path * fs) :=
  match elems with
  | [] => Ok ([], Some [C_bios; N_region], [([C_bios; N_region], rbuf)])
  | _ => do r <- extract_list [C_bios] 0 elems; let '(js, f, _) := r in Ok (js, None, f)
  end.

(* ---------- what survives encoding/json ---------- *)

Definition fl := jf_survives.
Definition zero_guid : bytes := zrepeat 0 16.

(* TypedFirmware envelope of interface-typed children *)
Definition sv_typed : bool := Eval vm_compute in (fl jf_TypedFirmware "Type" && fl jf_TypedFirmware "Value").

(* Section *)
Definition sv_sec_hdr : bool := Eval vm_compute in (fl jf_Section "Header").
Definition sv_sec_size3 : bool := Eval vm_compute in (sv_sec_hdr && fl jf_SectionExtHeader "Size").
Definition sv_sec_type : bool := Eval vm_compute in (sv_sec_hdr && fl jf_SectionExtHeader "Type").
Definition sv_sec_ext : bool := Eval vm_compute in (sv_sec_hdr && fl jf_SectionExtHeader "ExtendedSize").
Definition sv_sec_ts : bool := Eval vm_compute in (fl jf_Section "TypeSpecific" && fl jf_TypeSpecificHeader "Type" && fl jf_TypeSpecificHeader "Header").
Definition sv_gd_guid : bool := Eval vm_compute in (fl jf_SectionGUIDDefined "GUID").
Definition sv_gd_dataoff : bool := Eval vm_compute in (fl jf_SectionGUIDDefined "DataOffset").
Definition sv_gd_attrs : bool := Eval vm_compute in (fl jf_SectionGUIDDefined "Attributes").
Definition sv_gd_kind : bool := Eval vm_compute in (fl jf_SectionGUIDDefined "Compression").
Definition sv_sec_name : bool := Eval vm_compute in (fl jf_Section "Name").
Definition sv_sec_build : bool := Eval vm_compute in (fl jf_Section "BuildNumber").
Definition sv_sec_version : bool := Eval vm_compute in (fl jf_Section "Version").
Definition sv_sec_depex : bool := Eval vm_compute in (fl jf_Section "DepEx" && fl jf_DepExOp "OpCode" && fl jf_DepExOp "GUID").
Definition sv_sec_order : bool := Eval vm_compute in (fl jf_Section "FileOrder").
Definition sv_sec_kids : bool := Eval vm_compute in (fl jf_Section "Encapsulated" && sv_typed).
Definition sv_sec_path : bool := Eval vm_compute in (fl jf_Section "ExtractPath").

Definition proj_gd (g : gdhdr) : gdhdr :=
  mkGd (if sv_gd_guid then gd_guid g else zero_guid)
       (if sv_gd_dataoff then gd_dataoff g else 0)
       (if sv_gd_attrs then gd_attrs g else 0)
       (if sv_gd_kind then gd_kind g else 0).

Definition proj_sec (h : sechdr) : sechdr :=
  mkSec (if sv_sec_size3 then s_size3 h else 0)
        (if sv_sec_type then s_type h else 0)
        (if sv_sec_ext then s_ext h else 0)
        0                                       (* the parsed header length is not a field of Section *)
        (if sv_sec_ts then option_map proj_gd (s_gd h) else None)
        (if sv_sec_name then s_name h else [])
        (if sv_sec_build then s_build h else 0)
        (if sv_sec_version then s_version h else [])
        (if sv_sec_depex then s_depex h else None)
        (if sv_sec_order then s_order h else 0).

(* File *)
Definition sv_file_hdr : bool := Eval vm_compute in (fl jf_File "Header").
Definition sv_file_guid : bool := Eval vm_compute in (sv_file_hdr && fl jf_FileHeaderExtended "GUID").
Definition sv_file_ckh : bool := Eval vm_compute in (sv_file_hdr && fl jf_FileHeaderExtended "Checksum" && fl jf_IntegrityCheck "Header").
Definition sv_file_ckf : bool := Eval vm_compute in (sv_file_hdr && fl jf_FileHeaderExtended "Checksum" && fl jf_IntegrityCheck "File").
Definition sv_file_type : bool := Eval vm_compute in (sv_file_hdr && fl jf_FileHeaderExtended "Type").
Definition sv_file_attr : bool := Eval vm_compute in (sv_file_hdr && fl jf_FileHeaderExtended "Attributes").
Definition sv_file_size3 : bool := Eval vm_compute in (sv_file_hdr && fl jf_FileHeaderExtended "Size").
Definition sv_file_state : bool := Eval vm_compute in (sv_file_hdr && fl jf_FileHeaderExtended "State").
Definition sv_file_ext : bool := Eval vm_compute in (sv_file_hdr && fl jf_FileHeaderExtended "ExtendedSize").
Definition sv_file_dataoff : bool := Eval vm_compute in (fl jf_File "DataOffset").
Definition sv_file_nvar : bool := Eval vm_compute in (fl jf_File "NVarStore").
Definition sv_file_kids : bool := Eval vm_compute in (fl jf_File "Sections").
Definition sv_file_path : bool := Eval vm_compute in (fl jf_File "ExtractPath").

Section Project.

(* ThreeUint8's hand-written (un)marshaler is not the identity; whatever it is *)
Variable mangle3 : Z -> Z.

Definition proj_file (h : filehdr) : filehdr :=
  mkFile (if sv_file_guid then f_guid h else zero_guid)
         (if sv_file_ckh then f_ckh h else 0)
         (if sv_file_ckf then f_ckf h else 0)
         (if sv_file_type then f_type h else 0)
         (if sv_file_attr then f_attr h else 0)
         (if sv_file_size3 then mangle3 (f_size3 h) else 0)
         (if sv_file_state then f_state h else 0)
         (if sv_file_ext then f_ext h else 0)
         (if sv_file_dataoff then f_dataoff h else 0)
         (if sv_file_nvar then f_nvar h else None).

(* FirmwareVolume *)
Definition fv := fl jf_FirmwareVolume.
Definition sv_vol_blocks : bool := Eval vm_compute in (fv "Blocks" && fl jf_Block "Count" && fl jf_Block "Size").
Definition sv_vol_kids : bool := Eval vm_compute in (fv "Files").
Definition sv_vol_path : bool := Eval vm_compute in (fv "ExtractPath").
Definition sv_vol_zero : bool := Eval vm_compute in (fv "_").
Definition sv_vol_guid : bool := Eval vm_compute in (fv "FileSystemGUID").
Definition sv_vol_length : bool := Eval vm_compute in (fv "Length").
Definition sv_vol_sig : bool := Eval vm_compute in (fv "Signature").
Definition sv_vol_attrs : bool := Eval vm_compute in (fv "Attributes").
Definition sv_vol_hdrlen : bool := Eval vm_compute in (fv "HeaderLen").
Definition sv_vol_cksum : bool := Eval vm_compute in (fv "Checksum").
Definition sv_vol_exthdroff : bool := Eval vm_compute in (fv "ExtHeaderOffset").
Definition sv_vol_reserved : bool := Eval vm_compute in (fv "Reserved").
Definition sv_vol_rev : bool := Eval vm_compute in (fv "Revision").
Definition sv_vol_extname : bool := Eval vm_compute in (fv "FVName").
Definition sv_vol_extsize : bool := Eval vm_compute in (fv "ExtHeaderSize").
Definition sv_vol_dataoff : bool := Eval vm_compute in (fv "DataOffset").
Definition sv_vol_fvoffset : bool := Eval vm_compute in (fv "FVOffset").
Definition sv_vol_resizable : bool := Eval vm_compute in (fv "Resizable").
Definition sv_vol_freespace : bool := Eval vm_compute in (fv "FreeSpace").

Definition proj_vol (h : volhdr) : volhdr :=
  mkVol (if sv_vol_zero then v_zero h else zero_guid)
        (if sv_vol_guid then v_guid h else zero_guid)
        (if sv_vol_length then v_length h else 0)
        (if sv_vol_sig then v_sig h else 0)
        (if sv_vol_attrs then v_attrs h else 0)
        (if sv_vol_hdrlen then v_hdrlen h else 0)
        (if sv_vol_cksum then v_cksum h else 0)
        (if sv_vol_exthdroff then v_exthdroff h else 0)
        (if sv_vol_reserved then v_reserved h else 0)
        (if sv_vol_rev then v_rev h else 0)
        (if sv_vol_blocks then v_blocks h else [])
        (if sv_vol_extname then v_extname h else zero_guid)
        (if sv_vol_extsize then v_extsize h else 0)
        (if sv_vol_dataoff then v_dataoff h else 0)
        (if sv_vol_fvoffset then v_fvoffset h else 0)
        (if sv_vol_resizable then v_resizable h else false)
        (if sv_vol_freespace then v_freespace h else 0).

(* BIOSPadding, BIOSRegion *)
Definition sv_pad_off : bool := Eval vm_compute in (fl jf_BIOSPadding "Offset").
Definition sv_pad_path : bool := Eval vm_compute in (fl jf_BIOSPadding "ExtractPath").
Definition sv_reg_elems : bool := Eval vm_compute in (fl jf_BIOSRegion "Elements" && sv_typed).
Definition sv_reg_length : bool := Eval vm_compute in (fl jf_BIOSRegion "Length").
Definition sv_reg_path : bool := Eval vm_compute in (fl jf_BIOSRegion "ExtractPath").

(* ---------- ParseDir ---------- *)

(* readBuf: an empty ExtractPath gives a nil buffer *)
Definition read_buf (f : fs) (survives : bool) (p : option path) : outcome bytes :=
  match (if survives then p else None) with
  | None => Ok []
  | Some q => match fs_read f q with Some b => Ok b | None => Err E_NOFILE end
  end.

Fixpoint reload (f : fs) (j : jnode) {struct j} : outcome node :=
  let rl :=
    fix rl (l : list jnode) : outcome (list node) :=
      match l with
      | [] => Ok []
      | x :: r => do a <- reload f x; do b <- rl r; Ok (a :: b)
      end in
  match j with
  | JSec h p kids =>
    do b <- read_buf f sv_sec_path p;
    do ks <- rl (if sv_sec_kids then kids else []);
    Ok (NSec (proj_sec h) b ks)
  | JFile h p kids =>
    do b <- read_buf f sv_file_path p;
    do ks <- rl (if sv_file_kids then kids else []);
    Ok (NFile (proj_file h) b ks)
  | JVol h p kids =>
    do b <- read_buf f sv_vol_path p;
    do ks <- rl (if sv_vol_kids then kids else []);
    Ok (NVol (proj_vol h) b ks)
  | JPad off p =>
    do b <- read_buf f sv_pad_path p;
    Ok (NPad (if sv_pad_off then off else 0) b)
  end.

Definition reload_list (f : fs) : list jnode -> outcome (list node) :=
  fix rl (l : list jnode) : outcome (list node) :=
    match l with
    | [] => Ok []
    | x :: r => do a <- reload f x; do b <- rl r; Ok (a :: b)
    end.

(* ---------- the projection on trees: what ParseDir gives back for an extracted tree ---------- *)

Fixpoint json_project (n : node) {struct n} : node :=
  match n with
  | NSec h buf kids =>
    NSec (proj_sec h)
         (match kids with [] => if sv_sec_path then buf else [] | _ => [] end)
         (if sv_sec_kids then map json_project kids else [])
  | NFile h buf kids =>
    NFile (proj_file h)
          (match kids, f_nvar h with [], None => if sv_file_path then buf else [] | _, _ => [] end)
          (if sv_file_kids then map json_project kids else [])
  | NVol h buf kids =>
    NVol (proj_vol h)
         (if sv_vol_path then match kids with [] => buf | _ => zfirstn (v_dataoff h) buf end else [])
         (if sv_vol_kids then map json_project kids else [])
  | NPad off buf => NPad (if sv_pad_off then off else 0) (if sv_pad_path then buf else [])
  end.

End Project.

(* ---------- the human-editable fields of summary.json ---------- *)

Definition with_guid (h : filehdr) (g : bytes) : filehdr :=
  mkFile g (f_ckh h) (f_ckf h) (f_type h) (f_attr h) (f_size3 h) (f_state h) (f_ext h) (f_dataoff h) (f_nvar h).
Definition with_name (h : sechdr) (nm : bytes) : sechdr :=
  mkSec (s_size3 h) (s_type h) (s_ext h) (s_hlen h) (s_gd h) nm (s_build h) (s_version h) (s_depex h) (s_order h).
Definition with_version (h : sechdr) (v : bytes) : sechdr :=
  mkSec (s_size3 h) (s_type h) (s_ext h) (s_hlen h) (s_gd h) (s_name h) (s_build h) v (s_depex h) (s_order h).
Definition with_depex (h : sechdr) (d : list (Z * option bytes)) : sechdr :=
  mkSec (s_size3 h) (s_type h) (s_ext h) (s_hlen h) (s_gd h) (s_name h) (s_build h) (s_version h) (Some d) (s_order h).

(* the bytes of a section without type-specific header whose size fits the 3-byte field *)
Definition small_section (t : Z) (body : bytes) : bytes := le_enc 3 (4 + zlen body) ++ [t] ++ body.

(* what Assemble makes of a file whose (already assembled) sections are [kids']: the data is the
   4-aligned concatenation of the section buffers; size, large attribute and both checksums recomputed *)
Definition rebuilt_file (h : filehdr) (kids' : list node) (st : ast) : node * ast :=
  let data := join4 [] (map node_buf kids') in
  let '(ext, attr) := set_size (f_attr h) (24 + zlen data) true in
  let '(h', nb) := checksum_and_assemble h ext attr data in
  (NFile h' nb kids', (fst st, snd st || (16777215 <? ext))).

(* ---------- hypotheses of the theorems, as executable predicates ---------- *)

Fixpoint nodupb (l : path) : bool :=
  match l with
  | [] => true
  | x :: r => negb (existsb (pc_eqb x) r) && nodupb r
  end.

(* the directory component that tells a child from its siblings; files are told apart by the running
   index, so they need none *)
Definition key (n : node) : list pc :=
  match n with
  | NVol h _ _ => [C_hex (v_fvoffset h)]
  | NSec h _ _ => [C_dec (s_order h)]
  | NPad off _ => [C_padhex off]
  | NFile _ _ _ => []
  end.

Definition keys (l : list node) : list pc := flat_map key l.

(* [paths_ok]: in every child list, volumes have distinct FVOffset, sections distinct FileOrder and
   paddings distinct Offset.  That is all: sibling files may share a GUID. *)
Fixpoint paths_okb (n : node) {struct n} : bool :=
  let all := fix all (l : list node) : bool :=
    match l with [] => true | x :: r => paths_okb x && all r end in
  match n with
  | NSec _ _ kids | NFile _ _ kids | NVol _ _ kids => nodupb (keys kids) && all kids
  | NPad _ _ => true
  end.
Fixpoint paths_okb_list (l : list node) : bool :=
  match l with [] => true | x :: r => paths_okb x && paths_okb_list r end.
Definition paths_ok (n : node) : Prop := paths_okb n = true.
Definition region_paths_ok (elems : list node) : Prop :=
  nodupb (keys elems) = true /\ paths_okb_list elems = true.

(* [wf_tree]: the facts about parsed trees that make a node's buffer redundant once it has children
   (they hold for every tree the parser returns; see ExtractProofs.parse_region_wf):
   a volume with files has its data offset inside its buffer and a buffer no longer than Length;
   an encapsulating GUID-defined section has the processing-required attribute (so that it is
   re-encoded from its children, not taken from its old buffer); a file GUID is 16 bytes. *)
Fixpoint wf_treeb (n : node) {struct n} : bool :=
  let all := fix all (l : list node) : bool :=
    match l with [] => true | x :: r => wf_treeb x && all r end in
  match n with
  | NSec h _ kids =>
    (match kids with
     | [] => true
     | _ => if s_type h =? 2 then
              match s_gd h with Some g => negb (Z.land (gd_attrs g) 1 =? 0) | None => true end
            else true
     end) && all kids
  | NFile h _ kids => (zlen (f_guid h) =? 16) && bytes_ok (f_guid h) && all kids
  | NVol h buf kids =>
    (match kids with
     | [] => true
     | _ => (0 <=? v_dataoff h) && (v_dataoff h <=? zlen buf) && (zlen buf <=? v_length h)
     end) && all kids
  | NPad _ _ => true
  end.
Fixpoint wf_treeb_list (l : list node) : bool :=
  match l with [] => true | x :: r => wf_treeb x && wf_treeb_list r end.
Definition wf_tree (n : node) : Prop := wf_treeb n = true.

(* offsets and section numbers are not negative (they are Go uint64 / slice indices): the side
   condition under which the text of a path determines the path *)
Fixpoint nonneg_treeb (n : node) {struct n} : bool :=
  let all := fix all (l : list node) : bool :=
    match l with [] => true | x :: r => nonneg_treeb x && all r end in
  match n with
  | NSec h _ kids => (0 <=? s_order h) && all kids
  | NFile _ _ kids => all kids
  | NVol h _ kids => (0 <=? v_fvoffset h) && all kids
  | NPad off _ => 0 <=? off
  end.
Fixpoint nonneg_treeb_list (l : list node) : bool :=
  match l with [] => true | x :: r => nonneg_treeb x && nonneg_treeb_list r end.

(* ---------- the two pipelines of property C07, on a bare BIOS region ---------- *)

Section Pipelines.
Variable dec : Z -> bytes -> option bytes.
Variable enc : Z -> bytes -> option bytes.
Variable u2s : bytes -> bytes.
Variable s2u : bytes -> bytes.
Variable nvar : bytes -> option bytes.
Variable mangle3 : Z -> Z.

(* two Assemble passes over a BIOS region, the second with a fresh visitor (useFFS3 = false) while
   the global erase polarity stays: what "utk DIR save OUT" runs (utk.Run assembles once after
   ParseDir, Save.Visit assembles again) *)
Definition save_twice (elems : list node) (len : Z) (st : ast) : outcome bytes :=
  do a1 <- asm_bios enc s2u elems len st;
  let '(e1, _, st1) := a1 in
  do a2 <- asm_bios enc s2u e1 len (fst st1, false);
  let '(_, b, _) := a2 in Ok b.

(* utk.Run(DIR, "save", OUT) after Extract.Run: ParseDir, then the two passes; the erase polarity is
   still poisoned (240) when the first pass starts *)
Definition load_and_save (js : list jnode) (f : fs) (len : Z) : outcome bytes :=
  do r <- reload_list mangle3 f (if sv_reg_elems then js else []);
  save_twice r (if sv_reg_length then len else 0) (240, false).

Definition dir_save_tree (rbuf : bytes) (elems : list node) (len : Z) : outcome bytes :=
  do x <- extract_region rbuf elems; let '(js, _, f) := x in
  load_and_save js f len.

(* utk.Run(IMAGE, "extract", DIR); utk.Run(DIR, "save", OUT) *)
Definition dir_save (d : nat) (img : bytes) : outcome bytes :=
  do ep <- parse_region dec u2s nvar d img; let '(elems, _) := ep in
  dir_save_tree img elems (zlen img).

(* the reference for [dir_save]: the same two passes over the parsed tree itself, no directory *)
Definition save_twice_image (d : nat) (img : bytes) : outcome bytes :=
  do ep <- parse_region dec u2s nvar d img; let '(elems, _) := ep in
  save_twice elems (zlen img) (240, false).

(* the paths written by utk.Run(IMAGE, "extract", DIR), in write order (summary.json excluded) *)
Definition extract_paths (d : nat) (img : bytes) : outcome (list path) :=
  do ep <- parse_region dec u2s nvar d img; let '(elems, _) := ep in
  do x <- extract_region img elems; let '(_, _, f) := x in
  Ok (map fst f).

(* a single assembly of the projected tree: what one Assemble pass makes of the reloaded directory *)
Definition save_projected (d : nat) (img : bytes) : outcome bytes :=
  do ep <- parse_region dec u2s nvar d img; let '(elems, pol) := ep in
  do r <- asm_bios enc s2u (map (json_project mangle3) elems) (zlen img) (pol, false);
  let '(_, b, _) := r in Ok b.

End Pipelines.
