(* Model/ExtractEdit.v — single-field edits of summary.json (property C07, second sentence), as an
   executable model on top of Model/Extract.v.

   Go code transcribed: nothing new is transcribed here; this file describes what a PERSON does between
   utk.Run(IMAGE, "extract", DIR) and utk.Run(DIR, "save", OUT): one human-editable field of one node of
   summary.json is replaced (the GUID of a file that has sections, the Name of a user-interface section,
   the Version string of a version section, the DepEx list of a DXE/PEI/MM dependency section).  The node
   is named the way harness/cmd/c07 names it: "the k-th node, in document order, to which an edit of this
   kind applies" ([jedit] on the JSON tree).  [nedit] is the same replacement on a firmware tree (what the
   tool's own API would do on the parsed image).

   [dir_edit_save]: extract, edit the JSON, ParseDir, the two Assemble passes of utk's directory branch.
   [tree_edit_save]: parse, edit the tree, the same two passes.

   Not modelled: the JSON text (an edit is a replacement of a field VALUE; the spelling of the value in
   the file — e.g. a GUID typed in lower case — is guid_parse's business, see C07_guid_text_roundtrip),
   edits of other fields, several edits at once.  Definitions only; proofs in Proofs/ExtractEditProofs.v. *)
From Fiano Require Import Base.Bytes Model.Ffs Model.Extract.
Open Scope Z_scope.

Inductive fedit : Type :=
| EGuid (g : bytes)
| EName (nm : bytes)
| EVersion (v : bytes)
| EDepex (d : list (Z * option bytes)).

(* an edit applies to a section by its type, to a file if it is rebuilt from sections *)
Definition sec_cand (e : fedit) (t : Z) : bool :=
  match e with
  | EName _ => t =? 21
  | EVersion _ => t =? 20
  | EDepex _ => (t =? 19) || (t =? 27) || (t =? 28)
  | EGuid _ => false
  end.

Definition file_cand {A} (e : fedit) (kids : list A) : bool :=
  match e, kids with
  | EGuid _, _ :: _ => true
  | _, _ => false
  end.

Definition edit_sec (e : fedit) (h : sechdr) : sechdr :=
  match e with
  | EName nm => with_name h nm
  | EVersion v => with_version h v
  | EDepex d => with_depex h d
  | EGuid _ => h
  end.

Definition edit_file (e : fedit) (h : filehdr) : filehdr :=
  match e with
  | EGuid g => with_guid h g
  | _ => h
  end.

(* the counter: [Some n] = n more candidates are passed over before the one that is edited;
   [None] = the edit has been made *)
Definition step {H} (applies : bool) (ed : H -> H) (h : H) (k : option nat) : H * option nat :=
  match k with
  | Some O => if applies then (ed h, None) else (h, k)
  | Some (S m) => if applies then (h, Some m) else (h, k)
  | None => (h, None)
  end.

Section Edit.
Variable e : fedit.

(* on the JSON tree *)
Fixpoint jedit (j : jnode) (k : option nat) {struct j} : jnode * option nat :=
  let jl :=
    fix jl (l : list jnode) (k : option nat) : list jnode * option nat :=
      match l with
      | [] => ([], k)
      | x :: r =>
        let '(x', k1) := jedit x k in
        let '(r', k2) := jl r k1 in (x' :: r', k2)
      end in
  match j with
  | JSec h p kids =>
    let '(h', k1) := step (sec_cand e (s_type h)) (edit_sec e) h k in
    let '(kids', k2) := jl kids k1 in (JSec h' p kids', k2)
  | JFile h p kids =>
    let '(h', k1) := step (file_cand e kids) (edit_file e) h k in
    let '(kids', k2) := jl kids k1 in (JFile h' p kids', k2)
  | JVol h p kids =>
    let '(kids', k2) := jl kids k in (JVol h p kids', k2)
  | JPad off p => (JPad off p, k)
  end.

Fixpoint jedit_list (l : list jnode) (k : option nat) : list jnode * option nat :=
  match l with
  | [] => ([], k)
  | x :: r =>
    let '(x', k1) := jedit x k in
    let '(r', k2) := jedit_list r k1 in (x' :: r', k2)
  end.

(* on the firmware tree *)
Fixpoint nedit (n : node) (k : option nat) {struct n} : node * option nat :=
  let nl :=
    fix nl (l : list node) (k : option nat) : list node * option nat :=
      match l with
      | [] => ([], k)
      | x :: r =>
        let '(x', k1) := nedit x k in
        let '(r', k2) := nl r k1 in (x' :: r', k2)
      end in
  match n with
  | NSec h b kids =>
    let '(h', k1) := step (sec_cand e (s_type h)) (edit_sec e) h k in
    let '(kids', k2) := nl kids k1 in (NSec h' b kids', k2)
  | NFile h b kids =>
    let '(h', k1) := step (file_cand e kids) (edit_file e) h k in
    let '(kids', k2) := nl kids k1 in (NFile h' b kids', k2)
  | NVol h b kids =>
    let '(kids', k2) := nl kids k in (NVol h b kids', k2)
  | NPad off b => (NPad off b, k)
  end.

Fixpoint nedit_list (l : list node) (k : option nat) : list node * option nat :=
  match l with
  | [] => ([], k)
  | x :: r =>
    let '(x', k1) := nedit x k in
    let '(r', k2) := nedit_list r k1 in (x' :: r', k2)
  end.

End Edit.

(* the value a person may put: a GUID is 16 bytes *)
Definition edit_ok (e : fedit) : Prop :=
  match e with
  | EGuid g => zlen g = 16
  | _ => True
  end.

Section EditRoutes.
Variable dec enc : Z -> bytes -> option bytes.
Variable u2s s2u : bytes -> bytes.
Variable nvar : bytes -> option bytes.
Variable mangle3 : Z -> Z.

(* utk.Run(IMAGE, "extract", DIR); the k-th candidate field of DIR/summary.json replaced;
   utk.Run(DIR, "save", OUT) *)
Definition dir_edit_save (d : nat) (img : bytes) (e : fedit) (k : nat) : outcome bytes :=
  do ep <- parse_region dec u2s nvar d img; let '(elems, _) := ep in
  do x <- extract_region img elems; let '(js, _, f) := x in
  load_and_save enc s2u mangle3 (fst (jedit_list e js (Some k))) f (zlen img).

(* the reference: the same field replaced in the parsed tree, then the same two passes *)
Definition tree_edit_save (d : nat) (img : bytes) (e : fedit) (k : nat) : outcome bytes :=
  do ep <- parse_region dec u2s nvar d img; let '(elems, _) := ep in
  save_twice enc s2u (fst (nedit_list e elems (Some k))) (zlen img) (240, false).

End EditRoutes.
