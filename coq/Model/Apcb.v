(* Model/Apcb.v — executable model of pkg/amd/apcb (apcb.go, internal.go), property C18.

   Transcribes (with the four repairs of /verif/fixes/C18-*.diff applied):
     parseAPCBHeader, iterateTokenGroups, iterateTypes, iterateTokens,
     processValue, parseValue, ParseAPCBBinaryTokens, UpsertToken,
     constructNewTypeForToken, constructNewGroupForToken,
     fixedSizeBuffer.Write / writeFixedBuffer.
   The three iterators appear twice: once over read-only views (the token
   listing) and once over the caller's buffer with absolute offsets (UpsertToken,
   whose callback writes into the very buffer the iterators keep reading; every
   read of the second transcription goes to the *current* buffer).
   In iterateTokenGroups / iterateTypes "offset" and "remainBytes" advance in
   lockstep (offset += n; remainBytes = remainBytes[n:]), so the remaining view
   is represented by the offset alone.

   Every Go slice expression is a checked operation (Panic), loops run on fuel.
   Unsigned wrap-around is written where the Go expression is a uint32/uint16
   sum that no preceding check of the same function bounds ([u32], [u16]).

   Not modelled: String methods, GetTokenIDString, CreatePriorityMask,
   Token.NumValue; the partial token list ParseAPCBBinaryTokens returns next to an
   error; error message texts (errors are classes); slice capacity (every upper
   slice bound of this package is also checked against the length, so
   capacity never decides).  The Go value argument (interface{}) is the pair
   (kind, v): kind 0 = bool (v in {0,1}), 1/2/4 = uint8/16/32 with v in range; any
   other kind stands for a Go value of another dynamic type. *)
From Fiano Require Import Base.Bytes Gen.Consts.
Open Scope Z_scope.

Definition u16 (x : Z) : Z := x mod 2 ^ 16.
Definition u32 (x : Z) : Z := x mod 2 ^ 32.

Definition HS : Z := apcb_hdr_size.    (* binary.Size(headerV3{})     *)
Definition GS : Z := apcb_grp_size.    (* binary.Size(groupHeader{})  *)
Definition TS : Z := apcb_typ_size.    (* binary.Size(typeHeaderV3{}) *)
Definition PS : Z := apcb_pair_size.   (* binary.Size(tokenPair{})    *)

(* error classes (the executor maps message fragments to the same numbers) *)
Definition E_HDR_READ : Z := 1.    (* failed to read input header *)
Definition E_SIG_V2 : Z := 2.
Definition E_SIG_V3 : Z := 3.
Definition E_SIG_END : Z := 4.
Definition E_SIZE_SMALL : Z := 5.  (* repair: SizeOfAPCB smaller than the header *)
Definition E_SIZE_BIG : Z := 6.    (* buffer smaller than SizeOfAPCB *)
Definition E_GRP_READ : Z := 7.
Definition E_GRP_SMALL : Z := 8.
Definition E_GRP_BIG : Z := 9.
Definition E_GRP_HSIZE : Z := 10.  (* repair: SizeOfHeader outside [16, SizeOfGroup] *)
Definition E_TYP_READ : Z := 11.
Definition E_TYP_SMALL : Z := 12.
Definition E_TYP_BIG : Z := 13.
Definition E_TYP_MOD : Z := 14.    (* incorrect APCB type header SizeOfType *)
Definition E_UNK_TYPE : Z := 16.   (* processValue: unknown token type *)
Definition E_VALUE : Z := 17.      (* parseValue: unknown type *)
Definition E_TYPE_FULL : Z := 18.  (* repair: SizeOfType + 8 does not fit uint16 *)
Definition E_NOROOM : Z := 19.
Definition E_WRITE : Z := 20.      (* a fixedSizeBuffer write came up short *)

(* ---- field accessors on header byte strings ---- *)
Definition hdr_sizeof_apcb (h : bytes) : Z := rd apcb_hdr_off_size 4 h.
Definition grp_id (g : bytes) : Z := rd apcb_grp_off_id 2 g.
Definition grp_hsize (g : bytes) : Z := rd apcb_grp_off_hsize 2 g.
Definition grp_sizeof (g : bytes) : Z := rd apcb_grp_off_size 4 g.
Definition typ_tid (t : bytes) : Z := rd apcb_typ_off_tid 2 t.
Definition typ_sizeof (t : bytes) : Z := rd apcb_typ_off_size 2 t.
Definition typ_prio (t : bytes) : Z := rd apcb_typ_off_prio 1 t.
Definition typ_board (t : bytes) : Z := rd apcb_typ_off_board 2 t.

(* ---- parseAPCBHeader: Ok SizeOfAPCB ---- *)
Definition parse_header (b : bytes) : outcome Z :=
  if zlen b <? HS then Err E_HDR_READ else
  if negb (rd apcb_hdr_off_sig 4 b =? apcb_sig_v2) then Err E_SIG_V2 else
  if negb (rd apcb_hdr_off_sig2 4 b =? apcb_sig_v3) then Err E_SIG_V3 else
  if negb (rd apcb_hdr_off_sigend 4 b =? apcb_sig_end) then Err E_SIG_END else
  let size := hdr_sizeof_apcb b in
  if size <? HS then Err E_SIZE_SMALL else
  if size >? u32 (zlen b) then Err E_SIZE_BIG else
  match slice HS size b with          (* apcbBinary[binary.Size(header):SizeOfAPCB] *)
  | None => Panic 1
  | Some _ => Ok size
  end.

(* ---- the token listing ---- *)

(* a listed token: ID, PriorityMask, BoardMask, kind (dynamic type of Value), value *)
Record token := mkToken { tk_id : Z; tk_prio : Z; tk_board : Z; tk_kind : Z; tk_val : Z }.

Definition process_value (tid v : Z) : option Z :=
  if tid =? apcb_type_bool then Some (Z.land v 1)
  else if tid =? apcb_type_1byte then Some (Z.land v 255)
  else if tid =? apcb_type_2bytes then Some (Z.land v 65535)
  else if tid =? apcb_type_4bytes then Some v
  else None.

(* iterateTokens with the callback of ParseAPCBBinaryTokens; td is what is left of typeData *)
Fixpoint list_pairs (n : nat) (td th : bytes) : outcome (list token) :=
  match n with
  | O => Ok []
  | S n' =>
    let id := rd apcb_pair_off_id 4 td in
    let v := rd apcb_pair_off_value 4 td in
    match process_value (typ_tid th) v with
    | None => Err E_UNK_TYPE
    | Some pv =>
      do r <- list_pairs n' (zskipn PS td) th;
      Ok (mkToken id (typ_prio th) (typ_board th) (typ_tid th) pv :: r)
    end
  end.

Definition list_type_tokens (td th : bytes) : outcome (list token) :=
  if negb (zlen td mod PS =? 0) then Err E_TYP_MOD
  else list_pairs (Z.to_nat (zlen td / PS)) td th.

(* iterateTypes(group, ...) ; remainBytes = group[off:] *)
Fixpoint list_types (fuel : nat) (group : bytes) (off : Z) : outcome (list token) :=
  match fuel with
  | O => Fuel
  | S f =>
    let remain := zskipn off group in
    if zlen remain <=? 0 then Ok [] else
    if zlen remain <? TS then Err E_TYP_READ else
    let th := zfirstn TS remain in
    let sot := typ_sizeof th in
    if sot <? TS then Err E_TYP_SMALL else
    if sot >? zlen remain then Err E_TYP_BIG else
    do td <- of_opt 3 (slice (off + TS) (off + sot) group);
    do l <- list_type_tokens td th;
    do _ <- of_opt 4 (slice sot (zlen remain) remain);
    do r <- list_types f group (off + sot);
    Ok (l ++ r)
  end.

(* iterateTokenGroups(body, ...) ; remainBytes = body[off:] *)
Fixpoint list_groups (fuel tf : nat) (body : bytes) (off : Z) : outcome (list token) :=
  match fuel with
  | O => Fuel
  | S f =>
    let remain := zskipn off body in
    if zlen remain <=? 0 then Ok [] else
    if zlen remain <? GS then Err E_GRP_READ else
    let gh := zfirstn GS remain in
    let sog := grp_sizeof gh in
    if sog <? GS then Err E_GRP_SMALL else
    if sog >? zlen remain then Err E_GRP_BIG else
    do l <-
      (if grp_id gh =? apcb_tokens_group_id then
         let soh := grp_hsize gh in
         if (soh <? GS) || (soh >? sog) then Err E_GRP_HSIZE else
         do gd <- of_opt 2 (slice (u32 (off + soh)) (u32 (off + sog)) body);
         list_types tf gd 0
       else Ok []);
    do _ <- of_opt 5 (slice sog (zlen remain) remain);
    do r <- list_groups f tf body (off + sog);
    Ok (l ++ r)
  end.

Definition parse_tokens (b : bytes) : outcome (list token) :=
  do size <- parse_header b;
  let body := sub HS (size - HS) b in
  list_groups (S (length b)) (S (length b)) body 0.

(* ---- UpsertToken ---- *)

(* fixedSizeBuffer over buf[off : off+avail]: one Write of d *)
Definition write_fixed (off avail : Z) (d buf : bytes) : bytes * Z :=
  if zlen d <=? avail then (splice off d buf, 0)
  else (splice off (zfirstn avail d) buf, E_WRITE).

(* successive binary.Write calls on one fixedSizeBuffer *)
Fixpoint write_chunks (off avail : Z) (chunks : list bytes) (buf : bytes) : bytes * Z :=
  match chunks with
  | [] => (buf, 0)
  | d :: r =>
    let '(buf1, e) := write_fixed off avail d buf in
    if negb (e =? 0) then (buf1, e)
    else write_chunks (off + zlen d) (avail - zlen d) r buf1
  end.

Record sstate := mkS {
  s_buf : bytes;                     (* apcbBinary, as mutated so far *)
  s_mg : option (bytes * Z);         (* *matchedGroupHeader (16 bytes as read), matchedGroupOffset *)
  s_mt : option (bytes * Z);         (* *matchedTypeHeader, matchedTypeOffset *)
  s_tok : Z;                         (* matchedTokenOffset *)
  s_changed : bool                   (* tokenChanged *)
}.

Definition type_matches (kind pm bm : Z) (th : bytes) : bool :=
  negb (negb (kind =? typ_tid th) || (Z.land (typ_board th) bm =? 0) || (Z.land (typ_prio th) pm =? 0)).

(* iterateTokens with UpsertToken's callback; typeData = buf[tb : tb+tl] *)
Fixpoint scan_pairs (n : nat) (i : Z) (tb tl : Z) (k nv : Z) (st : sstate) : outcome (sstate * Z) :=
  match n with
  | O => Ok (st, 0)
  | S n' =>
    let off := i * PS in
    let id := rd (tb + off + apcb_pair_off_id) 4 (s_buf st) in
    let st1 := if id <=? k then mkS (s_buf st) (s_mg st) (s_mt st) (u32 (off + PS)) (s_changed st) else st in
    if negb (id =? k) then scan_pairs n' (i + 1) tb tl k nv st1 else
    if off >? tl then Panic 6 else          (* typeData[tokenPairOffset:] *)
    let '(buf1, e) := write_fixed (tb + off) (tl - off) (le_enc 4 id ++ le_enc 4 nv) (s_buf st1) in
    if negb (e =? 0) then Ok (mkS buf1 (s_mg st1) (s_mt st1) (s_tok st1) (s_changed st1), e)
    else scan_pairs n' (i + 1) tb tl k nv (mkS buf1 (s_mg st1) (s_mt st1) (s_tok st1) true)
  end.

(* iterateTypes over groupData = buf[gb : gb+gl] with UpsertToken's callback;
   gh/goff are the group header and offset the enclosing callback was called with *)
Fixpoint scan_types (fuel : nat) (gb gl off : Z) (kind pm bm k nv : Z) (gh : bytes) (goff : Z)
    (st : sstate) : outcome (sstate * Z) :=
  match fuel with
  | O => Fuel
  | S f =>
    let rl := gl - off in
    if rl <=? 0 then Ok (st, 0) else
    if rl <? TS then Ok (st, E_TYP_READ) else
    let th := sub (gb + off) TS (s_buf st) in
    let sot := typ_sizeof th in
    if sot <? TS then Ok (st, E_TYP_SMALL) else
    if sot >? rl then Ok (st, E_TYP_BIG) else
    match
      (if negb (type_matches kind pm bm th) then Ok (st, 0) else
       let st0 := mkS (s_buf st) (Some (gh, goff)) (Some (th, off)) 0 (s_changed st) in
       (* groupData[typeOffset+16 : typeOffset+SizeOfType] *)
       if negb ((0 <=? off + TS) && (off + TS <=? off + sot) && (off + sot <=? gl)) then Panic 3 else
       let tb := gb + off + TS in
       let tl := sot - TS in
       if negb (tl mod PS =? 0) then Ok (st0, E_TYP_MOD)
       else scan_pairs (Z.to_nat (tl / PS)) 0 tb tl k nv st0)
    with
    | Ok (st1, e) =>
      if negb (e =? 0) then Ok (st1, e)
      else scan_types f gb gl (off + sot) kind pm bm k nv gh goff st1
    | o => o
    end
  end.

(* iterateTokenGroups over remainBytes = buf[HS : size] with UpsertToken's callback *)
Fixpoint scan_groups (fuel tf : nat) (size off : Z) (kind pm bm k nv : Z) (st : sstate)
    : outcome (sstate * Z) :=
  match fuel with
  | O => Fuel
  | S f =>
    let bl := size - HS in
    let rl := bl - off in
    if rl <=? 0 then Ok (st, 0) else
    if rl <? GS then Ok (st, E_GRP_READ) else
    let gh := sub (HS + off) GS (s_buf st) in
    let sog := grp_sizeof gh in
    if sog <? GS then Ok (st, E_GRP_SMALL) else
    if sog >? rl then Ok (st, E_GRP_BIG) else
    match
      (if grp_id gh =? apcb_tokens_group_id then
         let soh := grp_hsize gh in
         if (soh <? GS) || (soh >? sog) then Ok (st, E_GRP_HSIZE) else
         let st0 := match s_mt st with
                    | None => mkS (s_buf st) (Some (gh, off)) (s_mt st) (s_tok st) (s_changed st)
                    | Some _ => st
                    end in
         let lo := u32 (off + soh) in
         let hi := u32 (off + sog) in
         (* remainBytes[groupOffset+SizeOfHeader : groupOffset+SizeOfGroup] *)
         if negb ((0 <=? lo) && (lo <=? hi) && (hi <=? bl)) then Panic 2 else
         scan_types tf (HS + lo) (hi - lo) 0 kind pm bm k nv gh off st0
       else Ok (st, 0))
    with
    | Ok (st1, e) =>
      if negb (e =? 0) then Ok (st1, e)
      else scan_groups f tf size (off + sog) kind pm bm k nv st1
    | o => o
    end
  end.

Definition enc_pair (p : Z * Z) : bytes := le_enc 4 (fst p) ++ le_enc 4 (snd p).

(* the header constructNewTypeForToken builds, as binary.Write lays it out *)
Definition new_type_header (kind pm bm : Z) : bytes :=
  le_enc 2 apcb_tokens_group_id ++ le_enc 2 kind ++ le_enc 2 (u16 (u16 TS + u16 PS)) ++ le_enc 2 0 ++
  le_enc 1 apcb_ctx_token_v3 ++ le_enc 1 apcb_fmt_sort_asc ++ le_enc 1 8 ++ le_enc 1 pm ++
  le_enc 1 4 ++ le_enc 1 0 ++ le_enc 2 bm.

Definition new_type_size : Z := u16 (u16 TS + u16 PS).

Definition new_group_header : bytes :=
  le_enc 4 apcb_sig_token_group ++ le_enc 2 apcb_tokens_group_id ++ le_enc 2 (u16 GS) ++
  le_enc 2 1 ++ le_enc 2 0 ++ le_enc 4 (u32 (u16 GS + new_type_size)).

Definition new_group_size : Z := u32 (u16 GS + new_type_size).

Definition kind_ok (kind : Z) : bool :=
  (kind =? apcb_type_bool) || (kind =? apcb_type_1byte) || (kind =? apcb_type_2bytes) ||
  (kind =? apcb_type_4bytes).

(* the part of UpsertToken after the scan found nothing to update *)
Definition upsert_insert (k pm bm kind nv : Z) (size : Z) (hdr : bytes) (st : sstate)
    : outcome (bytes * Z) :=
  let buf := s_buf st in
  let mgoff := u32 (match s_mg st with Some (_, o) => o | None => 0 end + HS) in
  let mtoff0 := match s_mt st with Some (_, o) => o | None => 0 end in
  let mtoff := match s_mg st with Some (gh, _) => u32 (mtoff0 + grp_hsize gh) | None => mtoff0 end in
  match
    (match s_mt st, s_mg st with
     | Some (th, _), _ =>
       if u32 (typ_sizeof th + PS) >? 65535 then inr E_TYPE_FULL
       else inl (u32 (mgoff + mtoff + TS + s_tok st), PS, [enc_pair (k, nv)])
     | None, Some (gh, _) =>
       inl (u32 (mgoff + grp_sizeof gh), new_type_size, [new_type_header kind pm bm; enc_pair (k, nv)])
     | None, None =>
       inl (size, new_group_size, [new_group_header; new_type_header kind pm bm; enc_pair (k, nv)])
     end)
  with
  | inr e => Ok (buf, e)
  | inl (ins, added, chunks) =>
    if u32 (size + added) >? u32 (zlen buf) then Ok (buf, E_NOROOM) else
    (* copy(apcbBinary[ins+added:], apcbBinary[ins:SizeOfAPCB]) *)
    match slice (u32 (ins + added)) (zlen buf) buf, slice ins size buf with
    | Some dst, Some src =>
      let n := Z.min (zlen dst) (zlen src) in
      let buf1 := splice (u32 (ins + added)) (zfirstn n src) buf in
      (* writeNewToken(newFixedSizeBuffer(apcbBinary[ins:])) *)
      if ins >? zlen buf1 then Panic 8 else
      let '(buf2, e) := write_chunks ins (zlen buf1 - ins) chunks buf1 in
      if negb (e =? 0) then Ok (buf2, e) else
      (* fix sizes of touched elements *)
      match
        (match s_mt st with
         | Some (th, _) =>
           let th' := splice apcb_typ_off_size (le_enc 2 (u16 (typ_sizeof th + u16 PS))) th in
           let o := u32 (mgoff + mtoff) in
           if o >? zlen buf2 then Panic 9 else Ok (write_fixed o (zlen buf2 - o) th' buf2)
         | None => Ok (buf2, 0)
         end)
      with
      | Ok (buf3, e3) =>
        if negb (e3 =? 0) then Ok (buf3, e3) else
        match
          (match s_mg st with
           | Some (gh, _) =>
             let gh' := splice apcb_grp_off_size (le_enc 4 (u32 (grp_sizeof gh + added))) gh in
             if mgoff >? zlen buf3 then Panic 10 else Ok (write_fixed mgoff (zlen buf3 - mgoff) gh' buf3)
           | None => Ok (buf3, 0)
           end)
        with
        | Ok (buf4, e4) =>
          if negb (e4 =? 0) then Ok (buf4, e4) else
          let hdr' := splice apcb_hdr_off_size (le_enc 4 (u32 (size + added))) hdr in
          Ok (write_fixed 0 (zlen buf4) hdr' buf4)
        | o => o
        end
      | o => o
      end
    | _, _ => Panic 7
    end
  end.

(* UpsertToken: Ok (buffer afterwards, 0) on success, Ok (buffer afterwards, class) when
   an error is returned *)
Definition upsert (k pm bm kind nv : Z) (b : bytes) : outcome (bytes * Z) :=
  if negb (kind_ok kind) then Ok (b, E_VALUE) else
  match parse_header b with
  | Err e => Ok (b, e)
  | Panic s => Panic s
  | Fuel => Fuel
  | Ok size =>
    let hdr := sub 0 HS b in
    match scan_groups (S (length b)) (S (length b)) size 0 kind pm bm k nv (mkS b None None 0 false) with
    | Ok (st, e) =>
      if negb (e =? 0) then Ok (s_buf st, e) else
      if s_changed st then Ok (s_buf st, 0) else
      upsert_insert k pm bm kind nv size hdr st
    | Err e => Err e
    | Panic s => Panic s
    | Fuel => Fuel
    end
  end.

(* ================= specification side ================= *)

(* a type entry: the header bytes around SizeOfType, and the token pairs *)
Record ttype := mkType {
  ty_h1 : bytes;               (* GroupID, TypeID (4 bytes) *)
  ty_h2 : bytes;               (* InstanceID .. BoardMask (10 bytes) *)
  ty_toks : list (Z * Z)       (* (id, raw 32-bit value) *)
}.

Definition ty_kind (t : ttype) : Z := rd 2 2 (ty_h1 t).
Definition ty_prio (t : ttype) : Z := rd 5 1 (ty_h2 t).
Definition ty_board (t : ttype) : Z := rd 8 2 (ty_h2 t).
Definition ty_size (t : ttype) : Z := 16 + 8 * zlen (ty_toks t).

Inductive group :=
| TokGroup (g_sig g_vr g_extra : bytes) (g_types : list ttype)
    (* signature (4), version+reserved (4), header bytes beyond the 16 fixed ones *)
| Foreign (f_pre f_body : bytes).     (* first 12 header bytes, everything after SizeOfGroup *)

Definition types_size (l : list ttype) : Z := sum_list (map ty_size l).

Definition group_size (g : group) : Z :=
  match g with
  | TokGroup _ _ ex tys => 16 + zlen ex + types_size tys
  | Foreign _ body => 16 + zlen body
  end.

Definition groups_size (l : list group) : Z := sum_list (map group_size l).

Record blob := mkBlob {
  bl_h1 : bytes;               (* header bytes before SizeOfAPCB (8) *)
  bl_h2 : bytes;               (* header bytes after it (116) *)
  bl_groups : list group;
  bl_slack : bytes             (* buffer bytes past SizeOfAPCB *)
}.

Definition enc_toks (l : list (Z * Z)) : bytes := concat (map enc_pair l).

Definition enc_type (t : ttype) : bytes :=
  ty_h1 t ++ le_enc 2 (ty_size t) ++ ty_h2 t ++ enc_toks (ty_toks t).

Definition enc_types (l : list ttype) : bytes := concat (map enc_type l).

Definition enc_group (g : group) : bytes :=
  match g with
  | TokGroup sg vr ex tys =>
    sg ++ le_enc 2 12288 ++ le_enc 2 (16 + zlen ex) ++ vr ++ le_enc 4 (group_size g) ++ ex ++ enc_types tys
  | Foreign pre body => pre ++ le_enc 4 (group_size g) ++ body
  end.

Definition enc_groups (l : list group) : bytes := concat (map enc_group l).

Definition blob_size (s : blob) : Z := 128 + groups_size (bl_groups s).

Definition enc_blob (s : blob) : bytes :=
  bl_h1 s ++ le_enc 4 (blob_size s) ++ bl_h2 s ++ enc_groups (bl_groups s) ++ bl_slack s.

Definition wf_pair (p : Z * Z) : bool :=
  (0 <=? fst p) && (fst p <? 2 ^ 32) && (0 <=? snd p) && (snd p <? 2 ^ 32).

Definition wf_type (t : ttype) : bool :=
  (zlen (ty_h1 t) =? 4) && (zlen (ty_h2 t) =? 10) && bytes_ok (ty_h1 t) && bytes_ok (ty_h2 t) &&
  forallb wf_pair (ty_toks t) && (ty_size t <? 2 ^ 16).

Definition wf_group (g : group) : bool :=
  match g with
  | TokGroup sg vr ex tys =>
    (zlen sg =? 4) && (zlen vr =? 4) && bytes_ok sg && bytes_ok vr && bytes_ok ex &&
    (16 + zlen ex <? 2 ^ 16) && forallb wf_type tys && (group_size g <? 2 ^ 32)
  | Foreign pre body =>
    (zlen pre =? 12) && bytes_ok pre && bytes_ok body && negb (rd 4 2 pre =? 12288) &&
    (group_size g <? 2 ^ 32)
  end.

Definition wf_blob (s : blob) : bool :=
  (zlen (bl_h1 s) =? 8) && (zlen (bl_h2 s) =? 116) && bytes_ok (bl_h1 s) && bytes_ok (bl_h2 s) &&
  (rd 0 4 (bl_h1 s) =? apcb_sig_v2) && (rd 20 4 (bl_h2 s) =? apcb_sig_v3) &&
  (rd 112 4 (bl_h2 s) =? apcb_sig_end) &&
  forallb wf_group (bl_groups s) && bytes_ok (bl_slack s) &&
  (zlen (enc_blob s) <? 2 ^ 32).

(* ---- the decoder behind [abs] ---- *)

Fixpoint dec_toks (n : nat) (b : bytes) : list (Z * Z) :=
  match n with
  | O => []
  | S n' => (rd 0 4 b, rd 4 4 b) :: dec_toks n' (zskipn 8 b)
  end.

Fixpoint dec_types (fuel : nat) (b : bytes) : option (list ttype) :=
  match fuel with
  | O => None
  | S f =>
    match b with
    | [] => Some []
    | _ =>
      if zlen b <? 16 then None else
      let sz := rd 4 2 b in
      if (sz <? 16) || (sz >? zlen b) || negb ((sz - 16) mod 8 =? 0) then None else
      match dec_types f (zskipn sz b) with
      | None => None
      | Some r => Some (mkType (sub 0 4 b) (sub 6 10 b) (dec_toks (Z.to_nat ((sz - 16) / 8)) (sub 16 (sz - 16) b)) :: r)
      end
    end
  end.

Fixpoint dec_groups (fuel : nat) (b : bytes) : option (list group) :=
  match fuel with
  | O => None
  | S f =>
    match b with
    | [] => Some []
    | _ =>
      if zlen b <? 16 then None else
      let sz := rd 12 4 b in
      if (sz <? 16) || (sz >? zlen b) then None else
      match
        (if rd 4 2 b =? 12288 then
           let soh := rd 6 2 b in
           if (soh <? 16) || (soh >? sz) then None else
           match dec_types (S (length b)) (sub soh (sz - soh) b) with
           | None => None
           | Some tys => Some (TokGroup (sub 0 4 b) (sub 8 4 b) (sub 16 (soh - 16) b) tys)
           end
         else Some (Foreign (sub 0 12 b) (sub 16 (sz - 16) b)))
      with
      | None => None
      | Some g =>
        match dec_groups f (zskipn sz b) with
        | None => None
        | Some r => Some (g :: r)
        end
      end
    end
  end.

Definition dec_blob (b : bytes) : option blob :=
  if negb (bytes_ok b) || (zlen b <? 128) || negb (zlen b <? 2 ^ 32) then None else
  if negb ((rd 0 4 b =? apcb_sig_v2) && (rd 32 4 b =? apcb_sig_v3) && (rd 124 4 b =? apcb_sig_end)) then None else
  let size := rd 8 4 b in
  if (size <? 128) || (size >? zlen b) then None else
  match dec_groups (S (length b)) (sub 128 (size - 128) b) with
  | None => None
  | Some gs => Some (mkBlob (sub 0 8 b) (sub 12 116 b) gs (zskipn size b))
  end.

(* the abstraction of the property: the groups of a well-formed blob *)
Definition abs (b : bytes) : option (list group) :=
  match dec_blob b with Some s => Some (bl_groups s) | None => None end.

(* ---- what UpsertToken is to do, on the abstraction ---- *)

Definition ty_matches (kind pm bm : Z) (t : ttype) : bool :=
  (ty_kind t =? kind) && negb (Z.land (ty_board t) bm =? 0) && negb (Z.land (ty_prio t) pm =? 0).

Definition has_tok (k : Z) (l : list (Z * Z)) : bool := existsb (fun p => fst p =? k) l.

Definition upd_toks (k nv : Z) (l : list (Z * Z)) : list (Z * Z) :=
  map (fun p => if fst p =? k then (fst p, nv) else p) l.

Definition upd_type (kind pm bm k nv : Z) (t : ttype) : ttype :=
  if ty_matches kind pm bm t then mkType (ty_h1 t) (ty_h2 t) (upd_toks k nv (ty_toks t)) else t.

Definition upd_group (kind pm bm k nv : Z) (g : group) : group :=
  match g with
  | TokGroup sg vr ex tys => TokGroup sg vr ex (map (upd_type kind pm bm k nv) tys)
  | Foreign _ _ => g
  end.

Definition type_changes (kind pm bm k : Z) (t : ttype) : bool :=
  ty_matches kind pm bm t && has_tok k (ty_toks t).

Definition group_changes (kind pm bm k : Z) (g : group) : bool :=
  match g with
  | TokGroup _ _ _ tys => existsb (type_changes kind pm bm k) tys
  | Foreign _ _ => false
  end.

Definition any_changes (kind pm bm k : Z) (G : list group) : bool :=
  existsb (group_changes kind pm bm k) G.

(* number of leading... the position just after the last token whose id is <= k *)
Fixpoint ins_pos_from (k : Z) (l : list (Z * Z)) (i acc : nat) : nat :=
  match l with
  | [] => acc
  | p :: r => ins_pos_from k r (S i) (if fst p <=? k then S i else acc)
  end.
Definition ins_pos (k : Z) (l : list (Z * Z)) : nat := ins_pos_from k l 0 0.

Definition ins_tok (k nv : Z) (t : ttype) : ttype :=
  let p := ins_pos k (ty_toks t) in
  mkType (ty_h1 t) (ty_h2 t) (firstn p (ty_toks t) ++ (k, nv) :: skipn p (ty_toks t)).

(* insert into the last matching type of a type list *)
Fixpoint ins_last_type (kind pm bm k nv : Z) (tys : list ttype) : option (list ttype) :=
  match tys with
  | [] => None
  | t :: r =>
    match ins_last_type kind pm bm k nv r with
    | Some r' => Some (t :: r')
    | None => if ty_matches kind pm bm t then Some (ins_tok k nv t :: r) else None
    end
  end.

(* ... of the last token group that has a matching type *)
Fixpoint ins_last_group (kind pm bm k nv : Z) (G : list group) : option (list group) :=
  match G with
  | [] => None
  | g :: r =>
    match ins_last_group kind pm bm k nv r with
    | Some r' => Some (g :: r')
    | None =>
      match g with
      | TokGroup sg vr ex tys =>
        match ins_last_type kind pm bm k nv tys with
        | Some tys' => Some (TokGroup sg vr ex tys' :: r)
        | None => None
        end
      | Foreign _ _ => None
      end
    end
  end.

Definition new_type (kind pm bm k nv : Z) : ttype :=
  mkType (le_enc 2 12288 ++ le_enc 2 kind)
         (le_enc 2 0 ++ [2; 1; 8; pm; 4; 0] ++ le_enc 2 bm)
         [(k, nv)].

(* append a new type to the last token group *)
Fixpoint add_type_last (nt : ttype) (G : list group) : option (list group) :=
  match G with
  | [] => None
  | g :: r =>
    match add_type_last nt r with
    | Some r' => Some (g :: r')
    | None =>
      match g with
      | TokGroup sg vr ex tys => Some (TokGroup sg vr ex (tys ++ [nt]) :: r)
      | Foreign _ _ => None
      end
    end
  end.

Definition new_group (nt : ttype) : group :=
  TokGroup (le_enc 4 apcb_sig_token_group) (le_enc 2 1 ++ le_enc 2 0) [] [nt].

(* the selected insertion target is a type that cannot take another pair *)
Fixpoint last_match_full (kind pm bm : Z) (tys : list ttype) : option bool :=
  match tys with
  | [] => None
  | t :: r =>
    match last_match_full kind pm bm r with
    | Some f => Some f
    | None => if ty_matches kind pm bm t then Some (ty_size t + 8 >? 65535) else None
    end
  end.
Fixpoint last_group_match_full (kind pm bm : Z) (G : list group) : option bool :=
  match G with
  | [] => None
  | g :: r =>
    match last_group_match_full kind pm bm r with
    | Some f => Some f
    | None => match g with TokGroup _ _ _ tys => last_match_full kind pm bm tys | Foreign _ _ => None end
    end
  end.

(* groups after a successful upsert *)
Definition upsert_spec (k pm bm kind nv : Z) (G : list group) : list group :=
  if any_changes kind pm bm k G then map (upd_group kind pm bm k nv) G else
  match ins_last_group kind pm bm k nv G with
  | Some G' => G'
  | None =>
    match add_type_last (new_type kind pm bm k nv) G with
    | Some G' => G'
    | None => G ++ [new_group (new_type kind pm bm k nv)]
    end
  end.

(* the whole call on a blob: new blob and error class (0 = success) *)
Definition upsert_blob (k pm bm kind nv : Z) (s : blob) : blob * Z :=
  let G := bl_groups s in
  if any_changes kind pm bm k G then
    (mkBlob (bl_h1 s) (bl_h2 s) (upsert_spec k pm bm kind nv G) (bl_slack s), 0)
  else if (match last_group_match_full kind pm bm G with Some true => true | _ => false end) then
    (s, E_TYPE_FULL)
  else
    let G' := upsert_spec k pm bm kind nv G in
    let added := groups_size G' - groups_size G in
    if added >? zlen (bl_slack s) then (s, E_NOROOM)
    else (mkBlob (bl_h1 s) (bl_h2 s) G' (zskipn added (bl_slack s)), 0).

(* ---- the listing of a well-formed blob ---- *)

Definition type_tokens (t : ttype) : list token :=
  map (fun p => mkToken (fst p) (ty_prio t) (ty_board t) (ty_kind t) (snd p)) (ty_toks t).

Definition group_tokens (g : group) : list token :=
  match g with
  | TokGroup _ _ _ tys => concat (map type_tokens tys)
  | Foreign _ _ => []
  end.

(* every token of the blob with its raw 32-bit value, in blob order *)
Definition all_tokens (G : list group) : list token := concat (map group_tokens G).

(* what ParseAPCBBinaryTokens reports: values cut to the width of the kind *)
Definition shown (t : token) : option token :=
  match process_value (tk_kind t) (tk_val t) with
  | Some v => Some (mkToken (tk_id t) (tk_prio t) (tk_board t) (tk_kind t) v)
  | None => None
  end.

Fixpoint show_all (l : list token) : outcome (list token) :=
  match l with
  | [] => Ok []
  | t :: r =>
    match shown t with
    | None => Err E_UNK_TYPE
    | Some t' => do r' <- show_all r; Ok (t' :: r')
    end
  end.
