(* Model/CreateFv.v — executable model of the create-fv operation (property C02).

   Transcribes (Go, /repo):
     pkg/visitors/createfv.go   createEmptyFirmwareVolume (header, block map, checksum, the
                                extended header inside a pad file, erased rest), CreateFV.Visit for
                                a bare BIOS region (FRegion = nil: offsets relative to the region),
                                insertFVinBP (the padding split into head, new volume, tail)
   on top of Model/Ffs.v (CreatePadFile / ChecksumAndAssemble as [checksum_and_assemble], the
   Assemble pass of the new volume as [asm_vol], the region save as [asm_bios]).

   [create_fv_pinned] is the code at the pinned commit: it takes any size.  A size below 116
   (header 72 + name file 44) makes `make([]byte, Length-DataOffset)` panic (Panic 501), a size that
   is not a multiple of the 4 KiB block size gives a block map that does not add up to Length
   (C02_create_fv_pinned_refuted).  [create_fv] is the operation with the repair
   fixes/C02-createfv-whole-blocks.diff: such sizes are an error.  On whole-block sizes the two are
   the same function (C02_create_fv_agree).

   Not modelled: the flash-image case (FRegion <> nil: absolute offsets), name = nil (the command
   line always gives a name), uint64 wrap of offset + size (the region check keeps both below the
   region length).  No proofs here. *)
From Fiano Require Import Base.Bytes Model.Ffs.
Open Scope Z_scope.

Definition FVH_SIG : Z := 1213613663.      (* "_FVH" little endian *)
Definition CFV_ATTRS : Z := 327423.        (* 0x0004FEFF *)
Definition CFV_BLOCK : Z := 4096.
Definition E_CFVSIZE : Z := 40.            (* repaired code: size is not a positive multiple of the block size *)
Definition E_CFVRANGE : Z := 41.           (* beyond the region / no padding holds the range *)

(* binary.Write of FirmwareVolumeFixedHeader (56 bytes: zero vector, file system GUID, Length,
   signature, attributes, HeaderLen, Checksum, ExtHeaderOffset, reserved, revision) and of the two
   block entries {Count, Size}; [cfv_hdr0] is what stands in front of the checksum field,
   [cfv_hdr1] what follows it *)
Definition cfv_hdr0 (size : Z) : bytes :=
  zrepeat 0 16 ++ FFS2 ++ le_enc 8 size ++ le_enc 4 FVH_SIG ++ le_enc 4 CFV_ATTRS ++ le_enc 2 72.

Definition cfv_hdr1 (size : Z) : bytes :=
  le_enc 2 96 ++ [0; 2] ++ le_enc 4 ((size / CFV_BLOCK) mod U32) ++ le_enc 4 CFV_BLOCK ++ le_enc 4 0 ++ le_enc 4 0.

(* the header with its checksum: sum := Checksum16(buf[:72]) over the zero field, then 0 - sum *)
Definition cfv_hdr (size : Z) : bytes :=
  cfv_hdr0 size ++ le_enc 2 ((0 - sum16 (cfv_hdr0 size ++ [0; 0] ++ cfv_hdr1 size)) mod 65536) ++ cfv_hdr1 size.

(* the extended header (FVName, ExtHeaderSize = 20) inside a pad file: CreatePadFile(24 + 20),
   then ChecksumAndAssemble(extended header) on the same File *)
Definition cfv_name_file (pol : Z) (name : bytes) : outcome bytes :=
  if negb ((pol =? 255) || (pol =? 0)) then Err E_POLARITY else
  let g := zrepeat pol 16 in
  let '(ext, attr) := set_size 0 44 false in
  let h := mkFile g 0 0 240 attr (write3 ext) (Z.lxor 7 pol) ext 24 None in
  let '(h1, _) := checksum_and_assemble h ext attr (zrepeat pol 20) in
  Ok (snd (checksum_and_assemble h1 ext attr (name ++ le_enc 4 20))).

(* createEmptyFirmwareVolume(fvOffset, size, name) as it is at the pinned commit: the header
   record and the buffer (Length bytes) of the new volume *)
Definition create_fv_pinned (pol size : Z) (name : bytes) (fvoff : Z) : outcome (volhdr * bytes) :=
  do nf <- cfv_name_file pol name;
  (* InsertFile(72, name file): the buffer is exactly the header, no gap; then
     make([]byte, Length - DataOffset) in uint64: below 116 the difference wraps *)
  if size <? 116 then Panic 501 else
  Ok (mkVol (zrepeat 0 16) FFS2 size FVH_SIG CFV_ATTRS 72 0 96 0 2
            [((size / CFV_BLOCK) mod U32, CFV_BLOCK); (0, 0)] name 20 120 fvoff false ((size - 120) mod U64),
      cfv_hdr size ++ nf ++ zrepeat pol (size - 116)).

(* with fixes/C02-createfv-whole-blocks.diff *)
Definition create_fv (pol size : Z) (name : bytes) (fvoff : Z) : outcome (volhdr * bytes) :=
  if (size =? 0) || negb (size mod CFV_BLOCK =? 0) then Err E_CFVSIZE else
  create_fv_pinned pol size name fvoff.

(* CreateFV.Visit on the elements of a bare BIOS region of [length] bytes: the first padding that
   holds [off, off + size) is replaced by (head padding) new volume (tail padding) *)
Fixpoint cfv_insert (mk : Z -> outcome (volhdr * bytes)) (elems : list node) (off size : Z)
  : outcome (list node) :=
  match elems with
  | [] => Err E_CFVRANGE
  | NPad po pb :: r =>
    if (po <=? off) && (off + size <=? po + zlen pb) then
      do hv <- mk off;
      let '(h, vb) := hv in
      let head := if po <? off then [NPad po (zfirstn (off - po) pb)] else [] in
      let tstart := off - po + v_length h in
      let tail := if tstart <? zlen pb then [NPad (off + v_length h) (zskipn tstart pb)] else [] in
      Ok (head ++ NVol h vb [] :: tail ++ r)
    else
      do r' <- cfv_insert mk r off size; Ok (NPad po pb :: r')
  | e :: r => do r' <- cfv_insert mk r off size; Ok (e :: r')
  end.

Definition create_fv_region (fixed : bool) (pol : Z) (elems : list node) (length off size : Z) (name : bytes)
  : outcome (list node) :=
  if length <? off + size then Err E_CFVRANGE else
  cfv_insert (fun o => if fixed then create_fv pol size name o else create_fv_pinned pol size name o) elems off size.
