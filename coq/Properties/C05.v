(* Properties/C05.v — UEFI image parsing is total: a tree or an error, never a crash or a hang.
   Only statements; every proof is [exact <lemma of Proofs/Ffs*Proofs.v>].

   In the model every Go slice/index expression that can fail is a checked operation yielding
   [Panic site], every loop runs on local fuel derived from the buffer it scans and yields
   [Panic 901..905] when that fuel runs out, and the nesting recursion (section -> volume -> file
   -> section, and section -> decompressed sections) runs on the depth fuel [d] and yields [Fuel].
   "Never panics, never loops without consuming input" is therefore: no parser ever returns
   [Panic], for all byte strings, all oracles and all depths.

   Hypotheses: [bytes_ok buf] (the input is a byte string: every element in 0..255) and
   [dec_ok dec] (the decompressor returns byte strings).  Nothing else.

   Memory clause ("never allocates according to an unchecked length field"): implicit in the
   model, where every buffer of the tree is a window [sub off len] of the input or of an oracle
   output (theorems of Properties/C04.v); the model has no allocation primitive, so the clause is
   covered on the implementation side by the memory ceiling of the [p_total] oracle only.
   NOT modelled (test only, by [p_total]): the json/table/extract/validate visitors, the NVAR store
   parser (property C10), the ME region / flash descriptor (C12), the real Go heap and stack.
   In particular the depth of the nesting recursion is bounded only by what the decompressor
   returns: a compressed section whose payload decodes to (a section containing) itself would
   recurse without bound in the model ([Fuel] for every [d]) and in the Go code alike. *)
From Fiano Require Import Base.Bytes Model.Ffs Proofs.FfsParseProofs Proofs.FfsAsmTotalProofs
  Proofs.FfsExamples.
Open Scope Z_scope.

(* no parser panics; in particular the local loop fuels (sites 901-904) never run out, i.e. every
   loop iteration strictly advances its offset *)
Theorem C05_parse_no_panic : forall dec u2s nvar, dec_ok dec ->
  forall d pol buf, bytes_ok buf = true ->
  (forall i, is_panic (parse_section dec u2s nvar d pol buf i) = false) /\
  is_panic (parse_file dec u2s nvar d pol buf) = false /\
  (forall fvoff resizable, is_panic (parse_fv dec u2s nvar d pol buf fvoff resizable) = false).
Proof. exact parsers_no_panic. Qed.
Print Assumptions C05_parse_no_panic.

(* the BIOS-region scan (site 905) included *)
Theorem C05_parse_region_no_panic : forall dec u2s nvar, dec_ok dec ->
  forall d buf, bytes_ok buf = true -> is_panic (parse_region dec u2s nvar d buf) = false.
Proof. exact region_no_panic. Qed.
Print Assumptions C05_parse_region_no_panic.

(* [Fuel] comes from the nesting depth only: once the outcome at depth [d] is not [Fuel] it is the
   outcome at every larger depth (a tree stays that tree, an error stays that error) *)
Theorem C05_fuel_only_from_depth : forall dec u2s nvar d d', (d <= d')%nat ->
  (forall pol b i, parse_section dec u2s nvar d pol b i = Fuel \/
                   parse_section dec u2s nvar d' pol b i = parse_section dec u2s nvar d pol b i) /\
  (forall pol b, parse_file dec u2s nvar d pol b = Fuel \/
                 parse_file dec u2s nvar d' pol b = parse_file dec u2s nvar d pol b) /\
  (forall pol b o r, parse_fv dec u2s nvar d pol b o r = Fuel \/
                     parse_fv dec u2s nvar d' pol b o r = parse_fv dec u2s nvar d pol b o r) /\
  (forall b, parse_region dec u2s nvar d b = Fuel \/
             parse_region dec u2s nvar d' b = parse_region dec u2s nvar d b).
Proof. exact depth_stable. Qed.
Print Assumptions C05_fuel_only_from_depth.

Theorem C05_ok_stable_in_depth : forall dec u2s nvar d d' b r, (d <= d')%nat ->
  parse_region dec u2s nvar d b = Ok r -> parse_region dec u2s nvar d' b = Ok r.
Proof. exact region_ok_stable. Qed.
Print Assumptions C05_ok_stable_in_depth.

(* with decompression disabled (uefi.DisableDecompression, or no section that decodes) the depth
   [length + 3] always suffices: the parser returns a tree or an error.  With a decompressor the
   depth needed is bounded only by what the decompressor returns (see the header comment). *)
Theorem C05_total_without_decompression : forall dec u2s nvar, (forall k p, dec k p = None) ->
  forall d buf, bytes_ok buf = true -> zlen buf + 2 < Z.of_nat d ->
  (exists r, parse_region dec u2s nvar d buf = Ok r) \/
  (exists e, parse_region dec u2s nvar d buf = Err e).
Proof. exact region_total_without_decompression. Qed.
Print Assumptions C05_total_without_decompression.

(* Assemble.Visit applied to a tree the parser accepted never panics: the sites 201 (zero-length
   file buffer, log.Fatalf), 202-207 (slices and indices of the volume case), 301 (GUID-defined
   section without its header) and 401 (copy beyond the region buffer) are unreachable; for every
   codec oracle [enc] and UCS-2 encoder [s2u] *)
Theorem C05_asm_no_panic_on_parsed : forall dec enc u2s s2u nvar, dec_ok dec ->
  forall d buf elems pol, bytes_ok buf = true ->
  parse_region dec u2s nvar d buf = Ok (elems, pol) ->
  is_panic (asm_bios enc s2u elems (zlen buf) (pol, false)) = false.
Proof. exact asm_no_panic_on_parsed. Qed.
Print Assumptions C05_asm_no_panic_on_parsed.

(* parse followed by save, the whole pipeline *)
Theorem C05_save_region_no_panic : forall dec enc u2s s2u nvar, dec_ok dec ->
  forall d buf, bytes_ok buf = true ->
  is_panic (save_region dec enc u2s s2u nvar d buf) = false.
Proof. exact save_region_no_panic. Qed.
Print Assumptions C05_save_region_no_panic.

(* ---- non-vacuity ---- *)
Example ex_c05_input_ok : bytes_ok ex_img = true /\ dec_ok ex_dec.
Proof. split; [exact ex_img_ok|exact ex_dec_ok]. Qed.

Example ex_c05_depth : parse_region ex_dec ex_u2s ex_nvar 5 ex_img = Fuel /\
  exists elems, parse_region ex_dec ex_u2s ex_nvar 6 ex_img = Ok (elems, 255).
Proof. split; [exact ex_too_shallow|]. destruct ex_parses as (e & H & _). exists e; exact H. Qed.

(* the example tree has children everywhere, so every rebuilding branch of the assembler runs *)
Example ex_c05_save : is_ok (save_region ex_dec ex_enc ex_u2s ex_s2u ex_nvar 6 ex_img) = true.
Proof. vm_compute. reflexivity. Qed.

(* ---------------------------------------------------------------------------------------- *)
(* "The same holds for every tree-walking operation (json, table, validate, extract, assemble)
   applied to a tree that parsing accepted": assemble is [C05_assemble_no_panic] above; for the
   validate visitor the statement holds for EVERY tree, accepted by the parser or not (model
   Model/Validate.v, lemma of Proofs/ValidateProofs.v; the same lemma closes C09_validate_total):
   its slice expressions f.Buf()[:HeaderLen], f.buf[:headerSize], f.Buf()[headerSize:] and
   f.Buf()[fvlen-FreeSpace:] are checked operations of the model and none can fail.
   [fixed] selects the repaired or the pinned validate.  json / table / extract stay test-only. *)
From Fiano Require Import Gen.Consts Model.Validate Proofs.ValidateProofs.

Theorem C05_validate_total : forall fixed n, exists l, validate_gen fixed n = Ok l.
Proof. exact validate_total. Qed.
Print Assumptions C05_validate_total.
