(* Properties/C13.v — flash-map reads and writes are exact and confined.
   Only statements; every proof is [exact <lemma of Proofs/FmapProofs.v>]. *)
From Fiano Require Import Base.Bytes Gen.Consts Model.Fmap Proofs.FmapProofs Proofs.FmapWriteProofs.
Open Scope Z_scope.

(* writing a map and reading it back returns the same header, areas and offset,
   provided no other offset of the written image carries a valid header *)
Theorem C13_write_read : forall img m start,
  wf_map m = true -> 0 <= start ->
  (forall j, 0 <= j -> j <> start -> valid_at (write img m start) j = false) ->
  read (write img m start) = Ok (m, start).
Proof. exact write_read. Qed.
Print Assumptions C13_write_read.

(* writing the map just read leaves the image unchanged *)
Theorem C13_read_write_id : forall img m start,
  bytes_ok img = true -> read img = Ok (m, start) -> write img m start = img.
Proof. exact read_write_id. Qed.
Print Assumptions C13_read_write_id.

(* Write itself is confined: where the map fits, exactly the bytes [start, start + length of the
   encoding) change, they become the fixed little-endian layout enc_fmap, the image keeps its length *)
Theorem C13_write_confined : forall img m start,
  0 <= start -> start + zlen (enc_fmap m) <= zlen img ->
  zlen (write img m start) = zlen img /\
  sub start (zlen (enc_fmap m)) (write img m start) = enc_fmap m /\
  forall k, (Z.of_nat k < start \/ start + zlen (enc_fmap m) <= Z.of_nat k) ->
            nth_error (write img m start) k = nth_error img k.
Proof. exact write_confined. Qed.
Print Assumptions C13_write_confined.

(* the encoding of a well-formed map is the header plus one fixed-size entry per area *)
Theorem C13_enc_length : forall m, wf_map m = true ->
  zlen (enc_fmap m) = hdr_len + area_len * h_nareas (f_hdr m).
Proof. exact enc_fmap_length. Qed.
Print Assumptions C13_enc_length.

(* reading area i returns exactly the image bytes [offset, offset+size) *)
Theorem C13_read_area_exact : forall m img i bs, read_area m img i = Ok bs ->
  exists a, nth_area m i = Some a /\ 0 <= i < h_nareas (f_hdr m) /\
            a_off a + a_size a <= zlen img /\ bs = sub (a_off a) (a_size a) img.
Proof. exact read_area_exact. Qed.
Print Assumptions C13_read_area_exact.

Theorem C13_read_area_total : forall m img i a, wf_map m = true ->
  nth_area m i = Some a -> a_off a < zlen img -> a_off a + a_size a <= zlen img ->
  read_area m img i = Ok (sub (a_off a) (a_size a) img).
Proof. exact read_area_total. Qed.
Print Assumptions C13_read_area_total.

(* writing to an area changes only bytes inside it ... *)
Theorem C13_write_area_confined : forall m img i d img', write_area m img i d = Ok img' ->
  zlen d < 2 ^ 32 ->
  exists a, nth_area m i = Some a /\ zlen d <= a_size a /\
    (0 <= a_off a -> a_off a + zlen d <= zlen img ->
       zlen img' = zlen img /\ sub (a_off a) (zlen d) img' = d /\
       forall k, (Z.of_nat k < a_off a \/ a_off a + zlen d <= Z.of_nat k) ->
                 nth_error img' k = nth_error img k).
Proof. exact write_area_confined. Qed.
Print Assumptions C13_write_area_confined.

(* ... and is refused if the data is larger than the area *)
Theorem C13_write_area_refuses_large : forall m img i d a,
  nth_area m i = Some a -> 0 <= i < h_nareas (f_hdr m) -> zlen d < 2 ^ 32 ->
  a_size a < zlen d -> write_area m img i d = Err E_TOOLARGE.
Proof. exact write_area_refuses_large. Qed.
Print Assumptions C13_write_area_refuses_large.

(* the checksum covers exactly the static areas in table order *)
Theorem C13_checksum_static_in_order : forall m img, wf_map m = true ->
  (forall a, In a (f_areas m) -> static a = true ->
     a_off a < zlen img /\ a_off a + a_size a <= zlen img) ->
  checksum_input m img =
    Ok (concat (map (fun a => sub (a_off a) (a_size a) img) (filter static (f_areas m)))).
Proof. exact checksum_covers_static_in_order. Qed.
Print Assumptions C13_checksum_static_in_order.

(* a truncated, absent or duplicated map yields an error, never a partial map *)
Theorem C13_read_ok_is_complete_and_unique : forall data m p, read data = Ok (m, p) ->
  0 <= p /\ valid_here (zskipn p data) = Some (f_hdr m) /\
  dec_areas (Z.to_nat (h_nareas (f_hdr m))) (zskipn hdr_len (zskipn p data)) = Some (f_areas m) /\
  (forall j, 0 <= j -> j <> p -> valid_here (zskipn j data) = None).
Proof. exact read_ok_inv. Qed.
Print Assumptions C13_read_ok_is_complete_and_unique.

Theorem C13_read_absent : forall data,
  (forall j, 0 <= j -> valid_here (zskipn j data) = None) -> read data = Err E_NOTFOUND.
Proof. exact read_absent. Qed.
Print Assumptions C13_read_absent.

Theorem C13_read_truncated : forall data k h,
  0 <= k -> valid_here (zskipn k data) = Some h ->
  dec_areas (Z.to_nat (h_nareas h)) (zskipn hdr_len (zskipn k data)) = None ->
  read data = Err E_EOF.
Proof. exact read_truncated. Qed.
Print Assumptions C13_read_truncated.

Theorem C13_read_duplicated : forall data j k hj hk,
  0 <= j -> 0 <= k -> j <> k ->
  valid_here (zskipn j data) = Some hj -> valid_here (zskipn k data) = Some hk ->
  exists e, read data = Err e.
Proof. exact read_duplicated. Qed.
Print Assumptions C13_read_duplicated.

(* ---- non-vacuity: a concrete map satisfies the hypotheses ---- *)
Definition ex_name (s : bytes) : bytes := s ++ zrepeat 0 (32 - zlen s).
Definition ex_map : fmap :=
  mkFmap (mkHeader fmap_signature 1 1 4278190080 4096 (ex_name [70; 76; 65; 83; 72]) 2)
         [ mkArea 0 16 (ex_name [65]) 1; mkArea 32 8 (ex_name [66; 66]) 0 ].
Definition ex_img : bytes := zrepeat 255 64 ++ [95; 95; 70; 77; 65; 80] ++ zrepeat 170 300.

Example ex_wf : wf_map ex_map = true.
Proof. vm_compute. reflexivity. Qed.

Example ex_write_confined : zlen (enc_fmap ex_map) = 140 /\
  sub 0 70 (write ex_img ex_map 70) = sub 0 70 ex_img /\ sub 210 160 (write ex_img ex_map 70) = sub 210 160 ex_img.
Proof. vm_compute. repeat split; reflexivity. Qed.

Example ex_write_read : read (write ex_img ex_map 70) = Ok (ex_map, 70).
Proof. vm_compute. reflexivity. Qed.

(* a decoy signature (invalid header) before the map and a truncated one at the very end *)
Example ex_decoys :
  read (write (fmap_signature ++ ex_img ++ fmap_signature) ex_map 100) = Ok (ex_map, 100).
Proof. vm_compute. reflexivity. Qed.

(* a partial signature directly in front of the map, overlapping its own signature *)
Example ex_overlap : read (write ex_img ex_map 70) = Ok (ex_map, 70) /\
  sub 64 6 (write ex_img ex_map 70) = [95; 95; 70; 77; 65; 80].
Proof. vm_compute. split; reflexivity. Qed.

(* the JSON path of the CLI (fmap jget J IMG; fmap jput J IMG): for a map whose names are 7-bit
   bytes (any of them, including control characters, quotes and names filling all 32 bytes),
   marshalling the map just read and unmarshalling it gives the same map ... *)
Theorem C13_json_map_id : forall m, names32 m = true -> names_ascii m = true ->
  json_map m = Some (Ok m).
Proof. exact json_map_id. Qed.
Print Assumptions C13_json_map_id.

(* ... and writing it back leaves the image bytes unchanged (every map that Read returns has
   32-byte names: read_names32) *)
Theorem C13_json_roundtrip_id : forall img m start,
  bytes_ok img = true -> read img = Ok (m, start) -> names_ascii m = true ->
  json_roundtrip img = Some (Ok img).
Proof. exact json_roundtrip_id. Qed.
Print Assumptions C13_json_roundtrip_id.

Example ex_json_full_name :
  json_name (zrepeat 65 32) = Some (Ok (zrepeat 65 32)) /\
  json_name ([34; 92; 0; 60; 1] ++ zrepeat 0 27) = Some (Ok ([34; 92; 0; 60; 1] ++ zrepeat 0 27)) /\
  json_name ([200] ++ zrepeat 0 31) = None.
Proof. vm_compute. repeat split; reflexivity. Qed.

(* ---- format constants ----
   The models take their format constants from Gen/Consts.v, which is regenerated from /repo's
   source on every run; Spec/ConstPins.v (committed, written by bin/mkpins) pins every one of them
   to the value the specifications give it.  A constant that drifts in the Go source breaks this
   theorem instead of being silently followed by model and generator. *)
From Fiano Require Spec.ConstPins.
Theorem C13_format_constants_pinned : Spec.ConstPins.pinned_c13.
Proof. exact Spec.ConstPins.pins_c13. Qed.
Print Assumptions C13_format_constants_pinned.
