(* Properties/C04.v — the parsed tree accounts for every input byte, once.
   Only statements; every proof is [exact <lemma of Proofs/FfsParseProofs.v>].

   All theorems hold for EVERY input on which the parser returns a tree (not only well-formed
   images), every depth fuel [d], every codec / UCS-2 / NVAR oracle.  Theorems that speak about
   positivity of sizes or about decoded payloads assume what makes the input a byte string:
   [bytes_ok buf] (every element in 0..255) and [dec_ok dec] (the decompressor returns bytes).

   The predicates are defined in Proofs/FfsParseProofs.v:
     sec_fields/file_fields/vol_fields h b   the header record [h] is the little-endian decode of
                                             the node's own buffer [b], and [zlen b] is the size
                                             the header reports;
     secs_tile b off kids                    [kids] are sections whose buffers are the windows
                                             [sub o ext b] at consecutive 4-aligned offsets
                                             o = off, align4 (o + ext), ... , each inside [b];
     files_tile b off kids                   the same for files at 8-aligned offsets;
     sec_kids_ok dec h sb kids               children of a section: for a GUID-defined section the
                                             sections tiling the decoded payload
                                             [dec kind (sub DataOffset (ext - DataOffset) sb)],
                                             for an FV-image section the one volume whose buffer is
                                             [sub hlen Length sb]; none otherwise;
     node_ok dec u2s n                       all of the above at every node of the tree [n];
     elems_at abs elems                      BIOS-region elements carry the running offset.

   A node is never shorter than its own header ([s_hlen h <= s_ext h], [f_dataoff h <= f_ext h]):
   this is what the fixes 7046392 (NewSection) and 0617fce (NewFile) established; before them a
   section of size 1..3 (1..7 with the extended-size marker) or a file of size 1..23 (1..31) was
   accepted, its header reached into the next sibling and the field equalities below were false.
   One thing the code does NOT guarantee, so the theorems do not claim it: the block map of a
   volume is read from the data following offset 56 without regard to [Length]/[HeaderLen]
   ([vol_hdr_from] does not mention [v_blocks]).

   The ReadOnly/aliasing half of C04 ("the tree does not depend on copy vs alias mode, the
   caller's buffer is not modified") cannot be expressed in a value model: both modes denote the
   same value.  It is covered only by the [p_partition] oracle, which runs the implementation in
   both modes and compares trees and the caller's buffer.  C04 is therefore PARTIAL in that half. *)
From Fiano Require Import Base.Bytes Model.Ffs Proofs.FfsParseProofs Proofs.FfsExamples.
Open Scope Z_scope.

(* a section node holds exactly the first [s_ext] bytes of the buffer it was parsed from, lies
   inside it, contains its whole header, and its common header fields are the decode of those
   bytes (no hypothesis on the input at all) *)
Theorem C04_section_buf : forall dec u2s nvar d pol buf i n pol',
  parse_section dec u2s nvar d pol buf i = Ok (n, pol') ->
  exists h kids, n = NSec h (sub 0 (s_ext h) buf) kids /\
    s_hlen h <= s_ext h <= zlen buf /\
    s_size3 h = rd 0 3 buf /\ s_type h = rd 3 1 buf /\
    (s_hlen h = 4 \/ (s_hlen h = 8 /\ s_ext h = rd 4 4 buf)).
Proof. exact section_buf. Qed.
Print Assumptions C04_section_buf.

(* all reported fields (including the GUID-defined header, UI name, version) are decoded from the
   section's own bytes; its children are inside it (FV image) or tile its decoded payload *)
Theorem C04_section_fields : forall dec u2s nvar, dec_ok dec ->
  forall d pol buf i h sb kids pol', bytes_ok buf = true ->
  parse_section dec u2s nvar d pol buf i = Ok (NSec h sb kids, pol') ->
  0 <= s_ext h /\ sec_fields u2s h sb /\ sec_kids_ok dec h sb kids /\
  all_ok (node_ok dec u2s) kids.
Proof. exact section_fields. Qed.
Print Assumptions C04_section_fields.

Theorem C04_file_buf : forall dec u2s nvar d pol buf n pol',
  parse_file dec u2s nvar d pol buf = Ok (Some n, pol') ->
  exists h kids, n = NFile h (sub 0 (f_ext h) buf) kids /\
    f_dataoff h <= f_ext h <= zlen buf /\ file_hdr_from h buf /\
    ((f_dataoff h = 24 /\ f_ext h = f_size3 h) \/
     (f_dataoff h = 32 /\ f_size3 h = 16777215 /\ f_ext h = rd 24 8 buf)).
Proof. exact file_buf. Qed.
Print Assumptions C04_file_buf.

(* each child section's buffer is [sub off ext fbuf] at consecutive 4-aligned offsets starting at
   the file's data offset, with off + ext <= length of the file *)
Theorem C04_file_sections_inside : forall dec u2s nvar, dec_ok dec ->
  forall d pol buf h fb kids pol', bytes_ok buf = true ->
  parse_file dec u2s nvar d pol buf = Ok (Some (NFile h fb kids), pol') ->
  0 <= f_ext h /\ file_fields h fb /\ secs_tile fb (f_dataoff h) kids /\
  all_ok (node_ok dec u2s) kids.
Proof. exact file_fields_inside. Qed.
Print Assumptions C04_file_sections_inside.

Theorem C04_fv_buf : forall dec u2s nvar d pol data fvoff resizable n pol',
  parse_fv dec u2s nvar d pol data fvoff resizable = Ok (n, pol') ->
  exists h kids, n = NVol h (sub 0 (v_length h) data) kids /\
    64 <= v_length h <= zlen data /\ vol_hdr_from h data /\
    v_fvoffset h = fvoff /\ v_resizable h = resizable.
Proof. exact fv_buf. Qed.
Print Assumptions C04_fv_buf.

(* each file's buffer is [sub off ext fvbuf] at consecutive 8-aligned offsets from the data
   offset, with off + ext <= Length (what the fix to NewFirmwareVolume established) *)
Theorem C04_fv_files_inside : forall dec u2s nvar, dec_ok dec ->
  forall d pol data fvoff resizable h vb kids pol', bytes_ok data = true ->
  parse_fv dec u2s nvar d pol data fvoff resizable = Ok (NVol h vb kids, pol') ->
  vol_fields h vb /\ files_tile vb (v_dataoff h) kids /\ all_ok (node_ok dec u2s) kids.
Proof. exact fv_fields_inside. Qed.
Print Assumptions C04_fv_files_inside.

(* volumes and paddings of a BIOS region concatenate to the region; every element's offset is the
   sum of the lengths before it *)
Theorem C04_bios_partition : forall dec u2s nvar d n pol buf abs elems pol',
  parse_bios dec u2s nvar d n pol buf abs = Ok (elems, pol') ->
  concat (map node_buf elems) = buf /\ elems_at abs elems.
Proof. exact parse_bios_partition. Qed.
Print Assumptions C04_bios_partition.

Theorem C04_region_partition : forall dec u2s nvar d buf elems pol,
  parse_region dec u2s nvar d buf = Ok (elems, pol) ->
  concat (map node_buf elems) = buf /\ elems_at 0 elems.
Proof. exact region_partition. Qed.
Print Assumptions C04_region_partition.

(* ... and every node below them, at any depth, is faithful *)
Theorem C04_region_nodes_inside : forall dec u2s nvar, dec_ok dec ->
  forall d buf elems pol, bytes_ok buf = true ->
  parse_region dec u2s nvar d buf = Ok (elems, pol) -> all_ok (node_ok dec u2s) elems.
Proof. exact region_nodes_ok. Qed.
Print Assumptions C04_region_nodes_inside.

(* ---- non-vacuity: a concrete image with nesting of every kind parses ---- *)
Example ex_c04_input_ok : bytes_ok ex_img = true /\ dec_ok ex_dec.
Proof. split; [exact ex_img_ok|exact ex_dec_ok]. Qed.

Example ex_c04_parses : exists elems,
  parse_region ex_dec ex_u2s ex_nvar 6 ex_img = Ok (elems, 255) /\
  concat (map shape elems) = ex_shape.
Proof. exact ex_parses. Qed.

Example ex_c04_conclusion : exists elems,
  parse_region ex_dec ex_u2s ex_nvar 6 ex_img = Ok (elems, 255) /\
  concat (map node_buf elems) = ex_img /\ elems_at 0 elems /\ all_ok (node_ok ex_dec ex_u2s) elems.
Proof.
  destruct ex_parses as (elems & H & _). exists elems. split; [exact H|].
  destruct (C04_region_partition _ _ _ _ _ _ _ H). repeat split; auto.
  exact (C04_region_nodes_inside _ _ _ ex_dec_ok _ _ _ _ ex_img_ok H).
Qed.

(* ---------------------------------------------------------------------------------------- *)
(* Kernel ties: the arithmetic kernels of pkg/uefi this property rests on, as TRANSCRIBED FROM
   THE GO SOURCE on every run (translator/Kernels.sh -> Gen/GoKernels.v), equal the functions of
   the model (Proofs/KernelTie.v).  A change of one of these Go functions breaks the lemma. *)
From Fiano Require Import Base.Bytes Base.GoInt Gen.GoKernels Proofs.KernelTie.
Local Open Scope Z_scope.

Theorem C04_kernel_Align : forall v b, go_Align v b = Ffs.align_go v b.
Proof. exact go_Align_tie. Qed.
Print Assumptions C04_kernel_Align.

Theorem C04_kernel_Align_pow2 : forall v k, 0 <= v -> 0 <= k < 64 -> v + 2 ^ k - 1 < 2 ^ 64 ->
  go_Align v (2 ^ k) = Ffs.align v (2 ^ k).
Proof. exact go_Align_pow2. Qed.
Print Assumptions C04_kernel_Align_pow2.

Theorem C04_kernel_Align4 : forall v, 0 <= v -> v + 3 < 2 ^ 64 -> go_Align4 v = Ffs.align4 v.
Proof. exact go_Align4_tie. Qed.
Print Assumptions C04_kernel_Align4.

Theorem C04_kernel_Align8 : forall v, 0 <= v -> v + 7 < 2 ^ 64 -> go_Align8 v = Ffs.align8 v.
Proof. exact go_Align8_tie. Qed.
Print Assumptions C04_kernel_Align8.

Theorem C04_kernel_Read3Size : forall a b c, 0 <= a < 256 -> 0 <= b < 256 -> 0 <= c < 256 ->
  go_Read3Size [a; b; c] = le_dec [a; b; c].
Proof. exact go_Read3Size_tie. Qed.
Print Assumptions C04_kernel_Read3Size.

Theorem C04_kernel_Write3Size : forall size, 0 <= size < 2 ^ 64 -> go_Write3Size size = le_enc 3 (Ffs.write3 size).
Proof. exact go_Write3Size_tie. Qed.
Print Assumptions C04_kernel_Write3Size.

Theorem C04_kernel_Checksum8 : forall b, go_Checksum8 b = Ffs.sum8 b.
Proof. exact go_Checksum8_tie. Qed.
Print Assumptions C04_kernel_Checksum8.

Theorem C04_kernel_Checksum16 : forall b, Z.even (zlen b) = true -> go_Checksum16 b = Ok (Ffs.sum16 b).
Proof. exact go_Checksum16_tie. Qed.
Print Assumptions C04_kernel_Checksum16.

Theorem C04_kernel_Checksum16_odd : forall b, Z.even (zlen b) = false -> go_Checksum16 b = Err 1.
Proof. exact go_Checksum16_odd. Qed.
Print Assumptions C04_kernel_Checksum16_odd.

Theorem C04_kernel_IsErased : forall buf pol, go_IsErased buf pol = forallb (fun x => x =? pol) buf.
Proof. exact go_IsErased_tie. Qed.
Print Assumptions C04_kernel_IsErased.

Theorem C04_kernel_IsLarge : forall a, go_fileAttr_IsLarge a = Ffs.attr_large a.
Proof. exact go_fileAttr_IsLarge_tie. Qed.
Print Assumptions C04_kernel_IsLarge.

Theorem C04_kernel_HasChecksum : forall a, go_fileAttr_HasChecksum a = Ffs.attr_checksum a.
Proof. exact go_fileAttr_HasChecksum_tie. Qed.
Print Assumptions C04_kernel_HasChecksum.

Theorem C04_kernel_GetAlignment : forall a, 0 <= a < 256 -> go_fileAttr_GetAlignment a = Ok (Ffs.attr_align a).
Proof. exact go_fileAttr_GetAlignment_tie. Qed.
Print Assumptions C04_kernel_GetAlignment.

Theorem C04_kernel_GetErasePolarity : forall attrs, go_FirmwareVolume_GetErasePolarity attrs = Ffs.fv_polarity attrs.
Proof. exact go_FirmwareVolume_GetErasePolarity_tie. Qed.
Print Assumptions C04_kernel_GetErasePolarity.

(* ---------------------------------------------------------------------------------------- *)
(* The flash-descriptor clause ("descriptor plus regions tile the flash without gap or overlap"),
   for the Intel flash image entry shape of uefi.Parse (Model/FlashImage.v over Model/TightenMe.v:
   FindSignature, ParseFlashDescriptor, NewFlashImage with its slot loop, sort and fillRegionGaps;
   the BIOS region is kept as its bytes here - its inside is what the theorems above are about,
   applied to [flash_bios_bytes img]).  For every image of whole 4 KiB blocks below 256 MiB
   ([good_img]) on which the flash layout exists:
     - the descriptor node is the first 4 KiB;
     - descriptor followed by the region buffers, in tree order, is the image;
     - the regions follow each other from 4 KiB to the end of the image by their REPORTED block
       ranges ([chain]: each starts where the previous one ends - no gap, no overlap);
     - every region node - declared or filled-in gap - reports a non-empty block range and holds
       exactly the bytes of the image in that range ([region_at]).
   An image whose size is NOT a whole number of blocks is outside [good_img] for a reason: the
   code at HEAD returns, for such an image with an uncovered tail, a last region whose reported
   range is empty (Limit = Base - 1) while it holds the partial block
   (fixes/C04-flash-partial-trailing-block.diff; oracle p_flash_partition). *)
From Fiano Require Import Gen.Consts Model.TightenMe Model.FlashImage Proofs.TightenMeProofs
  Proofs.FlashImageProofs Proofs.C04FlashProofs.

Theorem C04_flash_partition : forall img t, good_img img -> flash_layout img = Ok t ->
  t_ifd t = zfirstn ifd_desc_len img /\
  t_ifd t ++ concat (map region_buf (t_regions t)) = img /\
  chain (t_slots t) (t_regions t) ifd_desc_len = Some (zlen img) /\
  Forall (region_at img (t_slots t)) (t_regions t).
Proof. exact c04_flash_partition. Qed.
Print Assumptions C04_flash_partition.

(* non-vacuity: descriptor, one undeclared block (becomes a gap region), one BIOS block *)
Definition ex4_slots : bytes :=
  [0; 0; 1; 0] ++ (le_enc 2 2 ++ le_enc 2 2) ++ concat (repeat (le_enc 2 32767 ++ le_enc 2 0) 14).
Definition ex4_flash : bytes :=
  Eval vm_compute in
  splice 16 ifd_signature (splice 20 [0; 0; 4; 0; 8; 0; 0; 0] (splice 64 ex4_slots (zrepeat 255 4096)))
  ++ zrepeat 17 4096 ++ zrepeat 34 4096.

Example ex_c04_flash_good : good_img ex4_flash.
Proof. split; [vm_compute; reflexivity|]. split; [exists 3; vm_compute; reflexivity|vm_compute; reflexivity]. Qed.

Example ex_c04_flash_layout :
  match flash_layout ex4_flash with
  | Ok t => (length (t_regions t) =? 2)%nat &&
            forallb (fun r => fr_base (region_fr (t_slots t) r) <=? fr_limit (region_fr (t_slots t) r)) (t_regions t)
  | _ => false
  end = true.
Proof. vm_compute. reflexivity. Qed.
