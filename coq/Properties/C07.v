(* Properties/C07.v — extracting an image to a directory and reassembling from it reproduces the image;
   editing a human-editable field of summary.json changes exactly that field.
   Only statements; every proof is [exact <lemma of Proofs/ExtractProofs.v>].

   Reading guide.  [extract] / [reload] / [dir_save] (Model/Extract.v) are utk's "extract DIR" and
   "DIR save OUT"; [json_project] resets every model field whose Go field does not survive
   encoding/json (flags regenerated from pkg/uefi into Gen/JsonFields.v) and keeps the buffers that
   ParseDir re-reads.  [asm]/[asm_bios]/[parse_region] are the frozen core model (Model/Ffs.v).
   utk's directory branch runs Assemble twice (utk.Run, then Save.Visit): [save_twice].  That a second
   pass reproduces the first ("save is a fixed point") is property C06, not claimed here; the link from
   "two passes started with the poisoned polarity" to the direct save is left to it.
   The JSON text and the hand-written (un)marshalers are not modelled. *)
From Coq Require Import String.
From Fiano Require Import Base.Bytes Model.TightenMe Model.FlashImage Proofs.TightenMeProofs.
From Fiano Require Import Model.Nvar Model.ExtractNvar Proofs.ExtractNvarProofs.
From Fiano Require Import Model.Ffs Model.Extract Model.ExtractFlash Proofs.ExtractProofs Proofs.ExtractFlashProofs.
From Fiano Require Import Model.ExtractEdit Proofs.ExtractEditProofs.
Open Scope Z_scope.

(* ---- path uniqueness ---- *)

(* Under [region_paths_ok] (sibling volumes have distinct offsets, sibling sections distinct FileOrder,
   sibling paddings distinct offsets — nothing is asked of file GUIDs: the running index separates
   files) no two nodes write the same file. *)
Theorem extract_paths_nodup : forall rbuf elems js p f,
  region_paths_ok elems -> extract_region rbuf elems = Ok (js, p, f) -> NoDup (map fst f).
Proof. exact extract_paths_nodup. Qed.
Print Assumptions extract_paths_nodup.

Theorem C07_extract_paths_nodup_subtree : forall n dir idx j f i',
  paths_ok n -> extract dir idx n = Ok (j, f, i') -> NoDup (map fst f).
Proof. exact extract_paths_nodup_node. Qed.
Print Assumptions C07_extract_paths_nodup_subtree.

(* every tree the parser returns satisfies the hypotheses of the theorems of this file *)
Theorem C07_parsed_trees_ok : forall dec u2s nvar,
  (forall k p e, dec k p = Some e -> bytes_ok e = true) ->
  forall d img elems pol, bytes_ok img = true ->
  parse_region dec u2s nvar d img = Ok (elems, pol) ->
  wf_treeb_list elems = true /\ region_paths_ok elems.
Proof. exact parse_region_inv. Qed.
Print Assumptions C07_parsed_trees_ok.

(* hence, for every image: the files written by "extract" have pairwise distinct paths *)
Theorem C07_extract_paths_nodup_image : forall dec u2s nvar,
  (forall k p e, dec k p = Some e -> bytes_ok e = true) ->
  forall d img ps, bytes_ok img = true -> extract_paths dec u2s nvar d img = Ok ps -> NoDup ps.
Proof. exact image_paths_nodup. Qed.
Print Assumptions C07_extract_paths_nodup_image.

(* ---- the directory describes the tree completely ---- *)

(* ParseDir of what Extract wrote is exactly the JSON projection of the tree *)
Theorem C07_reload_is_projection : forall mangle3 n dir idx j f i',
  paths_ok n -> extract dir idx n = Ok (j, f, i') -> reload mangle3 f j = Ok (json_project mangle3 n).
Proof. exact reload_extract_project. Qed.
Print Assumptions C07_reload_is_projection.

(* the assembler reads nothing that the projection loses: trees that agree on what [rel] lists
   (header fields used by Assemble, leaf buffers, volume header bytes) assemble alike; checksums, all
   size fields, FileOrder, the reserved/zero-vector header bytes are recomputed or never read *)
Theorem C07_asm_reads_only_rel : forall enc s2u t1 t2 st,
  rel t1 t2 -> same_result (asm enc s2u t1 st) (asm enc s2u t2 st).
Proof. intros enc s2u t1 t2 st H. apply res_rel_same. exact (asm_congr enc s2u t1 t2 st H). Qed.
Print Assumptions C07_asm_reads_only_rel.

Theorem C07_projection_is_rel : forall mangle3 n, wf_tree n -> rel (json_project mangle3 n) n.
Proof. exact json_project_rel. Qed.
Print Assumptions C07_projection_is_rel.

(* extract, reload, one Assemble pass = one Assemble pass on the tree (any subtree, any visitor state) *)
Theorem C07_dir_roundtrip : forall enc s2u mangle3 n dir idx st,
  paths_ok n -> wf_tree n ->
  exists j f i' n', extract dir idx n = Ok (j, f, i') /\ NoDup (map fst f) /\
    reload mangle3 f j = Ok n' /\ same_result (asm enc s2u n' st) (asm enc s2u n st).
Proof. exact dir_roundtrip_node. Qed.
Print Assumptions C07_dir_roundtrip.

(* the whole route on a BIOS region, as utk runs it (two passes, polarity poisoned at the start):
   same outcome — bytes or error class — as the two passes on the tree itself *)
Theorem C07_dir_roundtrip_region : forall enc s2u mangle3 rbuf elems len,
  region_paths_ok elems -> wf_treeb_list elems = true ->
  dir_save_tree enc s2u mangle3 rbuf elems len = save_twice enc s2u elems len (240, false).
Proof. exact dir_save_tree_eq. Qed.
Print Assumptions C07_dir_roundtrip_region.

(* for every image: "extract DIR" then "DIR save" = parse then the same two passes, no hypothesis on
   the image *)
Theorem C07_dir_roundtrip_image : forall dec enc u2s s2u nvar mangle3,
  (forall k p e, dec k p = Some e -> bytes_ok e = true) ->
  forall d img, bytes_ok img = true ->
  dir_save dec enc u2s s2u nvar mangle3 d img = save_twice_image dec enc u2s s2u nvar d img.
Proof. exact image_dir_save. Qed.
Print Assumptions C07_dir_roundtrip_image.

(* for every image: one pass over the projected tree = the direct save of Ffs.v *)
Theorem C07_projected_save_image : forall dec enc u2s s2u nvar mangle3,
  (forall k p e, dec k p = Some e -> bytes_ok e = true) ->
  forall d img, bytes_ok img = true ->
  save_projected dec enc u2s s2u nvar mangle3 d img = save_region dec enc u2s s2u nvar d img.
Proof. exact image_save_projected. Qed.
Print Assumptions C07_projected_save_image.

(* ---- single-field edits ---- *)

(* GUID of a file rebuilt from its sections: the sections are assembled as before, the file is
   rebuilt with the new GUID ... *)
Theorem C07_field_edit_guid : forall enc s2u h buf kids st g' kids' st',
  f_nvar h = None -> kids <> [] -> asm_elems enc s2u kids st = Ok (kids', st') ->
  asm enc s2u (NFile h buf kids) st = Ok (rebuilt_file h kids' st') /\
  asm enc s2u (NFile (with_guid h g') buf kids) st = Ok (rebuilt_file (with_guid h g') kids' st').
Proof. exact edit_guid_in_file. Qed.
Print Assumptions C07_field_edit_guid.

(* ... and in the file bytes exactly the 16 GUID bytes and the header checksum byte (offset 16)
   differ; everything from offset 17 on, the sizes and the file checksum stay *)
Theorem C07_field_edit_guid_bytes : forall h g' ext attr data,
  zlen (f_guid h) = 16 -> zlen g' = 16 ->
  let r1 := checksum_and_assemble h ext attr data in
  let r2 := checksum_and_assemble (with_guid h g') ext attr data in
  snd r2 = g' ++ f_ckh (fst r2) :: zskipn 17 (snd r1) /\
  snd r1 = f_guid h ++ f_ckh (fst r1) :: zskipn 17 (snd r1) /\
  fst r2 = with_guid (mkFile (f_guid h) (f_ckh (fst r2)) (f_ckf (fst r1)) (f_type (fst r1)) (f_attr (fst r1))
                             (f_size3 (fst r1)) (f_state (fst r1)) (f_ext (fst r1)) (f_dataoff (fst r1))
                             (f_nvar (fst r1))) g'.
Proof. exact edit_guid_bytes. Qed.
Print Assumptions C07_field_edit_guid_bytes.

(* the recomputed header checksum is the valid one: the header sums to zero (mod 256) once the file
   checksum and the state byte are left out, as the PI specification defines it *)
Theorem C07_recomputed_header_checksum_valid : forall h ext attr data,
  zlen (f_guid h) = 16 ->
  let r := checksum_and_assemble h ext attr data in
  (sum8 (zfirstn (file_hlen attr) (snd r)) - f_ckf (fst r) - f_state (fst r)) mod 256 = 0.
Proof. exact header_checksum_valid. Qed.
Print Assumptions C07_recomputed_header_checksum_valid.

(* UI name: the section becomes header(size) ++ UCS-2(new name), independent of the old buffer and
   name; the visitor state is untouched *)
Theorem C07_field_edit_ui : forall enc s2u h buf st nm,
  s_type h = 21 -> s_gd h = None -> zlen (s2u nm) + 4 < 16777215 ->
  asm enc s2u (NSec (with_name h nm) buf []) st =
  Ok (NSec (small_hdr (with_name h nm) (s2u nm)) (small_section 21 (s2u nm)) [], st).
Proof. exact edit_ui. Qed.
Print Assumptions C07_field_edit_ui.

Theorem C07_field_edit_version : forall enc s2u h buf st v,
  s_type h = 20 -> s_gd h = None -> zlen (le_enc 2 (s_build h) ++ s2u v) + 4 < 16777215 ->
  asm enc s2u (NSec (with_version h v) buf []) st =
  Ok (NSec (small_hdr (with_version h v) (le_enc 2 (s_build h) ++ s2u v))
           (small_section 20 (le_enc 2 (s_build h) ++ s2u v)) [], st).
Proof. exact edit_version. Qed.
Print Assumptions C07_field_edit_version.

(* dependency expression: header ++ opcode bytes of the new list; an opcode list that is not
   well-formed (GUID missing or superfluous) is refused *)
Theorem C07_field_edit_depex : forall enc s2u h buf st d,
  (s_type h = 19 \/ s_type h = 27 \/ s_type h = 28) -> s_gd h = None ->
  match emit_depex d with
  | Ok body => zlen body + 4 < 16777215 ->
      asm enc s2u (NSec (with_depex h d) buf []) st =
      Ok (NSec (small_hdr (with_depex h d) body) (small_section (s_type h) body) [], st)
  | _ => asm enc s2u (NSec (with_depex h d) buf []) st = Err E_DEPEX
  end.
Proof. exact edit_depex. Qed.
Print Assumptions C07_field_edit_depex.

(* an edited section inside its file: the sibling sections assemble to the same bytes, the file is
   rebuilt around the new section bytes with size, large attribute and checksums recomputed *)
Theorem C07_field_edit_in_file : forall enc s2u h buf pre sec sec' post st pre' s1 x y s2 post' s3,
  f_nvar h = None ->
  asm_elems enc s2u pre st = Ok (pre', s1) ->
  asm enc s2u sec s1 = Ok (x, s2) -> asm enc s2u sec' s1 = Ok (y, s2) ->
  asm_elems enc s2u post s2 = Ok (post', s3) ->
  asm enc s2u (NFile h buf (pre ++ sec :: post)) st = Ok (rebuilt_file h (pre' ++ x :: post') s3) /\
  asm enc s2u (NFile h buf (pre ++ sec' :: post)) st = Ok (rebuilt_file h (pre' ++ y :: post') s3).
Proof. exact edit_section_in_file. Qed.
Print Assumptions C07_field_edit_in_file.

(* ---- single-field edits at any depth (Model/ExtractEdit.v) ---- *)

(* "exactly that field", one container at a time.  A file of a volume is edited (the file itself or
   anything below it): the other files of the volume are assembled to the same nodes, and the volume is
   laid out again by its own rule [vol_asm] around the new file ... *)
Theorem C07_field_edit_in_volume : forall enc s2u h buf pre f f' post st pol0 pre' s1 y y' s2 post' s3,
  set_polarity (fst st) (fv_polarity (v_attrs h)) = Some pol0 ->
  asm_elems enc s2u pre (pol0, false) = Ok (pre', s1) ->
  asm enc s2u f s1 = Ok (y, s2) -> asm enc s2u f' s1 = Ok (y', s2) ->
  asm_elems enc s2u post s2 = Ok (post', s3) ->
  asm enc s2u (NVol h buf (pre ++ f :: post)) st =
    (do r <- vol_asm h buf (pre' ++ y :: post') s3; let '(n', st2) := r in Ok (n', (fst st2, snd st))) /\
  asm enc s2u (NVol h buf (pre ++ f' :: post)) st =
    (do r <- vol_asm h buf (pre' ++ y' :: post') s3; let '(n', st2) := r in Ok (n', (fst st2, snd st))).
Proof. exact edit_in_volume. Qed.
Print Assumptions C07_field_edit_in_volume.

(* ... the same for a child of an encapsulating section (a compressed section is compressed again, an
   FV-image section wraps the new volume) ... *)
Theorem C07_field_edit_in_section : forall enc s2u h buf pre c c' post st pre' s1 y y' s2 post' s3,
  asm_elems enc s2u pre st = Ok (pre', s1) ->
  asm enc s2u c s1 = Ok (y, s2) -> asm enc s2u c' s1 = Ok (y', s2) ->
  asm_elems enc s2u post s2 = Ok (post', s3) ->
  asm enc s2u (NSec h buf (pre ++ c :: post)) st = sec_asm enc s2u h buf (pre' ++ y :: post') s3 /\
  asm enc s2u (NSec h buf (pre ++ c' :: post)) st = sec_asm enc s2u h buf (pre' ++ y' :: post') s3.
Proof. exact edit_in_section. Qed.
Print Assumptions C07_field_edit_in_section.

(* ... and for a volume of the BIOS region: the other volumes and the paddings come out the same, the
   region is put together from the element list in which only the edited volume differs *)
Theorem C07_field_edit_in_region : forall enc s2u pre v v' post len st pre' s1 y y' s2 post' s3,
  asm_elems enc s2u pre st = Ok (pre', s1) ->
  asm enc s2u v s1 = Ok (y, s2) -> asm enc s2u v' s1 = Ok (y', s2) ->
  asm_elems enc s2u post s2 = Ok (post', s3) ->
  exists finish,
    asm_bios enc s2u (pre ++ v :: post) len st = finish (pre' ++ y :: post') /\
    asm_bios enc s2u (pre ++ v' :: post) len st = finish (pre' ++ y' :: post').
Proof. exact edit_in_region. Qed.
Print Assumptions C07_field_edit_in_region.

(* Replacing the value of the k-th editable field in summary.json ([jedit_list]: the GUID of a file with
   sections, a UI name, a version string, a dependency expression — anywhere in the tree, also below
   compressed sections and in nested volumes) and loading the directory gives the tree that loading
   first and replacing the field in the tree ([nedit_list]) gives.  Uses that these fields and the
   section type survive encoding/json (Gen/JsonFields.v). *)
Theorem C07_json_edit_is_tree_edit : forall mangle3 e js F ns,
  reload_list mangle3 F js = Ok ns -> forall k,
  reload_list mangle3 F (fst (jedit_list e js k)) = Ok (fst (nedit_list e ns k)) /\
  snd (jedit_list e js k) = snd (nedit_list e ns k).
Proof. intros mangle3 e js F ns H k. exact (reload_jedit_list mangle3 e js F ns H k). Qed.
Print Assumptions C07_json_edit_is_tree_edit.

(* the replacement keeps trees indistinguishable for the assembler indistinguishable *)
Theorem C07_edit_preserves_rel : forall e, edit_ok e -> forall k1 k2 k,
  Forall2 rel k1 k2 -> Forall2 rel (fst (nedit_list e k1 k)) (fst (nedit_list e k2 k)).
Proof. intros e He k1 k2 k. exact (nedit_list_rel' e He k1 k2 k). Qed.
Print Assumptions C07_edit_preserves_rel.

(* Hence, for every image, every editable field and every new value: "extract DIR", the edit of
   DIR/summary.json, "DIR save" = the same field replaced in the parsed image, followed by the same two
   Assemble passes (bytes or error class).  Together with the theorems above about what Assemble makes
   of a replaced field this is the second sentence of the property. *)
Theorem C07_dir_edit_save_image : forall dec enc u2s s2u nvar mangle3,
  (forall k p e, dec k p = Some e -> bytes_ok e = true) ->
  forall d img e k, bytes_ok img = true -> edit_ok e ->
  dir_edit_save dec enc u2s s2u nvar mangle3 d img e k = tree_edit_save dec enc u2s s2u nvar d img e k.
Proof. exact dir_edit_save_eq. Qed.
Print Assumptions C07_dir_edit_save_image.

(* the text form of a GUID in summary.json (GUID.String) is read back by guid.Parse as the same GUID *)
Theorem C07_guid_text_roundtrip : forall g,
  zlen g = 16 -> bytes_ok g = true -> guid_parse (guid_string g) = Some g.
Proof. exact guid_text_roundtrip. Qed.
Print Assumptions C07_guid_text_roundtrip.

(* ---- the text of a path determines the path ---- *)

(* [valid_pc]: offsets, indices and section numbers are not negative, GUIDs are 16 bytes.  On such
   components the rendering (fmt %#x, %v, GUID.String, the fixed names, '/' as separator) is injective,
   so distinct component lists are distinct file names *)
Theorem C07_render_path_injective : forall p q,
  Forall valid_pc p -> Forall valid_pc q -> render_path p = render_path q -> p = q.
Proof. exact render_path_inj. Qed.
Print Assumptions C07_render_path_injective.

(* for every image without flash descriptor: the file names extract writes are pairwise distinct *)
Theorem C07_extract_path_texts_nodup_image : forall dec u2s nvar d,
  (forall k p e, dec k p = Some e -> bytes_ok e = true) ->
  forall img ps, bytes_ok img = true -> extract_paths dec u2s nvar d img = Ok ps ->
  NoDup (map render_path ps).
Proof. exact image_path_texts_nodup. Qed.
Print Assumptions C07_extract_path_texts_nodup_image.

(* ---- the flash level (Intel flash images: descriptor, BIOS / ME / raw regions, uncovered ranges) ---- *)

(* [good_img]: a byte string of whole 4 KiB blocks, below 256 MiB.  The descriptor, every region and
   every range that no region entry covers (RawRegions of type Unknown, which share one directory)
   get files of their own: the regions of a flash layout have strictly increasing base offsets and
   every region file name carries the base offset *)
Theorem C07_flash_paths_nodup : forall dec u2s nvar d,
  (forall k p e, dec k p = Some e -> bytes_ok e = true) ->
  forall img ps, good_img img -> flash_extract_paths dec u2s nvar d img = Ok ps -> NoDup ps.
Proof. exact flash_paths_nodup. Qed.
Print Assumptions C07_flash_paths_nodup.

Theorem C07_flash_path_texts_nodup : forall dec u2s nvar d,
  (forall k p e, dec k p = Some e -> bytes_ok e = true) ->
  forall img ps, good_img img -> flash_extract_paths dec u2s nvar d img = Ok ps ->
  NoDup (map render_path ps).
Proof. exact flash_path_texts_nodup. Qed.
Print Assumptions C07_flash_path_texts_nodup.

(* extract + save-from-directory of a flash image = parse + the same two Assemble passes, with equal
   error classes; no hypothesis on the image beyond [good_img] *)
Theorem C07_flash_dir_roundtrip_image : forall dec enc u2s s2u nvar mangle3 d,
  (forall k p e, dec k p = Some e -> bytes_ok e = true) ->
  forall img, good_img img ->
  flash_dir_save dec enc u2s s2u nvar mangle3 d img = flash_save_twice_image dec enc u2s s2u nvar d img.
Proof. exact flash_dir_save_eq. Qed.
Print Assumptions C07_flash_dir_roundtrip_image.

(* ---- NVAR stores (Model/Nvar.v, Model/ExtractNvar.v) ---- *)

(* [nv_paths_ok]: the entries of a store, recursively through nested stores, have pairwise distinct
   (GUID directory, file name): valid non-link variables of one GUID have distinct names; link entries
   and entries that are not valid are told apart by their offsets.  Then no two entries write the same
   file ... *)
Theorem C07_nvar_paths_nodup : forall d s f,
  nv_paths_ok d s -> nv_extract d [] s = Ok f -> NoDup (map fst f).
Proof. exact nv_extract_nodup. Qed.
Print Assumptions C07_nvar_paths_nodup.

(* ... and extract + ParseDir + Assemble of the store gives the bytes (or the error class) of Assemble
   on the parsed store: valid entries are rebuilt from the JSON fields around the extracted content,
   all other entries are the extracted bytes verbatim *)
Theorem C07_nvar_dir_roundtrip : forall enc16 pol d s f,
  nv_paths_ok d s -> nv_extract d [] s = Ok f ->
  exists s', nv_reload d f [] s = Ok s' /\
    out_rel (fun x y => Nvar.s_buf x = Nvar.s_buf y) (asm_store enc16 pol d s') (asm_store enc16 pol d s).
Proof. exact nv_dir_roundtrip. Qed.
Print Assumptions C07_nvar_dir_roundtrip.

Theorem C07_nvar_dir_save : forall dec16 enc16 pol d b s f,
  parse_store dec16 pol b = Ok s -> nv_paths_ok d s -> nv_extract d [] s = Ok f ->
  nv_dir_save dec16 enc16 pol d b = nv_direct_save dec16 enc16 pol d b.
Proof. exact nv_dir_save_eq. Qed.
Print Assumptions C07_nvar_dir_save.

(* ---------- Examples: a concrete image meets the hypotheses ---------- *)

(* a padding and one FFS2 volume holding a driver (UI "AB", a raw and a version section) and a raw
   file with the SAME GUID; produced by the reference serialiser harness/uefigen *)
Definition ex_img : bytes :=
  [255; 255; 255; 255; 255; 255; 255; 255; 0; 0; 0; 0; 0; 0; 0; 0; 0; 0; 0; 0; 0; 0; 0; 0;
   120; 229; 140; 140; 61; 138; 28; 79; 153; 53; 137; 97; 133; 195; 45; 211; 168; 0; 0; 0; 0; 0; 0; 0;
   95; 70; 86; 72; 255; 254; 4; 0; 72; 0; 10; 246; 0; 0; 0; 2; 21; 0; 0; 0; 8; 0; 0; 0;
   0; 0; 0; 0; 0; 0; 0; 0; 1; 2; 3; 4; 5; 6; 7; 8; 9; 10; 11; 12; 13; 14; 15; 16;
   251; 159; 7; 64; 54; 0; 0; 248; 10; 0; 0; 21; 65; 0; 66; 0; 0; 0; 0; 0; 7; 0; 0; 25;
   222; 173; 190; 0; 10; 0; 0; 20; 7; 0; 49; 0; 0; 0; 255; 255; 1; 2; 3; 4; 5; 6; 7; 8;
   9; 10; 11; 12; 13; 14; 15; 16; 90; 170; 1; 0; 29; 0; 0; 248; 1; 2; 3; 4; 5; 255; 255; 255;
   255; 255; 255; 255; 255; 255; 255; 255].
Definition no_codec (k : Z) (b : bytes) : option bytes := None.
Definition no_nvar (b : bytes) : option bytes := None.
(* UCS-2 <-> UTF-8 on ASCII strings *)
Fixpoint ascii_u2s (b : bytes) : bytes :=
  match b with c :: _ :: r => if c =? 0 then [] else c :: ascii_u2s r | _ => [] end.
Definition ascii_s2u (s : bytes) : bytes := flat_map (fun c => [c; 0]) s ++ [0; 0].
Definition same3 (z : Z) : Z := z.

Example ex_hypotheses :
  match parse_region no_codec ascii_u2s no_nvar 8 ex_img with
  | Ok (elems, _) => (length elems =? 2)%nat && wf_treeb_list elems && paths_okb_list elems && nodupb (keys elems)
  | _ => false
  end = true.
Proof. vm_compute. reflexivity. Qed.

Example ex_paths :
  match extract_paths no_codec ascii_u2s no_nvar 8 ex_img with
  | Ok ps => map render_path ps
  | _ => []
  end =
  map str ["bios/biospad_0x0/pad.bin";
           "bios/0x8/fvh.bin";
           "bios/0x8/04030201-0605-0807-090A-0B0C0D0E0F10/0/0/0.sec";
           "bios/0x8/04030201-0605-0807-090A-0B0C0D0E0F10/0/1/1.sec";
           "bios/0x8/04030201-0605-0807-090A-0B0C0D0E0F10/0/2/2.sec";
           "bios/0x8/04030201-0605-0807-090A-0B0C0D0E0F10/1/04030201-0605-0807-090A-0B0C0D0E0F10.ffs"]%string.
Proof. vm_compute. reflexivity. Qed.

(* the directory round trip of the example reproduces the image (nothing is compressed) *)
Example ex_dir_save :
  dir_save no_codec no_codec ascii_u2s ascii_s2u no_nvar same3 8 ex_img = Ok ex_img.
Proof. vm_compute. reflexivity. Qed.

(* a UI edit on the example: name "AB" -> "XYZ" *)
Example ex_edit_ui :
  let h := mkSec 10 21 10 4 None [65; 66] 0 [] None 0 in
  asm no_codec ascii_s2u (NSec (with_name h [88; 89; 90]) [10; 0; 0; 21; 65; 0; 66; 0; 0; 0] []) (255, false) =
  Ok (NSec (mkSec 12 21 12 4 None [88; 89; 90] 0 [] None 0) [12; 0; 0; 21; 88; 0; 89; 0; 90; 0; 0; 0] [], (255, false)).
Proof. vm_compute. reflexivity. Qed.

(* edits through the directory, on the whole example image.  The first UI name ("AB") becomes "XYZWW":
   the section grows from 10 to 16 bytes, the file from 54 to 58; its size field, header checksum (247)
   and body checksum (99) follow; the raw and version sections keep their bytes; the second file moves
   to the next 8-byte boundary behind six erased bytes and keeps its bytes; the volume keeps its length
   (its free space shrinks); nothing before the file changes *)
Example ex_dir_edit_ui :
  dir_edit_save no_codec no_codec ascii_u2s ascii_s2u no_nvar same3 8 ex_img (EName [88; 89; 90; 87; 87]) 0 =
  Ok (zfirstn 96 ex_img ++
      [247; 99; 7; 64; 58; 0; 0; 248] ++ [16; 0; 0; 21; 88; 0; 89; 0; 90; 0; 87; 0; 87; 0; 0; 0] ++
      sub 116 18 ex_img ++ zrepeat 255 6 ++ sub 136 29 ex_img ++ zrepeat 255 3).
Proof. vm_compute. reflexivity. Qed.

(* the GUID of the first file (the one rebuilt from its sections; candidate 0) becomes 09..09: exactly
   the 16 GUID bytes and the header checksum byte change *)
Example ex_dir_edit_guid :
  dir_edit_save no_codec no_codec ascii_u2s ascii_s2u no_nvar same3 8 ex_img (EGuid (zrepeat 9 16)) 0 =
  Ok (zfirstn 80 ex_img ++ zrepeat 9 16 ++ [243] ++ zskipn 97 ex_img).
Proof. vm_compute. reflexivity. Qed.

(* there is no second file with sections: candidate 1 does not exist and nothing is edited *)
Example ex_dir_edit_guid_none :
  dir_edit_save no_codec no_codec ascii_u2s ascii_s2u no_nvar same3 8 ex_img (EGuid (zrepeat 9 16)) 1 = Ok ex_img.
Proof. vm_compute. reflexivity. Qed.

(* a tree that violates paths_ok: two paddings at the same offset (the state reached by applying
   tighten_me to an image whose BIOS region starts with padding) write the same file *)
Example ex_paths_collide :
  region_paths_ok [NPad 0 [1]; NPad 0 [2]] -> False.
Proof. intros [H _]. vm_compute in H. discriminate. Qed.
Example ex_paths_collide_files :
  match extract_region [] [NPad 0 [1]; NPad 0 [2]] with
  | Ok (_, _, f) => map fst f
  | _ => []
  end = [[C_bios; C_padhex 0; N_pad]; [C_bios; C_padhex 0; N_pad]].
Proof. vm_compute. reflexivity. Qed.

(* why [wf_tree] is needed: an encapsulating GUID-defined section WITHOUT the processing-required
   attribute is assembled from its old buffer, which Extract does not write (it has children); the
   parser never builds such a node (C07_parsed_trees_ok), an edit of the tree could *)
Example ex_wf_needed :
  let leaf := NSec (mkSec 5 25 5 4 None [] 0 [] None 0) [5; 0; 0; 25; 7] [] in
  let n := NSec (mkSec 32 2 32 4 (Some (mkGd (zrepeat 9 16) 24 0 0)) [] 0 [] None 0) (zrepeat 1 32) [leaf] in
  wf_treeb n = false /\
  match asm no_codec ascii_s2u (json_project same3 n) (255, false), asm no_codec ascii_s2u n (255, false) with
  | Ok (a, _), Ok (b, _) => negb (bytes_eqb (node_buf a) (node_buf b))
  | _, _ => false
  end = true.
Proof. vm_compute. split; reflexivity. Qed.

(* a 16 KiB flash image: descriptor block, an uncovered block, the BIOS region holding [ex_img], another
   uncovered block; the two uncovered ranges share the directory "Unknown Region (-1)" *)
Definition ex_desc : bytes :=
  zrepeat 255 16 ++ [90; 165; 240; 15] ++ [3; 0; 4; 0; 8; 1; 16; 0; 32; 0; 0; 0; 0; 0; 0; 0] ++ zrepeat 255 28 ++
  ([0; 0; 0; 0] ++ [2; 0; 2; 0] ++ concat (map (fun _ => [255; 127; 0; 0]) (seq 0 14))) ++
  zrepeat 0 12 ++ zrepeat 255 (4096 - 140).
Definition ex_flash : bytes :=
  ex_desc ++ zrepeat 17 4096 ++ (ex_img ++ zrepeat 255 (4096 - 176)) ++ zrepeat 34 4096.

Example ex_flash_paths :
  match flash_extract_paths no_codec ascii_u2s no_nvar 8 ex_flash with
  | Ok ps => map render_path ps
  | _ => []
  end =
  map str ["ifd/flashdescriptor.bin";
           "Unknown Region (-1)/0x1000.bin";
           "bios/biospad_0x0/pad.bin";
           "bios/0x8/fvh.bin";
           "bios/0x8/04030201-0605-0807-090A-0B0C0D0E0F10/0/0/0.sec";
           "bios/0x8/04030201-0605-0807-090A-0B0C0D0E0F10/0/1/1.sec";
           "bios/0x8/04030201-0605-0807-090A-0B0C0D0E0F10/0/2/2.sec";
           "bios/0x8/04030201-0605-0807-090A-0B0C0D0E0F10/1/04030201-0605-0807-090A-0B0C0D0E0F10.ffs";
           "bios/biospad_0xb0/pad.bin";
           "Unknown Region (-1)/0x3000.bin"]%string.
Proof. vm_compute. reflexivity. Qed.

Example ex_flash_dir_save :
  match flash_dir_save no_codec no_codec ascii_u2s ascii_s2u no_nvar same3 8 ex_flash with
  | Ok b => bytes_eqb b ex_flash
  | _ => false
  end = true.
Proof. vm_compute. reflexivity. Qed.

(* the components of the example are valid, and a negative offset is what [valid_pc] excludes *)
Example ex_valid : Forall valid_pc [C_bios; C_hex 8; C_guid (zrepeat 7 16); C_dec 0; N_sec 0].
Proof. repeat constructor; cbn; auto; lia. Qed.

(* an NVAR store: a full variable "Ab", a data-only entry nobody links to (header valid bit SET, computed
   type "Invalid link": dumped whole as 0x20.nvar and read back verbatim), an entry with the valid bit
   cleared, erased free space *)
Definition ex_store : bytes :=
  [78;86;65;82; 32;0; 255;255;255; 134] ++ [1;2;3;4;5;6;7;8;9;10;11;12;13;14;15;16] ++ [65;98;0] ++ [9;8;7] ++
  [78;86;65;82; 12;0; 255;255;255; 136] ++ [5;5] ++
  [78;86;65;82; 29;0; 255;255;255; 6] ++ [1;2;3;4;5;6;7;8;9;10;11;12;13;14;15;16] ++ [88;0] ++ [1] ++
  zrepeat 255 8.

Example ex_store_hypotheses :
  match parse_store dec16_impl 255 ex_store with
  | Ok s => (map v_type (s_entries s), nvnodupb (nv_all_paths 4 [] s))
  | _ => ([], false)
  end = ([4; 1; 0], true).   (* full, invalid link, invalid *)
Proof. vm_compute. reflexivity. Qed.

Example ex_store_paths :
  match nv_extract_paths dec16_impl 255 4 ex_store with
  | Ok ps => map render_nvpath ps
  | _ => []
  end = map str ["04030201-0605-0807-090A-0B0C0D0E0F10/Ab.bin";
                 "00000000-0000-0000-0000-000000000000/0x20.nvar";
                 "00000000-0000-0000-0000-000000000000/0x2c.nvar"]%string.
Proof. vm_compute. reflexivity. Qed.

Example ex_store_dir_save :
  nv_dir_save dec16_impl enc16_impl 255 4 ex_store = Ok ex_store /\
  nv_direct_save dec16_impl enc16_impl 255 4 ex_store = Ok ex_store.
Proof. vm_compute. split; reflexivity. Qed.

(* two sibling variables "A" and "B" with the same GUID, each holding a nested store whose only entry
   is a not-valid entry at offset 0 (the shape of AMI's StdDefaults / MfgDefaults): since repair 97e8235
   the nested entries live below <GUID>/<offset of the variable>/ and no longer overwrite each other *)
Definition ex_nested : bytes :=
  [78;86;65;82; 38;0; 255;255;255; 134] ++ zrepeat 17 16 ++ [65;0] ++ [78;86;65;82; 10;0; 255;255;255; 8] ++
  [78;86;65;82; 39;0; 255;255;255; 134] ++ zrepeat 17 16 ++ [66;0] ++ [78;86;65;82; 11;0; 255;255;255; 8; 85] ++
  zrepeat 255 16.

Example ex_nested_paths :
  match nv_extract_paths dec16_impl 255 4 ex_nested with
  | Ok ps => map render_nvpath ps
  | _ => []
  end = map str ["11111111-1111-1111-1111-111111111111/0x0/00000000-0000-0000-0000-000000000000/0x0.nvar";
                 "11111111-1111-1111-1111-111111111111/0x26/00000000-0000-0000-0000-000000000000/0x0.nvar"]%string.
Proof. vm_compute. reflexivity. Qed.

Example ex_nested_dir_save :
  match parse_store dec16_impl 255 ex_nested with
  | Ok s => nvnodupb (nv_all_paths 4 [] s)
  | _ => false
  end = true /\
  nv_dir_save dec16_impl enc16_impl 255 4 ex_nested = Ok ex_nested.
Proof. vm_compute. split; reflexivity. Qed.
