(* Properties/C01.v — saving an unedited image reproduces it byte for byte.
   Statements only; proofs are [exact <lemma of Proofs/FfsSaveProofs.v>].

   The reference image grammar is Model/FfsSpec.v.  [sec_ok sb] / [file_ok fb] say, for the bytes
   [sb] of one section / [fb] of one file, followed by ANY further bytes: the parser returns a node
   holding exactly those bytes (and the erase polarity 0xFF unchanged), and assembling that node
   returns exactly those bytes again (assembler state unchanged).  The theorems below establish
   these predicates for every production of the grammar, with no bound on sizes or counts.
   [vol_ok vb] says the same for a whole volume (parse at polarity unset or 0xFF, assemble with any
   incoming FFS3 flag). *)
From Fiano Require Import Base.Bytes Model.Ffs Model.FfsSpec Model.FfsGrammar Model.FfsAbstract Proofs.FfsSaveProofs Proofs.FfsGrammarProofs.
Open Scope Z_scope.

Section C01.
Variable dec : Z -> bytes -> option bytes.
Variable enc : Z -> bytes -> option bytes.
Variable u2s s2u : bytes -> bytes.
Variable nvar : bytes -> option bytes.

(* sections that fiano neither interprets nor regenerates (PE32, TE, PIC, RAW, freeform GUID,
   compatibility16, disposable, compression type 1, unknown types ...) *)
Theorem C01_section_leaf : forall t body, leaf_type t = true -> 0 <= t < 256 -> bytes_ok body = true ->
  4 + zlen body < 16777215 -> sec_ok dec enc u2s s2u nvar (sec_bytes t body).
Proof. exact (sec_ok_leaf dec enc u2s s2u nvar). Qed.

(* the same with the extended common header (size field 0xFFFFFF, 32-bit size): any size that fits
   32 bits; only for types the parser knows (for others 0xFFFFFF is an ordinary size) *)
Theorem C01_section_leaf_large : forall t body,
  leaf_type t = true -> known_section t = true -> 0 <= t < 256 -> bytes_ok body = true ->
  8 + zlen body < 4294967295 -> sec_ok dec enc u2s s2u nvar (sec_bytes_large t body).
Proof. exact (sec_ok_leaf_large dec enc u2s s2u nvar). Qed.

(* GUID-defined sections that are not decoded (no processing-required bit, or not a codec GUID),
   including extra header bytes between the GUID-defined header and the payload *)
Theorem C01_section_guid_opaque : forall g attrs extra payload,
  zlen g = 16 -> bytes_ok g = true -> 0 <= attrs < 65536 ->
  (Z.land attrs 1 = 0 \/ codec_kind g = 0) ->
  bytes_ok extra = true -> bytes_ok payload = true -> 24 + zlen extra < 65536 ->
  4 + zlen (gd_body g attrs extra payload) < 16777215 ->
  sec_ok dec enc u2s s2u nvar (sec_bytes 2 (gd_body g attrs extra payload)).
Proof. exact (sec_ok_guid_opaque dec enc u2s s2u nvar). Qed.

(* user-interface and version sections: regenerated from the decoded string, so identity needs the
   UCS-2 oracle to round-trip on that string (true of NUL-terminated BMP strings) *)
Theorem C01_section_ui : forall p, s2u (u2s p) = p -> 0 < zlen p -> bytes_ok p = true ->
  4 + zlen p < 16777215 -> sec_ok dec enc u2s s2u nvar (sec_bytes 21 p).
Proof. exact (sec_ok_ui dec enc u2s s2u nvar). Qed.

Theorem C01_section_version : forall build p, 0 <= build < 65536 -> s2u (u2s p) = p -> 0 < zlen p ->
  bytes_ok p = true -> 6 + zlen p < 16777215 ->
  sec_ok dec enc u2s s2u nvar (sec_bytes 20 (le_enc 2 build ++ p)).
Proof. exact (sec_ok_version dec enc u2s s2u nvar). Qed.

(* dependency expressions (DXE, PEI, MM): any opcode sequence ending in END *)
Theorem C01_section_depex : forall t ops, (t = 19 \/ t = 27 \/ t = 28) ->
  forallb depex_op_ok ops = true -> 4 + zlen (depex_bytes ops) < 16777215 ->
  sec_ok dec enc u2s s2u nvar (sec_bytes t (depex_bytes ops)).
Proof. exact (sec_ok_depex dec enc u2s s2u nvar). Qed.

(* files whose content fiano does not look into (unsupported types incl. pad files, RAW, PEIM) —
   with ANY checksum bytes — and supported files with an empty body *)
Theorem C01_file_opaque : forall g ckh ckf t attr state body,
  zlen g = 16 -> bytes_ok g = true -> 0 <= ckh < 256 -> 0 <= ckf < 256 -> 0 <= t < 256 ->
  0 <= attr < 256 -> 0 <= state < 256 -> bytes_ok body = true -> 24 + zlen body < 16777215 ->
  (t =? 1) && bytes_eqb g NVAR_GUID = false ->
  (supported_file t = false \/ body = []) ->
  file_ok dec enc u2s s2u nvar (raw_file_bytes g ckh ckf t attr state body).
Proof. exact (file_ok_opaque dec enc u2s s2u nvar). Qed.

(* the same in the FFSv3 large form (size field 0xFFFFFF, 64-bit size, 32-byte header), the form of
   files of 16 MiB and more: any size below 2^64 - 1 *)
Theorem C01_file_opaque_large : forall g ckh ckf t attr state body,
  zlen g = 16 -> bytes_ok g = true -> 0 <= ckh < 256 -> 0 <= ckf < 256 -> 0 <= t < 256 ->
  0 <= attr < 256 -> 0 <= state < 256 -> bytes_ok body = true -> 32 + zlen body < 2 ^ 64 - 1 ->
  (t =? 1) && bytes_eqb g NVAR_GUID = false ->
  (supported_file t = false \/ body = []) ->
  file_ok dec enc u2s s2u nvar (raw_file_bytes_large g ckh ckf t attr state body).
Proof. exact (file_ok_opaque_large dec enc u2s s2u nvar). Qed.

(* files that fiano rebuilds from their sections: any non-empty sequence of sections that are
   themselves ok, zero padding to 4 between them, any state byte, any alignment / checksum /
   reserved attribute bits; header and body checksums as the PI specification prescribes *)
Theorem C01_file_sections : forall g t attr state secs,
  zlen g = 16 -> bytes_ok g = true -> 0 <= t < 256 -> 0 <= attr < 256 -> 0 <= state < 256 ->
  Z.land attr 1 = 0 -> supported_file t = true -> secs <> [] ->
  Forall (sec_ok dec enc u2s s2u nvar) secs ->
  24 + zlen (sections_bytes secs) < 16777215 ->
  file_ok dec enc u2s s2u nvar (file_bytes g t attr state (sections_bytes secs)).
Proof. exact (file_ok_sections dec enc u2s s2u nvar). Qed.

(* a firmware volume (one block-map entry, no extended header; FFSv2 or FFSv3; erase polarity 1):
   any list of files that are themselves ok, each at the next 8-byte boundary and meeting the
   data alignment its attribute bits ask for (so pad files appear in the list as ordinary files),
   followed by any amount of erased free space — including 0..31 bytes and a header-only file in the
   last 24 bytes, the two cases the pinned code got wrong.  Holds for the volume followed by any
   bytes, at either initial polarity, resizable or not. *)
Theorem C01_volume : forall zero g attrs reserved rev count bsize files free,
  zlen zero = 16 -> bytes_ok zero = true -> (g = FFS2 \/ g = FFS3) ->
  0 <= attrs < 2 ^ 32 -> Z.land attrs 2048 <> 0 ->
  0 <= reserved < 256 -> 0 <= rev < 256 ->
  0 <= count < 2 ^ 32 -> 0 <= bsize < 2 ^ 32 -> (count =? 0) && (bsize =? 0) = false ->
  Forall (file_ok dec enc u2s s2u nvar) files -> files_aligned 72 files = true -> 0 <= free ->
  72 + zlen (flay files) + free < 2 ^ 64 ->
  vol_ok dec enc u2s s2u nvar (vol_bytes zero g attrs reserved rev count bsize files free).
Proof. exact (vol_ok_files dec enc u2s s2u nvar). Qed.

(* the general volume: a block map of any length ([more] = the entries after the first; header
   length 72 + 8 * |more|), and optionally an extended header directly after the header (name GUID,
   size, extra data, then any bytes up to the next 8-byte boundary); the files start after it *)
Theorem C01_volume_ext : forall zero g attrs reserved rev count bsize more eo ext files free,
  zlen zero = 16 -> bytes_ok zero = true -> (g = FFS2 \/ g = FFS3) ->
  0 <= attrs < 2 ^ 32 -> Z.land attrs 2048 <> 0 ->
  0 <= reserved < 256 -> 0 <= rev < 256 ->
  0 <= count < 2 ^ 32 -> 0 <= bsize < 2 ^ 32 -> (count =? 0) && (bsize =? 0) = false ->
  forallb block_ok more = true -> fv_hlen more < 65536 ->
  ext_ok (fv_hlen more) eo ext ->
  Forall (file_ok dec enc u2s s2u nvar) files ->
  files_aligned (fv_hlen more + zlen ext) files = true -> 0 <= free ->
  fv_hlen more + zlen ext + zlen (flay files) + free < 2 ^ 64 ->
  vol_ok dec enc u2s s2u nvar (vol_bytes_x zero g attrs reserved rev count bsize more eo ext files free).
Proof. exact (vol_ok_files_x dec enc u2s s2u nvar). Qed.

(* files rebuilt from their sections whose size reaches 16 MiB: the assembler writes the large
   form (32-byte header, 64-bit size, checksum over the 32 bytes) and raises the volume's
   "use FFSv3" flag ([file_okL]: like file_ok, with that flag as result) *)
Theorem C01_file_sections_large : forall g t attr state secs,
  zlen g = 16 -> bytes_ok g = true -> 0 <= t < 256 -> 0 <= attr < 256 -> 0 <= state < 256 ->
  Z.land attr 1 = 1 -> supported_file t = true -> secs <> [] ->
  Forall (sec_ok dec enc u2s s2u nvar) secs ->
  16777215 <= 24 + zlen (sections_bytes secs) -> 32 + zlen (sections_bytes secs) < 2 ^ 64 - 1 ->
  file_okL dec enc u2s s2u nvar (file_bytes_large g t attr state (sections_bytes secs)).
Proof. exact (file_okL_sections dec enc u2s s2u nvar). Qed.

(* ... and an FFSv3 volume holding any mix of such files and the files of the rules above is ok
   (in an FFSv2 volume the assembler would switch the file-system GUID, so that is not an
   identity and not claimed) *)
Theorem C01_volume_ffs3_large_files : forall zero attrs reserved rev count bsize more eo ext files free,
  zlen zero = 16 -> bytes_ok zero = true ->
  0 <= attrs < 2 ^ 32 -> Z.land attrs 2048 <> 0 ->
  0 <= reserved < 256 -> 0 <= rev < 256 ->
  0 <= count < 2 ^ 32 -> 0 <= bsize < 2 ^ 32 -> (count =? 0) && (bsize =? 0) = false ->
  forallb block_ok more = true -> fv_hlen more < 65536 ->
  ext_ok (fv_hlen more) eo ext ->
  Forall (fun f => file_ok dec enc u2s s2u nvar f \/ file_okL dec enc u2s s2u nvar f) files ->
  files_aligned (fv_hlen more + zlen ext) files = true -> 0 <= free ->
  fv_hlen more + zlen ext + zlen (flay files) + free < 2 ^ 64 ->
  vol_ok dec enc u2s s2u nvar (vol_bytes_x zero FFS3 attrs reserved rev count bsize more eo ext files free).
Proof. exact (vol_ok_files_ffs3 dec enc u2s s2u nvar). Qed.

(* nesting: a firmware-volume-image section around any ok volume is an ok section, so the rules
   above compose to any depth (volume -> file -> FV-image section -> volume -> ...) *)
Theorem C01_section_fv_image : forall vb, vol_ok dec enc u2s s2u nvar vb -> 4 + zlen vb < 16777215 ->
  sec_ok dec enc u2s s2u nvar (sec_bytes 23 vb).
Proof. exact (sec_ok_fv dec enc u2s s2u nvar). Qed.

(* the whole pipeline on a bare BIOS region (what uefi.Parse does for images without a flash
   descriptor; a single firmware volume is the case of one pair with empty paddings): for any
   non-empty sequence of (padding, ok volume) pairs and trailing padding in which the parser's own
   signature scan finds each volume where it is, Parse followed by Save returns the input bytes. *)
Theorem C01_save_identity_region : forall l trail,
  l <> [] ->
  Forall (fun pv => pair_scan_ok (fst pv) (snd pv) /\ bytes_ok (fst pv) = true /\
                    vol_ok dec enc u2s s2u nvar (snd pv)) l ->
  find_fv_offset trail < 0 ->
  exists d0, forall d, (d0 <= d)%nat ->
    save_region dec enc u2s s2u nvar d (region_bytes l trail) = Ok (region_bytes l trail).
Proof. exact (region_save_identity dec enc u2s s2u nvar). Qed.

(* THE statement of C01 for bare BIOS regions and single volumes: for every value of the
   reference grammar datatype (Model/FfsGrammar.v: sections, files, volumes nested to any depth,
   regions) that satisfies the grammar's side conditions, Parse followed by Save returns exactly
   the serialised bytes. *)
Theorem C01_save_identity : forall l trail, wf_region u2s s2u l trail ->
  exists d0, forall d, (d0 <= d)%nat ->
    save_region dec enc u2s s2u nvar d (emit_region l trail) = Ok (emit_region l trail).
Proof. exact (grammar_save_identity dec enc u2s s2u nvar). Qed.

(* the side conditions are decidable; the correspondence run evaluates [wfb_region] on every
   generated image (op [grammar]) to establish that the image lies in this theorem's domain *)
Theorem C01_wf_decidable : forall l trail,
  wfb_region u2s s2u l trail = true -> wf_region u2s s2u l trail.
Proof. exact (wfb_region_sound u2s s2u). Qed.

(* the same domain, decided on ARBITRARY bytes (a real firmware volume, a fuzz input): [in_grammar]
   parses the image with the model, reads the tree back as a grammar value (Model/FfsAbstract.v),
   and accepts only if that value re-serialises to exactly the image and is well-formed.  Whenever
   it says yes, Parse followed by Save returns the image. *)
Theorem C01_save_identity_bytes : forall d b,
  in_grammar dec u2s s2u nvar d b = true ->
  exists d0, forall d', (d0 <= d')%nat -> save_region dec enc u2s s2u nvar d' b = Ok b.
Proof. exact (in_grammar_save_identity dec enc u2s s2u nvar). Qed.

End C01.

(* the scan hypotheses of C01_save_identity_region, from checkable conditions: 8-aligned padding,
   and no earlier 8-byte-stepped window (in the padding or the first 40 bytes of the volume header)
   reading "_FVH" — these are exactly the images on which fiano finds the volume at all *)
Theorem C01_scan_pair : forall p v,
  (zlen p) mod 8 = 0 -> 72 <= zlen v -> sub 40 4 v = FVH ->
  scan_clear (Z.to_nat (zlen p / 8) + 1) (p ++ v) 32 = true -> pair_scan_ok p v.
Proof. exact (pair_scan_ok_intro (fun _ _ => None) (fun _ _ => None) (fun b => b) (fun b => b) (fun _ => None)). Qed.

Theorem C01_scan_trail : forall trail,
  scan_clear (Z.to_nat (zlen trail / 8) + 1) trail 32 = true -> find_fv_offset trail < 0.
Proof. exact (trail_scan_ok_intro (fun _ _ => None) (fun _ _ => None) (fun b => b) (fun b => b) (fun _ => None)). Qed.

Print Assumptions C01_section_leaf.
Print Assumptions C01_section_leaf_large.
Print Assumptions C01_section_guid_opaque.
Print Assumptions C01_section_ui.
Print Assumptions C01_section_version.
Print Assumptions C01_section_depex.
Print Assumptions C01_file_opaque.
Print Assumptions C01_file_opaque_large.
Print Assumptions C01_file_sections.
Print Assumptions C01_volume.
Print Assumptions C01_volume_ext.
Print Assumptions C01_file_sections_large.
Print Assumptions C01_volume_ffs3_large_files.
Print Assumptions C01_section_fv_image.
Print Assumptions C01_save_identity_region.
Print Assumptions C01_save_identity.
Print Assumptions C01_wf_decidable.
Print Assumptions C01_save_identity_bytes.
Print Assumptions C01_scan_pair.
Print Assumptions C01_scan_trail.

(* ---- non-vacuity: a concrete driver file with four sections satisfies the hypotheses, and the
   model really parses and re-assembles it to the same bytes ---- *)
Definition ex_u2s (b : bytes) : bytes := b.   (* identity oracles are enough for the example *)
Definition ex_s2u (b : bytes) : bytes := b.
Definition ex_secs : list bytes :=
  [ sec_bytes 16 [77; 90; 1; 2; 3];                       (* PE32, 5 bytes: next section needs 3 pad bytes *)
    sec_bytes 21 [65; 0; 66; 0; 0; 0];                    (* UI "AB" *)
    sec_bytes 19 (depex_bytes [(2, Some (zrepeat 7 16)); (6, None)]);  (* PUSH guid; TRUE; END *)
    sec_bytes 25 [] ].                                    (* empty RAW section *)
Definition ex_file : bytes := file_bytes (zrepeat 17 16) 7 72 248 (sections_bytes ex_secs).

Example ex_file_roundtrip :
  match parse_file (fun _ _ => None) ex_u2s (fun _ => None) 3 255 (ex_file ++ [255; 255; 255]) with
  | Ok (Some n, 255) =>
    match asm (fun _ _ => None) ex_s2u n (255, false) with
    | Ok (n', _) => bytes_eqb (node_buf n') ex_file
    | _ => false
    end
  | _ => false
  end = true.
Proof. vm_compute. reflexivity. Qed.

(* a region: 16 bytes of padding, a volume holding the driver file above (8-byte aligned, no
   alignment attribute), a pad-type file and 40 bytes of free space, then 24 bytes of trailing
   padding; the model parses and saves it to the same bytes, and the scan conditions hold *)
Definition ex_padfile : bytes := raw_file_bytes (zrepeat 255 16) 9 170 240 0 248 (zrepeat 255 8).
Definition ex_vol : bytes :=
  vol_bytes (zrepeat 0 16) FFS2 327423 0 2 4 64 [ex_file; ex_padfile] 40.
Definition ex_region : bytes := region_bytes [(zrepeat 171 16, ex_vol)] (zrepeat 205 24).

Example ex_region_roundtrip :
  match save_region (fun _ _ => None) (fun _ _ => None) ex_u2s ex_s2u (fun _ => None) 5 ex_region with
  | Ok b => bytes_eqb b ex_region
  | _ => false
  end = true.
Proof. vm_compute. reflexivity. Qed.

Example ex_region_scan :
  scan_clear (Z.to_nat (16 / 8) + 1) (zrepeat 171 16 ++ ex_vol) 32 = true /\
  sub 40 4 ex_vol = FVH /\ files_aligned 72 [ex_file; ex_padfile] = true /\
  scan_clear (Z.to_nat (24 / 8) + 1) (zrepeat 205 24) 32 = true.
Proof. vm_compute. repeat split; reflexivity. Qed.

(* the same region as a value of the grammar datatype: it is well-formed (decided by computation)
   and its serialisation is the byte string above *)
Definition ex_gfile : fspec :=
  FSecs (zrepeat 17 16) 7 72 248
    [ SLeaf 16 [77; 90; 1; 2; 3]; SUi [65; 0; 66; 0; 0; 0];
      SDepex 19 [(2, Some (zrepeat 7 16)); (6, None)]; SLeaf 25 [] ].
Definition ex_gvol : vspec :=
  VSpec (zrepeat 0 16) FFS2 327423 0 2 4 64 [] None
        [ex_gfile; FOpaque (zrepeat 255 16) 9 170 240 0 248 (zrepeat 255 8)] 40.
Example ex_grammar_wf :
  wfb_region ex_u2s ex_s2u [(zrepeat 171 16, ex_gvol)] (zrepeat 205 24) = true /\
  bytes_eqb (emit_region [(zrepeat 171 16, ex_gvol)] (zrepeat 205 24)) ex_region = true.
Proof. vm_compute. split; reflexivity. Qed.

(* a volume with three block-map entries (header length 88), 16 erased bytes, then an extended header
   (12 extra data bytes, so the files start at offset 136) holding the same files and a third file in the large form,
   as a region of its own: well-formed, and the model saves it to itself *)
Definition ex_gvol_x : vspec :=
  VSpec (zrepeat 0 16) FFS3 327423 0 2 5 64 [(3, 16); (1, 4096)] (Some (zrepeat 255 16, zrepeat 51 16, zrepeat 9 12, []))
        [ex_gfile; FOpaque (zrepeat 255 16) 9 170 240 0 248 (zrepeat 255 8);
         FOpaqueL (zrepeat 34 16) 1 2 1 1 248 [1; 2; 3; 4; 5]] 56.
Example ex_grammar_ext :
  wfb_region ex_u2s ex_s2u [([], ex_gvol_x)] [] = true /\
  match save_region (fun _ _ => None) (fun _ _ => None) ex_u2s ex_s2u (fun _ => None) 5
                    (emit_region [([], ex_gvol_x)] []) with
  | Ok b => bytes_eqb b (emit_region [([], ex_gvol_x)] [])
  | _ => false
  end = true.
Proof. vm_compute. split; reflexivity. Qed.

(* the byte-level decision procedure accepts both example regions *)
Example ex_in_grammar :
  in_grammar (fun _ _ => None) ex_u2s ex_s2u (fun _ => None) 5 ex_region = true /\
  in_grammar (fun _ _ => None) ex_u2s ex_s2u (fun _ => None) 5 (emit_region [([], ex_gvol_x)] []) = true.
Proof. vm_compute. split; reflexivity. Qed.

(* ====================================================================================== *)
(* The Intel flash image entry shape: saving an unedited flash image (descriptor + regions, the
   BIOS region holding FFS volumes) reproduces it byte for byte.  Proofs: Proofs/FlashImageProofs.v.

   [save_flash bios_save img]   uefi.Parse + visitors.Save of a flash image, the BIOS region's
                                 NewBIOSRegion + Assemble being [bios_save] (Model/FlashImage.v)
   [flash_layout img = Ok t0]    the image has a flash layout: signature, region section inside
                                 the descriptor, valid BIOS slot, declared regions do not overlap
   [flash_bios_bytes img]        the bytes of the BIOS region
   [good_img], [sections_disjoint], [blank_zero]: as in Properties/C12.v.
   (Model/TightenMe.v re-uses some names of Model/Ffs.v, hence the qualified names below.) *)
From Fiano Require Import Gen.Consts Model.TightenMe Model.FlashImage
  Proofs.TightenMeProofs Proofs.FlashImageProofs.

(* the flash level alone: whatever handles the BIOS region, if it reproduces the region's
   bytes then Parse + Save reproduces the image *)
Theorem C01_flash_save_identity : forall bios_save img t0,
  good_img img -> flash_layout img = Ok t0 -> sections_disjoint t0 -> blank_zero t0 ->
  (forall B, flash_bios_bytes img = Some B -> bios_save B = Ok B) ->
  save_flash bios_save img = Ok img.
Proof. exact flash_save_identity. Qed.

Section C01Flash.
Variable dec : Z -> bytes -> option bytes.
Variable enc : Z -> bytes -> option bytes.
Variable u2s s2u : bytes -> bytes.
Variable nvar : bytes -> option bytes.

(* THE statement for flash images: the BIOS region is any well-formed value of the C01
   reference grammar (Model/FfsGrammar.v), handled by the UEFI model of Model/Ffs.v *)
Theorem C01_save_identity_flash : forall img t0 l trail,
  good_img img -> flash_layout img = Ok t0 -> sections_disjoint t0 -> blank_zero t0 ->
  flash_bios_bytes img = Some (FfsGrammar.emit_region l trail) ->
  FfsGrammar.wf_region u2s s2u l trail ->
  exists d0, forall d, (d0 <= d)%nat ->
    save_flash (Ffs.save_region dec enc u2s s2u nvar d) img = Ok img.
Proof. exact (flash_grammar_save_identity dec enc u2s s2u nvar). Qed.

End C01Flash.

Print Assumptions C01_flash_save_identity.
Print Assumptions C01_save_identity_flash.

(* ---- non-vacuity: an 8 KiB flash image = descriptor + one BIOS block holding an FFS2 volume
   with a driver file (PE32, UI, dependency expression, RAW sections) and a pad-type file ---- *)
Definition exf_l : list (bytes * FfsGrammar.vspec) := [(zrepeat 171 16, ex_gvol)].
Definition exf_trail : bytes :=
  zrepeat 205 (4096 - zlen (FfsGrammar.emit_region exf_l [])).
Definition exf_bios : bytes := Eval vm_compute in FfsGrammar.emit_region exf_l exf_trail.

Definition exf_slots : bytes :=
  [0; 0; 1; 0] ++ (le_enc 2 1 ++ le_enc 2 1) ++ concat (repeat (le_enc 2 32767 ++ le_enc 2 0) 14).
Definition ex_flash : bytes :=
  Eval vm_compute in
  splice 16 ifd_signature (splice 20 [0; 0; 4; 0; 8; 0; 0; 0] (splice 64 exf_slots (zrepeat 255 4096)))
  ++ exf_bios.

Definition ex_layout : tree :=
  Eval vm_compute in match flash_layout ex_flash with Ok t => t | _ => mkTree [] 0 0 0 [] 0 [] [] [] 0 end.

Example ex_flash_good : good_img ex_flash.
Proof. split; [vm_compute; reflexivity|]. split; [exists 2; vm_compute; reflexivity|vm_compute; reflexivity]. Qed.

Example ex_flash_layout : flash_layout ex_flash = Ok ex_layout.
Proof. vm_compute. reflexivity. Qed.

Example ex_flash_desc : sections_disjoint ex_layout /\ blank_zero ex_layout.
Proof. split; [right; vm_compute; intros H; discriminate H|vm_compute; reflexivity]. Qed.

Example ex_flash_bios :
  match flash_bios_bytes ex_flash with
  | Some b => bytes_eqb b (FfsGrammar.emit_region exf_l exf_trail)
  | None => false
  end && FfsGrammar.wfb_region ex_u2s ex_u2s exf_l exf_trail = true.
Proof. vm_compute. reflexivity. Qed.

(* and the model really saves it to the same bytes *)
Example ex_flash_roundtrip :
  match save_flash (Ffs.save_region (fun _ _ => None) (fun _ _ => None) ex_u2s ex_u2s (fun _ => None) 5) ex_flash with
  | Ok b => bytes_eqb b ex_flash
  | _ => false
  end = true.
Proof. vm_compute. reflexivity. Qed.

(* ---------------------------------------------------------------------------------------- *)
(* Kernel ties: the arithmetic kernels of pkg/uefi this property rests on, as TRANSCRIBED FROM
   THE GO SOURCE on every run (translator/Kernels.sh -> Gen/GoKernels.v), equal the functions of
   the model (Proofs/KernelTie.v).  A change of one of these Go functions breaks the lemma. *)
From Fiano Require Import Base.Bytes Base.GoInt Gen.GoKernels Proofs.KernelTie.
Local Open Scope Z_scope.

Theorem C01_kernel_Align : forall v b, go_Align v b = Ffs.align_go v b.
Proof. exact go_Align_tie. Qed.
Print Assumptions C01_kernel_Align.

Theorem C01_kernel_Align_pow2 : forall v k, 0 <= v -> 0 <= k < 64 -> v + 2 ^ k - 1 < 2 ^ 64 ->
  go_Align v (2 ^ k) = Ffs.align v (2 ^ k).
Proof. exact go_Align_pow2. Qed.
Print Assumptions C01_kernel_Align_pow2.

Theorem C01_kernel_Align4 : forall v, 0 <= v -> v + 3 < 2 ^ 64 -> go_Align4 v = Ffs.align4 v.
Proof. exact go_Align4_tie. Qed.
Print Assumptions C01_kernel_Align4.

Theorem C01_kernel_Align8 : forall v, 0 <= v -> v + 7 < 2 ^ 64 -> go_Align8 v = Ffs.align8 v.
Proof. exact go_Align8_tie. Qed.
Print Assumptions C01_kernel_Align8.

Theorem C01_kernel_Read3Size : forall a b c, 0 <= a < 256 -> 0 <= b < 256 -> 0 <= c < 256 ->
  go_Read3Size [a; b; c] = le_dec [a; b; c].
Proof. exact go_Read3Size_tie. Qed.
Print Assumptions C01_kernel_Read3Size.

Theorem C01_kernel_Write3Size : forall size, 0 <= size < 2 ^ 64 -> go_Write3Size size = le_enc 3 (Ffs.write3 size).
Proof. exact go_Write3Size_tie. Qed.
Print Assumptions C01_kernel_Write3Size.

Theorem C01_kernel_Checksum8 : forall b, go_Checksum8 b = Ffs.sum8 b.
Proof. exact go_Checksum8_tie. Qed.
Print Assumptions C01_kernel_Checksum8.

Theorem C01_kernel_Checksum16 : forall b, Z.even (zlen b) = true -> go_Checksum16 b = Ok (Ffs.sum16 b).
Proof. exact go_Checksum16_tie. Qed.
Print Assumptions C01_kernel_Checksum16.

Theorem C01_kernel_Checksum16_odd : forall b, Z.even (zlen b) = false -> go_Checksum16 b = Err 1.
Proof. exact go_Checksum16_odd. Qed.
Print Assumptions C01_kernel_Checksum16_odd.

Theorem C01_kernel_IsErased : forall buf pol, go_IsErased buf pol = forallb (fun x => x =? pol) buf.
Proof. exact go_IsErased_tie. Qed.
Print Assumptions C01_kernel_IsErased.

Theorem C01_kernel_IsLarge : forall a, go_fileAttr_IsLarge a = Ffs.attr_large a.
Proof. exact go_fileAttr_IsLarge_tie. Qed.
Print Assumptions C01_kernel_IsLarge.

Theorem C01_kernel_HasChecksum : forall a, go_fileAttr_HasChecksum a = Ffs.attr_checksum a.
Proof. exact go_fileAttr_HasChecksum_tie. Qed.
Print Assumptions C01_kernel_HasChecksum.

Theorem C01_kernel_GetAlignment : forall a, 0 <= a < 256 -> go_fileAttr_GetAlignment a = Ok (Ffs.attr_align a).
Proof. exact go_fileAttr_GetAlignment_tie. Qed.
Print Assumptions C01_kernel_GetAlignment.

Theorem C01_kernel_GetErasePolarity : forall attrs, go_FirmwareVolume_GetErasePolarity attrs = Ffs.fv_polarity attrs.
Proof. exact go_FirmwareVolume_GetErasePolarity_tie. Qed.
Print Assumptions C01_kernel_GetErasePolarity.

(* ---------------------------------------------------------------------------------------- *)
(* Kernel ties: the flash-descriptor kernels of pkg/uefi the flash level of this property rests on, as TRANSCRIBED FROM THE GO SOURCE on every run
   (translator/Kernels.sh -> Gen/GoKernels.v), equal the functions of the model (Proofs/KernelTieFlash.v).
   Model/FlashImage.v reuses these functions of Model/TightenMe.v.
   A change of one of these Go functions breaks the lemma. *)
From Fiano Require Import Base.Bytes Base.GoInt Gen.GoKernels Proofs.KernelTieFlash.
Local Open Scope Z_scope.

Theorem C01_kernel_FlashRegion :
  (forall base limit, go_FlashRegion_Valid limit base = TightenMe.fr_valid (TightenMe.mkFR base limit)) /\
  (forall base limit, 0 <= base < 65536 ->
     go_FlashRegion_BaseOffset base = TightenMe.base_off (TightenMe.mkFR base limit)) /\
  (forall base limit, 0 <= limit < 65536 ->
     go_FlashRegion_EndOffset limit = TightenMe.end_off (TightenMe.mkFR base limit)).
Proof. exact (conj go_FlashRegion_Valid_tie (conj go_FlashRegion_BaseOffset_tie go_FlashRegion_EndOffset_tie)). Qed.
Print Assumptions C01_kernel_FlashRegion.

Theorem C01_kernel_FindSignature :
  forall b, go_FindSignature b = TightenMe.find_signature b.
Proof. exact go_FindSignature_tie. Qed.
Print Assumptions C01_kernel_FindSignature.

