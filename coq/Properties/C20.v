(* Properties/C20.v — all other parsers are total too: error or value, bounded work.

   Shape of every statement:   total (P b)   for ALL byte strings b, where
       total o := is_panic o = false /\ is_fuel o = false          (Proofs/TotalBase.v)
   P is the executable model of a Go entry point (models of C13, C14, C15, C16, C17, C18, C19,
   C08 and the new Model/Misc.v), [Panic] is what a failed Go slice / index / conversion is in
   the models and [Fuel] is "the loop did not finish"; the fuel is the one the model itself
   uses, always S (length of the bytes the loop walks), so [is_fuel = false] says that the loop
   ends within that many iterations (bounded work).  Memory: the sizes handed to make() are
   bounded by the theorems named ..._alloc_bounded / ..._counts16 / ..._shape.
   A function whose faithful model has a reachable Panic gets a ..._refuted witness instead.
   Only statements; every proof is [exact <lemma of Proofs/...>]. *)
From Fiano Require Import Base.Bytes Gen.Consts Proofs.TotalBase.
From Fiano Require Model.Fmap Model.Fit Model.Framing Model.Bcj Model.Integrity Model.Manifest
  Gen.ManifestCodecs Model.Amd Model.Cbfs Model.Apcb Model.Misc.
From Fiano Require Proofs.TotalProofs.
Import Fiano.Proofs.TotalFitProofs Fiano.Proofs.TotalManifestProofs Fiano.Proofs.TotalApcbProofs
  Fiano.Proofs.MiscProofs.
Open Scope Z_scope.

(* ================= flash map (pkg/fmap) ================= *)

Theorem C20_fmap_read_total : forall b, total (Fmap.read b).
Proof. exact FmapT.fmap_read_total. Qed.
Print Assumptions C20_fmap_read_total.

(* the area table is allocated by a 16-bit count and is complete *)
Theorem C20_fmap_read_shape : forall b m p, bytes_ok b = true -> Fmap.read b = Ok (m, p) ->
  Fmap.h_nareas (Fmap.f_hdr m) = zlen (Fmap.f_areas m) /\ 0 <= Fmap.h_nareas (Fmap.f_hdr m) < 65536.
Proof. exact FmapT.fmap_read_shape. Qed.
Print Assumptions C20_fmap_read_shape.

(* ReadArea / WriteArea on any map Read returned, any image, any index, any data *)
Theorem C20_fmap_read_area_total : forall b m p img i, bytes_ok b = true ->
  Fmap.read b = Ok (m, p) -> total (Fmap.read_area m img i).
Proof. exact FmapT.fmap_read_area_total. Qed.
Print Assumptions C20_fmap_read_area_total.

Theorem C20_fmap_write_area_total : forall b m p img i d, bytes_ok b = true ->
  Fmap.read b = Ok (m, p) -> total (Fmap.write_area m img i d).
Proof. exact FmapT.fmap_write_area_total. Qed.
Print Assumptions C20_fmap_write_area_total.

(* ... but not on a hand-built map with NAreas > len(Areas) *)
Theorem C20_fmap_read_area_handbuilt_refuted : exists m img i, Fmap.read_area m img i = Panic 1.
Proof. exact FmapT.fmap_read_area_refuted. Qed.
Print Assumptions C20_fmap_read_area_handbuilt_refuted.

(* ReadArea's buffer: the repaired code holds at most twice the image plus one chunk, the
   unrepaired code allocates the 32-bit size field of the area (4 GiB for a 100-byte image) *)
Theorem C20_fmap_read_area_alloc_bounded : forall imglen off size, 0 <= imglen -> 0 <= off ->
  Misc.read_area_alloc imglen off size <= 2 * imglen + 4096.
Proof. exact read_area_alloc_bounded. Qed.
Print Assumptions C20_fmap_read_area_alloc_bounded.

Theorem C20_fmap_read_area_alloc_orig_refuted : exists imglen off size,
  imglen = 100 /\ Misc.read_area_alloc_orig imglen off size = 2 ^ 32 - 1.
Proof. exact read_area_alloc_orig_refuted. Qed.
Print Assumptions C20_fmap_read_area_alloc_orig_refuted.

(* ================= CBFS (pkg/cbfs) ================= *)

Theorem C20_cbfs_new_image_total : forall img, bytes_ok img = true -> total (Cbfs.new_image img).
Proof. exact CbfsT.cbfs_new_image_total. Qed.
Print Assumptions C20_cbfs_new_image_total.

(* ================= FIT (pkg/intel/metadata/fit) ================= *)

Theorem C20_fit_table_range_total : forall img, total (Fit.table_range img).
Proof. exact FitT.fit_table_range_total. Qed.
Print Assumptions C20_fit_table_range_total.

Theorem C20_fit_get_table_total : forall img, total (Fit.get_table img).
Proof. exact FitT.fit_get_table_total. Qed.
Print Assumptions C20_fit_get_table_total.

Theorem C20_fit_new_entry_total : forall h img, total (Fit.new_entry h img).
Proof. exact FitT.fit_new_entry_total. Qed.
Print Assumptions C20_fit_new_entry_total.

Theorem C20_fit_get_entries_total : forall img, total (Fit.get_entries img).
Proof. exact FitT.fit_get_entries_total. Qed.
Print Assumptions C20_fit_get_entries_total.

(* the checked slice behind every data segment and the table *)
Theorem C20_fit_slice_or_copy_total : forall img s e, 0 <= s < 2 ^ 64 -> 0 <= e < 2 ^ 64 ->
  total (Fit.slice_or_copy img s e).
Proof. exact FitT.fit_slice_or_copy_total. Qed.
Print Assumptions C20_fit_slice_or_copy_total.

(* address conversion is total uint64 arithmetic *)
Theorem C20_fit_addr_ranges : forall a s,
  0 <= Fit.offset_of_phys a s < 2 ^ 64 /\ 0 <= Fit.phys_of_offset a s < 2 ^ 64 /\
  0 <= Fit.tail_offset_of_phys a < 2 ^ 64.
Proof. exact FitT.fit_addr_ranges. Qed.
Print Assumptions C20_fit_addr_ranges.

(* InjectTo (a pair, no outcome: it cannot panic by construction) never grows or shrinks the
   container, whatever entries and offset it is given *)
Theorem C20_fit_inject_length : forall img es off,
  zlen (fst (Fit.inject img es off)) = zlen img.
Proof. exact FitT.fit_inject_length. Qed.
Print Assumptions C20_fit_inject_length.

(* ================= Boot Guard / CBnT manifests (pkg/intel/metadata/bg, cbnt) ================= *)

(* The generated ReadFrom of all 33 structures is ONE structurally recursive decoder over the
   schemas of Gen/ManifestCodecs.v; it returns an option (None = error) and has no Panic.
   It is a bounded reader: what it leaves is a suffix of what it was given. *)
Theorem C20_manifest_read_suffix : forall d b v r, Manifest.read d b = Some (v, r) ->
  (exists pre, b = pre ++ r) /\ zlen r <= zlen b.
Proof. exact ManT.manifest_read_desc_suffix. Qed.
Print Assumptions C20_manifest_read_suffix.

(* every countType of every generated structure and container element is at most 16 bits wide *)
Theorem C20_manifest_counts16 :
  forallb (fun x => ManT.counts16_s (Manifest.sd_schema (snd (fst x)))) ManifestCodecs.all_structs = true /\
  forallb (fun x => ManT.counts16_c (snd (fst x))) ManifestCodecs.all_containers = true.
Proof. exact (conj ManT.all_structs_counts16 ManT.all_containers_counts16). Qed.
Print Assumptions C20_manifest_counts16.

(* hence every number the decoder hands to make() for a dynamic field (req_f: the count prefix
   just read, or the countValue expression reduced to the count type) is below 65536 ... *)
Theorem C20_manifest_request_bound : forall t en b n, ManT.counts16_f t = true -> bytes_ok b = true ->
  ManT.req_f t en b = Some n -> 0 <= n < 65536.
Proof. exact ManT.req_f_bound. Qed.
Print Assumptions C20_manifest_request_bound.

(* ... and every list and blob of a value read from any generated structure has fewer than
   65536 items / bytes: allocation <= 65535 x element size per dynamic field *)
Theorem C20_manifest_value_bounded : forall nm d ir b v r,
  In (nm, d, ir) ManifestCodecs.all_structs -> bytes_ok b = true -> Manifest.read d b = Some (v, r) ->
  ManT.size_bounded_s (Manifest.sd_schema d) v = true.
Proof. exact ManT.manifest_read_bounded_all. Qed.
Print Assumptions C20_manifest_value_bounded.

(* the two container manifests (element dispatch loop): fuel S (length b) suffices, because a
   successful StructInfo read consumes at least one byte *)
Theorem C20_manifest_cread_total : forall nm c ir b,
  In (nm, c, ir) ManifestCodecs.all_containers -> total (Manifest.cread c b).
Proof. exact ManT.manifest_cread_total_all. Qed.
Print Assumptions C20_manifest_cread_total.

(* ================= AMD firmware, directories, keys (pkg/amd/manifest, pkg/amd/psb) ================= *)

Theorem C20_amd_parse_firmware_total : forall image, bytes_ok image = true ->
  total (Amd.parse_firmware image).
Proof. exact AmdT.amd_parse_firmware_total. Qed.
Print Assumptions C20_amd_parse_firmware_total.

Theorem C20_amd_find_efs_total : forall image, total (Amd.find_efs image).
Proof. exact AmdT.amd_find_efs_total. Qed.
Print Assumptions C20_amd_find_efs_total.

Theorem C20_amd_parse_psp_table_total : forall data, total (Amd.parse_psp_table data).
Proof. exact AmdT.amd_parse_psp_table_total. Qed.
Print Assumptions C20_amd_parse_psp_table_total.

Theorem C20_amd_parse_bios_table_total : forall data, total (Amd.parse_bios_table data).
Proof. exact AmdT.amd_parse_bios_table_total. Qed.
Print Assumptions C20_amd_parse_bios_table_total.

Theorem C20_amd_find_psp_table_total : forall image, total (Amd.find_psp_table image).
Proof. exact AmdT.amd_find_psp_table_total. Qed.
Print Assumptions C20_amd_find_psp_table_total.

Theorem C20_amd_find_bios_table_total : forall image, total (Amd.find_bios_table image).
Proof. exact AmdT.amd_find_bios_table_total. Qed.
Print Assumptions C20_amd_find_bios_table_total.

(* make([]Entry, 0, TotalEntries) happens only after TotalEntries * EntrySize <= remaining *)
Theorem C20_amd_table_alloc_bounded :
  forall E c1 c2 esz (pe : bytes -> outcome (E * Z * bytes)) data t n, 0 < esz ->
  Amd.parse_dir_table c1 c2 esz pe data = Ok (t, n) -> Amd.dt_total t * esz <= zlen data.
Proof. exact AmdT.amd_table_alloc_bounded. Qed.
Print Assumptions C20_amd_table_alloc_bounded.

(* extraction and patching on whatever the parser returned for a hostile image *)
Theorem C20_amd_extract_psp_entry_total : forall image fw level id, bytes_ok image = true ->
  Amd.parse_firmware image = Ok fw -> total (Amd.extract_psp_entry fw image level id).
Proof. exact AmdT.amd_extract_psp_entry_total. Qed.
Print Assumptions C20_amd_extract_psp_entry_total.

Theorem C20_amd_extract_bios_entry_total : forall image fw level id inst, bytes_ok image = true ->
  Amd.parse_firmware image = Ok fw -> total (Amd.extract_bios_entry fw image level id inst).
Proof. exact AmdT.amd_extract_bios_entry_total. Qed.
Print Assumptions C20_amd_extract_bios_entry_total.

Theorem C20_amd_patch_psp_entry_total : forall image fw level id d, bytes_ok image = true ->
  Amd.parse_firmware image = Ok fw -> total (Amd.patch_psp_entry fw image level id d).
Proof. exact AmdT.amd_patch_psp_entry_total. Qed.
Print Assumptions C20_amd_patch_psp_entry_total.

Theorem C20_amd_patch_bios_entry_total : forall image fw level id inst d, bytes_ok image = true ->
  Amd.parse_firmware image = Ok fw -> total (Amd.patch_bios_entry fw image level id inst d).
Proof. exact AmdT.amd_patch_bios_entry_total. Qed.
Print Assumptions C20_amd_patch_bios_entry_total.

(* the same for any implementation of the Firmware interface's address map and for ANY image
   handed to extract / patch (not necessarily the one that was parsed) *)
Theorem C20_amd_extract_psp_entry_total_with : forall p2o image fw image' level id,
  bytes_ok image = true -> Amd.parse_firmware_with p2o image = Ok fw ->
  total (Amd.extract_psp_entry fw image' level id).
Proof. exact AmdT.amd_extract_psp_entry_total_with. Qed.
Print Assumptions C20_amd_extract_psp_entry_total_with.

Theorem C20_amd_patch_psp_entry_total_with : forall p2o image fw image' level id d,
  bytes_ok image = true -> Amd.parse_firmware_with p2o image = Ok fw ->
  total (Amd.patch_psp_entry fw image' level id d).
Proof. exact AmdT.amd_patch_psp_entry_total_with. Qed.
Print Assumptions C20_amd_patch_psp_entry_total_with.

Theorem C20_amd_is_psb_enabled_total : forall fw, total (Amd.is_psb_enabled fw).
Proof. exact AmdT.amd_is_psb_enabled_total. Qed.
Print Assumptions C20_amd_is_psb_enabled_total.

Theorem C20_amd_new_root_key_total : forall blob, total (Amd.new_root_key blob).
Proof. exact AmdT.amd_new_root_key_total. Qed.
Print Assumptions C20_amd_new_root_key_total.

(* key parsing: the repaired readExponent / readModulus request no more than the blob holds,
   the unrepaired ones 512 MiB for a 68-byte blob *)
Theorem C20_psb_key_alloc_bounded : forall blob, bytes_ok blob = true ->
  Misc.key_alloc blob <= zlen blob.
Proof. exact key_alloc_bounded. Qed.
Print Assumptions C20_psb_key_alloc_bounded.

Theorem C20_psb_key_alloc_orig_refuted : exists blob,
  bytes_ok blob = true /\ zlen blob = 68 /\ Misc.key_alloc_orig blob = 2 ^ 29 - 1.
Proof. exact key_alloc_orig_refuted. Qed.
Print Assumptions C20_psb_key_alloc_orig_refuted.

(* checksum helper (not a parser): needs the 8 bytes it skips *)
Theorem C20_amd_dir_checksum_refuted : exists raw, Amd.dir_checksum raw = Panic 1.
Proof. exact AmdT.amd_dir_checksum_refuted. Qed.
Print Assumptions C20_amd_dir_checksum_refuted.

(* ================= PSP binaries, token keys, manifest keys (pkg/amd/psb, cbnt, bg) ================= *)

Theorem C20_psb_ranges_total : forall a b c d e, total (Integrity.psp_ranges a b c d e).
Proof. exact IntegrityT.psb_ranges_total. Qed.
Print Assumptions C20_psb_ranges_total.

Theorem C20_psb_psp_validate_total : forall verify ks raw,
  total (Integrity.psp_validate verify ks raw).
Proof. exact IntegrityT.psb_psp_validate_total. Qed.
Print Assumptions C20_psb_psp_validate_total.

Theorem C20_psb_token_key_total : forall verify ks raw, total (Integrity.token_key verify ks raw).
Proof. exact IntegrityT.psb_token_key_total. Qed.
Print Assumptions C20_psb_token_key_total.

Theorem C20_psb_root_key_total : forall raw, total (Integrity.root_key raw).
Proof. exact IntegrityT.psb_root_key_total. Qed.
Print Assumptions C20_psb_root_key_total.

Theorem C20_cbnt_ks_verify_total : forall verify ks data,
  0 <= Integrity.k_size (Integrity.ks_key ks) -> total (Integrity.ks_verify verify ks data).
Proof. exact IntegrityT.ks_verify_total. Qed.
Print Assumptions C20_cbnt_ks_verify_total.

Theorem C20_bg_ks_verify_total : forall verify ks data,
  0 <= Integrity.k_size (Integrity.ks_key ks) -> total (Integrity.bg_ks_verify verify ks data).
Proof. exact IntegrityT.bg_ks_verify_total. Qed.
Print Assumptions C20_bg_ks_verify_total.

(* reachable panics of validation helpers (not entry points of C20; recorded by C16 as well) *)
Theorem C20_validate_bpm_key_refuted : forall hash,
  exists l k, Integrity.validate_bpm_key hash l k = Panic 21.
Proof. exact IntegrityT.validate_bpm_key_refuted. Qed.
Print Assumptions C20_validate_bpm_key_refuted.

Theorem C20_validate_ibb_refuted : forall hash fw, Integrity.validate_ibb hash [] fw = Panic 10.
Proof. exact IntegrityT.validate_ibb_refuted. Qed.
Print Assumptions C20_validate_ibb_refuted.

Theorem C20_validate_ibb_range_refuted : forall hash,
  exists ses fw, Integrity.validate_ibb hash ses fw = Panic 11.
Proof. exact IntegrityT.validate_ibb_range_refuted. Qed.
Print Assumptions C20_validate_ibb_range_refuted.

(* ================= APCB (pkg/amd/apcb) ================= *)

(* ParseAPCBBinaryTokens on every byte string shorter than 4 GiB *)
Theorem C20_apcb_parse_tokens_total : forall b, zlen b < 2 ^ 32 -> total (Apcb.parse_tokens b).
Proof. exact apcb_parse_tokens_total_gen. Qed.
Print Assumptions C20_apcb_parse_tokens_total.

(* UpsertToken on a hostile container: any token id, masks, value kind and value *)
Theorem C20_apcb_upsert_total : forall k pm bm kind nv b, zlen b + 40 < 2 ^ 32 ->
  total (Apcb.upsert k pm bm kind nv b).
Proof. exact apcb_upsert_total_gen. Qed.
Print Assumptions C20_apcb_upsert_total.

(* ================= decompression framing (pkg/compression) ================= *)

Theorem C20_zlib_decode_total : forall zl_dec e, (forall x, total (zl_dec x)) ->
  total (Framing.zlib_decode zl_dec e).
Proof. exact FramingT.zlib_decode_total. Qed.
Print Assumptions C20_zlib_decode_total.

Theorem C20_lzmax86_decode_total : forall c_dec e, (forall x, total (c_dec x)) ->
  total (Framing.lzmax86_decode c_dec e).
Proof. exact FramingT.lzmax86_decode_total. Qed.
Print Assumptions C20_lzmax86_decode_total.

(* ================= microcode, ME partition table, FSP header (Model/Misc.v) ================= *)

Theorem C20_microcode_parse_total : forall b, total (Misc.mc_parse b).
Proof. exact mc_parse_total. Qed.
Print Assumptions C20_microcode_parse_total.

Theorem C20_microcode_alloc_bounded : forall b, Misc.mc_alloc b <= zlen b.
Proof. exact mc_alloc_bounded. Qed.
Print Assumptions C20_microcode_alloc_bounded.

(* the unrepaired code: DataSize + 48 wraps, 4 GiB - 16 requested for a 48-byte input *)
Theorem C20_microcode_alloc_orig_refuted : exists b,
  bytes_ok b = true /\ zlen b = 48 /\ Misc.mc_alloc_orig b = 2 ^ 32 - 16.
Proof. exact mc_alloc_orig_refuted. Qed.
Print Assumptions C20_microcode_alloc_orig_refuted.

Theorem C20_microcode_ok_bounded : forall b m, Misc.mc_parse b = Ok m ->
  zlen (Misc.mc_hdr m) + zlen (Misc.mc_data m) <= zlen b.
Proof. exact mc_parse_ok_bounded. Qed.
Print Assumptions C20_microcode_ok_bounded.

Theorem C20_me_parse_total : forall b, total (Misc.me_parse b).
Proof. exact me_parse_total. Qed.
Print Assumptions C20_me_parse_total.

(* every partition entry reported was paid for with 32 input bytes *)
Theorem C20_me_parse_bounded : forall b h es, Misc.me_parse b = Ok (h, es) ->
  me_entry_size * zlen es <= zlen b.
Proof. exact me_parse_bounded. Qed.
Print Assumptions C20_me_parse_bounded.

Theorem C20_fsp_parse_total : forall b, total (Misc.fsp_parse b).
Proof. exact fsp_parse_total. Qed.
Print Assumptions C20_fsp_parse_total.

(* ================= FIT per-entry data parsers: startup ACM ================= *)
(* EntrySACMParseSize: the slice b[24:] and the four bytes Uint32 reads are checked operations in
   the model; the guard in front of them makes every byte string a value or an error *)
Theorem C20_fit_sacm_parse_size_total : forall b, total (Misc.sacm_parse_size b).
Proof. exact sacm_parse_size_total. Qed.
Print Assumptions C20_fit_sacm_parse_size_total.

(* ParseSACMData (common header, version dispatch, version-specific part, user area) *)
Theorem C20_fit_sacm_parse_total : forall b, total (Misc.sacm_parse b).
Proof. exact sacm_parse_total. Qed.
Print Assumptions C20_fit_sacm_parse_total.

(* ... and the user area it returns is a piece of the input (no allocation by the Size field) *)
Theorem C20_fit_sacm_user_bounded : forall b s, Misc.sacm_parse b = Ok s ->
  zlen (Misc.sacm_user s) <= zlen b.
Proof. exact sacm_parse_user_bounded. Qed.
Print Assumptions C20_fit_sacm_user_bounded.

(* ---- non-vacuity: concrete inputs reach the accepting paths ---- *)
Example ex_sacm_size : Misc.sacm_parse_size (zrepeat 0 24 ++ [1; 1; 0; 0; 255]) = Ok 1028.
Proof. vm_compute. reflexivity. Qed.

Example ex_sacm_v0_user :
  match Misc.sacm_parse (zrepeat 0 24 ++ [49; 1; 0; 0] ++ zrepeat 0 92 ++ [64; 0; 0; 0] ++ zrepeat 0 (4 + 1088) ++ [7; 8; 9; 10]) with
  | Ok s => (Misc.sacm_hdr_size s, Misc.sacm_user s) | _ => (-1, []) end = (1216, [7; 8; 9; 10]).
Proof. vm_compute. reflexivity. Qed.

Example ex_microcode :
  match Misc.mc_parse ([1;0;0;0; 36;4;0;0; 34;32;25;9; 163;6;9;0; 93;212;221;246; 1;0;0;0; 128;0;0;0;
                        4;0;0;0; 52;0;0;0] ++ zrepeat 0 16) with
  | Ok m => zlen (Misc.mc_data m) | _ => -1 end = 4.
Proof. vm_compute. reflexivity. Qed.

Example ex_me_new_header :
  match Misc.me_parse ([36;70;80;84; 1;0;0;0; 32;16;32;0] ++ zrepeat 0 20 ++ zrepeat 65 32) with
  | Ok (h, es) => (Misc.me_legacy h, zlen es) | _ => (true, -1) end = (false, 1).
Proof. vm_compute. reflexivity. Qed.

Example ex_fsp :
  match Misc.fsp_parse ([70;83;80;72; 72;0;0;0; 0;0; 32; 3] ++ zrepeat 7 60) with
  | Ok h => Misc.fsp_rev h | _ => -1 end = 3.
Proof. vm_compute. reflexivity. Qed.

(* a flash map whose only area claims 4 GiB - 1 bytes of a 266-byte image: Read accepts it,
   ReadArea answers with an error *)
Definition ex_map : Fmap.fmap :=
  Fmap.mkFmap (Fmap.mkHeader fmap_signature 1 1 0 4096 ([70] ++ zrepeat 0 31) 1)
              [Fmap.mkArea 0 (2 ^ 32 - 1) ([65] ++ zrepeat 0 31) 1].
Definition ex_fmap_img : bytes := Fmap.write (zrepeat 255 200) ex_map 10.

Example ex_fmap_hostile :
  bytes_ok ex_fmap_img = true /\ Fmap.read ex_fmap_img = Ok (ex_map, 10) /\
  Fmap.read_area ex_map ex_fmap_img 0 = Err Fmap.E_EOF /\
  Misc.read_area_alloc (zlen ex_fmap_img) 0 (2 ^ 32 - 1) = 4496.
Proof. vm_compute. repeat split; reflexivity. Qed.

(* an image that is just an embedded firmware structure without directories parses (under an
   address map that puts the first probed address at offset 0): the hypothesis of the
   extraction / patching theorems is satisfiable, and extraction answers with an error *)
Definition ex_efs_img : bytes := le_enc 4 amd_efs_signature ++ zrepeat 0 70.
Example ex_amd_parse :
  bytes_ok ex_efs_img = true /\
  match Amd.parse_firmware_with (Amd.shifted_map 4294574080) ex_efs_img with
  | Ok fw => is_ok (Amd.extract_psp_entry fw ex_efs_img 1 0) | _ => true end = false.
Proof. vm_compute. split; reflexivity. Qed.

(* a cbnt Key read from 9 bytes: RSA, version 0x10, KeySize 0 -> 4 bytes of data *)
Example ex_manifest_key :
  match Manifest.read ManifestCodecs.cbnt_Key_desc [1;0; 16; 0;0; 1;0;1;0; 99] with
  | Some (_, r) => r | None => [] end = [99].
Proof. vm_compute. reflexivity. Qed.

(* a count of 65535 hash entries announced by a 4-byte input is an error, not an allocation
   the model could make: the decoder stops at the first missing item *)
Example ex_manifest_hostile_count :
  Manifest.read ManifestCodecs.cbnt_HashList_desc [255;255; 255;255] = None.
Proof. vm_compute. reflexivity. Qed.

(* ---- format constants ----
   The models take their format constants from Gen/Consts.v, which is regenerated from /repo's
   source on every run; Spec/ConstPins.v (committed, written by bin/mkpins) pins every one of them
   to the value the specifications give it.  A constant that drifts in the Go source breaks this
   theorem instead of being silently followed by model and generator. *)
From Fiano Require Spec.ConstPins.
Theorem C20_format_constants_pinned : Spec.ConstPins.pinned_c20.
Proof. exact Spec.ConstPins.pins_c20. Qed.
Print Assumptions C20_format_constants_pinned.
