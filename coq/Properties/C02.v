(* Properties/C02.v — every image the tool writes is a structurally valid image of the same size.
   Only statements; every proof is [exact <lemma of Proofs/AsmProofs.v, Proofs/ValidProofs.v,
   Proofs/ValidFlatProofs.v>] (C02_unedited_valid: a rewrite with C01's grammar_save_identity).

   [valid_image] (Model/Valid.v) is the independent reader.  [file_start]/[file_starts]/[end_of] are
   the offsets the file loop of Assemble (Ffs.place_files) gives to the files of a volume. *)
From Fiano Require Import Base.Bytes Gen.Consts Model.Ffs Model.FfsGrammar Model.Edit Model.Valid Model.ValidInv
  Proofs.FfsGrammarProofs Proofs.EditProofs Proofs.AsmProofs Proofs.ValidProofs Proofs.ValidTreeProofs Proofs.ValidFlatProofs Proofs.Ffs3FlagProofs.
Open Scope Z_scope.

(* ---- same total size; an error writes nothing ---- *)

Theorem C02_same_size : forall dec enc u2s s2u nvar d ops img out,
  edit_and_save dec enc u2s s2u nvar d ops img = Ok out -> zlen out = zlen img.
Proof. exact edit_and_save_size. Qed.
Print Assumptions C02_same_size.

(* save = assemble, then write: when an operation fails the run ends with that error and no bytes *)
Theorem C02_error_no_output : forall dec enc u2s s2u nvar d ops img cops pol0 elems pol e,
  parse_cli dec u2s nvar d 240 ops = Ok (cops, pol0) ->
  parse_bios dec u2s nvar d (Z.to_nat (zlen img) + 1) pol0 img 0 = Ok (elems, pol) ->
  run_ops d pol cops elems = Err e ->
  edit_and_save dec enc u2s s2u nvar d ops img = Err e.
Proof. exact edit_error_no_output. Qed.
Print Assumptions C02_error_no_output.

(* ---- placement: 8-byte file placement, data alignment, room for a pad file ---- *)

Theorem C02_align_gap_ok : forall off f, 0 <= off ->
  let a0 := align8 off in
  let s := file_start off f in
  a0 <= s /\ s mod 8 = 0 /\ (s + file_hlen (node_attr f)) mod attr_align (node_attr f) = 0 /\
  (s = a0 \/ 24 <= s - a0).
Proof. exact align_gap_ok. Qed.
Print Assumptions C02_align_gap_ok.

(* the file loop: the buffer only grows, every file's bytes lie at its offset (so files do not
   overlap: the offsets are increasing by construction of [file_starts]), a non-resizable volume's
   limit is respected *)
Theorem C02_place_files_layout : forall pol limit files buf off B, zlen buf = off -> 0 <= off ->
  place_files pol limit buf off files = Ok B ->
  zlen B = end_of off files /\ (exists D, B = buf ++ D) /\
  (forall k f s, nth_error files k = Some f -> nth_error (file_starts off files) k = Some s ->
                 sub s (zlen (node_buf f)) B = node_buf f) /\
  (match limit with Some l => files <> [] -> zlen B <= l | None => True end).
Proof. exact place_files_layout. Qed.
Print Assumptions C02_place_files_layout.

(* asm_fv_nospace: a file ending beyond a non-resizable volume's length is never laid out *)
Theorem C02_nospace : forall pol l files buf off, zlen buf = off -> 0 <= off ->
  (exists k f s, nth_error files k = Some f /\ nth_error (file_starts off files) k = Some s /\
                 l < s + zlen (node_buf f)) ->
  is_ok (place_files pol (Some l) buf off files) = false.
Proof. exact place_files_nospace. Qed.
Print Assumptions C02_nospace.

(* a rebuilt non-resizable volume has exactly Length bytes and keeps its Length *)
Theorem C02_volume_length : forall pol ffs3 h buf files h' b,
  asm_vol pol ffs3 h buf files = Ok (h', b) ->
  vol_verbatim h files = false -> v_resizable h = false ->
  zlen b = v_length h /\ v_length h' = v_length h.
Proof. exact asm_vol_v_len. Qed.
Print Assumptions C02_volume_length.

(* a rebuilt resizable (nested) volume with a power-of-two block size has exactly Length bytes;
   Length is kept or, when the files need more, grows: only the first block-map entry is resized,
   the bytes of the further entries ([rest_bytes rest], Assemble's uint64 sum of count * size) stay
   part of the volume, what the files need beyond them is rounded up to the first entry's block
   size, and the first entry's count is updated so that the block map adds up to Length (last
   conjunct; before fixes/C02-resize-multi-entry-blockmap.diff Length and the first count ignored
   the further entries).  Go's Align is a bit mask: equal to rounding up exactly for powers of
   two, lemma align_go_pow2 *)
Theorem C02_volume_length_resizable : forall pol ffs3 h buf files h' b c k rest,
  asm_vol pol ffs3 h buf files = Ok (h', b) ->
  vol_verbatim h files = false -> v_resizable h = true ->
  v_blocks h = (c, 2 ^ k) :: rest -> 0 <= k < 64 -> 0 <= v_dataoff h ->
  end_of (v_dataoff h) files + 2 ^ k <= 2 ^ 64 ->
  zlen b = v_length h' /\
  ((v_length h' = v_length h /\ v_blocks h' = v_blocks h) \/
   (v_length h < v_length h' /\ end_of (v_dataoff h) files <= v_length h' /\
    v_length h' = rest_bytes rest + align (Z.max 0 (end_of (v_dataoff h) files - rest_bytes rest)) (2 ^ k) /\
    v_blocks h' = (((v_length h' - rest_bytes rest) / 2 ^ k) mod U32, 2 ^ k) :: rest /\
    (v_length h' - rest_bytes rest) / 2 ^ k * 2 ^ k + rest_bytes rest = v_length h')).
Proof. exact asm_vol_v_len_resizable. Qed.
Print Assumptions C02_volume_length_resizable.

(* asm_fv_nospace at the volume: the rebuild of a non-resizable volume fails when a file would end
   beyond its Length (the error, not a truncated or overlapping volume) *)
Theorem C02_volume_nospace : forall pol ffs3 h buf files,
  vol_verbatim h files = false -> v_resizable h = false -> 0 <= v_dataoff h ->
  (exists k f s, nth_error files k = Some f /\ nth_error (file_starts (v_dataoff h) files) k = Some s /\
                 v_length h < s + zlen (node_buf f)) ->
  is_ok (asm_vol pol ffs3 h buf files) = false.
Proof. exact asm_vol_v_nospace. Qed.
Print Assumptions C02_volume_nospace.

(* ---- checksums and size fields of what Assemble builds ---- *)

(* a file written by SetSize + ChecksumAndAssemble (header/body checksums, size fields, large
   attribute) passes the reader's per-file checks; stated for file types without sections *)
Theorem C02_created_file_valid : forall vfv venc dec h ext attr data,
  zlen (f_guid h) = 16 -> 0 <= ext < 2 ^ 64 ->
  ext = file_hlen attr + zlen data -> attr_large attr = (16777215 <=? ext) ->
  supported_file (f_type h) = false ->
  v_file vfv venc dec (snd (checksum_and_assemble h ext attr data)) = true.
Proof. exact caa_v_file. Qed.
Print Assumptions C02_created_file_valid.

(* pad files (alignment gaps, remove_pad) are valid files and cannot be mistaken for free space *)
Theorem C02_pad_file_valid : forall vfv venc dec pol size b,
  create_pad_file pol size = Ok b -> size < 2 ^ 64 ->
  v_file vfv venc dec b = true /\ all_eq pol (sub 0 24 b) = false /\ zlen b = size.
Proof. exact pad_file_valid. Qed.
Print Assumptions C02_pad_file_valid.

(* the header GenSecHeader writes for a regenerated plain section (replace_pe32's result, UI,
   version, depex), at the size threshold of the format: the 4-byte header with the 24-bit size as
   long as 4 + |body| < 0xFFFFFF, and from 4 + |body| = 0xFFFFFF on the 8-byte header (size field
   FF FF FF, type, 32-bit size 8 + |body|) - the size field FF FF FF is never written without the
   32-bit size behind it; the reader accepts the section in both forms *)
Theorem C02_section_header_threshold : forall h body,
  s_gd h = None -> zlen body + 32 < 4294967296 -> s_type h <> 23 -> s_type h <> 2 ->
  (4 + zlen body < 16777215 ->
     snd (gen_sec_header h body) = le_enc 3 (4 + zlen body) ++ [s_type h] ++ body) /\
  (16777215 <= 4 + zlen body ->
     snd (gen_sec_header h body) = [255; 255; 255] ++ [s_type h] ++ le_enc 4 (8 + zlen body) ++ body) /\
  v_sec0 (snd (gen_sec_header h body)) = true.
Proof.
  intros h body Hg Hb H23 H2.
  destruct (gsh_plain_form h body Hg ltac:(lia)) as [A B]. split; [exact A|]. split; [exact B|].
  apply gsh_v_sec0; auto. unfold gd_wf. rewrite Hg. exact I.
Qed.
Print Assumptions C02_section_header_threshold.

(* the file-system GUID of a rebuilt volume.  Assemble's "use FFSv3" flag is per volume: children
   start with the flag cleared, a file that is rebuilt in the large form ([rebuilt_large x x']: the
   node x has sections or an NVAR store and its assembled form x' carries the large attribute)
   raises it, and nothing clears it before the volume is written - in particular not a nested
   volume among the files that follow, which works on its own flag and hands the enclosing
   volume's back.  So a rebuilt non-resizable volume that carried the FFSv2 GUID and holds such a
   file, at whatever position, is written with the FFSv3 GUID; and the flag of the caller (an
   enclosing volume) comes back unchanged.  (Implementation side: oracle p_c02_ffs3 and FFS3Rule.) *)
Theorem C02_large_file_makes_ffs3 : forall enc s2u h vb kids st h' b kids' st',
  asm enc s2u (NVol h vb kids) st = Ok (NVol h' b kids', st') ->
  v_resizable h = false -> vhdr_inb h vb = true -> vol_verbatim h kids' = false ->
  bytes_eqb (v_guid h) FFS2 = true ->
  (exists i x x', nth_error kids i = Some x /\ nth_error kids' i = Some x' /\ rebuilt_large x x' = true) ->
  sub 16 16 b = FFS3 /\ snd st' = snd st.
Proof. exact large_file_makes_ffs3. Qed.
Print Assumptions C02_large_file_makes_ffs3.

(* the 16-bit sum of a rebuilt volume's header is zero *)
Theorem C02_volume_header_checksum : forall pol ffs3 h buf files h' b,
  asm_vol pol ffs3 h buf files = Ok (h', b) ->
  vol_verbatim h files = false -> v_resizable h = false -> 52 <= v_hdrlen h ->
  sum16 (sub 0 (v_hdrlen h) b) = 0.
Proof. exact asm_vol_hdr_cksum. Qed.
Print Assumptions C02_volume_header_checksum.

(* ---- the independent reader accepts a rebuilt volume ---- *)

(* C02_valid_after_edits (the goal in full generality; NOT proved):

     forall img ops out, valid_image dec d img = true ->
       edit_and_save dec enc u2s s2u nvar d ops img = Ok out ->
       valid_image dec d out = true /\ zlen out = zlen img.

   Proved: C02_valid_after_edits_flat (below) - the statement end to end for "flat" trees, with the
   hypothesis given as the checkable boolean Model/ValidInv.flat_check; C02_unedited_valid - no edit,
   inputs of C01's grammar; and the volume-assembly core C02_valid_after_edits_partial that both the
   flat theorem and any extension rest on: when Assemble rebuilds a non-resizable volume from files
   that are individually valid for the reader ([fok]: per-file checks pass, header not erased;
   attribute byte = the header record's), the result has exactly Length bytes, keeps Length, its
   header sums to zero, and the reader's file walk ([v_files]: 8-byte placement, size fields,
   header/body checksums, data alignment, no overlap, erased free space) accepts it from the data
   offset on, whatever the edits did to the file list. *)
Theorem C02_valid_after_edits_partial : forall vfv venc dec pol ffs3 h buf files h' b,
  asm_vol pol ffs3 h buf files = Ok (h', b) ->
  vol_verbatim h files = false -> v_resizable h = false ->
  60 <= v_dataoff h -> v_dataoff h mod 8 = 0 -> 52 <= v_hdrlen h ->
  (pol = 0 \/ pol = 255) -> v_length h < 2 ^ 64 ->
  Forall (fun f => fok vfv venc dec pol (node_buf f) = true /\ rd 19 1 (node_buf f) = node_attr f) files ->
  zlen b = v_length h /\ v_length h' = v_length h /\
  sum16 (sub 0 (v_hdrlen h) b) = 0 /\
  forall fuel, (2 * length files < fuel)%nat -> v_files vfv venc dec fuel pol b (v_dataoff h) = true.
Proof. exact asm_vol_valid_core. Qed.
Print Assumptions C02_valid_after_edits_partial.

(* ---- end to end ---- *)

(* utk <image> <ops...> save on a flat tree: whenever bytes are written they are a valid image of
   the input's size.  [flat_check dec u2s nvar dd d ops img] (Model/ValidInv.v) is a boolean: the
   command line and the image parse, and the parsed tree has the invariant
     - every section node is a leaf: a UI/version/depex section (regenerated from its fields) or a
       section copied verbatim whose bytes the reader accepts ([v_sec0]: size fields; neither a
       volume-image section nor a compressed GUID-defined section the reader would open);
     - every file node is a leaf the reader accepts ([v_file], header not erased, attribute byte =
       header record) or is rebuilt from such sections (or its NVAR store); ExtendedSize < 2^64;
     - every top-level volume is non-resizable, below 4 GiB, has the region's erase polarity and a
       header the reader accepts and the header record agrees with ([vhdr_inb]); a volume of a
       file system fiano does not parse is valid as it is;
     - paddings between the volumes are multiples of 8 without a "_FVH" hit at the scanned
       positions ([scan_ok]);
     - inserted files have the file invariant, replacement PE images are below 4 GiB ([cop_flat]).
   [d] is the reader's depth below the top-level volumes, [dd] the parser's depth.

   What this leaves open of the goal above, exactly:
   (1) flat_check is not derived from [valid_image dec (S d) img = true]; instead the model runner
       evaluates it on every generated case in scope (op 'flat' of the C02 executor), so the
       oracle p_c02 runs on inputs that provably satisfy the hypothesis.  The link would need
       "the parser keeps the bytes of what it does not rebuild" (property C04's statement) tied
       to the reader's rules file by file;
   (2) trees with visible nested volumes (volume-image sections; resizable volumes: only the
       length rule C02_volume_length_resizable is proved) and with compressed sections that fiano
       opens and re-compresses (the reader then checks the decoded payload; needs dec (enc x) = x
       as a hypothesis on the codec oracle) are outside flat_check: these are covered on the
       implementation by the oracle p_c02 only;
   (3) volumes of 4 GiB and more. *)
Theorem C02_valid_after_edits_flat : forall dec enc u2s s2u nvar dd d ops img out,
  flat_check dec u2s nvar dd d ops img = true ->
  edit_and_save dec enc u2s s2u nvar dd ops img = Ok out ->
  valid_image dec (S d) out = true /\ zlen out = zlen img.
Proof. exact flat_edit_valid. Qed.
Print Assumptions C02_valid_after_edits_flat.

(* its assembly half on its own: any tree with the invariant whose elements tile [len] bytes is
   saved as a valid region of [len] bytes *)
Theorem C02_flat_tree_saves_valid : forall dec enc s2u d pol elems len el b st,
  forallb (vtb_elem dec d pol) elems = true -> scan_ok elems = true -> total_len elems = len ->
  asm_bios enc s2u elems len (pol, false) = Ok (el, b, st) ->
  valid_image dec (S d) b = true /\ zlen b = len.
Proof. exact flat_save_valid. Qed.
Print Assumptions C02_flat_tree_saves_valid.

(* and its edit half: every operation keeps the invariant, the kinds and the bytes of the region's
   top-level elements *)
Theorem C02_ops_keep_invariant : forall dec d pol dd cs elems elems',
  forallb (cop_flat dec d pol) cs = true ->
  run_ops dd pol cs elems = Ok elems' -> forallb (vtb_elem dec d pol) elems = true ->
  scan_ok elems' = scan_ok elems /\ map node_buf elems' = map node_buf elems /\
  forallb (vtb_elem dec d pol) elems' = true.
Proof. exact run_ops_flat. Qed.
Print Assumptions C02_ops_keep_invariant.

(* no operation at all: for the inputs of C01's proved grammar (volumes with extended headers,
   any block map, large files, ...) save returns the input, hence a valid image whenever the
   input is one; no flatness restriction *)
Theorem C02_unedited_valid : forall dec enc u2s s2u nvar l trail,
  wf_region u2s s2u l trail ->
  exists d0, forall dd, (d0 <= dd)%nat ->
    edit_and_save dec enc u2s s2u nvar dd [] (emit_region l trail) = Ok (emit_region l trail) /\
    forall dr out, edit_and_save dec enc u2s s2u nvar dd [] (emit_region l trail) = Ok out ->
      valid_image dec dr (emit_region l trail) = true ->
      valid_image dec dr out = true /\ zlen out = zlen (emit_region l trail).
Proof.
  intros dec enc u2s s2u nvar l trail W.
  destruct (grammar_save_identity dec enc u2s s2u nvar l trail W) as (d0 & H). exists d0. intros dd Hd.
  assert (E : edit_and_save dec enc u2s s2u nvar dd [] (emit_region l trail) = Ok (emit_region l trail)).
  { rewrite <- (H dd Hd). unfold edit_and_save, edit_and_save_gen, save_region, parse_region.
    cbn [parse_cli bind run_ops].
    destruct (parse_bios dec u2s nvar dd _ 240 (emit_region l trail) 0) as [[elems pol]| | |]; reflexivity. }
  split; [exact E|]. intros dr out Ho Hv. rewrite E in Ho. inversion Ho; subst out. split; [exact Hv | reflexivity].
Qed.
Print Assumptions C02_unedited_valid.

(* ---- examples: the reader on a real image, before and after edits ---- *)

Definition no_codec (_ : Z) (_ : bytes) : option bytes := None.
Definition no_nvar (_ : bytes) : option bytes := None.
Definition id_bytes (b : bytes) : bytes := b.

(* a 192-byte FFS2 volume holding one raw file 00000001-AB00-0000-0000-000000000077 *)
Definition tiny_image : bytes := [0; 0; 0; 0; 0; 0; 0; 0; 0; 0; 0; 0; 0; 0; 0; 0; 120; 229; 140; 140; 61; 138; 28; 79; 153; 53; 137; 97; 133; 195; 45; 211; 192; 0; 0; 0; 0; 0; 0; 0; 95; 70; 86; 72; 0; 8; 0; 0; 72; 0; 207; 236; 0; 0; 0; 2; 3; 0; 0; 0; 64; 0; 0; 0; 0; 0; 0; 0; 0; 0; 0; 0; 1; 0; 0; 0; 0; 171; 0; 0; 0; 0; 0; 0; 0; 0; 0; 119; 1; 170; 192; 0; 28; 0; 0; 248; 1; 2; 3; 4; 255; 255; 255; 255; 255; 255; 255; 255; 255; 255; 255; 255; 255; 255; 255; 255; 255; 255; 255; 255; 255; 255; 255; 255; 255; 255; 255; 255; 255; 255; 255; 255; 255; 255; 255; 255; 255; 255; 255; 255; 255; 255; 255; 255; 255; 255; 255; 255; 255; 255; 255; 255; 255; 255; 255; 255; 255; 255; 255; 255; 255; 255; 255; 255; 255; 255; 255; 255; 255; 255; 255; 255; 255; 255; 255; 255; 255; 255; 255; 255; 255; 255; 255; 255; 255; 255; 255; 255; 255; 255; 255; 255].
Definition tiny_guid : bytes := [1; 0; 0; 0; 0; 171; 0; 0; 0; 0; 0; 0; 0; 0; 0; 119].
Definition save_of (ops : list op) : outcome bytes :=
  edit_and_save no_codec no_codec id_bytes id_bytes no_nvar 8 ops tiny_image.
Definition valid_out (o : outcome bytes) : bool :=
  match o with Ok out => valid_image no_codec 8 out && (zlen out =? zlen tiny_image) | _ => false end.

Example ex_input_valid : valid_image no_codec 8 tiny_image = true.
Proof. vm_compute. reflexivity. Qed.
(* a flipped header byte is noticed *)
Example ex_reader_rejects : valid_image no_codec 8 (splice 90 [66] tiny_image) = false.
Proof. vm_compute. reflexivity. Qed.
Example ex_remove_valid : valid_out (save_of [ORemove false (TLit (guid_string tiny_guid))]) = true.
Proof. vm_compute. reflexivity. Qed.
Example ex_remove_pad_valid : valid_out (save_of [ORemove true (TLit (guid_string tiny_guid))]) = true.
Proof. vm_compute. reflexivity. Qed.
(* a file to insert: the image's own file with another first GUID byte, header checksum adjusted *)
Definition tiny_file : bytes := splice 16 [255] (splice 0 [3] (sub 72 28 tiny_image)).
Example ex_insert_valid :
  valid_out (save_of [OInsert IAfter (TLit (guid_string tiny_guid)) tiny_file]) = true.
Proof. vm_compute. reflexivity. Qed.
Example ex_insert_changes : match save_of [OInsert IAfter (TLit (guid_string tiny_guid)) tiny_file] with
                            | Ok out => negb (bytes_eqb out tiny_image) | _ => false end = true.
Proof. vm_compute. reflexivity. Qed.
(* the hypothesis of C02_valid_after_edits_flat holds on this image with these operations (reader
   depth 8 = one more than the depth 7 below the top-level volume), so the validity of the three
   outputs above also follows from the theorem; and it fails on the damaged image *)
Example ex_flat_check :
  flat_check no_codec id_bytes no_nvar 8 7
    [ORemove true (TLit (guid_string tiny_guid)); OInsert IAfter (TLit (guid_string tiny_guid)) tiny_file]
    tiny_image = true.
Proof. vm_compute. reflexivity. Qed.
Example ex_flat_check_rejects :
  flat_check no_codec id_bytes no_nvar 8 7 [] (splice 90 [66] tiny_image) = false.
Proof. vm_compute. reflexivity. Qed.
(* five more files do not fit 192 bytes: an error, no bytes *)
Example ex_nospace :
  is_ok (save_of (repeat (OInsert IEnd (TLit (guid_string tiny_guid)) tiny_file) 5)) = false.
Proof. vm_compute. reflexivity. Qed.
(* placement arithmetic on a concrete case: a file asking for 16-byte data alignment after offset 96:
   data at 128 would leave an 8-byte gap, too small for a pad file, so it moves on to 144 *)
Example ex_file_start :
  file_start 96 (NFile (mkFile tiny_guid 0 170 7 8 28 248 28 24 None) (sub 72 28 tiny_image) []) = 120.
Proof. vm_compute. reflexivity. Qed.

(* ---- create-fv (Model/CreateFv.v): the volume it builds, the padding it splits ---- *)

From Fiano Require Import Model.CreateFv Proofs.CreateFvProofs.

(* create-fv with a size of whole 4 KiB blocks (the operation as repaired by
   fixes/C02-createfv-whole-blocks.diff; on these sizes the pinned code is the same function,
   C02_create_fv_agree): the buffer handed to the tree has the requested size, and after Assemble
   has rebuilt the volume (header, name file, erased space; save always does) the result still has
   exactly that size and the independent reader accepts it - signature, header checksum,
   length = block map = bytes present, the name file with valid checksums, erased free space.
   Erase polarity 0xFF: the new volume's attributes say so, any other polarity makes save fail. *)
Theorem C02_create_fv_valid : forall dec d ffs3 size name fvoff h vb h' b,
  0 < size -> size mod 4096 = 0 -> size < 2 ^ 44 -> zlen name = 16 -> bytes_ok name = true ->
  create_fv 255 size name fvoff = Ok (h, vb) ->
  asm_vol 255 ffs3 h vb [] = Ok (h', b) ->
  zlen vb = size /\ zlen b = size /\ v_length h' = size /\ valid_fv dec (S d) true b = true.
Proof. exact create_fv_valid_stmt. Qed.
Print Assumptions C02_create_fv_valid.

Theorem C02_create_fv_agree : forall pol size name fvoff, 0 < size -> size mod 4096 = 0 ->
  create_fv pol size name fvoff = create_fv_pinned pol size name fvoff.
Proof. exact create_fv_agree. Qed.
Print Assumptions C02_create_fv_agree.

(* the padding that holds [off, off + size) is replaced by (head padding,) new volume (, tail
   padding): the elements of the region still add up to the same number of bytes, for the pinned
   and for the repaired operation and for every size *)
Theorem C02_create_fv_same_size : forall fixed pol elems length off size name elems',
  0 <= size -> zlen name = 16 ->
  create_fv_region fixed pol elems length off size name = Ok elems' ->
  elems_len elems' = elems_len elems.
Proof. exact create_fv_region_same_size. Qed.
Print Assumptions C02_create_fv_same_size.

(* the code at the pinned commit takes any size: for 4104 bytes (one block and 8 bytes) it builds
   the volume, Assemble rebuilds it, and the reader REJECTS the result - Length 4104 next to a
   block map of 1 x 4096 (known finding, fixes/C02-createfv-whole-blocks.diff) *)
Theorem C02_create_fv_pinned_refuted : exists size h vb h' b,
  size mod 4096 <> 0 /\
  create_fv_pinned 255 size cfv_witness_name 0 = Ok (h, vb) /\
  asm_vol 255 false h vb [] = Ok (h', b) /\ zlen b = size /\
  valid_fv (fun _ _ => None) 3 true b = false.
Proof. exact create_fv_pinned_refuted. Qed.
Print Assumptions C02_create_fv_pinned_refuted.

(* ... and below 116 bytes (header 72 + name file 44) it does not return at all: the length of
   the erased rest, Length - DataOffset in uint64, wraps and make() panics *)
Theorem C02_create_fv_pinned_small_panics : forall pol size name fvoff,
  pol = 255 \/ pol = 0 -> size < 116 -> create_fv_pinned pol size name fvoff = Panic 501.
Proof. exact create_fv_pinned_small. Qed.
Print Assumptions C02_create_fv_pinned_small_panics.

(* the repaired operation answers both classes with an error (no output) *)
Theorem C02_create_fv_refuses : forall pol size name fvoff, size = 0 \/ size mod 4096 <> 0 ->
  create_fv pol size name fvoff = Err E_CFVSIZE.
Proof. exact create_fv_refuses. Qed.
Print Assumptions C02_create_fv_refuses.

(* the hypotheses of C02_create_fv_valid are met by a concrete case, and the pipeline computes:
   an 8 KiB volume, rebuilt by Assemble, accepted by the reader *)
Example ex_create_fv_8k :
  match create_fv 255 8192 cfv_witness_name 0 with
  | Ok (h, vb) =>
    match asm_vol 255 false h vb [] with
    | Ok (_, b) => (zlen b =? 8192) && valid_fv (fun _ _ => None) 3 true b
    | _ => false
    end
  | _ => false
  end = true.
Proof. vm_compute. reflexivity. Qed.

(* ---------------------------------------------------------------------------------------- *)
(* Kernel ties: the arithmetic kernels of pkg/uefi this property rests on, as TRANSCRIBED FROM
   THE GO SOURCE on every run (translator/Kernels.sh -> Gen/GoKernels.v), equal the functions of
   the model (Proofs/KernelTie.v).  A change of one of these Go functions breaks the lemma. *)
From Fiano Require Import Base.Bytes Base.GoInt Gen.GoKernels Proofs.KernelTie.
Local Open Scope Z_scope.

Theorem C02_kernel_Align : forall v b, go_Align v b = Ffs.align_go v b.
Proof. exact go_Align_tie. Qed.
Print Assumptions C02_kernel_Align.

Theorem C02_kernel_Align_pow2 : forall v k, 0 <= v -> 0 <= k < 64 -> v + 2 ^ k - 1 < 2 ^ 64 ->
  go_Align v (2 ^ k) = Ffs.align v (2 ^ k).
Proof. exact go_Align_pow2. Qed.
Print Assumptions C02_kernel_Align_pow2.

Theorem C02_kernel_Align4 : forall v, 0 <= v -> v + 3 < 2 ^ 64 -> go_Align4 v = Ffs.align4 v.
Proof. exact go_Align4_tie. Qed.
Print Assumptions C02_kernel_Align4.

Theorem C02_kernel_Align8 : forall v, 0 <= v -> v + 7 < 2 ^ 64 -> go_Align8 v = Ffs.align8 v.
Proof. exact go_Align8_tie. Qed.
Print Assumptions C02_kernel_Align8.

Theorem C02_kernel_Read3Size : forall a b c, 0 <= a < 256 -> 0 <= b < 256 -> 0 <= c < 256 ->
  go_Read3Size [a; b; c] = le_dec [a; b; c].
Proof. exact go_Read3Size_tie. Qed.
Print Assumptions C02_kernel_Read3Size.

Theorem C02_kernel_Write3Size : forall size, 0 <= size < 2 ^ 64 -> go_Write3Size size = le_enc 3 (Ffs.write3 size).
Proof. exact go_Write3Size_tie. Qed.
Print Assumptions C02_kernel_Write3Size.

Theorem C02_kernel_Checksum8 : forall b, go_Checksum8 b = Ffs.sum8 b.
Proof. exact go_Checksum8_tie. Qed.
Print Assumptions C02_kernel_Checksum8.

Theorem C02_kernel_Checksum16 : forall b, Z.even (zlen b) = true -> go_Checksum16 b = Ok (Ffs.sum16 b).
Proof. exact go_Checksum16_tie. Qed.
Print Assumptions C02_kernel_Checksum16.

Theorem C02_kernel_Checksum16_odd : forall b, Z.even (zlen b) = false -> go_Checksum16 b = Err 1.
Proof. exact go_Checksum16_odd. Qed.
Print Assumptions C02_kernel_Checksum16_odd.

Theorem C02_kernel_IsErased : forall buf pol, go_IsErased buf pol = forallb (fun x => x =? pol) buf.
Proof. exact go_IsErased_tie. Qed.
Print Assumptions C02_kernel_IsErased.

Theorem C02_kernel_IsLarge : forall a, go_fileAttr_IsLarge a = Ffs.attr_large a.
Proof. exact go_fileAttr_IsLarge_tie. Qed.
Print Assumptions C02_kernel_IsLarge.

Theorem C02_kernel_HasChecksum : forall a, go_fileAttr_HasChecksum a = Ffs.attr_checksum a.
Proof. exact go_fileAttr_HasChecksum_tie. Qed.
Print Assumptions C02_kernel_HasChecksum.

Theorem C02_kernel_GetAlignment : forall a, 0 <= a < 256 -> go_fileAttr_GetAlignment a = Ok (Ffs.attr_align a).
Proof. exact go_fileAttr_GetAlignment_tie. Qed.
Print Assumptions C02_kernel_GetAlignment.

Theorem C02_kernel_GetErasePolarity : forall attrs, go_FirmwareVolume_GetErasePolarity attrs = Ffs.fv_polarity attrs.
Proof. exact go_FirmwareVolume_GetErasePolarity_tie. Qed.
Print Assumptions C02_kernel_GetErasePolarity.

(* ---- format constants ----
   The models take their format constants from Gen/Consts.v, which is regenerated from /repo's
   source on every run; Spec/ConstPins.v (committed, written by bin/mkpins) pins every one of them
   to the value the specifications give it.  A constant that drifts in the Go source breaks this
   theorem instead of being silently followed by model and generator. *)
From Fiano Require Spec.ConstPins.
Theorem C02_format_constants_pinned : Spec.ConstPins.pinned_c02.
Proof. exact Spec.ConstPins.pins_c02. Qed.
Print Assumptions C02_format_constants_pinned.
