(* Properties/C02.v — every image the tool writes is a structurally valid image of the same size.
   Only statements; every proof is [exact <lemma of Proofs/AsmProofs.v or Proofs/ValidProofs.v>].

   [valid_image] (Model/Valid.v) is the independent reader.  [file_start]/[file_starts]/[end_of] are
   the offsets the file loop of Assemble (Ffs.place_files) gives to the files of a volume. *)
From Fiano Require Import Base.Bytes Gen.Consts Model.Ffs Model.Edit Model.Valid
  Proofs.EditProofs Proofs.AsmProofs Proofs.ValidProofs.
Open Scope Z_scope.

(* ---- same total size; an error writes nothing ---- *)

Theorem C02_same_size : forall dec enc u2s s2u nvar fx d ops img out,
  edit_and_save dec enc u2s s2u nvar fx d ops img = Ok out -> zlen out = zlen img.
Proof. exact edit_and_save_size. Qed.
Print Assumptions C02_same_size.

(* save = assemble, then write: when an operation fails the run ends with that error and no bytes *)
Theorem C02_error_no_output : forall dec enc u2s s2u nvar fx d ops img cops pol0 elems pol e,
  parse_cli dec u2s nvar d 240 ops = Ok (cops, pol0) ->
  parse_bios dec u2s nvar d (Z.to_nat (zlen img) + 1) pol0 img 0 = Ok (elems, pol) ->
  run_ops d pol cops elems = Err e ->
  edit_and_save dec enc u2s s2u nvar fx d ops img = Err e.
Proof. exact edit_error_no_output. Qed.
Print Assumptions C02_error_no_output.

(* ---- placement: 8-byte file placement, data alignment, room for a pad file ---- *)

Theorem C02_align_gap_ok : forall off f, 0 <= off ->
  let a0 := align8 off in
  let s := file_start off f in
  a0 <= s /\ s mod 8 = 0 /\ (s + file_hlen (node_attr f)) mod attr_align (node_attr f) = 0 /\
  (s = a0 \/ 24 <= s - a0).
Proof. exact align_gap_ok. Qed.
Print Assumptions C02_align_gap_ok.

(* the file loop: the buffer only grows, every file's bytes lie at its offset (so files do not
   overlap: the offsets are increasing by construction of [file_starts]), a non-resizable volume's
   limit is respected *)
Theorem C02_place_files_layout : forall pol limit files buf off B, zlen buf = off -> 0 <= off ->
  place_files pol limit buf off files = Ok B ->
  zlen B = end_of off files /\ (exists D, B = buf ++ D) /\
  (forall k f s, nth_error files k = Some f -> nth_error (file_starts off files) k = Some s ->
                 sub s (zlen (node_buf f)) B = node_buf f) /\
  (match limit with Some l => files <> [] -> zlen B <= l | None => True end).
Proof. exact place_files_layout. Qed.
Print Assumptions C02_place_files_layout.

(* asm_fv_nospace: a file ending beyond a non-resizable volume's length is never laid out *)
Theorem C02_nospace : forall pol l files buf off, zlen buf = off -> 0 <= off ->
  (exists k f s, nth_error files k = Some f /\ nth_error (file_starts off files) k = Some s /\
                 l < s + zlen (node_buf f)) ->
  is_ok (place_files pol (Some l) buf off files) = false.
Proof. exact place_files_nospace. Qed.
Print Assumptions C02_nospace.

(* a rebuilt non-resizable volume has exactly Length bytes and keeps its Length *)
Theorem C02_volume_length : forall fx pol ffs3 h buf files h' b,
  asm_vol_v fx pol ffs3 h buf files = Ok (h', b) ->
  vol_verbatim fx h files = false -> v_resizable h = false ->
  zlen b = v_length h /\ v_length h' = v_length h.
Proof. exact asm_vol_v_len. Qed.
Print Assumptions C02_volume_length.
