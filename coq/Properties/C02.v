(* Properties/C02.v — every image the tool writes is a structurally valid image of the same size.
   Only statements; every proof is [exact <lemma of Proofs/AsmProofs.v or Proofs/ValidProofs.v>].

   [valid_image] (Model/Valid.v) is the independent reader.  [file_start]/[file_starts]/[end_of] are
   the offsets the file loop of Assemble (Ffs.place_files) gives to the files of a volume. *)
From Fiano Require Import Base.Bytes Gen.Consts Model.Ffs Model.Edit Model.Valid
  Proofs.EditProofs Proofs.AsmProofs Proofs.ValidProofs.
Open Scope Z_scope.

(* ---- same total size; an error writes nothing ---- *)

Theorem C02_same_size : forall dec enc u2s s2u nvar d ops img out,
  edit_and_save dec enc u2s s2u nvar d ops img = Ok out -> zlen out = zlen img.
Proof. exact edit_and_save_size. Qed.
Print Assumptions C02_same_size.

(* save = assemble, then write: when an operation fails the run ends with that error and no bytes *)
Theorem C02_error_no_output : forall dec enc u2s s2u nvar d ops img cops pol0 elems pol e,
  parse_cli dec u2s nvar d 240 ops = Ok (cops, pol0) ->
  parse_bios dec u2s nvar d (Z.to_nat (zlen img) + 1) pol0 img 0 = Ok (elems, pol) ->
  run_ops d pol cops elems = Err e ->
  edit_and_save dec enc u2s s2u nvar d ops img = Err e.
Proof. exact edit_error_no_output. Qed.
Print Assumptions C02_error_no_output.

(* ---- placement: 8-byte file placement, data alignment, room for a pad file ---- *)

Theorem C02_align_gap_ok : forall off f, 0 <= off ->
  let a0 := align8 off in
  let s := file_start off f in
  a0 <= s /\ s mod 8 = 0 /\ (s + file_hlen (node_attr f)) mod attr_align (node_attr f) = 0 /\
  (s = a0 \/ 24 <= s - a0).
Proof. exact align_gap_ok. Qed.
Print Assumptions C02_align_gap_ok.

(* the file loop: the buffer only grows, every file's bytes lie at its offset (so files do not
   overlap: the offsets are increasing by construction of [file_starts]), a non-resizable volume's
   limit is respected *)
Theorem C02_place_files_layout : forall pol limit files buf off B, zlen buf = off -> 0 <= off ->
  place_files pol limit buf off files = Ok B ->
  zlen B = end_of off files /\ (exists D, B = buf ++ D) /\
  (forall k f s, nth_error files k = Some f -> nth_error (file_starts off files) k = Some s ->
                 sub s (zlen (node_buf f)) B = node_buf f) /\
  (match limit with Some l => files <> [] -> zlen B <= l | None => True end).
Proof. exact place_files_layout. Qed.
Print Assumptions C02_place_files_layout.

(* asm_fv_nospace: a file ending beyond a non-resizable volume's length is never laid out *)
Theorem C02_nospace : forall pol l files buf off, zlen buf = off -> 0 <= off ->
  (exists k f s, nth_error files k = Some f /\ nth_error (file_starts off files) k = Some s /\
                 l < s + zlen (node_buf f)) ->
  is_ok (place_files pol (Some l) buf off files) = false.
Proof. exact place_files_nospace. Qed.
Print Assumptions C02_nospace.

(* a rebuilt non-resizable volume has exactly Length bytes and keeps its Length *)
Theorem C02_volume_length : forall pol ffs3 h buf files h' b,
  asm_vol pol ffs3 h buf files = Ok (h', b) ->
  vol_verbatim h files = false -> v_resizable h = false ->
  zlen b = v_length h /\ v_length h' = v_length h.
Proof. exact asm_vol_v_len. Qed.
Print Assumptions C02_volume_length.

(* a rebuilt resizable (nested) volume with a power-of-two block size has exactly Length bytes;
   Length is kept or, when the files need more, grows to the next block boundary, and the first
   block-map entry is updated with it (Go's Align is a bit mask: equal to rounding up exactly for
   powers of two, lemma align_go_pow2) *)
Theorem C02_volume_length_resizable : forall pol ffs3 h buf files h' b c k rest,
  asm_vol pol ffs3 h buf files = Ok (h', b) ->
  vol_verbatim h files = false -> v_resizable h = true ->
  v_blocks h = (c, 2 ^ k) :: rest -> 0 <= k < 64 -> 0 <= v_dataoff h ->
  end_of (v_dataoff h) files + 2 ^ k <= 2 ^ 64 ->
  zlen b = v_length h' /\
  ((v_length h' = v_length h /\ v_blocks h' = v_blocks h) \/
   (v_length h < v_length h' /\ v_length h' = align (end_of (v_dataoff h) files) (2 ^ k) /\
    v_blocks h' = ((v_length h' / 2 ^ k) mod U32, 2 ^ k) :: rest)).
Proof. exact asm_vol_v_len_resizable. Qed.
Print Assumptions C02_volume_length_resizable.

(* asm_fv_nospace at the volume: the rebuild of a non-resizable volume fails when a file would end
   beyond its Length (the error, not a truncated or overlapping volume) *)
Theorem C02_volume_nospace : forall pol ffs3 h buf files,
  vol_verbatim h files = false -> v_resizable h = false -> 0 <= v_dataoff h ->
  (exists k f s, nth_error files k = Some f /\ nth_error (file_starts (v_dataoff h) files) k = Some s /\
                 v_length h < s + zlen (node_buf f)) ->
  is_ok (asm_vol pol ffs3 h buf files) = false.
Proof. exact asm_vol_v_nospace. Qed.
Print Assumptions C02_volume_nospace.

(* ---- checksums and size fields of what Assemble builds ---- *)

(* a file written by SetSize + ChecksumAndAssemble (header/body checksums, size fields, large
   attribute) passes the reader's per-file checks; stated for file types without sections *)
Theorem C02_created_file_valid : forall vfv venc dec h ext attr data,
  zlen (f_guid h) = 16 -> 0 <= ext < 2 ^ 64 ->
  ext = file_hlen attr + zlen data -> attr_large attr = (16777215 <=? ext) ->
  supported_file (f_type h) = false ->
  v_file vfv venc dec (snd (checksum_and_assemble h ext attr data)) = true.
Proof. exact caa_v_file. Qed.
Print Assumptions C02_created_file_valid.

(* pad files (alignment gaps, remove_pad) are valid files and cannot be mistaken for free space *)
Theorem C02_pad_file_valid : forall vfv venc dec pol size b,
  create_pad_file pol size = Ok b -> size < 2 ^ 64 ->
  v_file vfv venc dec b = true /\ all_eq pol (sub 0 24 b) = false /\ zlen b = size.
Proof. exact pad_file_valid. Qed.
Print Assumptions C02_pad_file_valid.

(* the 16-bit sum of a rebuilt volume's header is zero *)
Theorem C02_volume_header_checksum : forall pol ffs3 h buf files h' b,
  asm_vol pol ffs3 h buf files = Ok (h', b) ->
  vol_verbatim h files = false -> v_resizable h = false -> 52 <= v_hdrlen h ->
  sum16 (sub 0 (v_hdrlen h) b) = 0.
Proof. exact asm_vol_hdr_cksum. Qed.
Print Assumptions C02_volume_header_checksum.

(* ---- the independent reader accepts a rebuilt volume ---- *)

(* C02_valid_after_edits (the goal; NOT proved):

     forall img ops out, valid_image dec d img = true ->
       edit_and_save dec enc u2s s2u nvar d ops img = Ok out ->
       valid_image dec d out = true /\ zlen out = zlen img.

   Proved below is its volume-assembly core, C02_valid_after_edits_partial: when Assemble rebuilds
   a non-resizable volume from files that are individually valid for the reader ([fok]: per-file
   checks pass, header not erased; attribute byte = the header record's), the result has exactly
   Length bytes, keeps Length, its header sums to zero, and the reader's file walk ([v_files]: 8-byte
   placement, size fields, header/body checksums, data alignment, no overlap, erased free space)
   accepts it from the data offset on, whatever the edits did to the file list.
   Exact gap to the goal: (1) [fok] for the files themselves - for untouched files it follows from
   valid_image of the input through the parser (parse_fv keeps the bytes: property C04), for files
   rebuilt from sections from C02_created_file_valid plus the section walk ([v_sections] over
   join4/gen_sec_header), neither link is proved; (2) the header rules of valid_fv other than
   length and checksum (signature, block map sum, extended header) - the header bytes below offset
   60 other than Length/GUID/checksum are the input's; (3) for resizable (nested) volumes only the length rule is proved
   (C02_volume_length_resizable, power-of-two block sizes), not the file walk; (4) the composition
   section -> file -> nested volume -> region ([v_region] over copy_elems) and the fuel of valid_fv.
   These are covered on the implementation by the oracle p_c02 only. *)
Theorem C02_valid_after_edits_partial : forall vfv venc dec pol ffs3 h buf files h' b,
  asm_vol pol ffs3 h buf files = Ok (h', b) ->
  vol_verbatim h files = false -> v_resizable h = false ->
  60 <= v_dataoff h -> v_dataoff h mod 8 = 0 -> 52 <= v_hdrlen h ->
  (pol = 0 \/ pol = 255) -> v_length h < 2 ^ 64 ->
  Forall (fun f => fok vfv venc dec pol (node_buf f) = true /\ rd 19 1 (node_buf f) = node_attr f) files ->
  zlen b = v_length h /\ v_length h' = v_length h /\
  sum16 (sub 0 (v_hdrlen h) b) = 0 /\
  forall fuel, (2 * length files < fuel)%nat -> v_files vfv venc dec fuel pol b (v_dataoff h) = true.
Proof. exact asm_vol_valid_core. Qed.
Print Assumptions C02_valid_after_edits_partial.

(* ---- examples: the reader on a real image, before and after edits ---- *)

Definition no_codec (_ : Z) (_ : bytes) : option bytes := None.
Definition no_nvar (_ : bytes) : option bytes := None.
Definition id_bytes (b : bytes) : bytes := b.

(* a 192-byte FFS2 volume holding one raw file 00000001-AB00-0000-0000-000000000077 *)
Definition tiny_image : bytes := [0; 0; 0; 0; 0; 0; 0; 0; 0; 0; 0; 0; 0; 0; 0; 0; 120; 229; 140; 140; 61; 138; 28; 79; 153; 53; 137; 97; 133; 195; 45; 211; 192; 0; 0; 0; 0; 0; 0; 0; 95; 70; 86; 72; 0; 8; 0; 0; 72; 0; 207; 236; 0; 0; 0; 2; 3; 0; 0; 0; 64; 0; 0; 0; 0; 0; 0; 0; 0; 0; 0; 0; 1; 0; 0; 0; 0; 171; 0; 0; 0; 0; 0; 0; 0; 0; 0; 119; 1; 170; 192; 0; 28; 0; 0; 248; 1; 2; 3; 4; 255; 255; 255; 255; 255; 255; 255; 255; 255; 255; 255; 255; 255; 255; 255; 255; 255; 255; 255; 255; 255; 255; 255; 255; 255; 255; 255; 255; 255; 255; 255; 255; 255; 255; 255; 255; 255; 255; 255; 255; 255; 255; 255; 255; 255; 255; 255; 255; 255; 255; 255; 255; 255; 255; 255; 255; 255; 255; 255; 255; 255; 255; 255; 255; 255; 255; 255; 255; 255; 255; 255; 255; 255; 255; 255; 255; 255; 255; 255; 255; 255; 255; 255; 255; 255; 255; 255; 255; 255; 255; 255; 255].
Definition tiny_guid : bytes := [1; 0; 0; 0; 0; 171; 0; 0; 0; 0; 0; 0; 0; 0; 0; 119].
Definition save_of (ops : list op) : outcome bytes :=
  edit_and_save no_codec no_codec id_bytes id_bytes no_nvar 8 ops tiny_image.
Definition valid_out (o : outcome bytes) : bool :=
  match o with Ok out => valid_image no_codec 8 out && (zlen out =? zlen tiny_image) | _ => false end.

Example ex_input_valid : valid_image no_codec 8 tiny_image = true.
Proof. vm_compute. reflexivity. Qed.
(* a flipped header byte is noticed *)
Example ex_reader_rejects : valid_image no_codec 8 (splice 90 [66] tiny_image) = false.
Proof. vm_compute. reflexivity. Qed.
Example ex_remove_valid : valid_out (save_of [ORemove false (TLit (guid_string tiny_guid))]) = true.
Proof. vm_compute. reflexivity. Qed.
Example ex_remove_pad_valid : valid_out (save_of [ORemove true (TLit (guid_string tiny_guid))]) = true.
Proof. vm_compute. reflexivity. Qed.
(* a file to insert: the image's own file with another first GUID byte, header checksum adjusted *)
Definition tiny_file : bytes := splice 16 [255] (splice 0 [3] (sub 72 28 tiny_image)).
Example ex_insert_valid :
  valid_out (save_of [OInsert IAfter (TLit (guid_string tiny_guid)) tiny_file]) = true.
Proof. vm_compute. reflexivity. Qed.
Example ex_insert_changes : match save_of [OInsert IAfter (TLit (guid_string tiny_guid)) tiny_file] with
                            | Ok out => negb (bytes_eqb out tiny_image) | _ => false end = true.
Proof. vm_compute. reflexivity. Qed.
(* five more files do not fit 192 bytes: an error, no bytes *)
Example ex_nospace :
  is_ok (save_of (repeat (OInsert IEnd (TLit (guid_string tiny_guid)) tiny_file) 5)) = false.
Proof. vm_compute. reflexivity. Qed.
(* placement arithmetic on a concrete case: a file asking for 16-byte data alignment after offset 96:
   data at 128 would leave an 8-byte gap, too small for a pad file, so it moves on to 144 *)
Example ex_file_start :
  file_start 96 (NFile (mkFile tiny_guid 0 170 7 8 28 248 28 24 None) (sub 72 28 tiny_image) []) = 120.
Proof. vm_compute. reflexivity. Qed.
