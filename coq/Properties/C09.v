(* Properties/C09.v — validate accepts what is well-formed and flags what is corrupt.
   Only statements; every proof is [exact <lemma of Proofs/ValidateProofs.v>].

   Vocabulary (defined in Proofs/ValidateProofs.v):
     single_change b i b'     b' is b with exactly the byte at index i replaced by another byte value
     reports n                validate n = Ok l with l <> []   (validate = Model/Validate.v, with the
                              two repairs fixes/C09-validate-body-checksum.diff and C09-validate-free-space-erased.diff)
     file_at off files k      the k-th file of a volume and its offset (8-aligned, first at the data offset)
     fv_hdr_extent b          end of what the volume-header parse reads: HeaderLen and the extended header
     prot_hdr large j         j in 0..16 or 18..22, or 24..31 for a large file (the checksummed header bytes)
     becomes_free_marker fb   fb reads as the start of the volume free space: size FFFFFF, at least 32
                              bytes, extended size FFFFFFFFFFFFFFFF
     validate_gen false       the pinned validate (before both patches of fixes/C09-*.diff)
   "parse fails or validate reports" is stated as: for every r, parse b' = Ok r -> reports (fst r). *)
From Fiano Require Import Base.Bytes Gen.Consts Model.Ffs Model.Validate Proofs.ValidateProofs.
Open Scope Z_scope.

(* ---------- validate itself ---------- *)

(* validate never panics: the three slice expressions are guarded on every tree *)
Theorem C09_validate_total : forall fixed n, exists l, validate_gen fixed n = Ok l.
Proof. exact validate_total. Qed.
Print Assumptions C09_validate_total.

(* ---------- no miss ---------- *)

(* any byte of a volume header except the signature *)
Theorem C09_fv_header_detects :
  forall dec u2s nvar d pol pol2 b b' fvoff fvoff' res res' h buf kids pol' i,
  parse_fv dec u2s nvar (S d) pol b fvoff res = Ok (NVol h buf kids, pol') ->
  validate (NVol h buf kids) = Ok [] ->
  single_change b i b' -> i < v_hdrlen h -> ~ (40 <= i < 44) ->
  forall r, parse_fv dec u2s nvar (S d) pol2 b' fvoff' res' = Ok r -> reports (fst r).
Proof. exact thm_fv_header_detects. Qed.
Print Assumptions C09_fv_header_detects.

(* any checksummed header byte of a file directly inside a parsed volume *)
Theorem C09_file_header_detects :
  forall dec u2s nvar d pol b b' fvoff res h buf kids pol' k fh fb fk o j,
  parse_fv dec u2s nvar (S (S d)) pol b fvoff res = Ok (NVol h buf kids, pol') ->
  validate (NVol h buf kids) = Ok [] -> bytes_ok b = true -> fv_hdr_extent b <= v_dataoff h ->
  file_at (v_dataoff h) kids k = Some (NFile fh fb fk, o) ->
  zlen b < 2 ^ 55 ->
  prot_hdr (attr_large (f_attr fh)) j -> single_change b (o + j) b' ->
  forall r, parse_fv dec u2s nvar (S (S d)) pol b' fvoff res = Ok r -> reports (fst r).
Proof. exact thm_file_header_detects. Qed.
Print Assumptions C09_file_header_detects.

(* without the free-space check of fixes/C09-validate-free-space-erased.diff the theorem needs a side
   condition (DESIGN section 6 #9): a 0xFFFF-byte raw file whose body starts with eight FF bytes,
   followed by a second file; raising size byte 22 of the first header from 00 to FF turns the header
   into the free-space marker, both files vanish, the image still parses and the pinned validate
   ([validate_gen false]) reports nothing; the repaired validate reports the unerased free space *)
Theorem C09_pinned_free_marker_miss_refuted :
  exists b b' h buf kids fh fb fk,
    parse_fv dec0 u2s0 nvar0 3 240 b 0 false = Ok (NVol h buf kids, 255) /\
    validate_gen false (NVol h buf kids) = Ok [] /\ validate (NVol h buf kids) = Ok [] /\
    bytes_ok b = true /\ fv_hdr_extent b <= v_dataoff h /\
    length kids = 2%nat /\
    file_at (v_dataoff h) kids 0 = Some (NFile fh fb fk, 72) /\
    prot_hdr (attr_large (f_attr fh)) 22 /\
    single_change b (72 + 22) b' /\
    becomes_free_marker (sub 72 (v_length h - 72) b') /\
    exists h' buf', parse_fv dec0 u2s0 nvar0 3 240 b' 0 false = Ok (NVol h' buf' [], 255) /\
                    validate_gen false (NVol h' buf' []) = Ok [] /\
                    validate (NVol h' buf' []) = Ok [V_FV_FREESPACE].
Proof. exact free_marker_witness. Qed.
Print Assumptions C09_pinned_free_marker_miss_refuted.

(* the exact input class in which a header change yields the marker: a size byte raised to FF while
   the other two already are FF, in a file without the large attribute (hence at least 0xFFFF bytes
   long) whose first eight body bytes are FF *)
Theorem C09_free_marker_class :
  forall nvar rs pol fb fb' j h fbuf kids pol',
  file_body nvar rs pol fb = Ok (Some (NFile h fbuf kids), pol') ->
  validate_file h fbuf = Ok [] -> bytes_ok fb = true -> single_change fb j fb' -> 0 <= j < 24 ->
  becomes_free_marker fb' ->
  20 <= j < 23 /\ attr_large (f_attr h) = false /\ f_size3 h <> 16777215 /\
  rd 20 3 fb' = 16777215 /\ rd 24 8 fb = U64 - 1 /\ 65535 <= f_ext h.
Proof. exact free_marker_class. Qed.
Print Assumptions C09_free_marker_class.

(* any body byte of a file that carries the checksum attribute *)
Theorem C09_body_detects :
  forall dec u2s nvar d pol b b' fvoff res h buf kids pol' k fh fb fk o j,
  parse_fv dec u2s nvar (S (S d)) pol b fvoff res = Ok (NVol h buf kids, pol') ->
  validate (NVol h buf kids) = Ok [] -> bytes_ok b = true -> fv_hdr_extent b <= v_dataoff h ->
  file_at (v_dataoff h) kids k = Some (NFile fh fb fk, o) ->
  attr_checksum (f_attr fh) = true -> file_hs fh <= j < f_ext fh -> single_change b (o + j) b' ->
  forall r, parse_fv dec u2s nvar (S (S d)) pol b' fvoff res = Ok r -> reports (fst r).
Proof. exact thm_body_detects. Qed.
Print Assumptions C09_body_detects.

(* the body-checksum byte itself (with or without the checksum attribute) *)
Theorem C09_bodysum_detects :
  forall dec u2s nvar d pol b b' fvoff res h buf kids pol' k fh fb fk o,
  parse_fv dec u2s nvar (S (S d)) pol b fvoff res = Ok (NVol h buf kids, pol') ->
  validate (NVol h buf kids) = Ok [] -> bytes_ok b = true -> fv_hdr_extent b <= v_dataoff h ->
  file_at (v_dataoff h) kids k = Some (NFile fh fb fk, o) ->
  single_change b (o + 17) b' ->
  forall r, parse_fv dec u2s nvar (S (S d)) pol b' fvoff res = Ok r -> reports (fst r).
Proof. exact thm_bodysum_detects. Qed.
Print Assumptions C09_bodysum_detects.

(* the same three, for one file and any parser continuation (used for files at any nesting depth) *)
Theorem C09_file_header_detects_local :
  forall nvar rs nvar2 rs2 pol pol2 fb fb' j h fbuf kids pol',
  file_body nvar rs pol fb = Ok (Some (NFile h fbuf kids), pol') ->
  validate_file h fbuf = Ok [] -> bytes_ok fb = true -> zlen fb < 2 ^ 55 ->
  single_change fb j fb' -> prot_hdr (attr_large (f_attr h)) j ->
  forall r, file_body nvar2 rs2 pol2 fb' = Ok r ->
  (exists f', fst r = Some f' /\ reports f') \/
  (fst r = None /\ forall P, P = 0 \/ P = 255 -> forallb (fun x => x =? P) fb' = false).
Proof. exact file_header_detects_local2. Qed.
Print Assumptions C09_file_header_detects_local.

Theorem C09_body_detects_local :
  forall nvar rs nvar2 rs2 pol pol2 fb fb' j h fbuf kids pol',
  file_body nvar rs pol fb = Ok (Some (NFile h fbuf kids), pol') ->
  validate_file h fbuf = Ok [] -> attr_checksum (f_attr h) = true ->
  single_change fb j fb' -> file_hs h <= j < f_ext h ->
  forall r, file_body nvar2 rs2 pol2 fb' = Ok r -> exists f', fst r = Some f' /\ reports f'.
Proof. exact file_body_detects_local. Qed.
Print Assumptions C09_body_detects_local.

Theorem C09_bodysum_detects_local :
  forall nvar rs nvar2 rs2 pol pol2 fb fb' h fbuf kids pol',
  file_body nvar rs pol fb = Ok (Some (NFile h fbuf kids), pol') ->
  validate_file h fbuf = Ok [] -> bytes_ok fb = true -> single_change fb 17 fb' ->
  forall r, file_body nvar2 rs2 pol2 fb' = Ok r -> exists f', fst r = Some f' /\ reports f'.
Proof. exact file_bodysum_detects_local. Qed.
Print Assumptions C09_bodysum_detects_local.

(* a report anywhere in a subtree is a report of the tree *)
Theorem C09_report_propagates : forall fixed h buf kids f,
  In f kids -> reports_gen fixed f ->
  reports_gen fixed (NVol h buf kids) /\ reports_gen fixed (NSec (sec_default 0 0 0 0 0) buf kids).
Proof. exact report_propagates. Qed.
Print Assumptions C09_report_propagates.

(* ---------- no false alarm ---------- *)

(* a file built by SetSize + ChecksumAndAssemble (what Assemble does for every file it rebuilds) *)
Theorem C09_no_false_alarm_file : forall h data ext attr,
  set_size (f_attr h) (24 + zlen data) true = (ext, attr) -> zlen (f_guid h) = 16 ->
  validate_file (fst (checksum_and_assemble h ext attr data))
                (snd (checksum_and_assemble h ext attr data)) = Ok [].
Proof. exact no_false_alarm_file. Qed.
Print Assumptions C09_no_false_alarm_file.

Theorem C09_no_false_alarm_file_asm : forall h buf kids' st n st',
  file_asm h buf kids' st = Ok (n, st') -> (kids' <> [] \/ f_nvar h <> None) ->
  zlen (f_guid h) = 16 ->
  exists h' nb, n = NFile h' nb kids' /\ validate_file h' nb = Ok [].
Proof. exact file_asm_clean. Qed.
Print Assumptions C09_no_false_alarm_file_asm.

(* a section header written by GenSecHeader *)
Theorem C09_no_false_alarm_section : forall h body,
  zlen body + 28 < U32 -> (forall g, s_gd h = Some g -> zlen (gd_guid g) = 16) ->
  validate_sec (fst (gen_sec_header h body)) (snd (gen_sec_header h body)) = [].
Proof. exact no_false_alarm_section. Qed.
Print Assumptions C09_no_false_alarm_section.

(* a volume rebuilt by Assemble. Revision, signature, GUID and the HeaderLen/block-map relation are
   copied from the input volume, so they are hypotheses about it; [pol] is the erase polarity the
   assembler fills with, which Assemble takes from the volume's attributes. *)
Theorem C09_no_false_alarm_volume : forall pol ffs3 h buf files h' nb,
  asm_vol pol ffs3 h buf files = Ok (h', nb) -> files <> [] -> v_resizable h = false ->
  pol = fv_polarity (v_attrs h) -> zlen nb < 2 ^ 63 ->
  v_hdrlen h = 56 + 8 * (nblocks (v_blocks h) + 1) -> v_rev h = 2 -> v_sig h = c09_fv_signature ->
  known_fv_guid (v_guid h) = true ->
  validate_vol h' nb = Ok [].
Proof. exact no_false_alarm_volume. Qed.
Print Assumptions C09_no_false_alarm_volume.

(* also for resizable (nested) volumes, which may grow: the first block-map entry is resized to whole
   blocks, the blocks of the further entries ([rest_sum], uint64 arithmetic) stay part of the length *)
Theorem C09_no_false_alarm_volume_any : forall pol ffs3 h buf files h' nb,
  asm_vol pol ffs3 h buf files = Ok (h', nb) -> files <> [] ->
  (forall c s rest, v_blocks h = (c, s) :: rest -> 0 < s < 2 ^ 32 /\ rest_sum rest < 2 ^ 62) ->
  zlen nb < 2 ^ 63 ->
  pol = fv_polarity (v_attrs h) ->
  v_hdrlen h = 56 + 8 * (nblocks (v_blocks h) + 1) -> v_rev h = 2 -> v_sig h = c09_fv_signature ->
  known_fv_guid (v_guid h) = true ->
  validate_vol h' nb = Ok [].
Proof. exact no_false_alarm_volume_any. Qed.
Print Assumptions C09_no_false_alarm_volume_any.

(* ---------- the pinned body-checksum check (before fixes/C09-validate-body-checksum.diff) ---------- *)

(* it flags what ChecksumAndAssemble builds whenever the body does not sum to zero ... *)
Theorem C09_pinned_body_check_false_alarm_refuted :
  exists h data ext attr,
    set_size (f_attr h) (24 + zlen data) true = (ext, attr) /\ zlen (f_guid h) = 16 /\
    validate_file_old (fst (checksum_and_assemble h ext attr data))
                      (snd (checksum_and_assemble h ext attr data)) = Ok [V_F_BODYSUM].
Proof. exact old_body_check_false_alarm. Qed.
Print Assumptions C09_pinned_body_check_false_alarm_refuted.

(* ... and misses a change of the body-checksum byte of a file with the checksum attribute *)
Theorem C09_pinned_bodysum_miss_refuted :
  exists fb fb' h fbuf h' fbuf',
    file_body nvar0 (parse_section dec0 u2s0 nvar0 2) 255 fb = Ok (Some (NFile h fbuf []), 255) /\
    validate_file_old h fbuf = Ok [] /\ attr_checksum (f_attr h) = true /\
    bytes_ok fb = true /\ single_change fb 17 fb' /\
    file_body nvar0 (parse_section dec0 u2s0 nvar0 2) 255 fb' = Ok (Some (NFile h' fbuf' []), 255) /\
    validate_file_old h' fbuf' = Ok [].
Proof. exact old_bodysum_miss. Qed.
Print Assumptions C09_pinned_bodysum_miss_refuted.

(* ---------- the checksum library ---------- *)

Theorem C09_sum8_single_change : forall p x y s, 0 <= x < 256 -> 0 <= y < 256 -> x <> y ->
  sum8 (p ++ x :: s) <> sum8 (p ++ y :: s).
Proof. exact sum8_single_change. Qed.
Print Assumptions C09_sum8_single_change.

Theorem C09_sum16_single_change : forall p x y s, Z.even (zlen (p ++ x :: s)) = true ->
  0 <= x < 256 -> 0 <= y < 256 -> x <> y -> sum16 (p ++ x :: s) <> sum16 (p ++ y :: s).
Proof. exact sum16_single_change. Qed.
Print Assumptions C09_sum16_single_change.

Theorem C09_sum_fix : forall data pre post,
  (sum8 data + (0 - sum8 data) mod 256) mod 256 = 0 /\
  (Z.even (zlen pre) = true ->
   sum16 (pre ++ le_enc 2 ((0 - sum16 (pre ++ [0; 0] ++ post)) mod 65536) ++ post) = 0).
Proof. exact sum_fix. Qed.
Print Assumptions C09_sum_fix.

(* ---------- non-vacuity: a concrete volume meets the hypotheses ---------- *)

(* 72-byte header, a freeform-type file with the checksum attribute holding one raw section at 72, a second
   file without it at 104, erased space to 192 bytes *)
Definition ex_files : bytes :=
  pad8 255 (ex_file 17 2 64 [8; 0; 0; 25; 1; 2; 3; 4]) ++ pad8 255 (ex_file 34 1 0 [9; 8; 7]) ++ zrepeat 255 56.
Definition ex_vol : bytes := ex_fv_header FFS2 (72 + zlen ex_files) 327423 ++ ex_files.
Definition ex_parse (b : bytes) := parse_fv dec0 u2s0 nvar0 4 240 b 0 false.

Example ex_vol_parses_clean :
  is_ok (ex_parse ex_vol) = true /\ validate (res_node (ex_parse ex_vol)) = Ok [] /\
  length (node_kids (res_node (ex_parse ex_vol))) = 2%nat /\ bytes_ok ex_vol = true /\
  zlen ex_vol = 192 /\
  fv_hdr_extent ex_vol <= v_dataoff (node_vh (res_node (ex_parse ex_vol))) /\
  (exists fh fb fk, file_at 72 (node_kids (res_node (ex_parse ex_vol))) 0 = Some (NFile fh fb fk, 72) /\
                    attr_checksum (f_attr fh) = true /\ f_ext fh = 32 /\ file_hs fh = 24) /\
  (exists fh fb fk, file_at 72 (node_kids (res_node (ex_parse ex_vol))) 1 = Some (NFile fh fb fk, 104)).
Proof.
  split; [vm_compute; reflexivity|]. split; [vm_compute; reflexivity|].
  split; [vm_compute; reflexivity|]. split; [vm_compute; reflexivity|].
  split; [vm_compute; reflexivity|]. split; [vm_compute; discriminate|].
  split; vm_compute; do 3 eexists; repeat split; reflexivity.
Qed.

(* the conclusions, computed on this volume: one byte changed in each protected range *)
Definition ex_errors (b : bytes) : option (list Z) :=
  match ex_parse b with
  | Ok (n, _) => match validate n with Ok l => Some l | _ => None end
  | _ => None
  end.

Example ex_detections :
  ex_errors ex_vol = Some [] /\
  ex_errors (splice 45 [0] ex_vol) = Some [V_FV_CKSUM; V_FV_FREESPACE] /\   (* attributes (the erase-polarity bit) *)
  ex_errors (splice 48 [74] ex_vol) = None /\                   (* HeaderLen: files no longer parse *)
  ex_errors (splice 48 [70] ex_vol) = Some [V_FV_HDRBLOCKS; V_FV_CKSUM] /\   (* HeaderLen, still parses *)
  ex_errors (splice 60 [1] ex_vol) = Some [V_FV_CKSUM] /\        (* block map *)
  ex_errors (splice (72 + 3) [1] ex_vol) = Some [V_F_HDRSUM] /\  (* file GUID *)
  ex_errors (splice (72 + 19) [65] ex_vol) = Some [V_F_LARGE] /\ (* large attribute *)
  ex_errors (splice (72 + 17) [1] ex_vol) = Some [V_F_BODYSUM] /\   (* body-checksum byte *)
  ex_errors (splice (72 + 26) [1] ex_vol) = None /\              (* a body byte that is a section size: parse fails *)
  ex_errors (splice (72 + 29) [9] ex_vol) = Some [V_F_BODYSUM] /\   (* a body byte *)
  ex_errors (splice (104 + 17) [1] ex_vol) = Some [V_F_EMPTYSUM].
Proof. repeat split; vm_compute; reflexivity. Qed.

Example ex_single_change : single_change ex_vol (72 + 26) (splice (72 + 26) [1] ex_vol).
Proof.
  exists (zfirstn 98 ex_vol), 0, 1, (zskipn 99 ex_vol).
  repeat split; try lia; vm_compute; reflexivity.
Qed.

(* the assembler side: hypotheses of the no-false-alarm theorems are met by a concrete file *)
Example ex_no_false_alarm_file :
  let h := mkFile (zrepeat 9 16) 0 0 2 64 0 248 0 24 None in
  set_size (f_attr h) (24 + zlen [1; 2; 3]) true = (27, 64) /\ zlen (f_guid h) = 16 /\
  snd (checksum_and_assemble h 27 64 [1; 2; 3]) =
    zrepeat 9 16 ++ [19; 250; 2; 64; 27; 0; 0; 248; 1; 2; 3].
Proof. repeat split; vm_compute; reflexivity. Qed.

(* ---------------------------------------------------------------------------------------- *)
(* Kernel ties: the arithmetic kernels of pkg/uefi this property rests on, as TRANSCRIBED FROM
   THE GO SOURCE on every run (translator/Kernels.sh -> Gen/GoKernels.v), equal the functions of
   the model (Proofs/KernelTie.v).  A change of one of these Go functions breaks the lemma. *)
From Fiano Require Import Base.Bytes Base.GoInt Gen.GoKernels Proofs.KernelTie.
Local Open Scope Z_scope.

Theorem C09_kernel_Align : forall v b, go_Align v b = Ffs.align_go v b.
Proof. exact go_Align_tie. Qed.
Print Assumptions C09_kernel_Align.

Theorem C09_kernel_Align_pow2 : forall v k, 0 <= v -> 0 <= k < 64 -> v + 2 ^ k - 1 < 2 ^ 64 ->
  go_Align v (2 ^ k) = Ffs.align v (2 ^ k).
Proof. exact go_Align_pow2. Qed.
Print Assumptions C09_kernel_Align_pow2.

Theorem C09_kernel_Align4 : forall v, 0 <= v -> v + 3 < 2 ^ 64 -> go_Align4 v = Ffs.align4 v.
Proof. exact go_Align4_tie. Qed.
Print Assumptions C09_kernel_Align4.

Theorem C09_kernel_Align8 : forall v, 0 <= v -> v + 7 < 2 ^ 64 -> go_Align8 v = Ffs.align8 v.
Proof. exact go_Align8_tie. Qed.
Print Assumptions C09_kernel_Align8.

Theorem C09_kernel_Read3Size : forall a b c, 0 <= a < 256 -> 0 <= b < 256 -> 0 <= c < 256 ->
  go_Read3Size [a; b; c] = le_dec [a; b; c].
Proof. exact go_Read3Size_tie. Qed.
Print Assumptions C09_kernel_Read3Size.

Theorem C09_kernel_Write3Size : forall size, 0 <= size < 2 ^ 64 -> go_Write3Size size = le_enc 3 (Ffs.write3 size).
Proof. exact go_Write3Size_tie. Qed.
Print Assumptions C09_kernel_Write3Size.

Theorem C09_kernel_Checksum8 : forall b, go_Checksum8 b = Ffs.sum8 b.
Proof. exact go_Checksum8_tie. Qed.
Print Assumptions C09_kernel_Checksum8.

Theorem C09_kernel_Checksum16 : forall b, Z.even (zlen b) = true -> go_Checksum16 b = Ok (Ffs.sum16 b).
Proof. exact go_Checksum16_tie. Qed.
Print Assumptions C09_kernel_Checksum16.

Theorem C09_kernel_Checksum16_odd : forall b, Z.even (zlen b) = false -> go_Checksum16 b = Err 1.
Proof. exact go_Checksum16_odd. Qed.
Print Assumptions C09_kernel_Checksum16_odd.

Theorem C09_kernel_IsErased : forall buf pol, go_IsErased buf pol = forallb (fun x => x =? pol) buf.
Proof. exact go_IsErased_tie. Qed.
Print Assumptions C09_kernel_IsErased.

Theorem C09_kernel_IsLarge : forall a, go_fileAttr_IsLarge a = Ffs.attr_large a.
Proof. exact go_fileAttr_IsLarge_tie. Qed.
Print Assumptions C09_kernel_IsLarge.

Theorem C09_kernel_HasChecksum : forall a, go_fileAttr_HasChecksum a = Ffs.attr_checksum a.
Proof. exact go_fileAttr_HasChecksum_tie. Qed.
Print Assumptions C09_kernel_HasChecksum.

Theorem C09_kernel_GetAlignment : forall a, 0 <= a < 256 -> go_fileAttr_GetAlignment a = Ok (Ffs.attr_align a).
Proof. exact go_fileAttr_GetAlignment_tie. Qed.
Print Assumptions C09_kernel_GetAlignment.

Theorem C09_kernel_GetErasePolarity : forall attrs, go_FirmwareVolume_GetErasePolarity attrs = Ffs.fv_polarity attrs.
Proof. exact go_FirmwareVolume_GetErasePolarity_tie. Qed.
Print Assumptions C09_kernel_GetErasePolarity.

(* ---- format constants ----
   The models take their format constants from Gen/Consts.v, which is regenerated from /repo's
   source on every run; Spec/ConstPins.v (committed, written by bin/mkpins) pins every one of them
   to the value the specifications give it.  A constant that drifts in the Go source breaks this
   theorem instead of being silently followed by model and generator. *)
From Fiano Require Spec.ConstPins.
Theorem C09_format_constants_pinned : Spec.ConstPins.pinned_c09.
Proof. exact Spec.ConstPins.pins_c09. Qed.
Print Assumptions C09_format_constants_pinned.
