(* Properties/C01F.v — C01 for the Intel flash image entry shape: saving an unedited flash
   image (descriptor + regions, the BIOS region holding FFS volumes) reproduces it byte for byte.
   Only statements; every proof is [exact <lemma of Proofs/FlashImageProofs.v>].

   [save_flash bios_save img]   uefi.Parse + visitors.Save of a flash image, the BIOS region's
                                 NewBIOSRegion + Assemble being [bios_save] (Model/FlashImage.v)
   [flash_layout img = Ok t0]    the image has a flash layout: signature, region section inside
                                 the descriptor, valid BIOS slot, declared regions do not overlap
   [flash_bios_bytes img]        the bytes of the BIOS region
   [good_img], [sections_disjoint], [blank_zero]: as in Properties/C12.v. *)
From Fiano Require Import Base.Bytes Gen.Consts Model.TightenMe Model.FlashImage
  Proofs.TightenMeProofs Proofs.FlashImageProofs.
From Fiano Require Model.Ffs Model.FfsSpec Model.FfsGrammar.
Open Scope Z_scope.

(* the flash level alone: whatever handles the BIOS region, if it reproduces the region's
   bytes then Parse + Save reproduces the image *)
Theorem C01_flash_save_identity : forall bios_save img t0,
  good_img img -> flash_layout img = Ok t0 -> sections_disjoint t0 -> blank_zero t0 ->
  (forall B, flash_bios_bytes img = Some B -> bios_save B = Ok B) ->
  save_flash bios_save img = Ok img.
Proof. exact flash_save_identity. Qed.

Section C01F.
Variable dec : Z -> bytes -> option bytes.
Variable enc : Z -> bytes -> option bytes.
Variable u2s s2u : bytes -> bytes.
Variable nvar : bytes -> option bytes.

(* THE statement for flash images: the BIOS region is any well-formed value of the C01
   reference grammar (Model/FfsGrammar.v), handled by the UEFI model of Model/Ffs.v *)
Theorem C01_save_identity_flash : forall img t0 l trail,
  good_img img -> flash_layout img = Ok t0 -> sections_disjoint t0 -> blank_zero t0 ->
  flash_bios_bytes img = Some (FfsGrammar.emit_region l trail) ->
  FfsGrammar.wf_region u2s s2u l trail ->
  exists d0, forall d, (d0 <= d)%nat ->
    save_flash (Ffs.save_region dec enc u2s s2u nvar d) img = Ok img.
Proof. exact (flash_grammar_save_identity dec enc u2s s2u nvar). Qed.

End C01F.

Print Assumptions C01_flash_save_identity.
Print Assumptions C01_save_identity_flash.

(* ---- non-vacuity: an 8 KiB flash image = descriptor + one BIOS block holding an FFS2 volume
   with a driver file (PE32, UI, dependency expression, RAW sections) and a pad-type file ---- *)
Definition ex_id (b : bytes) : bytes := b.
Definition ex_gfile : FfsGrammar.fspec :=
  FfsGrammar.FSecs (zrepeat 17 16) 7 72 248
    [ FfsGrammar.SLeaf 16 [77; 90; 1; 2; 3]; FfsGrammar.SUi [65; 0; 66; 0; 0; 0];
      FfsGrammar.SDepex 19 [(2, Some (zrepeat 7 16)); (6, None)]; FfsGrammar.SLeaf 25 [] ].
Definition ex_gvol : FfsGrammar.vspec :=
  FfsGrammar.VSpec (zrepeat 0 16) Ffs.FFS2 327423 0 2 4 64
    [ex_gfile; FfsGrammar.FOpaque (zrepeat 255 16) 9 170 240 0 248 (zrepeat 255 8)] 40.
Definition ex_l : list (bytes * FfsGrammar.vspec) := [(zrepeat 171 16, ex_gvol)].
Definition ex_trail : bytes :=
  zrepeat 205 (4096 - zlen (FfsGrammar.emit_region ex_l [])).
Definition ex_bios : bytes := Eval vm_compute in FfsGrammar.emit_region ex_l ex_trail.

Definition ex_slots : bytes :=
  [0; 0; 1; 0] ++ (le_enc 2 1 ++ le_enc 2 1) ++ concat (repeat (le_enc 2 32767 ++ le_enc 2 0) 14).
Definition ex_flash : bytes :=
  Eval vm_compute in
  splice 16 ifd_signature (splice 20 [0; 0; 4; 0; 8; 0; 0; 0] (splice 64 ex_slots (zrepeat 255 4096)))
  ++ ex_bios.

Definition ex_layout : tree :=
  Eval vm_compute in match flash_layout ex_flash with Ok t => t | _ => mkTree [] 0 0 0 [] 0 [] [] [] 0 end.

Example ex_flash_good : good_img ex_flash.
Proof. split; [vm_compute; reflexivity|]. split; [exists 2; vm_compute; reflexivity|vm_compute; reflexivity]. Qed.

Example ex_flash_layout : flash_layout ex_flash = Ok ex_layout.
Proof. vm_compute. reflexivity. Qed.

Example ex_flash_desc : sections_disjoint ex_layout /\ blank_zero ex_layout.
Proof. split; [right; vm_compute; intros H; discriminate H|vm_compute; reflexivity]. Qed.

Example ex_flash_bios :
  match flash_bios_bytes ex_flash with
  | Some b => bytes_eqb b (FfsGrammar.emit_region ex_l ex_trail)
  | None => false
  end && FfsGrammar.wfb_region ex_id ex_id ex_l ex_trail = true.
Proof. vm_compute. reflexivity. Qed.

(* and the model really saves it to the same bytes *)
Example ex_flash_roundtrip :
  match save_flash (Ffs.save_region (fun _ _ => None) (fun _ _ => None) ex_id ex_id (fun _ => None) 5) ex_flash with
  | Ok b => bytes_eqb b ex_flash
  | _ => false
  end = true.
Proof. vm_compute. reflexivity. Qed.
