(* Properties/C10.v — AMI NVAR stores: parse/reassemble round trip, nvram-compact,
   invalidate_nvar.  Only statements; every proof is [exact <lemma>].

   [dec16]/[enc16] stand for golang.org/x/text's UTF-16LE decoder/encoder
   (transform.Bytes); the only facts used about them are the two hypotheses
   [codec_rt]/[codec_nz] on NUL-free BMP strings without surrogates.
   pol is uefi.Attributes.ErasePolarity; d is the nesting fuel (any value). *)
From Fiano Require Import Base.Bytes Gen.Consts Model.Nvar Proofs.NvarProofs Proofs.NvarCompactProofs
     Proofs.NvarReparseProofs Proofs.NvarCheckers Proofs.NvarCodecProofs Proofs.NvarInvalidateProofs
     Proofs.NvarSequenceProofs.
Open Scope Z_scope.

Definition codec_rt (dec16 enc16 : bytes -> bytes) : Prop :=
  forall u, bmp_ok u = true -> enc16 (dec16 u ++ [0]) = u ++ [0; 0].
Definition codec_nz (dec16 : bytes -> bytes) : Prop :=
  forall u, bmp_ok u = true -> match last_byte (dec16 u) with Some l => l <> 0 | None => True end.

(* NewNVarStore on the serialisation of a well-formed abstract store returns its
   meaning [interp]: entries with kind, GUID (inline or from the table), name,
   link target, data offset; the GUID table; the free-space boundaries *)
Theorem C10_parse_emit : forall dec16 enc16, codec_rt dec16 enc16 -> codec_nz dec16 ->
  forall pol s, wf_store pol s = true ->
  parse_store dec16 pol (emit pol s) = Ok (interp dec16 pol s).
Proof. exact parse_emit. Qed.
Print Assumptions C10_parse_emit.

(* ... and visitors.Assemble on that tree reproduces the bytes (and the tree) *)
Theorem C10_nvar_roundtrip : forall dec16 enc16, codec_rt dec16 enc16 -> codec_nz dec16 ->
  forall pol d s, wf_store pol s = true ->
  exists st, parse_store dec16 pol (emit pol s) = Ok st /\
             asm_store enc16 pol (S d) st = Ok st /\ s_buf st = emit pol s.
Proof. exact nvar_roundtrip. Qed.
Print Assumptions C10_nvar_roundtrip.

(* nvram-compact computes exactly [compacted]: one Full entry per chain end with
   the head's attributes/GUID/name and the end's data, GUID table in first-use
   order, erased gap, same Length *)
Theorem C10_compact_correct : forall enc16 pol d s,
  chains_ok (s_entries s) -> compact_fits enc16 pol s ->
  compact_store enc16 pol (S d) s = Ok (compacted enc16 pol s).
Proof. exact compact_correct. Qed.
Print Assumptions C10_compact_correct.

(* the clauses of the statement: same length, exactly the live variables (GUID,
   name, most recent value) in chain-end order, only Full entries, and the
   buffer is entries ++ erased gap ++ reversed GUID table *)
Theorem C10_compact_spec : forall enc16 pol d s,
  chains_ok (s_entries s) -> compact_fits enc16 pol s ->
  exists st', compact_store enc16 pol (S d) s = Ok st' /\
    s_len st' = s_len s /\ zlen (s_buf st') = s_len s /\
    live st' = live s /\
    map triple (s_entries st') = live s /\
    Forall full_tail (s_entries st') /\
    s_buf st' = concat (map v_buf (s_entries st')) ++
                zrepeat pol (s_goff st' - s_free st') ++ concat (rev (s_guids st')).
Proof. exact compact_spec. Qed.
Print Assumptions C10_compact_spec.

(* invalidating a variable by name, then compacting: exactly the live variables
   with another name remain (all versions of the named one are gone) *)
Theorem C10_invalidate_then_compact : forall enc16 pol d n s,
  chains_ok (s_entries s) -> compact_fits enc16 pol s ->
  exists st', compact_store enc16 pol (S d) (invalidate n s) = Ok st' /\
    s_len st' = s_len s /\
    live st' = filter (fun t => negb (bytes_eqb (snd (fst t)) n)) (live s) /\
    Forall full_tail (s_entries st').
Proof. exact invalidate_then_compact_full. Qed.
Print Assumptions C10_invalidate_then_compact.

(* the compacted bytes re-parse to that same set: same live variables, only Full
   entries, same Length and GUID table *)
Theorem C10_compact_reparse : forall dec16 enc16, codec_rt dec16 enc16 -> codec_nz dec16 ->
  forall pol s, chains_ok (s_entries s) -> compact_fits enc16 pol s -> reparse_ok dec16 enc16 pol s ->
  exists st2, parse_store dec16 pol (s_buf (compacted enc16 pol s)) = Ok st2 /\
    live st2 = live s /\ Forall full_tail (s_entries st2) /\
    s_len st2 = s_len s /\ s_guids st2 = s_guids (compacted enc16 pol s) /\
    s_buf st2 = s_buf (compacted enc16 pol s).
Proof. exact compact_reparse. Qed.
Print Assumptions C10_compact_reparse.

(* compacting the re-parsed compacted store gives the same bytes again *)
Theorem C10_compact_idempotent : forall dec16 enc16, codec_rt dec16 enc16 -> codec_nz dec16 ->
  forall pol d s, chains_ok (s_entries s) -> compact_fits enc16 pol s -> reparse_ok dec16 enc16 pol s ->
  exists st2, parse_store dec16 pol (s_buf (compacted enc16 pol s)) = Ok st2 /\
    compact_store enc16 pol (S d) st2 = Ok (compacted enc16 pol st2) /\
    s_buf (compacted enc16 pol st2) = s_buf (compacted enc16 pol s).
Proof. exact compact_idempotent. Qed.
Print Assumptions C10_compact_idempotent.

(* ---- sequences of visitors on ONE in-memory tree (no re-parse in between) ---- *)

(* the tree compaction returns (entries with their new offsets, table, buffer) is
   a fixed point of compaction, as a tree *)
Theorem C10_compacted_idem : forall enc16 pol t,
  chains_ok (s_entries t) ->
  compacted enc16 pol (compacted enc16 pol t) = compacted enc16 pol t.
Proof. exact compacted_idem. Qed.
Print Assumptions C10_compacted_idem.

(* any command line over nvram-compact / invalidate_nvar n / Assemble runs to the
   end on a tree satisfying [seq_inv] (chains_ok, compact_fits, Assemble is the
   identity on it), keeps [seq_inv] and Length, and its live set is the original
   one minus the invalidated names: invalidate marks, compact sweeps *)
Theorem C10_sequence : forall enc16 pol d ops t, seq_inv enc16 pol t ->
  exists t', run_ops enc16 pol (S d) ops t = Ok t' /\ seq_inv enc16 pol t' /\
             s_len t' = s_len t /\ live t' = live_after ops (live t).
Proof. exact run_ops_spec. Qed.
Print Assumptions C10_sequence.

(* ... and after a final compaction the tree holds exactly that live set, one Full
   entry per variable with its own GUID and name, in order; saving or compacting
   it again changes nothing *)
Theorem C10_sequence_compacted : forall enc16 pol d ops t, seq_inv enc16 pol t ->
  exists t0 t', run_ops enc16 pol (S d) ops t = Ok t0 /\
    run_ops enc16 pol (S d) (ops ++ [OpCompact]) t = Ok t' /\
    t' = compacted enc16 pol t0 /\ seq_inv enc16 pol t0 /\
    map triple (s_entries t') = live_after ops (live t) /\ Forall full_tail (s_entries t') /\
    zlen (s_buf t') = s_len t /\
    asm_store enc16 pol (S d) t' = Ok t' /\
    compact_store enc16 pol (S d) t' = Ok t'.
Proof. exact run_ops_compacted. Qed.
Print Assumptions C10_sequence_compacted.

(* the parse of a well-formed store is a valid starting tree, and the bytes saved
   after [ops; nvram-compact] re-parse to the live variables not invalidated *)
Theorem C10_sequence_start : forall dec16 enc16, codec_rt dec16 enc16 ->
  forall pol s, wf_store pol s = true ->
  chains_ok (s_entries (interp dec16 pol s)) -> compact_fits enc16 pol (interp dec16 pol s) ->
  seq_inv enc16 pol (interp dec16 pol s).
Proof. exact seq_inv_parsed. Qed.
Print Assumptions C10_sequence_start.

Theorem C10_sequence_reparse : forall dec16 enc16, codec_rt dec16 enc16 -> codec_nz dec16 ->
  forall pol d ops t, seq_inv enc16 pol t ->
  exists t0 t', run_ops enc16 pol (S d) ops t = Ok t0 /\
    run_ops enc16 pol (S d) (ops ++ [OpCompact; OpAssemble]) t = Ok t' /\
    zlen (s_buf t') = s_len t /\
    (reparse_ok dec16 enc16 pol t0 ->
     exists st2, parse_store dec16 pol (s_buf t') = Ok st2 /\
                 live st2 = live_after ops (live t) /\ Forall full_tail (s_entries st2)).
Proof. exact run_ops_reparse. Qed.
Print Assumptions C10_sequence_reparse.

(* the side conditions are decidable on a concrete parsed store *)
Theorem C10_side_conditions_decidable : forall dec16 enc16 pol s,
  (chains_okb (s_entries s) = true -> chains_ok (s_entries s)) /\
  (compact_fitsb enc16 pol s = true -> compact_fits enc16 pol s) /\
  (reparse_okb dec16 enc16 pol s = true -> reparse_ok dec16 enc16 pol s).
Proof.
  exact (fun dec16 enc16 pol s =>
           conj (chains_okb_sound (s_entries s))
                (conj (compact_fitsb_sound enc16 pol s) (reparse_okb_sound dec16 enc16 pol s))).
Qed.
Print Assumptions C10_side_conditions_decidable.

(* the transcription of golang.org/x/text's UTF-16 transformer that the
   correspondence run compares with the real one satisfies both hypotheses *)
Theorem C10_codec_impl : codec_rt dec16_impl enc16_impl /\ codec_nz dec16_impl.
Proof. exact (conj codec_rt_impl codec_nz_impl). Qed.
Print Assumptions C10_codec_impl.

(* ---- the concrete transformer satisfies what the examples need; examples ---- *)

Definition g1 : bytes := [1;2;3;4;5;6;7;8;9;10;11;12;13;14;15;16].
Definition g2 : bytes := [33;34;35;36;37;38;39;40;41;42;43;44;45;46;47;48].
Definition g3 : bytes := [65;66;67;68;69;70;71;72;73;74;75;76;77;78;79;80].

(* "Setup" linked to a newer value, a dead entry, a UCS-2 "Boot" with an inline
   GUID, an entry with an extended header, a second indexed entry; 2 table GUIDs *)
Definition ex_store : astore :=
  mkAStore
    [ AFull 131 34 (GIndex 1) (NAscii [83;101;116;117;112]) [1;2;3];
      ADead 6 16777215 [9;9;9;9];
      AData 136 16777215 [170;187];
      AFull 132 16777215 (GInline g3) (NUcs2 [66;0;111;0;111;0;116;0]) [7];
      AFull 150 16777215 (GInline g3) (NAscii [100;98]) [170; 0; 1;2;3;4;5;6;7;8; 11;0];
      AFull 130 16777215 (GIndex 0) (NAscii [65]) [] ]
    7 [g1; g2].

Example ex_wf : wf_store 255 ex_store = true.
Proof. vm_compute. reflexivity. Qed.

Example ex_parse : parse_store dec16_impl 255 (emit 255 ex_store) = Ok (interp dec16_impl 255 ex_store).
Proof. vm_compute. reflexivity. Qed.

Example ex_roundtrip :
  (do st <- parse_store dec16_impl 255 (emit 255 ex_store); do st' <- asm_store enc16_impl 255 3 st; Ok (s_buf st'))
  = Ok (emit 255 ex_store).
Proof. vm_compute. reflexivity. Qed.

(* the parsed tree has a 2-entry chain (Link -> Data), a dead entry and 3 full entries *)
Example ex_types :
  map v_type (s_entries (interp dec16_impl 255 ex_store)) = [2; 0; 3; 4; 4; 4] /\
  live (interp dec16_impl 255 ex_store) =
    [ (g2, [83;101;116;117;112], [170;187]); (g3, [66;111;111;116], [7]);
      (g3, [100;98], [170; 0; 1;2;3;4;5;6;7;8; 11;0]); (g1, [65], []) ].
Proof. vm_compute. split; reflexivity. Qed.

(* ---- the code as it is in the pinned tree (fx = false) violates the property ---- *)

(* Size = 0: NewNVarStore never advances *)
Theorem C10_asis_size0_hang_refuted : exists b,
  parse_store_gen dec16_impl false 255 b = Fuel.
Proof. exists [78;86;65;82; 0;0; 255;255;255; 4; 255;255]. vm_compute. reflexivity. Qed.
Print Assumptions C10_asis_size0_hang_refuted.

(* Size in 1..9: slice bounds out of range *)
Theorem C10_asis_small_size_panic_refuted : exists b,
  is_panic (parse_store_gen dec16_impl false 255 b) = true.
Proof. exists [78;86;65;82; 5;0; 255;255;255; 132; 255;255]. vm_compute. reflexivity. Qed.
Print Assumptions C10_asis_small_size_panic_refuted.

(* an empty UCS-2 name: index -1 in UCS2ToUTF8 *)
Theorem C10_asis_empty_ucs2_panic_refuted : exists s, wf_store 255 s = true /\
  is_panic (parse_store_gen dec16_impl false 255 (emit 255 s)) = true.
Proof.
  exists (mkAStore [AFull 132 16777215 (GInline g1) (NUcs2 []) [1]] 3 []).
  vm_compute. split; reflexivity.
Qed.
Print Assumptions C10_asis_empty_ucs2_panic_refuted.

(* a UCS-2 name ending in a character below U+0100 ("A"): the terminator search is
   off by one byte, the name comes back as U+FFFD and reassembly fails *)
Theorem C10_asis_ucs2_roundtrip_refuted : exists s, wf_store 255 s = true /\
  (do st <- parse_store_gen dec16_impl false 255 (emit 255 s); asm_store enc16_impl 255 3 st) = Err E_DATAOFF.
Proof.
  exists (mkAStore [AFull 132 16777215 (GInline g1) (NUcs2 [65; 0]) [1; 2; 3]] 3 []).
  vm_compute. split; reflexivity.
Qed.
Print Assumptions C10_asis_ucs2_roundtrip_refuted.

(* ---- every clause of wf_store is needed (repaired code) ---- *)

Definition rt (pol : Z) (s : astore) : outcome bytes :=
  do st <- parse_store dec16_impl pol (emit pol s); do st' <- asm_store enc16_impl pol 3 st; Ok (s_buf st').

(* first entry linking to itself at offset 0: Next is rewritten as erased *)
Theorem C10_wf_first_next_needed_refuted : exists s o,
  wf_store 255 s = false /\ rt 255 s = Ok o /\ o <> emit 255 s.
Proof.
  exists (mkAStore [AFull 134 0 (GInline g1) (NAscii [65]) [1]] 2 []). eexists.
  split; [vm_compute; reflexivity|]. split; [vm_compute; reflexivity|]. vm_compute. discriminate.
Qed.
Print Assumptions C10_wf_first_next_needed_refuted.

(* a table GUID nobody references is taken for an entry: parse error *)
Theorem C10_wf_table_discovered_needed_refuted : exists s e, rt 255 s = Err e.
Proof.
  exists (mkAStore [AFull 134 16777215 (GInline g1) (NAscii [65]) [1]] 2 [g2]). eexists.
  vm_compute. reflexivity.
Qed.
Print Assumptions C10_wf_table_discovered_needed_refuted.

(* a lone surrogate in a UCS-2 name comes back as U+FFFD *)
Theorem C10_wf_name_needed_refuted : exists s o, rt 255 s = Ok o /\ o <> emit 255 s.
Proof.
  exists (mkAStore [AFull 132 16777215 (GInline g1) (NUcs2 [0; 216]) [1]] 2 []). eexists.
  split; [vm_compute; reflexivity|]. vm_compute. discriminate.
Qed.
Print Assumptions C10_wf_name_needed_refuted.

(* content that is itself a store whose only entry runs into its GUID table:
   reassembling the nested store fails ("NVAR store too small"; before the repair
   897782a of the Go code this was a makeslice panic), so the outer store is not
   reassembled either *)
Theorem C10_wf_no_nested_needed_refuted : exists s, rt 255 s = Err E_FIT.
Proof.
  exists (mkAStore [AFull 134 16777215 (GInline g1) (NAscii [65])
                      ([78;86;65;82; 13;0; 255;255;255; 130; 0; 65;0] ++ [1;2;3;4;5;6;7])] 2 []).
  vm_compute. reflexivity.
Qed.
Print Assumptions C10_wf_no_nested_needed_refuted.

(* ---- compaction on the example; every side condition is needed ---- *)

Definition ex_parsed : nstore := interp dec16_impl 255 ex_store.

Example ex_side_conditions :
  chains_okb (s_entries ex_parsed) = true /\ compact_fitsb enc16_impl 255 ex_parsed = true /\
  reparse_okb dec16_impl enc16_impl 255 ex_parsed = true.
Proof. vm_compute. repeat split; reflexivity. Qed.

(* 4 live variables out of 6 entries; the table is rebuilt in first-use order (g2 before g1) *)
Example ex_compact :
  (do st <- compact_store enc16_impl 255 3 ex_parsed;
   Ok (zlen (s_buf st), s_guids st, map v_type (s_entries st), live st)) =
  Ok (zlen (emit 255 ex_store), [g2; g1], [4; 4; 4; 4], live ex_parsed).
Proof. vm_compute. reflexivity. Qed.

Example ex_invalidate_compact :
  (do st <- compact_store enc16_impl 255 3 (invalidate [83;101;116;117;112] ex_parsed); Ok (live st)) =
  Ok [ (g3, [66;111;111;116], [7]); (g3, [100;98], [170; 0; 1;2;3;4;5;6;7;8; 11;0]); (g1, [65], []) ].
Proof. vm_compute. reflexivity. Qed.

Definition recompact (pol : Z) (s : astore) : outcome (list (bytes * bytes * bytes) * list (bytes * bytes * bytes)) :=
  do st <- parse_store dec16_impl pol (emit pol s);
  do st' <- compact_store enc16_impl pol 3 st;
  do st2 <- parse_store dec16_impl pol (s_buf st');
  Ok (live st, live st2).

(* chains_ok, link agreement: two entries linking to the same data-only entry;
   the parser names it after the first, compaction after the last *)
Theorem C10_chain_link_needed_refuted : exists s a b,
  wf_store 255 s = true /\ recompact 255 s = Ok (a, b) /\ a <> b.
Proof.
  exists (mkAStore [ AFull 134 58 (GInline g1) (NAscii [65]) [1];
                     AFull 134 29 (GInline g2) (NAscii [66]) [2];
                     AData 136 16777215 [3] ] 4 []).
  do 2 eexists. split; [vm_compute; reflexivity|]. split; [vm_compute; reflexivity|].
  vm_compute. discriminate.
Qed.
Print Assumptions C10_chain_link_needed_refuted.

(* reparse_ok, extended header: the head has the ExtHeader attribute, the newest
   data-only entry does not; the rebuilt entry's extended header is garbage and
   the variable is lost on re-parse *)
Theorem C10_ext_agreement_needed_refuted : exists s a b,
  wf_store 255 s = true /\ recompact 255 s = Ok (a, b) /\ a <> b.
Proof.
  exists (mkAStore [ AFull 150 40 (GInline g1) (NAscii [65]) [7; 0; 1;2;3;4;5;6;7;8; 11;0];
                     AData 136 16777215 [3; 200; 200] ] 4 []).
  do 2 eexists. split; [vm_compute; reflexivity|]. split; [vm_compute; reflexivity|].
  vm_compute. discriminate.
Qed.
Print Assumptions C10_ext_agreement_needed_refuted.

(* compact_fits, room for the table: an index beyond the table reads as the zero
   GUID, which compaction then adds to a table that has no room: nvram-compact
   fails with "NVAR store too small" (a makeslice panic before the repair 897782a) *)
Theorem C10_fits_needed_refuted : exists s,
  (do st <- parse_store dec16_impl 255 (emit 255 s); compact_store enc16_impl 255 3 st) = Err E_FIT.
Proof.
  exists (mkAStore [ AFull 130 16777215 (GIndex 3) (NAscii [65]) [1] ] 0 []).
  vm_compute. reflexivity.
Qed.
Print Assumptions C10_fits_needed_refuted.

(* compact_fits, rebuilt entry below 2^16 bytes: a 40 kB name plus a 30 kB newest
   value; Size wraps in the rebuilt header and the compacted store no longer parses *)
Definition reparses (pol : Z) (s : astore) : outcome bool :=
  do st <- parse_store dec16_impl pol (emit pol s);
  do st' <- compact_store enc16_impl pol 3 st;
  Ok (is_ok (parse_store dec16_impl pol (s_buf st'))).

Theorem C10_fits_size_needed_refuted : exists s, wf_store 255 s = true /\ reparses 255 s = Ok false.
Proof.
  exists (mkAStore [ AFull 134 40028 (GInline g1) (NAscii (zrepeat 65 40000)) [1];
                     AData 136 16777215 (zrepeat 7 30000) ] 4 []).
  split; vm_compute; reflexivity.
Qed.
Print Assumptions C10_fits_size_needed_refuted.

(* compact_fits, at most 255 table GUIDs: 255 indexed GUIDs plus the zero GUID an
   out-of-range index reads as make 256; index 255 never resolves (the parser's
   uint8 i+1 wraps), the 256th GUID stays undiscovered and the compacted store
   does not parse *)
Theorem C10_fits_table_needed_refuted : exists s, reparses 255 s = Ok false.
Proof.
  exists (mkAStore (AFull 130 16777215 (GIndex 255) (NAscii [90]) [0] ::
                    map (fun j => AFull 130 16777215 (GIndex (Z.of_nat j)) (NAscii [65]) [Z.of_nat j]) (seq 0 255))
                   32 (map (fun j => Z.of_nat (j + 1) :: zrepeat 0 15) (seq 0 255))).
  vm_compute. reflexivity.
Qed.
Print Assumptions C10_fits_table_needed_refuted.

(* ---- the whole statement read on bytes, for the transcribed transformer: no
   hypothesis about UTF-16 is left ---- *)
Theorem C10_bytes_pipeline : forall pol d s,
  wf_store pol s = true ->
  let st := interp dec16_impl pol s in
  chains_ok (s_entries st) -> compact_fits enc16_impl pol st -> reparse_ok dec16_impl enc16_impl pol st ->
  parse_store dec16_impl pol (emit pol s) = Ok st /\
  exists st' st2,
    compact_store enc16_impl pol (S d) st = Ok st' /\
    zlen (s_buf st') = zlen (emit pol s) /\
    parse_store dec16_impl pol (s_buf st') = Ok st2 /\
    live st2 = live st /\ Forall full_tail (s_entries st2) /\
    exists st3, compact_store enc16_impl pol (S d) st2 = Ok st3 /\ s_buf st3 = s_buf st'.
Proof. exact (bytes_pipeline dec16_impl enc16_impl codec_rt_impl codec_nz_impl). Qed.
Print Assumptions C10_bytes_pipeline.

(* its hypotheses hold on the example *)
Example ex_pipeline_hyps :
  wf_store 255 ex_store = true /\ chains_ok (s_entries ex_parsed) /\
  compact_fits enc16_impl 255 ex_parsed /\ reparse_ok dec16_impl enc16_impl 255 ex_parsed.
Proof.
  split; [vm_compute; reflexivity|].
  split; [apply chains_okb_sound; vm_compute; reflexivity|].
  split; [apply compact_fitsb_sound; vm_compute; reflexivity|].
  apply reparse_okb_sound; vm_compute; reflexivity.
Qed.

(* ---- a command line on the example: compact, invalidate "Setup", compact, compact ---- *)
Example ex_seq_inv : seq_inv enc16_impl 255 ex_parsed.
Proof.
  apply (seq_inv_parsed dec16_impl enc16_impl codec_rt_impl 255 ex_store).
  - vm_compute; reflexivity.
  - apply chains_okb_sound; vm_compute; reflexivity.
  - apply compact_fitsb_sound; vm_compute; reflexivity.
Qed.

Example ex_sequence :
  (do st <- run_ops enc16_impl 255 3 [OpCompact; OpInvalidate [83;101;116;117;112]; OpCompact; OpCompact; OpAssemble]
                    ex_parsed;
   do st2 <- parse_store dec16_impl 255 (s_buf st);
   Ok (live st, live st2, map v_off (s_entries st))) =
  Ok (live_after [OpInvalidate [83;101;116;117;112]] (live ex_parsed),
      live_after [OpInvalidate [83;101;116;117;112]] (live ex_parsed), [0; 37; 78]).
Proof. vm_compute. reflexivity. Qed.

(* ---- stores with deleted chains are inside the theorems' domain ----
   A deleted variable whose later versions are still there ("Gone": valid bit of the
   first entry cleared, two data-only entries behind it, the first still linking to
   the second), a live variable in between, and an entry with a broken extended
   header carrying GUID index 3 although the table holds one GUID.  None of the
   deleted entries is live (a link counts only when it comes from a valid entry) and
   the index of the invalid entry does not make the table longer. *)
Definition ex_dead_store : astore :=
  mkAStore
    [ ADead 6 32 (g3 ++ [71;111;110;101;0] ++ [1]);
      AData 136 30 [2;2];
      AFull 130 16777215 (GIndex 0) (NAscii [75;101;101;112]) [171;205];
      AData 136 16777215 [3;3;3];
      AFull 146 16777215 (GIndex 3) (NAscii [66;97;100]) [1;255;127] ]
    7 [g1].

Definition ex_dead_parsed : nstore := interp dec16_impl 255 ex_dead_store.

Example ex_dead_hyps :
  wf_store 255 ex_dead_store = true /\ chains_ok (s_entries ex_dead_parsed) /\
  compact_fits enc16_impl 255 ex_dead_parsed /\ reparse_ok dec16_impl enc16_impl 255 ex_dead_parsed.
Proof.
  split; [vm_compute; reflexivity|].
  split; [apply chains_okb_sound; vm_compute; reflexivity|].
  split; [apply compact_fitsb_sound; vm_compute; reflexivity|].
  apply reparse_okb_sound; vm_compute; reflexivity.
Qed.

(* Invalid, Invalid link (with its next offset kept), Full, Invalid link, Invalid; one table GUID; one live variable *)
Example ex_dead_types :
  parse_store dec16_impl 255 (emit 255 ex_dead_store) = Ok ex_dead_parsed /\
  map v_type (s_entries ex_dead_parsed) = [0; 1; 4; 1; 0] /\
  map v_nextoff (s_entries ex_dead_parsed) = [0; 62; 0; 0; 0] /\
  s_guids ex_dead_parsed = [g1] /\
  live ex_dead_parsed = [ (g1, [75;101;101;112], [171;205]) ].
Proof. vm_compute. repeat split; reflexivity. Qed.

Example ex_dead_roundtrip :
  (do st <- parse_store dec16_impl 255 (emit 255 ex_dead_store); do st' <- asm_store enc16_impl 255 3 st; Ok (s_buf st'))
  = Ok (emit 255 ex_dead_store).
Proof. vm_compute. reflexivity. Qed.

Example ex_dead_compact :
  recompact 255 ex_dead_store =
  Ok ([ (g1, [75;101;101;112], [171;205]) ], [ (g1, [75;101;101;112], [171;205]) ]) /\
  (do st <- compact_store enc16_impl 255 3 ex_dead_parsed;
   Ok (zlen (s_buf st), s_guids st, map v_type (s_entries st))) =
  Ok (zlen (emit 255 ex_dead_store), [g1], [4]).
Proof. vm_compute. split; reflexivity. Qed.

(* ---------------------------------------------------------------------------------------- *)
(* Kernel ties: the small pure helpers of pkg/uefi/nvram.go, as TRANSCRIBED FROM THE GO SOURCE on every run
   (translator/Kernels.sh -> Gen/GoKernels.v), equal the functions of the model (Proofs/KernelTieNvar.v).
   A change of one of these Go functions breaks the lemma. *)
From Fiano Require Import Base.Bytes Base.GoInt Gen.GoKernels Proofs.KernelTieNvar.
Local Open Scope Z_scope.

Theorem C10_kernel_NVarAttribute_IsValid :
  forall a, go_NVarAttribute_IsValid a = Nvar.ATTR a nvar_attr_valid.
Proof. exact go_NVarAttribute_IsValid_tie. Qed.
Print Assumptions C10_kernel_NVarAttribute_IsValid.

Theorem C10_kernel_NVar_IsValid :
  forall t, go_NVar_IsValid t = Nvar.is_valid_type t.
Proof. exact go_NVar_IsValid_tie. Qed.
Print Assumptions C10_kernel_NVar_IsValid.

Theorem C10_kernel_Read3Size :
  forall a b c, 0 <= a < 256 -> 0 <= b < 256 -> 0 <= c < 256 ->
  go_Read3Size [a; b; c] = le_dec [a; b; c].
Proof. exact go_Read3Size_nvar_tie. Qed.
Print Assumptions C10_kernel_Read3Size.


(* ---- format constants ----
   The models take their format constants from Gen/Consts.v, which is regenerated from /repo's
   source on every run; Spec/ConstPins.v (committed, written by bin/mkpins) pins every one of them
   to the value the specifications give it.  A constant that drifts in the Go source breaks this
   theorem instead of being silently followed by model and generator. *)
From Fiano Require Spec.ConstPins.
Theorem C10_format_constants_pinned : Spec.ConstPins.pinned_c10.
Proof. exact Spec.ConstPins.pins_c10. Qed.
Print Assumptions C10_format_constants_pinned.
