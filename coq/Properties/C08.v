(* Properties/C08.v — every compression codec is lossless and emits the
   documented framing.  Only statements; every proof is [exact <lemma>].
   The compression cores (compress/zlib, ulikunitz/xz/lzma, the xz program,
   pierrec/lz4) are quantified function variables with the stated hypotheses;
   the x86 branch filter is proved outright. *)
From Fiano Require Import Base.Bytes Gen.Consts Model.Bcj Model.Framing
  Proofs.BcjProofs Proofs.FramingProofs.
Open Scope Z_scope.

(* ---- the x86 branch filter (x86Convert), no oracle ---- *)

(* decode is the exact inverse of encode on every input, as LZMAX86 uses it (ip 0, state 0) *)
Theorem C08_x86_roundtrip : forall d, bytes_ok d = true -> x86 false (x86 true d) = d.
Proof. exact x86_roundtrip. Qed.
Print Assumptions C08_x86_roundtrip.

(* the same for every instruction-pointer base and every initial state word *)
Theorem C08_x86_convert_roundtrip : forall ip st d e s1 r1, bytes_ok d = true ->
  x86_convert true ip st d = Ok (e, s1, r1) ->
  exists s2 r2, x86_convert false ip st e = Ok (d, s2, r2).
Proof. exact x86_convert_roundtrip. Qed.
Print Assumptions C08_x86_convert_roundtrip.

(* x86Convert never indexes out of range, always terminates, and keeps the length *)
Theorem C08_x86_convert_total : forall enc ip st data, exists d st' ret,
  x86_convert enc ip st data = Ok (d, st', ret) /\ zlen d = zlen data.
Proof. exact x86_convert_total. Qed.
Print Assumptions C08_x86_convert_total.

(* inputs shorter than five bytes are returned unchanged *)
Theorem C08_x86_short : forall enc d, zlen d < 5 -> x86 enc d = d.
Proof. exact x86_short. Qed.
Print Assumptions C08_x86_short.

(* the filter's output is again a byte string *)
Theorem C08_x86_bytes : forall enc d, bytes_ok d = true -> bytes_ok (x86 enc d) = true.
Proof. exact x86_bytes_ok. Qed.
Print Assumptions C08_x86_bytes.

(* one operand: decoding the four bytes the encoder stored gives the original four,
   for every address [cur] and every mask with which an operand can be converted *)
Theorem C08_x86_window_inverse : forall cur mask b1 b2 b3 b4,
  isbyte b1 -> isbyte b2 -> isbyte b3 -> isbyte b4 -> test86 b4 = true ->
  mask_conv mask ->
  (mask <> 0 -> test86 (prot mask b1 b2 b3) = false) ->
  let '(c1, c2, c3, c4) := conv true cur mask b1 b2 b3 b4 in
  conv false cur mask c1 c2 c3 c4 = (b1, b2, b3, b4).
Proof. exact conv_inverse. Qed.
Print Assumptions C08_x86_window_inverse.

(* ---- ZLIB section framing around compress/zlib ---- *)

Theorem C08_zlib_frame_roundtrip : forall (zl_enc : bytes -> bytes) (zl_dec : bytes -> outcome bytes) x,
  zl_dec (zl_enc x) = Ok x ->
  bind (zlib_encode zl_enc x) (zlib_decode zl_dec) = Ok x.
Proof. exact zlib_frame_roundtrip_l. Qed.
Print Assumptions C08_zlib_frame_roundtrip.

(* 256-byte header, compressed size little endian at offset 20, every other header byte zero *)
Theorem C08_zlib_frame_header : forall (zl_enc : bytes -> bytes) x,
  exists h, zlib_encode zl_enc x = Ok (h ++ zl_enc x) /\ zlen h = zlib_header_size /\
    rd zlib_size_offset 4 h = zlen (zl_enc x) mod 2^32 /\
    (forall i, 0 <= i < zlib_header_size ->
       ~ (zlib_size_offset <= i < zlib_size_offset + 4) -> index i h = Some 0).
Proof. exact zlib_frame_header_l. Qed.
Print Assumptions C08_zlib_frame_header.

(* Decode refuses input without a full header or whose length is not header + recorded size *)
Theorem C08_zlib_decode_rejects : forall (zl_dec : bytes -> outcome bytes) e,
  (zlen e < zlib_header_size -> zlib_decode zl_dec e = Err E_ZLIB_NOHEADER) /\
  (zlib_header_size <= zlen e ->
     rd zlib_size_offset 4 e <> (zlen e - zlib_header_size) mod 2^32 ->
     zlib_decode zl_dec e = Err E_ZLIB_SIZE).
Proof. exact zlib_decode_rejects_l. Qed.
Print Assumptions C08_zlib_decode_rejects.

(* ---- LZMA headers: the uncompressed size at bytes 5..12 is written by fiano ---- *)

Theorem C08_lzma_header : forall (lz_run : bool -> bytes -> outcome bytes) x e,
  lz_run (zlen x =? 0) x = Ok e -> lzma_header_len <= zlen e -> zlen x < 2^64 ->
  exists e', lzma_encode lz_run x = Ok e' /\ zlen e' = zlen e /\
    rd lzma_size_off 8 e' = zlen x /\
    (forall i, (Z.of_nat i < lzma_size_off \/ lzma_header_len <= Z.of_nat i) ->
       nth_error e' i = nth_error e i).
Proof. exact lzma_header_l. Qed.
Print Assumptions C08_lzma_header.

Theorem C08_syslzma_header : forall (xz_run : bytes -> outcome bytes) x e,
  xz_run x = Ok e -> lzma_header_len <= zlen e -> zlen x < 2^64 ->
  exists e', syslzma_encode xz_run x = Ok e' /\ zlen e' = zlen e /\
    rd lzma_size_off 8 e' = zlen x /\
    (forall i, (Z.of_nat i < lzma_size_off \/ lzma_header_len <= Z.of_nat i) ->
       nth_error e' i = nth_error e i).
Proof. exact syslzma_header_l. Qed.
Print Assumptions C08_syslzma_header.

(* ---- LZMAX86: lossless whenever the inner compressor is ---- *)

Theorem C08_lzmax86_roundtrip : forall (c_enc c_dec : bytes -> outcome bytes) x,
  bytes_ok x = true ->
  (forall y, bytes_ok y = true -> bind (c_enc y) c_dec = Ok y) ->
  bind (lzmax86_encode c_enc x) (lzmax86_decode c_dec) = Ok x.
Proof. exact lzmax86_roundtrip_l. Qed.
Print Assumptions C08_lzmax86_roundtrip.

(* The size field of the FILTERED codec.  LZMAX86.Encode gives the filtered copy to the inner
   encoder, so the inner encoder's size field speaks of the filtered bytes; the filter keeps the
   length, hence the 13-byte header of LZMAX86 output carries the length of the original input.
   General form (any inner encoder that writes the length of what it is given), then the two
   configurations CompressorFromGUID builds: the Go encoder and the xz program. *)
Theorem C08_lzmax86_header : forall (c_enc : bytes -> outcome bytes) x e,
  (forall y r, zlen y = zlen x -> c_enc y = Ok r ->
     lzma_header_len <= zlen r /\ rd lzma_size_off 8 r = zlen y) ->
  lzmax86_encode c_enc x = Ok e ->
  lzma_header_len <= zlen e /\ rd lzma_size_off 8 e = zlen x.
Proof. exact lzmax86_header_l. Qed.
Print Assumptions C08_lzmax86_header.

Theorem C08_lzmax86_lzma_header : forall (lz_run : bool -> bytes -> outcome bytes) x e,
  zlen x < 2^64 -> lzmax86_encode (lzma_encode lz_run) x = Ok e ->
  lzma_header_len <= zlen e /\ rd lzma_size_off 8 e = zlen x.
Proof. exact lzmax86_lzma_header_l. Qed.
Print Assumptions C08_lzmax86_lzma_header.

Theorem C08_lzmax86_syslzma_header : forall (xz_run : bytes -> outcome bytes) x e,
  zlen x < 2^64 -> lzmax86_encode (syslzma_encode xz_run) x = Ok e ->
  lzma_header_len <= zlen e /\ rd lzma_size_off 8 e = zlen x.
Proof. exact lzmax86_syslzma_header_l. Qed.
Print Assumptions C08_lzmax86_syslzma_header.

(* ---- histories of calls ---- *)

(* In the model every Encode/Decode is a function of its argument: in any history of
   calls whose results are all retained, result i is that function of argument i,
   whatever was encoded before or after it.  (True by construction of the pure model;
   the executor checks the same of the Go code, where it is not automatic: p_seq and
   the *seq correspondence ops.) *)
Theorem C08_history_independent : forall (f : bytes -> outcome bytes) xs ys i x,
  nth_error xs i = Some x -> nth_error ys i = Some x ->
  length (call_history f xs) = length xs /\
  nth_error (call_history f xs) i = nth_error (call_history f ys) i.
Proof. exact (@call_history_independent bytes (outcome bytes)). Qed.
Print Assumptions C08_history_independent.

(* ---- non-vacuity ---- *)

(* a buffer that drives every branch of the filter: converted calls, a jump whose
   operand's high byte is neither 00 nor FF, adjacent opcodes (two- and three-bit
   masks), an opcode inside a pending operand (the [sh] step), trailing bytes *)
Definition ex_code : bytes :=
  [232; 1; 2; 3; 0;  233; 16; 0; 0; 255;  232; 232; 0; 0; 0; 0;  144; 232; 5; 232; 232; 232;
   0; 255; 0; 255; 255; 0; 233; 232; 255; 255; 255; 255; 0; 0; 0; 232; 0; 0; 0].

Example ex_code_ok : bytes_ok ex_code = true.
Proof. vm_compute. reflexivity. Qed.

(* the value computed by the real x86Convert for the first 17 bytes (fixes/HOOK-x86convert.diff) *)
Example ex_matches_go :
  x86 true [232; 1; 2; 3; 0; 232; 0; 0; 0; 255; 232; 232; 0; 0; 0; 0; 9] =
  [232; 6; 2; 3; 0; 232; 10; 0; 0; 255; 232; 247; 0; 0; 0; 0; 9].
Proof. vm_compute. reflexivity. Qed.

Example ex_filter_changes_and_restores :
  x86 true ex_code <> ex_code /\ x86 false (x86 true ex_code) = ex_code.
Proof. split; [vm_compute; discriminate | vm_compute; reflexivity]. Qed.

(* the identity "codec" meets every oracle hypothesis used above *)
Example ex_zlib_oracle :
  bind (zlib_encode (fun x => x) ex_code) (zlib_decode (fun e => Ok e)) = Ok ex_code.
Proof. vm_compute. reflexivity. Qed.

Example ex_lzmax86_oracle :
  bind (lzmax86_encode (fun x => Ok x) ex_code) (lzmax86_decode (fun e => Ok e)) = Ok ex_code.
Proof. vm_compute. reflexivity. Qed.

Example ex_lzma_header :
  let raw := [93; 0; 0; 0; 1; 255; 255; 255; 255; 255; 255; 255; 255; 0; 1; 2] in
  lzma_encode (fun _ _ => Ok raw) ex_code =
    Ok [93; 0; 0; 0; 1; 41; 0; 0; 0; 0; 0; 0; 0; 0; 1; 2].
Proof. vm_compute. reflexivity. Qed.

(* the filtered codec over the Go encoder: header size = length of the unfiltered input (41),
   although the bytes handed to the inner encoder differ from the input *)
Example ex_lzmax86_header :
  let raw := [93; 0; 0; 0; 1; 255; 255; 255; 255; 255; 255; 255; 255; 0; 1; 2] in
  lzmax86_encode (lzma_encode (fun _ _ => Ok raw)) ex_code =
    Ok [93; 0; 0; 0; 1; 41; 0; 0; 0; 0; 0; 0; 0; 0; 1; 2] /\ zlen ex_code = 41.
Proof. vm_compute. split; reflexivity. Qed.

Example ex_history :
  call_history (lzmax86_encode (fun x => Ok x)) [ex_code; []; ex_code] =
  [lzmax86_encode (fun x => Ok x) ex_code; Ok []; lzmax86_encode (fun x => Ok x) ex_code].
Proof. vm_compute. reflexivity. Qed.

(* ---------------------------------------------------------------------------------------- *)
(* Kernel ties: the x86 branch filter of pkg/compression/x86.go, as TRANSCRIBED FROM THE GO SOURCE on every run
   (translator/Kernels.sh -> Gen/GoKernels.v), equal the functions of the model (Proofs/KernelTieBcj.v).
   A change of one of these Go functions breaks the lemma. *)
From Fiano Require Import Base.Bytes Base.GoInt Gen.GoKernels Proofs.KernelTieBcj.
Local Open Scope Z_scope.

Theorem C08_kernel_test86MSByte :
  forall b, go_test86MSByte b = Bcj.test86 b.
Proof. exact go_test86MSByte_tie. Qed.
Print Assumptions C08_kernel_test86MSByte.

Theorem C08_kernel_x86Convert :
  forall enc ip st data, bytes_ok data = true -> zlen data < 2 ^ 61 ->
  go_x86Convert (S (length data)) data (zlen data) ip st enc =
  (do r <- Bcj.x86_convert enc ip st data; Ok (snd r, fst (fst r), snd (fst r))).
Proof. exact go_x86Convert_tie. Qed.
Print Assumptions C08_kernel_x86Convert.


(* ---- format constants ----
   The models take their format constants from Gen/Consts.v, which is regenerated from /repo's
   source on every run; Spec/ConstPins.v (committed, written by bin/mkpins) pins every one of them
   to the value the specifications give it.  A constant that drifts in the Go source breaks this
   theorem instead of being silently followed by model and generator. *)
From Fiano Require Spec.ConstPins.
Theorem C08_format_constants_pinned : Spec.ConstPins.pinned_c08.
Proof. exact Spec.ConstPins.pins_c08. Qed.
Print Assumptions C08_format_constants_pinned.
