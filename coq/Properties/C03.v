(* Properties/C03.v — an edit changes exactly what it names and nothing else.
   Only statements; every proof is [exact <lemma of Proofs/EditProofs.v or Proofs/AsmProofs.v>].

   Reading guide.  [find_elems] is Find.Run; [cfl]/[cvl] count the files/volumes of the whole tree
   that the selection matches.  [vol_edit R x x'] says: x' is x with exactly one volume's file list
   replaced as R says — every other node (other volumes, files, sections, paddings) is the same
   value; [elems_edit] lifts it to the element list of the BIOS region.  [file_edit] is the same for
   one file node.  [abs_files] is the abstraction of a volume as the ordered list of
   (GUID, type, attributes, body) of its non-pad files.  [shp 0] is the shape of parsed trees
   (region elements are volumes/paddings, volumes hold files, files hold sections, sections hold
   sections or a volume). *)
From Fiano Require Import Base.Bytes Gen.Consts Model.Ffs Model.Edit Proofs.EditProofs Proofs.AsmProofs.
Open Scope Z_scope.

(* ---- the link between command-line arguments and file identity ---- *)

Theorem C03_guid_text_roundtrip : forall g,
  length g = 16%nat -> bytes_ok g = true -> guid_parse (guid_string g) = Some g.
Proof. exact guid_text_roundtrip_lemma. Qed.
Print Assumptions C03_guid_text_roundtrip.

Theorem C03_guid_string_injective : forall g g',
  length g = 16%nat -> bytes_ok g = true -> length g' = 16%nat -> bytes_ok g' = true ->
  guid_string g = guid_string g' -> g = g'.
Proof. exact guid_string_inj_lemma. Qed.
Print Assumptions C03_guid_string_injective.

(* Find: Matches holds each selected file once and each selected volume once, nothing else *)
Theorem C03_find_matches : forall s elems,
  nfiles (find_elems s elems) = cfl s elems /\ nvols (find_elems s elems) = cvl s elems /\
  Forall (fun m => is_filen m || is_voln m = true) (find_elems s elems).
Proof. exact find_elems_counts. Qed.
Print Assumptions C03_find_matches.

(* ---- insert front / end / before / after / replace_ffs ---- *)

(* one match, a file: the volume listing it gets the list-level insertion, nothing else changes *)
Theorem C03_insert_spec : forall it s nf elems m,
  forallb (shp 0) elems = true -> find_elems s elems = [m] -> is_filen m = true ->
  exists elems', insert_run it s nf elems = Ok elems' /\ elems_edit (Rins it s nf) elems elems'.
Proof. exact insert_file_spec. Qed.
Print Assumptions C03_insert_spec.

(* the shape hypothesis holds of every tree the command line can reach: parsed by NewBIOSRegion,
   then edited by any sequence of operations (files to insert parsed by NewFile) *)
Theorem C03_tree_shape : forall dec u2s nvar d ops img cops pol0 elems pol elems',
  parse_cli dec u2s nvar d 240 ops = Ok (cops, pol0) ->
  parse_bios dec u2s nvar d (Z.to_nat (zlen img) + 1) pol0 img 0 = Ok (elems, pol) ->
  run_ops d pol cops elems = Ok elems' -> forallb (shp 0) elems' = true.
Proof. exact edit_tree_shape. Qed.
Print Assumptions C03_tree_shape.

(* one match, a volume (selected by its name): front and end only *)
Theorem C03_insert_volume_spec : forall it s nf elems m,
  find_elems s elems = [m] -> is_voln m = true ->
  match it with
  | IFront => exists elems', insert_run it s nf elems = Ok elems' /\ elems_edit (Rfv true s nf) elems elems'
  | IEnd => exists elems', insert_run it s nf elems = Ok elems' /\ elems_edit (Rfv false s nf) elems elems'
  | _ => insert_run it s nf elems = Err E_INSKIND
  end.
Proof. exact insert_vol_spec. Qed.
Print Assumptions C03_insert_volume_spec.

(* no match or several: an error, the tree is not touched *)
Theorem C03_insert_errors : forall it s nf elems,
  (find_elems s elems = [] -> insert_run it s nf elems = Err E_NOMATCH) /\
  ((2 <= length (find_elems s elems))%nat -> insert_run it s nf elems = Err E_MULTI).
Proof. exact insert_errors. Qed.
Print Assumptions C03_insert_errors.

(* the abstract list of the edited volume *)
Theorem C03_insert_abs : forall it nf l1 f l2,
  abs_files (ins_list it nf l1 f l2) =
  match it with
  | IFront => abs_files [nf] ++ abs_files l1 ++ abs_files [f] ++ abs_files l2
  | IEnd | IDxe => abs_files l1 ++ abs_files [f] ++ abs_files l2 ++ abs_files [nf]
  | IAfter => abs_files l1 ++ abs_files [f] ++ abs_files [nf] ++ abs_files l2
  | IBefore => abs_files l1 ++ abs_files [nf] ++ abs_files [f] ++ abs_files l2
  | IReplace => abs_files l1 ++ abs_files [nf] ++ abs_files l2
  end.
Proof. exact ins_list_abs. Qed.
Print Assumptions C03_insert_abs.

(* ---- remove / remove_pad ---- *)

(* the index loop of Remove.Visit (with its i-- and break) computes the list-level removal *)
Theorem C03_remove_loop : forall s pol pad files,
  rm_loop s pol pad (S (length files)) files 0 = rm_list s pol pad files.
Proof. exact rm_loop_is_rm_list. Qed.
Print Assumptions C03_remove_loop.

(* the whole tree: in every volume exactly the selected files go (or become pad files) *)
Theorem C03_remove_spec : forall d s pol pad elems elems',
  remove_run d s pol pad elems = Ok elems' -> Forall2 (removed s pol pad) elems elems'.
Proof. exact remove_run_spec. Qed.
Print Assumptions C03_remove_spec.

Theorem C03_remove_abs : forall s pol pad fs fs1, rm_list s pol pad fs = Ok fs1 ->
  abs_files fs1 = abs_files (filter (fun f => negb (fmatch s f)) fs).
Proof. exact rm_list_abs. Qed.
Print Assumptions C03_remove_abs.

(* the depth fuel: the height of the tree is enough *)
Theorem C03_remove_fuel : forall s pol pad d n, (height n <= d)%nat ->
  rm_visit d s pol pad n <> Fuel.
Proof. exact rm_visit_no_fuel. Qed.
Print Assumptions C03_remove_fuel.

(* remove_pad: the pad file has the removed file's size ... *)
Theorem C03_pad_size : forall pol size n, pad_node pol size = Ok n -> zlen (node_buf n) = size.
Proof. exact pad_node_size. Qed.
Print Assumptions C03_pad_size.

(* ... so every other file is laid out at the offset it had (place_files is the file loop of
   Assemble; [file_starts] are the offsets it gives to the files) *)
Theorem C03_remove_pad_offsets : forall off l1 f p l2,
  zlen (node_buf p) = zlen (node_buf f) -> node_attr p = 0 ->
  file_start (end_of off l1) f = align8 (end_of off l1) ->
  file_starts off (l1 ++ p :: l2) = file_starts off (l1 ++ f :: l2).
Proof. exact remove_pad_offsets_lemma. Qed.
Print Assumptions C03_remove_pad_offsets.

(* ---- replace_pe32 ---- *)

Theorem C03_replace_pe32_spec : forall s pe elems m,
  prefixb [77; 90] pe = true -> find_elems s elems = [m] -> is_filen m = true ->
  exists l1 x l2, elems = l1 ++ x :: l2 /\
    replace_pe32_run s pe elems = Ok (l1 ++ pe_visit s pe x :: l2) /\
    file_edit (pe_file pe) (fmatch s) x (pe_visit s pe x).
Proof. exact replace_pe32_spec_lemma. Qed.
Print Assumptions C03_replace_pe32_spec.

Theorem C03_replace_pe32_errors : forall s pe elems,
  (prefixb [77; 90] pe = false -> replace_pe32_run s pe elems = Err E_NOTPE) /\
  (prefixb [77; 90] pe = true -> find_elems s elems = [] -> replace_pe32_run s pe elems = Err E_NOMATCH) /\
  (prefixb [77; 90] pe = true -> (2 <= length (find_elems s elems))%nat ->
     replace_pe32_run s pe elems = Err E_MULTI).
Proof. exact replace_pe32_errors. Qed.
Print Assumptions C03_replace_pe32_errors.

(* in the selected file a PE32 section becomes header ++ new body, any other section is kept *)
Theorem C03_pe32_section : forall pe h buf kids,
  s_type h = section_type_pe32 -> s_gd h = None ->
  exists h' hdr, pe_sec pe (NSec h buf kids) = NSec h' (hdr ++ pe) [] /\
                 (zlen hdr = 4 \/ zlen hdr = 8) /\ s_type h' = s_type h.
Proof. exact pe_sec_pe32. Qed.
Print Assumptions C03_pe32_section.

Theorem C03_other_section : forall pe h buf kids, (s_type h =? section_type_pe32) = false ->
  pe_sec pe (NSec h buf kids) = NSec h buf (map (pe_sec pe) kids).
Proof. exact pe_sec_other. Qed.
Print Assumptions C03_other_section.

(* ---- read-only operations: the model's tree is not touched (the Go half is test only) ---- *)

Theorem C03_readonly_identity : forall d pol cs elems,
  run_ops d pol cs elems = run_ops d pol (filter (fun c => negb (is_read c)) cs) elems.
Proof. exact run_ops_drop_reads. Qed.
Print Assumptions C03_readonly_identity.

(* ---- saving: untouched elements are re-emitted as they were ---- *)

(* the code before the empty-volume repair differs from the shared model's volume case only on an
   empty file list *)
Theorem C03_asm_pinned_nonempty : forall pol ffs3 h buf f r,
  asm_vol_pinned pol ffs3 h buf (f :: r) = asm_vol pol ffs3 h buf (f :: r).
Proof. exact asm_vol_pinned_nonempty. Qed.
Print Assumptions C03_asm_pinned_nonempty.

(* the bytes of the saved region outside the edited element are those of the unedited save *)
Theorem C03_outside_untouched : forall enc s2u l1 x x' l2 len pol ffs3 r r',
  pol <> 240 -> is_voln x = true -> is_voln x' = true ->
  asm_bios enc s2u (l1 ++ x :: l2) len (pol, ffs3) = Ok r ->
  asm_bios enc s2u (l1 ++ x' :: l2) len (pol, ffs3) = Ok r' ->
  zlen (node_buf (asm_at enc s2u l1 x (pol, ffs3))) = zlen (node_buf (asm_at enc s2u l1 x' (pol, ffs3))) ->
  let lo := elems_len (fst (fst r)) (length l1) in
  let hi := lo + zlen (node_buf (asm_at enc s2u l1 x (pol, ffs3))) in
  forall i, (0 <= i < lo \/ hi <= i) -> nth_error (snd (fst r)) (Z.to_nat i) = nth_error (snd (fst r')) (Z.to_nat i).
Proof. exact outside_untouched_lemma. Qed.
Print Assumptions C03_outside_untouched.

(* DESIGN section 6 #20: the pinned Assemble returns the stale buffer of a volume whose file list
   became empty (the removed file is still in the saved bytes) ... *)
Theorem C03_emptied_volume_pinned_refuted : forall pol ffs3 h buf,
  asm_vol_pinned pol ffs3 h buf [] = Ok (h, buf).
Proof. exact asm_vol_empty_asis. Qed.
Print Assumptions C03_emptied_volume_pinned_refuted.

(* ... the repaired one rebuilds it: the header, then erased bytes only *)
Theorem C03_emptied_volume_rebuilt : forall pol ffs3 h buf h' b,
  supported_fv (v_guid h) = true -> v_resizable h = false -> 60 <= v_dataoff h ->
  asm_vol pol ffs3 h buf [] = Ok (h', b) ->
  zlen b = v_length h /\ v_length h' = v_length h /\
  zskipn (v_dataoff h) b = zrepeat pol (v_length h - v_dataoff h).
Proof. exact asm_vol_empty_fixed. Qed.
Print Assumptions C03_emptied_volume_rebuilt.

(* ---- the pinned code violates the property on a one-file volume; examples ---- *)

Definition no_codec (_ : Z) (_ : bytes) : option bytes := None.
Definition no_nvar (_ : bytes) : option bytes := None.
Definition id_bytes (b : bytes) : bytes := b.

(* a 192-byte FFS2 volume holding one raw file 00000001-AB00-0000-0000-000000000077 *)
Definition tiny_image : bytes := [0; 0; 0; 0; 0; 0; 0; 0; 0; 0; 0; 0; 0; 0; 0; 0; 120; 229; 140; 140; 61; 138; 28; 79; 153; 53; 137; 97; 133; 195; 45; 211; 192; 0; 0; 0; 0; 0; 0; 0; 95; 70; 86; 72; 0; 8; 0; 0; 72; 0; 207; 236; 0; 0; 0; 2; 3; 0; 0; 0; 64; 0; 0; 0; 0; 0; 0; 0; 0; 0; 0; 0; 1; 0; 0; 0; 0; 171; 0; 0; 0; 0; 0; 0; 0; 0; 0; 119; 1; 170; 192; 0; 28; 0; 0; 248; 1; 2; 3; 4; 255; 255; 255; 255; 255; 255; 255; 255; 255; 255; 255; 255; 255; 255; 255; 255; 255; 255; 255; 255; 255; 255; 255; 255; 255; 255; 255; 255; 255; 255; 255; 255; 255; 255; 255; 255; 255; 255; 255; 255; 255; 255; 255; 255; 255; 255; 255; 255; 255; 255; 255; 255; 255; 255; 255; 255; 255; 255; 255; 255; 255; 255; 255; 255; 255; 255; 255; 255; 255; 255; 255; 255; 255; 255; 255; 255; 255; 255; 255; 255; 255; 255; 255; 255; 255; 255; 255; 255; 255; 255; 255; 255].
Definition tiny_guid : bytes := [1; 0; 0; 0; 0; 171; 0; 0; 0; 0; 0; 0; 0; 0; 0; 119].

Definition save_of (pinned : bool) (ops : list op) : outcome bytes :=
  edit_and_save_gen no_codec no_codec id_bytes id_bytes no_nvar pinned 8 ops tiny_image.
Definition files_of (img : bytes) : outcome (list node) :=
  match parse_region no_codec id_bytes no_nvar 8 img with
  | Ok (elems, _) => Ok (find_elems (SText false (guid_string tiny_guid)) elems)
  | Err e => Err e | Panic p => Panic p | Fuel => Fuel
  end.

(* remove of the only file: the Assemble before the repair saves the input unchanged, the file is
   still there *)
Theorem C03_remove_only_file_pinned_refuted :
  exists img ops a, edit_and_save_gen no_codec no_codec id_bytes id_bytes no_nvar true 8 ops img = Ok img /\
    ops = [ORemove false (TLit a)] /\
    (exists elems pol m, parse_region no_codec id_bytes no_nvar 8 img = Ok (elems, pol) /\
                         find_elems (SText false a) elems = [m]).
Proof.
  exists tiny_image, [ORemove false (TLit (guid_string tiny_guid))], (guid_string tiny_guid).
  split; [vm_compute; reflexivity|]. split; [reflexivity|].
  destruct (parse_region no_codec id_bytes no_nvar 8 tiny_image) as [[elems pol]| | |] eqn:E;
    try (vm_compute in E; discriminate).
  exists elems, pol. vm_compute in E. inversion E; subst. eexists. split; [reflexivity|].
  vm_compute. reflexivity.
Qed.
Print Assumptions C03_remove_only_file_pinned_refuted.

(* with the repair the file is gone and the size is kept *)
Example ex_remove_only_file_fixed :
  match save_of false [ORemove false (TLit (guid_string tiny_guid))] with
  | Ok out => (zlen out =? zlen tiny_image) && negb (bytes_eqb out tiny_image) &&
              match files_of out with Ok [] => true | _ => false end
  | _ => false
  end = true.
Proof. vm_compute. reflexivity. Qed.

Example ex_guid_text : guid_string tiny_guid =
  [48;48;48;48;48;48;48;49;45;65;66;48;48;45;48;48;48;48;45;48;48;48;48;45;48;48;48;48;48;48;48;48;48;48;55;55].
Proof. vm_compute. reflexivity. Qed.
Example ex_guid_parse_lower :
  guid_parse (map lower (guid_string tiny_guid)) = Some tiny_guid.
Proof. vm_compute. reflexivity. Qed.

(* tree-level examples: one volume, two files, selection by GUID text (any letter case) and by the
   name of a UI section *)
Definition ex_fh (g0 t : Z) : filehdr := mkFile (g0 :: skipn 1 tiny_guid) 0 170 t 0 28 248 28 24 None.
Definition ex_ui : node := NSec (mkSec 16 21 16 4 None [83; 104; 101; 108; 108] 0 [] None 0) [1; 2; 3] [].
Definition ex_pe : node := NSec (mkSec 8 16 8 4 None [] 0 [] None 1) [8; 0; 0; 16; 77; 90; 1; 2] [].
Definition ex_f1 : node := NFile (ex_fh 1 7) [1; 1] [ex_pe; ex_ui].
Definition ex_f2 : node := NFile (ex_fh 2 6) [2; 2; 2] [].
Definition ex_nf : node := NFile (ex_fh 9 7) [9] [].
Definition ex_vh : volhdr :=
  mkVol [] FFS2 192 0 2048 72 0 0 0 2 [(3, 64)] [] 0 72 0 false 0.
Definition ex_elems : list node := [NPad 0 [7; 7]; NVol ex_vh [] [ex_f1; ex_f2]].
Definition ex_sel (fvp : bool) : sel := SText fvp (map lower (guid_string tiny_guid)).
Definition ex_name : sel := SText true [115; 72; 69; 76; 76].   (* "sHELL" *)

Example ex_shape : forallb (shp 0) ex_elems = true.
Proof. reflexivity. Qed.
Example ex_find_guid : find_elems (ex_sel true) ex_elems = [ex_f1].
Proof. vm_compute. reflexivity. Qed.
Example ex_find_name : find_elems ex_name ex_elems = [ex_f1].
Proof. vm_compute. reflexivity. Qed.
Example ex_insert_after :
  insert_run IAfter ex_name ex_nf ex_elems = Ok [NPad 0 [7; 7]; NVol ex_vh [] [ex_f1; ex_nf; ex_f2]].
Proof. vm_compute. reflexivity. Qed.
Example ex_replace_ffs :
  insert_run IReplace (ex_sel true) ex_nf ex_elems = Ok [NPad 0 [7; 7]; NVol ex_vh [] [ex_nf; ex_f2]].
Proof. vm_compute. reflexivity. Qed.
Example ex_remove :
  remove_run 4 (ex_sel false) 255 false ex_elems = Ok [NPad 0 [7; 7]; NVol ex_vh [] [ex_f2]].
Proof. vm_compute. reflexivity. Qed.
(* a PEIM (type 6) is replaced by a pad file of its size even without remove_pad *)
Example ex_remove_peim :
  match remove_run 4 (SText false (guid_string (2 :: skipn 1 tiny_guid))) 255 false ex_elems with
  | Ok [_; NVol _ _ [f; p]] => (file_type p =? 240) && (zlen (node_buf p) =? 28) && is_pad p
  | _ => false
  end = true.
Proof. vm_compute. reflexivity. Qed.
Example ex_replace_pe32 :
  match replace_pe32_run (ex_sel false) [77; 90; 5; 6; 7] ex_elems with
  | Ok [_; NVol _ _ [NFile _ _ [NSec _ b []; u]; _]] => bytes_eqb b [9; 0; 0; 16; 77; 90; 5; 6; 7]
  | _ => false
  end = true.
Proof. vm_compute. reflexivity. Qed.
Example ex_ambiguous :
  insert_run IEnd (SText true (guid_string (2 :: skipn 1 tiny_guid))) ex_nf
             [NVol ex_vh [] [ex_f2]; NVol ex_vh [] [ex_f2]] = Err E_MULTI.
Proof. vm_compute. reflexivity. Qed.

(* a pattern is given by the texts it matches in full: "Shell|Fat" on a volume that also holds
   ShellFull selects the file named Shell only *)
Definition ex_uiF : node := NSec (mkSec 26 21 26 4 None [83; 104; 101; 108; 108; 70; 117; 108; 108] 0 [] None 0) [1] [].
Definition ex_f3 : node := NFile (ex_fh 3 7) [3] [ex_uiF].
Example ex_pattern_set :
  remove_run 4 (SAny false [[83; 104; 101; 108; 108]]) 255 false [NVol ex_vh [] [ex_f1; ex_f3]]
  = Ok [NVol ex_vh [] [ex_f3]].
Proof. vm_compute. reflexivity. Qed.

(* ---------------------------------------------------------------------------------------- *)
(* Kernel ties: the arithmetic kernels of pkg/uefi this property rests on, as TRANSCRIBED FROM
   THE GO SOURCE on every run (translator/Kernels.sh -> Gen/GoKernels.v), equal the functions of
   the model (Proofs/KernelTie.v).  A change of one of these Go functions breaks the lemma. *)
From Fiano Require Import Base.Bytes Base.GoInt Gen.GoKernels Proofs.KernelTie.
Local Open Scope Z_scope.

Theorem C03_kernel_Align : forall v b, go_Align v b = Ffs.align_go v b.
Proof. exact go_Align_tie. Qed.
Print Assumptions C03_kernel_Align.

Theorem C03_kernel_Align_pow2 : forall v k, 0 <= v -> 0 <= k < 64 -> v + 2 ^ k - 1 < 2 ^ 64 ->
  go_Align v (2 ^ k) = Ffs.align v (2 ^ k).
Proof. exact go_Align_pow2. Qed.
Print Assumptions C03_kernel_Align_pow2.

Theorem C03_kernel_Align4 : forall v, 0 <= v -> v + 3 < 2 ^ 64 -> go_Align4 v = Ffs.align4 v.
Proof. exact go_Align4_tie. Qed.
Print Assumptions C03_kernel_Align4.

Theorem C03_kernel_Align8 : forall v, 0 <= v -> v + 7 < 2 ^ 64 -> go_Align8 v = Ffs.align8 v.
Proof. exact go_Align8_tie. Qed.
Print Assumptions C03_kernel_Align8.

Theorem C03_kernel_Read3Size : forall a b c, 0 <= a < 256 -> 0 <= b < 256 -> 0 <= c < 256 ->
  go_Read3Size [a; b; c] = le_dec [a; b; c].
Proof. exact go_Read3Size_tie. Qed.
Print Assumptions C03_kernel_Read3Size.

Theorem C03_kernel_Write3Size : forall size, 0 <= size < 2 ^ 64 -> go_Write3Size size = le_enc 3 (Ffs.write3 size).
Proof. exact go_Write3Size_tie. Qed.
Print Assumptions C03_kernel_Write3Size.

Theorem C03_kernel_Checksum8 : forall b, go_Checksum8 b = Ffs.sum8 b.
Proof. exact go_Checksum8_tie. Qed.
Print Assumptions C03_kernel_Checksum8.

Theorem C03_kernel_Checksum16 : forall b, Z.even (zlen b) = true -> go_Checksum16 b = Ok (Ffs.sum16 b).
Proof. exact go_Checksum16_tie. Qed.
Print Assumptions C03_kernel_Checksum16.

Theorem C03_kernel_Checksum16_odd : forall b, Z.even (zlen b) = false -> go_Checksum16 b = Err 1.
Proof. exact go_Checksum16_odd. Qed.
Print Assumptions C03_kernel_Checksum16_odd.

Theorem C03_kernel_IsErased : forall buf pol, go_IsErased buf pol = forallb (fun x => x =? pol) buf.
Proof. exact go_IsErased_tie. Qed.
Print Assumptions C03_kernel_IsErased.

Theorem C03_kernel_IsLarge : forall a, go_fileAttr_IsLarge a = Ffs.attr_large a.
Proof. exact go_fileAttr_IsLarge_tie. Qed.
Print Assumptions C03_kernel_IsLarge.

Theorem C03_kernel_HasChecksum : forall a, go_fileAttr_HasChecksum a = Ffs.attr_checksum a.
Proof. exact go_fileAttr_HasChecksum_tie. Qed.
Print Assumptions C03_kernel_HasChecksum.

Theorem C03_kernel_GetAlignment : forall a, 0 <= a < 256 -> go_fileAttr_GetAlignment a = Ok (Ffs.attr_align a).
Proof. exact go_fileAttr_GetAlignment_tie. Qed.
Print Assumptions C03_kernel_GetAlignment.

Theorem C03_kernel_GetErasePolarity : forall attrs, go_FirmwareVolume_GetErasePolarity attrs = Ffs.fv_polarity attrs.
Proof. exact go_FirmwareVolume_GetErasePolarity_tie. Qed.
Print Assumptions C03_kernel_GetErasePolarity.
