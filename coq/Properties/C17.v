(* Properties/C17.v — AMD PSP/BIOS directories decode exactly; entry reads and patches are
   confined.  Only statements; every proof is [exact <lemma of Proofs/AmdProofs.v>].
   The model (Model/Amd.v) is of the code with the repairs fixes/C17-psb-key-bits.diff and
   fixes/C17-efs-offset-wrap.diff applied. *)
From Fiano Require Import Base.Bytes Gen.Consts Model.Amd Proofs.AmdProofs Proofs.AmdLocateProofs.
Open Scope Z_scope.

(* the block-deferred uint32 implementation equals the mathematical definition
   (sum_{i<n} (n-i) w_i mod 65535) << 16 | (sum w_i mod 65535) for every length: 360 words from
   a reduced state cannot overflow 32 bits, and the fuel suffices; it also equals the naive
   recurrence that reduces after every word *)
Theorem C17_fletcher_spec :
  (forall data, bytes_ok data = true ->
    fletcher32 data = Ok (fletcher_math (words data))) /\
  (forall data, bytes_ok data = true ->
    fletcher32 data =
      Ok (snd (fletcher_naive (words data) 0 0) * 65536 + fst (fletcher_naive (words data) 0 0))).
Proof. exact (conj fletcher_closed_form fletcher_is_naive). Qed.
Print Assumptions C17_fletcher_spec.

(* the directory checksum is Fletcher-32 over the table after its first 8 bytes *)
Theorem C17_dir_checksum : forall raw, bytes_ok raw = true -> 8 <= zlen raw ->
  dir_checksum raw = Ok (fletcher_math (words (zskipn 8 raw))).
Proof. exact dir_checksum_spec. Qed.
Print Assumptions C17_dir_checksum.

(* a 16-byte PSP record and a 24-byte BIOS record: every field is the named bytes/bits
   (dec_psp_entry / dec_bios_entry are written with [rd] and [bits] only) *)
Theorem C17_entry_decode :
  (forall r, 16 <= zlen r ->
    parse_psp_entry r = Ok (dec_psp_entry (zfirstn 16 r), 16, zskipn 16 r)) /\
  (forall r, bytes_ok r = true -> 24 <= zlen r ->
    parse_bios_entry r = Ok (dec_bios_entry (zfirstn 24 r), 24, zskipn 24 r)).
Proof. exact (conj parse_psp_entry_ok parse_bios_entry_ok). Qed.
Print Assumptions C17_entry_decode.

(* the two BIOS flag bytes, exhaustively over all 256 values each *)
Theorem C17_bios_flag_bytes :
  (forall f, 0 <= f < 256 ->
    bios_reset f = (bits 0 1 f =? 1) /\ bios_copy f = (bits 1 1 f =? 1) /\
    bios_ro f = (bits 2 1 f =? 1) /\ bios_compressed f = (bits 3 1 f =? 1) /\
    bios_instance f = bits 4 4 f) /\
  (forall g, 0 <= g < 256 ->
    bios_subprogram g = bits 0 3 g /\ bios_romid g = bits 3 2 g).
Proof. exact (conj bios_flag1_spec bios_flag2_spec). Qed.
Print Assumptions C17_bios_flag_bytes.

(* exactly TotalEntries entries, consumed length 16 + 16 n (PSP) / 16 + 24 n (BIOS), cookie
   checked, header fields and entry i read off the bytes *)
Theorem C17_parse_table_count_len :
  (forall data t len, bytes_ok data = true ->
    parse_psp_table data = Ok (t, len) ->
    (dt_cookie t = amd_psp_cookie \/ dt_cookie t = amd_psp_l2_cookie) /\
    dt_cookie t = rd 0 4 data /\ dt_checksum t = rd 4 4 data /\
    dt_total t = rd 8 4 data /\ dt_extra t = rd 12 4 data /\
    zlen (dt_entries t) = dt_total t /\
    len = 16 + psp_entry_len * dt_total t /\ len <= zlen data /\
    forall i, (Z.of_nat i < dt_total t) ->
      nth_error (dt_entries t) i = Some (dec_psp_entry (sub (16 + Z.of_nat i * psp_entry_len) psp_entry_len data))) /\
  (forall data t len, bytes_ok data = true ->
    parse_bios_table data = Ok (t, len) ->
    (dt_cookie t = amd_bios_cookie \/ dt_cookie t = amd_bios_l2_cookie) /\
    dt_cookie t = rd 0 4 data /\ dt_checksum t = rd 4 4 data /\
    dt_total t = rd 8 4 data /\ dt_extra t = rd 12 4 data /\
    zlen (dt_entries t) = dt_total t /\
    len = 16 + bios_entry_len * dt_total t /\ len <= zlen data /\
    forall i, (Z.of_nat i < dt_total t) ->
      nth_error (dt_entries t) i = Some (dec_bios_entry (sub (16 + Z.of_nat i * bios_entry_len) bios_entry_len data))).
Proof. exact (conj psp_table_count_len bios_table_count_len). Qed.
Print Assumptions C17_parse_table_count_len.

(* a table laid out in the buffer is accepted; ParseBIOSDirectoryTable checks 16 bytes per entry
   but reads 24: in between the result is an error, never a short table *)
Theorem C17_table_accepts :
  (forall data, bytes_ok data = true -> 16 <= zlen data ->
    (rd 0 4 data = amd_psp_cookie \/ rd 0 4 data = amd_psp_l2_cookie) ->
    16 + 16 * rd 8 4 data <= zlen data ->
    exists t, parse_psp_table data = Ok (t, 16 + 16 * rd 8 4 data) /\ dt_total t = rd 8 4 data) /\
  (forall data, bytes_ok data = true -> 16 <= zlen data ->
    (rd 0 4 data = amd_bios_cookie \/ rd 0 4 data = amd_bios_l2_cookie) ->
    16 + 24 * rd 8 4 data <= zlen data ->
    exists t, parse_bios_table data = Ok (t, 16 + 24 * rd 8 4 data) /\ dt_total t = rd 8 4 data) /\
  (forall data, bytes_ok data = true -> 16 <= zlen data ->
    zlen data < 16 + 24 * rd 8 4 data -> exists e, parse_bios_table data = Err e).
Proof. exact (conj psp_table_parses (conj bios_table_parses bios_table_truncated)). Qed.
Print Assumptions C17_table_accepts.

(* the reported length, re-read, decodes to the same table *)
Theorem C17_table_reparse :
  (forall data t len, bytes_ok data = true ->
    parse_psp_table data = Ok (t, len) ->
    len <= zlen data /\ parse_psp_table (zfirstn len data) = Ok (t, len)) /\
  (forall data t len, bytes_ok data = true ->
    parse_bios_table data = Ok (t, len) ->
    len <= zlen data /\ parse_bios_table (zfirstn len data) = Ok (t, len)).
Proof. exact (conj psp_table_reparse bios_table_reparse). Qed.
Print Assumptions C17_table_reparse.

(* every directory reported by parsePSPFirmware (level 1 and 2, pointer- or scan-located) lies
   inside the image, has exactly TotalEntries entries and length 16 + w n, and its reported
   range re-read from the image decodes to the same table *)
Theorem C17_reparse_reported_range : forall p2o image fw, bytes_ok image = true ->
  parse_firmware_with p2o image = Ok fw ->
  (forall x, fw_psp1 fw = Some x -> psp_located_ok image x) /\
  (forall x, fw_psp2 fw = Some x -> psp_located_ok image x) /\
  (forall x, fw_bios1 fw = Some x -> bios_located_ok image x) /\
  (forall x, fw_bios2 fw = Some x -> bios_located_ok image x).
Proof. exact firmware_tables_located. Qed.
Print Assumptions C17_reparse_reported_range.

(* the EFS is the one at the first of the six anchors that is inside the image (image length
   >= 4 GiB - anchor) and shows the signature, at offset anchor - (4 GiB - length); the probe
   loop, both directions: first anchor with the signature or "not found", never a panic *)
Theorem C17_efs_probe :
  (forall image fw, zlen image <= two32 ->
    parse_firmware image = Ok fw ->
    exists pre a post, efs_addresses = pre ++ a :: post /\ efs_at image a /\
      (forall b, In b pre -> ~ efs_at image b) /\
      fw_efs_off fw = a - (two32 - zlen image) /\ 0 <= fw_efs_off fw /\
      fw_efs_off fw + amd_efs_size <= zlen image /\ fw_efs_len fw = amd_efs_size /\
      fw_efs fw = dec_efs (sub (fw_efs_off fw) amd_efs_size image)) /\
  (forall addrs image, zlen image <= two32 -> Forall anchor_ok addrs ->
    match find_efs_loop (phys_to_off (zlen image)) addrs image with
    | Ok (e, off, len) =>
        exists pre a post, addrs = pre ++ a :: post /\ efs_at image a /\
          (forall b, In b pre -> ~ efs_at image b) /\
          off = a - (two32 - zlen image) /\ 0 <= off /\ off + amd_efs_size <= zlen image /\
          len = amd_efs_size /\ e = dec_efs (sub off amd_efs_size image)
    | Err c => c = E_EFS_NOTFOUND /\ forall b, In b addrs -> ~ efs_at image b
    | Panic _ => False
    | Fuel => False
    end).
Proof. exact (conj firmware_efs_located find_efs_loop_spec). Qed.
Print Assumptions C17_efs_probe.

(* pointer-located and scan-located level-1 PSP directory *)
Theorem C17_psp_level1_located :
  (forall image ptr t len,
    ptr <> 0 -> 0 <= ptr < zlen image -> zlen image < two32 ->
    parse_psp_table (zskipn ptr image) = Ok (t, len) ->
    psp_level1 image ptr = Ok (Some (t, ptr, len))) /\
  (forall image ptr idx t len,
    (ptr = 0 \/ zlen image <= ptr) -> zlen image < two32 ->
    find_sub amd_psp_cookie_bytes image = Some idx ->
    parse_psp_table (zskipn idx image) = Ok (t, len) ->
    psp_level1 image ptr = Ok (Some (t, idx, len))).
Proof. exact (conj psp_level1_by_pointer psp_level1_by_scan). Qed.
Print Assumptions C17_psp_level1_located.

(* which BIOS level-1 directory: the four EFS pointer slots are tried in the order 00h-0Fh, 10h-1Fh,
   30h-3Fh, 60h-...; a slot that is zero, beyond the image or not a directory ([slot_rejected]) is
   passed over, the first other one decides; with no usable slot the first "$BHD" whose table parses *)
Theorem C17_bios_level1_located :
  (forall image e pre p post t len,
    [efs_bios0 e; efs_bios1 e; efs_bios2 e; efs_bios3 e] = pre ++ p :: post ->
    (forall q, In q pre -> slot_rejected image q) ->
    p <> 0 -> 0 <= p <= zlen image -> parse_bios_table (zskipn p image) = Ok (t, len) ->
    bios_level1 image e = Ok (Some (t, p, len))) /\
  (forall image e idx t len,
    (forall q, In q [efs_bios0 e; efs_bios1 e; efs_bios2 e; efs_bios3 e] -> slot_rejected image q) ->
    find_sub amd_bios_cookie_bytes image = Some idx ->
    parse_bios_table (zskipn idx image) = Ok (t, len) ->
    bios_level1 image e = Ok (Some (t, idx, len))).
Proof. exact (conj bios_level1_by_pointer bios_level1_by_scan). Qed.
Print Assumptions C17_bios_level1_located.

(* which level-2 directory: the one at the location of the FIRST level-1 entry of the level-2 type
   (0x40 / 0x70), read as an image offset of any size below the image length; none when there is no
   such entry or its location is zero or not below the image length *)
Theorem C17_level2_located :
  (forall image t e t2 len,
    find (fun e => pe_type e =? amd_psp_l2_entry_type) (dt_entries t) = Some e ->
    pe_loc e <> 0 -> 0 <= pe_loc e < zlen image ->
    parse_psp_table (zskipn (pe_loc e) image) = Ok (t2, len) ->
    psp_level2 image t = Ok (Some (t2, pe_loc e, len))) /\
  (forall image t,
    (find (fun e => pe_type e =? amd_psp_l2_entry_type) (dt_entries t) = None \/
     exists e, find (fun e => pe_type e =? amd_psp_l2_entry_type) (dt_entries t) = Some e /\
               (pe_loc e = 0 \/ zlen image <= pe_loc e)) ->
    psp_level2 image t = Ok None) /\
  (forall image t e t2 len,
    find (fun e => be_type e =? amd_bios_l2_entry_type) (dt_entries t) = Some e ->
    be_src e <> 0 -> 0 <= be_src e < zlen image ->
    parse_bios_table (zskipn (be_src e) image) = Ok (t2, len) ->
    bios_level2 image t = Ok (Some (t2, be_src e, len))) /\
  (forall image t,
    (find (fun e => be_type e =? amd_bios_l2_entry_type) (dt_entries t) = None \/
     exists e, find (fun e => be_type e =? amd_bios_l2_entry_type) (dt_entries t) = Some e /\
               (be_src e = 0 \/ zlen image <= be_src e)) ->
    bios_level2 image t = Ok None).
Proof.
  exact (conj psp_level2_by_entry (conj psp_level2_absent (conj bios_level2_by_entry bios_level2_absent))).
Qed.
Print Assumptions C17_level2_located.

(* discovery is total (no panic; the scan fuel S (length image) is enough) and every decoded
   entry field is an unsigned number of its width *)
Theorem C17_parse_firmware_total :
  (forall p2o image, (forall a, 0 <= p2o a) -> bytes_ok image = true ->
    safe (parse_firmware_with p2o image)) /\
  (forall image, bytes_ok image = true -> safe (parse_firmware image)) /\
  (forall p2o image fw, bytes_ok image = true ->
    parse_firmware_with p2o image = Ok fw -> fw_wf fw).
Proof. exact (conj parse_firmware_with_total (conj parse_firmware_total parse_firmware_wf)). Qed.
Print Assumptions C17_parse_firmware_total.

(* extracting an entry returns exactly the image bytes of its location and size *)
Theorem C17_extract_exact :
  (forall fw image level id bs, fw_wf fw ->
    extract_psp_entry fw image level id = Ok bs ->
    exists e, get_psp_entry fw level id = Ok e /\ pe_type e = id /\
      pe_loc e + pe_size e <= zlen image /\ bs = sub (pe_loc e) (pe_size e) image) /\
  (forall fw image level id inst bs, fw_wf fw ->
    extract_bios_entry fw image level id inst = Ok bs ->
    exists e, get_bios_entry fw level id inst = Ok e /\ be_type e = id /\ be_instance e = inst /\
      be_src e + be_size e <= zlen image /\ bs = sub (be_src e) (be_size e) image) /\
  (forall fw image level id e, zlen image < two64 -> fw_wf fw ->
    get_psp_entry fw level id = Ok e -> pe_loc e + pe_size e <= zlen image ->
    extract_psp_entry fw image level id = Ok (sub (pe_loc e) (pe_size e) image)).
Proof. exact (conj extract_psp_exact (conj extract_bios_exact extract_psp_total)). Qed.
Print Assumptions C17_extract_exact.

(* the two directions [C17_extract_exact] leaves open: a BIOS entry inside the image is extracted, and an
   entry (PSP or BIOS) whose 64-bit location plus size does not lie inside the image is refused: the
   location is neither truncated nor wrapped *)
Theorem C17_extract_total_and_refusal :
  (forall fw image level id inst e, zlen image < two64 -> fw_wf fw ->
    get_bios_entry fw level id inst = Ok e -> be_src e + be_size e <= zlen image ->
    extract_bios_entry fw image level id inst = Ok (sub (be_src e) (be_size e) image)) /\
  (forall fw image level id e, fw_wf fw ->
    get_psp_entry fw level id = Ok e -> zlen image < pe_loc e + pe_size e ->
    extract_psp_entry fw image level id = Err E_INVALID) /\
  (forall fw image level id inst e, fw_wf fw ->
    get_bios_entry fw level id inst = Ok e -> zlen image < be_src e + be_size e ->
    extract_bios_entry fw image level id inst = Err E_INVALID).
Proof. exact (conj extract_bios_total extract_outside_refused). Qed.
Print Assumptions C17_extract_total_and_refusal.

(* a patched image differs from the original only inside the entry's range *)
Theorem C17_patch_confined :
  (forall fw image level id d img', fw_wf fw ->
    patch_psp_entry fw image level id d = Ok img' ->
    exists e, get_psp_entry fw level id = Ok e /\
      zlen d = pe_size e /\ pe_loc e + pe_size e <= zlen image /\
      img' = splice (pe_loc e) d image /\ zlen img' = zlen image /\
      sub (pe_loc e) (pe_size e) img' = d /\
      forall k, (Z.of_nat k < pe_loc e \/ pe_loc e + pe_size e <= Z.of_nat k) ->
        nth_error img' k = nth_error image k) /\
  (forall fw image level id inst d img', fw_wf fw ->
    patch_bios_entry fw image level id inst d = Ok img' ->
    exists e, get_bios_entry fw level id inst = Ok e /\
      zlen d = be_size e /\ be_src e + be_size e <= zlen image /\
      img' = splice (be_src e) d image /\ zlen img' = zlen image /\
      sub (be_src e) (be_size e) img' = d /\
      forall k, (Z.of_nat k < be_src e \/ be_src e + be_size e <= Z.of_nat k) ->
        nth_error img' k = nth_error image k).
Proof. exact (conj patch_psp_confined patch_bios_confined). Qed.
Print Assumptions C17_patch_confined.

(* ... and patching is refused on a size mismatch *)
Theorem C17_patch_refuses_size_mismatch :
  (forall fw image level id d e, fw_wf fw ->
    get_psp_entry fw level id = Ok e -> zlen d <> pe_size e ->
    exists c, patch_psp_entry fw image level id d = Err c) /\
  (forall fw image level id inst d e, fw_wf fw ->
    get_bios_entry fw level id inst = Ok e -> zlen d <> be_size e ->
    exists c, patch_bios_entry fw image level id inst d = Err c).
Proof. exact (conj patch_psp_refuses_size_mismatch patch_bios_refuses_size_mismatch). Qed.
Print Assumptions C17_patch_refuses_size_mismatch.

(* exhaustive over the byte: vendor id, revision (3-bit mask as written), model id = bits 4:7,
   and the three security-feature flags = bits 0, 1, 2 *)
Theorem C17_key_attr_bits : forall reserved,
  0 <= res_byte reserved 1 < 256 -> 0 <= res_byte reserved 3 < 256 ->
  parse_platform_binding reserved =
    mkBinding (res_byte reserved 0) (bits 0 3 (res_byte reserved 1)) (bits 4 4 (res_byte reserved 1)) /\
  parse_security_features reserved =
    mkFeatures (bits 0 1 (res_byte reserved 3) =? 1) (bits 1 1 (res_byte reserved 3) =? 1)
               (bits 2 1 (res_byte reserved 3) =? 1).
Proof. exact key_attr_bits. Qed.
Print Assumptions C17_key_attr_bits.

(* from the key blob: usage = uint32 @36, reserved = bytes 40..55, and the attributes above *)
Theorem C17_key_attributes_of_blob : forall blob k, bytes_ok blob = true -> new_root_key blob = Ok k ->
  let reserved := sub 40 16 blob in
  get_platform_binding k =
    (if rd 36 4 blob =? amd_psb_sign_bios
     then Ok (mkBinding (res_byte reserved 0) (bits 0 3 (res_byte reserved 1)) (bits 4 4 (res_byte reserved 1)))
     else Err E_USAGE) /\
  get_security_features k =
    (if rd 36 4 blob =? amd_psb_sign_bios
     then Ok (mkFeatures (bits 0 1 (res_byte reserved 3) =? 1) (bits 1 1 (res_byte reserved 3) =? 1)
                         (bits 2 1 (res_byte reserved 3) =? 1))
     else Err E_USAGE).
Proof. exact key_attributes_of_blob. Qed.
Print Assumptions C17_key_attributes_of_blob.

(* ---- non-vacuity: concrete inputs meet the hypotheses ---- *)

(* 725 bytes = 363 words: two blocks (360 + 3) and an odd trailing byte *)
Definition ex_data : bytes := map (fun i => (Z.of_nat i * 37 + 200) mod 256) (seq 0 725).
Example ex_fletcher : bytes_ok ex_data = true /\ fletcher32 ex_data = Ok (fletcher_math (words ex_data)).
Proof. vm_compute. split; reflexivity. Qed.

(* the vector of pkg/amd/manifest/bios_directory_table_test.go: checksum 0xacc575d0 *)
Definition ex_bios_table : bytes :=
  [36;66;72;68; 208;117;197;172; 1;0;0;0; 64;4;0;32;
   104; 0; 16; 1; 0;32;0;0; 0;48;23;0;0;0;0;0; 255;255;255;255;255;255;255;255].
Example ex_checksum : dir_checksum ex_bios_table = Ok (rd 4 4 ex_bios_table).
Proof. vm_compute. reflexivity. Qed.

Example ex_bios_parse :
  parse_bios_table (ex_bios_table ++ [255]) =
    Ok (mkDir amd_bios_cookie 2898621904 1 536872000
          [mkBiosEntry 104 0 false false false false 1 1 0 8192 1519616 18446744073709551615], 40).
Proof. vm_compute. reflexivity. Qed.

(* a PSP table of two entries, the second with ROM id 3 (flags 0xC000) *)
Definition ex_psp_table : bytes :=
  [36;80;83;80; 0;0;0;0; 2;0;0;0; 0;0;0;0;
   0;0;0;0; 64;0;0;0; 0;1;0;0;0;0;0;0;
   64;7;0;192; 32;0;0;0; 0;2;0;0;0;0;0;0].
Example ex_psp_parse :
  parse_psp_table (ex_psp_table ++ [1; 2; 3]) =
    Ok (mkDir amd_psp_cookie 0 2 0 [mkPspEntry 0 0 0 64 256; mkPspEntry 64 7 3 32 512], 48).
Proof. vm_compute. reflexivity. Qed.

(* a small "image": EFS probing needs >= 384 KiB, so the firmware-level theorems are
   exercised here on a hand-built psp_fw over a 1 KiB image *)
Definition ex_image : bytes := zrepeat 170 256 ++ zrepeat 187 64 ++ zrepeat 204 704.
Definition ex_fw : psp_fw :=
  mkFw (dec_efs (zrepeat 0 74)) 0 74
       (Some (mkDir amd_psp_cookie 0 2 0 [mkPspEntry 0 0 0 64 256; mkPspEntry 64 7 3 32 512], 0, 48))
       None None None.
Example ex_extract : extract_psp_entry ex_fw ex_image 1 0 = Ok (zrepeat 187 64).
Proof. vm_compute. reflexivity. Qed.
Example ex_patch :
  patch_psp_entry ex_fw ex_image 1 0 (zrepeat 1 64) = Ok (zrepeat 170 256 ++ zrepeat 1 64 ++ zrepeat 204 704) /\
  patch_psp_entry ex_fw ex_image 1 0 (zrepeat 1 63) = Err E_INVALID.
Proof. vm_compute. split; reflexivity. Qed.

(* a BIOS directory reached through the fourth pointer slot although an (empty) directory lies in front
   of it; the first three slots are zero, beyond the image, and not a directory *)
Definition ex_bios_image : bytes :=
  zrepeat 255 8 ++ [36;66;72;68; 0;0;0;0; 0;0;0;0; 0;0;0;0] ++ zrepeat 255 16 ++ ex_bios_table ++ zrepeat 255 8.
Definition ex_efs : efs := mkEfs amd_efs_signature (zrepeat 0 16) 0 0 1000 2 7 40 (zrepeat 0 30).
Example ex_bios_level1 :
  match bios_level1 ex_bios_image ex_efs with
  | Ok (Some (t, off, len)) => off = 40 /\ len = 40 /\ dt_total t = 1
  | _ => False
  end /\ find_sub amd_bios_cookie_bytes ex_bios_image = Some 8.
Proof. vm_compute. repeat split; reflexivity. Qed.

(* an entry whose location has bit 32 set is refused although its low half lies inside the image *)
Definition ex_fw_far : psp_fw :=
  mkFw (dec_efs (zrepeat 0 74)) 0 74
       (Some (mkDir amd_psp_cookie 0 1 0 [mkPspEntry 1 0 0 16 (4294967296 + 256)], 0, 32))
       None None None.
Example ex_extract_far : extract_psp_entry ex_fw_far ex_image 1 1 = Err E_INVALID.
Proof. vm_compute. reflexivity. Qed.

(* the discovery theorems on a real-size layout are exercised by the correspondence run
   (images of 384 KiB and more); here the probe arithmetic at the first anchor *)
(* images beyond 16 MiB: the first anchor in a 24 MiB image and the last in a 32 MiB image sit above 2^24 *)
Example ex_probe_big : phys_to_off 25165824 4294574080 = 24772608 /\
  phys_to_off 33554432 4278321152 = 16908288 /\ phys_to_off 33554432 4294574080 = 33161216.
Proof. vm_compute. repeat split; reflexivity. Qed.

Example ex_probe : phys_to_off 393216 4294574080 = 0 /\ phys_to_off 393215 4294574080 = two64 - 1 /\
  phys_to_off 16777216 4278321152 = 131072.
Proof. vm_compute. repeat split; reflexivity. Qed.

(* a root key blob with usage 8, reserved[1] = 0xA5, reserved[3] = 0x06 *)
Definition ex_key : bytes :=
  [1;0;0;0] ++ (1 :: zrepeat 0 15) ++ (1 :: zrepeat 0 15) ++ [8;0;0;0] ++
  ([141; 165; 0; 6] ++ zrepeat 0 12) ++ [8;0;0;0] ++ [16;0;0;0] ++ [3] ++ [170; 187].
Example ex_key_attrs :
  match new_root_key ex_key with
  | Ok k => get_platform_binding k = Ok (mkBinding 141 5 10) /\
            get_security_features k = Ok (mkFeatures false true true)
  | _ => False
  end.
Proof. vm_compute. split; reflexivity. Qed.

(* ---------------------------------------------------------------------------------------- *)
(* Kernel ties: the arithmetic kernels of pkg/amd/manifest this property rests on, as TRANSCRIBED FROM
   THE GO SOURCE on every run (translator/Kernels.sh -> Gen/GoKernels.v), equal the functions of
   the model (Proofs/KernelTieAmd.v).  A change of one of these Go functions breaks the lemma. *)
From Fiano Require Import Base.Bytes Base.GoInt Gen.GoKernels Proofs.KernelTieAmd.
Local Open Scope Z_scope.

Theorem C17_kernel_PhysAddrToOffset : forall img addr, go_FirmwareImage_PhysAddrToOffset img addr = Amd.phys_to_off (zlen img) addr.
Proof. exact go_FirmwareImage_PhysAddrToOffset_tie. Qed.
Print Assumptions C17_kernel_PhysAddrToOffset.

Theorem C17_kernel_fletcherCRC32 : forall fuel data, bytes_ok data = true -> zlen data < 2 ^ 62 -> (length data < fuel)%nat ->
  go_fletcherCRC32 fuel data = Amd.fletcher32 data.
Proof. exact go_fletcherCRC32_tie. Qed.
Print Assumptions C17_kernel_fletcherCRC32.

Theorem C17_kernel_CalculateBiosDirectoryCheckSum : forall fuel raw, bytes_ok raw = true -> zlen raw < 2 ^ 62 -> (length raw < fuel)%nat ->
  go_CalculateBiosDirectoryCheckSum fuel raw = Amd.dir_checksum raw.
Proof. exact go_CalculateBiosDirectoryCheckSum_tie. Qed.
Print Assumptions C17_kernel_CalculateBiosDirectoryCheckSum.

Theorem C17_kernel_CalculatePSPDirectoryCheckSum : forall fuel raw, bytes_ok raw = true -> zlen raw < 2 ^ 62 -> (length raw < fuel)%nat ->
  go_CalculatePSPDirectoryCheckSum fuel raw = Amd.dir_checksum raw.
Proof. exact go_CalculatePSPDirectoryCheckSum_tie. Qed.
Print Assumptions C17_kernel_CalculatePSPDirectoryCheckSum.

(* ---- format constants ----
   The models take their format constants from Gen/Consts.v, which is regenerated from /repo's
   source on every run; Spec/ConstPins.v (committed, written by bin/mkpins) pins every one of them
   to the value the specifications give it.  A constant that drifts in the Go source breaks this
   theorem instead of being silently followed by model and generator. *)
From Fiano Require Spec.ConstPins.
Theorem C17_format_constants_pinned : Spec.ConstPins.pinned_c17.
Proof. exact Spec.ConstPins.pins_c17. Qed.
Print Assumptions C17_format_constants_pinned.
