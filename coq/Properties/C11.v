(* Properties/C11.v — the DXE cleaner ends in a state that matches its report,
   whatever the boot test says.  Only statements; every proof is
   [exact <lemma of Proofs/DxeCleanerProofs.v>].

   [fixed] is the code with fixes/C11-remove-index.diff,
   C11-dxecleaner-undo-all.diff and C11-dxecleaner-cancel-undo.diff applied;
   [asis] is the pinned tree, for which the properties are refuted below.
   The oracle is any function of (call number, image shown): outcome streams,
   stateful and nondeterministic testers are instances.  No bound on the
   number of volumes, files or candidates, nor on the nesting depth (volumes
   inside files inside volumes ...): [minus_guids] / [remove_guid] take the
   files out at every depth, each with everything nested in it. *)
From Fiano Require Import Base.Bytes Gen.Consts Model.DxeCleaner Proofs.DxeCleanerProofs.
Open Scope Z_scope.

(* Run ends — with nil, an error or a panic — within clean_fuel(n) = 1 + (n+1)^2
   loop-condition evaluations for n candidates: every variant, every oracle *)
Theorem dxe_terminates : forall var orc pol pred img nx,
  dxe_clean var orc pol pred img nx <> Fuel.
Proof. exact clean_no_fuel. Qed.
Print Assumptions dxe_terminates.

(* the repaired cleaner never panics: it returns nil, "found no DXEs", or the
   error of a test that could not be run *)
Theorem C11_fixed_total : forall orc pol pred img nx, wf_image pred img = true ->
  (exists c, dxe_clean fixed orc pol pred img nx = Ok c) \/
  dxe_clean fixed orc pol pred img nx = Err E_NODXES \/
  dxe_clean fixed orc pol pred img nx = Err E_TEST.
Proof. exact clean_fixed_total. Qed.
Print Assumptions C11_fixed_total.

(* when Run returns nil (normal end or cancellation) every volume is the
   original volume minus exactly the files whose GUID is reported, in order *)
Theorem C11_final_matches_report : forall orc pol pred img nx c,
  wf_image pred img = true -> dxe_clean fixed orc pol pred img nx = Ok c ->
  c_img c = minus_guids (c_rem c) img.
Proof. exact clean_final_matches. Qed.
Print Assumptions C11_final_matches_report.

(* the report is exactly the accepted calls, in order; every call's answer is
   the oracle's on the image it was shown, and that image is the original
   minus the removals reported before and minus the candidate under test *)
Theorem C11_reported_were_accepted : forall orc pol pred img nx c,
  wf_image pred img = true -> dxe_clean fixed orc pol pred img nx = Ok c ->
  c_rem c = accepted_guids (c_log c) /\
  forall k e, nth_error (c_log c) k = Some e ->
    answer_of e = orc k (shown_of e) /\
    shown_of e = remove_guid (guid_of e)
                   (minus_guids (accepted_guids (firstn k (c_log c))) img).
Proof. exact clean_reported_accepted. Qed.
Print Assumptions C11_reported_were_accepted.

(* a loop step that reports nothing (rejected or cancelled test) leaves every
   volume exactly as it was — from any state, no well-formedness needed ... *)
Theorem C11_reject_fully_undone : forall orc pol c fin c',
  step fixed orc pol c = Ok (fin, c') -> c_rem c' = c_rem c -> c_img c' = c_img c.
Proof. exact step_fixed_unreported. Qed.
Print Assumptions C11_reject_fully_undone.

(* ... so whatever the tree (no well-formedness needed: a PEIM file sharing a
   candidate's GUID is padded and un-padded again), a run that ends with an
   empty report leaves the tree it was given *)
Theorem C11_nothing_reported_nothing_changed : forall orc pol pred img nx c,
  dxe_clean fixed orc pol pred img nx = Ok c -> c_rem c = [] -> c_img c = img.
Proof. exact clean_unreported. Qed.
Print Assumptions C11_nothing_reported_nothing_changed.

(* ... because Remove followed by calling Undo until it is nil is the identity
   on the tree (any variant, any predicate, pad or not) *)
Theorem C11_remove_unwind_identity : forall var pol pad p img nx img' u nx',
  remove_run var pol pad p img nx = Ok (img', u, nx') -> unwind img' u = img.
Proof. exact remove_unwind. Qed.
Print Assumptions C11_remove_unwind_identity.

(* a tester that boots iff every GUID of req is present, on an image in which
   every required GUID has an occurrence that is not nested inside a candidate
   outside req (in particular the image boots; without nesting this is just
   "the image boots"): every candidate outside req is reported (and by
   C11_final_matches_report gone), nothing of req is, the result boots *)
Theorem C11_monotone_complete : forall req pol pred img, wf_image pred img = true ->
  forall nx, req_safe pred req img = true -> cand_guids pred img <> [] ->
  exists c, dxe_clean fixed (boots_iff req) pol pred img nx = Ok c /\
    (forall g, In g (cand_guids pred img) -> ~ In g req -> In g (c_rem c)) /\
    (forall g, In g (c_rem c) -> ~ In g req) /\
    boots req (c_img c) = true.
Proof. exact mono_complete. Qed.
Print Assumptions C11_monotone_complete.

(* ---- the pinned tree: the property is refuted ---- *)

(* same GUID in two volumes, every test fails: Run returns nil, reports
   nothing, and a file is gone (only the last volume touched is restored) *)
Theorem C11_reject_fully_undone_refuted :
  wf_image is_driver w_dup = true /\
  exists c, dxe_clean asis (script_oracle []) 255 is_driver w_dup 4 = Ok c /\
            c_rem c = [] /\ c_img c = [[wF 1 2]; [wF 2 1; wF 3 3]].
Proof. exact asis_reject_not_undone. Qed.
Print Assumptions C11_reject_fully_undone_refuted.

Theorem C11_final_matches_report_refuted :
  exists orc pol pred img nx c, wf_image pred img = true /\
    dxe_clean asis orc pol pred img nx = Ok c /\ c_img c <> minus_guids (c_rem c) img.
Proof.
  exists (script_oracle [t_cancel]), 255, is_driver, [[wF 0 1; wF 1 2]], 2.
  destruct asis_cancel_unreported as (c & H & Hr & Hi). exists c.
  split; [vm_compute; reflexivity|]. split; [exact H|]. rewrite Hr, Hi. vm_compute. discriminate.
Qed.
Print Assumptions C11_final_matches_report_refuted.

(* the same GUID is the last file of two volumes: index out of range in Remove.Visit *)
Theorem C11_asis_index_panic_refuted :
  wf_image is_driver w_last = true /\
  dxe_clean asis (script_oracle []) 255 is_driver w_last 2 = Panic P_INDEX.
Proof. exact asis_index_panic. Qed.
Print Assumptions C11_asis_index_panic_refuted.

(* an accepted removal of a duplicated GUID, then a reject: Undo is nil *)
Theorem C11_asis_nil_undo_refuted :
  dxe_clean asis (script_oracle [t_accept]) 255 is_driver w_dup 4 = Panic P_NILUNDO.
Proof. exact asis_nil_undo_panic. Qed.
Print Assumptions C11_asis_nil_undo_refuted.

Theorem C11_monotone_complete_refuted :
  req_safe is_driver [2] [[wF 0 1]; [wF 1 1; wF 2 2]] = true /\
  dxe_clean asis (boots_iff [2]) 255 is_driver [[wF 0 1]; [wF 1 1; wF 2 2]] 3 = Panic P_INDEX.
Proof. exact asis_monotone_panic. Qed.
Print Assumptions C11_monotone_complete_refuted.

(* nesting: GUID 3 occurs in a nested and in the outer volume; after a rejected
   removal only the nested volume is restored *)
Theorem C11_nested_reject_refuted :
  wf_image is_driver w_nest = true /\
  exists c, dxe_clean asis (script_oracle []) 255 is_driver w_nest 5 = Ok c /\
            c_rem c = [] /\ c_img c = [[wN 0 1 [[wF 1 3; wF 2 2]]]; [wF 4 5]].
Proof. exact asis_nested_not_undone. Qed.
Print Assumptions C11_nested_reject_refuted.

(* ---- non-vacuity: concrete inputs meet the hypotheses ---- *)

(* three volumes, a duplicated GUID, a PEIM and a free-form file that are not candidates
   and whose UI names spell the GUIDs of candidates 1 and 2; driver 4 holds a nested
   volume with drivers 6 and 7, driver 7 a further one with driver 3 *)
Definition ex_img : image :=
  [ [wF 0 1; wF 1 2; mkFile 2 9 fv_filetype_peim 64 (Some 1) []];
    [wF 3 1; wF 4 3];
    [mkFile 5 8 2 40 (Some 2) [];
     wN 6 4 [[wF 7 6; wN 8 7 [[wF 9 3]]]];
     wF 10 2] ].

Example ex_wf : wf_image is_driver ex_img = true.
Proof. vm_compute. reflexivity. Qed.

Example ex_cands : cand_guids is_driver ex_img = [1; 2; 1; 3; 4; 6; 7; 3; 2].
Proof. vm_compute. reflexivity. Qed.

(* accept, reject, accept, then rejects: both files of GUID 1 go *)
Example ex_run :
  exists c, dxe_clean fixed (script_oracle [t_accept; t_reject; t_accept]) 255 is_driver ex_img 11 = Ok c /\
    c_rem c = [1; 1] /\ c_img c = minus_guids [1] ex_img /\ length (c_log c) = 16%nat.
Proof. eexists. split; [vm_compute; reflexivity|]. repeat split; reflexivity. Qed.

Example ex_cancel :
  exists c, dxe_clean fixed (script_oracle [t_accept; t_cancel]) 255 is_driver ex_img 11 = Ok c /\
    c_rem c = [1] /\ c_img c = minus_guids [1] ex_img.
Proof. eexists. split; [vm_compute; reflexivity|]. split; reflexivity. Qed.

(* required: 2, 8 and the outer driver 4; the nested drivers 6, 7, 3 go, 4 stays *)
Example ex_monotone :
  req_safe is_driver [2; 8; 4] ex_img = true /\
  exists c, dxe_clean fixed (boots_iff [2; 8; 4]) 255 is_driver ex_img 11 = Ok c /\
    c_rem c = [1; 1; 3; 6; 7; 3] /\
    c_img c = [ [wF 1 2; mkFile 2 9 fv_filetype_peim 64 (Some 1) []]; [];
                [mkFile 5 8 2 40 (Some 2) []; wN 6 4 [[]]; wF 10 2] ].
Proof. split; [vm_compute; reflexivity|]. eexists. split; [vm_compute; reflexivity|]. split; reflexivity. Qed.

(* a required GUID that only occurs inside a candidate outside the required set
   does not meet the hypothesis (and that candidate cannot be removed) *)
Example ex_req_nested_unsafe : req_safe is_driver [6] ex_img = false /\ boots [6] ex_img = true.
Proof. split; vm_compute; reflexivity. Qed.

(* Remove alone, pad mode, at two depths, then the whole chain unwound *)
Example ex_remove_pad :
  exists img' u nx', remove_run fixed 255 true (guid_pred 3) ex_img 11 = Ok (img', u, nx') /\
    map fst u = [[2; 1; 0; 1; 0]; [1]]%nat /\ nx' = 13 /\ unwind img' u = ex_img.
Proof. do 3 eexists. split; [vm_compute; reflexivity|]. repeat split; reflexivity. Qed.

(* ---- format constants ----
   The models take their format constants from Gen/Consts.v, which is regenerated from /repo's
   source on every run; Spec/ConstPins.v (committed, written by bin/mkpins) pins every one of them
   to the value the specifications give it.  A constant that drifts in the Go source breaks this
   theorem instead of being silently followed by model and generator. *)
From Fiano Require Spec.ConstPins.
Theorem C11_format_constants_pinned : Spec.ConstPins.pinned_c11.
Proof. exact Spec.ConstPins.pins_c11. Qed.
Print Assumptions C11_format_constants_pinned.
