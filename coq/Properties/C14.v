(* Properties/C14.v — FIT location, table and data segments round-trip through an image.
   Only statements; every proof is [exact <lemma of Proofs/FitProofs.v>].
   The JSON encoding of the headers is not modelled (encoding/json); it is checked
   on the implementation only, by the oracle p_hdr_json of harness/cmd/c14. *)
From Fiano Require Import Base.Bytes Gen.Consts Model.Fit Proofs.FitProofs.
Open Scope Z_scope.

(* ---- physical address <-> image offset ---- *)

(* every offset inside an image that ends at 4 GiB: no wrap, the address lies in the
   mapped range, and offset-of-address and tail-offset recover the offset *)
Theorem C14_addr_offset_inverse : forall off size,
  0 <= off < size -> size <= fit_base_phys_addr ->
  phys_of_offset off size = fit_base_phys_addr - size + off /\
  fit_base_phys_addr - size <= phys_of_offset off size < fit_base_phys_addr /\
  offset_of_phys (phys_of_offset off size) size = off /\
  tail_offset_of_phys (phys_of_offset off size) = size - off.
Proof. exact addr_offset_inside. Qed.
Print Assumptions C14_addr_offset_inverse.

(* every address of the mapped range *)
Theorem C14_offset_addr_inverse : forall addr size,
  0 < size <= fit_base_phys_addr -> fit_base_phys_addr - size <= addr < fit_base_phys_addr ->
  offset_of_phys addr size = addr - (fit_base_phys_addr - size) /\
  0 <= offset_of_phys addr size < size /\
  phys_of_offset (offset_of_phys addr size) size = addr /\
  tail_offset_of_phys addr = size - offset_of_phys addr size.
Proof. exact offset_addr_inside. Qed.
Print Assumptions C14_offset_addr_inverse.

(* and for arbitrary uint64 values (any image size), modulo 2^64 *)
Theorem C14_offset_of_phys_of_offset_u64 : forall off size, 0 <= off < 2 ^ 64 ->
  offset_of_phys (phys_of_offset off size) size = off.
Proof. exact offset_phys_u64. Qed.
Print Assumptions C14_offset_of_phys_of_offset_u64.

Theorem C14_phys_of_offset_of_phys_u64 : forall addr size, 0 <= addr < 2 ^ 64 ->
  phys_of_offset (offset_of_phys addr size) size = addr.
Proof. exact phys_offset_u64. Qed.
Print Assumptions C14_phys_of_offset_of_phys_u64.

(* ---- entry headers: binary layout ---- *)

Theorem C14_hdr_bin_roundtrip : forall h r, wf_hdr h = true ->
  dec_hdr (enc_hdr h ++ r) = Some h.
Proof. exact dec_enc_hdr. Qed.
Print Assumptions C14_hdr_bin_roundtrip.

Theorem C14_hdr_bin_length : forall h, wf_hdr h = true -> zlen (enc_hdr h) = hdr_len.
Proof. exact zlen_enc_hdr. Qed.
Print Assumptions C14_hdr_bin_length.

(* decoding any 16 bytes and encoding again reproduces them *)
Theorem C14_hdr_bin_roundtrip_bytes : forall b h, bytes_ok b = true ->
  dec_hdr b = Some h -> wf_hdr h = true /\ enc_hdr h = zfirstn hdr_len b.
Proof. exact dec_hdr_roundtrip_bytes. Qed.
Print Assumptions C14_hdr_bin_roundtrip_bytes.

(* Uint24 *)
Theorem C14_u24_set_get : forall v, 0 <= v < 2 ^ 24 ->
  exists b, u24_set v = Ok b /\ zlen b = 3 /\ bytes_ok b = true /\ u24_get b = v.
Proof. exact u24_set_get. Qed.
Print Assumptions C14_u24_set_get.

Theorem C14_u24_get_set : forall b, zlen b = 3 -> bytes_ok b = true -> u24_set (u24_get b) = Ok b.
Proof. exact u24_get_set. Qed.
Print Assumptions C14_u24_get_set.

(* SetUint32 panics from 2^24 on *)
Theorem C14_u24_set_panics : forall v, 2 ^ 24 <= v -> u24_set v = Panic 1.
Proof. exact u24_set_panics. Qed.
Print Assumptions C14_u24_set_panics.

(* type and checksum-valid bit share a byte without disturbing each other *)
Theorem C14_set_type : forall tc t, 0 <= tc < 256 -> 0 <= t < 128 ->
  exists x, tc_set_type tc t = Ok x /\ tc_type x = t /\ tc_cv x = tc_cv tc /\ 0 <= x < 256.
Proof. exact tc_set_type_spec. Qed.
Print Assumptions C14_set_type.

Theorem C14_set_checksum_valid : forall tc b, 0 <= tc < 256 ->
  tc_type (tc_set_cv tc b) = tc_type tc /\ tc_cv (tc_set_cv tc b) = b /\ 0 <= tc_set_cv tc b < 256.
Proof. exact tc_set_cv_spec. Qed.
Print Assumptions C14_set_checksum_valid.

(* ---- injection ---- *)

(* only the pointer (8 bytes at 0x40 before the end), the table and the data
   ranges are modified; the length is preserved; no error *)
Theorem C14_inject_confined : forall img off es, layout_ok img off es = true ->
  forallb wf_hdr (map e_hdr es) = true ->
  snd (inject img es off) = 0 /\ zlen (fst (inject img es off)) = zlen img /\
  (forall k, untouched (Z.of_nat k) (ranges (zlen img) off es) = true ->
     nth_error (fst (inject img es off)) k = nth_error img k).
Proof. exact inject_confined. Qed.
Print Assumptions C14_inject_confined.

(* the FIT pointer designates the table *)
Theorem C14_inject_pointer : forall img off es, layout_ok img off es = true ->
  forallb wf_hdr (map e_hdr es) = true ->
  let img' := fst (inject img es off) in
  let ptr := rd (zlen img' - fit_pointer_offset) 8 img' in
  ptr = phys_of_offset off (zlen img') /\ w64 (zlen img' - tail_offset_of_phys ptr) = off.
Proof. exact inject_pointer. Qed.
Print Assumptions C14_inject_pointer.

(* the table is found where it was put and holds the same headers in the same order *)
Theorem C14_inject_table : forall img off es, layout_ok img off es = true ->
  forallb wf_hdr (map e_hdr es) = true -> first_ok es = true ->
  table_range (fst (inject img es off)) = Ok (off, off + hdr_len * zlen es) /\
  get_table (fst (inject img es off)) = Ok (map e_hdr es).
Proof. exact inject_table. Qed.
Print Assumptions C14_inject_table.

(* reading the entries back: same headers, same Go types, same data, in order
   (entries of the two kinds the package does not support come back with the
   "not supported" error attached, as_read) *)
Theorem C14_inject_read : forall img off es, layout_ok img off es = true ->
  forallb entry_ok es = true -> first_ok es = true ->
  snd (inject img es off) = 0 /\
  get_entries (fst (inject img es off)) = Ok (map as_read es).
Proof. exact inject_read. Qed.
Print Assumptions C14_inject_read.

(* ---- RecalculateHeaders ---- *)

(* it makes the headers describe the data: afterwards every entry is entry_ok, the
   first entry carries the magic and the entry count, kinds and addresses are kept
   (the first address becomes the magic), data is kept (dropped for TXT policy) *)
Theorem C14_recalc_first_entry_and_sizes : forall es, forallb shape_ok es = true ->
  (exists e0 r, es = e0 :: r /\ e_kind e0 = fit_type_fit_header) -> zlen es < 2 ^ 24 ->
  exists es', recalc es = Ok es' /\
    forallb entry_ok es' = true /\ first_ok es' = true /\ map as_read es' = es' /\
    Forall2 (fun e e' => e_kind e' = e_kind e /\
               e_data e' = (if e_kind e =? fit_type_txt_policy then [] else e_data e) /\
               h_addr (e_hdr e') =
                 (if e_kind e =? fit_type_fit_header then magic_addr else h_addr (e_hdr e)))
            es es'.
Proof. exact recalc_spec. Qed.
Print Assumptions C14_recalc_first_entry_and_sizes.

(* recalculate, inject, read back: the same entries *)
Theorem C14_recalc_inject_read : forall img off es es',
  forallb shape_ok es = true ->
  (exists e0 r, es = e0 :: r /\ e_kind e0 = fit_type_fit_header) -> zlen es < 2 ^ 24 ->
  recalc es = Ok es' -> layout_ok img off es' = true ->
  snd (inject img es' off) = 0 /\ get_entries (fst (inject img es' off)) = Ok es'.
Proof. exact recalc_inject_read. Qed.
Print Assumptions C14_recalc_inject_read.

(* ---- injecting again what was read; re-writing the table in place (cmds/fittool) ---- *)

(* inject, read the entries back, inject what was read at the same place: the image does not change
   (the pointer, the table and the data are re-written with the bytes they already hold) *)
Theorem C14_reinject_identity : forall img off es, layout_ok img off es = true ->
  forallb entry_ok es = true -> first_ok es = true ->
  let img' := fst (inject img es off) in
  get_entries img' = Ok (map as_read es) /\ inject img' (map as_read es) off = (img', 0).
Proof. exact reinject_identity. Qed.
Print Assumptions C14_reinject_identity.

(* Table.WriteToFirmwareImage (fittool add_raw_headers / set_raw_headers / remove_headers) on an image
   with an injected FIT: a new table of any length that fits below the end of the image and keeps clear of
   the FIT pointer, whose first header carries the magic and its own entry count, is written where the
   pointer says; no byte outside the new table changes; the table found and read back is the new one *)
Theorem C14_write_table : forall img off es hs, layout_ok img off es = true ->
  forallb entry_ok es = true -> first_ok es = true ->
  forallb wf_hdr hs = true -> table_first_ok hs = true ->
  off + hdr_len * zlen hs <= zlen img ->
  disjoint (zlen img - fit_pointer_offset, 8) (off, hdr_len * zlen hs) = true ->
  let img1 := fst (inject img es off) in
  exists img2, write_table img1 hs = Ok (img2, 0) /\ zlen img2 = zlen img /\
    (forall k, in_range (Z.of_nat k) (off, hdr_len * zlen hs) = false ->
       nth_error img2 k = nth_error img1 k) /\
    table_range img2 = Ok (off, off + hdr_len * zlen hs) /\ get_table img2 = Ok hs.
Proof. exact inject_write_table. Qed.
Print Assumptions C14_write_table.

(* ---- non-vacuity ---- *)

(* the examples of calc_offset.go *)
Example ex_addr : phys_of_offset 64 8192 = 4294959168 /\ offset_of_phys 4294967232 4096 = 4032 /\
                  tail_offset_of_phys 4294967232 = 64.
Proof. vm_compute. repeat split; reflexivity. Qed.

Definition ex_h (addr tc : Z) : hdr := mkHdr addr [7; 7; 7] 9 4660 tc 90.
Definition ex_addr_of (o : Z) : Z := phys_of_offset o 512.
Definition ex_acm : bytes := zrepeat 170 24 ++ [8; 0; 0; 0] ++ zrepeat 187 4.
Definition ex_es : list entry :=
  [ mkEntry fit_type_fit_header (ex_h 0 255) [] 0;
    mkEntry fit_type_skip (ex_h (ex_addr_of 32) 3) (zrepeat 17 16) 0;
    mkEntry fit_type_key_manifest (ex_h (ex_addr_of 64) 0) [1; 2; 3; 4; 5] 0;
    mkEntry fit_type_sacm (ex_h (ex_addr_of 96) 0) ex_acm 0;
    mkEntry K_UNKNOWN (ex_h (ex_addr_of 144) 85) (zrepeat 34 32) 0;
    mkEntry fit_type_txt_policy (ex_h 12345 0) [9; 9] 0;
    mkEntry fit_type_microcode (ex_h (2 ^ 64 - 1) 200) [] 0 ].
Definition ex_img : bytes := zrepeat 255 512.

Example ex_shape : forallb shape_ok ex_es = true /\ zlen ex_es < 2 ^ 24.
Proof. vm_compute. split; reflexivity. Qed.

Example ex_recalc_inject_read : exists es',
  recalc ex_es = Ok es' /\ layout_ok ex_img 256 es' = true /\
  forallb entry_ok es' = true /\ first_ok es' = true /\
  inject ex_img es' 256 <> (ex_img, 0) /\ snd (inject ex_img es' 256) = 0 /\
  get_entries (fst (inject ex_img es' 256)) = Ok es' /\
  table_range (fst (inject ex_img es' 256)) = Ok (256, 256 + 16 * 7).
Proof.
  eexists. split; [vm_compute; reflexivity|].
  vm_compute. repeat split; try reflexivity. discriminate.
Qed.

(* add_raw_headers on the image of ex_recalc_inject_read: one more entry, the count updated *)
Definition ex_es' : list entry := match recalc ex_es with Ok l => l | _ => [] end.
Definition ex_img1 : bytes := fst (inject ex_img ex_es' 256).
Definition ex_hs' : list hdr :=
  match get_table ex_img1 with
  | Ok hs => set_size (hd (ex_h 0 0) hs) [8; 0; 0] :: tl hs ++ [ex_h 77 127]
  | _ => []
  end.
Example ex_write_table :
  table_first_ok ex_hs' = true /\ forallb wf_hdr ex_hs' = true /\ zlen ex_hs' = 8 /\
  exists img2, write_table ex_img1 ex_hs' = Ok (img2, 0) /\ bytes_eqb img2 ex_img1 = false /\
               get_table img2 = Ok ex_hs'.
Proof.
  split; [vm_compute; reflexivity|]. split; [vm_compute; reflexivity|]. split; [vm_compute; reflexivity|].
  eexists. split; [vm_compute; reflexivity|]. split; vm_compute; reflexivity.
Qed.

(* the table directly below the pointer, data adjacent to the table and at offset 0 *)
Example ex_tight :
  let es := [ mkEntry fit_type_fit_header (mkHdr magic_addr [2; 0; 0] 0 256 128 0) [] 0;
              mkEntry fit_type_boot_policy (mkHdr (phys_of_offset 0 128) [32; 0; 0] 0 256 12 0)
                      (zrepeat 1 32) 0 ] in
  layout_ok (zrepeat 0 128) 32 es = true /\
  get_entries (fst (inject (zrepeat 0 128) es 32)) = Ok es.
Proof. vm_compute. split; reflexivity. Qed.

(* why the type must be in the headers (fixes/C14-recalc-sacm-type.diff): the same ACM
   entry with type 0 in its headers is read back as a FIT header entry without data *)
Example ex_acm_needs_its_type :
  let es := [ mkEntry fit_type_fit_header (mkHdr magic_addr [2; 0; 0] 0 256 128 0) [] 0;
              mkEntry fit_type_sacm (mkHdr (ex_addr_of 96) [0; 0; 0] 0 0 0 0) ex_acm 0 ] in
  layout_ok ex_img 256 es = true /\
  get_entries (fst (inject ex_img es 256)) =
    Ok [ mkEntry fit_type_fit_header (mkHdr magic_addr [2; 0; 0] 0 256 128 0) [] 0;
         mkEntry fit_type_fit_header (mkHdr (ex_addr_of 96) [0; 0; 0] 0 0 0 0) [] 0 ].
Proof. vm_compute. split; reflexivity. Qed.

Example ex_hdr : wf_hdr (ex_h (2 ^ 64 - 1) 255) = true /\
  enc_hdr (ex_h 72623859790382856 255) = [8; 7; 6; 5; 4; 3; 2; 1; 7; 7; 7; 9; 52; 18; 255; 90] /\
  u24_set 16777215 = Ok [255; 255; 255] /\ u24_set 16777216 = Panic 1.
Proof. vm_compute. repeat split; reflexivity. Qed.

(* ---------------------------------------------------------------------------------------- *)
(* Kernel ties: the arithmetic kernels of pkg/intel/metadata/fit this property rests on, as TRANSCRIBED FROM
   THE GO SOURCE on every run (translator/Kernels.sh -> Gen/GoKernels.v), equal the functions of
   the model (Proofs/KernelTieFit.v).  A change of one of these Go functions breaks the lemma. *)
From Fiano Require Import Base.Bytes Base.GoInt Gen.GoKernels Proofs.KernelTieFit.
Local Open Scope Z_scope.

Theorem C14_kernel_CalculatePhysAddrFromOffset : forall off size, go_CalculatePhysAddrFromOffset off size = Fit.phys_of_offset off size.
Proof. exact go_CalculatePhysAddrFromOffset_tie. Qed.
Print Assumptions C14_kernel_CalculatePhysAddrFromOffset.

Theorem C14_kernel_CalculateOffsetFromPhysAddr : forall addr size, go_CalculateOffsetFromPhysAddr addr size = Fit.offset_of_phys addr size.
Proof. exact go_CalculateOffsetFromPhysAddr_tie. Qed.
Print Assumptions C14_kernel_CalculateOffsetFromPhysAddr.

Theorem C14_kernel_CalculateTailOffsetFromPhysAddr : forall addr, go_CalculateTailOffsetFromPhysAddr addr = Fit.tail_offset_of_phys addr.
Proof. exact go_CalculateTailOffsetFromPhysAddr_tie. Qed.
Print Assumptions C14_kernel_CalculateTailOffsetFromPhysAddr.

(* ---------------------------------------------------------------------------------------- *)
(* Kernel ties: the entry-header kernels of pkg/intel/metadata/fit (entry_headers.go), as TRANSCRIBED FROM THE GO SOURCE on every run
   (translator/Kernels.sh -> Gen/GoKernels.v), equal the functions of the model (Proofs/KernelTieFit.v).
   A change of one of these Go functions breaks the lemma. *)
From Fiano Require Import Base.Bytes Base.GoInt Gen.GoKernels Proofs.KernelTieFit.
Local Open Scope Z_scope.

Theorem C14_kernel_Address64 :
  (forall addr size, go_Address64_Offset addr size = Fit.offset_of_phys addr size) /\
  (forall old off size, go_Address64_SetOffset old off size = Fit.phys_of_offset off size).
Proof. exact (conj go_Address64_Offset_tie go_Address64_SetOffset_tie). Qed.
Print Assumptions C14_kernel_Address64.

Theorem C14_kernel_Uint24 :
  (forall a b c, 0 <= a < 256 -> 0 <= b < 256 -> 0 <= c < 256 ->
     go_out (go_Uint24_Uint32 [a; b; c]) = Ok (Fit.u24_get [a; b; c])) /\
  (forall a b c v, 0 <= v < 2 ^ 32 -> go_out (go_Uint24_SetUint32 [a; b; c] v) = Fit.u24_set v).
Proof. exact (conj go_Uint24_Uint32_tie go_Uint24_SetUint32_tie). Qed.
Print Assumptions C14_kernel_Uint24.

Theorem C14_kernel_TypeAndIsChecksumValid :
  (forall f, go_TypeAndIsChecksumValid_Type f = Fit.tc_type f) /\
  (forall f, go_TypeAndIsChecksumValid_IsChecksumValid f = Fit.tc_cv f) /\
  (forall f t, 0 <= f < 256 -> 0 <= t < 256 ->
     outcome_agree (go_out (go_TypeAndIsChecksumValid_SetType f t)) (Fit.tc_set_type f t)) /\
  (forall f v, 0 <= f < 256 -> go_out (go_TypeAndIsChecksumValid_SetIsChecksumValid f v) = Ok (Fit.tc_set_cv f v)).
Proof. exact (conj go_TypeAndIsChecksumValid_Type_tie (conj go_TypeAndIsChecksumValid_IsChecksumValid_tie
         (conj go_TypeAndIsChecksumValid_SetType_tie go_TypeAndIsChecksumValid_SetIsChecksumValid_tie))). Qed.
Print Assumptions C14_kernel_TypeAndIsChecksumValid.

Theorem C14_kernel_mostCommonGetDataSegmentSize :
  forall a b c, 0 <= a < 256 -> 0 <= b < 256 -> 0 <= c < 256 ->
  go_out (go_EntryHeaders_mostCommonGetDataSegmentSize [a; b; c]) = Ok (Fit.u24_get [a; b; c] * 16).
Proof. exact go_EntryHeaders_mostCommonGetDataSegmentSize_tie. Qed.
Print Assumptions C14_kernel_mostCommonGetDataSegmentSize.


(* ---- format constants ----
   The models take their format constants from Gen/Consts.v, which is regenerated from /repo's
   source on every run; Spec/ConstPins.v (committed, written by bin/mkpins) pins every one of them
   to the value the specifications give it.  A constant that drifts in the Go source breaks this
   theorem instead of being silently followed by model and generator. *)
From Fiano Require Spec.ConstPins.
Theorem C14_format_constants_pinned : Spec.ConstPins.pinned_c14.
Proof. exact Spec.ConstPins.pins_c14. Qed.
Print Assumptions C14_format_constants_pinned.
