(* Properties/C19.v — CBFS listing and extraction return exactly what the archive holds.
   Only statements; every proof is [exact <lemma of Proofs/CbfsProofs.v>]. *)
From Fiano Require Import Base.Bytes Gen.Consts Model.Fmap Model.Cbfs Proofs.CbfsProofs.
Open Scope Z_scope.

(* For every image whose flash map is read as (m, start), whose first COREBOOT area ar
   lies inside the image and holds the serialisation of a well-formed archive a:
   NewImage succeeds and the listing is exactly the archive's records — in order,
   once each, with name, type, record offset, size and compression as stored. *)
Theorem C19_cbfs_walk_complete : forall img m start ar a,
  read img = Ok (m, start) -> find_area (f_areas m) = Some ar ->
  holds_archive img ar a -> wf_archive a = true ->
  exists im, new_image img = Ok im /\ listing im = records a.
Proof. exact cbfs_walk_complete. Qed.
Print Assumptions C19_cbfs_walk_complete.

(* Whatever image parses (no well-formedness assumed): every record lies inside the
   area (and the image), begins with a full header, and records do not overlap:
   they come in increasing order, each ending before the next begins. *)
Theorem C19_records_inside_disjoint : forall img im,
  bytes_ok img = true -> new_image img = Ok im ->
  (forall s, In s (im_segs im) ->
     0 <= f_start (s_file s) /\ cbfs_file_header_size <= fh_suboff (s_file s) /\
     0 <= fh_size (s_file s) /\
     rec_end s <= a_size (im_area im) /\ a_off (im_area im) + rec_end s <= zlen img) /\
  (forall i j si sj, (i < j)%nat ->
     nth_error (im_segs im) i = Some si -> nth_error (im_segs im) j = Some sj ->
     rec_end si <= f_start (s_file sj)).
Proof. exact records_inside_disjoint. Qed.
Print Assumptions C19_records_inside_disjoint.

(* Whatever image parses: the data returned for a file that is not empty space is
   the stored bytes at its data offset.  For a SELF payload the stored bytes are
   split into the segment table (kept in Segs) and the rest (FData). *)
Theorem C19_data_exact : forall img im s,
  bytes_ok img = true -> new_image img = Ok im -> In s (im_segs im) ->
  let f := s_file s in
  let stored := sub (a_off (im_area im) + (f_start f + fh_suboff f)) (fh_size f) img in
  fh_type f <> cbfs_type_deleted2 ->
  (fh_type f <> cbfs_type_self -> f_data f = stored /\ s_table s = []) /\
  (fh_type f = cbfs_type_self ->
     exists n, s_table s = zfirstn n stored /\
               f_data f = (if 0 <? fh_size f - n then zskipn n stored else stored)).
Proof. exact data_exact. Qed.
Print Assumptions C19_data_exact.

(* ... and for a serialised archive these are the i-th record's attributes and data *)
Theorem C19_data_exact_archive : forall img m start ar a im i s r,
  read img = Ok (m, start) -> find_area (f_areas m) = Some ar ->
  holds_archive img ar a -> wf_archive a = true ->
  new_image img = Ok im ->
  nth_error (im_segs im) i = Some s -> nth_error a i = Some r ->
  is_empty_type (r_type r) = false ->
  f_attr (s_file s) = enc_attrs (r_attrs r) /\
  (r_type r <> cbfs_type_self -> f_data (s_file s) = r_data r) /\
  (r_type r = cbfs_type_self ->
     exists n, s_table s = zfirstn n (r_data r) /\
       f_data (s_file s) = (if 0 <? zlen (r_data r) - n then zskipn n (r_data r) else r_data r)).
Proof. exact data_exact_archive. Qed.
Print Assumptions C19_data_exact_archive.

(* Decompression returns the original content, for any LZMA / LZ4 encoder-decoder
   pair with the round-trip property (the codecs themselves are not modelled). *)
Theorem C19_decompress_original :
  forall (lzma_enc lz4_enc : bytes -> bytes) (lzma_dec lz4_dec : bytes -> option bytes),
  (forall x, lzma_dec (lzma_enc x) = Some x) ->
  (forall x, lz4_dec (lz4_enc x) = Some x) ->
  forall img m start ar a im i s r x,
  read img = Ok (m, start) -> find_area (f_areas m) = Some ar ->
  holds_archive img ar a -> wf_archive a = true ->
  new_image img = Ok im ->
  nth_error (im_segs im) i = Some s -> nth_error a i = Some r ->
  is_empty_type (r_type r) = false -> r_type r <> cbfs_type_self ->
  (spec_comp r = cbfs_comp_none /\ r_data r = x) \/
  (spec_comp r = cbfs_comp_lzma /\ r_data r = lzma_enc x) \/
  (spec_comp r = cbfs_comp_lz4 /\ r_data r = lz4_enc x) ->
  decompress lzma_dec lz4_dec (s_file s) = Ok x.
Proof. exact decompress_original. Qed.
Print Assumptions C19_decompress_original.

(* An image whose archive is not modified is written back byte-identical: the file
   afterwards is exactly the image, whatever the destination held before (nothing,
   an empty file, other content of the same size, a larger or a shorter file).
   Image.WriteFile writes the bytes NewImage read; Update is not involved. *)
Theorem C19_unmodified_writeback : forall img im old,
  new_image img = Ok im -> write_file old im = img.
Proof. exact unmodified_writeback. Qed.
Print Assumptions C19_unmodified_writeback.

(* The walk always ends: the model's fuel is never exhausted and nothing panics. *)
Theorem C19_new_image_total : forall img, bytes_ok img = true ->
  new_image img <> Fuel /\ forall w, new_image img <> Panic w.
Proof. exact new_image_total. Qed.
Print Assumptions C19_new_image_total.

(* ---- non-vacuity: a concrete archive and image meet the hypotheses ---- *)
Definition padded (r : arec) : arec :=
  mkRec (r_gap r) (r_name r) (r_npad r) (r_type r) (r_attrs r) (r_data r)
        (zrepeat 255 ((- body_len r) mod 16)).

Definition ex_entry_seg : bytes := be_enc 4 cbfs_seg_entry ++ zrepeat 0 24.

Definition ex_arch : list arec :=
  [ padded (mkRec [] [99; 98; 102; 115] 12 2 [] (zrepeat 17 32) []);
    (* "fallback/romstage" is 17 bytes: the name field crosses the 16-byte boundary *)
    padded (mkRec [] [102; 97; 108; 108; 98; 97; 99; 107; 47; 114; 111; 109; 115; 116; 97; 103; 101] 15 80
                  [(1752392008, zrepeat 7 12); (cbfs_tag_compressed, be_enc 4 1 ++ be_enc 4 100)]
                  [1; 2; 3; 4; 5] []);
    padded (mkRec [] [117; 110; 107] 13 1911 [(cbfs_tag_compressed, be_enc 4 2 ++ be_enc 4 9)]
                  [1; 2; 3; 4; 5; 6; 7; 8] []);
    padded (mkRec [zrepeat 255 16; 0 :: cbfs_file_magic ++ zrepeat 255 7] [] 16 0 [] (zrepeat 255 3) []);
    padded (mkRec [] [112] 15 cbfs_type_self [] (ex_entry_seg ++ [9; 9; 9]) []);
    padded (mkRec [] [115] 15 cbfs_type_legacy_stage [] (zrepeat 1 30) []);
    mkRec [] [108; 97; 115; 116] 0 80 [] [7; 7] [255] ].

Definition ex_name32 (s : bytes) : bytes := s ++ zrepeat 0 (32 - zlen s).
Definition ex_area : area := mkArea 200 (zlen (embed ex_arch)) (ex_name32 coreboot_name) 0.
Definition ex_map : fmap :=
  mkFmap (mkHeader fmap_signature 1 1 4278190080 4096 (ex_name32 [70; 76; 65; 83; 72]) 3)
         [ mkArea 0 200 (ex_name32 [70; 77; 65; 80]) 0;
           mkArea 0 16 (ex_name32 (coreboot_name ++ [0; 88])) 0;   (* "COREBOOT\0X": not it *)
           ex_area ].
Definition ex_img : bytes :=
  enc_fmap ex_map ++ zrepeat 255 (200 - zlen (enc_fmap ex_map)) ++ embed ex_arch ++ zrepeat 170 9.

Example ex_wf : wf_archive ex_arch = true.
Proof. vm_compute. reflexivity. Qed.

Example ex_read : read ex_img = Ok (ex_map, 0) /\ find_area (f_areas ex_map) = Some ex_area.
Proof. vm_compute. split; reflexivity. Qed.

Example ex_holds : holds_archive ex_img ex_area ex_arch.
Proof. unfold holds_archive. repeat split; try (vm_compute; congruence); vm_compute; reflexivity. Qed.

Example ex_listing :
  match new_image ex_img with Ok im => listing im | _ => [] end = records ex_arch /\
  length (records ex_arch) = 7%nat /\ bytes_ok ex_img = true.
Proof. vm_compute. repeat split; reflexivity. Qed.

(* the record of unknown type 0x777 keeps its data and its LZ4 attribute; the empty
   record of stored type 0 is listed as 0xffffffff *)
Example ex_unknown_and_empty :
  match new_image ex_img with
  | Ok im => (file_data im 2, map e_comp (listing im), map e_type (listing im))
  | _ => (None, [], [])
  end = (Some (enc_attrs [(cbfs_tag_compressed, be_enc 4 2 ++ be_enc 4 9)], [1; 2; 3; 4; 5; 6; 7; 8]),
         [0; 1; 2; 0; 0; 0; 0], [2; 80; 1911; 4294967295; 32; 16; 80]).
Proof. vm_compute. reflexivity. Qed.

(* a toy codec with the round-trip property: the hypotheses of C19_decompress_original
   are satisfiable *)
Example ex_codec :
  let enc := fun x : bytes => 42 :: x in
  let dec := fun y : bytes => match y with 42 :: x => Some x | _ => None end in
  (forall x, dec (enc x) = Some x).
Proof. intros enc dec x. reflexivity. Qed.

(* without the tiling clause the image is refused: 16 more bytes after the last record *)
Example ex_trailing_slot_refused :
  new_image (enc_fmap (mkFmap (mkHeader fmap_signature 1 1 0 4096 (ex_name32 [70]) 1)
                         [mkArea 160 (zlen (embed ex_arch) + 30) (ex_name32 coreboot_name) 0]) ++
             zrepeat 255 62 ++ embed ex_arch ++ zrepeat 255 30) = Err E_UEOF.
Proof. vm_compute. reflexivity. Qed.

(* writing back over a LARGER existing file leaves exactly the image: no stale tail *)
Example ex_writeback_over_larger :
  match new_image ex_img with
  | Ok im => (write_file (Some (ex_img ++ zrepeat 7 100)) im, write_file None im, write_file (Some []) im)
  | _ => ([], [], [])
  end = (ex_img, ex_img, ex_img).
Proof. vm_compute. reflexivity. Qed.

(* ---- format constants ----
   The models take their format constants from Gen/Consts.v, which is regenerated from /repo's
   source on every run; Spec/ConstPins.v (committed, written by bin/mkpins) pins every one of them
   to the value the specifications give it.  A constant that drifts in the Go source breaks this
   theorem instead of being silently followed by model and generator. *)
From Fiano Require Spec.ConstPins.
Theorem C19_format_constants_pinned : Spec.ConstPins.pinned_c19.
Proof. exact Spec.ConstPins.pins_c19. Qed.
Print Assumptions C19_format_constants_pinned.
