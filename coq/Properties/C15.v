(* Properties/C15.v — Boot Guard / CBnT manifests round-trip with truthful sizes and
   offsets.  Statements only; the generic theorems are closed by [exact <lemma>] of
   Proofs/Manifest*Proofs.v, the per-structure facts by [vm_compute] over
   Gen/ManifestCodecs.v, which translator/C15.sh regenerates from the Go source on every
   run (schemas from the struct declarations and tags, IR from the bodies of the
   generated methods).

   Reading guide.  [d : sdesc] is a structure (schema + rehash annotations); [wf d v] is
   what the wire format cannot express (list and blob lengths within their count type,
   countValue-derived lengths consistent with the fields they are derived from, array
   lengths, integer ranges).  [write d v] is WriteTo: it returns the value Rehash leaves
   in the receiver and the bytes; [read d b] is ReadFrom.  [ops_realise d ir = true]
   says the IR of the generated ReadFrom/WriteTo/<F>TotalSize/<F>Offset/TotalSize/Rehash
   bodies is, step by step, what the declaration prescribes. *)
From Fiano Require Import Base.Bytes Model.Manifest Model.ManifestIR Gen.ManifestCodecs
  Proofs.ManifestProofs Proofs.ManifestIRProofs Proofs.ManifestRehashProofs
  Proofs.ManifestContainerProofs Proofs.ManifestStoredProofs.
Open Scope Z_scope.

(* ================= once and for all (every schema) ================= *)

(* decoding an encoding followed by anything returns the value and leaves the rest *)
Theorem C15_codec_roundtrip : forall d v r, wf d v = true ->
  read d (enc_s (sd_schema d) v ++ r) = Some (v, r).
Proof. exact codec_roundtrip. Qed.
Print Assumptions C15_codec_roundtrip.

(* WriteTo then ReadFrom: the value read is the value WriteTo left in its receiver *)
Theorem C15_write_read : forall d v r, sdesc_ok d = true -> wf d v = true ->
  read d (snd (write d v) ++ r) = Some (fst (write d v), r).
Proof. exact write_read. Qed.
Print Assumptions C15_write_read.

(* reading what was written and writing it again yields the same bytes (and value) *)
Theorem C15_read_write_same_bytes : forall d v, sdesc_ok d = true -> wf d v = true ->
  forall v1 b1, write d v = (v1, b1) ->
  read d b1 = Some (v1, []) /\ write d v1 = (v1, b1).
Proof. exact read_write_same_bytes. Qed.
Print Assumptions C15_read_write_same_bytes.

(* any bytes that decode re-encode to themselves; the value read is well formed and the
   bytes consumed are its TotalSize *)
Theorem C15_codec_reencode : forall d b v r, bytes_ok b = true -> read d b = Some (v, r) ->
  enc_s (sd_schema d) v ++ r = b /\ wf d v = true /\ zlen b - zlen r = total_size d v.
Proof. exact codec_reencode. Qed.
Print Assumptions C15_codec_reencode.

(* bytes produced = TotalSize *)
Theorem C15_codec_size : forall d v, wf d v = true ->
  zlen (enc_s (sd_schema d) v) = total_size d v.
Proof. exact codec_size. Qed.
Print Assumptions C15_codec_size.

(* ... also through the Rehash of WriteTo: sizes are not changed by it *)
Theorem C15_write_size : forall d v, sdesc_ok d = true -> wf d v = true ->
  zlen (snd (write d v)) = total_size d v /\ total_size d (fst (write d v)) = total_size d v.
Proof. exact write_size. Qed.
Print Assumptions C15_write_size.

(* <F>Offset = length of the encoding of the fields before F ... *)
Theorem C15_codec_offsets : forall d v i, wf d v = true ->
  offset_of d v i = zlen (enc_s (prefix_s (sd_schema d) i) v).
Proof. exact codec_offsets. Qed.
Print Assumptions C15_codec_offsets.

(* ... and the bytes of F sit exactly at <F>Offset, for <F>TotalSize bytes *)
Theorem C15_codec_field_position : forall d v i t x, wf d v = true ->
  field_s (sd_schema d) i = Some t -> vnth v i = Some x ->
  sub (offset_of d v i) (size_f t x) (enc_s (sd_schema d) v) = enc_f t x.
Proof. exact codec_field_position. Qed.
Print Assumptions C15_codec_field_position.

(* Rehash keeps well-formedness, sizes and offsets, and is idempotent *)
Theorem C15_rehash_wf : forall d v, sdesc_ok d = true -> wf d v = true -> wf d (rehash d v) = true.
Proof. exact rehash_wf. Qed.
Print Assumptions C15_rehash_wf.

Theorem C15_rehash_idem : forall d v, sdesc_ok d = true -> wf d v = true ->
  rehash d (rehash d v) = rehash d v.
Proof. exact rehash_idem. Qed.
Print Assumptions C15_rehash_idem.

(* a field that Rehash sets to <G>Offset() holds, in the written value, the position of G
   in the written bytes, and G's bytes are there *)
Theorem C15_stored_offset_points_at_field : forall d v a k t,
  sdesc_ok d = true -> wf d v = true ->
  In a (sd_rh d) -> rh_expr a = XOffsetOf k -> field_s (sd_schema d) k = Some t ->
  total_size d v < wmax (rh_width a) ->
  forall v1 b1, write d v = (v1, b1) ->
  exists o x, get_path v1 (rh_path a) = Some (VInt o) /\ vnth v1 k = Some x /\
              o = offset_of d v1 k /\ sub o (size_f t x) b1 = enc_f t x.
Proof. exact stored_offset_points_at_field. Qed.
Print Assumptions C15_stored_offset_points_at_field.

(* a field that Rehash sets to TotalSize() (tag var1 on the StructInfo: ElementSize; tag
   rehashValue:"TotalSize()": HashList.Size) holds, in the value WriteTo leaves behind, the number
   of bytes WriteTo produced, truncated to the width of the field *)
Theorem C15_stored_size_is_written_length : forall d v a,
  sdesc_ok d = true -> wf d v = true -> In a (sd_rh d) -> rh_expr a = XTotalSize ->
  forall v1 b1, write d v = (v1, b1) ->
  get_path v1 (rh_path a) = Some (VInt (zlen b1 mod wmax (rh_width a))).
Proof. exact stored_size_is_written_length. Qed.
Print Assumptions C15_stored_size_is_written_length.

(* ... and a field that Rehash sets to a constant (tags var0 / var1 with a literal) holds it *)
Theorem C15_stored_const_is_written : forall d v a z,
  sdesc_ok d = true -> wf d v = true -> In a (sd_rh d) -> rh_expr a = XConst z ->
  forall v1 b1, write d v = (v1, b1) ->
  get_path v1 (rh_path a) = Some (VInt (z mod wmax (rh_width a))).
Proof. exact stored_const_is_written. Qed.
Print Assumptions C15_stored_const_is_written.

(* ... and it suffices that the OFFSET fits the field (the manifest itself may be longer than
   64 KiB as long as the key-and-signature structure starts below 64 KiB) *)
Theorem C15_stored_offset_points_at_field_fits : forall d v a k t,
  sdesc_ok d = true -> wf d v = true ->
  In a (sd_rh d) -> rh_expr a = XOffsetOf k -> field_s (sd_schema d) k = Some t ->
  offset_of d v k < wmax (rh_width a) ->
  forall v1 b1, write d v = (v1, b1) ->
  exists o x, get_path v1 (rh_path a) = Some (VInt o) /\ vnth v1 k = Some x /\
              o = offset_of d v1 k /\ sub o (size_f t x) b1 = enc_f t x.
Proof. exact stored_offset_points_at_field_fits. Qed.
Print Assumptions C15_stored_offset_points_at_field_fits.

(* soundness of the decidable relation: if it holds, what the generated statements do
   (IR interpreters) is the generic codec: same values, same rest, the count added to
   totalN is the TotalSize; <F>TotalSize sum, TotalSize field list and Rehash agree *)
Theorem C15_ops_realise_sound : forall d ir, ops_realise d ir = true ->
  (forall en b, run_r (ir_read ir) en b = tag_size (sd_schema d) (dec_s (sd_schema d) en b)) /\
  (forall en v, wf_s (sd_schema d) en v = true ->
     run_w (ir_write ir) v = (enc_s (sd_schema d) v, size_s (sd_schema d) v)) /\
  (forall v, run_z (ir_sizes ir) v = size_s (sd_schema d) v) /\
  ir_total ir = names_s (sd_schema d) /\
  ir_rehash ir = sd_rh d.
Proof. exact ops_realise_sound. Qed.
Print Assumptions C15_ops_realise_sound.

(* ... and every generated <F>Offset accessor computes offset_of *)
Theorem C15_offsets_sound : forall d ir, ops_realise d ir = true ->
  forall en v, wf_s (sd_schema d) en v = true ->
  forall i n fuel, nth_error (names_s (sd_schema d)) i = Some n -> (i < fuel)%nat ->
  run_off fuel ir v n = Some (offset_s (sd_schema d) v i).
Proof. exact offsets_sound. Qed.
Print Assumptions C15_offsets_sound.


(* ================= containers (the two Boot Policy Manifests) ================= *)
(* [c : cdesc] lists the element types with their structure IDs and multiplicities;
   [cwf] = every element well formed and carrying its own structure ID, required
   elements present once, optional ones at most once (the value's shape);
   [cread] is the generated dispatch loop (reads StructInfo headers to end of stream,
   order and multiplicity checks, missing-element check), [cwrite] is WriteTo. *)

Theorem C15_container_roundtrip : forall c, cdesc_ok c = true ->
  forall v, cwf (cd_elems c) v = true ->
  cread c (cenc_raw (cd_elems c) v) = Ok (v, zlen (cenc_raw (cd_elems c) v)).
Proof. exact container_roundtrip_raw. Qed.
Print Assumptions C15_container_roundtrip.

(* WriteTo then ReadFrom: same value (as Rehash left it), count = bytes = TotalSize *)
Theorem C15_container_write_read : forall c, cdesc_full_ok c = true ->
  forall v, cwf (cd_elems c) v = true ->
  forall v1 b1, cwrite c v = (v1, b1) ->
  cread c b1 = Ok (v1, zlen b1) /\ zlen b1 = csize (cd_elems c) v /\ cwf (cd_elems c) v1 = true.
Proof. exact container_write_read. Qed.
Print Assumptions C15_container_write_read.

(* ... and writing the value read back gives the same bytes *)
Theorem C15_container_rewrite_same_bytes : forall c, cdesc_full_ok c = true ->
  forall v, cwf (cd_elems c) v = true ->
  forall v1 b1, cwrite c v = (v1, b1) -> cwrite c v1 = (v1, b1).
Proof. exact container_rewrite. Qed.
Print Assumptions C15_container_rewrite_same_bytes.

Theorem C15_container_size : forall es v, cwf es v = true -> zlen (cenc_raw es v) = csize es v.
Proof. exact container_size. Qed.
Print Assumptions C15_container_size.

Theorem C15_container_offsets : forall i es v, cwf es v = true ->
  coffset es v i = zlen (cenc_raw (firstn i es) v).
Proof. exact container_offsets. Qed.
Print Assumptions C15_container_offsets.

(* the header field the container's Rehash sets (BPMH.KeySignatureOffset) holds, in the
   written value, position(element k in the output) + <sub>Offset inside that element *)
Theorem C15_container_stored_offset : forall c, cdesc_full_ok c = true ->
  forall v r, cwf (cd_elems c) v = true -> cd_rh c = Some r ->
  forall v1 b1, cwrite c v = (v1, b1) ->
  exists h1 ek xk, vnth v1 O = Some h1 /\ nth_error (cd_elems c) (cr_elem r) = Some ek /\
    vnth v1 (cr_elem r) = Some xk /\
    vnth h1 (cr_field r) =
    Some (VInt ((coffset (cd_elems c) v1 (cr_elem r) +
                 offset_s (sd_schema (ce_desc ek)) xk (cr_sub r)) mod wmax (cr_width r))).
Proof. exact container_stored_offset. Qed.
Print Assumptions C15_container_stored_offset.

(* ================= per structure (over Gen/ManifestCodecs.v) ================= *)

Theorem bg_HashStructure_codec_ok : ops_realise bg_HashStructure_desc bg_HashStructure_ir = true /\ sdesc_ok bg_HashStructure_desc = true.
Proof. split; vm_compute; reflexivity. Qed.
Print Assumptions bg_HashStructure_codec_ok.

Theorem bg_HashStructureFill_codec_ok : ops_realise bg_HashStructureFill_desc bg_HashStructureFill_ir = true /\ sdesc_ok bg_HashStructureFill_desc = true.
Proof. split; vm_compute; reflexivity. Qed.
Print Assumptions bg_HashStructureFill_codec_ok.

Theorem bg_Key_codec_ok : ops_realise bg_Key_desc bg_Key_ir = true /\ sdesc_ok bg_Key_desc = true.
Proof. split; vm_compute; reflexivity. Qed.
Print Assumptions bg_Key_codec_ok.

Theorem bg_Signature_codec_ok : ops_realise bg_Signature_desc bg_Signature_ir = true /\ sdesc_ok bg_Signature_desc = true.
Proof. split; vm_compute; reflexivity. Qed.
Print Assumptions bg_Signature_codec_ok.

Theorem bg_KeySignature_codec_ok : ops_realise bg_KeySignature_desc bg_KeySignature_ir = true /\ sdesc_ok bg_KeySignature_desc = true.
Proof. split; vm_compute; reflexivity. Qed.
Print Assumptions bg_KeySignature_codec_ok.

Theorem bg_StructInfo_codec_ok : ops_realise bg_StructInfo_desc bg_StructInfo_ir = true /\ sdesc_ok bg_StructInfo_desc = true.
Proof. split; vm_compute; reflexivity. Qed.
Print Assumptions bg_StructInfo_codec_ok.

Theorem bg_bgbootpolicy_BPMH_codec_ok : ops_realise bg_bgbootpolicy_BPMH_desc bg_bgbootpolicy_BPMH_ir = true /\ sdesc_ok bg_bgbootpolicy_BPMH_desc = true.
Proof. split; vm_compute; reflexivity. Qed.
Print Assumptions bg_bgbootpolicy_BPMH_codec_ok.

Theorem bg_bgbootpolicy_IBBSegment_codec_ok : ops_realise bg_bgbootpolicy_IBBSegment_desc bg_bgbootpolicy_IBBSegment_ir = true /\ sdesc_ok bg_bgbootpolicy_IBBSegment_desc = true.
Proof. split; vm_compute; reflexivity. Qed.
Print Assumptions bg_bgbootpolicy_IBBSegment_codec_ok.

Theorem bg_bgbootpolicy_SE_codec_ok : ops_realise bg_bgbootpolicy_SE_desc bg_bgbootpolicy_SE_ir = true /\ sdesc_ok bg_bgbootpolicy_SE_desc = true.
Proof. split; vm_compute; reflexivity. Qed.
Print Assumptions bg_bgbootpolicy_SE_codec_ok.

Theorem bg_bgbootpolicy_PM_codec_ok : ops_realise bg_bgbootpolicy_PM_desc bg_bgbootpolicy_PM_ir = true /\ sdesc_ok bg_bgbootpolicy_PM_desc = true.
Proof. split; vm_compute; reflexivity. Qed.
Print Assumptions bg_bgbootpolicy_PM_codec_ok.

Theorem bg_bgbootpolicy_Signature_codec_ok : ops_realise bg_bgbootpolicy_Signature_desc bg_bgbootpolicy_Signature_ir = true /\ sdesc_ok bg_bgbootpolicy_Signature_desc = true.
Proof. split; vm_compute; reflexivity. Qed.
Print Assumptions bg_bgbootpolicy_Signature_codec_ok.

Theorem bg_bgkey_Manifest_codec_ok : ops_realise bg_bgkey_Manifest_desc bg_bgkey_Manifest_ir = true /\ sdesc_ok bg_bgkey_Manifest_desc = true.
Proof. split; vm_compute; reflexivity. Qed.
Print Assumptions bg_bgkey_Manifest_codec_ok.

Theorem cbnt_ChipsetACModuleInformation_codec_ok : ops_realise cbnt_ChipsetACModuleInformation_desc cbnt_ChipsetACModuleInformation_ir = true /\ sdesc_ok cbnt_ChipsetACModuleInformation_desc = true.
Proof. split; vm_compute; reflexivity. Qed.
Print Assumptions cbnt_ChipsetACModuleInformation_codec_ok.

Theorem cbnt_ChipsetACModuleInformationV5_codec_ok : ops_realise cbnt_ChipsetACModuleInformationV5_desc cbnt_ChipsetACModuleInformationV5_ir = true /\ sdesc_ok cbnt_ChipsetACModuleInformationV5_desc = true.
Proof. split; vm_compute; reflexivity. Qed.
Print Assumptions cbnt_ChipsetACModuleInformationV5_codec_ok.

Theorem cbnt_HashStructure_codec_ok : ops_realise cbnt_HashStructure_desc cbnt_HashStructure_ir = true /\ sdesc_ok cbnt_HashStructure_desc = true.
Proof. split; vm_compute; reflexivity. Qed.
Print Assumptions cbnt_HashStructure_codec_ok.

Theorem cbnt_HashList_codec_ok : ops_realise cbnt_HashList_desc cbnt_HashList_ir = true /\ sdesc_ok cbnt_HashList_desc = true.
Proof. split; vm_compute; reflexivity. Qed.
Print Assumptions cbnt_HashList_codec_ok.

Theorem cbnt_Key_codec_ok : ops_realise cbnt_Key_desc cbnt_Key_ir = true /\ sdesc_ok cbnt_Key_desc = true.
Proof. split; vm_compute; reflexivity. Qed.
Print Assumptions cbnt_Key_codec_ok.

Theorem cbnt_Signature_codec_ok : ops_realise cbnt_Signature_desc cbnt_Signature_ir = true /\ sdesc_ok cbnt_Signature_desc = true.
Proof. split; vm_compute; reflexivity. Qed.
Print Assumptions cbnt_Signature_codec_ok.

Theorem cbnt_KeySignature_codec_ok : ops_realise cbnt_KeySignature_desc cbnt_KeySignature_ir = true /\ sdesc_ok cbnt_KeySignature_desc = true.
Proof. split; vm_compute; reflexivity. Qed.
Print Assumptions cbnt_KeySignature_codec_ok.

Theorem cbnt_StructInfo_codec_ok : ops_realise cbnt_StructInfo_desc cbnt_StructInfo_ir = true /\ sdesc_ok cbnt_StructInfo_desc = true.
Proof. split; vm_compute; reflexivity. Qed.
Print Assumptions cbnt_StructInfo_codec_ok.

Theorem cbnt_TPMInfoList_codec_ok : ops_realise cbnt_TPMInfoList_desc cbnt_TPMInfoList_ir = true /\ sdesc_ok cbnt_TPMInfoList_desc = true.
Proof. split; vm_compute; reflexivity. Qed.
Print Assumptions cbnt_TPMInfoList_codec_ok.

Theorem cbnt_cbntbootpolicy_BPMH_codec_ok : ops_realise cbnt_cbntbootpolicy_BPMH_desc cbnt_cbntbootpolicy_BPMH_ir = true /\ sdesc_ok cbnt_cbntbootpolicy_BPMH_desc = true.
Proof. split; vm_compute; reflexivity. Qed.
Print Assumptions cbnt_cbntbootpolicy_BPMH_codec_ok.

Theorem cbnt_cbntbootpolicy_IBBSegment_codec_ok : ops_realise cbnt_cbntbootpolicy_IBBSegment_desc cbnt_cbntbootpolicy_IBBSegment_ir = true /\ sdesc_ok cbnt_cbntbootpolicy_IBBSegment_desc = true.
Proof. split; vm_compute; reflexivity. Qed.
Print Assumptions cbnt_cbntbootpolicy_IBBSegment_codec_ok.

Theorem cbnt_cbntbootpolicy_SE_codec_ok : ops_realise cbnt_cbntbootpolicy_SE_desc cbnt_cbntbootpolicy_SE_ir = true /\ sdesc_ok cbnt_cbntbootpolicy_SE_desc = true.
Proof. split; vm_compute; reflexivity. Qed.
Print Assumptions cbnt_cbntbootpolicy_SE_codec_ok.

Theorem cbnt_cbntbootpolicy_TXT_codec_ok : ops_realise cbnt_cbntbootpolicy_TXT_desc cbnt_cbntbootpolicy_TXT_ir = true /\ sdesc_ok cbnt_cbntbootpolicy_TXT_desc = true.
Proof. split; vm_compute; reflexivity. Qed.
Print Assumptions cbnt_cbntbootpolicy_TXT_codec_ok.

Theorem cbnt_cbntbootpolicy_Reserved_codec_ok : ops_realise cbnt_cbntbootpolicy_Reserved_desc cbnt_cbntbootpolicy_Reserved_ir = true /\ sdesc_ok cbnt_cbntbootpolicy_Reserved_desc = true.
Proof. split; vm_compute; reflexivity. Qed.
Print Assumptions cbnt_cbntbootpolicy_Reserved_codec_ok.

Theorem cbnt_cbntbootpolicy_PCD_codec_ok : ops_realise cbnt_cbntbootpolicy_PCD_desc cbnt_cbntbootpolicy_PCD_ir = true /\ sdesc_ok cbnt_cbntbootpolicy_PCD_desc = true.
Proof. split; vm_compute; reflexivity. Qed.
Print Assumptions cbnt_cbntbootpolicy_PCD_codec_ok.

Theorem cbnt_cbntbootpolicy_PM_codec_ok : ops_realise cbnt_cbntbootpolicy_PM_desc cbnt_cbntbootpolicy_PM_ir = true /\ sdesc_ok cbnt_cbntbootpolicy_PM_desc = true.
Proof. split; vm_compute; reflexivity. Qed.
Print Assumptions cbnt_cbntbootpolicy_PM_codec_ok.

Theorem cbnt_cbntbootpolicy_Signature_codec_ok : ops_realise cbnt_cbntbootpolicy_Signature_desc cbnt_cbntbootpolicy_Signature_ir = true /\ sdesc_ok cbnt_cbntbootpolicy_Signature_desc = true.
Proof. split; vm_compute; reflexivity. Qed.
Print Assumptions cbnt_cbntbootpolicy_Signature_codec_ok.

Theorem cbnt_cbntkey_Hash_codec_ok : ops_realise cbnt_cbntkey_Hash_desc cbnt_cbntkey_Hash_ir = true /\ sdesc_ok cbnt_cbntkey_Hash_desc = true.
Proof. split; vm_compute; reflexivity. Qed.
Print Assumptions cbnt_cbntkey_Hash_codec_ok.

Theorem cbnt_cbntkey_Manifest_codec_ok : ops_realise cbnt_cbntkey_Manifest_desc cbnt_cbntkey_Manifest_ir = true /\ sdesc_ok cbnt_cbntkey_Manifest_desc = true.
Proof. split; vm_compute; reflexivity. Qed.
Print Assumptions cbnt_cbntkey_Manifest_codec_ok.

Theorem bg_bgbootpolicy_Manifest_codec_ok : cops_realise bg_bgbootpolicy_Manifest_cdesc bg_bgbootpolicy_Manifest_cir = true /\ cdesc_full_ok bg_bgbootpolicy_Manifest_cdesc = true.
Proof. split; vm_compute; reflexivity. Qed.
Print Assumptions bg_bgbootpolicy_Manifest_codec_ok.

Theorem cbnt_cbntbootpolicy_Manifest_codec_ok : cops_realise cbnt_cbntbootpolicy_Manifest_cdesc cbnt_cbntbootpolicy_Manifest_cir = true /\ cdesc_full_ok cbnt_cbntbootpolicy_Manifest_cdesc = true.
Proof. split; vm_compute; reflexivity. Qed.
Print Assumptions cbnt_cbntbootpolicy_Manifest_codec_ok.

(* whatever structures the source has now: all of them *)
Theorem C15_all_structures_realise :
  forallb (fun x => ops_realise (snd (fst x)) (snd x) && sdesc_ok (snd (fst x))) all_structs = true /\
  forallb (fun x => cops_realise (snd (fst x)) (snd x) && cdesc_full_ok (snd (fst x))) all_containers = true.
Proof. split; vm_compute; reflexivity. Qed.
Print Assumptions C15_all_structures_realise.

(* ================= instantiated corollaries ================= *)

(* whatever structures the source has now: every field whose tag prescribes the written value
   (var0, var1, rehashValue:"TotalSize()") holds it after WriteTo -- element sizes and the size
   field of a hash list are the length of the bytes written (mod 2^16) *)
Theorem C15_stored_values_all_structures : forall x a v v1 b1,
  In x all_structs -> In a (sd_rh (snd (fst x))) -> wf (snd (fst x)) v = true ->
  write (snd (fst x)) v = (v1, b1) ->
  (rh_expr a = XTotalSize ->
     get_path v1 (rh_path a) = Some (VInt (zlen b1 mod wmax (rh_width a)))) /\
  (forall z, rh_expr a = XConst z ->
     get_path v1 (rh_path a) = Some (VInt (z mod wmax (rh_width a)))).
Proof. apply stored_sizes_all. vm_compute. reflexivity. Qed.
Print Assumptions C15_stored_values_all_structures.

(* CBnT IBB segments element: StructInfo.ElementSize (field 3 of field 0) is the number of
   bytes WriteTo produces, mod 2^16 *)
Theorem C15_se_element_size : forall v v1 b1,
  wf cbnt_cbntbootpolicy_SE_desc v = true ->
  write cbnt_cbntbootpolicy_SE_desc v = (v1, b1) ->
  get_path v1 [0%nat; 3%nat] = Some (VInt (zlen b1 mod 65536)).
Proof.
  intros v v1 b1 W E.
  apply (stored_size_is_written_length cbnt_cbntbootpolicy_SE_desc v
           (mkRh [0%nat; 3%nat] 2 XTotalSize) (proj2 cbnt_cbntbootpolicy_SE_codec_ok) W); auto.
  vm_compute. tauto.
Qed.
Print Assumptions C15_se_element_size.

(* CBnT key manifest: KeyManifestSignatureOffset (field 1) is the position of
   KeyAndSignature (field 8) in the bytes WriteTo produces, and those bytes are the
   key-and-signature structure *)
Theorem C15_km_signature_offset : forall v v1 b1,
  wf cbnt_cbntkey_Manifest_desc v = true ->
  total_size cbnt_cbntkey_Manifest_desc v < 65536 ->
  write cbnt_cbntkey_Manifest_desc v = (v1, b1) ->
  exists o x, vnth v1 1 = Some (VInt o) /\ vnth v1 8 = Some x /\
    o = offset_of cbnt_cbntkey_Manifest_desc v1 8 /\
    sub o (size_s cbnt_KeySignature_schema x) b1 = enc_s cbnt_KeySignature_schema x.
Proof.
  intros v v1 b1 W L E.
  apply (stored_offset_points_at_field cbnt_cbntkey_Manifest_desc v
           (mkRh [1%nat] 2 (XOffsetOf 8)) 8 (FSub cbnt_KeySignature_schema cbnt_KeySignature_rh)
           (proj2 cbnt_cbntkey_Manifest_codec_ok) W); auto.
  vm_compute. tauto.
Qed.
Print Assumptions C15_km_signature_offset.

(* ... also for a key manifest of 64 KiB and more, as long as the position of KeyAndSignature
   is below 64 KiB *)
Theorem C15_km_signature_offset_fits : forall v v1 b1,
  wf cbnt_cbntkey_Manifest_desc v = true ->
  offset_of cbnt_cbntkey_Manifest_desc v 8 < 65536 ->
  write cbnt_cbntkey_Manifest_desc v = (v1, b1) ->
  exists o x, vnth v1 1 = Some (VInt o) /\ vnth v1 8 = Some x /\
    o = offset_of cbnt_cbntkey_Manifest_desc v1 8 /\
    sub o (size_s cbnt_KeySignature_schema x) b1 = enc_s cbnt_KeySignature_schema x.
Proof.
  intros v v1 b1 W L E.
  apply (stored_offset_points_at_field_fits cbnt_cbntkey_Manifest_desc v
           (mkRh [1%nat] 2 (XOffsetOf 8)) 8 (FSub cbnt_KeySignature_schema cbnt_KeySignature_rh)
           (proj2 cbnt_cbntkey_Manifest_codec_ok) W); auto.
  vm_compute. tauto.
Qed.
Print Assumptions C15_km_signature_offset_fits.

(* CBnT boot policy manifest: BPMH.KeySignatureOffset (field 1 of element 0) =
   position of the PMSE element (slot 6) + offset of its KeySignature (field 1) *)
Theorem C15_bpm_signature_offset : forall v v1 b1,
  cwf (cd_elems cbnt_cbntbootpolicy_Manifest_cdesc) v = true ->
  cwrite cbnt_cbntbootpolicy_Manifest_cdesc v = (v1, b1) ->
  exists bpmh pmse, vnth v1 0 = Some bpmh /\ vnth v1 6 = Some pmse /\
    vnth bpmh 1 =
    Some (VInt ((coffset (cd_elems cbnt_cbntbootpolicy_Manifest_cdesc) v1 6 +
                 offset_s cbnt_cbntbootpolicy_Signature_schema pmse 1) mod 65536)).
Proof.
  intros v v1 b1 W E.
  destruct (container_stored_offset cbnt_cbntbootpolicy_Manifest_cdesc
              (proj2 cbnt_cbntbootpolicy_Manifest_codec_ok) v (mkCrehash 1 2 6 1) W eq_refl v1 b1 E)
    as (h1 & ek & xk & V0 & Nk & Vk & St).
  inversion Nk; subst ek. exists h1, xk. auto.
Qed.
Print Assumptions C15_bpm_signature_offset.

(* ================= examples: the hypotheses are satisfiable, non-trivially ================= *)
Definition vl (l : list value) : value := fold_right VCons VNil l.

(* a CBnT key manifest with one hash, an ECC key (64 bytes of key data for 256 bits) and an
   ECDSA signature over that curve: key size 256, data = R and S of 32 bytes each (64 bytes).
   This is what Signature.SetSignature stores for a P-256 key; the reader takes 2 * KeySize / 8
   bytes for the schemes ECDSA and SM2 (fixes/C15-ecdsa-signature-size.diff; before that repair
   it took KeySize / 8 bytes and such a manifest did not read back) *)
Definition ex_ks : value :=
  vl [VInt 16; vl [VInt 35; VInt 16; VInt 256; VBytes (zrepeat 1 64)];
      vl [VInt 24; VInt 16; VInt 256; VInt 12; VBytes (zrepeat 2 64)]].
Definition ex_km : value :=
  vl [vl [VBytes cbnt_cbntkey_Manifest_id; VInt 33; VInt 7; VInt 9]; VInt 0; VBytes [0; 0; 0];
      VInt 1; VInt 2; VInt 3; VInt 11;
      vl [vl [VInt 1; vl [VInt 11; VBytes (zrepeat 170 32)]]];
      ex_ks].

Example ex_km_wf : wf cbnt_cbntkey_Manifest_desc ex_km = true.
Proof. vm_compute. reflexivity. Qed.

Example ex_km_small : total_size cbnt_cbntkey_Manifest_desc ex_km < 65536.
Proof. vm_compute. reflexivity. Qed.

(* the offset Rehash stores is 68 = 12+2+3+1+1+1+2+(2+8+2+2+32), and 68 is where the
   key-and-signature structure starts *)
Example ex_km_offset :
  vnth (fst (write cbnt_cbntkey_Manifest_desc ex_km)) 1 = Some (VInt 68) /\
  read cbnt_KeySignature_desc (zskipn 68 (snd (write cbnt_cbntkey_Manifest_desc ex_km))) = Some (ex_ks, []).
Proof. split; vm_compute; reflexivity. Qed.

Example ex_km_roundtrip :
  read cbnt_cbntkey_Manifest_desc (snd (write cbnt_cbntkey_Manifest_desc ex_km) ++ [1; 2; 3]) =
  Some (fst (write cbnt_cbntkey_Manifest_desc ex_km), [1; 2; 3]).
Proof. vm_compute. reflexivity. Qed.

(* a CBnT boot policy manifest: header, two SE elements, a PM element, the signature *)
Definition ex_hdr (id : bytes) (ver : Z) : value := vl [VBytes id; VInt ver; VInt 0; VInt 0].
Definition ex_hs : value := vl [VInt 11; VBytes (zrepeat 5 32)].
Definition ex_se (n : Z) : value :=
  vl [ex_hdr cbnt_cbntbootpolicy_SE_id 32; VBytes [0]; VInt 0; VBytes [0]; VInt n; VInt 1;
      VInt 2; VInt 3; VInt 4; VInt 5; VInt 6; VInt 7; ex_hs; VInt 8;
      vl [VInt 0; vl [ex_hs; ex_hs]]; ex_hs; VBytes [0; 0; 0];
      vl [vl [VBytes [0; 0]; VInt 1; VInt 4096; VInt 8192]]].
Definition ex_bpm : value :=
  vl [vl [ex_hdr cbnt_cbntbootpolicy_BPMH_id 35; VInt 0; VInt 1; VInt 2; VInt 3; VBytes [0]; VInt 4];
      vl [ex_se 1; ex_se 2];
      VNil; VNil; VNil;
      vl [vl [ex_hdr cbnt_cbntbootpolicy_PM_id 32; VBytes [0; 0]; VBytes [1; 2; 3; 4; 5]]];
      vl [ex_hdr cbnt_cbntbootpolicy_Signature_id 32; ex_ks]].

Example ex_bpm_wf : cwf (cd_elems cbnt_cbntbootpolicy_Manifest_cdesc) ex_bpm = true.
Proof. vm_compute. reflexivity. Qed.

Example ex_bpm_roundtrip :
  cread cbnt_cbntbootpolicy_Manifest_cdesc (snd (cwrite cbnt_cbntbootpolicy_Manifest_cdesc ex_bpm)) =
  Ok (fst (cwrite cbnt_cbntbootpolicy_Manifest_cdesc ex_bpm),
      zlen (snd (cwrite cbnt_cbntbootpolicy_Manifest_cdesc ex_bpm))).
Proof. vm_compute. reflexivity. Qed.

(* a value that is NOT well formed (key data shorter than the algorithm and bit size
   demand) does not round trip: the hypothesis is needed *)
Definition ex_bad_key : value := vl [VInt 1; VInt 16; VInt 2048; VBytes [1; 2; 3]].
Example ex_bad_key_not_wf : wf cbnt_Key_desc ex_bad_key = false /\
  read cbnt_Key_desc (snd (write cbnt_Key_desc ex_bad_key)) = None.
Proof. split; vm_compute; reflexivity. Qed.

(* the stored-size theorems are not vacuous: the declarations do prescribe such fields *)
Example ex_se_has_size_field :
  In (mkRh [0%nat; 3%nat] 2 XTotalSize) (sd_rh cbnt_cbntbootpolicy_SE_desc) /\
  In (mkRh [0%nat] 2 XTotalSize) (sd_rh cbnt_HashList_desc) /\
  In (mkRh [0%nat; 2%nat] 1 (XConst 32)) (sd_rh cbnt_cbntbootpolicy_BPMH_desc).
Proof. vm_compute. tauto. Qed.

(* signature data by scheme: RSA (RSASSA = 20) as wide as the key, ECDSA (24) and SM2 (27) twice *)
Example ex_signature_sizes :
  wf cbnt_Signature_desc (vl [VInt 20; VInt 16; VInt 2048; VInt 11; VBytes (zrepeat 3 256)]) = true /\
  wf cbnt_Signature_desc (vl [VInt 24; VInt 16; VInt 384; VInt 12; VBytes (zrepeat 3 96)]) = true /\
  wf cbnt_Signature_desc (vl [VInt 27; VInt 16; VInt 256; VInt 18; VBytes (zrepeat 3 64)]) = true /\
  wf cbnt_Signature_desc (vl [VInt 24; VInt 16; VInt 256; VInt 12; VBytes (zrepeat 3 32)]) = false.
Proof. vm_compute. repeat split; reflexivity. Qed.
