(* Properties/C12.v — shrinking the ME region never loses ME partitions or BIOS content.
   Only statements; every proof is [exact <lemma of Proofs/TightenMeProofs.v>].

   Reading guide.  [parse img = Ok (RootFlash t, pol)]: uefi.Parse accepted the image as an Intel
   flash image, [t] is the tree, [pol] the erase polarity the parse left in the global.
   [tm pol t]: visitors.TightenME.Run.  [save pol t]: the bytes visitors.Save writes.
   [me_fr t], [bios_fr t]: the ME and BIOS entries (Base, Limit) of the region section.
   [good_img img]: every element is a byte, the size is a whole number of 4 KiB blocks and
   below 256 MiB.  [sections_disjoint t]: the 12-byte master section and the 64-byte region
   section of the descriptor do not overlap.  [blank_zero t]: the first two bytes of the
   region section are zero in the image (fiano's struct has a blank field there, Assemble
   writes it as zero). *)
From Fiano Require Import Base.Bytes Base.BytesLemmas Gen.Consts Model.TightenMe Proofs.TightenMeProofs.
Open Scope Z_scope.

(* what NewFlashImage returns: regions tile [4096, size) without gap or overlap, every buffer has
   the size its descriptor entry says, and descriptor ++ region buffers is the image *)
Theorem C12_parse_wf : forall img t pol, good_img img -> parse img = Ok (RootFlash t, pol) ->
  wf_tree t /\ t_size t = zlen img /\ t_ifd t ++ body t = img.
Proof. exact c12_parse_wf. Qed.
Print Assumptions C12_parse_wf.

(* FreeSpaceOffset is the largest end of a partition entry with a valid offset, 0 without one *)
Theorem C12_fso_is_max_end : forall es,
  (forall e, In e es -> offset_is_valid (fst e) = true -> fst e + snd e <= fso_of es) /\
  (fso_of es = 0 \/ exists e, In e es /\ offset_is_valid (fst e) = true /\ fso_of es = fst e + snd e).
Proof. exact fso_of_max. Qed.
Print Assumptions C12_fso_is_max_end.

(* the new ME end is the first 4 KiB boundary at or after (ME base + FreeSpaceOffset); the BIOS
   region starts exactly there; nothing else in the region table moves *)
Theorem C12_tm_boundary : forall img t pol t', good_img img -> parse img = Ok (RootFlash t, pol) ->
  tm pol t = Ok t' ->
  exists mb fp fso, In (RME mb fp fso) (t_regions t) /\
    base_off (me_fr t) + fso <= end_off (me_fr t') < base_off (me_fr t) + fso + ifd_block /\
    fr_base (bios_fr t') = fr_limit (me_fr t') + 1 /\
    fr_base (me_fr t') = fr_base (me_fr t) /\ fr_limit (bios_fr t') = fr_limit (bios_fr t) /\
    end_off (me_fr t') <= end_off (me_fr t) /\
    (forall i, 2 <= i -> slot (t_slots t') i = slot (t_slots t) i).
Proof. exact c12_boundary. Qed.
Print Assumptions C12_tm_boundary.

(* every byte outside the descriptor is unchanged, and the size is unchanged *)
Theorem C12_tm_bytes_outside_descriptor_unchanged : forall img t pol t' out, good_img img ->
  parse img = Ok (RootFlash t, pol) -> tm pol t = Ok t' -> save pol t' = Ok out ->
  zskipn ifd_desc_len out = zskipn ifd_desc_len img /\ zlen out = zlen img.
Proof. exact c12_bytes_outside. Qed.
Print Assumptions C12_tm_bytes_outside_descriptor_unchanged.

Theorem C12_tm_size : forall img t pol t' out, good_img img ->
  parse img = Ok (RootFlash t, pol) -> tm pol t = Ok t' -> save pol t' = Ok out ->
  zlen out = zlen img.
Proof. exact c12_size. Qed.
Print Assumptions C12_tm_size.

(* the saved descriptor equals the original one except for two 16-bit fields: BIOS Base at
   RegionStart+4 and ME Limit at RegionStart+10 *)
Theorem C12_tm_descriptor_delta : forall img t pol t', good_img img ->
  parse img = Ok (RootFlash t, pol) -> tm pol t = Ok t' -> sections_disjoint t -> blank_zero t ->
  exists a mid z,
    zlen a = t_rs t + 4 /\ zlen mid = 4 /\
    zfirstn ifd_desc_len img =
      a ++ le_enc 2 (fr_base (bios_fr t)) ++ mid ++ le_enc 2 (fr_limit (me_fr t)) ++ z /\
    forall out, save pol t' = Ok out ->
      zfirstn ifd_desc_len out =
      a ++ le_enc 2 (fr_base (bios_fr t')) ++ mid ++ le_enc 2 (fr_limit (me_fr t')) ++ z.
Proof. exact c12_descriptor_delta. Qed.
Print Assumptions C12_tm_descriptor_delta.

(* every partition with a valid offset still ends inside the (shrunk) ME region *)
Theorem C12_tm_partitions_inside : forall img t pol t' mb' es fso, good_img img ->
  parse img = Ok (RootFlash t, pol) -> tm pol t = Ok t' ->
  In (RME mb' (Some es) fso) (t_regions t') ->
  zlen mb' = end_off (me_fr t') - base_off (me_fr t') /\
  forall e, In e es -> offset_is_valid (fst e) = true -> fst e + snd e <= zlen mb'.
Proof. exact c12_partitions_inside. Qed.
Print Assumptions C12_tm_partitions_inside.

(* regions still tile the flash (the tree is again well formed, so Assemble's gap/overlap
   checks pass), and if the unedited tree could be saved so can the tightened one *)
Theorem C12_tm_tiles : forall img t pol t', good_img img -> parse img = Ok (RootFlash t, pol) ->
  tm pol t = Ok t' ->
  wf_tree t' /\ t_size t' = zlen img /\
  (forall o, save pol t = Ok o -> exists o', save pol t' = Ok o').
Proof. exact c12_tiles. Qed.
Print Assumptions C12_tm_tiles.

(* the freed blocks are a padding at offset 0 of the BIOS region, erased *)
Theorem C12_tm_freed_is_leading_erased_padding : forall img t pol t', good_img img ->
  parse img = Ok (RootFlash t, pol) -> tm pol t = Ok t' ->
  exists tail els' bl', In (RBios (BPad tail 0 :: els') bl') (t_regions t') /\
    is_erased tail pol = true /\ zlen tail = base_off (bios_fr t) - base_off (bios_fr t').
Proof. exact c12_freed_padding. Qed.
Print Assumptions C12_tm_freed_is_leading_erased_padding.

(* refusals: an error, and the tree the caller holds is unchanged *)
Theorem C12_tm_refuses_nonadjacent : forall img t pol, parse img = Ok (RootFlash t, pol) ->
  existsb is_me (t_regions t) = true -> existsb is_bios (t_regions t) = true ->
  end_off (me_fr t) <> base_off (bios_fr t) ->
  tm pol t = Err E_NONADJ /\ tm_after pol t = t.
Proof. exact c12_refuses_nonadjacent. Qed.
Print Assumptions C12_tm_refuses_nonadjacent.

Theorem C12_tm_refuses_nonerased : forall img t pol mb fp fso, good_img img ->
  parse img = Ok (RootFlash t, pol) ->
  In (RME mb fp fso) (t_regions t) -> existsb is_bios (t_regions t) = true ->
  end_off (me_fr t) = base_off (bios_fr t) ->
  tm_buf_offset (me_fr t) fso <= zlen mb ->
  is_erased (zskipn (tm_buf_offset (me_fr t) fso) mb) pol = false ->
  tm pol t = Err E_NOTERASED /\ tm_after pol t = t.
Proof. exact c12_refuses_nonerased. Qed.
Print Assumptions C12_tm_refuses_nonerased.

(* a legal image is not refused *)
Theorem C12_tm_accepts : forall img t pol mb fp fso, good_img img ->
  parse img = Ok (RootFlash t, pol) ->
  In (RME mb fp fso) (t_regions t) -> existsb is_bios (t_regions t) = true ->
  end_off (me_fr t) = base_off (bios_fr t) ->
  tm_buf_offset (me_fr t) fso <= zlen mb ->
  is_erased (zskipn (tm_buf_offset (me_fr t) fso) mb) pol = true ->
  exists t', tm pol t = Ok t'.
Proof. exact c12_accepts. Qed.
Print Assumptions C12_tm_accepts.

(* the precondition the Go code does not check: with adjacent regions, buf[bufOffset:] panics
   exactly when a valid partition ends beyond the last block of the ME region *)
Theorem C12_tm_panics_iff_partition_outside : forall img t pol mb fp fso, good_img img ->
  parse img = Ok (RootFlash t, pol) ->
  In (RME mb fp fso) (t_regions t) -> existsb is_bios (t_regions t) = true ->
  end_off (me_fr t) = base_off (bios_fr t) ->
  (tm pol t = Panic 1 <-> zlen mb < tm_buf_offset (me_fr t) fso).
Proof. exact c12_panics_iff. Qed.
Print Assumptions C12_tm_panics_iff_partition_outside.

(* applying it twice equals applying it once *)
Theorem C12_tm_idempotent_bytes : forall img t pol t1, good_img img ->
  parse img = Ok (RootFlash t, pol) -> tm pol t = Ok t1 ->
  exists t2, tm pol t1 = Ok t2 /\ save pol t2 = save pol t1.
Proof. exact c12_idempotent. Qed.
Print Assumptions C12_tm_idempotent_bytes.

(* for comparison: saving without tighten_me reproduces the image *)
Theorem C12_save_unedited : forall img t pol out, good_img img -> parse img = Ok (RootFlash t, pol) ->
  sections_disjoint t -> blank_zero t -> save pol t = Ok out -> out = img.
Proof. exact c12_unedited. Qed.
Print Assumptions C12_save_unedited.

(* ---- tighten_me inside a sequence of edits ----
   In "utk IMAGE edit ... tighten_me ... edit ... save" tighten_me does not meet the result of a
   parse but the tree the edits before it left.  The clauses above hold for EVERY tree that is
   well formed ([wf_tree]: the descriptor is one block, 15 region entries, every region buffer
   has the size its entry says, the regions tile the flash, the recorded free space offset is the
   largest partition end, at most one ME and one BIOS region - what NewFlashImage establishes by
   C12_parse_wf and what Assemble needs to write the image at all), tighten_me keeps a tree well
   formed, so the statements chain through any number of steps.  [body t] is the concatenation
   of the region buffers: the saved bytes behind the descriptor.  [desc_bounds t]: the three
   descriptor sections lie inside the descriptor block and the raw map/master bytes are the ones
   of the buffer. *)
Theorem C12_seq_tm_keeps_wf : forall pol t t', wf_tree t -> tm pol t = Ok t' -> wf_tree t'.
Proof. exact tm_wf. Qed.
Print Assumptions C12_seq_tm_keeps_wf.

Theorem C12_seq_tm_boundary : forall pol t t', wf_tree t -> tm pol t = Ok t' ->
  exists mb fp fso, In (RME mb fp fso) (t_regions t) /\
    base_off (me_fr t) + fso <= end_off (me_fr t') < base_off (me_fr t) + fso + ifd_block /\
    fr_base (bios_fr t') = fr_limit (me_fr t') + 1 /\
    fr_base (me_fr t') = fr_base (me_fr t) /\ fr_limit (bios_fr t') = fr_limit (bios_fr t) /\
    end_off (me_fr t') <= end_off (me_fr t) /\
    (forall i, 2 <= i -> slot (t_slots t') i = slot (t_slots t) i).
Proof. exact tm_boundary_tree. Qed.
Print Assumptions C12_seq_tm_boundary.

(* what is saved behind the descriptor is the same before and after, whatever the tree holds *)
Theorem C12_seq_tm_bytes_outside_descriptor_unchanged : forall pol t t' o o', wf_tree t -> desc_bounds t ->
  tm pol t = Ok t' -> save pol t = Ok o -> save pol t' = Ok o' ->
  zskipn ifd_desc_len o' = zskipn ifd_desc_len o /\ zlen o' = zlen o.
Proof. exact tm_bytes_outside_tree. Qed.
Print Assumptions C12_seq_tm_bytes_outside_descriptor_unchanged.

Theorem C12_seq_tm_partitions_inside : forall pol t t' mb' es fso, wf_tree t -> tm pol t = Ok t' ->
  In (RME mb' (Some es) fso) (t_regions t') ->
  zlen mb' = end_off (me_fr t') - base_off (me_fr t') /\
  forall e, In e es -> offset_is_valid (fst e) = true -> fst e + snd e <= zlen mb'.
Proof. exact tm_partitions_inside_tree. Qed.
Print Assumptions C12_seq_tm_partitions_inside.

Theorem C12_seq_tm_freed_is_leading_erased_padding : forall pol t t', wf_tree t -> tm pol t = Ok t' ->
  exists tail els' bl', In (RBios (BPad tail 0 :: els') bl') (t_regions t') /\
    is_erased tail pol = true /\ zlen tail = base_off (bios_fr t) - base_off (bios_fr t').
Proof. exact tm_freed_tree. Qed.
Print Assumptions C12_seq_tm_freed_is_leading_erased_padding.

(* once it succeeded, any number of further runs succeeds and saves the same file *)
Theorem C12_seq_tm_any_number_equals_once : forall pol n t t1, wf_tree t -> tm pol t = Ok t1 ->
  exists tn, tm_n n pol t1 = Ok tn /\ save pol tn = save pol t1.
Proof. exact tm_n_once. Qed.
Print Assumptions C12_seq_tm_any_number_equals_once.

(* ---- non-vacuity: a concrete 16 KiB image ---- *)

(* descriptor | ME blocks 1-2 | BIOS block 3.  FPT at 16 with two entries: a partition
   [0x400, 0x700) and an unused one; the BIOS region is one opaque firmware volume. *)
Definition put (off : Z) (d : bytes) (b : bytes) : bytes := splice off d b.
Definition ex_fv : bytes :=
  zrepeat 0 16 ++ zrepeat 17 16 ++ le_enc 8 4096 ++ [95; 70; 86; 72] ++ le_enc 4 2048 ++
  le_enc 2 72 ++ [0; 0; 0; 0; 0; 2] ++ le_enc 4 1 ++ le_enc 4 4096 ++ zrepeat 0 8.
Definition ex_entry (off len : Z) : bytes :=
  [65; 66; 67; 68] ++ zrepeat 0 4 ++ le_enc 4 off ++ le_enc 4 len ++ zrepeat 0 16.
Definition ex_slots : bytes :=
  [0; 0; 1; 0] ++ (le_enc 2 3 ++ le_enc 2 3) ++ (le_enc 2 1 ++ le_enc 2 2) ++
  concat (repeat (le_enc 2 32767 ++ le_enc 2 0) 13).
Definition ex_img_with (me_tail : bytes) (bios_base : Z) (last_len : Z) : bytes :=
  put 16 ifd_signature
  (put 20 [0; 0; 4; 0; 8; 0; 0; 0]
  (put 64 (put 4 (le_enc 2 bios_base) ex_slots)
  (put (4096 + 16) ([36; 70; 80; 84] ++ le_enc 4 2 ++ zrepeat 0 24 ++ ex_entry 1024 last_len ++ ex_entry 4294967295 7)
  (put (4096 + 1024) (zrepeat 90 768)
  (put (2 * 4096 + 100) me_tail
  (put (3 * 4096) ex_fv (zrepeat 255 16384))))))).
Definition ex_img : bytes := ex_img_with [255] 3 768.
Definition dummy_tree : tree := mkTree [] 0 0 0 [] 0 [] [] [] 0.
Definition tree_of (img : bytes) : tree :=
  match parse img with Ok (RootFlash t, _) => t | _ => dummy_tree end.
Definition ex_t : tree := Eval vm_compute in tree_of ex_img.
Definition ex_t' : tree := Eval vm_compute in tm_after 255 ex_t.

(* the examples are boolean checks evaluated by vm_compute *)
Definition obytes_eqb (a b : outcome bytes) : bool :=
  match a, b with
  | Ok x, Ok y => bytes_eqb x y
  | Err e, Err f => e =? f
  | Panic _, Panic _ => true
  | _, _ => false
  end.
Definition is_err {A} (o : outcome A) (e : Z) : bool := match o with Err f => f =? e | _ => false end.
Definition fr_is (r : fregion) (b l : Z) : bool := (fr_base r =? b) && (fr_limit r =? l).
Definition parses_to (img : bytes) (t : tree) (pol : Z) : bool :=
  match parse img with
  | Ok (RootFlash t0, p) => (p =? pol) && bytes_eqb (t_ifd t0 ++ body t0) (t_ifd t ++ body t)
  | _ => false
  end.

Example ex_good : good_img ex_img.
Proof. split; [vm_compute; reflexivity|]. split; [exists 4; vm_compute; reflexivity|vm_compute; reflexivity]. Qed.

Example ex_parse : parse ex_img = Ok (RootFlash ex_t, 255).
Proof. vm_compute. reflexivity. Qed.

Example ex_disjoint : sections_disjoint ex_t /\ blank_zero ex_t.
Proof. split; [right; vm_compute; intros H; discriminate H|vm_compute; reflexivity]. Qed.

(* the hypotheses of C12_tm_accepts hold for the example: its ME region has the buffer
   img[4096:12288], a partition table, FreeSpaceOffset 0x700; bufOffset is 4096 *)
Example ex_accepts_hyps :
  existsb (fun r => match r with
                    | RME b (Some es) f => (f =? 1792) && bytes_eqb b (sub 4096 8192 ex_img) &&
                                           is_erased (zskipn (tm_buf_offset (me_fr ex_t) f) b) 255
                    | _ => false end) (t_regions ex_t) &&
  existsb is_bios (t_regions ex_t) &&
  (end_off (me_fr ex_t) =? base_off (bios_fr ex_t)) &&
  (tm_buf_offset (me_fr ex_t) 1792 =? 4096) = true.
Proof. vm_compute. reflexivity. Qed.

Example ex_tm :
  is_ok (tm 255 ex_t) && fr_is (me_fr ex_t) 1 2 && fr_is (bios_fr ex_t) 3 3 &&
  fr_is (me_fr ex_t') 1 1 && fr_is (bios_fr ex_t') 2 3 = true.
Proof. vm_compute. reflexivity. Qed.

(* the saved image differs from the input in exactly two bytes: 0x44 (3 -> 2), 0x4A (2 -> 1);
   saving the unedited tree gives the input; twice = once *)
Example ex_save :
  obytes_eqb (save 255 ex_t') (Ok (put 68 [2] (put 74 [1] ex_img))) &&
  obytes_eqb (save 255 ex_t) (Ok ex_img) && obytes_eqb (run 2 ex_img) (run 1 ex_img) &&
  obytes_eqb (run 1 ex_img) (save 255 ex_t') = true.
Proof. vm_compute. reflexivity. Qed.

(* the sequence theorems are not vacuous: the example tree is well formed, its descriptor
   sections are in bounds, and three runs save what one run saves *)
Example ex_seq : wf_tree ex_t /\ desc_bounds ex_t.
Proof.
  destruct (C12_parse_wf _ _ _ ex_good ex_parse) as (W & _). split; [exact W|].
  vm_compute. repeat split; intros H; discriminate H.
Qed.
Example ex_seq_runs : obytes_eqb (run 3 ex_img) (run 1 ex_img) = true.
Proof. vm_compute. reflexivity. Qed.

(* refusals and the panic *)
Example ex_nonerased : is_err (tm 255 (tree_of (ex_img_with [254] 3 768))) E_NOTERASED = true.
Proof. vm_compute. reflexivity. Qed.

Definition ex_img_gap : bytes :=   (* ME = block 1 only, block 2 undeclared, BIOS = block 3 *)
  put (64 + 4 + 4) (le_enc 2 1 ++ le_enc 2 1) ex_img.
Example ex_nonadjacent :
  is_err (tm 255 (tree_of ex_img_gap)) E_NONADJ &&
  existsb is_me (t_regions (tree_of ex_img_gap)) &&
  existsb is_bios (t_regions (tree_of ex_img_gap)) = true.
Proof. vm_compute. reflexivity. Qed.

Example ex_panic : is_panic (tm 255 (tree_of (ex_img_with [255] 3 8192))) = true.
Proof. vm_compute. reflexivity. Qed.

(* why [sections_disjoint] is a hypothesis: with MasterBase = RegionBase the master section,
   written last from the values parsed before the change, puts the old Base/Limit back;
   tighten_me reports success and the saved image is the input *)
Definition ex_img_overlap : bytes := put 24 [4] ex_img.
Example ex_master_overlap_is_a_silent_noop :
  is_ok (tm 255 (tree_of ex_img_overlap)) && obytes_eqb (run 1 ex_img_overlap) (Ok ex_img_overlap) = true.
Proof. vm_compute. reflexivity. Qed.

(* why [blank_zero] is a hypothesis: a non-zero blank field is zeroed by any save *)
Definition ex_img_blank : bytes := put 64 [7] ex_img.
Example ex_blank_field_is_zeroed : obytes_eqb (run 0 ex_img_blank) (Ok ex_img) = true.
Proof. vm_compute. reflexivity. Qed.

(* ---------------------------------------------------------------------------------------- *)
(* Kernel ties: the flash-descriptor kernels of pkg/uefi this property rests on, as TRANSCRIBED FROM THE GO SOURCE on every run
   (translator/Kernels.sh -> Gen/GoKernels.v), equal the functions of the model (Proofs/KernelTieFlash.v).
   A change of one of these Go functions breaks the lemma. *)
From Fiano Require Import Base.Bytes Base.GoInt Gen.GoKernels Proofs.KernelTieFlash.
Local Open Scope Z_scope.

Theorem C12_kernel_FlashRegion_Valid :
  forall base limit, go_FlashRegion_Valid limit base = TightenMe.fr_valid (TightenMe.mkFR base limit).
Proof. exact go_FlashRegion_Valid_tie. Qed.
Print Assumptions C12_kernel_FlashRegion_Valid.

Theorem C12_kernel_FlashRegion_BaseOffset :
  forall base limit, 0 <= base < 65536 ->
  go_FlashRegion_BaseOffset base = TightenMe.base_off (TightenMe.mkFR base limit).
Proof. exact go_FlashRegion_BaseOffset_tie. Qed.
Print Assumptions C12_kernel_FlashRegion_BaseOffset.

Theorem C12_kernel_FlashRegion_EndOffset :
  forall base limit, 0 <= limit < 65536 ->
  go_FlashRegion_EndOffset limit = TightenMe.end_off (TightenMe.mkFR base limit).
Proof. exact go_FlashRegion_EndOffset_tie. Qed.
Print Assumptions C12_kernel_FlashRegion_EndOffset.

Theorem C12_kernel_MEPartitionEntry_OffsetIsValid :
  forall o, go_MEPartitionEntry_OffsetIsValid o = TightenMe.offset_is_valid o.
Proof. exact go_MEPartitionEntry_OffsetIsValid_tie. Qed.
Print Assumptions C12_kernel_MEPartitionEntry_OffsetIsValid.

Theorem C12_kernel_IsErased :
  forall buf pol, go_IsErased buf pol = TightenMe.is_erased buf pol.
Proof. exact go_IsErased_flash_tie. Qed.
Print Assumptions C12_kernel_IsErased.

Theorem C12_kernel_FindSignature :
  forall b, go_FindSignature b = TightenMe.find_signature b.
Proof. exact go_FindSignature_tie. Qed.
Print Assumptions C12_kernel_FindSignature.


(* ---- format constants ----
   The models take their format constants from Gen/Consts.v, which is regenerated from /repo's
   source on every run; Spec/ConstPins.v (committed, written by bin/mkpins) pins every one of them
   to the value the specifications give it.  A constant that drifts in the Go source breaks this
   theorem instead of being silently followed by model and generator. *)
From Fiano Require Spec.ConstPins.
Theorem C12_format_constants_pinned : Spec.ConstPins.pinned_c12.
Proof. exact Spec.ConstPins.pins_c12. Qed.
Print Assumptions C12_format_constants_pinned.
