(* Properties/C16.v — integrity verdicts are bound to exactly the covered bytes and key.
   Only statements; every proof is [exact <lemma of Proofs/IntegrityProofs.v>].

   PARTIAL BY NATURE.  RSA / ECDSA / SM2 / SHA are not modelled: they are the universally
   quantified functions [verify], [hash], [sign] below.  What is proved is which bytes
   and which key reach those functions (binding, coverage, non-interference) and that the
   encodings are lossless.  "A changed bit is rejected" then follows only under the
   idealisations that are written out as hypotheses of the theorems that use them
   (C16_ks_verify_binding, C16_sign_then_verify); it is tested with real keys by the
   executor's oracles, not proved. *)
From Fiano Require Import Base.Bytes Base.BytesLemmas Gen.Consts Model.Integrity Proofs.IntegrityProofs.
Open Scope Z_scope.

(* ---------------- encodings ---------------- *)

Theorem C16_reverse_involutive : forall b, reverse_bytes (reverse_bytes b) = b.
Proof. exact reverse_involutive. Qed.
Print Assumptions C16_reverse_involutive.

(* PubKey (SetPubKey k) = k for every RSA key whose modulus has fewer than 8192 bytes
   (the size field is a uint16 count of bits): exponent as u32, modulus little-endian.
   CBnT and Boot Guard 1.0 *)
Theorem C16_rsa_key_roundtrip : forall n e, 0 <= n -> bytelen n < 8192 -> 0 <= e < 2 ^ 32 ->
  (exists k, set_pub_key (PubRSA n e) = Ok k /\ pub_key k = Ok (PubRSA n e)) /\
  (exists k, bg_set_pub_key (PubRSA n e) = Ok k /\ bg_pub_key k = Ok (PubRSA n e)).
Proof. exact rsa_key_roundtrip_both. Qed.
Print Assumptions C16_rsa_key_roundtrip.

(* the converse on bytes: a stored key whose top modulus byte [x] is non-zero is reproduced *)
Theorem C16_rsa_key_roundtrip_bytes : forall e m x,
  0 <= e < 2 ^ 32 -> bytes_ok m = true -> 0 < x < 256 -> zlen m + 1 < 8192 ->
  let k := mkKey c16_alg_rsa 16 (8 * (zlen m + 1)) (le_enc 4 e ++ m ++ [x]) in
  pub_key k = Ok (PubRSA (le_dec (m ++ [x])) e) /\
  set_pub_key (PubRSA (le_dec (m ++ [x])) e) = Ok k.
Proof. exact rsa_key_roundtrip_bytes. Qed.
Print Assumptions C16_rsa_key_roundtrip_bytes.

(* (r, s) stored in two fields of w bytes each decode to (r, s), whatever their bit length *)
Theorem C16_rs_fixed_width : forall w r s, 0 <= w -> 0 <= r < 256 ^ w -> 0 <= s < 256 ^ w ->
  zlen (encode_rs w r s) = 2 * w /\
  le_dec (zfirstn w (encode_rs w r s)) = r /\ le_dec (zskipn w (encode_rs w r s)) = s.
Proof. exact rs_fixed_width. Qed.
Print Assumptions C16_rs_fixed_width.

(* SetSignatureByData accepts every (r, s) below 2^384 and SignatureData returns it;
   below 2^256 the data is 64 bytes and the key size 256 bits.  ECDSA and SM2 *)
Theorem C16_ec_signature_roundtrip : forall m r s ha, 0 <= r < 2 ^ 384 -> 0 <= s < 2 ^ 384 ->
  (exists m', set_signature_by_data m (SigECDSA r s) ha = Ok m' /\
              signature_data m' = Ok (SigECDSA r s) /\
              (r < 2 ^ 256 -> s < 2 ^ 256 -> zlen (s_data m') = 64 /\ s_keysize m' = 256)) /\
  (exists m', set_signature_by_data m (SigSM2 r s) ha = Ok m' /\ signature_data m' = Ok (SigSM2 r s)).
Proof. exact ec_signature_roundtrip. Qed.
Print Assumptions C16_ec_signature_roundtrip.

(* SetPubKey accepts every point with coordinates below 2^256 and PubKey returns it *)
Theorem C16_ecc_key_roundtrip : forall x y, 0 <= x < 2 ^ 256 -> 0 <= y < 2 ^ 256 ->
  (exists k, set_pub_key (PubECC x y) = Ok k /\ pub_key k = Ok (PubECC x y) /\ zlen (k_data k) = 64) /\
  (exists k, set_pub_key (PubSM2 x y) = Ok k /\ pub_key k = Ok (PubSM2 x y) /\ zlen (k_data k) = 64).
Proof. exact ecc_key_roundtrip. Qed.
Print Assumptions C16_ecc_key_roundtrip.

(* ---------------- KeySignature.Verify ---------------- *)

(* the verdict depends on the key algorithm, the key size in bytes, the key data, the
   signature scheme, hash algorithm (CBnT only; Boot Guard 1.0 always uses SHA-256) and data,
   and the signed bytes — on nothing else *)
Theorem C16_ks_verify_depends_only_on : forall verify ks ks' data,
  k_alg (ks_key ks) = k_alg (ks_key ks') ->
  in_bytes (k_size (ks_key ks)) = in_bytes (k_size (ks_key ks')) ->
  k_data (ks_key ks) = k_data (ks_key ks') ->
  s_scheme (ks_sig ks) = s_scheme (ks_sig ks') ->
  s_data (ks_sig ks) = s_data (ks_sig ks') ->
  (s_hashalg (ks_sig ks) = s_hashalg (ks_sig ks') -> ks_verify verify ks data = ks_verify verify ks' data) /\
  bg_ks_verify verify ks data = bg_ks_verify verify ks' data.
Proof. exact ks_verify_depends_only_on_both. Qed.
Print Assumptions C16_ks_verify_depends_only_on.

(* success means: an RSA key of consistent size, RSASSA or RSAPSS with SHA-256/384, and the
   verification oracle accepted exactly (decoded key, scheme, hash, signed bytes, signature bytes) *)
Theorem C16_ks_verify_ok_inv : forall verify ks data, ks_verify verify ks data = Ok tt ->
  exists n e,
    pub_key (ks_key ks) = Ok (PubRSA n e) /\
    k_alg (ks_key ks) = c16_alg_rsa /\
    zlen (k_data (ks_key ks)) = in_bytes (k_size (ks_key ks)) + 4 /\
    n = le_dec (zskipn 4 (k_data (ks_key ks))) /\ e = rd 0 4 (k_data (ks_key ks)) /\
    (s_scheme (ks_sig ks) = c16_alg_rsapss \/ s_scheme (ks_sig ks) = c16_alg_rsassa) /\
    (s_hashalg (ks_sig ks) = c16_alg_sha256 \/ s_hashalg (ks_sig ks) = c16_alg_sha384) /\
    verify (PubRSA n e) (s_scheme (ks_sig ks)) (s_hashalg (ks_sig ks)) data (s_data (ks_sig ks)) = true.
Proof. exact ks_verify_ok_inv. Qed.
Print Assumptions C16_ks_verify_ok_inv.

(* IDEALISATION (hypothesis): a signature value is valid for at most one key and message.
   Then two successful verdicts over the same signature bytes have the same key and data. *)
Theorem C16_ks_verify_binding : forall verify,
  (forall k sc h m k' sc' h' m' s, verify k sc h m s = true -> verify k' sc' h' m' s = true ->
                                   k = k' /\ m = m') ->
  forall ks ks' d d', ks_verify verify ks d = Ok tt -> ks_verify verify ks' d' = Ok tt ->
    s_data (ks_sig ks) = s_data (ks_sig ks') ->
    pub_key (ks_key ks) = pub_key (ks_key ks') /\ d = d'.
Proof. exact ks_verify_binding. Qed.
Print Assumptions C16_ks_verify_binding.

Theorem C16_bg_ks_verify_ok_inv : forall verify ks data, bg_ks_verify verify ks data = Ok tt ->
  k_alg (ks_key ks) = c16_bg_alg_rsa /\
  zlen (k_data (ks_key ks)) = in_bytes (k_size (ks_key ks)) + 4 /\
  s_scheme (ks_sig ks) = c16_bg_alg_rsassa /\
  verify (PubRSA (le_dec (zskipn 4 (k_data (ks_key ks)))) (rd 0 4 (k_data (ks_key ks))))
         c16_bg_alg_rsassa c16_alg_sha256 data (s_data (ks_sig ks)) = true.
Proof. exact bg_ks_verify_ok_inv. Qed.
Print Assumptions C16_bg_ks_verify_ok_inv.

(* ---------------- signing succeeds and verifies ---------------- *)

(* HYPOTHESIS rsa_signer_correct: what the RSA signer returns is accepted by the verification
   oracle for the public half of the key, the same scheme, hash and data.
   Then SetSignature followed by Verify succeeds for every RSA key (modulus < 8192 bytes),
   both schemes and both hashes the verifier supports, explicit or detected/defaulted. *)
Theorem C16_sign_then_verify : forall verify sign_rsa sign_ec ks sa ha n e d data sc h,
  rsa_signer_correct verify sign_rsa ->
  0 <= n -> bytelen n < 8192 -> 0 <= e < 2 ^ 32 ->
  sc = detect_scheme sa (PrivRSA n e d) ->
  (sc = c16_alg_rsapss /\ h = default_hash c16_alg_sha384 ha \/
   sc = c16_alg_rsassa /\ h = default_hash c16_alg_sha256 ha) ->
  (h = c16_alg_sha256 \/ h = c16_alg_sha384) ->
  exists ks', ks_set_signature sign_rsa sign_ec ks sa ha (PrivRSA n e d) data = Ok ks' /\
              ks_verify verify ks' data = Ok tt /\
              s_scheme (ks_sig ks') = sc /\ s_hashalg (ks_sig ks') = h.
Proof. exact sign_then_verify. Qed.
Print Assumptions C16_sign_then_verify.

(* ECDSA: SetSignature succeeds for every P-256 key and every (r, s) < 2^256 the signer returns;
   the structure holds the key and exactly that pair, each in 64 bytes, and names the hash the
   signer was given *)
Theorem C16_ec_set_signature_total : forall sign_rsa sign_ec ks sa ha x y d data r s,
  0 <= x < 2 ^ 256 -> 0 <= y < 2 ^ 256 ->
  detect_scheme sa (PrivECC x y d) = c16_alg_ecdsa ->
  cbnt_hash_size (default_hash c16_alg_sha512 ha) <> None ->
  sign_ec (PrivECC x y d) c16_alg_ecdsa (default_hash c16_alg_sha512 ha) data = (r, s) ->
  0 <= r < 2 ^ 256 -> 0 <= s < 2 ^ 256 ->
  exists ks', ks_set_signature sign_rsa sign_ec ks sa ha (PrivECC x y d) data = Ok ks' /\
              pub_key (ks_key ks') = Ok (PubECC x y) /\
              signature_data (ks_sig ks') = Ok (SigECDSA r s) /\
              zlen (s_data (ks_sig ks')) = 64 /\ zlen (k_data (ks_key ks')) = 64 /\
              s_hashalg (ks_sig ks') = default_hash c16_alg_sha512 ha.
Proof. exact ec_set_signature_total. Qed.
Print Assumptions C16_ec_set_signature_total.

(* Re-signing.  SetSignature on a structure that already holds a signature (signed earlier, or
   parsed from a manifest) gives exactly what it gives on any other structure: no field of the
   old signature survives.  Signature, KeySignature (also the boot policy manifest's PMSE
   element) and the key manifest (KeySignature and PubKeyHashAlg).  Together with
   C16_sign_then_verify, which holds for every previous structure [ks], every signing step of a
   sequence verifies *)
Theorem C16_set_signature_independent_of_old : forall sign_rsa sign_ec sa ha sk data,
  (forall m m', sig_set_signature sign_rsa sign_ec m sa ha sk data =
                sig_set_signature sign_rsa sign_ec m' sa ha sk data) /\
  (forall ks ks', ks_set_signature sign_rsa sign_ec ks sa ha sk data =
                  ks_set_signature sign_rsa sign_ec ks' sa ha sk data) /\
  (forall ks ks', km_set_signature sign_rsa sign_ec ks sa ha sk data =
                  km_set_signature sign_rsa sign_ec ks' sa ha sk data).
Proof. exact set_signature_independent_of_old. Qed.
Print Assumptions C16_set_signature_independent_of_old.

(* the recorded scheme is the scheme used and the recorded hash is the hash the signer was given:
   the requested one, or the default of the scheme used now when a null algorithm is requested *)
Theorem C16_set_signature_records_what_was_used : forall sign_rsa sign_ec m sa ha sk data m',
  sig_set_signature sign_rsa sign_ec m sa ha sk data = Ok m' ->
  let sc := detect_scheme sa sk in
  let h := default_hash (scheme_default_hash sc) ha in
  s_scheme m' = sc /\ s_ver m' = 16 /\ s_hashalg m' = h /\
  (sc = c16_alg_rsapss \/ sc = c16_alg_rsassa -> s_data m' = sign_rsa sk sc h data) /\
  (sc = c16_alg_ecdsa \/ sc = c16_alg_sm2 ->
     exists w, rs_width (fst (sign_ec sk sc h data)) (snd (sign_ec sk sc h data)) = Some w /\
               s_data m' = encode_rs w (fst (sign_ec sk sc h data)) (snd (sign_ec sk sc h data))).
Proof. exact set_signature_records_what_was_used. Qed.
Print Assumptions C16_set_signature_records_what_was_used.

(* ---------------- BPM key hash in the key manifest ---------------- *)

(* CBnT: success iff at least one entry carries the BPM-signing usage bit and every such entry
   holds, with the right length, the hash of the key data WITHOUT its first four bytes (the
   modulus; the exponent is not hashed), the key being RSA.  Boot Guard 1.0: the single digest *)
Theorem C16_bpm_key_hash_covers : forall hash k,
  (forall l, validate_bpm_key hash l k = Ok tt <->
     (exists e, In e l /\ bpm_applies e = true) /\
     (forall e, In e l -> bpm_applies e = true -> bpm_entry_good hash k e)) /\
  (forall alg buf, bg_validate_bpm_key hash alg buf k = Ok tt <->
     bg_hash_size alg = Some (zlen buf) /\ k_alg k = c16_bg_alg_rsa /\ 4 <= zlen (k_data k) /\
     buf = hash alg (zskipn 4 (k_data k))).
Proof. exact bpm_key_spec_both. Qed.
Print Assumptions C16_bpm_key_hash_covers.

Theorem C16_bpm_key_noninterference : forall hash l k k',
  k_alg k = k_alg k' -> 4 <= zlen (k_data k) -> 4 <= zlen (k_data k') ->
  zskipn 4 (k_data k) = zskipn 4 (k_data k') ->
  validate_bpm_key hash l k = validate_bpm_key hash l k'.
Proof. exact bpm_key_noninterference. Qed.
Print Assumptions C16_bpm_key_noninterference.

(* Key.Data[4:] is an unchecked slice: an RSA key with fewer than four data bytes panics
   (no verdict; recorded here because DESIGN suspected it) *)
Theorem C16_bpm_key_unchecked_slice : forall hash,
  exists l k, validate_bpm_key hash l k = Panic 21.
Proof. exact bpm_key_unchecked_slice. Qed.
Print Assumptions C16_bpm_key_unchecked_slice.

(* ---------------- IBB digest ---------------- *)

(* which ranges: the segments without flag bit 0, at offset base - (4GiB - size) (mod 2^64) *)
Theorem C16_ibb_hashed_ranges : forall segs fwsize b,
  In b (ibb_bounds segs fwsize) <->
  exists g, In g segs /\ Z.land (g_flags g) 1 <> 1 /\
            fst b = offset_of_phys (g_base g) fwsize /\ snd b = u64 (fst b + g_size g).
Proof. exact ibb_bounds_spec. Qed.
Print Assumptions C16_ibb_hashed_ranges.

(* verdict = (hash of the concatenated hashed segments, in order, = first digest of SE[0]);
   a range outside the firmware is an unchecked slice (panic).  CBnT and Boot Guard 1.0 *)
Theorem C16_ibb_digest_covers : forall hash fw,
  (forall se0 rest alg buf ds sz,
     se_digests se0 = (alg, buf) :: ds -> cbnt_hash_size alg = Some sz ->
     let bs := ibb_bounds (se_segments se0) (zlen fw) in
     validate_ibb hash (se0 :: rest) fw =
       if forallb (in_bounds fw) bs
       then verdict (bytes_eqb (hash alg (concat (map (fun b => sub (fst b) (snd b - fst b) fw) bs))) buf) I_MISMATCH
       else Panic 11) /\
  (forall alg buf segs rest sz,
     bg_hash_size alg = Some sz ->
     let bs := ibb_bounds segs (zlen fw) in
     bg_validate_ibb hash (((alg, buf), segs) :: rest) fw =
       if forallb (in_bounds fw) bs
       then verdict (bytes_eqb (hash alg (concat (map (fun b => sub (fst b) (snd b - fst b) fw) bs))) buf) I_MISMATCH
       else Panic 11).
Proof. exact ibb_digest_covers_both. Qed.
Print Assumptions C16_ibb_digest_covers.

(* bytes outside the hashed ranges have no influence (on any outcome, not only success) *)
Theorem C16_ibb_noninterference : forall hash,
  (forall ses fw fw',
     match ses with
     | [] => True
     | se0 :: _ => agree_on (ibb_bounds (se_segments se0) (zlen fw)) fw fw'
     end -> validate_ibb hash ses fw = validate_ibb hash ses fw') /\
  (forall ses fw fw',
     match ses with
     | [] => True
     | (_, segs) :: _ => agree_on (ibb_bounds segs (zlen fw)) fw fw'
     end -> bg_validate_ibb hash ses fw = bg_validate_ibb hash ses fw').
Proof. exact ibb_noninterference_both. Qed.
Print Assumptions C16_ibb_noninterference.

(* ---------------- AMD PSB ---------------- *)

(* the two size conventions, uint32 wraps written out *)
Theorem C16_psb_ranges_uncompressed : forall size_signed size_image compressed sig_size,
  psp_ranges size_signed size_image 0 compressed sig_size =
    if size_image <=? sig_size then Err P_IMAGE_LE_SIG
    else Ok (u32 (size_signed + psp_header_size),
             (size_image - sig_size, u32 (size_image - sig_size + sig_size))).
Proof. exact psp_ranges_uncompressed. Qed.
Print Assumptions C16_psb_ranges_uncompressed.

Theorem C16_psb_ranges_compressed : forall size_signed size_image compression compressed sig_size,
  compression <> 0 ->
  let se := u32 (Z.land (u32 (compressed + 15)) (2 ^ 32 - 16) + psp_header_size) in
  psp_ranges size_signed size_image compression compressed sig_size =
    if u32 (se + sig_size) <=? sig_size then Err P_IMAGE_LE_SIG
    else Ok (se, (u32 (se + sig_size) - sig_size, u32 (u32 (se + sig_size) - sig_size + sig_size))).
Proof. exact psp_ranges_compressed. Qed.
Print Assumptions C16_psb_ranges_compressed.

(* a valid verdict: the key named by the header is in the key set, and the oracle accepted
   exactly raw[0, se) under raw[ss, sen), both inside the entry, se beyond the header *)
Theorem C16_psb_signed_ranges : forall verify ks raw k, psp_validate verify ks raw = Ok k ->
  c16_psp_hdr_wire <= zlen raw /\
  get_key ks (sub c16_psp_off_SignatureParameters 16 raw) = Some k /\
  pk_modsize k = pk_expsize k /\
  exists se ss sen,
    psp_ranges (rd c16_psp_off_SizeSigned 4 raw) (rd c16_psp_off_SizeImage 4 raw)
               (rd c16_psp_off_CompressionOptions 4 raw) (rd c16_psp_off_CompressedImageSize 4 raw)
               (pk_modsize k / 8) = Ok (se, (ss, sen)) /\
    0 <= ss <= sen /\ sen <= zlen raw /\ psp_header_size < se <= zlen raw /\
    new_signed_blob verify (sub ss (sen - ss) raw) (sub 0 se raw) k = Ok tt.
Proof. exact psb_signed_ranges. Qed.
Print Assumptions C16_psb_signed_ranges.

Theorem C16_psb_blob_verdict : forall verify sg signed k, new_signed_blob verify sg signed k = Ok tt ->
  psb_key_valid k = true /\
  exists n e, psb_key_get k = PubRSA n e /\ (bytelen n * 8 = 4096 \/ bytelen n * 8 = 2048) /\
              verify (PubRSA n e) c16_alg_rsapss (psb_hash_of n) signed sg = true.
Proof. exact new_signed_blob_ok_inv. Qed.
Print Assumptions C16_psb_blob_verdict.

(* bytes outside the header fields, the signed range and the signature have no influence *)
Theorem C16_psb_noninterference : forall verify ks raw raw',
  agree_on (psp_cover ks raw) raw raw' ->
  psp_validate verify ks raw = psp_validate verify ks raw'.
Proof. exact psb_noninterference. Qed.
Print Assumptions C16_psb_noninterference.

(* a token key is accepted only if its certifying key is a member of the key set and the oracle
   accepted the first 64 + 2*(ModulusSize/8) bytes under the (reversed) signature that follows
   header, exponent and modulus *)
Theorem C16_token_key_needs_member : forall verify ks raw k, token_key verify ks raw = Ok k ->
  exists pos sk,
    parse_token_or_root raw = Ok (k, pos) /\
    get_key ks (pk_certid k) = Some sk /\ In sk ks /\ pk_id sk = pk_certid k /\
    psb_key_valid sk = true /\
    pos + zlen (pk_modulus sk) <= zlen raw /\
    let len_signed := u32 (token_header_len + u32 (2 * pk_modsize k) / 8) in
    len_signed <= zlen raw /\
    new_signed_blob verify (psb_reverse (sub pos (zlen (pk_modulus sk)) raw)) (sub 0 len_signed raw) sk = Ok tt.
Proof. exact token_key_needs_member. Qed.
Print Assumptions C16_token_key_needs_member.

(* bytes of a token after the key material, the signature and the signed prefix have no influence *)
Theorem C16_token_key_noninterference : forall verify ks raw raw', bytes_ok raw = true ->
  agree_on (token_cover ks raw) raw raw' ->
  token_key verify ks raw = token_key verify ks raw'.
Proof. exact token_noninterference. Qed.
Print Assumptions C16_token_key_noninterference.

(* ---------------- RTM volume ---------------- *)

(* ValidateRTM from the extracted entries on.  A valid verdict: the OEM key is a usable 2048/4096-bit
   RSA key and the oracle accepted exactly volume ++ (level 1 directory, at level 2 only) ++ directory
   of the level, under the byte-reversed signature entry *)
Theorem C16_rtm_signed_data : forall verify level rtm l1 ln sg k,
  validate_rtm verify level rtm l1 ln sg k = Ok tt ->
  psb_key_valid k = true /\
  exists n e, psb_key_get k = PubRSA n e /\ (bytelen n * 8 = 4096 \/ bytelen n * 8 = 2048) /\
              verify (PubRSA n e) c16_alg_rsapss (psb_hash_of n)
                     (rtm ++ (if level =? 2 then l1 else []) ++ ln) (psb_reverse sg) = true.
Proof. exact validate_rtm_ok_inv. Qed.
Print Assumptions C16_rtm_signed_data.

(* at level 1 the level 1 directory enters once (as the directory of the level), nothing else of it *)
Theorem C16_rtm_level1 : forall verify level rtm l1 l1' ln sg k, level <> 2 ->
  validate_rtm verify level rtm l1 ln sg k = validate_rtm verify level rtm l1' ln sg k.
Proof. exact validate_rtm_level1. Qed.
Print Assumptions C16_rtm_level1.

(* IDEALISATION (hypothesis, as in C16_ks_verify_binding): a signature value is valid for at most one
   key and message.  Then two valid verdicts over the same signature entry have the same key and the
   same signed bytes: no bit of the volume or of the directories can change *)
Theorem C16_rtm_binding : forall verify,
  (forall k sc h m k' sc' h' m' s, verify k sc h m s = true -> verify k' sc' h' m' s = true ->
                                   k = k' /\ m = m') ->
  forall level rtm l1 ln level' rtm' l1' ln' sg k k',
    validate_rtm verify level rtm l1 ln sg k = Ok tt ->
    validate_rtm verify level' rtm' l1' ln' sg k' = Ok tt ->
    psb_key_get k = psb_key_get k' /\
    rtm_signed_data level rtm l1 ln = rtm_signed_data level' rtm' l1' ln'.
Proof. exact validate_rtm_binding. Qed.
Print Assumptions C16_rtm_binding.

(* ---- non-vacuity: concrete inputs meet the hypotheses ---- *)

Definition ex_n : Z := 2 ^ 255 + 12345.
Example ex_rsa : exists k, set_pub_key (PubRSA ex_n 65537) = Ok k /\ pub_key k = Ok (PubRSA ex_n 65537) /\
                           zlen (k_data k) = 36 /\ k_size k = 256.
Proof. eexists. vm_compute. repeat split; reflexivity. Qed.

(* a short r (247 bits) and a full-length s *)
Example ex_rs : set_signature_by_data (mkSig 0 0 0 0 []) (SigECDSA (2 ^ 246 + 5) (2 ^ 255 + 7)) 0 =
                Ok (mkSig c16_alg_ecdsa 0 256 c16_alg_sha512 (encode_rs 32 (2 ^ 246 + 5) (2 ^ 255 + 7))) /\
                decode_rs (encode_rs 32 (2 ^ 246 + 5) (2 ^ 255 + 7)) = Ok (2 ^ 246 + 5, 2 ^ 255 + 7).
Proof. vm_compute. split; reflexivity. Qed.

(* an oracle that accepts one tuple; ks_verify succeeds on it and fails on a changed message *)
Definition ex_key : key := set_pub_key_rsa c16_alg_rsa ex_n 65537.
Definition ex_verify (pk : pubkey) (sc h : Z) (m s : bytes) : bool :=
  match pk with
  | PubRSA n e => (n =? ex_n) && (e =? 65537) && (sc =? c16_alg_rsassa) && (h =? c16_alg_sha256) &&
                  bytes_eqb m [1; 2; 3] && bytes_eqb s [9; 9]
  | _ => false
  end.
Definition ex_ks : keysig := mkKS 16 ex_key (mkSig c16_alg_rsassa 16 16 c16_alg_sha256 [9; 9]).
Example ex_ks_verify : ks_verify ex_verify ex_ks [1; 2; 3] = Ok tt /\
                       ks_verify ex_verify ex_ks [1; 2; 4] = Err E_VERIFY.
Proof. vm_compute. split; reflexivity. Qed.

(* IBB: 32-byte firmware, two hashed segments and one skipped by its flag; hash = identity *)
Definition ex_fw : bytes := map Z.of_nat (seq 0 32).
Definition ex_se : se := mkSE [(c16_alg_sha256, [4; 5; 6; 7; 16; 17])]
  [mkSeg 0 (2 ^ 32 - 32 + 4) 4; mkSeg 1 (2 ^ 32 - 32 + 8) 8; mkSeg 2 (2 ^ 32 - 32 + 16) 2].
Example ex_ibb : validate_ibb (fun _ x => x) [ex_se] ex_fw = Ok tt /\
                 forallb (in_bounds ex_fw) (ibb_bounds (se_segments ex_se) (zlen ex_fw)) = true /\
                 agree_on (ibb_bounds (se_segments ex_se) (zlen ex_fw)) ex_fw (splice 9 [255] ex_fw).
Proof.
  split; [vm_compute; reflexivity|]. split; [vm_compute; reflexivity|].
  split; [vm_compute; reflexivity|].
  intros i (b & Hb & Hi). vm_compute in Hb.
  destruct Hb as [<-|[<-|[]]]; cbn [fst snd] in Hi; symmetry.
  - apply nth_error_splice_lo; [lia|vm_compute; congruence|lia].
  - apply nth_error_splice_hi; [lia|vm_compute; congruence|]. change (zlen [255]) with 1. lia.
Qed.

(* BPM key: one entry with the usage bit; hash = identity *)
Example ex_bpm : validate_bpm_key (fun _ x => zfirstn 32 x) [mkKmHash 1 c16_alg_sha256 (zfirstn 32 (zskipn 4 (k_data ex_key)))] ex_key = Ok tt.
Proof. vm_compute. reflexivity. Qed.

(* PSB: a 2048-bit key (modulus 2^2047+1, exponent 65537) in the key set, an uncompressed entry
   with 16 signed bytes after the header, an 8-byte gap, the signature and a 3-byte tail;
   the oracle accepts exactly raw[0,272) under raw[280,536) *)
Definition ex_psb_id : bytes := map Z.of_nat (seq 1 16).
Definition ex_psb_key : psbkey :=
  mkPsbKey 1 ex_psb_id ex_psb_id 0 (zrepeat 0 16) 2048 2048
           (le_enc 256 65537) (le_enc 256 (2 ^ 2047 + 1)).
Definition ex_psb_hdr : bytes :=
  zrepeat 0 20 ++ le_enc 4 16 ++ zrepeat 0 32 ++ ex_psb_id ++ le_enc 4 0 ++ zrepeat 0 8 ++ le_enc 4 0 ++
  zrepeat 0 20 ++ le_enc 4 536 ++ zrepeat 0 144.
Definition ex_psb_raw : bytes := ex_psb_hdr ++ zrepeat 7 16 ++ zrepeat 0 8 ++ zrepeat 9 256 ++ [1; 2; 3].
Definition ex_psb_verify (pk : pubkey) (sc h : Z) (m s : bytes) : bool :=
  bytes_eqb m (zfirstn 272 ex_psb_raw) && bytes_eqb s (zrepeat 9 256) && (h =? c16_alg_sha256).
Example ex_psb : zlen ex_psb_hdr = 256 /\
  psp_validate ex_psb_verify [ex_psb_key] ex_psb_raw = Ok ex_psb_key /\
  psp_cover [ex_psb_key] ex_psb_raw = [(0, 208); (0, 272); (280, 536)] /\
  psp_validate ex_psb_verify [ex_psb_key] (splice 275 [255] ex_psb_raw) = Ok ex_psb_key /\
  psp_validate ex_psb_verify [ex_psb_key] (splice 100 [255] ex_psb_raw) = Err P_SIGCHECK.
Proof. vm_compute. repeat split; reflexivity. Qed.

(* RTM volume [1;2;3], level 1 directory [7;7], level 2 directory [9], signature entry [4;5] (stored reversed):
   valid at level 2, not at level 1 (the level 1 directory is not part of the data there), and not with a
   changed byte of the level 1 directory *)
Definition ex_rtm_verify (pk : pubkey) (sc h : Z) (m s : bytes) : bool :=
  bytes_eqb m [1; 2; 3; 7; 7; 9] && bytes_eqb s [5; 4] && (h =? c16_alg_sha256).
Example ex_rtm :
  validate_rtm ex_rtm_verify 2 [1; 2; 3] [7; 7] [9] [4; 5] ex_psb_key = Ok tt /\
  validate_rtm ex_rtm_verify 1 [1; 2; 3] [7; 7] [9] [4; 5] ex_psb_key = Err P_SIGCHECK /\
  validate_rtm ex_rtm_verify 2 [1; 2; 3] [7; 6] [9] [4; 5] ex_psb_key = Err P_SIGCHECK.
Proof. vm_compute. repeat split; reflexivity. Qed.

(* re-signing: a structure holding an RSAPSS/SHA-384 signature, signed again with detection
   (a 2048-bit modulus gives RSASSA) and a null hash, records SHA-256 *)
Definition ex_old_sig : sigrec := mkSig c16_alg_rsapss 16 2048 c16_alg_sha384 (zrepeat 7 256).
Example ex_resign :
  sig_set_signature (fun _ _ _ _ => [1; 2]) (fun _ _ _ _ => (1, 1)) ex_old_sig 0 0 (PrivRSA (2 ^ 2047 + 1) 65537 0) [5] =
  Ok (mkSig c16_alg_rsassa 16 16 c16_alg_sha256 [1; 2]).
Proof. vm_compute. reflexivity. Qed.

(* ---- format constants ----
   The models take their format constants from Gen/Consts.v, which is regenerated from /repo's
   source on every run; Spec/ConstPins.v (committed, written by bin/mkpins) pins every one of them
   to the value the specifications give it.  A constant that drifts in the Go source breaks this
   theorem instead of being silently followed by model and generator. *)
From Fiano Require Spec.ConstPins.
Theorem C16_format_constants_pinned : Spec.ConstPins.pinned_c16.
Proof. exact Spec.ConstPins.pins_c16. Qed.
Print Assumptions C16_format_constants_pinned.

(* the hash algorithms and digest lengths the model was generated with (Gen/Consts.v is
   regenerated from the source on every check) are the standard ones: SHA-1, SHA-256, SHA-384,
   SHA-512, SM3 for CBnT; SHA-1, SHA-256 for Boot Guard 1.0 *)
Example ex_hash_table :
  c16_cbnt_hash_ids = [4; 11; 12; 13; 18] /\ c16_cbnt_hash_sizes = [20; 32; 48; 64; 32] /\
  c16_bg_hash_ids = [4; 11] /\ c16_bg_hash_sizes = [20; 32] /\
  cbnt_hash_size c16_alg_sha512 = Some 64 /\ cbnt_hash_size c16_alg_sha384 = Some 48.
Proof. repeat split; reflexivity. Qed.
