(* Properties/C06.v — compressed and nested content survives a save, and saving is a fixed point.
   Only statements; every proof is [exact <lemma of Proofs/FfsCodecProofs.v>].

   The codecs are parameters [dec]/[enc] (by kind: 1 LZMA, 2 LZMAX86, 3 ZLIB, 4 BROTLI) with the single
   hypothesis  enc k x = Some y -> dec k y = Some x  (no converse, no byte stability);
   [u2s]/[s2u] (UCS-2 <-> UTF-8) and [nvar] are parameters without any hypothesis: what the theorems
   need of them is part of the per-node conditions [leaf_ok]/[leaf_stable] of [wf].

   Vocabulary (Proofs/FfsCodecProofs.v):
     deep t     the fully decompressed tree: kinds, identifying header fields, leaf bodies, through
                compressed sections and nested volumes (no sizes, checksums, compressed bytes, pad files)
     wf pol t   shape of a parsed tree of the reference grammar: leaf sections that parse to themselves
                (leaf_ok) and that Assemble leaves alone (leaf_stable: every type but UI/version/depex,
                and those when already canonical), GUID-defined sections decoded by a known codec
                around such sections (any nesting), files holding such sections, section-less files
     small t1   every buffer of the saved tree is below 4 GiB (no uint32 wrap in GenSecHeader)
     strip      forgets FileOrder / DataOffset metadata

   STAGES of C06_semantic_preservation / C06_save_fixed_point
     stage 1 (sections: compressed sections nested to any depth around leaf sections)   PROVED
     stage 2 (files holding such sections)                                              PROVED
     stage 3 (volumes: FV-image sections, nested volumes, the BIOS region)              NOT PROVED
   so the two main theorems carry the suffix _partial: they are the full statement for a file (or a
   section) subtree.  The gap is exactly the volume layer: that parse_fv applied to the bytes
   asm_vol/place_files wrote finds the same files again (plus inserted pad files) and reads the
   same header fields.  The intended full statement:
     forall x t, parse_region d x = Ok t -> wf_region t ->
       deep (parse (save t)) = deep t  /\  save (parse (save t)) = save t.
   Volumes are covered by the correspondence run and the oracles of harness/cmd/c06. *)
From Fiano Require Import Base.Bytes Base.BytesLemmas Model.Ffs Proofs.FfsCodecProofs.
Open Scope Z_scope.

(* ---- stage 1, base case: one compressed section around leaf sections.  Parsing what GenSecHeader
   wrote around enc(join4 kids), in any context and at any index, yields the same children. ---- *)
Theorem C06_compressed_section_roundtrip :
  forall (dec enc : Z -> bytes -> option bytes) (u2s s2u : bytes -> bytes) (nvar : bytes -> option bytes),
  (forall k x y, enc k x = Some y -> dec k y = Some x) ->
  forall pol h g kids c,
  Forall (fun k => exists hk bk, k = NSec hk bk [] /\ leaf_ok dec u2s pol hk bk) kids ->
  s_type h = 2 -> s_gd h = Some g -> zlen (gd_guid g) = 16 -> 0 <= gd_attrs g < 65536 ->
  Z.land (gd_attrs g) 1 <> 0 -> codec_kind (gd_guid g) <> 0 ->
  enc (codec_kind (gd_guid g)) (join4 [] (map node_buf kids)) = Some c -> zlen c < SZ ->
  forall d rest i, (2 <= d)%nat ->
  exists h2 kids2,
    parse_section dec u2s nvar d pol (snd (gen_sec_header h c) ++ rest) i =
      Ok (NSec h2 (snd (gen_sec_header h c)) kids2, pol) /\
    map strip kids2 = map strip kids /\ map node_buf kids2 = map node_buf kids.
Proof. intros dec enc u2s s2u nvar. exact (compressed_leaves_roundtrip dec enc u2s s2u nvar). Qed.
Print Assumptions C06_compressed_section_roundtrip.

(* ---- stage 1: a section subtree (compressed sections nested to any depth) ---- *)
Theorem C06_semantic_preservation_sections :
  forall (dec enc : Z -> bytes -> option bytes) (u2s s2u : bytes -> bytes) (nvar : bytes -> option bytes),
  (forall k x y, enc k x = Some y -> dec k y = Some x) ->
  forall pol t, wf dec enc u2s s2u nvar pol t -> is_sec t ->
  forall st t1 st1, asm enc s2u t st = Ok (t1, st1) -> small t1 ->
  forall d rest i, (height t1 <= d)%nat ->
  exists t2, parse_section dec u2s nvar d pol (node_buf t1 ++ rest) i = Ok (t2, pol) /\ deep t2 = deep t.
Proof. exact sec_semantic_preservation. Qed.
Print Assumptions C06_semantic_preservation_sections.

Theorem C06_save_fixed_point_sections :
  forall (dec enc : Z -> bytes -> option bytes) (u2s s2u : bytes -> bytes) (nvar : bytes -> option bytes),
  (forall k x y, enc k x = Some y -> dec k y = Some x) ->
  forall pol t, wf dec enc u2s s2u nvar pol t -> is_sec t ->
  forall st t1 st1, asm enc s2u t st = Ok (t1, st1) -> small t1 ->
  forall d rest i t2, (height t1 <= d)%nat ->
  parse_section dec u2s nvar d pol (node_buf t1 ++ rest) i = Ok (t2, pol) ->
  forall st', exists t3 st3, asm enc s2u t2 st' = Ok (t3, st3) /\ node_buf t3 = node_buf t1.
Proof. exact sec_save_fixed_point. Qed.
Print Assumptions C06_save_fixed_point_sections.

(* ---- stage 2 = the furthest stage proved: a file with its sections.
   Save the tree, parse the written bytes (in any context): same decompressed tree ... ---- *)
Theorem C06_semantic_preservation_partial :
  forall (dec enc : Z -> bytes -> option bytes) (u2s s2u : bytes -> bytes) (nvar : bytes -> option bytes),
  (forall k x y, enc k x = Some y -> dec k y = Some x) ->
  forall pol t, wf dec enc u2s s2u nvar pol t -> is_file t ->
  forall st t1 st1, asm enc s2u t st = Ok (t1, st1) -> small t1 ->
  forall d rest, (height t1 <= d)%nat ->
  exists t2, parse_file dec u2s nvar d pol (node_buf t1 ++ rest) = Ok (Some t2, pol) /\ deep t2 = deep t.
Proof. exact file_semantic_preservation. Qed.
Print Assumptions C06_semantic_preservation_partial.

(* ... and saving the re-parsed tree writes the same bytes (enc is a function; nothing else is used) *)
Theorem C06_save_fixed_point_partial :
  forall (dec enc : Z -> bytes -> option bytes) (u2s s2u : bytes -> bytes) (nvar : bytes -> option bytes),
  (forall k x y, enc k x = Some y -> dec k y = Some x) ->
  forall pol t, wf dec enc u2s s2u nvar pol t -> is_file t ->
  forall st t1 st1, asm enc s2u t st = Ok (t1, st1) -> small t1 ->
  forall d rest t2, (height t1 <= d)%nat ->
  parse_file dec u2s nvar d pol (node_buf t1 ++ rest) = Ok (Some t2, pol) ->
  forall st', exists t3 st3, asm enc s2u t2 st' = Ok (t3, st3) /\ node_buf t3 = node_buf t1.
Proof. exact file_save_fixed_point. Qed.
Print Assumptions C06_save_fixed_point_partial.

(* ---- towards stage 3: the FV-image section Assemble writes around a nested volume [vb] parses, in any
   context, to a section whose only child is what the volume parser [rf] makes of exactly [vb].  With
   stage 2 for the file around it, what remains open is only: parse_fv applied to asm_vol's output. ---- *)
Theorem C06_fv_image_section_transparent :
  forall (dec : Z -> bytes -> option bytes) (u2s : bytes -> bytes) rs rf pol h vb h' nb rest i v2 pol',
  s_type h = 23 -> s_gd h = None -> 0 < zlen vb < SZ -> gen_sec_header h vb = (h', nb) ->
  rf pol vb 0 true = Ok (v2, pol') ->
  section_body dec u2s rs rf pol (nb ++ rest) i =
    Ok (NSec (sec_default (s_size3 h') 23 (s_ext h') (s_hlen h') i) nb [v2], pol') /\
  s_ext h' = zlen nb /\ zlen nb = s_hlen h' + zlen vb.
Proof. exact fvimage_section_transparent. Qed.
Print Assumptions C06_fv_image_section_transparent.

(* ---- idempotence, at full strength ---- *)

(* what Assemble wrote is a fixed point of Assemble: the very same node comes back *)
Theorem C06_assembled_is_fixed :
  forall (dec enc : Z -> bytes -> option bytes) (u2s s2u : bytes -> bytes) (nvar : bytes -> option bytes),
  (forall k x y, enc k x = Some y -> dec k y = Some x) ->
  forall pol t, wf dec enc u2s s2u nvar pol t ->
  forall st t1 st1, asm enc s2u t st = Ok (t1, st1) -> small t1 ->
  forall st', exists st'', asm enc s2u t1 st' = Ok (t1, st'').
Proof.
  intros dec enc u2s s2u nvar Hc pol t Hw st t1 st1 Ha Hs.
  exact (canon_asm_fixed dec enc u2s s2u nvar Hc pol t1
           (proj1 (asm_canon dec enc u2s s2u nvar Hc pol t Hw st t1 st1 Ha Hs))).
Qed.
Print Assumptions C06_assembled_is_fixed.

Theorem C06_gen_sec_header_idempotent : forall h body,
  gen_sec_header (fst (gen_sec_header h body)) body = gen_sec_header h body.
Proof. exact gen_sec_header_idem. Qed.
Print Assumptions C06_gen_sec_header_idempotent.

Theorem C06_checksum_and_assemble_idempotent : forall h ext attr data, zlen (f_guid h) = 16 ->
  checksum_and_assemble (fst (checksum_and_assemble h ext attr data)) ext attr data =
  checksum_and_assemble h ext attr data.
Proof. exact checksum_and_assemble_idem. Qed.
Print Assumptions C06_checksum_and_assemble_idempotent.

(* SetSize followed by ChecksumAndAssemble, as the File case of Assemble does *)
Theorem C06_file_regen_idempotent : forall h data, zlen (f_guid h) = 16 ->
  file_regen (fst (file_regen h data)) data = file_regen h data.
Proof. exact file_regen_idem. Qed.
Print Assumptions C06_file_regen_idempotent.

(* ---- an edit inside a nested volume: the volume grows in whole blocks, the block count is rewritten,
   enclosing section and file sizes are those of their content ---- *)
Theorem C06_nested_edit_sizes : forall pol ffs3 h buf files h' nb c s rest hdr b1,
  files <> [] -> v_resizable h = true -> v_blocks h = (c, s) :: rest ->
  slice 0 (v_dataoff h) buf = Some hdr ->
  place_files pol None hdr (v_dataoff h) files = Ok b1 ->     (* the files laid out after the header *)
  v_length h < zlen b1 ->                                      (* they no longer fit *)
  asm_vol pol ffs3 h buf files = Ok (h', nb) ->
  let len := align_go (zlen b1) s in
  v_length h' = len /\ v_blocks h' = ((len / s) mod U32, s) :: rest /\
  zlen nb = Z.max (zlen b1) len /\
  sub 32 8 nb = le_enc 8 len /\ sub 56 4 nb = le_enc 4 ((len / s) mod U32).
Proof. exact nested_volume_grows. Qed.
Print Assumptions C06_nested_edit_sizes.

(* Go's Align on a power-of-two block size rounds up to whole blocks *)
Theorem C06_align_whole_blocks : forall v k, 0 <= k < 64 -> 0 <= v -> v + 2 ^ k <= 2 ^ 64 ->
  align_go v (2 ^ k) = align v (2 ^ k) /\
  v <= align v (2 ^ k) < v + 2 ^ k /\ (align v (2 ^ k)) mod 2 ^ k = 0.
Proof. exact align_go_pow2. Qed.
Print Assumptions C06_align_whole_blocks.

(* the FV-image section around the volume (no GUID-defined header) and the file around the section *)
Theorem C06_enclosing_section_size : forall h body h' nb, s_gd h = None -> zlen body < SZ ->
  gen_sec_header h body = (h', nb) ->
  s_ext h' = zlen nb /\ zlen nb = s_hlen h' + zlen body /\ (s_hlen h' = 4 \/ s_hlen h' = 8) /\
  ((16777215 <? s_ext h') = (s_hlen h' =? 8)).
Proof. exact sec_sizes. Qed.
Print Assumptions C06_enclosing_section_size.

Theorem C06_enclosing_file_size : forall h data h' nb, zlen (f_guid h) = 16 -> zlen data < SZ ->
  file_regen h data = (h', nb) ->
  f_ext h' = zlen nb /\ (zlen nb = 24 + zlen data \/ zlen nb = 32 + zlen data) /\
  ((16777215 <? f_ext h') = attr_large (f_attr h')) /\
  sum8 (zskipn (zlen nb - zlen data) nb) = sum8 data.
Proof. exact file_sizes. Qed.
Print Assumptions C06_enclosing_file_size.

(* ---- the FFS2 -> FFS3 switch ---- *)

(* a re-assembled file (section) that comes out larger than 0xFFFFFF raises the flag ... *)
Theorem ffs3_file_raises : forall enc s2u h buf kids st h' nb kids' st',
  asm enc s2u (NFile h buf kids) st = Ok (NFile h' nb kids', st') -> kids <> [] -> 16777215 < f_ext h' ->
  snd st' = true.
Proof. exact file_raises. Qed.
Print Assumptions ffs3_file_raises.

Theorem ffs3_section_raises : forall enc s2u h buf kids st h' nb kids' st',
  asm enc s2u (NSec h buf kids) st = Ok (NSec h' nb kids', st') -> kids <> [] -> 16777215 < s_ext h' ->
  snd st' = true.
Proof. exact sec_raises. Qed.
Print Assumptions ffs3_section_raises.

(* ... and the volume that holds it — wherever it sits among the volume's files, whatever nested
   volumes its siblings hold — gets the FFS3 GUID in its header record and in bytes 16..32; the
   caller's flag is handed back unchanged (only the innermost enclosing volume switches) *)
Theorem ffs3_switch : forall enc s2u h buf l1 k l2 st h' nb kids' st',
  asm enc s2u (NVol h buf (l1 ++ k :: l2)) st = Ok (NVol h' nb kids', st') -> v_guid h = FFS2 ->
  (forall s k1 s1, asm enc s2u k s = Ok (k1, s1) -> snd s1 = true) ->
  v_guid h' = FFS3 /\ sub 16 16 nb = FFS3 /\ snd st' = snd st.
Proof. exact FfsCodecProofs.ffs3_switch. Qed.
Print Assumptions ffs3_switch.

(* ------------------------------------------------------------------------------------------ *)
(* Examples: a concrete tree meets the hypotheses (toy codec: a one-byte tag in front)          *)
(* ------------------------------------------------------------------------------------------ *)

Definition xenc (k : Z) (x : bytes) : option bytes := Some ((200 + k) :: x).
Definition xdec (k : Z) (y : bytes) : option bytes :=
  match y with t :: x => if t =? 200 + k then Some x else None | [] => None end.
Lemma xdec_xenc : forall k x y, xenc k x = Some y -> xdec k y = Some x.
Proof. intros k x y [= <-]. unfold xdec. rewrite Z.eqb_refl. reflexivity. Qed.
Definition idb (b : bytes) : bytes := b.
Definition nonv (_ : bytes) : option bytes := None.

(* two leaves, a compressed section inside a compressed section, a file around them *)
Definition ex_raw : node := NSec (mkSec 8 25 8 4 None [] 0 [] None 0) [8; 0; 0; 25; 1; 2; 3; 4] [].
Definition ex_pe : node := NSec (mkSec 5 16 5 4 None [] 0 [] None 0) [5; 0; 0; 16; 9] [].
Definition ex_inner : node :=
  NSec (mkSec 0 2 0 4 (Some (mkGd LZMAX86_GUID 24 1 2)) [] 0 [] None 0) [] [ex_pe].
Definition ex_outer : node :=
  NSec (mkSec 0 2 0 4 (Some (mkGd LZMA_GUID 24 1 1)) [] 0 [] None 0) [] [ex_raw; ex_inner; ex_pe].
Definition ex_guid : bytes := [1; 2; 3; 4; 5; 6; 7; 8; 9; 10; 11; 12; 13; 14; 15; 16].
Definition ex_file : node := NFile (mkFile ex_guid 0 0 2 64 0 248 0 24 None) [] [ex_outer; ex_raw].

Lemma ex_leaf_raw : wf xdec xenc idb idb nonv 255 ex_raw.
Proof.
  apply wf_leaf.
  - split; [vm_compute; reflexivity|]. intros H. vm_compute in H. discriminate.
  - vm_compute. reflexivity.
Qed.
Lemma ex_leaf_pe : wf xdec xenc idb idb nonv 255 ex_pe.
Proof.
  apply wf_leaf.
  - split; [vm_compute; reflexivity|]. intros H. vm_compute in H. discriminate.
  - vm_compute. reflexivity.
Qed.
Lemma ex_wf_inner : wf xdec xenc idb idb nonv 255 ex_inner.
Proof.
  apply (wf_comp xdec xenc idb idb nonv 255 _ _ _ (mkGd LZMAX86_GUID 24 1 2));
    try reflexivity; try discriminate; try (vm_compute; intuition discriminate).
  - apply Forall_cons; [exact ex_leaf_pe|apply Forall_nil].
  - apply Forall_cons; [exact I|apply Forall_nil].
Qed.
Lemma ex_wf_outer : wf xdec xenc idb idb nonv 255 ex_outer.
Proof.
  apply (wf_comp xdec xenc idb idb nonv 255 _ _ _ (mkGd LZMA_GUID 24 1 1));
    try reflexivity; try discriminate; try (vm_compute; intuition discriminate).
  - repeat (apply Forall_cons || apply Forall_nil); [exact ex_leaf_raw|exact ex_wf_inner|exact ex_leaf_pe].
  - repeat (apply Forall_cons || apply Forall_nil); exact I.
Qed.
Lemma ex_wf_file : wf xdec xenc idb idb nonv 255 ex_file.
Proof.
  apply wf_file; try reflexivity; try discriminate.
  - repeat (apply Forall_cons || apply Forall_nil); [exact ex_wf_outer|exact ex_leaf_raw].
  - repeat (apply Forall_cons || apply Forall_nil); exact I.
Qed.

(* hypotheses of the stage-1 and stage-2 theorems hold for the example, and the conclusion can be
   watched by computation: the saved file is 104 bytes, parses back, and has the same deep tree *)
Example ex_hypotheses :
  wf xdec xenc idb idb nonv 255 ex_file /\ is_file ex_file /\
  exists t1 st1, asm xenc idb ex_file (255, false) = Ok (t1, st1) /\ small t1 /\ (height t1 <= 4)%nat /\
    zlen (node_buf t1) = 104 /\
    exists t2, parse_file xdec idb nonv 4 255 (node_buf t1 ++ [255; 255]) = Ok (Some t2, 255) /\
               deep t2 = deep ex_file /\
               exists t3 st3, asm xenc idb t2 (255, false) = Ok (t3, st3) /\ node_buf t3 = node_buf t1.
Proof.
  split; [exact ex_wf_file|]. split; [exact I|].
  eexists. eexists. split; [vm_compute; reflexivity|].
  split; [vm_compute; intuition reflexivity|]. split; [vm_compute; repeat constructor|].
  split; [vm_compute; reflexivity|].
  eexists. split; [vm_compute; reflexivity|]. split; [vm_compute; reflexivity|].
  eexists. eexists. split; vm_compute; reflexivity.
Qed.

Example ex_section_hypotheses :
  wf xdec xenc idb idb nonv 255 ex_outer /\ is_sec ex_outer /\
  exists t1 st1, asm xenc idb ex_outer (255, false) = Ok (t1, st1) /\ small t1 /\ (height t1 <= 3)%nat.
Proof.
  split; [exact ex_wf_outer|]. split; [exact I|].
  eexists. eexists. split; [vm_compute; reflexivity|].
  split; [vm_compute; intuition reflexivity|]. vm_compute. repeat constructor.
Qed.

(* idempotence on a concrete header; a growing nested volume with 16-byte blocks *)
Example ex_idem :
  checksum_and_assemble (fst (checksum_and_assemble (mkFile ex_guid 7 9 2 64 0 248 0 24 None) 27 64 [1; 2; 3]))
                        27 64 [1; 2; 3] =
  checksum_and_assemble (mkFile ex_guid 7 9 2 64 0 248 0 24 None) 27 64 [1; 2; 3].
Proof. vm_compute. reflexivity. Qed.

Example ex_align : align_go 100 (2 ^ 4) = 112 /\ align 100 (2 ^ 4) = 112.
Proof. vm_compute. split; reflexivity. Qed.
