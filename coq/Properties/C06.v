(* Properties/C06.v — compressed and nested content survives a save, and saving is a fixed point.
   Only statements; every proof is [exact <lemma of Proofs/FfsCodecProofs.v>].

   The codecs are parameters [dec]/[enc] (by kind: 1 LZMA, 2 LZMAX86, 3 ZLIB, 4 BROTLI) with the single
   hypothesis  enc k x = Some y -> dec k y = Some x  (no converse, no byte stability);
   [u2s]/[s2u] (UCS-2 <-> UTF-8) and [nvar] are parameters without any hypothesis: what the theorems
   need of them is part of the per-node conditions [leaf_ok]/[leaf_stable] of [wf].

   Vocabulary (Proofs/FfsCodecProofs.v):
     deep t     the fully decompressed tree: kinds, identifying header fields, leaf bodies, through
                compressed sections and nested volumes (no sizes, checksums, compressed bytes, pad files)
     wf pol t   shape of a parsed tree of the reference grammar: leaf sections that parse to themselves
                (leaf_ok) and that Assemble leaves alone (leaf_stable: every type but UI/version/depex,
                and those when already canonical), GUID-defined sections decoded by a known codec
                around such sections (any nesting), files holding such sections, section-less files
     small t1   every buffer of the saved tree is below 4 GiB (no uint32 wrap in GenSecHeader)
     strip      forgets FileOrder / DataOffset metadata

   STAGES of C06_semantic_preservation / C06_save_fixed_point — all three are PROVED:
     stage 1 (sections: compressed sections nested to any depth around leaf sections)
     stage 2 (files holding such sections)
     stage 3 (volumes — top level or nested through FV-image sections inside compressed sections
              inside files inside volumes ..., to any depth)
   The volume-level theorems keep the suffix _partial because they cover the volumes of the
   reference grammar (Model/FfsSpec.v vol_bytes_x) and stop below the BIOS region:
     * erase polarity 0xFF; header = 56 fixed bytes + block map (any number of entries) + terminator,
       optionally followed by an extended header; at least one file
     * [laid t1] (a condition on the SAVED tree, like [small t1]): inside volumes every node is
       below 16 MiB (so the FFS3 flag is never raised: that switch is ffs3_switch), the files meet
       their data alignment at their natural position (Assemble inserts no new pad file) and their
       total size is below 2^63
     * a nested volume whose files no longer fit grows to whole blocks; this needs a power-of-two
       block size >= 8 and a single block-map entry (hypotheses of wf_vol for resizable volumes);
       the old length is a multiple of 8
     * NOT covered: the BIOS-region / flash-image level (asm_bios, parse_bios), volumes emptied of
       all files, NVAR stores.
   [wf] now also has FV-image sections around a nested volume and volumes whose header record and
   first bytes are the reference header (what the parser returns for such a volume); for those the
   polarity parameter is 255. *)
From Fiano Require Import Base.Bytes Base.BytesLemmas Model.Ffs Model.FfsSpec Proofs.FfsVolLemmas Proofs.FfsCodecProofs Proofs.FfsCodecLeaf.
Open Scope Z_scope.

(* ---- stage 1, base case: one compressed section around leaf sections.  Parsing what GenSecHeader
   wrote around enc(join4 kids), in any context and at any index, yields the same children. ---- *)
Theorem C06_compressed_section_roundtrip :
  forall (dec enc : Z -> bytes -> option bytes) (u2s s2u : bytes -> bytes) (nvar : bytes -> option bytes),
  (forall k x y, enc k x = Some y -> dec k y = Some x) ->
  forall pol h g kids c,
  Forall (fun k => exists hk bk, k = NSec hk bk [] /\ leaf_ok dec u2s pol hk bk) kids ->
  s_type h = 2 -> s_gd h = Some g -> zlen (gd_guid g) = 16 -> 0 <= gd_attrs g < 65536 ->
  Z.land (gd_attrs g) 1 <> 0 -> codec_kind (gd_guid g) <> 0 ->
  enc (codec_kind (gd_guid g)) (join4 [] (map node_buf kids)) = Some c -> zlen c < SZ ->
  forall d rest i, (2 <= d)%nat ->
  exists h2 kids2,
    parse_section dec u2s nvar d pol (snd (gen_sec_header h c) ++ rest) i =
      Ok (NSec h2 (snd (gen_sec_header h c)) kids2, pol) /\
    map strip kids2 = map strip kids /\ map node_buf kids2 = map node_buf kids.
Proof. intros dec enc u2s s2u nvar. exact (compressed_leaves_roundtrip dec enc u2s s2u nvar). Qed.
Print Assumptions C06_compressed_section_roundtrip.

(* ---- stage 1, the other base case: a compressed section whose payload the codec REJECTS (a damaged or
   truncated stream). NewSection keeps it as a section without children, Assemble leaves it alone: it
   satisfies the two leaf conditions of [wf], so every theorem below covers trees that hold such sections
   next to decodable ones (the saved bytes of such a section are the old bytes). No codec hypothesis. ---- *)
Theorem C06_undecodable_section_is_leaf :
  forall (dec enc : Z -> bytes -> option bytes) (u2s s2u : bytes -> bytes) (nvar : bytes -> option bytes),
  forall pol h h' g c buf i,
  s_type h = 2 -> s_gd h = Some g -> zlen (gd_guid g) = 16 -> 0 <= gd_attrs g < 65536 ->
  Z.land (gd_attrs g) 1 <> 0 -> codec_kind (gd_guid g) <> 0 ->
  dec (codec_kind (gd_guid g)) c = None ->        (* the payload does not decode *)
  zlen c < SZ ->
  gen_sec_header h c = (h', buf) ->               (* the section as written: header, GUID, DataOffset, attributes, payload *)
  let hp := mkSec (s_size3 h') 2 (s_ext h') (s_hlen h')
                  (Some (mkGd (gd_guid g) (s_hlen h' + 20) (gd_attrs g) 0)) [] 0 [] None i in
  leaf_ok dec u2s pol hp buf /\ leaf_stable enc s2u hp buf /\ wf dec enc u2s s2u nvar pol (NSec hp buf []).
Proof. intros dec enc u2s s2u nvar. exact (undecodable_section_is_leaf dec enc u2s s2u nvar). Qed.
Print Assumptions C06_undecodable_section_is_leaf.

(* ---- stage 1: a section subtree (compressed sections nested to any depth; FV-image sections with
   nested volumes are covered through stage 3) ---- *)
Theorem C06_semantic_preservation_sections :
  forall (dec enc : Z -> bytes -> option bytes) (u2s s2u : bytes -> bytes) (nvar : bytes -> option bytes),
  (forall k x y, enc k x = Some y -> dec k y = Some x) ->
  forall pol t, wf dec enc u2s s2u nvar pol t -> is_sec t ->
  forall f t1 st1, asm enc s2u t (pol, f) = Ok (t1, st1) -> small t1 -> laid t1 ->
  forall d rest i, (height t1 <= d)%nat ->
  exists t2, parse_section dec u2s nvar d pol (node_buf t1 ++ rest) i = Ok (t2, pol) /\ deep t2 = deep t.
Proof. exact sec_semantic_preservation. Qed.
Print Assumptions C06_semantic_preservation_sections.

Theorem C06_save_fixed_point_sections :
  forall (dec enc : Z -> bytes -> option bytes) (u2s s2u : bytes -> bytes) (nvar : bytes -> option bytes),
  (forall k x y, enc k x = Some y -> dec k y = Some x) ->
  forall pol t, wf dec enc u2s s2u nvar pol t -> is_sec t ->
  forall f t1 st1, asm enc s2u t (pol, f) = Ok (t1, st1) -> small t1 -> laid t1 ->
  forall d rest i t2, (height t1 <= d)%nat ->
  parse_section dec u2s nvar d pol (node_buf t1 ++ rest) i = Ok (t2, pol) ->
  forall f', exists t3 st3, asm enc s2u t2 (pol, f') = Ok (t3, st3) /\ node_buf t3 = node_buf t1.
Proof. exact sec_save_fixed_point. Qed.
Print Assumptions C06_save_fixed_point_sections.

(* ---- stage 2: a file with its sections ---- *)
Theorem C06_semantic_preservation_files :
  forall (dec enc : Z -> bytes -> option bytes) (u2s s2u : bytes -> bytes) (nvar : bytes -> option bytes),
  (forall k x y, enc k x = Some y -> dec k y = Some x) ->
  forall pol t, wf dec enc u2s s2u nvar pol t -> is_file t ->
  forall f t1 st1, asm enc s2u t (pol, f) = Ok (t1, st1) -> small t1 -> laid t1 ->
  forall d rest, (height t1 <= d)%nat ->
  exists t2, parse_file dec u2s nvar d pol (node_buf t1 ++ rest) = Ok (Some t2, pol) /\ deep t2 = deep t.
Proof. exact file_semantic_preservation. Qed.
Print Assumptions C06_semantic_preservation_files.

Theorem C06_save_fixed_point_files :
  forall (dec enc : Z -> bytes -> option bytes) (u2s s2u : bytes -> bytes) (nvar : bytes -> option bytes),
  (forall k x y, enc k x = Some y -> dec k y = Some x) ->
  forall pol t, wf dec enc u2s s2u nvar pol t -> is_file t ->
  forall f t1 st1, asm enc s2u t (pol, f) = Ok (t1, st1) -> small t1 -> laid t1 ->
  forall d rest t2, (height t1 <= d)%nat ->
  parse_file dec u2s nvar d pol (node_buf t1 ++ rest) = Ok (Some t2, pol) ->
  forall f', exists t3 st3, asm enc s2u t2 (pol, f') = Ok (t3, st3) /\ node_buf t3 = node_buf t1.
Proof. exact file_save_fixed_point. Qed.
Print Assumptions C06_save_fixed_point_files.

(* trees without volumes meet the layout condition trivially *)
Theorem C06_no_volume_no_layout_condition : forall n, novol n -> laid n.
Proof. exact novol_laid. Qed.
Print Assumptions C06_no_volume_no_layout_condition.

(* ---- stage 3 = the furthest stage proved: a volume (top level or nested) whose files may hold
   compressed sections that hold FV-image sections with nested volumes, to any depth.
   Save the tree, parse the written volume (in any context, erase polarity not yet known or 0xFF,
   with the node's own offset / resizable arguments): same decompressed tree ... ---- *)
Theorem C06_semantic_preservation_partial :
  forall (dec enc : Z -> bytes -> option bytes) (u2s s2u : bytes -> bytes) (nvar : bytes -> option bytes),
  (forall k x y, enc k x = Some y -> dec k y = Some x) ->
  forall t, wf dec enc u2s s2u nvar 255 t -> is_vol t ->
  forall f t1 st1, asm enc s2u t (255, f) = Ok (t1, st1) -> small t1 -> laid t1 ->
  forall d pol0 rest, (height t1 <= d)%nat -> (pol0 = 240 \/ pol0 = 255) ->
  exists t2, parse_fv dec u2s nvar d pol0 (node_buf t1 ++ rest) (vol_off t1) (vol_rz t1) = Ok (t2, 255) /\
             deep t2 = deep t.
Proof. exact vol_semantic_preservation. Qed.
Print Assumptions C06_semantic_preservation_partial.

(* ... and saving the re-parsed tree writes the same bytes (enc is a function; nothing else is used) *)
Theorem C06_save_fixed_point_partial :
  forall (dec enc : Z -> bytes -> option bytes) (u2s s2u : bytes -> bytes) (nvar : bytes -> option bytes),
  (forall k x y, enc k x = Some y -> dec k y = Some x) ->
  forall t, wf dec enc u2s s2u nvar 255 t -> is_vol t ->
  forall f t1 st1, asm enc s2u t (255, f) = Ok (t1, st1) -> small t1 -> laid t1 ->
  forall d pol0 rest t2, (height t1 <= d)%nat -> (pol0 = 240 \/ pol0 = 255) ->
  parse_fv dec u2s nvar d pol0 (node_buf t1 ++ rest) (vol_off t1) (vol_rz t1) = Ok (t2, 255) ->
  forall f', exists t3 st3, asm enc s2u t2 (255, f') = Ok (t3, st3) /\ node_buf t3 = node_buf t1.
Proof. exact vol_save_fixed_point. Qed.
Print Assumptions C06_save_fixed_point_partial.

(* ---- a building block of stage 3: the FV-image section Assemble writes around a nested volume [vb] parses, in any
   context, to a section whose only child is what the volume parser [rf] makes of exactly [vb].  With
   stage 2 for the file around it, the volume layer is all that stage 3 adds. ---- *)
Theorem C06_fv_image_section_transparent :
  forall (dec : Z -> bytes -> option bytes) (u2s : bytes -> bytes) rs rf pol h vb h' nb rest i v2 pol',
  s_type h = 23 -> s_gd h = None -> 0 < zlen vb < SZ -> gen_sec_header h vb = (h', nb) ->
  rf pol vb 0 true = Ok (v2, pol') ->
  section_body dec u2s rs rf pol (nb ++ rest) i =
    Ok (NSec (sec_default (s_size3 h') 23 (s_ext h') (s_hlen h') i) nb [v2], pol') /\
  s_ext h' = zlen nb /\ zlen nb = s_hlen h' + zlen vb.
Proof. exact fvimage_section_transparent. Qed.
Print Assumptions C06_fv_image_section_transparent.

(* ---- the DataOffset GenSecHeader writes is where the payload starts, for EVERY payload size below
   4 GiB: also in the branch where the section reaches 0xFFFFFF bytes and gets the 8-byte common
   header (then DataOffset = 28, not 24).  The field kept in the node, the two bytes written at
   common header + 16, and the position of the payload in the written bytes agree. ---- *)
Theorem C06_dataoffset_is_payload_start : forall h g body h' nb,
  s_gd h = Some g -> zlen (gd_guid g) = 16 -> zlen body < SZ -> gen_sec_header h body = (h', nb) ->
  exists g', s_gd h' = Some g' /\
    gd_dataoff g' = s_hlen h' + 20 /\
    rd (s_hlen h' + 16) 2 nb = gd_dataoff g' /\
    zskipn (gd_dataoff g') nb = body /\
    (s_hlen h' = 8 <-> 16777215 <= zlen body + 24).
Proof. exact gen_dataoff_is_payload_start. Qed.
Print Assumptions C06_dataoffset_is_payload_start.

(* ---- idempotence, at full strength ---- *)

(* what Assemble wrote is an exact fixed point of Assemble: the very same node comes back (sections,
   files and volumes) *)
Theorem C06_assembled_is_fixed :
  forall (dec enc : Z -> bytes -> option bytes) (u2s s2u : bytes -> bytes) (nvar : bytes -> option bytes),
  (forall k x y, enc k x = Some y -> dec k y = Some x) ->
  forall pol t, wf dec enc u2s s2u nvar pol t ->
  forall f t1 st1, asm enc s2u t (pol, f) = Ok (t1, st1) -> small t1 -> laid t1 ->
  forall f', exists f'', asm enc s2u t1 (pol, f') = Ok (t1, (pol, f'')).
Proof. exact assembled_is_fixed. Qed.
Print Assumptions C06_assembled_is_fixed.

Theorem C06_gen_sec_header_idempotent : forall h body,
  gen_sec_header (fst (gen_sec_header h body)) body = gen_sec_header h body.
Proof. exact gen_sec_header_idem. Qed.
Print Assumptions C06_gen_sec_header_idempotent.

Theorem C06_checksum_and_assemble_idempotent : forall h ext attr data, zlen (f_guid h) = 16 ->
  checksum_and_assemble (fst (checksum_and_assemble h ext attr data)) ext attr data =
  checksum_and_assemble h ext attr data.
Proof. exact checksum_and_assemble_idem. Qed.
Print Assumptions C06_checksum_and_assemble_idempotent.

(* SetSize followed by ChecksumAndAssemble, as the File case of Assemble does *)
Theorem C06_file_regen_idempotent : forall h data, zlen (f_guid h) = 16 ->
  file_regen (fst (file_regen h data)) data = file_regen h data.
Proof. exact file_regen_idem. Qed.
Print Assumptions C06_file_regen_idempotent.

(* ---- an edit inside a nested volume: when the files no longer fit, the volume gets the length
   [resize_len] computes (uint64 arithmetic, only the first block-map entry is resized), the block
   count and the length field in the bytes are rewritten ---- *)
Theorem C06_nested_edit_sizes : forall pol ffs3 h buf files h' nb c s rest hdr b1,
  files <> [] -> v_resizable h = true -> v_blocks h = (c, s) :: rest ->
  slice 0 (v_dataoff h) buf = Some hdr ->
  place_files pol None hdr (v_dataoff h) files = Ok b1 ->     (* the files laid out after the header *)
  v_length h < zlen b1 ->                                      (* they no longer fit *)
  asm_vol pol ffs3 h buf files = Ok (h', nb) ->
  let len := fst (resize_len (zlen b1) s rest) in
  let cnt := snd (resize_len (zlen b1) s rest) in
  v_length h' = len /\ v_blocks h' = (cnt, s) :: rest /\
  zlen nb = Z.max (zlen b1) len /\
  sub 32 8 nb = le_enc 8 len /\ sub 56 4 nb = le_enc 4 cnt.
Proof. exact nested_volume_grows. Qed.
Print Assumptions C06_nested_edit_sizes.

(* for the usual single-entry block map with a power-of-two block size that is Align(newlen, blocksize)
   and the count of whole blocks *)
Theorem C06_resize_single_entry : forall newlen k, 0 <= k < 64 -> 0 < newlen -> newlen + 2 ^ k <= 2 ^ 64 ->
  resize_len newlen (2 ^ k) [] = (align_go newlen (2 ^ k), (align_go newlen (2 ^ k) / 2 ^ k) mod U32).
Proof. exact resize_single. Qed.
Print Assumptions C06_resize_single_entry.

(* Go's Align on a power-of-two block size rounds up to whole blocks *)
Theorem C06_align_whole_blocks : forall v k, 0 <= k < 64 -> 0 <= v -> v + 2 ^ k <= 2 ^ 64 ->
  align_go v (2 ^ k) = align v (2 ^ k) /\
  v <= align v (2 ^ k) < v + 2 ^ k /\ (align v (2 ^ k)) mod 2 ^ k = 0.
Proof. exact align_go_pow2. Qed.
Print Assumptions C06_align_whole_blocks.

(* the FV-image section around the volume (no GUID-defined header) and the file around the section *)
Theorem C06_enclosing_section_size : forall h body h' nb, s_gd h = None -> zlen body < SZ ->
  gen_sec_header h body = (h', nb) ->
  s_ext h' = zlen nb /\ zlen nb = s_hlen h' + zlen body /\ (s_hlen h' = 4 \/ s_hlen h' = 8) /\
  ((16777215 <? s_ext h') = (s_hlen h' =? 8)).
Proof. exact sec_sizes. Qed.
Print Assumptions C06_enclosing_section_size.

Theorem C06_enclosing_file_size : forall h data h' nb, zlen (f_guid h) = 16 -> zlen data < SZ ->
  file_regen h data = (h', nb) ->
  f_ext h' = zlen nb /\ (zlen nb = 24 + zlen data \/ zlen nb = 32 + zlen data) /\
  ((16777215 <? f_ext h') = attr_large (f_attr h')) /\
  sum8 (zskipn (zlen nb - zlen data) nb) = sum8 data.
Proof. exact file_sizes. Qed.
Print Assumptions C06_enclosing_file_size.

(* ---- the FFS2 -> FFS3 switch ---- *)

(* a re-assembled file (section) that comes out larger than 0xFFFFFF raises the flag ... *)
Theorem ffs3_file_raises : forall enc s2u h buf kids st h' nb kids' st',
  asm enc s2u (NFile h buf kids) st = Ok (NFile h' nb kids', st') -> kids <> [] -> 16777215 < f_ext h' ->
  snd st' = true.
Proof. exact file_raises. Qed.
Print Assumptions ffs3_file_raises.

Theorem ffs3_section_raises : forall enc s2u h buf kids st h' nb kids' st',
  asm enc s2u (NSec h buf kids) st = Ok (NSec h' nb kids', st') -> kids <> [] -> 16777215 < s_ext h' ->
  snd st' = true.
Proof. exact sec_raises. Qed.
Print Assumptions ffs3_section_raises.

(* ... and the volume that holds it — wherever it sits among the volume's files, whatever nested
   volumes its siblings hold — gets the FFS3 GUID in its header record and in bytes 16..32; the
   caller's flag is handed back unchanged (only the innermost enclosing volume switches) *)
Theorem ffs3_switch : forall enc s2u h buf l1 k l2 st h' nb kids' st',
  asm enc s2u (NVol h buf (l1 ++ k :: l2)) st = Ok (NVol h' nb kids', st') -> v_guid h = FFS2 ->
  (forall s k1 s1, asm enc s2u k s = Ok (k1, s1) -> snd s1 = true) ->
  v_guid h' = FFS3 /\ sub 16 16 nb = FFS3 /\ snd st' = snd st.
Proof. exact FfsCodecProofs.ffs3_switch. Qed.
Print Assumptions ffs3_switch.

(* ------------------------------------------------------------------------------------------ *)
(* Examples: a concrete tree meets the hypotheses (toy codec: a one-byte tag in front)          *)
(* ------------------------------------------------------------------------------------------ *)

Definition xenc (k : Z) (x : bytes) : option bytes := Some ((200 + k) :: x).
Definition xdec (k : Z) (y : bytes) : option bytes :=
  match y with t :: x => if t =? 200 + k then Some x else None | [] => None end.
Lemma xdec_xenc : forall k x y, xenc k x = Some y -> xdec k y = Some x.
Proof. intros k x y [= <-]. unfold xdec. rewrite Z.eqb_refl. reflexivity. Qed.
Definition idb (b : bytes) : bytes := b.
Definition nonv (_ : bytes) : option bytes := None.

(* two leaves, a compressed section inside a compressed section, a file around them *)
Definition ex_raw : node := NSec (mkSec 8 25 8 4 None [] 0 [] None 0) [8; 0; 0; 25; 1; 2; 3; 4] [].
Definition ex_pe : node := NSec (mkSec 5 16 5 4 None [] 0 [] None 0) [5; 0; 0; 16; 9] [].
Definition ex_inner : node :=
  NSec (mkSec 0 2 0 4 (Some (mkGd LZMAX86_GUID 24 1 2)) [] 0 [] None 0) [] [ex_pe].
Definition ex_outer : node :=
  NSec (mkSec 0 2 0 4 (Some (mkGd LZMA_GUID 24 1 1)) [] 0 [] None 0) [] [ex_raw; ex_inner; ex_pe].
Definition ex_guid : bytes := [1; 2; 3; 4; 5; 6; 7; 8; 9; 10; 11; 12; 13; 14; 15; 16].
Definition ex_file : node := NFile (mkFile ex_guid 0 0 2 64 0 248 0 24 None) [] [ex_outer; ex_raw].

Lemma ex_leaf_raw : wf xdec xenc idb idb nonv 255 ex_raw.
Proof.
  apply wf_leaf.
  - split; [vm_compute; reflexivity|]. intros H. vm_compute in H. discriminate.
  - vm_compute. reflexivity.
Qed.
Lemma ex_leaf_pe : wf xdec xenc idb idb nonv 255 ex_pe.
Proof.
  apply wf_leaf.
  - split; [vm_compute; reflexivity|]. intros H. vm_compute in H. discriminate.
  - vm_compute. reflexivity.
Qed.
Lemma ex_wf_inner : wf xdec xenc idb idb nonv 255 ex_inner.
Proof.
  apply (wf_comp xdec xenc idb idb nonv 255 _ _ _ (mkGd LZMAX86_GUID 24 1 2));
    try reflexivity; try discriminate; try (vm_compute; intuition discriminate).
  - apply Forall_cons; [exact ex_leaf_pe|apply Forall_nil].
  - apply Forall_cons; [exact I|apply Forall_nil].
Qed.
Lemma ex_wf_outer : wf xdec xenc idb idb nonv 255 ex_outer.
Proof.
  apply (wf_comp xdec xenc idb idb nonv 255 _ _ _ (mkGd LZMA_GUID 24 1 1));
    try reflexivity; try discriminate; try (vm_compute; intuition discriminate).
  - repeat (apply Forall_cons || apply Forall_nil); [exact ex_leaf_raw|exact ex_wf_inner|exact ex_leaf_pe].
  - repeat (apply Forall_cons || apply Forall_nil); exact I.
Qed.
Lemma ex_wf_file : wf xdec xenc idb idb nonv 255 ex_file.
Proof.
  apply wf_file; try reflexivity; try discriminate.
  - repeat (apply Forall_cons || apply Forall_nil); [exact ex_wf_outer|exact ex_leaf_raw].
  - repeat (apply Forall_cons || apply Forall_nil); exact I.
Qed.

(* hypotheses of the stage-1 and stage-2 theorems hold for the example, and the conclusion can be
   watched by computation: the saved file is 104 bytes, parses back, and has the same deep tree *)
Example ex_hypotheses :
  wf xdec xenc idb idb nonv 255 ex_file /\ is_file ex_file /\
  exists t1 st1, asm xenc idb ex_file (255, false) = Ok (t1, st1) /\ small t1 /\ (height t1 <= 4)%nat /\
    zlen (node_buf t1) = 104 /\
    exists t2, parse_file xdec idb nonv 4 255 (node_buf t1 ++ [255; 255]) = Ok (Some t2, 255) /\
               deep t2 = deep ex_file /\
               exists t3 st3, asm xenc idb t2 (255, false) = Ok (t3, st3) /\ node_buf t3 = node_buf t1.
Proof.
  split; [exact ex_wf_file|]. split; [exact I|].
  eexists. eexists. split; [vm_compute; reflexivity|].
  split; [vm_compute; intuition reflexivity|]. split; [vm_compute; repeat constructor|].
  split; [vm_compute; reflexivity|].
  eexists. split; [vm_compute; reflexivity|]. split; [vm_compute; reflexivity|].
  eexists. eexists. split; vm_compute; reflexivity.
Qed.

Example ex_section_hypotheses :
  wf xdec xenc idb idb nonv 255 ex_outer /\ is_sec ex_outer /\
  exists t1 st1, asm xenc idb ex_outer (255, false) = Ok (t1, st1) /\ small t1 /\ (height t1 <= 3)%nat.
Proof.
  split; [exact ex_wf_outer|]. split; [exact I|].
  eexists. eexists. split; [vm_compute; reflexivity|].
  split; [vm_compute; intuition reflexivity|]. vm_compute. repeat constructor.
Qed.

(* a compressed section that the (toy) codec rejects — wrong tag — is a leaf of wf: parsed without children
   (gd_kind 0), left alone by Assemble; a file that holds it next to a decodable compressed section meets the
   hypotheses of the stage-2 theorems, re-parses to the same deep tree after a save and is a fixed point *)
Definition ex_bad : node :=
  NSec (mkSec 27 2 27 4 (Some (mkGd LZMA_GUID 24 1 0)) [] 0 [] None 1)
       ([27; 0; 0; 2] ++ LZMA_GUID ++ [24; 0; 1; 0] ++ [0; 1; 2]) [].
Lemma ex_leaf_bad : wf xdec xenc idb idb nonv 255 ex_bad.
Proof.
  apply wf_leaf.
  - split; [vm_compute; reflexivity|]. intros H. vm_compute in H. discriminate.
  - vm_compute. reflexivity.
Qed.
Definition ex_file_bad : node := NFile (mkFile ex_guid 0 0 2 64 0 248 0 24 None) [] [ex_outer; ex_bad].
Lemma ex_wf_file_bad : wf xdec xenc idb idb nonv 255 ex_file_bad.
Proof.
  apply wf_file; try reflexivity; try discriminate.
  - repeat (apply Forall_cons || apply Forall_nil); [exact ex_wf_outer|exact ex_leaf_bad].
  - repeat (apply Forall_cons || apply Forall_nil); exact I.
Qed.
Example ex_undecodable_hypotheses :
  xdec 1 [0; 1; 2] = None /\
  wf xdec xenc idb idb nonv 255 ex_file_bad /\ is_file ex_file_bad /\
  exists t1 st1, asm xenc idb ex_file_bad (255, false) = Ok (t1, st1) /\ small t1 /\ (height t1 <= 4)%nat /\
    exists t2, parse_file xdec idb nonv 4 255 (node_buf t1 ++ [255; 255]) = Ok (Some t2, 255) /\
               deep t2 = deep ex_file_bad /\
               exists t3 st3, asm xenc idb t2 (255, false) = Ok (t3, st3) /\ node_buf t3 = node_buf t1.
Proof.
  split; [reflexivity|]. split; [exact ex_wf_file_bad|]. split; [exact I|].
  eexists. eexists. split; [vm_compute; reflexivity|].
  split; [vm_compute; intuition reflexivity|]. split; [vm_compute; repeat constructor|].
  eexists. split; [vm_compute; reflexivity|]. split; [vm_compute; reflexivity|].
  eexists. eexists. split; vm_compute; reflexivity.
Qed.

(* idempotence on a concrete header; a growing nested volume with 16-byte blocks *)
Example ex_idem :
  checksum_and_assemble (fst (checksum_and_assemble (mkFile ex_guid 7 9 2 64 0 248 0 24 None) 27 64 [1; 2; 3]))
                        27 64 [1; 2; 3] =
  checksum_and_assemble (mkFile ex_guid 7 9 2 64 0 248 0 24 None) 27 64 [1; 2; 3].
Proof. vm_compute. reflexivity. Qed.

Example ex_align : align_go 100 (2 ^ 4) = 112 /\ align 100 (2 ^ 4) = 112.
Proof. vm_compute. split; reflexivity. Qed.

(* ---- stage 3 example: a top-level volume (fixed size 512, block size 64) whose only file holds a
   compressed section around an FV-image section around a nested volume (block size 8, declared
   length 128, too small for its re-assembled file: it has to grow) that holds [ex_file] ---- *)
Definition ex_zero : bytes := zrepeat 0 16.
Definition ex_pin : vparams := mkVP ex_zero 2048 0 2 8 [] 0 [].       (* nested: block size 8 *)
Definition ex_ptop : vparams := mkVP ex_zero 2048 0 2 64 [] 0 [].     (* top: block size 64 *)
Definition ex_inner_vol : node :=
  NVol (vp_hdr ex_pin FFS2 128 0 16 0 true 0)
       (fv_header ex_zero FFS2 128 2048 0 0 0 2 16 8 [])              (* only the header bytes matter *)
       [ex_file].
Definition ex_fvsec : node := NSec (mkSec 0 23 0 4 None [] 0 [] None 0) [] [ex_inner_vol].
Definition ex_comp_vol : node :=
  NSec (mkSec 0 2 0 4 (Some (mkGd ZLIB_GUID 24 3 3)) [] 0 [] None 0) [] [ex_fvsec].
Definition ex_guid2 : bytes := [16; 15; 14; 13; 12; 11; 10; 9; 8; 7; 6; 5; 4; 3; 2; 1].
Definition ex_vfile : node := NFile (mkFile ex_guid2 0 0 11 0 0 248 0 24 None) [] [ex_comp_vol].
Definition ex_top_vol : node :=
  NVol (vp_hdr ex_ptop FFS2 512 0 8 0 false 0)
       (fv_header ex_zero FFS2 512 2048 0 0 0 2 8 64 [])
       [ex_vfile].

Lemma ex_vp_ok_in : vp_ok ex_pin.
Proof. unfold vp_ok; cbn. repeat split; try lia; try reflexivity. left. split; reflexivity. Qed.
Lemma ex_vp_ok_top : vp_ok ex_ptop.
Proof. unfold vp_ok; cbn. repeat split; try lia; try reflexivity. left. split; reflexivity. Qed.

Lemma ex_wf_inner_vol : wf xdec xenc idb idb nonv 255 ex_inner_vol.
Proof.
  apply (wf_vol xdec xenc idb idb nonv 255 ex_pin FFS2 128 0 0 16 0 true 0); try reflexivity; try discriminate.
  - exact ex_vp_ok_in.
  - left; reflexivity.
  - lia.
  - apply Forall_cons; [exact ex_wf_file|apply Forall_nil].
  - apply Forall_cons; [exact I|apply Forall_nil].
  - vm_compute. split; discriminate.
  - intros _. split; [reflexivity|]. exists 3. split; [lia|reflexivity].
Qed.
Lemma ex_wf_fvsec : wf xdec xenc idb idb nonv 255 ex_fvsec.
Proof. apply wf_fvimg; try reflexivity; [exact ex_wf_inner_vol|split; reflexivity]. Qed.
Lemma ex_wf_comp_vol : wf xdec xenc idb idb nonv 255 ex_comp_vol.
Proof.
  apply (wf_comp xdec xenc idb idb nonv 255 _ _ _ (mkGd ZLIB_GUID 24 3 3));
    try reflexivity; try discriminate; try (vm_compute; intuition discriminate).
  - apply Forall_cons; [exact ex_wf_fvsec|apply Forall_nil].
  - apply Forall_cons; [exact I|apply Forall_nil].
Qed.
Lemma ex_wf_vfile : wf xdec xenc idb idb nonv 255 ex_vfile.
Proof.
  apply wf_file; try reflexivity; try discriminate.
  - apply Forall_cons; [exact ex_wf_comp_vol|apply Forall_nil].
  - apply Forall_cons; [exact I|apply Forall_nil].
Qed.
Lemma ex_wf_top_vol : wf xdec xenc idb idb nonv 255 ex_top_vol.
Proof.
  apply (wf_vol xdec xenc idb idb nonv 255 ex_ptop FFS2 512 0 0 8 0 false 0); try reflexivity; try discriminate.
  - exact ex_vp_ok_top.
  - left; reflexivity.
  - lia.
  - apply Forall_cons; [exact ex_wf_vfile|apply Forall_nil].
  - apply Forall_cons; [exact I|apply Forall_nil].
  - vm_compute. split; discriminate.
Qed.

(* the hypotheses of the stage-3 theorems hold, and the conclusion can be watched by computation: the
   nested volume grew from 128 to 176 bytes (whole 8-byte blocks), the saved top-level volume still
   has 512 bytes, parses back (at polarity "unknown") to the same decompressed tree, and saving the
   re-parsed tree gives the same bytes *)
Example ex_volume_hypotheses :
  wf xdec xenc idb idb nonv 255 ex_top_vol /\ is_vol ex_top_vol /\
  exists t1 st1, asm xenc idb ex_top_vol (255, false) = Ok (t1, st1) /\ small t1 /\ laid t1 /\
    (height t1 <= 9)%nat /\ zlen (node_buf t1) = 512 /\
    exists t2, parse_fv xdec idb nonv 9 240 (node_buf t1 ++ [1; 2; 3]) (vol_off t1) (vol_rz t1) = Ok (t2, 255) /\
               deep t2 = deep ex_top_vol /\
               exists t3 st3, asm xenc idb t2 (255, false) = Ok (t3, st3) /\ node_buf t3 = node_buf t1.
Proof.
  split; [exact ex_wf_top_vol|]. split; [exact I|].
  eexists. eexists. split; [vm_compute; reflexivity|].
  split; [vm_compute; intuition reflexivity|].
  split; [simpl; repeat (split || apply Forall_cons || apply Forall_nil); try reflexivity|].
  split; [vm_compute; repeat constructor|].
  split; [vm_compute; reflexivity|].
  eexists. split; [vm_compute; reflexivity|]. split; [vm_compute; reflexivity|].
  eexists. eexists. split; vm_compute; reflexivity.
Qed.
