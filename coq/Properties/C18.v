(* Properties/C18.v — APCB token upsert sets exactly one token and keeps the blob well-formed.
   Only statements; every proof is [exact <lemma of Proofs/Apcb*Proofs.v>].

   Vocabulary (Model/Apcb.v): [upsert k pm bm kind nv b] is UpsertToken on the caller's buffer b
   and returns Ok (buffer afterwards, error class) (0 = nil error), Panic or Fuel;
   [parse_tokens] is ParseAPCBBinaryTokens; [abs b] is the abstraction of a blob whose nested
   sizes are consistent: its list of groups (token groups with their types = header bytes and
   (id, value) pairs; foreign groups as opaque bytes); [upsert_spec] is the intended effect on
   that list; [all_tokens] lists (id, priority mask, board mask, kind, value) in blob order.
   [args_ok]: kind in {0,1,2,4}, id and value below 2^32, masks in range.
   The hypothesis [zlen b + 40 < 2^32] keeps SizeOfAPCB + addedBytes from wrapping (uint32). *)
From Fiano Require Import Base.Bytes Gen.Consts Model.Apcb
  Proofs.ApcbProofs Proofs.ApcbDecProofs Proofs.ApcbPropProofs.
Open Scope Z_scope.

(* abs: exactly the encodings of well-formed blob descriptions *)
Theorem C18_abs_sound : forall b G, abs b = Some G ->
  exists s, dec_blob b = Some s /\ bl_groups s = G /\ enc_blob s = b /\ wf_blob s = true.
Proof. exact abs_some. Qed.
Print Assumptions C18_abs_sound.

Theorem C18_abs_complete : forall s, wf_blob s = true -> abs (enc_blob s) = Some (bl_groups s).
Proof. exact abs_enc. Qed.
Print Assumptions C18_abs_complete.

(* the heart: the byte-level UpsertToken refines upsert_spec *)
Theorem C18_upsert_refines : forall k pm bm kind nv b G b',
  abs b = Some G -> args_ok k pm bm kind nv -> zlen b + 40 < 2 ^ 32 ->
  upsert k pm bm kind nv b = Ok (b', 0) ->
  abs b' = Some (upsert_spec k pm bm kind nv G).
Proof. exact upsert_refines. Qed.
Print Assumptions C18_upsert_refines.

(* the complete behaviour on every blob with an abstraction, all paths (update in every matching
   type / insert into the last matching type / new type in the last token group / new group /
   type full / no room): the model call equals the specification [upsert_blob] *)
Theorem C18_upsert_characterised : forall k pm bm kind nv b G,
  abs b = Some G -> args_ok k pm bm kind nv -> zlen b + 40 < 2 ^ 32 ->
  exists s, dec_blob b = Some s /\ bl_groups s = G /\
    upsert k pm bm kind nv b =
      Ok (enc_blob (fst (upsert_blob k pm bm kind nv s)), snd (upsert_blob k pm bm kind nv s)) /\
    wf_blob (fst (upsert_blob k pm bm kind nv s)) = true.
Proof. exact upsert_characterised. Qed.
Print Assumptions C18_upsert_characterised.

(* it returns (no panic, no endless loop); it fails only for lack of room or a full type, and
   then the buffer is as it was *)
Theorem C18_upsert_total : forall k pm bm kind nv b G,
  abs b = Some G -> args_ok k pm bm kind nv -> zlen b + 40 < 2 ^ 32 ->
  exists b' e, upsert k pm bm kind nv b = Ok (b', e) /\
    (e = 0 \/ (b' = b /\ (e = E_NOROOM \/ e = E_TYPE_FULL))).
Proof. exact upsert_total. Qed.
Print Assumptions C18_upsert_total.

(* every other token keeps id, value and masks (and position) *)
Theorem C18_upsert_others_unchanged : forall k pm bm kind nv G, args_ok k pm bm kind nv ->
  let G' := upsert_spec k pm bm kind nv G in
  (any_changes kind pm bm k G = true /\
   all_tokens G' = map (fun x => if affected kind pm bm k x then set_val nv x else x) (all_tokens G))
  \/
  (any_changes kind pm bm k G = false /\
   exists l1 l2 p bd, all_tokens G = l1 ++ l2 /\ all_tokens G' = l1 ++ mkToken k p bd kind nv :: l2 /\
     ((Z.land bd bm <> 0 /\ Z.land p pm <> 0) \/ (p = pm /\ bd = bm))).
Proof. exact upsert_others_unchanged. Qed.
Print Assumptions C18_upsert_others_unchanged.

(* "the token existed" is a statement about the listing *)
Theorem C18_existing_token_iff : forall kind pm bm k G,
  any_changes kind pm bm k G = existsb (affected kind pm bm k) (all_tokens G).
Proof. exact any_changes_affected. Qed.
Print Assumptions C18_existing_token_iff.

(* the listing returns the new value for that token under a type entry matching the masks *)
Theorem C18_upsert_sets_token : forall k pm bm kind nv G, args_ok k pm bm kind nv ->
  exists p bd, In (mkToken k p bd kind nv) (all_tokens (upsert_spec k pm bm kind nv G)) /\
    ((Z.land bd bm <> 0 /\ Z.land p pm <> 0) \/ (p = pm /\ bd = bm)).
Proof. exact upsert_sets_token. Qed.
Print Assumptions C18_upsert_sets_token.

Theorem C18_upsert_all_affected_set : forall k pm bm kind nv G, args_ok k pm bm kind nv ->
  forall t, In t (all_tokens (upsert_spec k pm bm kind nv G)) -> affected kind pm bm k t = true ->
  any_changes kind pm bm k G = true -> tk_val t = nv.
Proof. exact upsert_all_affected_set. Qed.
Print Assumptions C18_upsert_all_affected_set.

(* what ParseAPCBBinaryTokens returns is the token list of the abstraction (values cut to width) *)
Theorem C18_listing_is_abstraction : forall b G, abs b = Some G ->
  parse_tokens b = show_all (all_tokens G).
Proof. exact parse_abs. Qed.
Print Assumptions C18_listing_is_abstraction.

(* nested size fields consistent and inside the buffer: the result is the encoding of a
   well-formed description (SizeOfAPCB = 128 + sum of groups, each group = its header + its
   types, each type = 16 + 8 * pairs), and the buffer length is unchanged *)
Theorem C18_upsert_sizes_consistent : forall k pm bm kind nv b G b',
  abs b = Some G -> args_ok k pm bm kind nv -> zlen b + 40 < 2 ^ 32 ->
  upsert k pm bm kind nv b = Ok (b', 0) ->
  exists s', b' = enc_blob s' /\ wf_blob s' = true /\
    hdr_sizeof_apcb b' = 128 + groups_size (bl_groups s') /\
    hdr_sizeof_apcb b' + zlen (bl_slack s') = zlen b' /\ zlen b' = zlen b.
Proof. exact upsert_sizes_consistent. Qed.
Print Assumptions C18_upsert_sizes_consistent.

(* updating an existing token needs no room, always succeeds, keeps buffer length and SizeOfAPCB *)
Theorem C18_upsert_update_keeps_length : forall k pm bm kind nv b G,
  abs b = Some G -> args_ok k pm bm kind nv -> zlen b + 40 < 2 ^ 32 ->
  any_changes kind pm bm k G = true ->
  exists b', upsert k pm bm kind nv b = Ok (b', 0) /\ zlen b' = zlen b /\
             hdr_sizeof_apcb b' = hdr_sizeof_apcb b.
Proof. exact upsert_update_keeps_length. Qed.
Print Assumptions C18_upsert_update_keeps_length.

(* no room: the call fails and the caller's buffer is untouched — for every buffer, well-formed or not *)
Theorem C18_upsert_noroom_unchanged : forall k pm bm kind nv b b',
  upsert k pm bm kind nv b = Ok (b', E_NOROOM) -> b' = b.
Proof. exact upsert_noroom_unchanged. Qed.
Print Assumptions C18_upsert_noroom_unchanged.

(* any failure on a blob with an abstraction leaves it unchanged *)
Theorem C18_upsert_fail_unchanged : forall k pm bm kind nv b G b' e,
  abs b = Some G -> args_ok k pm bm kind nv -> zlen b + 40 < 2 ^ 32 ->
  upsert k pm bm kind nv b = Ok (b', e) -> e <> 0 -> b' = b.
Proof. exact upsert_fail_unchanged. Qed.
Print Assumptions C18_upsert_fail_unchanged.

(* a new token goes to the sorted position of an ascending pair list *)
Theorem C18_insert_sorted : forall k nv t, ascending (ty_toks t) = true -> has_tok k (ty_toks t) = false ->
  ty_toks (ins_tok k nv t) = sorted_ins k nv (ty_toks t) /\ ascending (ty_toks (ins_tok k nv t)) = true.
Proof. exact ins_tok_ascending. Qed.
Print Assumptions C18_insert_sorted.

(* sequences of upserts on one buffer: every call returns; the calls that report success take effect in
   order (upsert_spec on the abstraction), the others leave the buffer as it was; after the last call the
   buffer again has an abstraction (so every theorem above applies to the next call) and its length is
   unchanged *)
Theorem C18_upsert_seq_refines : forall qs b G,
  abs b = Some G -> Forall request_ok qs -> zlen b + 40 < 2 ^ 32 ->
  exists b' oks, upsert_seq qs b = Ok (b', oks) /\ length oks = length qs /\
    abs b' = Some (spec_seq qs oks G) /\ zlen b' = zlen b.
Proof. exact upsert_seq_refines. Qed.
Print Assumptions C18_upsert_seq_refines.

(* ---- non-vacuity: concrete blobs meet the hypotheses and exercise every path ---- *)

Definition ex_hdr1 : bytes := le_enc 4 apcb_sig_v2 ++ [128; 0; 32; 0].
Definition ex_hdr2 : bytes :=
  zrepeat 7 20 ++ le_enc 4 apcb_sig_v3 ++ zrepeat 9 88 ++ le_enc 4 apcb_sig_end.
Definition ex_thdr2 (prio board : Z) : bytes := [0; 0; 2; 1; 8; prio; 4; 0] ++ le_enc 2 board.
Definition ex_type_a : ttype := mkType [0; 48; 4; 0] (ex_thdr2 255 65535) [(10, 1000); (20, 2000); (30, 3000)].
Definition ex_type_b : ttype := mkType [0; 48; 0; 0] (ex_thdr2 4 1) [(20, 1)].
Definition ex_type_c : ttype := mkType [0; 48; 4; 0] (ex_thdr2 4 240) [(20, 7); (40, 8)].
Definition ex_groups : list group :=
  [ Foreign ([80; 83; 80; 71; 1; 23; 16; 0; 1; 0; 0; 0]) [1; 2; 3; 4; 5];
    TokGroup [84; 79; 75; 78] [1; 0; 0; 0] [] [ex_type_a; ex_type_b; ex_type_c];
    Foreign ([77; 69; 77; 71; 4; 23; 16; 0; 1; 0; 0; 0]) [] ].
Definition ex_blob (slack : Z) : blob := mkBlob ex_hdr1 ex_hdr2 ex_groups (zrepeat 255 slack).
Definition ex_b : bytes := enc_blob (ex_blob 64).

Example ex_wf : wf_blob (ex_blob 64) = true.
Proof. vm_compute. reflexivity. Qed.

Example ex_abs : abs ex_b = Some ex_groups.
Proof. vm_compute. reflexivity. Qed.

Example ex_args : args_ok 20 255 65535 4 4242.
Proof. unfold args_ok. repeat split; try (vm_compute; congruence); lia. Qed.

Example ex_small : zlen ex_b + 40 < 2 ^ 32.
Proof. vm_compute. reflexivity. Qed.

(* update: token 20 sits in two matching 4-byte types (a and c) and in a boolean type (b) *)
Example ex_update :
  exists b', upsert 20 255 65535 4 4242 ex_b = Ok (b', 0) /\ zlen b' = zlen ex_b /\
    parse_tokens b' = Ok [ mkToken 10 255 65535 4 1000; mkToken 20 255 65535 4 4242; mkToken 30 255 65535 4 3000;
                           mkToken 20 4 1 0 1; mkToken 20 4 240 4 4242; mkToken 40 4 240 4 8 ].
Proof. eexists. split; [vm_compute; reflexivity|]. split; vm_compute; reflexivity. Qed.

(* insert into the last matching type (c), between its tokens *)
Example ex_insert :
  exists b', upsert 25 255 65535 4 5 ex_b = Ok (b', 0) /\
    abs b' = Some (upsert_spec 25 255 65535 4 5 ex_groups) /\
    hdr_sizeof_apcb b' = hdr_sizeof_apcb ex_b + 8 /\
    parse_tokens b' = Ok [ mkToken 10 255 65535 4 1000; mkToken 20 255 65535 4 2000; mkToken 30 255 65535 4 3000;
                           mkToken 20 4 1 0 1; mkToken 20 4 240 4 7; mkToken 25 4 240 4 5; mkToken 40 4 240 4 8 ].
Proof. eexists. split; [vm_compute; reflexivity|]. repeat split; vm_compute; reflexivity. Qed.

(* no matching type (2-byte value): a new type at the end of the token group, 24 bytes *)
Example ex_new_type :
  exists b', upsert 77 2 8 2 513 ex_b = Ok (b', 0) /\
    abs b' = Some (upsert_spec 77 2 8 2 513 ex_groups) /\
    hdr_sizeof_apcb b' = hdr_sizeof_apcb ex_b + 24.
Proof. eexists. split; [vm_compute; reflexivity|]. split; vm_compute; reflexivity. Qed.

(* no token group at all: a new group at the end of the blob, 40 bytes *)
Definition ex_nogroup : bytes :=
  enc_blob (mkBlob ex_hdr1 ex_hdr2 [Foreign ([80; 83; 80; 71; 1; 23; 16; 0; 1; 0; 0; 0]) [9]] (zrepeat 0 40)).
Example ex_new_group :
  exists b', upsert 77 2 8 1 200 ex_nogroup = Ok (b', 0) /\
    parse_tokens b' = Ok [mkToken 77 2 8 1 200] /\ zlen b' = zlen ex_nogroup.
Proof. eexists. split; [vm_compute; reflexivity|]. split; vm_compute; reflexivity. Qed.

(* no room: 7 spare bytes do not take a pair; the buffer is returned as it was *)
Example ex_noroom : upsert 25 255 65535 4 5 (enc_blob (ex_blob 7)) = Ok (enc_blob (ex_blob 7), E_NOROOM).
Proof. vm_compute. reflexivity. Qed.

(* a sequence on one buffer with 31 spare bytes: insert (8 bytes), update of the token just inserted, new type
   (24 bytes would need 32 with the pair already inserted: refused, buffer kept), update again *)
Definition ex_seq : list request :=
  [ (25, 255, 65535, 4, 5); (25, 4, 16, 4, 6); (77, 2, 8, 2, 513); (20, 255, 65535, 4, 9) ].
Example ex_seq_ok : Forall request_ok ex_seq.
Proof. repeat constructor; cbn; unfold args_ok; repeat split; try (vm_compute; congruence); lia. Qed.
Example ex_sequence :
  exists b', upsert_seq ex_seq (enc_blob (ex_blob 31)) = Ok (b', [true; true; false; true]) /\
    abs b' = Some (spec_seq ex_seq [true; true; false; true] ex_groups) /\
    parse_tokens b' = Ok [ mkToken 10 255 65535 4 1000; mkToken 20 255 65535 4 9; mkToken 30 255 65535 4 3000;
                           mkToken 20 4 1 0 1; mkToken 20 4 240 4 9; mkToken 25 4 240 4 6; mkToken 40 4 240 4 8 ].
Proof. eexists. split; [vm_compute; reflexivity|]. split; vm_compute; reflexivity. Qed.

(* ---- format constants ----
   The models take their format constants from Gen/Consts.v, which is regenerated from /repo's
   source on every run; Spec/ConstPins.v (committed, written by bin/mkpins) pins every one of them
   to the value the specifications give it.  A constant that drifts in the Go source breaks this
   theorem instead of being silently followed by model and generator. *)
From Fiano Require Spec.ConstPins.
Theorem C18_format_constants_pinned : Spec.ConstPins.pinned_c18.
Proof. exact Spec.ConstPins.pins_c18. Qed.
Print Assumptions C18_format_constants_pinned.
