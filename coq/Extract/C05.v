(* Extract/C05.v — OCaml extraction of the UEFI core model (parse + assemble) for property C05. *)
From Fiano Require Import Base.Bytes Model.Ffs.
Require Extraction.
Require Import ExtrOcamlBasic.
Extraction Language OCaml.
Extraction "../ocaml/c05/model.ml" parse_region save_region parse_fv parse_file parse_section
  asm asm_bios node_buf create_pad_file.
