(* Extract/C07.v — OCaml extraction of the UEFI core model plus the extract / reload model. *)
From Fiano Require Import Base.Bytes Model.Ffs Model.Extract Model.TightenMe Model.FlashImage Model.ExtractFlash
  Model.Nvar Model.ExtractNvar Model.ExtractEdit.
Require Extraction.
Require Import ExtrOcamlBasic.
Extraction Language OCaml.
(* the NVAR directory model with the concrete UTF-16 transformer of Model/Nvar.v *)
Definition c7_nv_paths (pol : Z) (d : nat) (b : bytes) : outcome (list (bytes * bytes)) :=
  do s <- parse_store dec16_impl pol b;
  do f <- nv_extract d [] s;
  Ok (map (fun x => (render_nvpath (fst x), snd x)) f).
Definition c7_nv_dir_save (pol : Z) (d : nat) (b : bytes) : outcome bytes :=
  nv_dir_save dec16_impl enc16_impl pol d b.

Extraction "../ocaml/c07/model.ml" parse_region save_region parse_fv parse_file parse_section
  asm asm_bios node_buf create_pad_file
  extract extract_list extract_region reload reload_list json_project render_path
  dir_save dir_save_tree extract_paths save_projected dir_edit_save tree_edit_save
  paths_okb_list wf_treeb_list nodupb keys guid_string guid_parse
  flash_layout bios_tree flash_dir_save flash_extract_paths flash_save_twice_image
  c7_nv_paths c7_nv_dir_save.
