(* Extract/C07.v — OCaml extraction of the UEFI core model plus the extract / reload model. *)
From Fiano Require Import Base.Bytes Model.Ffs Model.Extract Model.TightenMe Model.FlashImage Model.ExtractFlash.
Require Extraction.
Require Import ExtrOcamlBasic.
Extraction Language OCaml.
Extraction "../ocaml/c07/model.ml" parse_region save_region parse_fv parse_file parse_section
  asm asm_bios node_buf create_pad_file
  extract extract_list extract_region reload reload_list json_project render_path
  dir_save dir_save_tree extract_paths save_projected
  paths_okb_list wf_treeb_list nodupb keys guid_string guid_parse
  flash_layout bios_tree flash_dir_save flash_extract_paths flash_save_twice_image.
