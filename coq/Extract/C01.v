(* Extract/C01.v — OCaml extraction of the UEFI core model (parse + assemble). *)
From Fiano Require Import Base.Bytes Model.Ffs Model.FfsSpec Model.FfsGrammar Model.FfsAbstract Model.TightenMe Model.FlashImage.
Require Extraction.
Require Import ExtrOcamlBasic.
Extraction Language OCaml.
Extraction "../ocaml/c01/model.ml" parse_region save_region parse_fv parse_file parse_section
  asm asm_bios node_buf create_pad_file emit_region wfb_region emit_f flay xh_bytes in_grammar
  save_flash flash_layout flash_bios_bytes.
