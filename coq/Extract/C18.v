(* Extract/C18.v — OCaml extraction of the APCB model for the correspondence check. *)
From Fiano Require Import Base.Bytes Model.Apcb.
Require Extraction.
Require Import ExtrOcamlBasic.
Extraction Language OCaml.
Extraction "../ocaml/c18/model.ml" parse_tokens upsert abs enc_blob dec_blob upsert_blob all_tokens show_all.
