(* Extract/C17.v — OCaml extraction of the AMD directory model for the correspondence check. *)
From Fiano Require Import Base.Bytes Model.Amd.
Require Extraction.
Require Import ExtrOcamlBasic.
Extraction Language OCaml.
Extraction "../ocaml/c17/model.ml" fletcher32 dir_checksum parse_psp_entry parse_bios_entry
  parse_psp_table parse_bios_table find_psp_table find_bios_table find_efs phys_to_off shifted_map
  parse_firmware parse_firmware_with get_psp_entry get_bios_entry get_range_bytes
  extract_psp_entry extract_bios_entry patch_psp_entry patch_bios_entry is_psb_enabled
  new_root_key get_platform_binding get_security_features fletcher_math words.
