(* Extract/C14.v — OCaml extraction of the FIT model for the correspondence check. *)
From Fiano Require Import Base.Bytes Model.Fit.
Require Extraction.
Require Import ExtrOcamlBasic.
Extraction Language OCaml.
Extraction "../ocaml/c14/model.ml" phys_of_offset offset_of_phys tail_offset_of_phys
  enc_hdr dec_hdr u24_get u24_set tc_type tc_cv tc_set_type tc_set_cv calc_checksum
  parse_table table_range get_table get_entries inject recalc write_table mkHdr mkEntry.
