(* Extract/C11.v — OCaml extraction of the DXE cleaner model for the
   correspondence check, with the two decoders of the case-file conventions
   (predicate code, scripted Test result code). *)
From Fiano Require Import Base.Bytes Gen.Consts Model.DxeCleaner.
Require Extraction.
Require Import ExtrOcamlBasic.
Open Scope Z_scope.

(* DXECleaner.Predicate used by the executor:
   0 FindFileTypePredicate(FVFileTypeDriver)
   1 driver or PEIM (a hand-written predicate)
   2 every file
   3 FindAndPredicate(driver, FindNotPredicate(FindFilePredicate(<GUID 2>))) — the blacklist form *)
Definition pred_of_code (k : Z) (f : file) : bool :=
  if k =? 0 then type_pred fv_filetype_driver f
  else if k =? 1 then type_pred fv_filetype_driver f || type_pred fv_filetype_peim f
  else if k =? 2 then true
  else type_pred fv_filetype_driver f && negb (guid_pred 2 f).

(* scripted Test results: 0 (true,nil) 1 (false,nil) 2 (false,err) 3 (true,Canceled)
   4 (false,Canceled) 5 (true,err) *)
Definition testres_of_code (k : Z) : testres :=
  if k =? 0 then (true, 0) else if k =? 1 then (false, 0) else if k =? 2 then (false, 2)
  else if k =? 3 then (true, 1) else if k =? 4 then (false, 1) else (true, 2).

(* k calls of remove.Undo() *)
Fixpoint undo_times (k : nat) (img : image) (u : undo) : outcome (image * undo) :=
  match k with
  | O => Ok (img, u)
  | S j => do w <- call_undo img u; undo_times j (fst w) (snd w)
  end.

Extraction Language OCaml.
Extraction "../ocaml/c11/model.ml" dxe_clean remove_run unwind undo_times script_oracle boots_iff
  fixed asis pred_of_code testres_of_code guid_pred file_pred mkFile.
