(* Extract/C12.v — OCaml extraction of the tighten_me model for the correspondence check. *)
From Fiano Require Import Base.Bytes Model.TightenMe.
Require Extraction.
Require Import ExtrOcamlBasic.
Extraction Language OCaml.
Extraction "../ocaml/c12/model.ml" parse tm tm_after save run region_fr.
