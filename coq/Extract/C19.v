(* Extract/C19.v — OCaml extraction of the CBFS model for the correspondence check. *)
From Fiano Require Import Base.Bytes Model.Fmap Model.Cbfs.
Require Extraction.
Require Import ExtrOcamlBasic.
Extraction Language OCaml.
Extraction "../ocaml/c19/model.ml" new_image listing file_data write_file
  embed records wf_archive mkRec.
