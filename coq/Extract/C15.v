(* Extract/C15.v — OCaml extraction of the manifest codec, the IR interpreters and the
   generated schemas/IR for the correspondence check. *)
From Fiano Require Import Base.Bytes Model.Manifest Model.ManifestIR Gen.ManifestCodecs.
Require Extraction.
Require Import ExtrOcamlBasic.
Extraction Language OCaml.
Extraction "../ocaml/c15/model.ml" write read wf total_size offset_of rehash
  cwrite cread cwf csize coffset crehash_v
  run_r run_w run_z run_zfield run_off ops_realise cops_realise
  nfields names_s all_structs all_containers.
