(* Extract/C20.v — OCaml extraction for the correspondence check of C20.
   The newly modelled parsers (Model/Misc.v) are extracted as they are.  The models written
   for the other properties are reached through the wrappers below, which reduce an outcome
   to its class (0 = value, 1 = error, 2 = Panic, 3 = Fuel): C20 only asks whether hostile
   bytes are answered by a value or an error, the values themselves are compared by the
   checks of C13, C14, C15, C17, C18, C19 and C08. *)
From Fiano Require Import Base.Bytes Gen.Consts Model.Misc.
From Fiano Require Model.Fmap Model.Fit Model.Cbfs Model.Amd Model.Manifest Gen.ManifestCodecs
  Model.Framing Model.Apcb.
Require Extraction.
Require Import ExtrOcamlBasic.
Extraction Language OCaml.
Open Scope Z_scope.

Definition cls {A} (o : outcome A) : Z :=
  match o with Ok _ => 0 | Err _ => 1 | Panic _ => 2 | Fuel => 3 end.

Definition c20_fmap (b : bytes) : Z := cls (Fmap.read b).
Definition c20_fit_table (b : bytes) : Z := cls (Fit.get_table b).
Definition c20_fit_entries (b : bytes) : Z := cls (Fit.get_entries b).
Definition c20_cbfs (b : bytes) : Z := cls (Cbfs.new_image b).
Definition c20_psp_table (b : bytes) : Z := cls (Amd.parse_psp_table b).
Definition c20_bios_table (b : bytes) : Z := cls (Amd.parse_bios_table b).
Definition c20_find_psp (b : bytes) : Z := cls (Amd.find_psp_table b).
Definition c20_find_bios (b : bytes) : Z := cls (Amd.find_bios_table b).
Definition c20_efs (b : bytes) : Z := cls (Amd.parse_efs b).
Definition c20_rootkey (b : bytes) : Z := cls (Amd.new_root_key b).
Definition c20_apcb (b : bytes) : Z := cls (Apcb.parse_tokens b).
(* the frame checks of ZLIB.Decode alone: compress/zlib is replaced by "accepts everything" *)
Definition c20_zlib_frame (b : bytes) : Z := cls (Framing.zlib_decode (fun _ => Ok []) b).

(* ReadFrom of the named generated structure (4 = no such structure) *)
Definition c20_manifest (name : Manifest.fname) (b : bytes) : Z :=
  match find (fun x => Manifest.name_eqb (fst (fst x)) name) ManifestCodecs.all_structs with
  | Some (_, d, _) => match Manifest.read d b with Some _ => 0 | None => 1 end
  | None =>
    match find (fun x => Manifest.name_eqb (fst (fst x)) name) ManifestCodecs.all_containers with
    | Some (_, c, _) => cls (Manifest.cread c b)
    | None => 4
    end
  end.

Extraction "../ocaml/c20/model.ml" mc_parse me_parse fsp_parse sacm_parse_size sacm_parse mc_alloc mc_alloc_orig key_alloc key_alloc_orig
  c20_fmap c20_fit_table c20_fit_entries c20_cbfs c20_psp_table c20_bios_table c20_find_psp
  c20_find_bios c20_efs c20_rootkey c20_apcb c20_zlib_frame c20_manifest.
