(* Extract/C09.v — OCaml extraction of the UEFI core model plus the validate model. *)
From Fiano Require Import Base.Bytes Model.Ffs Model.Validate.
Require Extraction.
Require Import ExtrOcamlBasic.
Extraction Language OCaml.
Extraction "../ocaml/c09/model.ml" parse_region save_region parse_fv parse_file parse_section
  asm asm_bios node_buf create_pad_file
  validate_gen validate_region_gen parse_validate.
