(* Extract/C10.v — OCaml extraction of the NVAR model for the correspondence check.
   The UTF-16 transformer variables are instantiated with the concrete
   transcription of golang.org/x/text (dec16_impl / enc16_impl). *)
From Fiano Require Import Base.Bytes Model.Nvar.
Require Extraction.
Require Import ExtrOcamlBasic.
Extraction Language OCaml.

Definition c_parse (fx : bool) (pol : Z) (b : bytes) : outcome nstore :=
  parse_store_gen dec16_impl fx pol b.
Definition c_assemble (pol : Z) (d : nat) (s : nstore) : outcome nstore :=
  asm_store enc16_impl pol d s.
Definition c_compact (pol : Z) (d : nat) (s : nstore) : outcome nstore :=
  compact_store enc16_impl pol d s.
Definition c_invalidate (n : bytes) (s : nstore) : nstore := invalidate n s.
Definition c_run_ops (pol : Z) (d : nat) (ops : list op) (s : nstore) : outcome nstore :=
  run_ops enc16_impl pol d ops s.
Definition c_ucs2_to_utf8 (b : bytes) : outcome bytes := ucs2_to_utf8 dec16_impl true b.
Definition c_utf8_to_ucs2 (b : bytes) : bytes := utf8_to_ucs2 enc16_impl b.

Extraction "../ocaml/c10/model.ml" c_parse c_assemble c_compact c_invalidate c_run_ops c_ucs2_to_utf8 c_utf8_to_ucs2
  v_size v_next v_attrs v_guid v_gidx v_name v_type v_off v_nextoff v_buf v_dataoff v_ext v_sub
  s_entries s_guids s_buf s_free s_goff s_len.
