(* Extract/C08.v — OCaml extraction of the branch-filter and framing models for
   the correspondence check. *)
From Fiano Require Import Base.Bytes Model.Bcj Model.Framing.
Require Extraction.
Require Import ExtrOcamlBasic.
Extraction Language OCaml.
Extraction "../ocaml/c08/model.ml" x86_convert x86 zlib_encode zlib_decode
  syslzma_encode lzma_encode lzmax86_encode lzmax86_decode E_CODEC call_history.
