(* Extract/C16.v — OCaml extraction of the integrity model for the correspondence check. *)
From Fiano Require Import Base.Bytes Model.Integrity.
Require Extraction.
Require Import ExtrOcamlBasic.
Extraction Language OCaml.
Extraction "../ocaml/c16/model.ml" set_pub_key bg_set_pub_key pub_key bg_pub_key
  set_signature_by_data signature_data ks_verify bg_ks_verify
  validate_bpm_key bg_validate_bpm_key ibb_ranges validate_ibb bg_validate_ibb
  psp_validate token_key root_key validate_rtm psb_key_valid psb_key_get ks_set_signature sig_set_signature km_set_signature bytelen
  mkKey mkSig mkKS mkSeg mkSE mkKmHash mkPsbKey.
