(* Extract/C13.v — OCaml extraction of the fmap model for the correspondence check. *)
From Fiano Require Import Base.Bytes Model.Fmap.
Require Extraction.
Require Import ExtrOcamlBasic.
Extraction Language OCaml.
Extraction "../ocaml/c13/model.ml" read write read_area write_area checksum_input json_roundtrip
  mkFmap mkHeader mkArea.
