(* Extract/C02.v — OCaml extraction of the edit model (Model/Edit.v), the independent reader
   (Model/Valid.v) and the UEFI core they run on. *)
From Fiano Require Import Base.Bytes Model.Ffs Model.Edit Model.Valid Model.ValidInv Model.CreateFv.
Require Extraction.
Require Import ExtrOcamlBasic.
Extraction Language OCaml.
Extraction "../ocaml/c02/model.ml" parse_region save_region parse_fv parse_file parse_section
  asm asm_bios node_buf create_pad_file
  parse_cli parse_bios run_op edit_and_save find_elems guid_string guid_parse
  valid_image abs_fv fmatch fv_name flat_check
  create_fv_region.
