(* Extract/C01F.v — OCaml extraction of the flash-image save model over the UEFI core model. *)
From Fiano Require Import Base.Bytes Model.Ffs Model.TightenMe Model.FlashImage.
Require Extraction.
Require Import ExtrOcamlBasic.
Extraction Language OCaml.
Extraction "../ocaml/c01f/model.ml" save_flash flash_layout flash_bios_bytes
  parse_region save_region parse_fv parse_file parse_section asm asm_bios node_buf create_pad_file.
