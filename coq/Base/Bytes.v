(* Base/Bytes.v — byte strings as [list Z], little-endian words, slicing and
   splicing.  Definitions only compute; all lemmas about them live in
   Base/BytesLemmas.v so that the executable part never depends on a proof. *)
From Coq Require Export List ZArith Bool Lia.
Export ListNotations.
Open Scope Z_scope.

Definition bytes := list Z.

Definition byte_ok (b : Z) : bool := (0 <=? b) && (b <? 256).
Definition bytes_ok (bs : bytes) : bool := forallb byte_ok bs.

(* length as Z: all arithmetic in the models is on Z *)
Definition zlen {A} (l : list A) : Z := Z.of_nat (length l).

(* little endian *)
Fixpoint le_dec (bs : bytes) : Z :=
  match bs with
  | [] => 0
  | b :: r => b + 256 * le_dec r
  end.

Fixpoint le_enc (n : nat) (v : Z) : bytes :=
  match n with
  | O => []
  | S k => (v mod 256) :: le_enc k (v / 256)
  end.

(* big endian *)
Definition be_dec (bs : bytes) : Z := le_dec (rev bs).
Definition be_enc (n : nat) (v : Z) : bytes := rev (le_enc n v).

(* [zfirstn]/[zskipn]: Z-indexed, clamp negative to 0 *)
Definition zfirstn {A} (n : Z) (l : list A) : list A := firstn (Z.to_nat n) l.
Definition zskipn {A} (n : Z) (l : list A) : list A := skipn (Z.to_nat n) l.

(* Go's b[lo:hi] with the runtime check made explicit: None = Go would panic *)
Definition slice (lo hi : Z) (b : bytes) : option bytes :=
  if (0 <=? lo) && (lo <=? hi) && (hi <=? zlen b)
  then Some (zfirstn (hi - lo) (zskipn lo b))
  else None.

(* unchecked view used once the bound is established *)
Definition sub (off len : Z) (b : bytes) : bytes := zfirstn len (zskipn off b).

(* Go's b[i] *)
Definition index (i : Z) (b : bytes) : option Z :=
  if (0 <=? i) && (i <? zlen b) then nth_error b (Z.to_nat i) else None.

(* overwrite [d] at offset [off]; caller guarantees it fits *)
Definition splice (off : Z) (d b : bytes) : bytes :=
  zfirstn off b ++ d ++ zskipn (off + zlen d) b.

(* little-endian field read at an offset, width in bytes *)
Definition rd (off : Z) (w : nat) (b : bytes) : Z := le_dec (sub off (Z.of_nat w) b).

Fixpoint repeatz (x : Z) (n : nat) : bytes :=
  match n with O => [] | S k => x :: repeatz x k end.

Definition zrepeat (x : Z) (n : Z) : bytes := repeatz x (Z.to_nat n).

Fixpoint bytes_eqb (a b : bytes) : bool :=
  match a, b with
  | [], [] => true
  | x :: a', y :: b' => (x =? y) && bytes_eqb a' b'
  | _, _ => false
  end.

(* is [p] a prefix of [b] *)
Fixpoint prefixb (p b : bytes) : bool :=
  match p, b with
  | [], _ => true
  | x :: p', y :: b' => (x =? y) && prefixb p' b'
  | _ :: _, [] => false
  end.

(* first index >= 0 at which [p] occurs in [b], like bytes.Index *)
Fixpoint find_sub (p b : bytes) : option Z :=
  if prefixb p b then Some 0 else
  match b with
  | [] => None
  | _ :: b' => match find_sub p b' with Some i => Some (i + 1) | None => None end
  end.

Definition sum_list (l : list Z) : Z := fold_right Z.add 0 l.

(* outcomes of a modelled Go function *)
Inductive outcome (A : Type) : Type :=
| Ok (a : A)
| Err (e : Z)        (* the function returned an error; e is a small class id *)
| Panic (site : Z)   (* Go would panic (slice/index out of range, nil deref) *)
| Fuel.              (* the loop did not finish within the given fuel *)
Arguments Ok {A} a.
Arguments Err {A} e.
Arguments Panic {A} site.
Arguments Fuel {A}.

Definition bind {A B} (x : outcome A) (f : A -> outcome B) : outcome B :=
  match x with
  | Ok a => f a
  | Err e => Err e
  | Panic s => Panic s
  | Fuel => Fuel
  end.

Notation "'do' x <- a ; b" := (bind a (fun x => b))
  (at level 200, x pattern, a at level 100, b at level 200).

Definition of_opt {A} (site : Z) (o : option A) : outcome A :=
  match o with Some a => Ok a | None => Panic site end.

Definition is_ok {A} (o : outcome A) : bool := match o with Ok _ => true | _ => false end.
Definition is_panic {A} (o : outcome A) : bool := match o with Panic _ => true | _ => false end.
Definition is_fuel {A} (o : outcome A) : bool := match o with Fuel => true | _ => false end.
