(* Base/BytesLemmas.v — facts about Base/Bytes.v used by every proof file. *)
From Fiano Require Import Base.Bytes.
From Coq Require Import ZifyBool ZifyNat.
Open Scope Z_scope.

Lemma zlen_nonneg {A} (l : list A) : 0 <= zlen l.
Proof. unfold zlen; lia. Qed.

Lemma zlen_app {A} (a b : list A) : zlen (a ++ b) = zlen a + zlen b.
Proof. unfold zlen; rewrite app_length; lia. Qed.

Lemma zlen_cons {A} (x : A) (l : list A) : zlen (x :: l) = 1 + zlen l.
Proof. unfold zlen; simpl length; lia. Qed.

Lemma zlen_nil {A} : zlen (@nil A) = 0.
Proof. reflexivity. Qed.

Lemma byte_ok_iff b : byte_ok b = true <-> 0 <= b < 256.
Proof. unfold byte_ok; lia. Qed.

Lemma bytes_ok_app a b : bytes_ok (a ++ b) = bytes_ok a && bytes_ok b.
Proof. unfold bytes_ok; apply forallb_app. Qed.

Lemma bytes_ok_cons x l : bytes_ok (x :: l) = byte_ok x && bytes_ok l.
Proof. reflexivity. Qed.

Lemma bytes_ok_firstn n l : bytes_ok l = true -> bytes_ok (firstn n l) = true.
Proof.
  revert l; induction n as [|n IH]; intros [|x l]; simpl; auto.
  intros H; apply andb_true_iff in H as [H1 H2]; rewrite H1; simpl; auto.
Qed.

Lemma bytes_ok_skipn n l : bytes_ok l = true -> bytes_ok (skipn n l) = true.
Proof.
  revert l; induction n as [|n IH]; intros [|x l]; simpl; auto.
  intros H; apply andb_true_iff in H as [H1 H2]; auto.
Qed.

Lemma bytes_ok_sub off len b : bytes_ok b = true -> bytes_ok (sub off len b) = true.
Proof. intros; unfold sub, zfirstn, zskipn; apply bytes_ok_firstn, bytes_ok_skipn; auto. Qed.

(* ---- little endian ---- *)

Lemma le_enc_length n v : length (le_enc n v) = n.
Proof. revert v; induction n as [|n IH]; intros v; simpl; auto. Qed.

Lemma zlen_le_enc n v : zlen (le_enc n v) = Z.of_nat n.
Proof. unfold zlen; rewrite le_enc_length; reflexivity. Qed.

Lemma le_enc_ok n v : bytes_ok (le_enc n v) = true.
Proof.
  revert v; induction n as [|n IH]; intros v; simpl; auto.
  rewrite IH, andb_true_r. apply byte_ok_iff. apply Z.mod_pos_bound; lia.
Qed.

Lemma le_dec_enc n v : 0 <= v < 256 ^ Z.of_nat n -> le_dec (le_enc n v) = v.
Proof.
  revert v; induction n as [|n IH]; intros v Hv.
  - simpl in *. lia.
  - cbn [le_enc le_dec]. rewrite IH.
    + pose proof (Z.div_mod v 256); lia.
    + rewrite Nat2Z.inj_succ, Z.pow_succ_r in Hv by lia.
      split; [apply Z.div_pos; lia|]. apply Z.div_lt_upper_bound; lia.
Qed.

Lemma le_dec_bound bs : bytes_ok bs = true -> 0 <= le_dec bs < 256 ^ zlen bs.
Proof.
  induction bs as [|b r IH]; intros H.
  - simpl; lia.
  - rewrite bytes_ok_cons in H. apply andb_true_iff in H as [Hb Hr].
    apply byte_ok_iff in Hb. specialize (IH Hr).
    rewrite zlen_cons. cbn [le_dec].
    rewrite Z.pow_add_r by (pose proof (zlen_nonneg r); lia). lia.
Qed.

Lemma le_enc_dec bs : bytes_ok bs = true -> le_enc (length bs) (le_dec bs) = bs.
Proof.
  induction bs as [|b r IH]; intros H; auto.
  rewrite bytes_ok_cons in H. apply andb_true_iff in H as [Hb Hr].
  apply byte_ok_iff in Hb. cbn [length le_enc le_dec].
  replace (b + 256 * le_dec r) with (b + le_dec r * 256) by lia.
  f_equal.
  - rewrite Z.mod_add by lia. apply Z.mod_small; lia.
  - rewrite Z.div_add by lia.
    rewrite Z.div_small by lia. rewrite Z.add_0_l. auto.
Qed.

Lemma le_enc_inj n v w :
  0 <= v < 256 ^ Z.of_nat n -> 0 <= w < 256 ^ Z.of_nat n ->
  le_enc n v = le_enc n w -> v = w.
Proof.
  intros Hv Hw E. rewrite <- (le_dec_enc n v Hv), <- (le_dec_enc n w Hw), E. reflexivity.
Qed.

(* ---- firstn / skipn on Z ---- *)

Lemma zfirstn_app_exact {A} (a b : list A) : zfirstn (zlen a) (a ++ b) = a.
Proof.
  unfold zfirstn, zlen. rewrite Nat2Z.id.
  rewrite firstn_app, Nat.sub_diag, firstn_all; simpl. apply app_nil_r.
Qed.

Lemma zskipn_app_exact {A} (a b : list A) : zskipn (zlen a) (a ++ b) = b.
Proof.
  unfold zskipn, zlen. rewrite Nat2Z.id.
  rewrite skipn_app, Nat.sub_diag, skipn_all; reflexivity.
Qed.

Lemma zlen_zfirstn {A} n (l : list A) : 0 <= n <= zlen l -> zlen (zfirstn n l) = n.
Proof. unfold zlen, zfirstn; intros; rewrite firstn_length; lia. Qed.

Lemma zlen_zskipn {A} n (l : list A) : 0 <= n <= zlen l -> zlen (zskipn n l) = zlen l - n.
Proof. unfold zlen, zskipn; intros; rewrite skipn_length; lia. Qed.

Lemma zfirstn_zskipn {A} n (l : list A) : zfirstn n l ++ zskipn n l = l.
Proof. apply firstn_skipn. Qed.

Lemma zskipn_zskipn {A} a b (l : list A) : 0 <= a -> 0 <= b ->
  zskipn a (zskipn b l) = zskipn (a + b) l.
Proof.
  intros. unfold zskipn. rewrite Z2Nat.inj_add by lia.
  revert l. generalize (Z.to_nat a) as x, (Z.to_nat b) as y. clear.
  intros x y; revert x; induction y as [|y IH]; intros x l.
  - rewrite Nat.add_0_r; reflexivity.
  - destruct l as [|h t].
    + rewrite !skipn_nil; reflexivity.
    + rewrite Nat.add_succ_r; simpl. apply IH.
Qed.

Lemma zlen_sub off len b : 0 <= off -> 0 <= len -> off + len <= zlen b ->
  zlen (sub off len b) = len.
Proof.
  intros. unfold sub. rewrite zlen_zfirstn; auto. rewrite zlen_zskipn; lia.
Qed.

Lemma sub_app_mid (a d c : bytes) : sub (zlen a) (zlen d) (a ++ d ++ c) = d.
Proof. unfold sub. rewrite zskipn_app_exact, zfirstn_app_exact; reflexivity. Qed.

Lemma sub_all b : sub 0 (zlen b) b = b.
Proof.
  unfold sub, zskipn; simpl. unfold zfirstn, zlen. rewrite Nat2Z.id. apply firstn_all.
Qed.

Lemma slice_some lo hi b s : slice lo hi b = Some s ->
  0 <= lo <= hi /\ hi <= zlen b /\ s = sub lo (hi - lo) b.
Proof.
  unfold slice. destruct ((0 <=? lo) && (lo <=? hi) && (hi <=? zlen b)) eqn:E;
    [|discriminate]. intros [= <-]. repeat split; try lia.
Qed.

Lemma slice_ok lo hi b : 0 <= lo <= hi -> hi <= zlen b ->
  slice lo hi b = Some (sub lo (hi - lo) b).
Proof.
  intros. unfold slice.
  replace ((0 <=? lo) && (lo <=? hi) && (hi <=? zlen b)) with true by lia. reflexivity.
Qed.

Lemma firstn_add_split {A} (p q : nat) (c : list A) :
  firstn p c ++ firstn q (skipn p c) = firstn (p + q) c.
Proof.
  rewrite <- (firstn_skipn p (firstn (p + q) c)).
  rewrite firstn_firstn. replace (Init.Nat.min p (p + q)) with p by lia.
  f_equal. rewrite skipn_firstn_comm. f_equal. lia.
Qed.

(* two adjacent windows glue into one *)
Lemma window_glue (b : bytes) a l1 l2 : 0 <= a -> 0 <= l1 -> 0 <= l2 ->
  zfirstn l1 (zskipn a b) ++ zfirstn l2 (zskipn (a + l1) b) = zfirstn (l1 + l2) (zskipn a b).
Proof.
  intros Ha H1 H2. replace (a + l1) with (l1 + a) by lia.
  rewrite <- (zskipn_zskipn l1 a) by lia.
  generalize (zskipn a b) as c. intros c. unfold zfirstn, zskipn.
  rewrite Z2Nat.inj_add by lia. apply firstn_add_split.
Qed.

(* ---- splice ---- *)

Lemma nth_error_firstn_lt' {A} (l : list A) n i : (i < n)%nat ->
  nth_error (firstn n l) i = nth_error l i.
Proof.
  revert l i; induction n as [|n IH]; intros l i Hi; [lia|].
  destruct l as [|x l]; [destruct i; reflexivity|].
  destruct i as [|i]; [reflexivity|]. simpl. apply IH. lia.
Qed.

Lemma nth_error_skipn' {A} (l : list A) n i :
  nth_error (skipn n l) i = nth_error l (n + i).
Proof.
  revert l; induction n as [|n IH]; intros l; [reflexivity|].
  destruct l as [|x l]; [destruct i; reflexivity|]. simpl. apply IH.
Qed.

Lemma zlen_splice off d b : 0 <= off -> off + zlen d <= zlen b ->
  zlen (splice off d b) = zlen b.
Proof.
  intros H1 H2. pose proof (zlen_nonneg d). unfold splice.
  rewrite !zlen_app, zlen_zfirstn, zlen_zskipn by lia. lia.
Qed.

Lemma sub_splice off d b : 0 <= off -> off + zlen d <= zlen b ->
  sub off (zlen d) (splice off d b) = d.
Proof.
  intros H1 H2. pose proof (zlen_nonneg d). unfold splice.
  assert (E : off = zlen (zfirstn off b)) by (rewrite zlen_zfirstn; lia).
  rewrite E at 1. apply sub_app_mid.
Qed.

Lemma nth_error_splice_lo off d b i : 0 <= off -> off + zlen d <= zlen b ->
  (Z.of_nat i < off) -> nth_error (splice off d b) i = nth_error b i.
Proof.
  intros H1 H2 Hi. pose proof (zlen_nonneg d). unfold splice, zfirstn.
  rewrite nth_error_app1.
  - apply nth_error_firstn_lt'. lia.
  - rewrite firstn_length. unfold zlen in *. lia.
Qed.

Lemma nth_error_splice_hi off d b i : 0 <= off -> off + zlen d <= zlen b ->
  (off + zlen d <= Z.of_nat i) -> nth_error (splice off d b) i = nth_error b i.
Proof.
  intros H1 H2 Hi. pose proof (zlen_nonneg d). unfold splice.
  assert (L1 : length (zfirstn off b) = Z.to_nat off).
  { unfold zfirstn; rewrite firstn_length; unfold zlen in *; lia. }
  rewrite nth_error_app2 by (rewrite L1; lia).
  rewrite nth_error_app2 by (rewrite L1; unfold zlen in *; lia).
  unfold zskipn. rewrite nth_error_skipn'. f_equal. rewrite L1. unfold zlen in *. lia.
Qed.

Lemma splice_same off len b : 0 <= off -> 0 <= len -> off + len <= zlen b ->
  splice off (sub off len b) b = b.
Proof.
  intros H1 H2 H3. unfold splice. rewrite zlen_sub by lia.
  unfold sub.
  rewrite <- (zfirstn_zskipn off b) at 4.
  f_equal.
  rewrite <- (zfirstn_zskipn len (zskipn off b)) at 2.
  f_equal. rewrite zskipn_zskipn by lia. f_equal. lia.
Qed.

(* two lists of equal length that agree everywhere are equal *)
Lemma nth_error_ext {A} (a b : list A) :
  (forall i, nth_error a i = nth_error b i) -> a = b.
Proof.
  revert b; induction a as [|x a IH]; intros [|y b] H; auto.
  - specialize (H O); discriminate.
  - specialize (H O); discriminate.
  - f_equal.
    + specialize (H O); simpl in H; congruence.
    + apply IH; intros i; apply (H (S i)).
Qed.

(* ---- prefix / search ---- *)

Lemma prefixb_app p r : prefixb p (p ++ r) = true.
Proof. induction p as [|x p IH]; simpl; auto. rewrite Z.eqb_refl; auto. Qed.

Lemma prefixb_true p b : prefixb p b = true -> exists r, b = p ++ r.
Proof.
  revert b; induction p as [|x p IH]; intros b H.
  - exists b; reflexivity.
  - destruct b as [|y b]; [discriminate|]. simpl in H.
    apply andb_true_iff in H as [E H]. apply Z.eqb_eq in E; subst y.
    destruct (IH _ H) as [r ->]. exists r; reflexivity.
Qed.

Lemma find_sub_some p b i : find_sub p b = Some i ->
  0 <= i /\ prefixb p (zskipn i b) = true /\
  (forall j, 0 <= j < i -> prefixb p (zskipn j b) = false).
Proof.
  revert i; induction b as [|y b IH]; intros i.
  - cbn [find_sub]. destruct (prefixb p []) eqn:E; [|discriminate].
    intros [= <-]. repeat split; auto; lia.
  - cbn [find_sub]. destruct (prefixb p (y :: b)) eqn:E.
    + intros [= <-]. repeat split; auto; lia.
    + destruct (find_sub p b) as [k|] eqn:F; [|discriminate].
      intros [= <-]. destruct (IH k eq_refl) as (K0 & K1 & K2).
      split; [lia|]. split.
      * unfold zskipn in *. replace (Z.to_nat (k + 1)) with (S (Z.to_nat k)) by lia. exact K1.
      * intros j Hj. destruct (Z.eq_dec j 0) as [->|Hn]; [exact E|].
        specialize (K2 (j - 1) ltac:(lia)). unfold zskipn in *.
        replace (Z.to_nat j) with (S (Z.to_nat (j - 1))) by lia. exact K2.
Qed.

Lemma find_sub_none p b : find_sub p b = None ->
  forall j, 0 <= j -> prefixb p (zskipn j b) = false.
Proof.
  induction b as [|y b IH]; cbn [find_sub].
  - destruct (prefixb p []) eqn:E; [discriminate|]. intros _ j Hj.
    unfold zskipn. rewrite skipn_nil. exact E.
  - destruct (prefixb p (y :: b)) eqn:E; [discriminate|].
    destruct (find_sub p b) eqn:F; [discriminate|]. intros _ j Hj.
    destruct (Z.eq_dec j 0) as [->|Hn]; [exact E|].
    specialize (IH eq_refl (j - 1) ltac:(lia)). unfold zskipn in *.
    replace (Z.to_nat j) with (S (Z.to_nat (j - 1))) by lia. exact IH.
Qed.

Lemma find_sub_bound p b i : find_sub p b = Some i -> i + zlen p <= zlen b.
Proof.
  revert i; induction b as [|y b IH]; intros i; cbn [find_sub].
  - destruct (prefixb p []) eqn:E; [|discriminate]. intros [= <-].
    destruct p; [|discriminate]. reflexivity.
  - destruct (prefixb p (y :: b)) eqn:E.
    + intros [= <-]. destruct (prefixb_true _ _ E) as [r Hr].
      rewrite Hr, zlen_app. pose proof (zlen_nonneg r). lia.
    + destruct (find_sub p b) as [k|]; [|discriminate]. intros [= <-].
      specialize (IH k eq_refl). rewrite zlen_cons. lia.
Qed.

Lemma bytes_eqb_eq a b : bytes_eqb a b = true <-> a = b.
Proof.
  revert b; induction a as [|x a IH]; intros [|y b]; simpl; split; try congruence; auto.
  - intros H. apply andb_true_iff in H as [E H]. apply Z.eqb_eq in E. apply IH in H. congruence.
  - intros [= -> ->]. rewrite Z.eqb_refl. apply IH. reflexivity.
Qed.

(* ---- generic field-access lemmas ---- *)

Lemma sub_app_skip (a b : bytes) off len k :
  zlen a = k -> k <= off -> sub off len (a ++ b) = sub (off - k) len b.
Proof.
  intros Hk Hle. unfold sub. f_equal.
  pose proof (zlen_nonneg a).
  replace off with ((off - k) + zlen a) at 1 by lia.
  rewrite <- zskipn_zskipn by lia. rewrite zskipn_app_exact. reflexivity.
Qed.

Lemma sub_app_here (a b : bytes) len : zlen a = len -> sub 0 len (a ++ b) = a.
Proof.
  intros <-. unfold sub. change (zskipn 0 (a ++ b)) with (a ++ b). apply zfirstn_app_exact.
Qed.

Lemma sub_here_exact (a : bytes) len : zlen a = len -> sub 0 len a = a.
Proof. intros <-. apply sub_all. Qed.

Lemma rd_app_skip (a b : bytes) off w k :
  zlen a = k -> k <= off -> rd off w (a ++ b) = rd (off - k) w b.
Proof. intros; unfold rd; f_equal; apply sub_app_skip; auto. Qed.

Lemma rd_app_here (a b : bytes) w : zlen a = Z.of_nat w -> rd 0 w (a ++ b) = le_dec a.
Proof. intros; unfold rd; f_equal; apply sub_app_here; auto. Qed.

Lemma rd_here_exact (a : bytes) w : zlen a = Z.of_nat w -> rd 0 w a = le_dec a.
Proof. intros; unfold rd; f_equal; apply sub_here_exact; auto. Qed.

Lemma le1 v : zlen (le_enc 1 v) = 1. Proof. exact (zlen_le_enc 1 v). Qed.
Lemma le2 v : zlen (le_enc 2 v) = 2. Proof. exact (zlen_le_enc 2 v). Qed.
Lemma le4 v : zlen (le_enc 4 v) = 4. Proof. exact (zlen_le_enc 4 v). Qed.
Lemma le8 v : zlen (le_enc 8 v) = 8. Proof. exact (zlen_le_enc 8 v). Qed.


Lemma zskipn_cons_succ {A} (x : A) l j : 0 <= j -> zskipn (j + 1) (x :: l) = zskipn j l.
Proof. intros. unfold zskipn. replace (Z.to_nat (j + 1)) with (S (Z.to_nat j)) by lia. reflexivity. Qed.

Ltac glue b a l1 l2 :=
  let H := fresh in
  pose proof (window_glue b a l1 l2 ltac:(lia) ltac:(lia) ltac:(lia)) as H;
  simpl Z.add in H; rewrite H; clear H.

(* ---- outcomes ---- *)

Lemma bind_ok {A B} (x : outcome A) (f : A -> outcome B) b :
  bind x f = Ok b -> exists a, x = Ok a /\ f a = Ok b.
Proof. destruct x; simpl; try discriminate. intros; eauto. Qed.
