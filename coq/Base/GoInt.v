(* Base/GoInt.v — Go's integer and control-flow semantics as used by the GENERATED file
   Gen/GoKernels.v (translator/Kernels.sh, harness/cmd/translate-kernels), plus the lemmas the
   tie proofs (Proofs/KernelTie*.v) need about them.

   Conventions of the generated code
     - every Go integer value is a [Z] inside the range of its static type; an operation whose
       mathematical result may leave that range is wrapped: [wrap w] for uintW, [swrap w] for intW
       (int and uint are 64 bit wide);
     - a []byte / [n]uint8 value is a [list Z];
     - a Go run-time panic (index or slice out of range, division by zero) is [Panic site], a
       returned non-nil error is [Err class], an unbounded loop runs on [fuel] and gives [Fuel]
       when it is used up ([outcome] of Base/Bytes.v);
     - loops are folds: [fold_left] when the body neither breaks nor returns, [go_fold_c] /
       [go_fold_m] / [go_loop] with the control result [ctl] otherwise. *)
From Fiano Require Import Base.Bytes.
From Coq Require Import ZifyBool ZifyNat.
Open Scope Z_scope.

(* ---------- integers ---------- *)

(* the value of an unsigned w-bit result *)
Definition wrap (w x : Z) : Z := x mod 2 ^ w.
(* the value of a signed w-bit result (two's complement) *)
Definition swrap (w x : Z) : Z := (x + 2 ^ (w - 1)) mod 2 ^ w - 2 ^ (w - 1).
(* ^x on an unsigned w-bit operand (on a signed operand ^x is [Z.lnot x]) *)
Definition go_not (w x : Z) : Z := wrap w (Z.lnot x).
(* x << s: the count is unsigned (or a non-negative constant); the result is truncated to the width *)
Definition go_shl (w x s : Z) : Z := wrap w (Z.shiftl x s).
Definition go_shl_s (w x s : Z) : Z := swrap w (Z.shiftl x s).
(* x >> s is [Z.shiftr x s] for both signednesses (arithmetic shift on a negative x) *)

(* ---------- partial operations ---------- *)

(* l[i] with the bounds check made explicit *)
Definition go_index {A} (site : Z) (l : list A) (i : Z) : outcome A :=
  if (0 <=? i) && (i <? zlen l)
  then match nth_error l (Z.to_nat i) with Some v => Ok v | None => Panic site end
  else Panic site.

(* b[lo:] *)
Definition go_slice_from (site : Z) (b : list Z) (lo : Z) : outcome (list Z) :=
  of_opt site (slice lo (zlen b) b).

(* b[lo:hi].  Go checks hi against cap(b), the transcription against len(b): an Ok result is what
   Go computes, a Panic may be spurious when the slice has spare capacity. *)
Definition go_slice (site : Z) (b : list Z) (lo hi : Z) : outcome (list Z) :=
  of_opt site (slice lo hi b).

(* copy(dst, src): the new contents of dst *)
Definition go_copy (dst src : list Z) : list Z :=
  let n := Nat.min (length dst) (length src) in firstn n src ++ skipn n dst.

(* x[i] = v: the new contents of x *)
Definition go_update (site : Z) (x : list Z) (i v : Z) : outcome (list Z) :=
  if (0 <=? i) && (i <? zlen x)
  then Ok (firstn (Z.to_nat i) x ++ v :: skipn (S (Z.to_nat i)) x)
  else Panic site.

(* binary.LittleEndian.UintN(b) / BigEndian (n = N/8 bytes): panics when b is shorter *)
Definition go_le_uint (site : Z) (n : nat) (b : list Z) : outcome Z :=
  if Z.of_nat n <=? zlen b then Ok (le_dec (firstn n b)) else Panic site.
Definition go_be_uint (site : Z) (n : nat) (b : list Z) : outcome Z :=
  if Z.of_nat n <=? zlen b then Ok (be_dec (firstn n b)) else Panic site.
(* binary.LittleEndian.PutUintN(b, v): the new contents of b *)
Definition go_le_put (site : Z) (n : nat) (b : list Z) (v : Z) : outcome (list Z) :=
  if Z.of_nat n <=? zlen b then Ok (le_enc n v ++ skipn n b) else Panic site.
Definition go_be_put (site : Z) (n : nat) (b : list Z) (v : Z) : outcome (list Z) :=
  if Z.of_nat n <=? zlen b then Ok (be_enc n v ++ skipn n b) else Panic site.

(* a / b and a % b with a divisor that is not a non-zero constant *)
Definition go_divu (site a b : Z) : outcome Z := if b =? 0 then Panic site else Ok (a / b).
Definition go_modu (site a b : Z) : outcome Z := if b =? 0 then Panic site else Ok (a mod b).
Definition go_divs (site w a b : Z) : outcome Z := if b =? 0 then Panic site else Ok (swrap w (Z.quot a b)).
Definition go_mods (site a b : Z) : outcome Z := if b =? 0 then Panic site else Ok (Z.rem a b).

(* binary.Read(r, binary.LittleEndian / BigEndian, &x) for an unsigned integer x of n bytes, r a
   bytes.Reader rendered as the list of its unread bytes: Err 1 = io.EOF, Err 2 = io.ErrUnexpectedEOF *)
Definition go_read_le (n : nat) (r : list Z) : outcome (Z * list Z) :=
  if Z.of_nat n <=? zlen r then Ok (le_dec (firstn n r), skipn n r)
  else Err (if zlen r =? 0 then 1 else 2).
Definition go_read_be (n : nat) (r : list Z) : outcome (Z * list Z) :=
  if Z.of_nat n <=? zlen r then Ok (be_dec (firstn n r), skipn n r)
  else Err (if zlen r =? 0 then 1 else 2).

(* ---------- loops ---------- *)

(* the values of i in [for i := a; i < n; i += k] (k > 0, no overflow of i) *)
Definition go_iota (a n k : Z) : list Z :=
  map (fun j => a + k * Z.of_nat j) (seq 0 (Z.to_nat ((n - a + k - 1) / k))).

(* what one execution of a loop body says: go on / break / return r *)
Inductive ctl (S R : Type) : Type :=
| Next (s : S)
| Break (s : S)
| Ret (r : R).
Arguments Next {S R} s.
Arguments Break {S R} s.
Arguments Ret {S R} r.

(* a loop over the items [l]; result: final state (loop left normally or by break) or the value returned *)
Fixpoint go_fold_c {S R X} (f : S -> X -> ctl S R) (l : list X) (s : S) : S + R :=
  match l with
  | [] => inl s
  | x :: r =>
    match f s x with
    | Next s' => go_fold_c f r s'
    | Break s' => inl s'
    | Ret v => inr v
    end
  end.

Fixpoint go_fold_m {S R X} (f : S -> X -> outcome (ctl S R)) (l : list X) (s : S) : outcome (S + R) :=
  match l with
  | [] => Ok (inl s)
  | x :: r =>
    match f s x with
    | Ok (Next s') => go_fold_m f r s'
    | Ok (Break s') => Ok (inl s')
    | Ok (Ret v) => Ok (inr v)
    | Err e => Err e
    | Panic p => Panic p
    | Fuel => Fuel
    end
  end.

(* [for cond { body }] / [for { body }]: at most [fuel] executions of the body *)
Fixpoint go_loop {S R} (fuel : nat) (f : S -> outcome (ctl S R)) (s : S) : outcome (S + R) :=
  match fuel with
  | O => Fuel
  | Datatypes.S n =>
    match f s with
    | Ok (Next s') => go_loop n f s'
    | Ok (Break s') => Ok (inl s')
    | Ok (Ret v) => Ok (inr v)
    | Err e => Err e
    | Panic p => Panic p
    | Fuel => Fuel
    end
  end.

(* ====================================================================== *)
(* lemmas                                                                   *)
(* ====================================================================== *)

Lemma pow2_pos w : 0 <= w -> 0 < 2 ^ w.
Proof. intros; apply Z.pow_pos_nonneg; lia. Qed.

Lemma wrap_range w x : 0 <= w -> 0 <= wrap w x < 2 ^ w.
Proof. intros; unfold wrap; apply Z.mod_pos_bound, pow2_pos; auto. Qed.

Lemma wrap_small w x : 0 <= x < 2 ^ w -> wrap w x = x.
Proof. intros; unfold wrap; apply Z.mod_small; auto. Qed.

Lemma wrap_wrap w x : wrap w (wrap w x) = wrap w x.
Proof. unfold wrap. destruct (Z.eq_dec (2 ^ w) 0) as [E|E]; [rewrite E, !Zmod_0_r; auto|apply Z.mod_mod; auto]. Qed.

Lemma wrap_add_l w a b : wrap w (wrap w a + b) = wrap w (a + b).
Proof. unfold wrap. destruct (Z.eq_dec (2 ^ w) 0) as [E|E]; [rewrite E, !Zmod_0_r; auto|apply Z.add_mod_idemp_l; auto]. Qed.

Lemma wrap_add_r w a b : wrap w (a + wrap w b) = wrap w (a + b).
Proof. unfold wrap. destruct (Z.eq_dec (2 ^ w) 0) as [E|E]; [rewrite E, !Zmod_0_r; auto|apply Z.add_mod_idemp_r; auto]. Qed.

Lemma wrap_sub_l w a b : wrap w (wrap w a - b) = wrap w (a - b).
Proof. unfold wrap. destruct (Z.eq_dec (2 ^ w) 0) as [E|E]; [rewrite E, !Zmod_0_r; auto|apply Zminus_mod_idemp_l]. Qed.

Lemma wrap_sub_r w a b : wrap w (a - wrap w b) = wrap w (a - b).
Proof. unfold wrap. destruct (Z.eq_dec (2 ^ w) 0) as [E|E]; [rewrite E, !Zmod_0_r; auto|apply Zminus_mod_idemp_r]. Qed.

Lemma swrap_small w x : 0 < w -> - 2 ^ (w - 1) <= x < 2 ^ (w - 1) -> swrap w x = x.
Proof.
  intros Hw Hx. unfold swrap.
  assert (E : 2 ^ w = 2 * 2 ^ (w - 1)) by (rewrite <- Z.pow_succ_r by lia; f_equal; lia).
  rewrite Z.mod_small by lia. lia.
Qed.

(* uintW(x) of an intW value x: the signed wrap disappears under the unsigned one *)
Lemma wrap_swrap w x : 0 < w -> wrap w (swrap w x) = wrap w x.
Proof.
  intros Hw. unfold wrap, swrap.
  assert (E : 2 ^ w = 2 * 2 ^ (w - 1)) by (rewrite <- Z.pow_succ_r by lia; f_equal; lia).
  assert (Hp : 0 < 2 ^ (w - 1)) by (apply pow2_pos; lia).
  rewrite Zminus_mod_idemp_l. f_equal. lia.
Qed.

Lemma go_not_eq w x : 0 <= w -> 0 <= x < 2 ^ w -> go_not w x = 2 ^ w - 1 - x.
Proof.
  intros Hw Hx. unfold go_not, wrap, Z.lnot.
  replace (Z.pred (- x)) with ((2 ^ w - 1 - x) + (-1) * 2 ^ w) by lia.
  rewrite Z.mod_add by lia. apply Z.mod_small. lia.
Qed.

Lemma shiftl_mul x s : 0 <= s -> Z.shiftl x s = x * 2 ^ s.
Proof. intros; apply Z.shiftl_mul_pow2; auto. Qed.

Lemma shiftr_div x s : 0 <= s -> Z.shiftr x s = x / 2 ^ s.
Proof. intros; apply Z.shiftr_div_pow2; auto. Qed.

(* bits above the size of a non-negative number are clear *)
Lemma testbit_above x k n : 0 <= x < 2 ^ k -> k <= n -> Z.testbit x n = false.
Proof.
  intros Hx Hn. destruct (Z.eq_dec x 0) as [->|Hne]; [apply Z.bits_0|].
  apply Z.bits_above_log2; [lia|].
  apply Z.lt_le_trans with k; [|lia]. apply Z.log2_lt_pow2; lia.
Qed.

(* hi<<k | lo is hi*2^k + lo when lo fits below bit k *)
Lemma lor_shiftl_add hi lo k : 0 <= k -> 0 <= lo < 2 ^ k ->
  Z.lor (Z.shiftl hi k) lo = hi * 2 ^ k + lo.
Proof.
  intros Hk Hlo.
  assert (Hand : Z.land (Z.shiftl hi k) lo = 0).
  { apply Z.bits_inj'. intros n Hn. rewrite Z.land_spec, Z.bits_0.
    destruct (Z.ltb_spec n k).
    - rewrite Z.shiftl_spec_low by lia. reflexivity.
    - rewrite (testbit_above lo k n) by lia. apply andb_false_r. }
  rewrite <- Z.lxor_lor by exact Hand.
  rewrite <- Z.add_nocarry_lxor by exact Hand.
  rewrite Z.shiftl_mul_pow2 by lia. reflexivity.
Qed.

Lemma lor_add_shiftl lo hi k : 0 <= k -> 0 <= lo < 2 ^ k ->
  Z.lor lo (Z.shiftl hi k) = lo + hi * 2 ^ k.
Proof. intros. rewrite Z.lor_comm, lor_shiftl_add by auto. lia. Qed.

(* x & (2^w - 2^k) clears the k low bits of a w-bit x *)
Lemma land_clear_low_bits x k w : 0 <= k <= w -> 0 <= x < 2 ^ w ->
  Z.land x (2 ^ w - 2 ^ k) = (x / 2 ^ k) * 2 ^ k.
Proof.
  intros Hk Hx.
  rewrite <- Z.shiftr_div_pow2, <- Z.shiftl_mul_pow2 by lia.
  apply Z.bits_inj'. intros n Hn.
  rewrite Z.land_spec.
  assert (Hm : Z.testbit (2 ^ w - 2 ^ k) n = (k <=? n) && (n <? w)).
  { replace (2 ^ w - 2 ^ k) with (Z.shiftl (Z.ones (w - k)) k).
    2:{ rewrite Z.shiftl_mul_pow2, Z.ones_equiv by lia. unfold Z.pred.
        rewrite Z.mul_add_distr_r, <- Z.pow_add_r by lia. replace (w - k + k) with w by lia. lia. }
    destruct (Z.leb_spec k n).
    - rewrite Z.shiftl_spec by lia.
      destruct (Z.ltb_spec n w).
      + rewrite Z.ones_spec_low by lia. reflexivity.
      + rewrite Z.ones_spec_high by lia. reflexivity.
    - rewrite Z.shiftl_spec_low by lia. reflexivity. }
  rewrite Hm.
  destruct (Z.leb_spec k n).
  - rewrite Z.shiftl_spec, Z.shiftr_spec by lia. replace (n - k + k) with n by lia.
    destruct (Z.ltb_spec n w); cbn [andb].
    + apply andb_true_r.
    + rewrite (testbit_above x w n) by lia. reflexivity.
  - rewrite Z.shiftl_spec_low by lia. cbn [andb]. apply andb_false_r.
Qed.

(* ---- go_iota ---- *)

Lemma go_iota_length a n k : length (go_iota a n k) = Z.to_nat ((n - a + k - 1) / k).
Proof. unfold go_iota. rewrite map_length, seq_length. reflexivity. Qed.

(* ---- bind ---- *)
Lemma go_bind_ok {A B} (x : outcome A) (f : A -> outcome B) a : x = Ok a -> bind x f = f a.
Proof. intros ->; reflexivity. Qed.

(* ---- go_index on a table ---- *)
Lemma go_index_nth {A} site (l : list A) i d :
  0 <= i < zlen l -> go_index site l i = Ok (nth (Z.to_nat i) l d).
Proof.
  intros Hi. unfold go_index.
  replace ((0 <=? i) && (i <? zlen l)) with true by lia.
  destruct (nth_error l (Z.to_nat i)) eqn:E.
  - erewrite nth_error_nth by exact E. reflexivity.
  - apply nth_error_None in E. unfold zlen in Hi. lia.
Qed.

(* ---- simple sums ---- *)

(* sum += v at width w over a list = the list's sum modulo 2^w *)
Lemma fold_wrap_add w (l : list Z) acc :
  fold_left (fun s v => wrap w (s + v)) l acc = wrap w (acc + sum_list l) \/ l = [] .
Proof.
  destruct l as [|x l]; [right; reflexivity|left].
  revert x acc. induction l as [|y l IH]; intros x acc.
  - cbn. f_equal. lia.
  - cbn [fold_left sum_list fold_right] in *. rewrite IH. cbn [fold_left].
    rewrite wrap_add_l. f_equal. lia.
Qed.

Lemma fold_wrap_add' w (l : list Z) acc : 0 <= acc < 2 ^ w ->
  fold_left (fun s v => wrap w (s + v)) l acc = wrap w (acc + sum_list l).
Proof.
  intros Ha. destruct (fold_wrap_add w l acc) as [H| ->]; [exact H|].
  cbn. rewrite Z.add_0_r, wrap_small; auto.
Qed.

(* ====================================================================== *)
(* normalisation of integer kernels: the tie lemmas are closed by [go_arith], *)
(* which does not depend on how the Go source spells an operation            *)
(* (x<<k / x*2^k, x>>k / x/2^k, x&(2^k-1) / x%2^k, x&^m / x&^(m), | / + on  *)
(* disjoint fields, the order of modular additions)                          *)
(* ====================================================================== *)

(* whatever the kernel returns, as an outcome: a tie stated with [go_out] does not depend on
   whether the transcription needed run-time checks (the result type of the generated definition
   is [T] or [outcome T] accordingly) *)
Class GoOut (T R : Type) := go_out : T -> outcome R.
#[global] Instance go_out_m {R} : GoOut (outcome R) R | 0 := fun x => x.
#[global] Instance go_out_pure {R} : GoOut R R | 10 := fun x => Ok x.

(* equal up to the numbering of the panic sites (the transcription numbers the run-time checks of a
   function in source order, the hand-written models number them as they like) *)
Definition outcome_agree {A} (x y : outcome A) : Prop :=
  match x, y with
  | Ok a, Ok b => a = b
  | Err a, Err b => a = b
  | Panic _, Panic _ => True
  | Fuel, Fuel => True
  | _, _ => False
  end.

Definition out_eqb (x y : outcome Z) : bool :=
  match x, y with
  | Ok a, Ok b => a =? b
  | Err a, Err b => a =? b
  | Panic _, Panic _ => true
  | Fuel, Fuel => true
  | _, _ => false
  end.

Lemma out_eqb_agree x y : out_eqb x y = true -> outcome_agree x y.
Proof. destruct x, y; cbn; try discriminate; try lia; auto. Qed.

Lemma out_eqb_ok x b : out_eqb x (Ok b) = true -> x = Ok b.
Proof. destruct x; cbn; try discriminate. intros H. f_equal. lia. Qed.

(* sweeps over one and two bytes *)
Definition go_bytes256 : list Z := map Z.of_nat (seq 0 256).
Lemma go_bytes256_in a : 0 <= a < 256 -> In a go_bytes256.
Proof.
  intros Ha. unfold go_bytes256. apply in_map_iff. exists (Z.to_nat a). split; [lia|]. apply in_seq. lia.
Qed.
Lemma go_sweep1 (P : Z -> bool) : forallb P go_bytes256 = true -> forall a, 0 <= a < 256 -> P a = true.
Proof. intros H a Ha. rewrite forallb_forall in H. apply H, go_bytes256_in, Ha. Qed.
Lemma go_sweep2 (P : Z -> Z -> bool) :
  forallb (fun a => forallb (P a) go_bytes256) go_bytes256 = true ->
  forall a b, 0 <= a < 256 -> 0 <= b < 256 -> P a b = true.
Proof.
  intros H a b Ha Hb. rewrite forallb_forall in H. specialize (H a (go_bytes256_in a Ha)).
  rewrite forallb_forall in H. apply H, go_bytes256_in, Hb.
Qed.

Lemma lor_add_low k x l : 0 <= k -> x mod 2 ^ k = 0 -> 0 <= l < 2 ^ k -> Z.lor x l = x + l.
Proof.
  intros Hk Hx Hl.
  assert (E : x = Z.shiftl (x / 2 ^ k) k).
  { rewrite Z.shiftl_mul_pow2 by lia. pose proof (Z.div_mod x (2 ^ k) ltac:(lia)). lia. }
  rewrite E at 1. rewrite lor_shiftl_add by lia.
  pose proof (Z.div_mod x (2 ^ k) ltac:(lia)). lia.
Qed.

Lemma lor_add_low' k l x : 0 <= k -> x mod 2 ^ k = 0 -> 0 <= l < 2 ^ k -> Z.lor l x = l + x.
Proof. intros. rewrite Z.lor_comm, (lor_add_low k) by auto. lia. Qed.

Lemma ldiff_low_ones x k : 0 <= k -> Z.ldiff x (Z.ones k) = (x / 2 ^ k) * 2 ^ k.
Proof. intros. rewrite Z.ldiff_ones_r, Z.shiftr_div_pow2, Z.shiftl_mul_pow2 by lia. reflexivity. Qed.

(* x &^ y on an unsigned w-bit x is x & ^y *)
Lemma ldiff_go_not w x y : 0 <= w -> 0 <= x < 2 ^ w -> Z.ldiff x y = Z.land x (go_not w y).
Proof.
  intros Hw Hx. unfold go_not, wrap. rewrite Z.ldiff_land.
  rewrite <- (Z.land_ones (Z.lnot y) w) by lia.
  rewrite (Z.land_comm (Z.lnot y)), Z.land_assoc.
  rewrite (Z.land_ones x w) by lia. rewrite Z.mod_small by lia. reflexivity.
Qed.

Lemma mod_congr M a b k : a = b + k * M -> a mod M = b mod M.
Proof.
  intros ->. destruct (Z.eq_dec M 0) as [->|HM]; [rewrite Z.mul_0_r, Z.add_0_r; reflexivity|].
  apply Z.mod_add; exact HM.
Qed.

Ltac go_zside := first [ timeout 5 lia | timeout 10 (Z.div_mod_to_equations; lia) ].
Ltac go_zsolve :=
  first [ lia
        | Z.div_mod_to_equations; lia
        | Z.div_mod_to_equations; nia ].

(* a closed positive numeral *)
Ltac go_is_num c := lazymatch c with Zpos ?p => idtac | Z0 => idtac end.

(* x & c, c = 2^k - 1  ->  x mod 2^k;   x & c, c = 2^w - 2^k, 0 <= x < 2^w  ->  (x / 2^k) * 2^k;
   x &^ c, c = 2^k - 1  ->  (x / 2^k) * 2^k *)
Ltac go_mask_step :=
  match goal with
  | |- context [Z.land ?x ?c] =>
      go_is_num c;
      let k := eval vm_compute in (Z.log2 (c + 1)) in
      let ok := eval vm_compute in ((2 ^ k =? c + 1) && (0 <? c)) in
      lazymatch ok with true =>
        replace (Z.land x c) with (x mod 2 ^ k) by (symmetry; apply (Z.land_ones x k); lia) end
  | |- context [Z.land ?c ?x] =>
      go_is_num c;
      let k := eval vm_compute in (Z.log2 (c + 1)) in
      let ok := eval vm_compute in ((2 ^ k =? c + 1) && (0 <? c)) in
      lazymatch ok with true =>
        replace (Z.land c x) with (x mod 2 ^ k) by (symmetry; rewrite Z.land_comm; apply (Z.land_ones x k); lia) end
  | |- context [Z.ldiff ?x ?c] =>
      go_is_num c;
      let k := eval vm_compute in (Z.log2 (c + 1)) in
      let ok := eval vm_compute in ((2 ^ k =? c + 1) && (0 <? c)) in
      lazymatch ok with true =>
        replace (Z.ldiff x c) with ((x / 2 ^ k) * 2 ^ k) by (symmetry; apply (ldiff_low_ones x k); lia) end
  | |- context [Z.land ?x ?c] =>
      go_is_num c;
      let w := eval vm_compute in (Z.log2 c + 1) in
      let k := eval vm_compute in (Z.log2 (2 ^ w - c)) in
      let ok := eval vm_compute in ((2 ^ w - 2 ^ k =? c) && (0 <? c)) in
      lazymatch ok with true =>
        replace (Z.land x c) with ((x / 2 ^ k) * 2 ^ k)
          by (symmetry; apply (land_clear_low_bits x k w); [lia | go_zside]) end
  end.

(* (x mod m) with 0 <= x < m -> x *)
Ltac go_mod_small_step :=
  match goal with
  | |- context [?x mod ?m] => rewrite (Z.mod_small x m) by go_zside
  end.

(* x | y -> x + y when one side is a multiple of 2^k and the other is below 2^k *)
Ltac go_lor_step :=
  match goal with
  | |- context [Z.lor ?x ?y] =>
      first [ rewrite (lor_add_low 8 x y) by go_zside | rewrite (lor_add_low' 8 x y) by go_zside
            | rewrite (lor_add_low 16 x y) by go_zside | rewrite (lor_add_low' 16 x y) by go_zside
            | rewrite (lor_add_low 24 x y) by go_zside | rewrite (lor_add_low' 24 x y) by go_zside
            | rewrite (lor_add_low 32 x y) by go_zside | rewrite (lor_add_low' 32 x y) by go_zside
            | rewrite (lor_add_low 4 x y) by go_zside | rewrite (lor_add_low' 4 x y) by go_zside
            | rewrite (lor_add_low 7 x y) by go_zside | rewrite (lor_add_low' 7 x y) by go_zside
            | rewrite (lor_add_low 12 x y) by go_zside | rewrite (lor_add_low' 12 x y) by go_zside
            | rewrite (lor_add_low 48 x y) by go_zside | rewrite (lor_add_low' 48 x y) by go_zside ]
  end.

(* closed powers of two as numerals (after the structural rewrites, for lia) *)
Ltac go_pow_step :=
  match goal with
  | |- context [2 ^ ?k] => go_is_num k; let v := eval vm_compute in (2 ^ k) in change (2 ^ k) with v
  end.

(* the same in the hypotheses *)
Ltac go_pow_hyps :=
  repeat match goal with
  | H : context [2 ^ ?k] |- _ => go_is_num k; let v := eval vm_compute in (2 ^ k) in change (2 ^ k) with v in H
  end.

(* a contradiction between boolean tests of integer expressions *)
Ltac go_absurd :=
  exfalso; rewrite ?Z.shiftl_mul_pow2, ?Z.shiftr_div_pow2 in * by lia;
  unfold go_shl, go_shl_s, go_not, wrap in *; go_pow_hyps; go_zsolve.

(* closed subterms *)
Ltac go_closedP p := lazymatch p with xH => idtac | xO ?q => go_closedP q | xI ?q => go_closedP q end.
Ltac go_closedZ t :=
  lazymatch t with
  | Z0 => idtac | Zpos ?p => go_closedP p | Zneg ?p => go_closedP p
  | ?a + ?b => go_closedZ a; go_closedZ b
  | ?a - ?b => go_closedZ a; go_closedZ b
  | ?a * ?b => go_closedZ a; go_closedZ b
  | ?a / ?b => go_closedZ a; go_closedZ b
  | ?a mod ?b => go_closedZ a; go_closedZ b
  | ?a ^ ?b => go_closedZ a; go_closedZ b
  | - ?a => go_closedZ a
  end.
Ltac go_closed_step :=
  match goal with
  | |- context [?x mod ?m] =>
      go_closedZ x; go_closedZ m;
      let v := eval vm_compute in (x mod m) in change (x mod m) with v
  end.

Ltac go_norm :=
  cbv zeta;
  unfold go_shl, go_shl_s, go_not, wrap, Z.lnot, Z.pred;
  rewrite ?Z.shiftl_mul_pow2, ?Z.shiftr_div_pow2 by lia;
  repeat first [ go_pow_step | go_closed_step | go_mod_small_step | go_mask_step | go_lor_step ].

(* equality of integer expressions *)
Ltac go_arith := go_norm; go_zsolve.

(* a mod M = b mod M for nested modular sums: push the inner [mod]s out, then compare modulo M *)
Ltac go_modeq :=
  cbv zeta; unfold go_not, wrap, Z.lnot, Z.pred;
  repeat first [ rewrite Zplus_mod_idemp_l | rewrite Zplus_mod_idemp_r
               | rewrite Zminus_mod_idemp_l | rewrite Zminus_mod_idemp_r | rewrite Z.mod_mod by lia ];
  first [ reflexivity
        | apply (mod_congr _ _ _ 0); lia | apply (mod_congr _ _ _ 1); lia | apply (mod_congr _ _ _ (-1)); lia
        | apply (mod_congr _ _ _ 2); lia | apply (mod_congr _ _ _ (-2)); lia ].
