open Model
open Glue

(* ---- SHA-256 (FIPS 180-4), the instance of the model's [hash] oracle for algorithm 0xB.
   The other algorithms never reach [hash] in the correspondence cases. ---- *)
let sha256_k = [|
  0x428a2f98; 0x71374491; 0xb5c0fbcf; 0xe9b5dba5; 0x3956c25b; 0x59f111f1; 0x923f82a4; 0xab1c5ed5;
  0xd807aa98; 0x12835b01; 0x243185be; 0x550c7dc3; 0x72be5d74; 0x80deb1fe; 0x9bdc06a7; 0xc19bf174;
  0xe49b69c1; 0xefbe4786; 0x0fc19dc6; 0x240ca1cc; 0x2de92c6f; 0x4a7484aa; 0x5cb0a9dc; 0x76f988da;
  0x983e5152; 0xa831c66d; 0xb00327c8; 0xbf597fc7; 0xc6e00bf3; 0xd5a79147; 0x06ca6351; 0x14292967;
  0x27b70a85; 0x2e1b2138; 0x4d2c6dfc; 0x53380d13; 0x650a7354; 0x766a0abb; 0x81c2c92e; 0x92722c85;
  0xa2bfe8a1; 0xa81a664b; 0xc24b8b70; 0xc76c51a3; 0xd192e819; 0xd6990624; 0xf40e3585; 0x106aa070;
  0x19a4c116; 0x1e376c08; 0x2748774c; 0x34b0bcb5; 0x391c0cb3; 0x4ed8aa4a; 0x5b9cca4f; 0x682e6ff3;
  0x748f82ee; 0x78a5636f; 0x84c87814; 0x8cc70208; 0x90befffa; 0xa4506ceb; 0xbef9a3f7; 0xc67178f2 |]

let sha256 (msg : int array) : int list =
  let m32 = 0xFFFFFFFF in
  let rotr x n = ((x lsr n) lor (x lsl (32 - n))) land m32 in
  let len = Array.length msg in
  let padlen = ((len + 8) / 64 + 1) * 64 in
  let p = Array.make padlen 0 in
  Array.blit msg 0 p 0 len;
  p.(len) <- 0x80;
  let bits = len * 8 in
  for i = 0 to 7 do p.(padlen - 1 - i) <- (bits lsr (8 * i)) land 0xFF done;
  let h = [| 0x6a09e667; 0xbb67ae85; 0x3c6ef372; 0xa54ff53a; 0x510e527f; 0x9b05688c; 0x1f83d9ab; 0x5be0cd19 |] in
  let w = Array.make 64 0 in
  for blk = 0 to padlen / 64 - 1 do
    for t = 0 to 15 do
      let o = blk * 64 + 4 * t in
      w.(t) <- (p.(o) lsl 24) lor (p.(o+1) lsl 16) lor (p.(o+2) lsl 8) lor p.(o+3)
    done;
    for t = 16 to 63 do
      let s0 = rotr w.(t-15) 7 lxor rotr w.(t-15) 18 lxor (w.(t-15) lsr 3) in
      let s1 = rotr w.(t-2) 17 lxor rotr w.(t-2) 19 lxor (w.(t-2) lsr 10) in
      w.(t) <- (w.(t-16) + s0 + w.(t-7) + s1) land m32
    done;
    let a = ref h.(0) and b = ref h.(1) and c = ref h.(2) and d = ref h.(3)
    and e = ref h.(4) and f = ref h.(5) and g = ref h.(6) and hh = ref h.(7) in
    for t = 0 to 63 do
      let s1 = rotr !e 6 lxor rotr !e 11 lxor rotr !e 25 in
      let ch = (!e land !f) lxor ((lnot !e) land m32 land !g) in
      let t1 = (!hh + s1 + ch + sha256_k.(t) + w.(t)) land m32 in
      let s0 = rotr !a 2 lxor rotr !a 13 lxor rotr !a 22 in
      let mj = (!a land !b) lxor (!a land !c) lxor (!b land !c) in
      let t2 = (s0 + mj) land m32 in
      hh := !g; g := !f; f := !e; e := (!d + t1) land m32;
      d := !c; c := !b; b := !a; a := (t1 + t2) land m32
    done;
    h.(0) <- (h.(0) + !a) land m32; h.(1) <- (h.(1) + !b) land m32;
    h.(2) <- (h.(2) + !c) land m32; h.(3) <- (h.(3) + !d) land m32;
    h.(4) <- (h.(4) + !e) land m32; h.(5) <- (h.(5) + !f) land m32;
    h.(6) <- (h.(6) + !g) land m32; h.(7) <- (h.(7) + !hh) land m32
  done;
  List.concat_map (fun x -> [ (x lsr 24) land 0xFF; (x lsr 16) land 0xFF; (x lsr 8) land 0xFF; x land 0xFF ])
    (Array.to_list h)

let hash_oracle (alg : z) (b : z list) : z list =
  if int_of_z alg = 0xB then
    List.map z_of_int (sha256 (Array.of_list (List.map int_of_z b)))
  else failwith "hash oracle: only SHA-256 is instantiated"

(* the [verify] oracle: true exactly on the tuple the generator signed with the real signer *)
let verify_table (a : string list) : pubkey -> z -> z -> z list -> z list -> bool =
  match a with
  | [n; e; scheme; ha; msg; sg] ->
    let n = z_of_hex n and e = z_of_hex e and scheme = z_of_hex scheme and ha = z_of_hex ha
    and msg = bytes_of_hex msg and sg = bytes_of_hex sg in
    (fun pk sc h m s ->
       match pk with
       | PubRSA (n', e') -> n' = n && e' = e && sc = scheme && h = ha && m = msg && s = sg
       | _ -> false)
  | _ -> failwith "bad table"

let key_of = function
  | [alg; ver; size; data] ->
    { k_alg = z_of_hex alg; k_ver = z_of_hex ver; k_size = z_of_hex size; k_data = bytes_of_hex data }
  | _ -> failwith "bad key args"

let sig_of = function
  | [sc; ver; size; ha; data] ->
    { s_scheme = z_of_hex sc; s_ver = z_of_hex ver; s_keysize = z_of_hex size; s_hashalg = z_of_hex ha;
      s_data = bytes_of_hex data }
  | _ -> failwith "bad signature args"

let rec take n l = if n = 0 then [] else match l with x :: r -> x :: take (n - 1) r | [] -> failwith "short args"
let rec drop n l = if n = 0 then l else match l with _ :: r -> drop (n - 1) r | [] -> failwith "short args"

let pub_of = function
  | "rsa" :: a :: b :: _ -> PubRSA (z_of_hex a, z_of_hex b)
  | "ecc" :: a :: b :: _ -> PubECC (z_of_hex a, z_of_hex b)
  | "sm2" :: a :: b :: _ -> PubSM2 (z_of_hex a, z_of_hex b)
  | _ -> failwith "bad public key args"

let show_key (k : key) =
  Printf.sprintf "ok %s %s %s %s" (hex_of_z k.k_alg) (hex_of_z k.k_ver) (hex_of_z k.k_size) (hex_of_bytes k.k_data)

let show_pub = function
  | PubRSA (n, e) -> Printf.sprintf "ok rsa %s %s" (hex_of_z n) (hex_of_z e)
  | PubECC (x, y) -> Printf.sprintf "ok ecc %s %s" (hex_of_z x) (hex_of_z y)
  | PubSM2 (x, y) -> Printf.sprintf "ok sm2 %s %s" (hex_of_z x) (hex_of_z y)

let show_sig (s : sigrec) =
  Printf.sprintf "ok %s %s %s %s %s" (hex_of_z s.s_scheme) (hex_of_z s.s_ver) (hex_of_z s.s_keysize)
    (hex_of_z s.s_hashalg) (hex_of_bytes s.s_data)

let show_sigdata = function
  | SigPSS b -> "ok pss " ^ hex_of_bytes b
  | SigSSA b -> "ok ssa " ^ hex_of_bytes b
  | SigECDSA (r, s) -> Printf.sprintf "ok ecdsa %s %s" (hex_of_z r) (hex_of_z s)
  | SigSM2 (r, s) -> Printf.sprintf "ok sm2 %s %s" (hex_of_z r) (hex_of_z s)

let unit_obs o = obs_outcome (fun () -> "ok") o

(* nseg {flags base size} *)
let segs_of (a : string list) : segment list * string list =
  match a with
  | n :: rest ->
    let n = int_of_z (z_of_hex n) in
    let rec go k l acc =
      if k = 0 then (List.rev acc, l) else
        match l with
        | f :: b :: s :: r -> go (k - 1) r ({ g_flags = z_of_hex f; g_base = z_of_hex b; g_size = z_of_hex s } :: acc)
        | _ -> failwith "bad segment args" in
    go n rest []
  | [] -> failwith "bad segment args"

let psbkey_show (k : psbkey) =
  if not (psb_key_valid k) then "ok invalid-key" else
    let e = match psb_key_get k with PubRSA (_, e) -> hex_of_z e | _ -> "?" in
    String.concat " " [ "ok"; hex_of_z k.pk_version; hex_of_bytes k.pk_id; hex_of_bytes k.pk_certid;
                        hex_of_z k.pk_usage; hex_of_z k.pk_expsize; hex_of_z k.pk_modsize; e;
                        hex_of_bytes k.pk_modulus ]

(* nkeys {rootkeybytes} *)
let keyset_of (a : string list) : psbkey list * string list =
  match a with
  | n :: rest ->
    let n = int_of_z (z_of_hex n) in
    let rec go k l acc =
      if k = 0 then (List.rev acc, l) else
        match l with
        | raw :: r ->
          (match root_key (bytes_of_hex raw) with
           | Ok key -> go (k - 1) r (key :: acc)
           | _ -> failwith "key set entry does not parse")
        | [] -> failwith "bad key set args" in
    go n rest []
  | [] -> failwith "bad key set args"

(* PSB tables carry (n e hash msg sig); the scheme is RSA-PSS *)
let psb_table = function
  | [n; e; ha; msg; sg] -> verify_table [n; e; hex_of_z c16_alg_rsapss; ha; msg; sg]
  | _ -> failwith "bad table"

let eval fn args : string option =
  match fn, args with
  | "set_pub_key", a -> Some (obs_outcome show_key (set_pub_key (pub_of a)))
  | "bg_set_pub_key", a -> Some (obs_outcome show_key (bg_set_pub_key (pub_of a)))
  | "pub_key", a -> Some (obs_outcome show_pub (pub_key (key_of a)))
  | "bg_pub_key", a -> Some (obs_outcome show_pub (bg_pub_key (key_of a)))
  | "set_sig", kind :: a ->
    let zero = { s_scheme = Z0; s_ver = Z0; s_keysize = Z0; s_hashalg = Z0; s_data = [] } in
    let (sd, rest) = match kind, a with
      | "pss", d :: r -> (SigPSS (bytes_of_hex d), r)
      | "ssa", d :: r -> (SigSSA (bytes_of_hex d), r)
      | "ecdsa", x :: y :: r -> (SigECDSA (z_of_hex x, z_of_hex y), r)
      | "sm2", x :: y :: r -> (SigSM2 (z_of_hex x, z_of_hex y), r)
      | _ -> failwith "bad set_sig args" in
    Some (obs_outcome show_sig (set_signature_by_data zero sd (z_of_hex (List.hd rest))))
  | "set_signature", container :: _ :: kind :: a :: b :: sa :: ha :: msg :: _ :: rest ->
    (* the signer oracles return placeholders of the right shape: the observation leaves the
       signature bytes out.  [rest] = the signature fields the structure holds before the call *)
    let sk = match kind with
      | "rsa" -> PrivRSA (z_of_hex a, z_of_hex b, Z0)
      | "ecc" -> PrivECC (z_of_hex a, z_of_hex b, Z0)
      | _ -> PrivSM2 (z_of_hex a, z_of_hex b, Z0) in
    let sign_rsa k _ _ _ = match k with
      | PrivRSA (n, _, _) -> List.init (int_of_z (bytelen n)) (fun _ -> Z0)
      | _ -> [] in
    let one = z_of_int 1 in
    let sign_ec _ _ _ _ = (one, one) in
    let prior = sig_of (take 5 rest) in
    let ks0 = { ks_ver = z_of_int 0x55;
                ks_key = { k_alg = z_of_int 0x55; k_ver = z_of_int 0x55; k_size = z_of_int 0x5555;
                           k_data = [z_of_int 1; z_of_int 2; z_of_int 3] };
                ks_sig = prior } in
    let show_s (g : sigrec) =
      String.concat " " [ hex_of_z g.s_scheme; hex_of_z g.s_ver; hex_of_z g.s_keysize;
                          hex_of_z g.s_hashalg; hex_of_z (z_of_int (List.length g.s_data)) ] in
    let show_ks (ks : keysig) =
      String.concat " " [ hex_of_z ks.ks_ver; hex_of_z ks.ks_key.k_alg; hex_of_z ks.ks_key.k_ver;
                          hex_of_z ks.ks_key.k_size; hex_of_bytes ks.ks_key.k_data; show_s ks.ks_sig ] in
    let sa = z_of_hex sa and ha = z_of_hex ha and msg = bytes_of_hex msg in
    (match container with
     | "sig" -> Some (obs_outcome (fun g -> "ok " ^ show_s g) (sig_set_signature sign_rsa sign_ec prior sa ha sk msg))
     | "ks" | "bpm" -> Some (obs_outcome (fun ks -> "ok " ^ show_ks ks) (ks_set_signature sign_rsa sign_ec ks0 sa ha sk msg))
     | "km" -> Some (obs_outcome (fun (ks, pkha) -> "ok " ^ show_ks ks ^ " " ^ hex_of_z pkha)
                       (km_set_signature sign_rsa sign_ec ks0 sa ha sk msg))
     | _ -> failwith "bad container")
  | "sig_data", [sc; d] ->
    let m = { s_scheme = z_of_hex sc; s_ver = Z0; s_keysize = Z0; s_hashalg = Z0; s_data = bytes_of_hex d } in
    Some (obs_outcome show_sigdata (signature_data m))
  | ("ks_verify" | "bg_ks_verify"), a ->
    let k = key_of (take 4 a) and s = sig_of (take 5 (drop 4 a)) in
    let rest = drop 9 a in
    (match rest with
     | ver :: msg :: table ->
       let ks = { ks_ver = z_of_hex ver; ks_key = k; ks_sig = s } in
       let v = verify_table table in
       Some (unit_obs ((if fn = "ks_verify" then ks_verify else bg_ks_verify) v ks (bytes_of_hex msg)))
     | _ -> failwith "bad ks_verify args")
  | "bpmkey", n :: a ->
    let n = int_of_z (z_of_hex n) in
    let rec go k l acc =
      if k = 0 then (List.rev acc, l) else
        match l with
        | u :: alg :: buf :: r -> go (k - 1) r ({ h_usage = z_of_hex u; h_alg = z_of_hex alg; h_buf = bytes_of_hex buf } :: acc)
        | _ -> failwith "bad bpmkey args" in
    let (hs, rest) = go n a [] in
    (match rest with
     | [kalg; kd] ->
       let k = { k_alg = z_of_hex kalg; k_ver = Z0; k_size = Z0; k_data = bytes_of_hex kd } in
       Some (unit_obs (validate_bpm_key hash_oracle hs k))
     | _ -> failwith "bad bpmkey args")
  | "bg_bpmkey", [alg; buf; kalg; kd] ->
    let k = { k_alg = z_of_hex kalg; k_ver = Z0; k_size = Z0; k_data = bytes_of_hex kd } in
    Some (unit_obs (bg_validate_bpm_key hash_oracle (z_of_hex alg) (bytes_of_hex buf) k))
  | ("ibb_ranges" | "bg_ibb_ranges"), fwsize :: a ->
    let (segs, _) = segs_of a in
    let rs = ibb_ranges segs (z_of_hex fwsize) in
    Some (String.concat " " ("ok" :: List.concat_map (fun (o, l) -> [ hex_of_z o; hex_of_z l ]) rs))
  | "ibb_validate", n :: a ->
    let n = int_of_z (z_of_hex n) in
    let rec go k l acc =
      if k = 0 then (List.rev acc, l) else
        match l with
        | nd :: r ->
          let nd = int_of_z (z_of_hex nd) in
          let rec digs j l acc =
            if j = 0 then (List.rev acc, l) else
              match l with
              | alg :: buf :: r -> digs (j - 1) r ((z_of_hex alg, bytes_of_hex buf) :: acc)
              | _ -> failwith "bad digest args" in
          let (ds, r) = digs nd r [] in
          let (segs, r) = segs_of r in
          go (k - 1) r ({ se_digests = ds; se_segments = segs } :: acc)
        | [] -> failwith "bad SE args" in
    let (ses, rest) = go n a [] in
    Some (unit_obs (validate_ibb hash_oracle ses (bytes_of_hex (List.hd rest))))
  | "bg_ibb_validate", n :: a ->
    let n = int_of_z (z_of_hex n) in
    let rec go k l acc =
      if k = 0 then (List.rev acc, l) else
        match l with
        | alg :: buf :: r ->
          let (segs, r) = segs_of r in
          go (k - 1) r (((z_of_hex alg, bytes_of_hex buf), segs) :: acc)
        | _ -> failwith "bad SE args" in
    let (ses, rest) = go n a [] in
    Some (unit_obs (bg_validate_ibb hash_oracle ses (bytes_of_hex (List.hd rest))))
  | "psp_validate", a ->
    let (ks, rest) = keyset_of a in
    (match rest with
     | raw :: table ->
       Some (obs_outcome (fun (k : psbkey) -> "ok " ^ hex_of_bytes k.pk_id)
               (psp_validate (psb_table table) ks (bytes_of_hex raw)))
     | [] -> failwith "bad psp_validate args")
  | "token_key", a ->
    let (ks, rest) = keyset_of a in
    (match rest with
     | raw :: table -> Some (obs_outcome psbkey_show (token_key (psb_table table) ks (bytes_of_hex raw)))
     | [] -> failwith "bad token_key args")
  | "root_key", [raw] -> Some (obs_outcome psbkey_show (root_key (bytes_of_hex raw)))
  | "rtm_validate", level :: _image :: keyraw :: rtm :: l1 :: ln :: sg :: table ->
    (* the pieces of the image as the generator laid them out; the OEM key in root key form *)
    (match root_key (bytes_of_hex keyraw) with
     | Ok k ->
       Some (unit_obs (validate_rtm (psb_table table) (z_of_hex level) (bytes_of_hex rtm) (bytes_of_hex l1)
                         (bytes_of_hex ln) (bytes_of_hex sg) k))
     | _ -> failwith "rtm_validate: the OEM key does not parse")
  | _ -> None

let () = run_file (fun fn args -> eval fn args) Sys.argv.(1)
