(* grammarrun.ml — parses the grammar terms printed by harness/uefigen/spec.go into values of the
   extracted datatype of coq/Model/FfsGrammar.v, re-serialises them with the proved reference
   serialiser and evaluates the decidable well-formedness check. *)
open Model
open Glue
open Ffsrun

exception Bad of string

let grammar_obs (img_hex : string) (spec : string) : string =
  let toks = ref (List.filter (fun s -> s <> "") (String.split_on_char ' ' spec)) in
  let next () = match !toks with t :: r -> toks := r; t | [] -> raise (Bad "eof") in
  let num () = z_of_hex (next ()) in
  let byt () = bytes_of_hex (next ()) in
  let cnt () = int_of_z (num ()) in
  let rec rep n f = if n <= 0 then [] else let x = f () in x :: rep (n - 1) f in
  let rec sec () : sspec =
    match next () with
    | "SL" -> let t = num () in let b = byt () in SLeaf (t, b)
    | "SX" -> let t = num () in let b = byt () in SLeafL (t, b)
    | "SG" -> let g = byt () in let a = num () in let e = byt () in let p = byt () in SGuid (g, a, e, p)
    | "SU" -> SUi (byt ())
    | "SV" -> let b = num () in let p = byt () in SVer (b, p)
    | "SD" -> let t = num () in let n = cnt () in
      let ops = rep n (fun () -> let op = num () in
                        let g = next () in (op, if g = "-" then None else Some (bytes_of_hex g))) in
      SDepex (t, ops)
    | "SF" -> SFv (vol ())
    | t -> raise (Bad ("section tag " ^ t))
  and file () : fspec =
    match next () with
    | "FO" -> let g = byt () in let ckh = num () in let ckf = num () in let t = num () in
      let a = num () in let st = num () in let b = byt () in FOpaque (g, ckh, ckf, t, a, st, b)
    | "FL" -> let g = byt () in let ckh = num () in let ckf = num () in let t = num () in
      let a = num () in let st = num () in let b = byt () in FOpaqueL (g, ckh, ckf, t, a, st, b)
    | "FS" -> let g = byt () in let t = num () in let a = num () in let st = num () in
      let n = cnt () in let secs = rep n sec in FSecs (g, t, a, st, secs)
    | t -> raise (Bad ("file tag " ^ t))
  and vol () : vspec =
    (match next () with "V" -> () | t -> raise (Bad ("volume tag " ^ t)));
    let zero = byt () in let g = byt () in let attrs = num () in let reserved = num () in
    let rev = num () in let count = num () in let bsize = num () in let length = int_of_z (num ()) in
    (match next () with "M" -> () | t -> raise (Bad ("block map tag " ^ t)));
    let nm = cnt () in
    let more = rep nm (fun () -> let c = num () in let s = num () in (c, s)) in
    let xh = match next () with
      | "N" -> None
      | "X" -> let pre = byt () in let n = byt () in let e = byt () in let gp = byt () in
        Some (((pre, n), e), gp)
      | t -> raise (Bad ("ext tag " ^ t)) in
    let n = cnt () in let files = rep n file in
    let used = List.length (flay (List.map emit_f files)) in
    VSpec (zero, g, attrs, reserved, rev, count, bsize, more, xh, files,
           z_of_int (length - 72 - 8 * nm - List.length (xh_bytes xh) - used)) in
  try
    (match next () with "R" -> () | t -> raise (Bad ("region tag " ^ t)));
    let n = cnt () in
    let pairs = rep n (fun () -> let p = byt () in let v = vol () in (p, v)) in
    let trail = byt () in
    let emitted = emit_region pairs trail in
    if hex_of_bytes emitted <> (if img_hex = "" then "-" else img_hex) then "not-member serialisation-differs"
    else if not (wfb_region u2s s2u pairs trail) then "not-member side-condition-fails"
    else if !ucs_inexact then "not-member ucs2-outside-exact-domain"
    else "member"
  with Bad m -> "not-member unparsable " ^ m

let eval_c01 fn args : string option =
  match fn, args with
  | "grammar", [img; spec] -> ucs_inexact := false; Some (grammar_obs img spec)
  | "member_bytes", [img] ->
    (* the byte-level decision procedure of theorem C01_save_identity_bytes *)
    ucs_inexact := false; table_miss := false;
    let r = in_grammar dec u2s s2u nvar depth (bytes_of_hex img) in
    if !ucs_inexact then None
    else Some (if r then "member" else "not-member")
  | _ -> eval_ffs fn args
