(* ffsrun.ml — shared by the UEFI-core properties: evaluates the extracted Ffs model on the
   case-file operations and prints tree observables exactly as harness/uefiops does. *)
open Model
open Glue

let ints_of_bytes (l : z list) : int list = List.map int_of_z l
let bytes_of_ints (l : int list) : z list = List.map z_of_int l

let fnv (l : z list) : int =
  List.fold_left (fun h x -> ((h lxor (int_of_z x)) * 16777619) land 0xFFFFFFFF) 2166136261 l

(* UTF-16LE -> UTF-8 (BMP, no surrogates); mirrors unicode.UCS2ToUTF8 on that domain:
   drops one trailing NUL; on odd length returns the input unchanged *)
let ucs_inexact = ref false   (* set when a string lies outside the domain this oracle mirrors exactly *)
let u2s (b : z list) : z list =
  let l = ints_of_bytes b in
  let n = List.length l in
  if n mod 2 <> 0 then (ucs_inexact := true; b) else begin
    let rec units = function lo :: hi :: r -> (lo lor (hi lsl 8)) :: units r | _ -> [] in
    if List.exists (fun u -> (u >= 0xD800 && u <= 0xDFFF) || u = 0xFEFF || u = 0xFFFE || u = 0xFFFD) (units l)
    then ucs_inexact := true;
    let enc u =
      if u < 0x80 then [u]
      else if u < 0x800 then [0xC0 lor (u lsr 6); 0x80 lor (u land 0x3F)]
      else [0xE0 lor (u lsr 12); 0x80 lor ((u lsr 6) land 0x3F); 0x80 lor (u land 0x3F)] in
    let out = List.concat_map enc (units l) in
    let out = match List.rev out with 0 :: r -> List.rev r | _ -> out in
    bytes_of_ints out
  end

(* UTF-8 -> UTF-16LE with a NUL terminator appended; mirrors unicode.UTF8ToUCS2 *)
let s2u (b : z list) : z list =
  let l = ints_of_bytes b @ [0] in
  let rec dec = function
    | [] -> []
    | c :: r when c < 0x80 -> c :: dec r
    | c :: c1 :: r when c land 0xE0 = 0xC0 -> (((c land 0x1F) lsl 6) lor (c1 land 0x3F)) :: dec r
    | c :: c1 :: c2 :: r when c land 0xF0 = 0xE0 ->
      (((c land 0x0F) lsl 12) lor ((c1 land 0x3F) lsl 6) lor (c2 land 0x3F)) :: dec r
    | _ :: r -> ucs_inexact := true; 0xFFFD :: dec r in
  bytes_of_ints (List.concat_map (fun u -> [u land 0xFF; u lsr 8]) (dec l))

(* codec oracle: table lines "T codec dec <kind> <input> <output|err>" / "T codec enc ..." *)
let table_miss = ref false
let dec kind payload =
  match Hashtbl.find_opt Glue.tables ("codec dec " ^ hex_of_z kind ^ " " ^ hex_of_bytes payload) with
  | Some "err" -> None
  | Some o -> Some (bytes_of_hex o)
  | None -> table_miss := true; None
let enc kind data =
  match Hashtbl.find_opt Glue.tables ("codec enc " ^ hex_of_z kind ^ " " ^ hex_of_bytes data) with
  | Some "err" -> None
  | Some o -> Some (bytes_of_hex o)
  | None -> table_miss := true; None
let nvar (_ : z list) : z list option = None

let depth = nat_of_int 64

let hx n = Printf.sprintf "%x" n
let zx z = hex_of_z z

let rec observe (b : Buffer.t) (n : node) : unit =
  match n with
  | NPad (off, buf) ->
    Buffer.add_string b (Printf.sprintf "P:%s:%x:%x;" (zx off) (List.length buf) (fnv buf))
  | NVol (h, buf, kids) ->
    Buffer.add_string b (Printf.sprintf "V:%s:%s:%s:%x:%x:%x:%x;" (zx h.v_fvoffset) (zx h.v_length)
                           (zx h.v_dataoff) (List.length kids) (List.length h.v_blocks) (List.length buf) (fnv buf));
    List.iter (observe b) kids
  | NFile (h, buf, kids) ->
    Buffer.add_string b (Printf.sprintf "F:%s:%s:%s:%s:%s:%x:%x:%x;" (zx h.f_type) (zx h.f_attr) (zx h.f_ext)
                           (zx h.f_state) (zx h.f_dataoff) (List.length kids) (List.length buf) (fnv buf));
    List.iter (observe b) kids
  | NSec (h, buf, kids) ->
    Buffer.add_string b (Printf.sprintf "S:%s:%s:%x:%x:%x;" (zx h.s_type) (zx h.s_ext) (List.length kids)
                           (List.length buf) (fnv buf));
    List.iter (observe b) kids

let obs_parse img =
  match parse_region dec u2s nvar depth img with
  | Ok (elems, _) ->
    let b = Buffer.create 256 in
    Buffer.add_string b (Printf.sprintf "R:%x:%x;" (List.length img) (List.length elems));
    List.iter (observe b) elems;
    "ok " ^ Buffer.contents b
  | Err _ -> "err"
  | Panic _ -> "panic"
  | Fuel -> "hang"

let obs_save img =
  match parse_region dec u2s nvar depth img with
  | Err _ -> "err"
  | Panic _ -> "panic"
  | Fuel -> "hang"
  | Ok (elems, pol) ->
    (match asm_bios enc s2u elems (z_of_int (List.length img)) (pol, false) with
     | Ok ((_, b), _) -> "ok " ^ hex_of_bytes b
     | Err e -> if Sys.getenv_opt "FFS_DEBUG" <> None then "err-asm " ^ hex_of_z e else "err-asm"
     | Panic p -> if Sys.getenv_opt "FFS_DEBUG" <> None then "panic " ^ hex_of_z p else "panic"
     | Fuel -> "hang")

(* uefi.Parse sends images that carry the Intel flash signature to NewFlashImage; the flash
   descriptor level is modelled separately (property C12) *)
let has_flash_sig (img : string) : bool =
  let at k = String.length img >= 2 * (k + 4) && String.sub img (2 * k) 8 = "5aa5f00f" in
  String.length img >= 40 && (at 16 || at 0)

let eval_ffs fn args : string option =
  table_miss := false; ucs_inexact := false;
  match args with
  | img :: _ when has_flash_sig img -> None
  | _ ->
  let r = match fn, args with
    | "parse", [img] -> Some (obs_parse (bytes_of_hex img))
    | "save", [img] -> Some (obs_save (bytes_of_hex img))
    | "saveclass", [img] ->
      let s = obs_save (bytes_of_hex img) in
      Some (if String.length s >= 2 && String.sub s 0 2 = "ok" then "ok" else s)
    | _ -> None in
  match r with
  | Some s when !table_miss -> Some ("codec-table-miss " ^ s)
  | Some _ when !ucs_inexact -> None
  | x -> x
