(* glue.ml — copied next to each extracted model.ml; conversions between the
   text case files (hex everywhere) and the extracted Coq datatypes. *)
open Model

let rec pos_of_int n =
  if n = 1 then XH
  else if n land 1 = 0 then XO (pos_of_int (n lsr 1))
  else XI (pos_of_int (n lsr 1))

let z_of_int n =
  if n = 0 then Z0 else if n > 0 then Zpos (pos_of_int n) else Zneg (pos_of_int (-n))

let rec int_of_pos = function
  | XH -> 1
  | XO p -> 2 * int_of_pos p
  | XI p -> 2 * int_of_pos p + 1

let int_of_z = function Z0 -> 0 | Zpos p -> int_of_pos p | Zneg p -> - (int_of_pos p)

let rec nat_of_int n = if n <= 0 then O else S (nat_of_int (n - 1))
let rec int_of_nat = function O -> 0 | S n -> 1 + int_of_nat n

let hexval c =
  match c with
  | '0' .. '9' -> Char.code c - 48
  | 'a' .. 'f' -> Char.code c - 87
  | 'A' .. 'F' -> Char.code c - 55
  | _ -> failwith "bad hex digit"

(* arbitrary-size hex number (optionally signed) -> z, bit by bit *)
let z_of_hex (s : string) : z =
  let neg = String.length s > 0 && s.[0] = '-' in
  let s = if neg then String.sub s 1 (String.length s - 1) else s in
  (* bits, least significant first *)
  let bits = ref [] in
  String.iter (fun c ->
      let v = hexval c in
      bits := (v land 1 = 1) :: (v land 2 = 2) :: (v land 4 = 4) :: (v land 8 = 8) :: !bits)
    s;
  (* !bits is lsb-first of the whole number because we consed msd first ... careful: we
     processed digits left to right, consing each nibble's bits lsb-first in front, so the
     final list has the LAST digit's bits first: lsb-first overall. *)
  let rec strip_rev l = match l with false :: r -> strip_rev r | _ -> l in
  let msb_first = strip_rev (List.rev !bits) in
  match msb_first with
  | [] -> Z0
  | _ :: rest ->
    let p = List.fold_left (fun acc b -> if b then XI acc else XO acc) XH rest in
    if neg then Zneg p else Zpos p

let hex_of_z (v : z) : string =
  let rec bits p = match p with XH -> [true] | XO q -> false :: bits q | XI q -> true :: bits q in
  let to_hex p =
    let bl = bits p in (* lsb first *)
    let rec nibbles l = match l with
      | [] -> []
      | _ ->
        let take k l = let rec go k l acc = if k = 0 then (List.rev acc, l) else
                           match l with [] -> go (k-1) [] (false :: acc) | x :: r -> go (k-1) r (x :: acc) in go k l [] in
        let (n, rest) = take 4 l in
        let v = List.fold_right (fun b acc -> acc * 2 + (if b then 1 else 0)) n 0 in
        v :: nibbles rest in
    let ns = List.rev (nibbles bl) in
    let rec strip l = match l with 0 :: (_ :: _ as r) -> strip r | _ -> l in
    String.concat "" (List.map (fun v -> String.make 1 "0123456789abcdef".[v]) (strip ns)) in
  match v with
  | Z0 -> "0"
  | Zpos p -> to_hex p
  | Zneg p -> "-" ^ to_hex p

let bytes_of_hex (s : string) : z list =
  if s = "-" || s = "" then []
  else begin
    let n = String.length s / 2 in
    let rec go i acc =
      if i < 0 then acc
      else go (i - 1) (z_of_int (hexval s.[2*i] * 16 + hexval s.[2*i+1]) :: acc) in
    go (n - 1) []
  end

let hex_of_bytes (l : z list) : string =
  match l with
  | [] -> "-"
  | _ ->
    let b = Buffer.create 64 in
    List.iter (fun z ->
        let v = int_of_z z in
        if v < 0 || v > 255 then Buffer.add_string b "??"
        else Buffer.add_string b (Printf.sprintf "%02x" v)) l;
    Buffer.contents b

let split_tab (s : string) : string list = String.split_on_char '\t' s

(* a case line: kind fn args... "=>" obs *)
type case = { kind : string; fn : string; args : string list; obs : string }

let parse_case (line : string) : case option =
  match split_tab line with
  | kind :: fn :: rest ->
    let rec cut acc = function
      | "=>" :: o -> (List.rev acc, String.concat "\t" o)
      | x :: r -> cut (x :: acc) r
      | [] -> (List.rev acc, "") in
    let (args, obs) = cut [] rest in
    Some { kind; fn; args; obs }
  | _ -> None

(* impl observations starting with "panic " carry a message: compare class only *)
let norm_obs (s : string) : string =
  if String.length s >= 5 && String.sub s 0 5 = "panic" then "panic" else s

(* An executor maps an error of the implementation to a small class by fragments of its message
   (ErrClass); a message it does not know is "err ?". The properties speak about success versus
   failure, not about message texts: when the implementation's observation holds such an unknown
   class, the comparison is repeated with every error class (on both sides) reduced to "err".
   Everything else in the observation is still compared. The number of comparisons that needed this
   is reported in the summary (errclass_unknown). *)
let strip_errclass (s : string) : string =
  let b = Buffer.create (String.length s) in
  let n = String.length s in
  let i = ref 0 in
  while !i < n do
    if !i + 4 <= n && String.sub s !i 4 = "err " && (!i = 0 || not (match s.[!i - 1] with 'a'..'z' | 'A'..'Z' | '0'..'9' | '_' -> true | _ -> false)) then begin
      Buffer.add_string b "err";
      i := !i + 4;
      while !i < n && (match s.[!i] with 'a'..'z' | 'A'..'Z' | '0'..'9' | '?' -> true | _ -> false) do incr i done
    end else begin Buffer.add_char b s.[!i]; incr i end
  done;
  Buffer.contents b

let contains_sub (s : string) (sub : string) : bool =
  let n = String.length s and m = String.length sub in
  let rec go i = i + m <= n && (String.sub s i m = sub || go (i + 1)) in go 0

let errclass_unknown = ref 0
let same_obs (model : string) (impl : string) : bool =
  norm_obs model = norm_obs impl
  || (contains_sub impl "err ?" && strip_errclass model = strip_errclass impl && (incr errclass_unknown; true))

(* oracle tables filled from "T" lines of the case file (they precede the cases that need them) *)
let tables : (string, string) Hashtbl.t = Hashtbl.create 256

exception Model_timeout
let case_timeout = ref 20
let () = Sys.set_signal Sys.sigalrm (Sys.Signal_handle (fun _ -> raise Model_timeout))

(* Driver: [eval fn args] returns the model's observation, or None when the
   function is not modelled (reported, never silently skipped).
   Output: one line per C case that differs, then a summary. *)
let run_file (eval : string -> string list -> string option) (path : string) : unit =
  let ic = open_in path in
  let total = ref 0 and cmp = ref 0 and mism = ref 0 and unmod = ref 0
  and pok = ref 0 and pfail = ref 0 and pskip = ref 0 in
  let lineno = ref 0 in
  (try
     while true do
       let line = input_line ic in
       incr lineno;
       match parse_case line with
       | None -> ()
       | Some c when c.kind = "T" ->
         (* "T <table> <key fields...> <value>": oracle table entry, key = table + key fields *)
         (match List.rev c.args with
          | v :: krev -> Hashtbl.replace tables (String.concat " " (c.fn :: List.rev krev)) v
          | [] -> ())
       | Some c ->
         incr total;
         if c.kind = "C" then begin
           let res =
             (try
                ignore (Unix.alarm !case_timeout);
                let r = eval c.fn c.args in
                ignore (Unix.alarm 0); r
              with Stack_overflow -> ignore (Unix.alarm 0); Some "model-stack-overflow"
                 | Model_timeout -> Some "model-timeout"
                 | Failure m -> ignore (Unix.alarm 0); Some ("model-failure " ^ m)) in
           match res with
           | Some "model-timeout" | Some "model-stack-overflow" ->
             (* the list-based model cannot evaluate this case in reasonable time/space: reported,
                counted as not compared *)
             incr unmod; Printf.printf "UNMODELLED\t%d\t%s(model-resource-limit)\n" !lineno c.fn
           | None -> incr unmod; Printf.printf "UNMODELLED\t%d\t%s\n" !lineno c.fn
           | Some m ->
             incr cmp;
             if not (same_obs m c.obs) then begin
               incr mism;
               let clip s = if String.length s > 300 then String.sub s 0 300 ^ "..." else s in
               Printf.printf "MISMATCH\t%d\t%s\tmodel=%s\timpl=%s\n" !lineno c.fn (clip m) (clip c.obs)
             end
         end else if c.kind = "P" then begin
           if c.obs = "ok" then incr pok
           else if c.obs = "skip" then incr pskip
           else begin
             incr pfail;
             let clip s = if String.length s > 300 then String.sub s 0 300 ^ "..." else s in
             Printf.printf "PROPFAIL\t%d\t%s\t%s\n" !lineno c.fn (clip c.obs)
           end
         end
     done
   with End_of_file -> ());
  close_in ic;
  Printf.printf "SUMMARY\ttotal=%d\tcompared=%d\tmismatch=%d\tunmodelled=%d\tprop_ok=%d\tprop_fail=%d\tprop_skip=%d\terrclass_unknown=%d\n"
    !total !cmp !mism !unmod !pok !pfail !pskip !errclass_unknown

(* canonical observation of an outcome *)
let obs_outcome (show : 'a -> string) (o : 'a outcome) : string =
  match o with
  | Ok a -> show a
  | Err e -> "err " ^ hex_of_z e
  | Panic _ -> "panic"
  | Fuel -> "hang"

