(* flashrun.ml: uefi.Parse + Save of Intel flash images whose BIOS region holds FFS volumes:
   [save_flash] (Model/FlashImage.v) over [save_region] (Model/Ffs.v) with ffsrun's oracles. *)
open Model
open Glue

(* image argument: chunks separated by ','; a chunk is plain hex or "BB*COUNT" (hex byte
   repeated COUNT (hex) times) *)
let decode_img (s : string) : z list =
  if s = "-" || s = "" then [] else begin
    let buf = Buffer.create 65536 in
    List.iter (fun ch ->
        match String.index_opt ch '*' with
        | Some k ->
          let b = hexval ch.[0] * 16 + hexval ch.[1] in
          let n = int_of_string ("0x" ^ String.sub ch (k + 1) (String.length ch - k - 1)) in
          Buffer.add_string buf (String.make n (Char.chr b))
        | None ->
          let n = String.length ch / 2 in
          for i = 0 to n - 1 do
            Buffer.add_char buf (Char.chr (hexval ch.[2*i] * 16 + hexval ch.[2*i+1]))
          done)
      (String.split_on_char ',' s);
    let tbl = Array.init 256 z_of_int in
    let str = Buffer.contents buf in
    let rec go i acc = if i < 0 then acc else go (i - 1) (tbl.(Char.code str.[i]) :: acc) in
    go (String.length str - 1) []
  end

let diff_obs (img : z list) (out : z list) : string =
  let a = Array.of_list (List.map int_of_z img) and b = Array.of_list (List.map int_of_z out) in
  if Array.length a <> Array.length b then "full " ^ hex_of_bytes out
  else begin
    let d = ref [] in
    for i = Array.length a - 1 downto 0 do
      if a.(i) <> b.(i) then d := Printf.sprintf "%x:%02x" i b.(i) :: !d
    done;
    match !d with [] -> "-" | l -> String.concat "," l
  end

let bios_save (b : z list) : z list outcome =
  save_region Ffsrun.dec Ffsrun.enc Ffsrun.u2s Ffsrun.s2u Ffsrun.nvar Ffsrun.depth b

let eval fn args : string option =
  Ffsrun.table_miss := false; Ffsrun.ucs_inexact := false;
  let r = match fn, args with
    | "fsave", [img] ->
      let img = decode_img img in
      Some (match save_flash bios_save img with
          | Ok out -> Printf.sprintf "ok %x %s" (List.length out) (diff_obs img out)
          | Err _ -> "err"
          | Panic _ -> "panic"
          | Fuel -> "hang")
    | "fbios", [img] ->
      (* the bytes handed to NewBIOSRegion *)
      Some (match flash_bios_bytes (decode_img img) with
          | Some b -> Printf.sprintf "ok %x %x" (List.length b) (Ffsrun.fnv b)
          | None -> "none")
    | _ -> None in
  match r with
  | Some s when !Ffsrun.table_miss -> Some ("codec-table-miss " ^ s)
  | Some _ when !Ffsrun.ucs_inexact -> None
  | x -> x

