open Model
open Glue

(* image argument: chunks separated by ','; a chunk is plain hex or "BB*COUNT" (hex byte
   repeated COUNT (hex) times); "-" is the empty image *)
let decode_img (s : string) : z list =
  if s = "-" || s = "" then [] else begin
    let buf = Buffer.create 65536 in
    List.iter (fun ch ->
        match String.index_opt ch '*' with
        | Some k ->
          let b = hexval ch.[0] * 16 + hexval ch.[1] in
          let n = int_of_string ("0x" ^ String.sub ch (k + 1) (String.length ch - k - 1)) in
          Buffer.add_string buf (String.make n (Char.chr b))
        | None ->
          let n = String.length ch / 2 in
          for i = 0 to n - 1 do
            Buffer.add_char buf (Char.chr (hexval ch.[2*i] * 16 + hexval ch.[2*i+1]))
          done)
      (String.split_on_char ',' s);
    (* one shared z per byte value *)
    let tbl = Array.init 256 z_of_int in
    let str = Buffer.contents buf in
    let rec go i acc = if i < 0 then acc else go (i - 1) (tbl.(Char.code str.[i]) :: acc) in
    go (String.length str - 1) []
  end

let hz = hex_of_z
let hlen l = hex_of_z (z_of_int (List.length l))

let show_elems (els : belem list) : string =
  match els with
  | [] -> "-"
  | _ ->
    String.concat "," (List.map (function
        | BPad (b, o) -> "P" ^ hz o ^ "." ^ hlen b
        | BVol (b, o, p) -> "V" ^ hz o ^ "." ^ hlen b ^ "." ^ hz p) els)

let show_fr (fr : fregion) = hz fr.fr_base ^ "." ^ hz fr.fr_limit

let show_region sl (r : region) : string =
  let fr = show_fr (region_fr sl r) in
  match r with
  | RBios (els, len) -> "B:" ^ fr ^ ":" ^ hz len ^ ":" ^ show_elems els
  | RME (b, fpt, fso) ->
    "M:" ^ fr ^ ":" ^ hlen b ^ ":" ^ hz fso ^ ":" ^
    (match fpt with
     | None -> "none"
     | Some [] -> "-"
     | Some es -> String.concat "," (List.map (fun (o, l) -> hz o ^ "." ^ hz l) es))
  | RRaw (i, b) -> "R" ^ hz i ^ ":" ^ fr ^ ":" ^ hlen b
  | RGap (_, b) -> "G:" ^ fr ^ ":" ^ hlen b

let show_tree (t : tree) (pol : z) : string =
  let nr = List.nth t.t_dmap 3 in
  Printf.sprintf "flash dms=%s rs=%s ms=%s nr=%s erase=%s slots=%s regions=%s pol=%s"
    (hz t.t_dms) (hz t.t_rs) (hz t.t_ms) (hz nr) (hz t.t_erase)
    (String.concat "," (List.map show_fr t.t_slots))
    (match t.t_regions with [] -> "-" | rs -> String.concat ";" (List.map (show_region t.t_slots) rs))
    (hz pol)

let obs_err = function
  | Err e -> "err " ^ hz e
  | Panic _ -> "panic"
  | Fuel -> "hang"
  | Ok _ -> "ok"

let diff_obs (img : z list) (out : z list) : string =
  let a = Array.of_list (List.map int_of_z img) and b = Array.of_list (List.map int_of_z out) in
  if Array.length a <> Array.length b then "full " ^ hex_of_bytes out
  else begin
    let d = ref [] in
    for i = Array.length a - 1 downto 0 do
      if a.(i) <> b.(i) then d := Printf.sprintf "%x:%02x" i b.(i) :: !d
    done;
    match !d with [] -> "-" | l -> String.concat "," l
  end

let last_bios_elems (t : tree) : string =
  List.fold_left (fun acc r -> match r with RBios (els, _) -> show_elems els | _ -> acc) "none" t.t_regions

let z1 = z_of_int 1 and z0 = z_of_int 0

let eval fn args : string option =
  match fn, args with
  | "parse", [img] ->
    (match parse (decode_img img) with
     | Ok (RootFlash t, pol) -> Some (show_tree t pol)
     | Ok (RootBios (els, _), pol) -> Some ("bios pol=" ^ hz pol ^ " els=" ^ show_elems els)
     | Err e when e = e_UNMODELLED -> None
     | o -> Some ("p" ^ obs_err o))
  | "tighten", [n; img] ->
    let n = int_of_z (z_of_hex n) in
    let img = decode_img img in
    (match parse img with
     | Ok (RootBios _, _) -> Some (if n >= 1 then "notflash tm=err " ^ hz e_NOIFD else "notflash")
     | Ok (RootFlash t, pol) ->
       let rec go k t acc =
         if k = 0 then (t, List.rev acc) else
           match tm pol t with
           | Ok t' -> go (k - 1) t' ("ok" :: acc)
           | o -> (t, List.rev (obs_err o :: acc)) in
       let (t', res) = go n t [] in
       let sv = match save pol t' with
         | Ok out -> "ok " ^ hlen out ^ " " ^ diff_obs img out
         | o -> obs_err o in
       Some (Printf.sprintf "tm=%s slots=%s.%s els=%s save=%s"
               (match res with [] -> "-" | l -> String.concat "," l)
               (show_fr (slot t'.t_slots z1)) (show_fr (slot t'.t_slots z0))
               (last_bios_elems t') sv)
     | Err e when e = e_UNMODELLED -> None
     | o -> Some ("p" ^ obs_err o))
  | _ -> None

let () = run_file (fun fn args -> eval fn args) Sys.argv.(1)
