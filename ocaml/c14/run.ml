open Model
open Glue

(* header = 6 tokens: addr size(3 bytes hex) rsvd ver tc cksum *)
let parse_hdr (a : string list) : hdr * string list =
  match a with
  | addr :: size :: rsvd :: ver :: tc :: ck :: rest ->
    ({ h_addr = z_of_hex addr; h_size = bytes_of_hex size; h_rsvd = z_of_hex rsvd;
       h_ver = z_of_hex ver; h_tc = z_of_hex tc; h_cksum = z_of_hex ck }, rest)
  | _ -> failwith "bad hdr args"

let show_hdr (h : hdr) : string =
  String.concat " " [ hex_of_z h.h_addr; hex_of_bytes h.h_size; hex_of_z h.h_rsvd;
                      hex_of_z h.h_ver; hex_of_z h.h_tc; hex_of_z h.h_cksum ]

(* entry = kind hdr(6) data err *)
let parse_entry (a : string list) : entry * string list =
  match a with
  | kind :: rest ->
    let (h, rest) = parse_hdr rest in
    (match rest with
     | data :: err :: rest ->
       ({ e_kind = z_of_hex kind; e_hdr = h; e_data = bytes_of_hex data; e_err = z_of_hex err }, rest)
     | _ -> failwith "bad entry args")
  | _ -> failwith "bad entry args"

let parse_entries (a : string list) : entry list * string list =
  match a with
  | count :: rest ->
    let n = int_of_z (z_of_hex count) in
    let rec go k l acc =
      if k = 0 then (List.rev acc, l)
      else let (e, r) = parse_entry l in go (k - 1) r (e :: acc) in
    go n rest []
  | _ -> failwith "bad entries args"

let show_entry (e : entry) : string =
  String.concat " " [ hex_of_z e.e_kind; show_hdr e.e_hdr; hex_of_bytes e.e_data; hex_of_z e.e_err ]

let show_list (show : 'a -> string) (l : 'a list) : string =
  String.concat " " (("ok " ^ hex_of_z (z_of_int (List.length l))) :: List.map show l)

let b2s b = if b then "1" else "0"

let eval fn args : string option =
  match fn, args with
  | "phys", [off; size] -> Some ("ok " ^ hex_of_z (phys_of_offset (z_of_hex off) (z_of_hex size)))
  | "offs", [addr; size] -> Some ("ok " ^ hex_of_z (offset_of_phys (z_of_hex addr) (z_of_hex size)))
  | "tail", [addr] -> Some ("ok " ^ hex_of_z (tail_offset_of_phys (z_of_hex addr)))
  | "henc", _ -> let (h, _) = parse_hdr args in Some ("ok " ^ hex_of_bytes (enc_hdr h))
  | "hdec", [b] ->
    Some (match dec_hdr (bytes_of_hex b) with Some h -> "ok " ^ show_hdr h | None -> "err 6")
  | "u24set", [v] -> Some (obs_outcome (fun b -> "ok " ^ hex_of_bytes b) (u24_set (z_of_hex v)))
  | "u24get", [b] -> Some ("ok " ^ hex_of_z (u24_get (bytes_of_hex b)))
  | "settype", [tc; t] ->
    Some (obs_outcome (fun v -> "ok " ^ hex_of_z v) (tc_set_type (z_of_hex tc) (z_of_hex t)))
  | "setcv", [tc; v] -> Some ("ok " ^ hex_of_z (tc_set_cv (z_of_hex tc) (v = "1")))
  | "tcget", [tc] -> Some ("ok " ^ hex_of_z (tc_type (z_of_hex tc)) ^ " " ^ b2s (tc_cv (z_of_hex tc)))
  | "cksum", _ -> let (h, _) = parse_hdr args in Some ("ok " ^ hex_of_z (calc_checksum h))
  | "ptable", [b] -> Some (obs_outcome (show_list show_hdr) (parse_table (bytes_of_hex b)))
  | "range", [img] ->
    Some (obs_outcome (fun (s, e) -> "ok " ^ hex_of_z s ^ " " ^ hex_of_z e) (table_range (bytes_of_hex img)))
  | "gettable", [img] -> Some (obs_outcome (show_list show_hdr) (get_table (bytes_of_hex img)))
  | "getentries", [img] -> Some (obs_outcome (show_list show_entry) (get_entries (bytes_of_hex img)))
  | "inject", img :: off :: rest ->
    let (es, _) = parse_entries rest in
    let (st, c) = inject (bytes_of_hex img) es (z_of_hex off) in
    Some ("ok " ^ hex_of_z c ^ " " ^ hex_of_bytes st)
  | "wtable", img :: count :: rest ->
    let n = int_of_z (z_of_hex count) in
    let rec go k l acc =
      if k = 0 then List.rev acc
      else let (h, r) = parse_hdr l in go (k - 1) r (h :: acc) in
    let hs = go n rest [] in
    Some (obs_outcome (fun (st, c) -> "ok " ^ hex_of_z c ^ " " ^ hex_of_bytes st)
            (write_table (bytes_of_hex img) hs))
  | "recalc", _ ->
    let (es, _) = parse_entries args in
    Some (obs_outcome (show_list show_entry) (recalc es))
  | _ -> None

let () = run_file (fun fn args -> eval fn args) Sys.argv.(1)
