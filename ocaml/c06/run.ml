(* c06 runner: the shared Ffs model evaluated on parse / save; "save_x" and "save_g" are the save
   operation under the two encoder configurations of the implementation (system xz / pure Go) — for
   the model both are [save] with the codec table lines that precede the case. *)
let eval fn args =
  match fn with
  | "save_x" | "save_g" -> Ffsrun.eval_ffs "save" args
  | _ -> Ffsrun.eval_ffs fn args

let () = Glue.run_file eval Sys.argv.(1)
