let () = Glue.run_file Ffsrun.eval_ffs Sys.argv.(1)
