(* c09 runner: "validate <img>" on the extracted Model/Validate (repaired body-checksum check);
   everything else goes to the shared Ffs runner. *)
open Model
open Glue

let obs_validate (img : z list) : string =
  match parse_validate Ffsrun.dec Ffsrun.u2s Ffsrun.nvar true Ffsrun.depth img with
  | Ok None -> "err"
  | Ok (Some l) ->
    String.concat " " (("ok " ^ hex_of_z (z_of_int (List.length l))) :: List.map hex_of_z l)
  | Err _ -> "err"
  | Panic _ -> "panic"
  | Fuel -> "hang"

let eval fn args : string option =
  match fn, args with
  | "validate", [img] ->
    if Ffsrun.has_flash_sig img then None
    else begin
      Ffsrun.table_miss := false; Ffsrun.ucs_inexact := false;
      let r = obs_validate (bytes_of_hex img) in
      if !Ffsrun.table_miss then Some ("codec-table-miss " ^ r)
      else Some r   (* UCS-2 strings do not influence validate *)
    end
  | _ -> Ffsrun.eval_ffs fn args

let () = Glue.run_file eval Sys.argv.(1)
