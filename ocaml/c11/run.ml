open Model
open Glue

(* image argument: "-" = no volume; otherwise volumes separated by '/', files by ',',
   a file is guid.type.size[.ui] (hex) optionally followed by <volumes>, the nested
   volumes of the file ({volumes} and (volumes) are the same to the model: the executor
   wraps the FV-image sections in a GUID-defined / a compression + GUID-defined section);
   an empty volume is the empty string.
   File objects get the identities 0,1,2,... in pre-order. *)
let parse_img (s : string) : image * z =
  if s = "-" then ([], Z0) else begin
    let n = ref 0 in
    let pos = ref 0 in
    let len = String.length s in
    let peek () = if !pos < len then Some s.[!pos] else None in
    let rec vols () : file list list =
      let v = vol () in
      match peek () with
      | Some '/' -> incr pos; v :: vols ()
      | _ -> [v]
    and vol () : file list =
      match peek () with
      | None | Some ('/' | '>' | '}' | ')') -> []
      | _ ->
        let f = file () in
        (match peek () with
         | Some ',' -> incr pos; f :: vol_more ()
         | _ -> [f])
    and vol_more () : file list =
      let f = file () in
      (match peek () with
       | Some ',' -> incr pos; f :: vol_more ()
       | _ -> [f])
    and file () : file =
      let start = !pos in
      while (match peek () with Some (',' | '/' | '<' | '>' | '{' | '}' | '(' | ')') | None -> false | _ -> true) do incr pos done;
      let hd = String.sub s start (!pos - start) in
      let id = !n in incr n;
      let kids = (match peek () with
          | Some ('<' | '{' | '(' as o) -> incr pos; let k = vols () in
            let cl = (match o with '<' -> '>' | '{' -> '}' | _ -> ')') in
            (match peek () with Some c when c = cl -> incr pos | _ -> failwith "missing closing bracket"); k
          | _ -> []) in
      match String.split_on_char '.' hd with
      | g :: t :: sz :: rest ->
        (* optional 4th field: the file's UI section.  "n" = an ordinary name;
           <c><hex> = the string of GUID <hex> written in case variant c (u/l/m) *)
        let ui = match rest with
          | [] | ["n"] -> None
          | [u] -> Some (z_of_hex (String.sub u 1 (String.length u - 1)))
          | _ -> failwith "bad file" in
        { f_id = z_of_int id; f_guid = z_of_hex g; f_type = z_of_hex t; f_size = z_of_hex sz;
          f_ui = ui; f_kids = kids }
      | _ -> failwith "bad file" in
    let r = vols () in
    if !pos <> len then failwith "trailing input";
    (r, z_of_int !n)
  end

(* the root handed to the visitors: no prefix = a region holding the volumes; "V!" the
   single volume itself; "S!" a section holding the volumes; "I!" a flash image whose BIOS
   region holds the volumes (between padding elements); "F!" a file (the image is
   then what is nested in it).  Remove.Visit and Find.Visit only descend through anything
   that is not a volume / file, so the model's image is the list of volumes below the root. *)
let parse_root (s : string) : image * z =
  if String.length s >= 2 && s.[1] = '!' then begin
    let rest = String.sub s 2 (String.length s - 2) in
    match s.[0] with
    | 'V' | 'S' | 'I' -> parse_img rest
    | 'F' -> (match parse_img rest with
        | ([[f]], nx) -> (f.f_kids, nx)
        | _ -> failwith "F! needs one file")
    | _ -> failwith "unknown root kind"
  end else parse_img s

let rec show_file f =
  hex_of_z f.f_guid ^ "." ^ hex_of_z f.f_type ^ "." ^ hex_of_z f.f_size ^
  (match f.f_kids with [] -> "" | k -> "<" ^ show_vols k ^ ">")
and show_vols (vs : file list list) : string =
  String.concat "/" (List.map (fun v -> String.concat "," (List.map show_file v)) vs)
let show_img (img : image) : string = "[" ^ show_vols img ^ "]"
let show_zs (l : z list) : string = "[" ^ String.concat "," (List.map hex_of_z l) ^ "]"

let parse_zs (s : string) : z list =
  if s = "-" then [] else List.map z_of_hex (String.split_on_char ',' s)

let parse_script (s : string) : testres list =
  if s = "-" then [] else
    List.init (String.length s) (fun i -> testres_of_code (z_of_int (Char.code s.[i] - 48)))

let show_res ((b, e) : testres) : string = (if b then "t" else "f") ^ hex_of_z e

let show_clean (o : cstate outcome) : string =
  obs_outcome (fun c ->
      "ok img=" ^ show_img c.c_img ^ " rem=" ^ show_zs c.c_rem ^ " calls=" ^
      String.concat ";" (List.map (fun ((g, im), r) -> hex_of_z g ^ ":" ^ show_img im ^ ":" ^ show_res r) c.c_log))
    o

let eval fn args : string option =
  match fn, args with
  | "clean", [pol; pc; img; script] ->
    let (im, nx) = parse_root img in
    Some (show_clean (dxe_clean fixed (script_oracle (parse_script script)) (z_of_hex pol)
                        (pred_of_code (z_of_hex pc)) im nx))
  | "cleanmono", [pol; pc; img; req] ->
    let (im, nx) = parse_root img in
    Some (show_clean (dxe_clean fixed (boots_iff (parse_zs req)) (z_of_hex pol)
                        (pred_of_code (z_of_hex pc)) im nx))
  | "remove", [pol; pad; sel; img; k] ->
    let (im, nx) = parse_root img in
    let p = if sel.[0] = 'g' then guid_pred (z_of_hex (String.sub sel 1 (String.length sel - 1)))
      else if sel.[0] = 'r' then file_pred (z_of_hex (String.sub sel 1 (String.length sel - 1)))
      else pred_of_code (z_of_hex (String.sub sel 1 (String.length sel - 1))) in
    let r = remove_run fixed (z_of_hex pol) (pad = "1") p im nx in
    Some (match r with
        | Ok ((a, u), _) ->
          (match undo_times (nat_of_int (int_of_z (z_of_hex k))) a u with
           | Ok (b, _) ->
             "ok a=" ^ show_img a ^ " n=" ^ hex_of_z (z_of_int (List.length u)) ^
             " b=" ^ show_img b ^ " c=" ^ show_img (unwind a u)
           | o -> obs_outcome (fun _ -> "?") o)
        | Err e -> "err " ^ hex_of_z e
        | Panic _ -> "panic"
        | Fuel -> "hang")
  | _ -> None

let () = run_file (fun fn args -> eval fn args) Sys.argv.(1)
