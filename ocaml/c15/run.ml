open Model
open Glue

(* names are lists of character codes *)
let name_of_string (s : Stdlib.String.t) : z list =
  List.init (Stdlib.String.length s) (fun i -> z_of_int (Char.code s.[i]))
let string_of_name (n : z list) : Stdlib.String.t =
  Stdlib.String.concat "" (List.map (fun c -> Stdlib.String.make 1 (Char.chr (int_of_z c))) n)

let find_struct (nm : Stdlib.String.t) : (sdesc * sir) option =
  let rec go = function
    | [] -> None
    | ((n, d), ir) :: r -> if string_of_name n = nm then Some (d, ir) else go r in
  go all_structs

let find_container (nm : Stdlib.String.t) : (cdesc * cir) option =
  let rec go = function
    | [] -> None
    | ((n, d), ir) :: r -> if string_of_name n = nm then Some (d, ir) else go r in
  go all_containers

let tokens (s : Stdlib.String.t) = List.filter (fun x -> x <> "") (Stdlib.String.split_on_char ' ' s)

let next = function
  | t :: r -> (t, r)
  | [] -> failwith "value description too short"

let rec vlist_of = function [] -> VNil | x :: r -> VCons (x, vlist_of r)

let rec repeat n f toks =
  if n = 0 then ([], toks) else
    let (x, toks) = f toks in
    let (xs, toks) = repeat (n - 1) f toks in
    (x :: xs, toks)

(* value description -> value, driven by the schema *)
let rec parse_s (s : schema) toks : value * Stdlib.String.t list =
  match s with
  | SNil -> (VNil, toks)
  | SCons (_, t, rest) ->
    let (x, toks) = parse_f t toks in
    let (xs, toks) = parse_s rest toks in
    (VCons (x, xs), toks)
and parse_f (t : fty) toks =
  match t with
  | FInt _ -> let (a, toks) = next toks in (VInt (z_of_hex a), toks)
  | FArr _ | FBytesP _ | FBytesC (_, _) -> let (a, toks) = next toks in (VBytes (bytes_of_hex a), toks)
  | FSub (s, _) -> parse_s s toks
  | FList (_, s, _) ->
    let (c, toks) = next toks in
    let (l, toks) = repeat (int_of_z (z_of_hex c)) (parse_s s) toks in
    (vlist_of l, toks)
  | FListInt (_, _) ->
    let (c, toks) = next toks in
    let (l, toks) = repeat (int_of_z (z_of_hex c))
        (fun toks -> let (a, toks) = next toks in (VInt (z_of_hex a), toks)) toks in
    (vlist_of l, toks)

let rec parse_c (es : celem list) toks : value * Stdlib.String.t list =
  match es with
  | [] -> (VNil, toks)
  | e :: es' ->
    let sch = e.ce_desc.sd_schema in
    let (x, toks) =
      match e.ce_mult with
      | MOne -> parse_s sch toks
      | MOpt ->
        let (c, toks) = next toks in
        if c = "0" then (VNil, toks) else
          let (y, toks) = parse_s sch toks in (VCons (y, VNil), toks)
      | MMany ->
        let (c, toks) = next toks in
        let (l, toks) = repeat (int_of_z (z_of_hex c)) (parse_s sch) toks in
        (vlist_of l, toks) in
    let (xs, toks) = parse_c es' toks in
    (VCons (x, xs), toks)

let rec items = function VCons (x, r) -> x :: items r | _ -> []

(* value -> description *)
let rec show_s (s : schema) (v : value) : Stdlib.String.t list =
  match s, v with
  | SCons (_, t, rest), VCons (x, xs) -> show_f t x @ show_s rest xs
  | SNil, VNil -> []
  | _, _ -> ["?shape"]
and show_f (t : fty) (v : value) =
  match t, v with
  | FInt _, VInt z -> [hex_of_z z]
  | (FArr _ | FBytesP _ | FBytesC (_, _)), VBytes b -> [hex_of_bytes b]
  | FSub (s, _), _ -> show_s s v
  | FList (_, s, _), _ ->
    let l = items v in
    hex_of_z (z_of_int (List.length l)) :: List.concat_map (show_s s) l
  | FListInt (_, _), _ ->
    let l = items v in
    hex_of_z (z_of_int (List.length l)) ::
    List.map (function VInt z -> hex_of_z z | _ -> "?") l
  | _, _ -> ["?shape"]

let rec show_c (es : celem list) (v : value) : Stdlib.String.t list =
  match es, v with
  | [], _ -> []
  | e :: es', VCons (x, xs) ->
    let sch = e.ce_desc.sd_schema in
    (match e.ce_mult, x with
     | MOne, _ -> show_s sch x
     | MOpt, VNil -> ["0"]
     | MOpt, VCons (y, _) -> "1" :: show_s sch y
     | MMany, _ ->
       let l = items x in
       hex_of_z (z_of_int (List.length l)) :: List.concat_map (show_s sch) l
     | _, _ -> ["?shape"]) @ show_c es' xs
  | _, _ -> ["?shape"]

let sp = Stdlib.String.concat " "
let zlen_ l = z_of_int (List.length l)
let zsub a b = hex_of_z (z_of_int (int_of_z a - int_of_z b))
let b1 = function true -> "1" | false -> "0"

let rec range i n = if i >= n then [] else i :: range (i + 1) n

let eval fn args : Stdlib.String.t option =
  match args with
  | nm :: rest ->
    (match find_struct nm, find_container nm with
     | Some (d, ir), _ ->
       let sch = d.sd_schema in
       let value_arg () =
         match rest with
         | [a] -> let (v, left) = parse_s sch (tokens a) in
           if left <> [] then failwith "value description too long" else v
         | _ -> failwith "args" in
       (match fn with
        | "enc" ->
          let v = value_arg () in
          let (v', b) = write d v in
          let (b2, n2) = run_w ir.ir_write v' in
          if b2 <> b then Some "ir-write-differs" else
            Some (sp ("ok" :: hex_of_z n2 :: hex_of_bytes b :: show_s sch v'))
        | "dec" ->
          let b = (match rest with [a] -> bytes_of_hex a | _ -> failwith "args") in
          let spec = read d b in
          let viaIR = run_r ir.ir_read [] b in
          (match spec, viaIR with
           | None, None -> Some "err"
           | Some (v, r), Some ((v2, n2), r2) ->
             if v <> v2 || r <> r2 then Some "ir-read-differs" else
               Some (sp ("ok" :: hex_of_z n2 :: zsub (zlen_ b) (zlen_ r) :: show_s sch v))
           | _, _ -> Some "ir-read-differs")
        | "size" ->
          let v = value_arg () in
          let n = total_size d v in
          if run_z ir.ir_sizes v <> n then Some "ir-size-differs" else Some ("ok " ^ hex_of_z n)
        | "offs" ->
          let v = value_arg () in
          let names = names_s sch in
          let k = List.length names in
          let offs = List.mapi (fun i f ->
              let o = offset_of d v (nat_of_int i) in
              (match run_off (nat_of_int (k + 1)) ir v f with
               | Some o2 when o2 = o -> hex_of_z o
               | _ -> "ir-offset-differs")
              ^ ":" ^ hex_of_z (run_zfield ir.ir_sizes v (nat_of_int i))) names in
          Some (sp ("ok" :: offs))
        | "wf" -> let v = value_arg () in Some ("ok " ^ b1 (wf d v))
        | _ -> None)
     | None, Some (c, _) ->
       let es = c.cd_elems in
       let value_arg () =
         match rest with
         | [a] -> let (v, left) = parse_c es (tokens a) in
           if left <> [] then failwith "value description too long" else v
         | _ -> failwith "args" in
       (match fn with
        | "enc" ->
          let v = value_arg () in
          let (v', b) = cwrite c v in
          Some (sp ("ok" :: hex_of_z (zlen_ b) :: hex_of_bytes b :: show_c es v'))
        | "dec" ->
          let b = (match rest with [a] -> bytes_of_hex a | _ -> failwith "args") in
          Some (obs_outcome (fun (v, n) -> sp ("ok" :: hex_of_z n :: hex_of_z (zlen_ b) :: show_c es v))
                  (match cread c b with Err _ -> Err Z0 | o -> o)
                |> fun s -> if Stdlib.String.length s >= 3 && Stdlib.String.sub s 0 3 = "err" then "err" else s)
        | "size" -> let v = value_arg () in Some ("ok " ^ hex_of_z (csize es v))
        | "offs" ->
          let v = value_arg () in
          let offs = List.mapi (fun i e ->
              let x = (match List.nth_opt (items v) i with Some x -> x | None -> VNil) in
              let sz = (match e.ce_mult with
                  | MOne -> total_size e.ce_desc x
                  | _ -> List.fold_left (fun a y -> a + int_of_z (total_size e.ce_desc y)) 0 (items x) |> z_of_int) in
              hex_of_z (coffset es v (nat_of_int i)) ^ ":" ^ hex_of_z sz) es in
          Some (sp ("ok" :: offs))
        | "wf" -> let v = value_arg () in Some ("ok " ^ b1 (cwf es v))
        | _ -> None)
     | None, None -> Some ("model-failure unknown structure " ^ nm))
  | [] -> None

let () = run_file (fun fn args -> eval fn args) Sys.argv.(1)
