open Model
open Glue

let depth = nat_of_int 64

let opt_z = function None -> "-" | Some v -> hex_of_z v
let opt_b = function None -> "-" | Some b -> hex_of_bytes b

let show_ext (v : nvar) : string =
  if int_of_z (v_type v) = 0 then "x" else
    let x = v_ext v in
    String.concat ":" [ "x" ^ hex_of_z x.x_off; opt_z x.x_attrs; opt_z x.x_cksum; opt_z x.x_expect;
                        opt_z x.x_ts; opt_b x.x_hash; (if x.x_unknown then "1" else "0") ]

let rec show_store (s : nstore) : string =
  let es = s_entries s and gs = s_guids s in
  String.concat " "
    ([ "S"; hex_of_z (s_free s); hex_of_z (s_goff s); hex_of_z (s_len s);
       hex_of_z (z_of_int (List.length gs)) ]
     @ List.map hex_of_bytes gs
     @ [ hex_of_z (z_of_int (List.length es)) ]
     @ List.map show_entry es)

and show_entry (v : nvar) : string =
  String.concat " "
    [ "E"; hex_of_z (v_type v); hex_of_z (v_size v); hex_of_z (v_next v); hex_of_z (v_attrs v);
      hex_of_z (v_off v); hex_of_z (v_nextoff v); hex_of_z (v_dataoff v); hex_of_bytes (v_guid v);
      opt_z (v_gidx v); hex_of_bytes (v_name v); hex_of_bytes (v_buf v); show_ext v;
      (match v_sub v with None -> "-" | Some s -> "N " ^ show_store s) ]

let show_full (s : nstore) : string = "ok " ^ hex_of_bytes (s_buf s) ^ " " ^ show_store s

let bind o f = match o with Ok a -> f a | Err e -> Err e | Panic p -> Panic p | Fuel -> Fuel

let eval fn args : string option =
  match fn, args with
  | "parse", [pol; b] ->
    Some (obs_outcome (fun s -> "ok " ^ show_store s) (c_parse true (z_of_hex pol) (bytes_of_hex b)))
  | "parse0", [pol; b] ->
    Some (obs_outcome (fun s -> "ok " ^ show_store s) (c_parse false (z_of_hex pol) (bytes_of_hex b)))
  | "assemble", [pol; b] ->
    let pol = z_of_hex pol in
    Some (obs_outcome show_full (bind (c_parse true pol (bytes_of_hex b)) (fun s -> c_assemble pol depth s)))
  | "compact", [pol; b] ->
    let pol = z_of_hex pol in
    Some (obs_outcome show_full (bind (c_parse true pol (bytes_of_hex b)) (fun s -> c_compact pol depth s)))
  | "invcompact", [pol; name; b] ->
    let pol = z_of_hex pol in
    Some (obs_outcome show_full
            (bind (c_parse true pol (bytes_of_hex b))
               (fun s -> c_compact pol depth (c_invalidate (bytes_of_hex name) s))))
  | "seq", [pol; ops; b] ->
    let pol = z_of_hex pol in
    let parse_op t =
      if t = "c" then OpCompact else if t = "a" then OpAssemble
      else if String.length t >= 1 && t.[0] = 'i' then
        OpInvalidate (bytes_of_hex (String.sub t 1 (String.length t - 1)))
      else failwith "bad op" in
    let ol = if ops = "-" then [] else List.map parse_op (String.split_on_char ',' ops) in
    Some (obs_outcome show_full (bind (c_parse true pol (bytes_of_hex b)) (fun s -> c_run_ops pol depth ol s)))
  | "ucs2utf8", [b] -> Some (obs_outcome (fun x -> "ok " ^ hex_of_bytes x) (c_ucs2_to_utf8 (bytes_of_hex b)))
  | "utf8ucs2", [b] -> Some ("ok " ^ hex_of_bytes (c_utf8_to_ucs2 (bytes_of_hex b)))
  | _ -> None

let () =
  if Array.length Sys.argv > 2 && Sys.argv.(2) = "-full" then begin
    (* debugging aid: print the model's full observation of every C case *)
    let ic = open_in Sys.argv.(1) in
    (try while true do
         let line = input_line ic in
         match parse_case line with
         | Some c when c.kind = "C" ->
           (match eval c.fn c.args with Some m -> print_endline m | None -> print_endline "unmodelled")
         | _ -> ()
       done with End_of_file -> ())
  end else run_file (fun fn args -> eval fn args) Sys.argv.(1)
