(* editrun.ml — shared by C02 and C03: evaluates the extracted edit model (Model/Edit.v) and the
   independent reader (Model/Valid.v) on the case-file operations of harness/editops and prints the
   observations exactly as the Go side does.

   Operation tokens (one case-file argument each, fields separated by ':', payloads in hex):
     ins:<front|end|after|before|dxe|replace|gfront|gend|gafter|gbefore>:<target text>:<file bytes>
     rm:<0|1>:<target text>            remove / remove_pad
     pe:<target text>:<pe32 bytes>     replace_pe32
     rmx:<0|1>:<pattern>:<set>         remove / remove_pad with a regular expression; <set> = the texts
     pex:<pattern>:<set>:<pe32 bytes>  (comma separated, hex) the pattern matches in full
     ro:<name>:<arg>                   a read-only visitor (find json table count validate cat dump comment)
   The g* spellings are the generalised `insert file <path> <where> <target>` form: same visitor. *)
open Model
open Glue
open Ffsrun

let split_colon (s : string) : string list = String.split_on_char ':' s

let set_of_field (f : string) : z list list =
  if f = "-" || f = "" then [] else List.map bytes_of_hex (String.split_on_char ',' f)

let op_of_token (t : string) : op option =
  match split_colon t with
  | ["ins"; it; target; file] ->
    let it = match it with
      | "front" | "gfront" -> Some IFront | "end" | "gend" -> Some IEnd
      | "after" | "gafter" -> Some IAfter | "before" | "gbefore" -> Some IBefore
      | "dxe" -> Some IDxe | "replace" -> Some IReplace | _ -> None in
    (match it with
     | Some it -> Some (OInsert (it, TLit (bytes_of_hex target), bytes_of_hex file))
     | None -> None)
  | ["insx"; it; _pattern; set; file] ->
    let it = match it with
      | "front" | "gfront" -> Some IFront | "end" | "gend" -> Some IEnd
      | "after" | "gafter" -> Some IAfter | "before" | "gbefore" -> Some IBefore
      | "replace" -> Some IReplace | _ -> None in
    (match it with
     | Some it -> Some (OInsert (it, TSet (set_of_field set), bytes_of_hex file))
     | None -> None)
  | ["rm"; p; target] -> Some (ORemove (p = "1", TLit (bytes_of_hex target)))
  | ["pe"; target; pe] -> Some (OReplacePE32 (TLit (bytes_of_hex target), bytes_of_hex pe))
  (* a pattern: the model gets the set of texts it matches in full (computed by the executor) *)
  | ["rmx"; p; _pattern; set] -> Some (ORemove (p = "1", TSet (set_of_field set)))
  | ["pex"; _pattern; set; pe] -> Some (OReplacePE32 (TSet (set_of_field set), bytes_of_hex pe))
  | "ro" :: _ -> Some ORead
  | _ -> None

let rec ops_of_tokens = function
  | [] -> Some []
  | t :: r ->
    (match op_of_token t, ops_of_tokens r with
     | Some o, Some l -> Some (o :: l)
     | _ -> None)

let z240 = z_of_int 240

(* the stages of utk.Run: ParseCLI, uefi.Parse, ExecuteCLI (k-th visitor), Save *)
let obs_edit (img : z list) (ops : op list) : string =
  let len = List.length img in
  match parse_cli dec u2s nvar depth z240 ops with
  | Err _ -> "err-cli"
  | Panic _ -> "panic"
  | Fuel -> "hang"
  | Ok (cops, pol0) ->
    (match parse_bios dec u2s nvar depth (nat_of_int (len + 1)) pol0 img Z0 with
     | Err _ -> "err-parse"
     | Panic _ -> "panic"
     | Fuel -> "hang"
     | Ok (elems, pol) ->
       let rec go k elems = function
         | [] -> Either.Left elems
         | c :: r ->
           (match run_op depth pol c elems with
            | Ok e -> go (k + 1) e r
            | Err _ -> Either.Right (Printf.sprintf "err-op %d" k)
            | Panic _ -> Either.Right "panic"
            | Fuel -> Either.Right "hang") in
       (match go 0 elems cops with
        | Either.Right s -> s
        | Either.Left elems' ->
          (match asm_bios enc s2u elems' (z_of_int len) (pol, false) with
           | Ok ((_, b), _) -> "ok " ^ hex_of_bytes b
           | Err _ -> "err-save"
           | Panic _ -> "panic"
           | Fuel -> "hang")))

let obs_find (img : z list) (s : sel) : string =
  match parse_bios dec u2s nvar depth (nat_of_int (List.length img + 1)) z240 img Z0 with
  | Err _ -> "err-parse"
  | Panic _ -> "panic"
  | Fuel -> "hang"
  | Ok (elems, _) ->
    let b = Buffer.create 64 in
    List.iter (fun n ->
        match n with
        | NFile (h, _, _) -> Buffer.add_string b ("F:" ^ hex_of_bytes h.f_guid ^ ";")
        | NVol (h, _, _) -> Buffer.add_string b ("V:" ^ hex_of_bytes (fv_name h) ^ ";")
        | _ -> Buffer.add_string b "?;")
      (find_elems s elems);
    "ok " ^ Buffer.contents b

let eval_edit fn args : string option =
  table_miss := false; ucs_inexact := false;
  let r =
    match fn, args with
    | "edit", img :: toks ->
      (match ops_of_tokens toks with
       | Some ops -> Some (obs_edit (bytes_of_hex img) ops)
       | None -> None)
    | "editvalid", img :: toks ->
      (match ops_of_tokens toks with
       | Some ops ->
         let o = obs_edit (bytes_of_hex img) ops in
         if String.length o >= 3 && String.sub o 0 3 = "ok " then
           Some (if valid_image dec depth (bytes_of_hex (String.sub o 3 (String.length o - 3))) then "ok 1" else "ok 0")
         else Some o
       | None -> None)
    | "flat", img :: toks ->
      (* the hypothesis of C02_valid_after_edits_flat; the reader's depth is one more than the
         depth below the top-level volumes *)
      (match ops_of_tokens toks, depth with
       | Some ops, S d -> Some (if flat_check dec u2s nvar depth d ops (bytes_of_hex img) then "flat" else "not-flat")
       | _ -> None)
    | "find", [img; fvp; arg] -> Some (obs_find (bytes_of_hex img) (SText (fvp = "1", bytes_of_hex arg)))
    | "findx", [img; _pattern; set] -> Some (obs_find (bytes_of_hex img) (SAny (false, set_of_field set)))
    | "valid", [img] ->
      Some (if valid_image dec depth (bytes_of_hex img) then "ok 1" else "ok 0")
    | "guidstr", [g] -> Some ("ok " ^ hex_of_bytes (guid_string (bytes_of_hex g)))
    | "guidparse", [s] ->
      Some (match guid_parse (bytes_of_hex s) with
          | Some g -> "ok " ^ hex_of_bytes g
          | None -> "err")
    | _ -> Ffsrun.eval_ffs fn args in
  match r with
  | Some s when !table_miss -> Some ("codec-table-miss " ^ s)
  | Some _ when !ucs_inexact -> None
  | x -> x
