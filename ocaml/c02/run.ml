(* c02 runner: the shared edit runner plus the create-fv operation of Model/CreateFv.v
   (create_fv_region with the repaired size check; the executor emits only whole-block sizes, on
   which the pinned code is the same function) *)
open Model
open Glue
open Ffsrun

let obs_createfv (img : z list) (off : z) (size : z) (name : z list) : string =
  let len = List.length img in
  match parse_bios dec u2s nvar depth (nat_of_int (len + 1)) (z_of_int 240) img Z0 with
  | Err _ -> "err-parse"
  | Panic _ -> "panic"
  | Fuel -> "hang"
  | Ok (elems, pol) ->
    (match create_fv_region true pol elems (z_of_int len) off size name with
     | Err _ -> "err-op 0"
     | Panic _ -> "panic"
     | Fuel -> "hang"
     | Ok elems' ->
       (match asm_bios enc s2u elems' (z_of_int len) (pol, false) with
        | Ok ((_, b), _) -> "ok " ^ hex_of_bytes b
        | Err _ -> "err-save"
        | Panic _ -> "panic"
        | Fuel -> "hang"))

let eval fn args : string option =
  match fn, args with
  | "createfv", [img; off; size; name] ->
    table_miss := false; ucs_inexact := false;
    let o = obs_createfv (bytes_of_hex img) (z_of_hex off) (z_of_hex size) (bytes_of_hex name) in
    if !table_miss then Some ("codec-table-miss " ^ o) else if !ucs_inexact then None else Some o
  | _ -> Editrun.eval_edit fn args

let () = Glue.run_file eval Sys.argv.(1)
