open Model
open Glue

let b01 s = (s = "1")

(* result of a codec oracle as an argument: "ok:<hex>" or "err" *)
let oracle_of (s : string) : z list outcome =
  if String.length s >= 3 && String.sub s 0 3 = "ok:" then
    Ok (bytes_of_hex (String.sub s 3 (String.length s - 3)))
  else Err e_CODEC

let show_bytes b = "ok " ^ hex_of_bytes b

(* all results of a history, or the first failure *)
let show_history (rs : z list outcome list) : string =
  let rec go acc = function
    | [] -> "ok " ^ String.concat " " (List.rev acc)
    | Ok b :: r -> go (hex_of_bytes b :: acc) r
    | o :: _ -> obs_outcome (fun _ -> "") o in
  go [] rs

let eval fn args : string option =
  match fn, args with
  (* x86Convert with everything exposed: enc ip state data -> data state ret *)
  | "x86conv", [enc; ip; st; d] ->
    Some (obs_outcome
            (fun ((o, s), r) -> "ok " ^ hex_of_bytes o ^ " " ^ hex_of_z s ^ " " ^ hex_of_z r)
            (x86_convert (b01 enc) (z_of_hex ip) (z_of_hex st) (bytes_of_hex d)))
  (* the filter as LZMAX86 applies it *)
  | "x86", [enc; d] -> Some (show_bytes (x86 (b01 enc) (bytes_of_hex d)))
  (* ZLIB.Encode given what compress/zlib produced for x *)
  | "zlibenc", [x; c] ->
    Some (obs_outcome show_bytes (zlib_encode (fun _ -> bytes_of_hex c) (bytes_of_hex x)))
  (* ZLIB.Decode given what compress/zlib says about the body *)
  | "zlibdec", [e; res] ->
    Some (obs_outcome show_bytes (zlib_decode (fun _ -> oracle_of res) (bytes_of_hex e)))
  (* SystemLZMA.Encode given what xz printed *)
  | "sysenc", [x; raw] ->
    Some (obs_outcome show_bytes (syslzma_encode (fun _ -> oracle_of raw) (bytes_of_hex x)))
  (* LZMA.Encode given what the library writer produced without / with end marker *)
  | "lzmaenc", [x; raw0; raw1] ->
    Some (obs_outcome show_bytes
            (lzma_encode (fun eos _ -> oracle_of (if eos then raw1 else raw0)) (bytes_of_hex x)))
  (* histories: e_i := Encode(x_i) for all i, every result observed after the last call.
     The codec core is a function of its argument: the table built from the arguments. *)
  | "lzmaseq", l ->
    let rec items = function
      | x :: r0 :: r1 :: rest -> (bytes_of_hex x, (r0, r1)) :: items rest
      | _ -> [] in
    let tbl = items l in
    let core eos x = let (r0, r1) = List.assoc x tbl in oracle_of (if eos then r1 else r0) in
    Some (show_history (call_history (lzma_encode core) (List.map fst tbl)))
  | "zlibseq", l ->
    let rec items = function
      | x :: c :: rest -> (bytes_of_hex x, bytes_of_hex c) :: items rest
      | _ -> [] in
    let tbl = items l in
    Some (show_history (call_history (zlib_encode (fun x -> List.assoc x tbl)) (List.map fst tbl)))
  | "sysseq", l ->
    let rec items = function
      | x :: raw :: rest -> (bytes_of_hex x, raw) :: items rest
      | _ -> [] in
    let tbl = items l in
    Some (show_history (call_history (syslzma_encode (fun x -> oracle_of (List.assoc x tbl))) (List.map fst tbl)))
  | _ -> None

let () = run_file (fun fn args -> eval fn args) Sys.argv.(1)
