(* c07ops.ml — evaluates the extract / reload model on the C operations of harness/cmd/c07 and prints
   the observations exactly as the Go executor does. *)
open Model
open Glue
open Ffsrun

let string_of_bytes (l : z list) : string =
  String.init (List.length l) (fun i -> Char.chr (int_of_z (List.nth l i) land 255))

(* ThreeUint8.UnmarshalJSON keeps the first three characters of the decimal text; the model's theorems
   hold for any function here *)
let mangle3 (v : z) : z =
  let s = string_of_int (int_of_z v) in
  let c i = if i < String.length s then Char.code s.[i] else 0 in
  z_of_int (c 0 lor (c 1 lsl 8) lor (c 2 lsl 16))

let obs_xpaths img =
  match parse_region dec u2s nvar depth img with
  | Err _ -> "err"
  | Panic _ -> "panic"
  | Fuel -> "hang"
  | Ok (elems, _) ->
    (match extract_region img elems with
     | Ok ((_, _), f) ->
       let ps = List.map (fun (p, _) -> string_of_bytes (render_path p)) f in
       let sorted = List.sort_uniq compare ps in
       (* the model facts the theorems assume of parsed trees are part of the observation: the Go side
          prints the constant 1s *)
       Printf.sprintf "ok n=%x w=%x %s" (List.length sorted) (List.length ps) (String.concat " " sorted)
       ^ (if wf_treeb_list elems && paths_okb_list elems && nodupb (keys elems) then "" else " MODEL-HYPOTHESIS-FALSE")
     | Err _ -> "err-extract"
     | Panic _ -> "panic"
     | Fuel -> "hang")

let obs_dirsave img =
  match parse_region dec u2s nvar depth img with
  | Err _ -> "err"
  | Panic _ -> "panic"
  | Fuel -> "hang"
  | Ok (elems, _) ->
    (match dir_save_tree enc s2u mangle3 img elems (z_of_int (List.length img)) with
     | Ok b -> "ok " ^ hex_of_bytes b
     | Err e -> if int_of_z e = 30 then "err-load" else "err-asm"
     | Panic _ -> "panic"
     | Fuel -> "hang")

let obs_saveproj img =
  match parse_region dec u2s nvar depth img with
  | Err _ -> "err"
  | Panic _ -> "panic"
  | Fuel -> "hang"
  | Ok _ ->
    (match save_projected dec enc u2s s2u nvar mangle3 depth img with
     | Ok b -> "ok " ^ hex_of_bytes b
     | Err _ -> "err-asm"
     | Panic _ -> "panic"
     | Fuel -> "hang")

(* ---- single-field edits of summary.json (Model/ExtractEdit.v) ---- *)
(* the opcode bytes of a dependency expression as the (opcode, GUID) list of the JSON *)
let rec depex_ops (b : z list) : (z * z list option) list =
  match b with
  | [] -> []
  | op :: r when int_of_z op <= 2 ->
    let rec take n l acc = if n = 0 then (List.rev acc, l) else
        match l with x :: t -> take (n - 1) t (x :: acc) | [] -> (List.rev acc, []) in
    let (g, rest) = take 16 r [] in
    (op, Some g) :: depex_ops rest
  | op :: r -> (op, None) :: depex_ops r

let fedit_of kind (v : z list) : fedit option =
  match kind with
  | "guid" -> Some (EGuid v)
  | "ui" -> Some (EName v)
  | "version" -> Some (EVersion v)
  | "depex" -> Some (EDepex (depex_ops v))
  | _ -> None

let obs_diredit img kind k v =
  match fedit_of kind v with
  | None -> "harness-error kind"
  | Some e ->
  match parse_region dec u2s nvar depth img with
  | Err _ -> "err"
  | Panic _ -> "panic"
  | Fuel -> "hang"
  | Ok _ ->
    (match dir_edit_save dec enc u2s s2u nvar mangle3 depth img e (nat_of_int k) with
     | Ok b -> "ok " ^ hex_of_bytes b
     | Err e -> if int_of_z e = 30 then "err-load" else "err-asm"
     | Panic _ -> "panic"
     | Fuel -> "hang")

(* ---- flash images (descriptor + regions): Model/ExtractFlash.v ---- *)
let flash_parses img =
  match flash_layout img with
  | Ok t -> (match bios_tree dec u2s nvar depth t with Ok _ -> `Ok | Err _ -> `Err | Panic _ -> `Panic | Fuel -> `Fuel)
  | Err _ -> `Err | Panic _ -> `Panic | Fuel -> `Fuel

let obs_fxpaths img =
  match flash_parses img with
  | `Err -> "err" | `Panic -> "panic" | `Fuel -> "hang"
  | `Ok ->
    (match flash_extract_paths dec u2s nvar depth img with
     | Ok ps ->
       let ps = List.map (fun p -> string_of_bytes (render_path p)) ps in
       let sorted = List.sort_uniq compare ps in
       Printf.sprintf "ok n=%x w=%x %s" (List.length sorted) (List.length ps) (String.concat " " sorted)
     | Err _ -> "err-extract" | Panic _ -> "panic" | Fuel -> "hang")

let obs_fdirsave img =
  match flash_parses img with
  | `Err -> "err" | `Panic -> "panic" | `Fuel -> "hang"
  | `Ok ->
    (match flash_dir_save dec enc u2s s2u nvar mangle3 depth img with
     | Ok b -> "ok " ^ hex_of_bytes b
     | Err e -> if int_of_z e = 30 then "err-load" else "err-asm"
     | Panic _ -> "panic" | Fuel -> "hang")

(* ---- the directory of an NVAR store (Model/ExtractNvar.v) ---- *)
let obs_nvdir store =
  let pol = z_of_int 255 in
  match c7_nv_paths pol depth store with
  | Err _ -> "err" | Panic _ -> "panic" | Fuel -> "hang"
  | Ok fs ->
    let items = List.map (fun (p, b) -> Printf.sprintf "%s:%x:%x" (string_of_bytes p) (List.length b) (fnv b)) fs in
    let sorted = List.sort compare items in
    (match c7_nv_dir_save pol depth store with
     | Ok b -> Printf.sprintf "ok %x %s | %s" (List.length items) (String.concat " " sorted) (hex_of_bytes b)
     | Err _ -> "err-asm" | Panic _ -> "panic" | Fuel -> "hang")

let eval fn args : string option =
  table_miss := false; ucs_inexact := false;
  match fn, args with
  | "nvdir", [_; store] -> Some (obs_nvdir (bytes_of_hex store))
  | "guidstr", [g] -> Some ("ok " ^ hex_of_bytes (guid_string (bytes_of_hex g)))
  | "guidparse", [t] ->
    Some (match guid_parse (bytes_of_hex t) with Some g -> "ok " ^ hex_of_bytes g | None -> "err")
  | _ ->
  match args with
  | img :: _ when has_flash_sig img ->
    let r = match fn, args with
      | "xpaths", [img] -> Some (obs_fxpaths (bytes_of_hex img))
      | "dirsave", [img] -> Some (obs_fdirsave (bytes_of_hex img))
      | _ -> None in
    (match r with
     | Some s when !table_miss -> Some ("codec-table-miss " ^ s)
     | Some _ when !ucs_inexact -> None
     | x -> x)
  | _ ->
    let r = match fn, args with
      | "xpaths", [img] -> Some (obs_xpaths (bytes_of_hex img))
      | "dirsave", [img] -> Some (obs_dirsave (bytes_of_hex img))
      | "saveproj", [img] -> Some (obs_saveproj (bytes_of_hex img))
      | "diredit", [img; kind; k; v] -> Some (obs_diredit (bytes_of_hex img) kind (int_of_string ("0x" ^ k)) (bytes_of_hex v))
      | _ -> None in
    match r with
    | None -> eval_ffs fn args
    | Some s when !table_miss -> Some ("codec-table-miss " ^ s)
    | Some _ when !ucs_inexact -> None
    | x -> x
