let () = Glue.run_file C07ops.eval Sys.argv.(1)
